import Py4hwV.Proofs.C01FlatRun
/-
  C01 design level: the emitted shape (`FlatDesign`) satisfies the hypotheses of the generic theorems
  (`SeqCorr`), from explicit well-formedness conditions: injective naming, single driver, acyclic schedule,
  covered primitives with printable literals.
-/
set_option linter.unusedSimpArgs false
namespace FlatM
open V C01 Net

theorem inj_of_nodup_map {α β : Type} (f : α → β) (l : List α) (h : (l.map f).Nodup) {a b : α}
    (ha : a ∈ l) (hb : b ∈ l) (e : f a = f b) : a = b := by
  induction l with
  | nil => cases ha
  | cons x l ih =>
    simp only [List.map_cons, List.nodup_cons] at h
    simp only [List.mem_cons] at ha hb
    rcases ha with ha | ha <;> rcases hb with hb | hb
    · rw [ha, hb]
    · subst ha; exact absurd (List.mem_map.mpr ⟨b, hb, e.symm⟩) h.1
    · subst hb; exact absurd (List.mem_map.mpr ⟨a, ha, e⟩) h.1
    · exact ih h.2 ha hb

/-- well-formedness of a flat design: the explicit hypotheses of the design-level theorem -/
structure FlatDesign.WF (F : FlatDesign) : Prop where
  /-- injective naming: the nets of the top module, the instance-local names of the flattened registers and the
      clock port all have different names -/
  names_inj : F.names.Nodup
  nets_nodup : F.nets.Nodup
  /-- every net a child is connected to is declared -/
  nets_kinds : ∀ k, k ∈ F.kinds → k.out ∈ F.nets ∧ ∀ x, x ∈ (k.leaf F.wd).ins → x ∈ F.nets
  nets_regs : ∀ R, R ∈ F.regs → R.leaf.d ∈ F.nets ∧ R.leaf.q ∈ F.nets ∧
    (R.leaf.hasE = true → R.leaf.e ∈ F.nets) ∧ (R.leaf.hasR = true → R.leaf.r ∈ F.nets)
  /-- single driver per net -/
  single_driver : (F.kinds.map Kind.out ++ F.regs.map (·.leaf.q)).Nodup
  /-- acyclic: the simulator's schedule lists every combinational leaf once, sources first (C04) -/
  order_perm : F.order.Perm (List.range F.kinds.length)
  acyclic : C04.TopoOK F.netD.comb F.order
  /-- covered forms: selected bits / ranges inside the operand, literals printable as non-negative 32-bit decimals -/
  kinds_ok : ∀ k, k ∈ F.kinds → k.ok F.wd
  rv_lt : ∀ R, R ∈ F.regs → R.leaf.rv < 2 ^ 31

namespace FlatDesign
variable {F : FlatDesign}

/-! ### names -/

theorem mem_nodes_net {k : Nat} (h : k ∈ F.nets) : Node.net k ∈ F.nodes := by
  unfold nodes; simp only [List.mem_append, List.mem_map]; left; exact ⟨k, h, rfl⟩

theorem mem_nodes_reg {R : RegI} (hR : R ∈ F.regs) {x : Node} (hx : x ∈ R.nodes) : x ∈ F.nodes := by
  unfold nodes; simp only [List.mem_append, List.mem_flatMap]; right; left; exact ⟨R, hR, hx⟩

theorem mem_regnodes_q (R : RegI) : Node.q R ∈ R.nodes := by simp [RegI.nodes]
theorem mem_regnodes_rq (R : RegI) : Node.rq R ∈ R.nodes := by simp [RegI.nodes]
theorem mem_regnodes_d (R : RegI) : Node.d R ∈ R.nodes := by simp [RegI.nodes]
theorem mem_regnodes_clk (R : RegI) : Node.clk R ∈ R.nodes := by simp [RegI.nodes]
theorem mem_regnodes_e (R : RegI) (h : R.leaf.hasE = true) : Node.e R ∈ R.nodes := by simp [RegI.nodes, h]
theorem mem_regnodes_r (R : RegI) (h : R.leaf.hasR = true) : Node.r R ∈ R.nodes := by simp [RegI.nodes, h]

theorem regnodes_inv {R : RegI} {x : Node} (hx : x ∈ R.nodes) :
    x = .q R ∨ x = .rq R ∨ x = .d R ∨ x = .clk R ∨ (x = .e R ∧ R.leaf.hasE = true) ∨ (x = .r R ∧ R.leaf.hasR = true) := by
  unfold RegI.nodes at hx
  cases he : R.leaf.hasE <;> cases hr : R.leaf.hasR <;>
    simp only [he, hr, List.mem_append, List.mem_cons, List.not_mem_nil, or_false, if_true, if_false,
      Bool.false_eq_true, and_true, and_false] at hx ⊢ <;> grind

theorem nodes_inv {x : Node} (hx : x ∈ F.nodes) :
    (∃ k, k ∈ F.nets ∧ x = .net k) ∨ (∃ R, R ∈ F.regs ∧ x ∈ R.nodes) ∨ x = .base := by
  unfold nodes at hx
  simp only [List.mem_append, List.mem_map, List.mem_flatMap, List.mem_cons, List.not_mem_nil, or_false] at hx
  rcases hx with ⟨k, hk, e⟩ | ⟨R, hR, hx⟩ | e
  · exact Or.inl ⟨k, hk, e.symm⟩
  · exact Or.inr (Or.inl ⟨R, hR, hx⟩)
  · exact Or.inr (Or.inr e)

theorem name_inj (h : F.names.Nodup) {x y : Node} (hx : x ∈ F.nodes) (hy : y ∈ F.nodes) (e : F.name x = F.name y) :
    x = y := inj_of_nodup_map F.name F.nodes h hx hy e

theorem name_ne (h : F.names.Nodup) {x y : Node} (hx : x ∈ F.nodes) (hy : y ∈ F.nodes) (e : x ≠ y) :
    F.name x ≠ F.name y := fun e' => e (name_inj h hx hy e')

theorem net_name (h : F.names.Nodup) {x : Node} (hx : x ∈ F.nodes) : F.net (F.name x) = netOf x := by
  unfold net
  cases hf : F.nodes.find? (fun y => F.name y == F.name x) with
  | none =>
    have := List.find?_eq_none.mp hf x hx
    simp at this
  | some y =>
    have hy : y ∈ F.nodes := List.mem_of_find?_eq_some hf
    have hp := List.find?_some hf
    simp only [beq_iff_eq] at hp
    rw [name_inj h hy hx hp]
    rfl

theorem net_inv {s : String} {k : Nat} (h : F.net s = some k) : ∃ x, x ∈ F.nodes ∧ F.name x = s ∧ netOf x = some k := by
  unfold net at h
  cases hf : F.nodes.find? (fun y => F.name y == s) with
  | none => rw [hf] at h; cases h
  | some y =>
    rw [hf] at h
    have hp := List.find?_some hf
    simp only [beq_iff_eq] at hp
    exact ⟨y, List.mem_of_find?_eq_some hf, hp, h⟩

/-! ### the assigns, by form -/

theorem out_leaf (wd : Nat → Nat) (k : Kind) : (k.leaf wd).out = k.out := by cases k <;> rfl

theorem more_leaf (wd : Nat → Nat) (k : Kind) : (k.leaf wd).more = [] := by cases k <;> rfl

theorem outs_leaf (wd : Nat → Nat) (k : Kind) : (k.leaf wd).outs.map (·.1) = [k.out] := by
  rw [outs_single _ (more_leaf wd k)]; simp [out_leaf]

theorem tgt_assign (wd : Nat → Nat) (nm : Nat → String) (k : Kind) : tgt (k.assign wd nm) = nm k.out := by
  cases k <;> try rfl
  case const v r =>
    simp only [tgt, Kind.assign, Kind.lhs, Kind.out]
    split <;> rfl

theorem reads_catChain (l : List String) : ∀ n, n ∈ reads (catChain l) ↔ (l ≠ [] ∧ n ∈ l) := by
  induction l with
  | nil => intro n; simp [catChain, reads, lit]
  | cons a l ih =>
    cases l with
    | nil => intro n; simp [catChain, reads]
    | cons b l =>
      intro n
      simp only [catChain, reads, List.singleton_append, List.mem_cons, ih n]
      simp

/-- an inline form reads only (names of) inputs of its leaf … -/
theorem reads_rhs_sub (wd : Nat → Nat) (nm : Nat → String) (k : Kind) :
    ∀ n, n ∈ reads (k.rhs wd nm) → n ∈ (k.leaf wd).ins.map nm := by
  cases k
  case catm ins r => intro n hn; exact ((reads_catChain _ n).mp hn).2
  case catl ins r => intro n hn; exact ((reads_catChain _ n).mp hn).2
  case rept i r =>
    intro n hn
    have := ((reads_catChain _ n).mp hn).2
    rw [List.eq_of_mem_replicate this]; simp [Kind.leaf]
  case sext a r =>
    intro n hn
    simp only [Kind.rhs] at hn
    split at hn <;> simp_all [Kind.leaf, reads, sextExpr, lit]
  all_goals simp [Kind.rhs, Kind.leaf, reads, lit]

/-- … and, in the covered forms, all of them -/
theorem reads_rhs_sup (wd : Nat → Nat) (nm : Nat → String) (k : Kind) (hok : k.ok wd) :
    ∀ x, x ∈ (k.leaf wd).ins → nm x ∈ reads (k.rhs wd nm) := by
  cases k
  case catm ins r =>
    intro x hx
    exact (reads_catChain _ _).mpr ⟨by intro e; exact hok (by simpa using e), List.mem_map.mpr ⟨x, hx, rfl⟩⟩
  case catl ins r =>
    intro x hx
    exact (reads_catChain _ _).mpr ⟨by intro e; exact hok (by simpa using e), List.mem_map.mpr ⟨x, hx, rfl⟩⟩
  case rept i r =>
    intro x hx
    have hx' : x = i := by simpa [Kind.leaf] using hx
    subst hx'
    have hw : 0 < wd r := hok.2
    refine (reads_catChain _ _).mpr ⟨?_, ?_⟩
    · intro e; have := congrArg List.length e; simp at this; omega
    · exact List.mem_replicate.mpr ⟨by omega, rfl⟩
  case sext a r =>
    intro x hx
    have hx' : x = a := by simpa [Kind.leaf] using hx
    subst hx'
    simp only [Kind.rhs]
    split <;> simp [reads, sextExpr, lit]
  all_goals simp [Kind.rhs, Kind.leaf, reads, lit]

inductive AForm (F : FlatDesign) : LHS × Expr → Prop where
  | kind (k : Kind) (hk : k ∈ F.kinds) : AForm F (k.assign F.wd F.nm)
  | hq (R : RegI) (hR : R ∈ F.regs) : AForm F (.lid (F.name (.q R)), .id (F.name (.rq R)))
  | hn (R : RegI) (hR : R ∈ F.regs) : AForm F (.lid (F.name (.net R.leaf.q)), .id (F.name (.q R)))
  | tc (R : RegI) (hR : R ∈ F.regs) : AForm F (.lid (F.name (.clk R)), .id (F.name .base))
  | td (R : RegI) (hR : R ∈ F.regs) : AForm F (.lid (F.name (.d R)), .id (F.name (.net R.leaf.d)))
  | te (R : RegI) (hR : R ∈ F.regs) (h : R.leaf.hasE = true) : AForm F (.lid (F.name (.e R)), .id (F.name (.net R.leaf.e)))
  | tr (R : RegI) (hR : R ∈ F.regs) (h : R.leaf.hasR = true) : AForm F (.lid (F.name (.r R)), .id (F.name (.net R.leaf.r)))

inductive TForm (F : FlatDesign) (R : RegI) : LHS × Expr → Prop where
  | tc : TForm F R (.lid (F.name (.clk R)), .id (F.name .base))
  | td : TForm F R (.lid (F.name (.d R)), .id (F.name (.net R.leaf.d)))
  | te (h : R.leaf.hasE = true) : TForm F R (.lid (F.name (.e R)), .id (F.name (.net R.leaf.e)))
  | tr (h : R.leaf.hasR = true) : TForm F R (.lid (F.name (.r R)), .id (F.name (.net R.leaf.r)))

theorem tform_tail {R : RegI} {a : LHS × Expr} (ha : a ∈ R.tail F.nm F.clk) : TForm F R a := by
  unfold RegI.tail at ha
  cases he : R.leaf.hasE <;> cases hr : R.leaf.hasR <;>
    simp only [he, hr, List.mem_append, List.mem_cons, List.not_mem_nil, or_false, if_true, if_false,
      Bool.false_eq_true] at ha
  · rcases ha with e | e <;> subst e
    · exact TForm.td
    · exact TForm.tc
  · rcases ha with (e | e) | e <;> subst e
    · exact TForm.td
    · exact TForm.tc
    · exact TForm.tr hr
  · rcases ha with (e | e) | e <;> subst e
    · exact TForm.td
    · exact TForm.tc
    · exact TForm.te he
  · rcases ha with ((e | e) | e) | e <;> subst e
    · exact TForm.td
    · exact TForm.tc
    · exact TForm.te he
    · exact TForm.tr hr

theorem aform_tail {R : RegI} (hR : R ∈ F.regs) {a : LHS × Expr} (ha : a ∈ R.tail F.nm F.clk) : AForm F a := by
  cases tform_tail ha with
  | tc => exact AForm.tc R hR
  | td => exact AForm.td R hR
  | te h => exact AForm.te R hR h
  | tr h => exact AForm.tr R hR h

theorem flatMap_congr' {α β : Type} (l : List α) (f g : α → List β) (h : ∀ a, a ∈ l → f a = g a) :
    l.flatMap f = l.flatMap g := by
  induction l with
  | nil => rfl
  | cons a l ih => simp only [List.flatMap_cons, h a (by simp), ih (fun b hb => h b (by simp [hb]))]

theorem aform_of_mem {a : LHS × Expr} (ha : a ∈ F.assigns) : AForm F a := by
  simp only [assigns, List.mem_append, List.mem_map, List.mem_flatMap] at ha
  rcases ha with ⟨R, hR, e⟩ | ⟨R, hR, e⟩ | ⟨k, hk, e⟩ | ⟨R, hR, h⟩
  · subst e; exact AForm.hq R hR
  · subst e; exact AForm.hn R hR
  · subst e; exact AForm.kind k hk
  · exact aform_tail hR h

/-- the driven signals -/
def regDriven (R : RegI) : List Node :=
  [.d R, .clk R] ++ (if R.leaf.hasE then [.e R] else []) ++ (if R.leaf.hasR then [.r R] else [])

def driven (F : FlatDesign) : List Node :=
  F.regs.map .q ++ (F.regs.map (fun R => .net R.leaf.q) ++ (F.kinds.map (fun k => .net k.out) ++ F.regs.flatMap regDriven))

theorem tgts_eq : F.assigns.map tgt = F.driven.map F.name := by
  unfold assigns driven
  simp only [List.map_append, List.map_map, List.map_flatMap]
  congr 1
  congr 1
  congr 1
  · apply List.map_congr_left
    intro k _
    simp [tgt_assign, name]
  · apply flatMap_congr'
    intro R _
    cases he : R.leaf.hasE <;> cases hr : R.leaf.hasR <;>
      simp [RegI.tail, regDriven, he, hr, tgt, LHS.name, name]

theorem driven_inv {y : Node} (hy : y ∈ F.driven) :
    (∃ k, k ∈ F.kinds ∧ y = .net k.out) ∨
    (∃ R, R ∈ F.regs ∧ (y = .q R ∨ y = .net R.leaf.q ∨ y = .clk R ∨ y = .d R ∨ (y = .e R ∧ R.leaf.hasE = true) ∨
      (y = .r R ∧ R.leaf.hasR = true))) := by
  unfold driven at hy
  simp only [List.mem_append, List.mem_map, List.mem_flatMap] at hy
  rcases hy with ⟨R, hR, e⟩ | ⟨R, hR, e⟩ | ⟨k, hk, e⟩ | ⟨R, hR, hy⟩
  · exact Or.inr ⟨R, hR, Or.inl e.symm⟩
  · exact Or.inr ⟨R, hR, Or.inr (Or.inl e.symm)⟩
  · exact Or.inl ⟨k, hk, e.symm⟩
  · right
    refine ⟨R, hR, ?_⟩
    unfold regDriven at hy
    cases he : R.leaf.hasE <;> cases hr : R.leaf.hasR <;>
      simp only [he, hr, List.mem_append, List.mem_cons, List.not_mem_nil, or_false, if_true, if_false,
        Bool.false_eq_true, and_true, and_false] at hy ⊢ <;> grind

theorem driven_nodes (hF : F.WF) {y : Node} (hy : y ∈ F.driven) : y ∈ F.nodes := by
  rcases driven_inv hy with ⟨k, hk, e⟩ | ⟨R, hR, e | e | e | e | ⟨e, h⟩ | ⟨e, h⟩⟩ <;> subst e
  · exact mem_nodes_net (hF.nets_kinds k hk).1
  · exact mem_nodes_reg hR (mem_regnodes_q R)
  · exact mem_nodes_net (hF.nets_regs R hR).2.1
  · exact mem_nodes_reg hR (mem_regnodes_clk R)
  · exact mem_nodes_reg hR (mem_regnodes_d R)
  · exact mem_nodes_reg hR (mem_regnodes_e R h)
  · exact mem_nodes_reg hR (mem_regnodes_r R h)

/-- a declared signal is undriven iff it is not in the driven list -/
theorem undriven_iff (hF : F.WF) {x : Node} (hx : x ∈ F.nodes) : F.name x ∉ F.assigns.map tgt ↔ x ∉ F.driven := by
  rw [tgts_eq]
  constructor
  · intro h hd; exact h (List.mem_map.mpr ⟨x, hd, rfl⟩)
  · intro h hm
    rcases List.mem_map.mp hm with ⟨y, hy, e⟩
    exact h (name_inj hF.names_inj (driven_nodes hF hy) hx e ▸ hy)

/-! ### the hypotheses of the generic theorems -/

theorem net_nm (hF : F.WF) {k : Nat} (hk : k ∈ F.nets) : F.net (F.nm k) = some k :=
  net_name hF.names_inj (x := .net k) (mem_nodes_net hk)

theorem just_all (hF : F.WF) (V : Nat → Nat) (hfix : CombFix F.netD V) (hV : ∀ k, V k < 2 ^ F.wd k)
    (a : LHS × Expr) (ha : a ∈ F.assigns) : Just F.net F.wd V a := by
  have hVn : ∀ n k, F.net n = some k → V k < 2 ^ F.wd k := fun _ k _ => hV k
  cases aform_of_mem ha with
  | kind k hk =>
    intro kk hkk r hK
    have hnets := hF.nets_kinds k hk
    rw [tgt_assign, net_nm hF hnets.1] at hkk
    have hkk' : k.out = kk := Option.some.inj hkk
    subst hkk'
    constructor
    · intro n hn
      rcases List.mem_map.mp (reads_rhs_sub F.wd F.nm k n hn) with ⟨x, hx, e⟩
      exact ⟨x, e ▸ net_nm hF (hnets.2 x hx)⟩
    · have hc : k.leaf F.wd ∈ F.netD.combs := List.mem_map.mpr ⟨k, hk, rfl⟩
      have := hfix.single _ hc (more_leaf F.wd k)
      rw [out_leaf] at this
      rw [this]
      apply kind_eval F.wd F.nm k (hF.kinds_ok k hk) r V
      intro x hx
      apply hK (F.nm x) x _ (net_nm hF (hnets.2 x hx))
      exact reads_rhs_sup F.wd F.nm k (hF.kinds_ok k hk) x hx
  | hq R hR =>
    apply just_alias F.net F.wd V _ _ hVn
    · intro k hk
      rw [show (LHS.lid (F.name (.q R))).name = F.name (.q R) from rfl,
        net_name hF.names_inj (mem_nodes_reg hR (mem_regnodes_q R))] at hk
      rw [net_name hF.names_inj (mem_nodes_reg hR (mem_regnodes_rq R))]; exact hk
    · exact ⟨_, net_name hF.names_inj (mem_nodes_reg hR (mem_regnodes_rq R))⟩
  | hn R hR =>
    apply just_alias F.net F.wd V _ _ hVn
    · intro k hk
      rw [show (LHS.lid (F.name (.net R.leaf.q))).name = F.name (.net R.leaf.q) from rfl,
        net_name hF.names_inj (mem_nodes_net (hF.nets_regs R hR).2.1)] at hk
      rw [net_name hF.names_inj (mem_nodes_reg hR (mem_regnodes_q R))]; exact hk
    · exact ⟨_, net_name hF.names_inj (mem_nodes_reg hR (mem_regnodes_q R))⟩
  | tc R hR =>
    apply just_unmapped
    show F.net (F.name (.clk R)) = none
    rw [net_name hF.names_inj (mem_nodes_reg hR (mem_regnodes_clk R))]; rfl
  | td R hR =>
    apply just_alias F.net F.wd V _ _ hVn
    · intro k hk
      rw [show (LHS.lid (F.name (.d R))).name = F.name (.d R) from rfl,
        net_name hF.names_inj (mem_nodes_reg hR (mem_regnodes_d R))] at hk
      rw [net_name hF.names_inj (mem_nodes_net (hF.nets_regs R hR).1)]; exact hk
    · exact ⟨_, net_name hF.names_inj (mem_nodes_net (hF.nets_regs R hR).1)⟩
  | te R hR he =>
    apply just_alias F.net F.wd V _ _ hVn
    · intro k hk
      rw [show (LHS.lid (F.name (.e R))).name = F.name (.e R) from rfl,
        net_name hF.names_inj (mem_nodes_reg hR (mem_regnodes_e R he))] at hk
      rw [net_name hF.names_inj (mem_nodes_net ((hF.nets_regs R hR).2.2.1 he))]; exact hk
    · exact ⟨_, net_name hF.names_inj (mem_nodes_net ((hF.nets_regs R hR).2.2.1 he))⟩
  | tr R hR hr =>
    apply just_alias F.net F.wd V _ _ hVn
    · intro k hk
      rw [show (LHS.lid (F.name (.r R))).name = F.name (.r R) from rfl,
        net_name hF.names_inj (mem_nodes_reg hR (mem_regnodes_r R hr))] at hk
      rw [net_name hF.names_inj (mem_nodes_net ((hF.nets_regs R hR).2.2.2 hr))]; exact hk
    · exact ⟨_, net_name hF.names_inj (mem_nodes_net ((hF.nets_regs R hR).2.2.2 hr))⟩

theorem q_ne_out (hF : F.WF) {R : RegI} (hR : R ∈ F.regs) {k : Kind} (hk : k ∈ F.kinds) : k.out ≠ R.leaf.q := by
  intro e
  have := (List.nodup_append.mp hF.single_driver).2.2 k.out (List.mem_map.mpr ⟨k, hk, rfl⟩) R.leaf.q
    (List.mem_map.mpr ⟨R, hR, rfl⟩)
  exact this e

theorem q_inj (hF : F.WF) {R R' : RegI} (hR : R ∈ F.regs) (hR' : R' ∈ F.regs) (e : R.leaf.q = R'.leaf.q) : R = R' :=
  inj_of_nodup_map (fun R : RegI => R.leaf.q) F.regs (List.nodup_append.mp hF.single_driver).2.1 hR hR' e

theorem mem_driven_kind {k : Kind} (hk : k ∈ F.kinds) : Node.net k.out ∈ F.driven := by
  unfold driven; simp only [List.mem_append, List.mem_map]; right; right; left; exact ⟨k, hk, rfl⟩

theorem mem_driven_q {R : RegI} (hR : R ∈ F.regs) : Node.q R ∈ F.driven := by
  unfold driven; simp only [List.mem_append, List.mem_map]; left; exact ⟨R, hR, rfl⟩

theorem mem_driven_nq {R : RegI} (hR : R ∈ F.regs) : Node.net R.leaf.q ∈ F.driven := by
  unfold driven; simp only [List.mem_append, List.mem_map]; right; left; exact ⟨R, hR, rfl⟩

theorem mem_driven_reg {R : RegI} (hR : R ∈ F.regs) {y : Node} (hy : y ∈ regDriven R) : y ∈ F.driven := by
  unfold driven; simp only [List.mem_append, List.mem_flatMap]; right; right; right; exact ⟨R, hR, hy⟩

/-- the undriven declared signals: nets no child drives, the `rq` variables, the clock port -/
theorem undriven_inv (hF : F.WF) {x : Node} (hx : x ∈ F.nodes) (hu : x ∉ F.driven) :
    (∃ k, x = .net k ∧ k ∈ F.nets ∧ (∀ kd, kd ∈ F.kinds → kd.out ≠ k) ∧ (∀ R, R ∈ F.regs → R.leaf.q ≠ k)) ∨
    (∃ R, R ∈ F.regs ∧ x = .rq R) ∨ x = .base := by
  rcases nodes_inv hx with ⟨k, hk, e⟩ | ⟨R, hR, hxR⟩ | e
  · left
    refine ⟨k, e, hk, ?_, ?_⟩
    · intro kd hkd e'; exact hu (e ▸ e' ▸ mem_driven_kind hkd)
    · intro R hR e'
      exact hu (e ▸ e' ▸ mem_driven_nq hR)
  · rcases regnodes_inv hxR with e | e | e | e | ⟨e, h⟩ | ⟨e, h⟩
    · exact absurd (e ▸ mem_driven_q hR) hu
    · exact Or.inr (Or.inl ⟨R, hR, e⟩)
    · exact absurd (e ▸ mem_driven_reg hR (by simp [regDriven])) hu
    · exact absurd (e ▸ mem_driven_reg hR (by simp [regDriven])) hu
    · exact absurd (e ▸ mem_driven_reg hR (by simp [regDriven, h])) hu
    · exact absurd (e ▸ mem_driven_reg hR (by simp [regDriven, h])) hu
  · exact Or.inr (Or.inr e)

/-- an undriven name that denotes net `k`: the top-level input `nm k`, or the `rq` of the register driving `k` -/
theorem undriven_net (hF : F.WF) {n : String} {k : Nat} (hn : F.net n = some k) (hu : n ∉ F.assigns.map tgt) :
    (n = F.nm k ∧ k ∈ F.nets ∧ (∀ kd, kd ∈ F.kinds → kd.out ≠ k) ∧ (∀ R, R ∈ F.regs → R.leaf.q ≠ k)) ∨
    (∃ R, R ∈ F.regs ∧ n = R.rq ∧ R.leaf.q = k) := by
  obtain ⟨x, hx, hname, hnet⟩ := net_inv hn
  subst hname
  rcases undriven_inv hF hx ((undriven_iff hF hx).mp hu) with ⟨k', e, h1, h2, h3⟩ | ⟨R, hR, e⟩ | e <;> subst e
  · have : k' = k := Option.some.inj hnet
    subst this
    exact Or.inl ⟨rfl, h1, h2, h3⟩
  · exact Or.inr ⟨R, hR, rfl, Option.some.inj hnet⟩
  · cases hnet

/-! ### a sources-first rearrangement of the assigns -/

/-- class of a signal: 0 nets, 1 `i.q`, 2 `i.rq`, 3 instance input ports and clock, 4 the clock port -/
def cls : Node → Nat
  | .net _ => 0 | .q _ => 1 | .rq _ => 2 | .d _ => 3 | .e _ => 3 | .r _ => 3 | .clk _ => 3 | .base => 4

/-- every assign of `l` reads only declared signals of classes `Rc` and drives a declared signal of a class in `Tc` -/
def Spec (F : FlatDesign) (l : List (LHS × Expr)) (Rc Tc : List Nat) : Prop :=
  ∀ a, a ∈ l → (∀ n, n ∈ reads a.2 → ∃ x, x ∈ F.nodes ∧ n = F.name x ∧ cls x ∈ Rc) ∧
    ∃ y, y ∈ F.nodes ∧ tgt a = F.name y ∧ cls y ∈ Tc

theorem spec_cross_r (hF : F.WF) {l1 l2 : List (LHS × Expr)} {R1 T1 R2 T2 : List Nat} (h1 : Spec F l1 R1 T1)
    (h2 : Spec F l2 R2 T2) (hd : ∀ c, c ∈ R1 → c ∉ T2) :
    ∀ a, a ∈ l1 → ∀ b, b ∈ l2 → ∀ n, n ∈ reads a.2 → n ≠ tgt b := by
  intro a ha b hb n hn
  obtain ⟨hra, _⟩ := h1 a ha
  obtain ⟨_, yb, hyb, htb, hcb⟩ := h2 b hb
  obtain ⟨x, hx, e, hc⟩ := hra n hn
  rw [e, htb]
  apply name_ne hF.names_inj hx hyb
  intro e'; subst e'; exact hd _ hc hcb

theorem spec_cross_t (hF : F.WF) {l1 l2 : List (LHS × Expr)} {R1 T1 R2 T2 : List Nat} (h1 : Spec F l1 R1 T1)
    (h2 : Spec F l2 R2 T2) (ht : ∀ c, c ∈ T1 → c ∉ T2) :
    ∀ a, a ∈ l1 → ∀ b, b ∈ l2 → tgt a ≠ tgt b := by
  intro a ha b hb
  obtain ⟨_, ya, hya, hta, hca⟩ := h1 a ha
  obtain ⟨_, yb, hyb, htb, hcb⟩ := h2 b hb
  rw [hta, htb]
  apply name_ne hF.names_inj hya hyb
  intro e'; subst e'; exact ht _ hca hcb

theorem spec_app {l1 l2 : List (LHS × Expr)} {R1 T1 R2 T2 : List Nat} (h1 : Spec F l1 R1 T1) (h2 : Spec F l2 R2 T2) :
    Spec F (l1 ++ l2) (R1 ++ R2) (T1 ++ T2) := by
  intro a ha
  simp only [List.mem_append] at ha
  rcases ha with ha | ha
  · obtain ⟨hr, y, hy, ht, hc⟩ := h1 a ha
    exact ⟨fun n hn => by obtain ⟨x, hx, e, hc'⟩ := hr n hn; exact ⟨x, hx, e, by simp [hc']⟩, y, hy, ht, by simp [hc]⟩
  · obtain ⟨hr, y, hy, ht, hc⟩ := h2 a ha
    exact ⟨fun n hn => by obtain ⟨x, hx, e, hc'⟩ := hr n hn; exact ⟨x, hx, e, by simp [hc']⟩, y, hy, ht, by simp [hc]⟩

def B1 (F : FlatDesign) : List (LHS × Expr) := F.regs.map RegI.hq
def B2 (F : FlatDesign) : List (LHS × Expr) := F.regs.map (RegI.hn F.nm)
def Ks (F : FlatDesign) : List (LHS × Expr) := F.order.map fun i => (F.kinds.getD i default).assign F.wd F.nm
def Ts (F : FlatDesign) : List (LHS × Expr) := F.regs.flatMap (RegI.tail F.nm F.clk)
def topo (F : FlatDesign) : List (LHS × Expr) := F.B1 ++ (F.B2 ++ (F.Ks ++ F.Ts))

theorem spec_B1 (hF : F.WF) : Spec F F.B1 [2] [1] := by
  intro a ha
  rcases List.mem_map.mp ha with ⟨R, hR, e⟩
  subst e
  refine ⟨?_, .q R, mem_nodes_reg hR (mem_regnodes_q R), rfl, by simp [cls]⟩
  intro n hn
  simp only [RegI.hq, reads, List.mem_singleton] at hn
  exact ⟨.rq R, mem_nodes_reg hR (mem_regnodes_rq R), hn, by simp [cls]⟩

theorem spec_B2 (hF : F.WF) : Spec F F.B2 [1] [0] := by
  intro a ha
  rcases List.mem_map.mp ha with ⟨R, hR, e⟩
  subst e
  refine ⟨?_, .net R.leaf.q, mem_nodes_net (hF.nets_regs R hR).2.1, rfl, by simp [cls]⟩
  intro n hn
  simp only [RegI.hn, reads, List.mem_singleton] at hn
  exact ⟨.q R, mem_nodes_reg hR (mem_regnodes_q R), hn, by simp [cls]⟩

theorem order_lt (hF : F.WF) {i : Nat} (hi : i ∈ F.order) : i < F.kinds.length :=
  List.mem_range.mp (hF.order_perm.mem_iff.mp hi)

theorem getD_mem {α : Type} [Inhabited α] (l : List α) (i : Nat) (h : i < l.length) : l.getD i default ∈ l :=
  List.mem_of_getElem? (getElem?_getD l i h)

theorem spec_Ks (hF : F.WF) : Spec F F.Ks [0] [0] := by
  intro a ha
  rcases List.mem_map.mp ha with ⟨i, hi, e⟩
  subst e
  have hk := getD_mem F.kinds i (order_lt hF hi)
  have hn := hF.nets_kinds _ hk
  refine ⟨?_, .net (F.kinds.getD i default).out, mem_nodes_net hn.1, tgt_assign _ _ _, by simp [cls]⟩
  intro n hn'
  rcases List.mem_map.mp (reads_rhs_sub F.wd F.nm _ n hn') with ⟨x, hx, e⟩
  exact ⟨.net x, mem_nodes_net (hn.2 x hx), e.symm, by simp [cls]⟩

theorem spec_Ts (hF : F.WF) : Spec F F.Ts [0, 4] [3] := by
  intro a ha
  rcases List.mem_flatMap.mp ha with ⟨R, hR, ha'⟩
  have hb : Node.base ∈ F.nodes := by unfold nodes; simp
  cases tform_tail ha' with
  | tc =>
    exact ⟨fun n hn => by simp only [reads, List.mem_singleton] at hn; exact ⟨.base, hb, hn, by simp [cls]⟩,
      .clk R, mem_nodes_reg hR (mem_regnodes_clk R), rfl, by simp [cls]⟩
  | td =>
    exact ⟨fun n hn => by
        simp only [reads, List.mem_singleton] at hn
        exact ⟨.net R.leaf.d, mem_nodes_net (hF.nets_regs R hR).1, hn, by simp [cls]⟩,
      .d R, mem_nodes_reg hR (mem_regnodes_d R), rfl, by simp [cls]⟩
  | te he =>
    exact ⟨fun n hn => by
        simp only [reads, List.mem_singleton] at hn
        exact ⟨.net R.leaf.e, mem_nodes_net ((hF.nets_regs R hR).2.2.1 he), hn, by simp [cls]⟩,
      .e R, mem_nodes_reg hR (mem_regnodes_e R he), rfl, by simp [cls]⟩
  | tr hr =>
    exact ⟨fun n hn => by
        simp only [reads, List.mem_singleton] at hn
        exact ⟨.net R.leaf.r, mem_nodes_net ((hF.nets_regs R hR).2.2.2 hr), hn, by simp [cls]⟩,
      .r R, mem_nodes_reg hR (mem_regnodes_r R hr), rfl, by simp [cls]⟩

theorem regs_nodup (hF : F.WF) : F.regs.Nodup := by
  have := nodup_map_of (fun R : RegI => R.leaf.q) id F.regs (List.nodup_append.mp hF.single_driver).2.1
    (fun a b _ _ e => by simp at e; rw [e])
  simpa using this

theorem nodup_B1 (hF : F.WF) : (F.B1.map tgt).Nodup := by
  have : F.B1.map tgt = F.regs.map (fun R => F.name (.q R)) := by simp [B1, List.map_map, Function.comp_def, RegI.hq, tgt, LHS.name, name]
  rw [this]
  apply nodup_map_of (fun R : RegI => R.leaf.q) _ F.regs (List.nodup_append.mp hF.single_driver).2.1
  intro a b ha hb e
  have := name_inj hF.names_inj (mem_nodes_reg ha (mem_regnodes_q a)) (mem_nodes_reg hb (mem_regnodes_q b)) e
  rw [Node.q.inj this]

theorem nodup_B2 (hF : F.WF) : (F.B2.map tgt).Nodup := by
  have : F.B2.map tgt = F.regs.map (fun R => F.name (.net R.leaf.q)) := by simp [B2, List.map_map, Function.comp_def, RegI.hn, tgt, LHS.name, name]
  rw [this]
  apply nodup_map_of (fun R : RegI => R.leaf.q) _ F.regs (List.nodup_append.mp hF.single_driver).2.1
  intro a b ha hb e
  have := name_inj hF.names_inj (mem_nodes_net (hF.nets_regs a ha).2.1) (mem_nodes_net (hF.nets_regs b hb).2.1) e
  exact Node.net.inj this

theorem sublist_flatMap {α β : Type} (l : List α) (f g : α → List β) (h : ∀ a, a ∈ l → (f a).Sublist (g a)) :
    (l.flatMap f).Sublist (l.flatMap g) := by
  induction l with
  | nil => exact List.Sublist.refl _
  | cons a l ih =>
    simp only [List.flatMap_cons]
    exact List.Sublist.append (h a (by simp)) (ih (fun b hb => h b (by simp [hb])))

theorem nodup_Ts (hF : F.WF) : (F.Ts.map tgt).Nodup := by
  have h1 : F.Ts.map tgt = (F.regs.flatMap regDriven).map F.name := by
    unfold Ts
    simp only [List.map_flatMap]
    apply flatMap_congr'
    intro R _
    cases he : R.leaf.hasE <;> cases hr : R.leaf.hasR <;>
      simp [RegI.tail, regDriven, he, hr, tgt, LHS.name, name]
  rw [h1]
  have h2 : (F.regs.flatMap regDriven).Sublist F.nodes := by
    unfold nodes
    apply List.Sublist.trans _ (List.sublist_append_right _ _)
    apply List.Sublist.trans _ (List.sublist_append_left _ _)
    apply sublist_flatMap
    intro R _
    exact List.sublist_append_right [Node.q R, Node.rq R] (regDriven R)
  exact (h2.map F.name).nodup hF.names_inj

theorem acyc_B1 (hF : F.WF) : Acyc F.B1 :=
  acyc_of_noread (spec_cross_r hF (spec_B1 hF) (spec_B1 hF) (by decide)) (nodup_B1 hF)

theorem acyc_B2 (hF : F.WF) : Acyc F.B2 :=
  acyc_of_noread (spec_cross_r hF (spec_B2 hF) (spec_B2 hF) (by decide)) (nodup_B2 hF)

theorem acyc_Ts (hF : F.WF) : Acyc F.Ts :=
  acyc_of_noread (spec_cross_r hF (spec_Ts hF) (spec_Ts hF) (by decide)) (nodup_Ts hF)

theorem combs_get (i : Nat) (hi : i < F.kinds.length) : F.netD.combs[i]? = some ((F.kinds.getD i default).leaf F.wd) := by
  show (F.kinds.map (Kind.leaf F.wd))[i]? = _
  rw [List.getElem?_map, getElem?_getD F.kinds i hi]; rfl

theorem acyc_Ks_aux (hF : F.WF) (l : List Nat) (hT : C04.TopoOK F.netD.comb l) (hl : ∀ i, i ∈ l → i < F.kinds.length) :
    Acyc (l.map fun i => (F.kinds.getD i default).assign F.wd F.nm) := by
  induction l with
  | nil => trivial
  | cons i rest ih =>
    obtain ⟨hr, hw, _, hrest⟩ := hT
    have hi := hl i (by simp)
    have hki := getD_mem F.kinds i hi
    have hreads : F.netD.comb.reads i = ((F.kinds.getD i default).leaf F.wd).ins := by
      show F.netD.reads i = _
      unfold NetD.reads; rw [combs_get i hi]
    have hwrites : ∀ j, j < F.kinds.length → F.netD.comb.writes j = [(F.kinds.getD j default).out] := by
      intro j hj
      show F.netD.writes j = _
      unfold NetD.writes; rw [combs_get j hj]; simp only [outs_leaf]
    refine ⟨?_, ?_, ih hrest (fun j hj => hl j (by simp [hj]))⟩
    · intro b hb n hn
      rcases List.mem_map.mp (reads_rhs_sub F.wd F.nm _ n hn) with ⟨x, hx, e⟩
      have hb' : b ∈ (i :: rest).map fun i => (F.kinds.getD i default).assign F.wd F.nm := hb
      rcases List.mem_map.mp hb' with ⟨j, hj, e'⟩
      subst e' e
      rw [tgt_assign]
      have hjl := hl j hj
      have hkj := getD_mem F.kinds j hjl
      apply name_ne hF.names_inj (x := .net x) (y := .net (F.kinds.getD j default).out)
        (mem_nodes_net ((hF.nets_kinds _ hki).2 x hx)) (mem_nodes_net (hF.nets_kinds _ hkj).1)
      intro e
      have e2 := Node.net.inj e
      have := hr j hj x (hreads ▸ hx)
      rw [hwrites j hjl] at this
      simp [e2] at this
    · intro b hb
      rcases List.mem_map.mp hb with ⟨j, hj, e'⟩
      subst e'
      rw [tgt_assign, tgt_assign]
      have hjl := hl j (by simp [hj])
      have hkj := getD_mem F.kinds j hjl
      apply name_ne hF.names_inj (x := .net (F.kinds.getD i default).out) (y := .net (F.kinds.getD j default).out)
        (mem_nodes_net (hF.nets_kinds _ hki).1) (mem_nodes_net (hF.nets_kinds _ hkj).1)
      intro e
      have e2 := Node.net.inj e
      have := hw j hj (F.kinds.getD i default).out (by rw [hwrites i hi]; simp)
      rw [hwrites j hjl] at this
      exact this (by rw [e2]; simp)

theorem acyc_Ks (hF : F.WF) : Acyc F.Ks := acyc_Ks_aux hF F.order hF.acyclic (fun _ hi => order_lt hF hi)

theorem acyc_topo (hF : F.WF) : Acyc F.topo := by
  unfold topo
  have sKT := spec_app (spec_Ks hF) (spec_Ts hF)
  have s2KT := spec_app (spec_B2 hF) sKT
  apply acyc_app (acyc_B1 hF)
  · apply acyc_app (acyc_B2 hF)
    · apply acyc_app (acyc_Ks hF) (acyc_Ts hF)
      intro a ha b hb
      exact ⟨spec_cross_r hF (spec_Ks hF) (spec_Ts hF) (by decide) a ha b hb,
        spec_cross_t hF (spec_Ks hF) (spec_Ts hF) (by decide) a ha b hb⟩
    · intro a ha b hb
      refine ⟨spec_cross_r hF (spec_B2 hF) sKT (by decide) a ha b hb, ?_⟩
      simp only [List.mem_append] at hb
      rcases hb with hb | hb
      · rcases List.mem_map.mp ha with ⟨R, hR, e⟩
        rcases List.mem_map.mp hb with ⟨i, hi, e'⟩
        subst e e'
        rw [tgt_assign]
        have hk := getD_mem F.kinds i (order_lt hF hi)
        apply name_ne hF.names_inj (x := .net R.leaf.q) (y := .net (F.kinds.getD i default).out)
          (mem_nodes_net (hF.nets_regs R hR).2.1) (mem_nodes_net (hF.nets_kinds _ hk).1)
        intro e
        exact q_ne_out hF hR hk (Node.net.inj e).symm
      · exact spec_cross_t hF (spec_B2 hF) (spec_Ts hF) (by decide) a ha b hb
  · intro a ha b hb
    exact ⟨spec_cross_r hF (spec_B1 hF) s2KT (by decide) a ha b hb,
      spec_cross_t hF (spec_B1 hF) s2KT (by decide) a ha b hb⟩

theorem range_map_getD {α β : Type} [Inhabited α] (l : List α) (h : α → β) :
    (List.range l.length).map (fun i => h (l.getD i default)) = l.map h := by
  apply List.ext_getElem
  · simp
  · intro i h1 h2
    simp only [List.getElem_map, List.getElem_range]
    have : i < l.length := by simpa using h2
    rw [getD_of_getElem? l i l[i] (List.getElem?_eq_getElem this)]

theorem perm_topo (hF : F.WF) : F.assigns.Perm F.topo := by
  unfold assigns topo
  apply List.Perm.append_left
  apply List.Perm.append_left
  apply List.Perm.append_right
  have := (hF.order_perm.map (fun i => (F.kinds.getD i default).assign F.wd F.nm)).symm
  rw [range_map_getD F.kinds (Kind.assign F.wd F.nm)] at this
  exact this

theorem sched_ok (hF : F.WF) : F.netD.SchedOK := by
  refine ⟨hF.acyclic, ?_⟩
  intro i hi
  have : i < F.kinds.length := by simpa [netD] using hi
  exact hF.order_perm.mem_iff.mpr (List.mem_range.mpr this)

/-- the text, in any order of its assigns -/
def flatOf (F : FlatDesign) (as : List (LHS × Expr)) : V.Flat := { assigns := as, procs := F.regs.map RegI.proc }

/-- **a well-formed flat design satisfies the hypotheses of the generic theorems**, whatever the order of its assigns -/
theorem seqCorr (hF : F.WF) (as : List (LHS × Expr)) (hp : as.Perm F.assigns) :
    SeqCorr F.netD (F.flatOf as) F.topo F.regs F.net := by
  have hmem : ∀ n, n ∉ (F.flatOf as).assigns.map tgt → n ∉ F.assigns.map tgt := by
    intro n h h'
    exact h ((hp.map tgt).mem_iff.mpr h')
  refine ⟨⟨hp.trans (perm_topo hF), acyc_topo hF, ?_, ?_⟩, sched_ok hF, rfl, rfl, ?_, ?_, ?_, ?_, ?_, ?_, ?_, hF.rv_lt⟩
  · intro V hfix hV _ a ha
    exact just_all hF V hfix hV a (hp.mem_iff.mp ha)
  · intro n k hn hu c hc
    rcases List.mem_map.mp hc with ⟨kd, hkd, e⟩
    subst e
    intro o ho
    rw [outs_leaf] at ho
    simp only [List.mem_singleton] at ho
    subst ho
    rcases undriven_net hF hn (hmem n hu) with ⟨_, _, h2, _⟩ | ⟨R, hR, _, hq⟩
    · exact h2 kd hkd
    · rw [← hq]; exact q_ne_out hF hR hkd
  · intro R hR
    exact net_name hF.names_inj (x := .d R) (mem_nodes_reg hR (mem_regnodes_d R))
  · intro R hR he
    exact net_name hF.names_inj (x := .e R) (mem_nodes_reg hR (mem_regnodes_e R he))
  · intro R hR hr
    exact net_name hF.names_inj (x := .r R) (mem_nodes_reg hR (mem_regnodes_r R hr))
  · intro R hR
    exact net_name hF.names_inj (x := .rq R) (mem_nodes_reg hR (mem_regnodes_rq R))
  · intro R hR h
    have h' : F.name (.rq R) ∈ F.assigns.map tgt := (hp.map tgt).mem_iff.mp h
    have hx := mem_nodes_reg hR (mem_regnodes_rq R)
    have := (undriven_iff hF hx).mpr
    by_cases hd : Node.rq R ∈ F.driven
    · rcases driven_inv hd with ⟨k, _, e⟩ | ⟨R', _, e | e | e | e | ⟨e, _⟩ | ⟨e, _⟩⟩ <;> cases e
    · exact this hd h'
  · intro n k hn hu R hR hq
    rcases undriven_net hF hn (hmem n hu) with ⟨_, _, _, h3⟩ | ⟨R', hR', e, hq'⟩
    · exact absurd hq (h3 R hR)
    · rw [e, q_inj hF hR hR' (hq.trans hq'.symm)]
  · exact (List.nodup_append.mp hF.single_driver).2.1

/-! ### declarations, inputs, power-up -/

/-- the store declares every signal that denotes a net with that net's width (what `V.mkSim` sets up from the `wire` /
    `reg` / port declarations of the text) -/
def Declared (F : FlatDesign) (r : Rd) : Prop :=
  ∀ x, x ∈ F.nodes → ∀ k, netOf x = some k → r.info (F.name x) = some { width := F.wd k }

/-- a top-level input: a declared net that no child drives -/
def isIn (F : FlatDesign) (k : Nat) : Prop :=
  k ∈ F.nets ∧ (∀ kd, kd ∈ F.kinds → kd.out ≠ k) ∧ (∀ R, R ∈ F.regs → R.leaf.q ≠ k)

theorem infoOK (hF : F.WF) (as : List (LHS × Expr)) (hp : as.Perm F.assigns) (r : Rd) (hd : F.Declared r) :
    InfoOK F.netD (F.flatOf as).assigns F.net r := by
  constructor
  · intro a ha
    cases aform_of_mem (hp.mem_iff.mp ha) with
    | kind k hk =>
      cases k with
      | const v o =>
        simp only [Kind.assign, Kind.lhs]
        split
        · rename_i hw
          have hwd : widthOf r (F.nm o) = F.wd o := by
            have := hd (.net o) (mem_nodes_net (hF.nets_kinds _ hk).1) o rfl
            simp [widthOf, show F.name (.net o) = F.nm o from rfl] at this ⊢
            simp [this]
          constructor
          · simp only [resolve, hwd, LHS.name]
            have : F.wd o - 1 + 1 = F.wd o := by omega
            simp [this]
          · simp only [lhsWidth, hwd, LHS.name]; omega
        · exact ⟨rfl, rfl⟩
      | _ => exact ⟨rfl, rfl⟩
    | _ => exact ⟨rfl, rfl⟩
  · intro n k hn
    obtain ⟨x, hx, e, hk⟩ := net_inv hn
    rw [← e]; exact hd x hx k hk

theorem isInput (hF : F.WF) (as : List (LHS × Expr)) (hp : as.Perm F.assigns) (k : Nat) (hk : F.isIn k) :
    IsInput (F.flatOf as) F.regs F.net k (F.nm k) := by
  have hx := mem_nodes_net (F := F) hk.1
  have hnd : Node.net k ∉ F.driven := by
    intro hd
    rcases driven_inv hd with ⟨kd, hkd, e⟩ | ⟨R, hR, e | e | e | e | ⟨e, _⟩ | ⟨e, _⟩⟩
    · exact hk.2.1 kd hkd (Node.net.inj e).symm
    · cases e
    · exact hk.2.2 R hR (Node.net.inj e).symm
    · cases e
    · cases e
    · cases e
    · cases e
  have hu : F.nm k ∉ F.assigns.map tgt := (undriven_iff hF hx).mpr hnd
  refine ⟨net_nm hF hk.1, fun h => hu ((hp.map tgt).mem_iff.mp h), ?_, hk.2.2⟩
  intro n' hn' hu'
  rcases undriven_net hF hn' (fun h => hu' ((hp.map tgt).mem_iff.mpr h)) with ⟨e, _⟩ | ⟨R, hR, _, hq⟩
  · exact e
  · exact absurd hq (hk.2.2 R hR)

/-- the Verilog store at time 0: declarations; `reg rq = RV` initialised; the test bench drives every top-level input
    with 0 (py4hw wires power up at 0) -/
structure PowerUp0 (F : FlatDesign) (r : Rd) : Prop where
  declared : F.Declared r
  rq : ∀ R, R ∈ F.regs → r.val R.rq = ⟨F.wd R.leaf.q, R.leaf.rv % 2 ^ F.wd R.leaf.q, true⟩
  inputs : ∀ k, F.isIn k → r.val (F.nm k) = ⟨F.wd k, 0, true⟩

theorem powerUp (hF : F.WF) (as : List (LHS × Expr)) (hp : as.Perm F.assigns) (r : Rd) (h : F.PowerUp0 r) :
    PowerUp F.netD (F.flatOf as) F.regs F.net r := by
  refine ⟨infoOK hF as hp r h.declared, h.rq, ?_⟩
  intro n k hn hu hq
  rcases undriven_net hF hn (fun h' => hu ((hp.map tgt).mem_iff.mpr h')) with ⟨e, h1, h2, h3⟩ | ⟨R, hR, _, hq'⟩
  · rw [e]; exact h.inputs k ⟨h1, h2, h3⟩
  · exact absurd hq' (hq R hR)

/-- the covered test-bench operations: pokes of top-level inputs with non-negative values, clk(n), re-sort -/
def OpOK (F : FlatDesign) : Op → Prop
  | .poke k v => F.isIn k ∧ 0 ≤ v
  | _ => True

theorem opOK (hF : F.WF) (as : List (LHS × Expr)) (hp : as.Perm F.assigns) (op : Op) (h : F.OpOK op) :
    FlatM.OpOK (F.flatOf as) F.regs F.net F.nm op := by
  cases op with
  | poke k v => exact ⟨isInput hF as hp k h.1, h.2⟩
  | clk n => trivial
  | resort => trivial

end FlatDesign
end FlatM
