import Py4hwV.Proofs.C20Req
import Py4hwV.Proofs.C20Resp
import Py4hwV.Proto.HilChain
/-
  C20: sessions of the response encoder under ARBITRARY inputs (start pulses at any time) against the specification
  monitor `Hil.monStep`, and the closed chain CMDRequest → Reg(index_out_r) → table → CMDResponse.
  Everything rests on the per-cycle lemmas `resp_step` / `resp_start` (generated `CMDResponse.step`), the `cyc*` lemmas
  (generated `CMDRequest.step`) and the generated `Reg.step`.
-/
namespace C20
open Hil Gen

/-! ## sessions -/

/-- in states 1–6 the generated step does not read `start_resp`, `vin`, `size` -/
theorem busy_ignores (wv : Nat) (st : CMDResponse.St) (w : RespW) (a b c a' b' c' r : Nat)
    (hbusy : 1 ≤ st.state ∧ st.state ≤ 6) :
    respCycle wv st w ⟨a, b, c, r⟩ = respCycle wv st w ⟨a', b', c', r⟩ := by
  obtain ⟨aux, s, t, ts⟩ := st
  obtain ⟨h1, h2⟩ := hbusy
  simp only at h1 h2
  have hs : s = 1 ∨ s = 2 ∨ s = 3 ∨ s = 4 ∨ s = 5 ∨ s = 6 := by omega
  rcases hs with rfl | rfl | rfl | rfl | rfl | rfl <;> simp [respCycle, respRaises, CMDResponse.step]

theorem inv_busy {wv v : Nat} {ph : Ph} {s : CMDResponse.St} {w : RespW} (h : Inv wv v ph s w) (hne : ph ≠ .done) :
    1 ≤ s.state ∧ s.state ≤ 6 := by
  cases ph with
  | done => exact absurd rfl hne
  | p1 n => simp only [Inv] at h; omega
  | p2 n => simp only [Inv] at h; omega
  | d3 n => simp only [Inv] at h; omega
  | d4 n => simp only [Inv] at h; omega
  | p5 => simp only [Inv] at h; omega
  | p6 => simp only [Inv] at h; omega

/-- `resp_step` without the hypothesis on `start_resp`: inside a response the start input is irrelevant -/
theorem resp_step_any (wv v : Nat) (ph : Ph) (s : CMDResponse.St) (w : RespW) (i : RespIn)
    (h : Inv wv v ph s w) (hne : ph ≠ .done) :
    ∃ ph' s' w', respCycle wv s w i = some (s', w') ∧ Inv wv v ph' s' w' ∧
      rest wv v ph = xfer w i ++ rest wv v ph' ∧ need ph' ≤ need ph - rdyBit i := by
  obtain ⟨st, vin, sz, rd⟩ := i
  have e := busy_ignores wv s w st vin sz 0 vin sz rd (inv_busy h hne)
  obtain ⟨ph', s', w', e1, h1, r1, n1⟩ := resp_step wv v ph s w ⟨0, vin, sz, rd⟩ h rfl
  exact ⟨ph', s', w', by rw [e]; exact e1, h1, r1, n1⟩

theorem rest_nil_iff (wv v : Nat) (ph : Ph) : rest wv v ph = [] ↔ ph = .done := by
  cases ph <;> simp [rest]

theorem need_zero {ph : Ph} (h : need ph = 0) : ph = .done := by
  cases ph <;> simp [need] at h ⊢

/-- coupling between the specification monitor and the implementation: what the monitor says is owed is exactly what
    the encoder's phase will still hand over, and the phase's ready-cycle bound is within the monitor's budget -/
def Coup (wv : Nat) (m : Mon) (s : CMDResponse.St) (w : RespW) : Prop :=
  ∃ v ph, Inv wv v ph s w ∧ rest wv v ph = m.pend ∧ need ph ≤ m.bud

theorem coup_powerup (wv : Nat) : Coup wv Mon.idle CMDResponse.init ⟨0, 0⟩ :=
  ⟨0, .done, ⟨rfl, rfl⟩, rfl, Nat.zero_le _⟩

/-- ONE cycle with ARBITRARY inputs: the generated step does not raise, the specification monitor accepts what is
    observed, and the coupling is kept.  In particular: a start pulse seen while nothing is owed (encoder in state 0)
    is accepted with the sampled (vin, size); a start pulse while something is owed changes nothing. -/
theorem resp_session_step (wv : Nat) (m : Mon) (s : CMDResponse.St) (w : RespW) (i : RespIn) (h : Coup wv m s w) :
    ∃ s' w' m', respCycle wv s w i = some (s', w') ∧ monStep wv m (i, xfer w i) = some m' ∧ Coup wv m' s' w' := by
  obtain ⟨v, ph, hinv, hr, hn⟩ := h
  obtain ⟨pend, bud⟩ := m
  simp only at hr hn
  subst hr
  by_cases hd : ph = .done
  · subst hd
    have hinv' := hinv
    simp only [Inv] at hinv'
    obtain ⟨h0, hv⟩ := hinv'
    have hx : xfer w i = [] := by simp [xfer, hv]
    by_cases hs : i.start = 0
    · obtain ⟨ph', s', w', e, h1, r1, n1⟩ := resp_step wv v .done s w i hinv hs
      have hr' : rest wv v ph' = [] := by
        have := r1; rw [hx] at this; simpa [rest] using this.symm
      refine ⟨s', w', ⟨[], bud⟩, e, ?_, ⟨v, ph', h1, hr', ?_⟩⟩
      · simp [monStep, rest, hx, hs]
      · have : need ph' = 0 := by simp [need] at n1; exact n1
        simp [this]
    · obtain ⟨s', w', e, h1, _⟩ := resp_start wv i.vin i.size s w i h0 hv hs rfl rfl
      refine ⟨s', w', ⟨response wv i.size i.vin, 2 * i.size + 4⟩, e, ?_, ⟨i.vin, .p1 i.size, h1, ?_, ?_⟩⟩
      · simp [monStep, rest, hx, hs]
      · simp [rest, response]
      · simp [need]
  · obtain ⟨ph', s', w', e, h1, r1, n1⟩ := resp_step_any wv v ph s w i hinv hd
    have hne : rest wv v ph ≠ [] := fun h => hd ((rest_nil_iff wv v ph).1 h)
    obtain ⟨c, p, hcp⟩ := List.exists_cons_of_ne_nil hne
    have hb : rdyBit i = (if i.ready ≠ 0 then 1 else 0) := rfl
    by_cases hx : w.valid ≠ 0 ∧ i.ready ≠ 0
    · have hxf : xfer w i = [w.v] := by simp [xfer, hx]
      rw [hxf, hcp] at r1
      simp only [List.cons_append, List.nil_append, List.cons.injEq] at r1
      obtain ⟨rfl, rp⟩ := r1
      have hlive : ¬ (p ≠ [] ∧ bud - (if i.ready ≠ 0 then 1 else 0) = 0) := by
        rintro ⟨hp, hb0⟩
        have : need ph' = 0 := by rw [hb] at n1; omega
        rw [need_zero this] at rp
        exact hp (by simpa [rest] using rp)
      refine ⟨s', w', ⟨p, bud - (if i.ready ≠ 0 then 1 else 0)⟩, e, ?_, ⟨v, ph', h1, rp.symm, ?_⟩⟩
      · simp only [monStep, hcp, hxf]
        simp only [List.cons_ne_nil, if_false, if_true]
        rw [if_neg hlive]
      · simp only; rw [hb] at n1; omega
    · have hxf : xfer w i = [] := by simp [xfer, hx]
      rw [hxf, hcp] at r1
      simp only [List.nil_append] at r1
      have hlive : ¬ (bud - (if i.ready ≠ 0 then 1 else 0) = 0) := by
        intro hb0
        have : need ph' = 0 := by rw [hb] at n1; omega
        rw [need_zero this] at r1
        simp [rest] at r1
      refine ⟨s', w', ⟨c :: p, bud - (if i.ready ≠ 0 then 1 else 0)⟩, e, ?_, ⟨v, ph', h1, r1.symm, ?_⟩⟩
      · simp only [monStep, hcp, hxf]
        simp only [if_true]
        rw [if_neg hlive]
      · simp only; rw [hb] at n1; omega

/-- a whole session: ANY list of input cycles (start pulses whenever, junk on vin/size, any ready pattern) -/
theorem resp_session_run (wv : Nat) (cs : List RespIn) :
    ∀ (m : Mon) (s : CMDResponse.St) (w : RespW), Coup wv m s w →
      ∃ obs m', respObs wv s w cs = some obs ∧ monRun wv m obs = some m' ∧ obs.map (·.1) = cs := by
  induction cs with
  | nil => intro m s w _; exact ⟨[], m, rfl, rfl, rfl⟩
  | cons i cs ih =>
    intro m s w h
    obtain ⟨s1, w1, m1, e1, ms1, h1⟩ := resp_session_step wv m s w i h
    obtain ⟨obs, m', e2, mr, hm⟩ := ih m1 s1 w1 h1
    exact ⟨(i, xfer w i) :: obs, m', by simp [respObs, e1, e2], by simp [monRun, ms1, mr], by simp [hm]⟩

/-- the observation and the transfer list of `respRun` are the same thing -/
theorem respObs_xfers (wv : Nat) (cs : List RespIn) :
    ∀ (s : CMDResponse.St) (w : RespW) (obs : List Obs), respObs wv s w cs = some obs →
      ∃ f, respRun wv s w cs = some (f, obs.flatMap (·.2)) := by
  induction cs with
  | nil => intro s w obs h; simp [respObs] at h; subst h; exact ⟨(s, w), rfl⟩
  | cons i cs ih =>
    intro s w obs h
    simp only [respObs] at h
    cases hc : respCycle wv s w i with
    | none => simp [hc] at h
    | some sw =>
      simp only [hc] at h
      cases ho : respObs wv sw.1 sw.2 cs with
      | none => simp [ho] at h
      | some o =>
        simp only [ho, Option.some.injEq] at h
        subst h
        obtain ⟨f, hf⟩ := ih sw.1 sw.2 o ho
        exact ⟨f, by simp [respRun, hc, hf]⟩

/-- a response in progress is always finished, whatever arrives on start/vin/size meanwhile: as soon as the consumer
    has been ready `need ph` times the remaining characters have been handed over and the encoder is idle again -/
theorem resp_answered (wv v : Nat) (cs : List RespIn) :
    ∀ (ph : Ph) (s : CMDResponse.St) (w : RespW), Inv wv v ph s w → need ph ≤ readyCount cs →
      ∃ cs1 cs2 s' w', cs = cs1 ++ cs2 ∧ respRun wv s w cs1 = some ((s', w'), rest wv v ph) ∧
        s'.state = 0 ∧ w'.valid = 0 := by
  induction cs with
  | nil =>
    intro ph s w h hn
    have : ph = .done := need_zero (by simp [readyCount] at hn; exact hn)
    subst this
    simp only [Inv] at h
    exact ⟨[], [], s, w, rfl, by simp [respRun, rest], h.1, h.2⟩
  | cons i cs ih =>
    intro ph s w h hn
    by_cases hd : ph = .done
    · subst hd
      simp only [Inv] at h
      exact ⟨[], i :: cs, s, w, rfl, by simp [respRun, rest], h.1, h.2⟩
    · obtain ⟨ph1, s1, w1, e1, h1, r1, n1⟩ := resp_step_any wv v ph s w i h hd
      rw [readyCount_cons] at hn
      obtain ⟨cs1, cs2, s', w', hc, hr, h0, hv⟩ := ih ph1 s1 w1 h1 (by omega)
      refine ⟨i :: cs1, cs2, s', w', by simp [hc], ?_, h0, hv⟩
      simp [respRun, e1, hr, r1]

/-! ## the chain -/

variable (k : ReqCfg)

/-- state 2 writes no wire and leaves for one of the states 0, 3, 4, 5, 6, 8 -/
theorem cyc2_any' (ct nc t : Int) (w : ReqW) (v c : Nat) :
    (reqCycle k ⟨ct, nc, 2, t⟩ w v c).2 = w ∧
    ((reqCycle k ⟨ct, nc, 2, t⟩ w v c).1.state = 0 ∨ (reqCycle k ⟨ct, nc, 2, t⟩ w v c).1.state = 3 ∨
     (reqCycle k ⟨ct, nc, 2, t⟩ w v c).1.state = 4 ∨ (reqCycle k ⟨ct, nc, 2, t⟩ w v c).1.state = 5 ∨
     (reqCycle k ⟨ct, nc, 2, t⟩ w v c).1.state = 6 ∨ (reqCycle k ⟨ct, nc, 2, t⟩ w v c).1.state = 8) := by
  simp only [reqCycle, CMDRequest.step, Id.run, pure]
  simp
  repeat' split
  all_goals simp [upd]

/-- the generated `Reg.clock` with enable and without reset: capture `index_out` when `set_index_out` is high, else hold;
    the output wire masks to `wOut` bits -/
theorem selNext_eq (wOut : Nat) (w : ReqW) (sel : Nat) :
    selNext wOut w sel = (if w.sio ≠ 0 then w.index_out else sel) % 2 ^ wOut := by
  by_cases h : w.sio = 0
  · simp [selNext, Reg.step, upd, Py.truthy, Py.ofBool, h, Bits.put_ofNat]
  · simp [selNext, Reg.step, upd, Py.truthy, Py.ofBool, h, Bits.put_ofNat]

/-- invariant of decoder + select register under ARBITRARY inputs: `set_index_out` is high exactly in the wait state 10;
    in state 7 (about to raise `start_resp`) and whenever `start_resp` is high, the register already holds the number
    on the `index_out` bus -/
def SelInv (st : CMDRequest.St) (w : ReqW) (sel : Nat) : Prop :=
  (w.sio ≠ 0 ↔ st.state = 10) ∧ (st.state = 7 → sel = w.index_out % 2 ^ k.wOut) ∧
  (w.start_resp ≠ 0 → st.state = 4 ∧ sel = w.index_out % 2 ^ k.wOut)

theorem selInv_init : SelInv k CMDRequest.init ReqW.zero 0 := by
  simp [SelInv, CMDRequest.init, ReqW.zero]

theorem selInv_step (st : CMDRequest.St) (w : ReqW) (sel v c : Nat) (h : SelInv k st w sel) :
    SelInv k (reqCycle k st w v c).1 (reqCycle k st w v c).2 (selNext k.wOut w sel) ∧
    (w.start_resp ≠ 0 → (reqCycle k st w v c).2.index_out = w.index_out) := by
  obtain ⟨ct, nc, s, t⟩ := st
  have hs : s = 0 ∨ s = 1 ∨ s = 2 ∨ s = 3 ∨ s = 4 ∨ s = 5 ∨ s = 6 ∨ s = 7 ∨ s = 8 ∨ s = 9 ∨ s = 10 ∨
      (s ≠ 0 ∧ s ≠ 1 ∧ s ≠ 2 ∧ s ≠ 3 ∧ s ≠ 4 ∧ s ≠ 5 ∧ s ≠ 6 ∧ s ≠ 7 ∧ s ≠ 8 ∧ s ≠ 9 ∧ s ≠ 10) := by omega
  obtain ⟨r, x1, x2, x3, a, sr, b, c', cp⟩ := w
  rw [selNext_eq]
  simp only [SelInv] at h
  obtain ⟨h1, h2, h3⟩ := h
  have hmm : ∀ n : Nat, n % 2 ^ k.wOut % 2 ^ k.wOut = n % 2 ^ k.wOut := fun n => Nat.mod_mod _ _
  rcases hs with rfl | rfl | rfl | rfl | rfl | rfl | rfl | rfl | rfl | rfl | rfl | hs
  · rw [cyc0]; simp [SelInv] at h1 h3 ⊢; omega
  · have hv : v = 0 ∨ v ≠ 0 := by omega
    rcases hv with rfl | hv
    · rw [cyc1n]; simp [SelInv] at h1 h3 ⊢; omega
    · have e : (reqCycle k ⟨ct, nc, 1, t⟩ ⟨r, x1, x2, x3, a, sr, b, c', cp⟩ v c)
          = (⟨ct, c, 2, t⟩, ⟨0, x1, x2, x3, a, sr, b, c', cp⟩) := by
        simp [reqCycle, CMDRequest.step, upd, Py.truthy, hv]
      rw [e]; simp [SelInv] at h1 h3 ⊢; omega
  · obtain ⟨e, hn⟩ := cyc2_any' k ct nc t ⟨r, x1, x2, x3, a, sr, b, c', cp⟩ v c
    simp only [SelInv]
    rw [e]
    simp at h1 h3 ⊢
    omega
  · have e : (reqCycle k ⟨ct, nc, 3, t⟩ ⟨r, x1, x2, x3, a, sr, b, c', cp⟩ v c).2.sio = x3 ∧
        (reqCycle k ⟨ct, nc, 3, t⟩ ⟨r, x1, x2, x3, a, sr, b, c', cp⟩ v c).2.start_resp = sr ∧
        (reqCycle k ⟨ct, nc, 3, t⟩ ⟨r, x1, x2, x3, a, sr, b, c', cp⟩ v c).2.index_out = c' ∧
        (reqCycle k ⟨ct, nc, 3, t⟩ ⟨r, x1, x2, x3, a, sr, b, c', cp⟩ v c).1.state = 4 := by
      simp [reqCycle, CMDRequest.step, upd]
    simp [SelInv] at h1 h3 ⊢; omega
  · rw [cyc4]; simp [SelInv] at h1 h3 ⊢
  · have e : (reqCycle k ⟨ct, nc, 5, t⟩ ⟨r, x1, x2, x3, a, sr, b, c', cp⟩ v c).2.sio = x3 ∧
        (reqCycle k ⟨ct, nc, 5, t⟩ ⟨r, x1, x2, x3, a, sr, b, c', cp⟩ v c).2.start_resp = sr ∧
        (reqCycle k ⟨ct, nc, 5, t⟩ ⟨r, x1, x2, x3, a, sr, b, c', cp⟩ v c).2.index_out = c' ∧
        (reqCycle k ⟨ct, nc, 5, t⟩ ⟨r, x1, x2, x3, a, sr, b, c', cp⟩ v c).1.state = 4 := by
      simp [reqCycle, CMDRequest.step, upd]
    simp [SelInv] at h1 h3 ⊢; omega
  · have e : (reqCycle k ⟨ct, nc, 6, t⟩ ⟨r, x1, x2, x3, a, sr, b, c', cp⟩ v c).2.sio = 1 ∧
        (reqCycle k ⟨ct, nc, 6, t⟩ ⟨r, x1, x2, x3, a, sr, b, c', cp⟩ v c).2.start_resp = sr ∧
        (reqCycle k ⟨ct, nc, 6, t⟩ ⟨r, x1, x2, x3, a, sr, b, c', cp⟩ v c).1.state = 10 := by
      simp [reqCycle, CMDRequest.step, upd]
    simp [SelInv] at h1 h3 ⊢; omega
  · rw [cyc7]
    have hx3 : x3 = 0 := by simp at h1; exact h1
    have := h2 rfl
    simp [SelInv, hx3, this, hmm]
  · have ht : t = 0 ∨ t ≠ 0 := by omega
    rcases ht with rfl | ht
    · rw [cyc8z]; simp [SelInv] at h1 h3 ⊢; omega
    · have e : (reqCycle k ⟨ct, nc, 8, t⟩ ⟨r, x1, x2, x3, a, sr, b, c', cp⟩ v c)
          = (⟨ct, nc, 9, t - 1⟩, ⟨r, x1, x2, x3, a, sr, b, c', 1⟩) := by
        simp [reqCycle, CMDRequest.step, upd, ht]
      rw [e]; simp [SelInv] at h1 h3 ⊢; omega
  · rw [cyc9]; simp [SelInv] at h1 h3 ⊢; omega
  · rw [cyc10]
    have hx3 : x3 ≠ 0 := by simp at h1; exact h1
    simp [SelInv, hx3]
    simp at h3; exact h3
  · have e : reqCycle k ⟨ct, nc, s, t⟩ ⟨r, x1, x2, x3, a, sr, b, c', cp⟩ v c
        = (⟨ct, nc, s, t⟩, ⟨r, x1, x2, x3, a, sr, b, c', cp⟩) := by
      obtain ⟨h0, h1, h2, h3, h4, h5, h6, h7, h8, h9, h10⟩ := hs
      simp [reqCycle, CMDRequest.step, upd, h0, h1, h2, h3, h4, h5, h6, h7, h8, h9, h10]
    rw [e]; simp [SelInv] at h1 h3 ⊢; omega

/-- one `clk` of the whole chain under ARBITRARY inputs: no exception, the monitor accepts what the encoder's ports show,
    both invariants are kept, the request side is exactly `reqCycle` (the encoder does not feed back), and a start pulse
    is always accompanied by the table entry of the number on the `index_out` bus -/
theorem chain_step_inv (wv : Nat) (tab : Nat → Nat × Nat) (c : Chain) (m : Mon) (v ch rd : Nat)
    (hs : SelInv k c.st c.w c.sel) (hc : Coup wv m c.rs c.rw) :
    ∃ c' m', chainStep k wv tab c v ch rd = some c' ∧
      monStep wv m (c.respIn tab rd, xfer c.rw (c.respIn tab rd)) = some m' ∧
      SelInv k c'.st c'.w c'.sel ∧ Coup wv m' c'.rs c'.rw ∧ (c'.st, c'.w) = reqCycle k c.st c.w v ch ∧
      ((c.respIn tab rd).start ≠ 0 →
        ((c.respIn tab rd).vin, (c.respIn tab rd).size) = tab (c'.w.index_out % 2 ^ k.wOut)) := by
  obtain ⟨s', w', m', e, hm, hc'⟩ := resp_session_step wv m c.rs c.rw (c.respIn tab rd) hc
  obtain ⟨hs', hio⟩ := selInv_step k c.st c.w c.sel v ch hs
  refine ⟨⟨(reqCycle k c.st c.w v ch).1, (reqCycle k c.st c.w v ch).2, selNext k.wOut c.w c.sel, s', w'⟩, m',
    by simp [chainStep, e], hm, hs', hc', rfl, ?_⟩
  intro hst
  have hst' : c.w.start_resp ≠ 0 := hst
  obtain ⟨_, hsel⟩ := hs.2.2 hst'
  simp only [Chain.respIn]
  rw [hio hst', ← hsel]

theorem chain_run_inv (wv : Nat) (tab : Nat → Nat × Nat) (ins : List (Nat × Nat × Nat)) :
    ∀ (c : Chain) (m : Mon), SelInv k c.st c.w c.sel → Coup wv m c.rs c.rw →
      ∃ rows m', chainRun k wv tab c ins = some rows ∧ monRun wv m (rows.map (·.2)) = some m' ∧
        rows.map (fun r => (r.1.st, r.1.w)) = reqRun k c.st c.w (ins.map fun x => (x.1, x.2.1)) ∧
        ∀ r ∈ rows, r.2.1.start ≠ 0 → (r.2.1.vin, r.2.1.size) = tab (r.1.w.index_out % 2 ^ k.wOut) := by
  induction ins with
  | nil => intro c m _ _; exact ⟨[], m, rfl, rfl, rfl, by simp⟩
  | cons i ins ih =>
    intro c m hs hc
    obtain ⟨v, ch, rd⟩ := i
    obtain ⟨c', m1, e1, hm1, hs', hc', hreq, hsmp⟩ := chain_step_inv k wv tab c m v ch rd hs hc
    obtain ⟨rows, m', e2, hm2, hr2, hs2⟩ := ih c' m1 hs' hc'
    refine ⟨(c', (c.respIn tab rd, xfer c.rw (c.respIn tab rd))) :: rows, m', by simp [chainRun, e1, e2],
      by simp [monRun, hm1, hm2], ?_, ?_⟩
    · have h1 : (reqCycle k c.st c.w v ch).1 = c'.st := by rw [← hreq]
      have h2 : (reqCycle k c.st c.w v ch).2 = c'.w := by rw [← hreq]
      simp only [List.map_cons, reqRun]
      rw [hr2, hreq, h1, h2]
    · intro r hr
      simp only [List.mem_cons] at hr
      rcases hr with rfl | hr
      · exact hsmp
      · exact hs2 r hr

/-! ### which output a start pulse selects -/

/-- `index_out` is written only together with `set_index_out` -/
theorem index_out_step (st : CMDRequest.St) (w : ReqW) (v c : Nat) :
    (reqCycle k st w v c).2.sio = 0 → (reqCycle k st w v c).2.index_out = w.index_out := by
  obtain ⟨ct, nc, s, t⟩ := st
  have hs : s = 0 ∨ s = 1 ∨ s = 2 ∨ s = 3 ∨ s = 4 ∨ s = 5 ∨ s = 6 ∨ s = 7 ∨ s = 8 ∨ s = 9 ∨ s = 10 ∨
      (s ≠ 0 ∧ s ≠ 1 ∧ s ≠ 2 ∧ s ≠ 3 ∧ s ≠ 4 ∧ s ≠ 5 ∧ s ≠ 6 ∧ s ≠ 7 ∧ s ≠ 8 ∧ s ≠ 9 ∧ s ≠ 10) := by omega
  rcases hs with rfl | rfl | rfl | rfl | rfl | rfl | rfl | rfl | rfl | rfl | rfl | hs
  · simp [reqCycle, CMDRequest.step, upd]
  · simp only [reqCycle, CMDRequest.step, Id.run, pure]; simp; split <;> simp [upd]
  · intro _; rw [(cyc2_any' k ct nc t w v c).1]
  · simp [reqCycle, CMDRequest.step, upd]
  · simp [reqCycle, CMDRequest.step, upd]
  · simp [reqCycle, CMDRequest.step, upd]
  · simp [reqCycle, CMDRequest.step, upd]
  · simp [reqCycle, CMDRequest.step, upd]
  · simp only [reqCycle, CMDRequest.step, Id.run, pure]; simp; split <;> simp [upd]
  · simp [reqCycle, CMDRequest.step, upd]
  · simp [reqCycle, CMDRequest.step, upd]
  · obtain ⟨h0, h1, h2, h3, h4, h5, h6, h7, h8, h9, h10⟩ := hs
    simp [reqCycle, CMDRequest.step, upd, h0, h1, h2, h3, h4, h5, h6, h7, h8, h9, h10]

theorem lastSel_append (a : Nat) (l1 l2 : List Ev) : lastSel a (l1 ++ l2) = lastSel (lastSel a l1) l2 := by
  induction l1 generalizing a with
  | nil => rfl
  | cons e l1 ih => cases e <;> simp [lastSel, ih]

theorem lastSel_evOf (a : Nat) (w : ReqW) : lastSel a (evOf w) = if w.sio ≠ 0 then w.index_out else a := by
  unfold evOf
  by_cases h1 : w.sii = 0 <;> by_cases h2 : w.sv = 0 <;> by_cases h3 : w.sio = 0 <;>
    by_cases h4 : w.start_resp = 0 <;> by_cases h5 : w.clk_pulse = 0 <;> simp [lastSel, h1, h2, h3, h4, h5]

theorem lastSel_cycle (st : CMDRequest.St) (w : ReqW) (v c : Nat) :
    lastSel w.index_out (evOf (reqCycle k st w v c).2) = (reqCycle k st w v c).2.index_out := by
  rw [lastSel_evOf]
  by_cases h : (reqCycle k st w v c).2.sio = 0
  · simp [h, index_out_step k st w v c h]
  · simp [h]

/-- under ARBITRARY inputs the number on the `index_out` bus is, in every cycle, the number of the last `selOut` event -/
theorem index_out_tracks (ins : List (Nat × Nat)) :
    ∀ (st : CMDRequest.St) (w : ReqW) (pre : List ReqW) (x : ReqW) (post : List ReqW),
      (reqRun k st w ins).map (·.2) = pre ++ x :: post →
      x.index_out = lastSel w.index_out (events (pre ++ [x])) := by
  induction ins with
  | nil => intro st w pre x post h; simp [reqRun] at h
  | cons i ins ih =>
    intro st w pre x post h
    obtain ⟨v, c⟩ := i
    simp only [reqRun, List.map_cons] at h
    cases pre with
    | nil =>
      simp only [List.nil_append, List.cons.injEq] at h
      obtain ⟨hx, _⟩ := h
      subst hx
      simp only [List.nil_append, events, List.flatMap_cons, List.flatMap_nil, List.append_nil]
      exact (lastSel_cycle k st w v c).symm
    | cons p pre =>
      simp only [List.cons_append, List.cons.injEq] at h
      obtain ⟨hp, ht⟩ := h
      have := ih _ _ pre x post ht
      subst hp
      rw [this]
      simp only [List.cons_append, events, List.flatMap_cons]
      rw [lastSel_append, lastSel_cycle]

theorem trace_eq_reqRun (n : Nat) :
    ∀ l : ReqLoop, trace k n l = (reqRun k l.st l.w (loopIns k n l)).map (·.2) := by
  induction n with
  | zero => intro l; simp [trace, loopIns, reqRun]
  | succ n ih => intro l; simp [trace, loopIns, reqRun, ih, reqLoopStep]

theorem chainIns_proj (rdy : Nat → Nat) (l : List (Nat × Nat)) :
    ∀ t, (chainIns rdy t l).map (fun x => (x.1, x.2.1)) = l := by
  induction l with
  | nil => intro t; rfl
  | cons a l ih => intro t; obtain ⟨v, ch⟩ := a; simp [chainIns, ih]

theorem selAtStarts_clk (a n : Nat) (r : List Ev) :
    selAtStarts a (List.replicate n Ev.clk ++ r) = selAtStarts a r := by
  induction n with
  | zero => rfl
  | succ n ih => simp [List.replicate_succ, selAtStarts, ih]

/-- specification level: in the meaning of a well-formed command stream every `startResp` is preceded by the `selOut` of
    its own command, so the start pulses select exactly the queried outputs, in order -/
theorem queries_of_meaning (cmds : List Cmd) (a : Nat) :
    selAtStarts a (cmds.flatMap (Cmd.meaning k)) = queries k cmds := by
  induction cmds generalizing a with
  | nil => rfl
  | cons c cmds ih =>
    cases c with
    | I ds => simp [Cmd.meaning, selAtStarts, queries, ih]
    | V ds => simp [Cmd.meaning, selAtStarts, queries, ih]
    | O ds => simp [Cmd.meaning, selAtStarts, queries, ih]
    | K ds => simp [Cmd.meaning, queries, selAtStarts_clk, ih]
    | sep ch => simp [Cmd.meaning, queries, ih]

end C20
