import Py4hwV.Transpile.Model
import Py4hwV.Transpile.PySem
import Py4hwV.Verilog.Sem
/-
  C02, expression level: the translated expression evaluated under IEEE 1364 sizing/signedness rules gives the Python value,
  on the fragment `okV`/`okC` and the domain `evalD` (every computed value in [0, 2^31)).
-/
namespace C02
open Tp

/-! ### the domain -/
theorem inDom_iff (v : Int) : inDom v = true ↔ 0 ≤ v ∧ v < 2 ^ 31 := by
  simp [inDom]

theorem two31_lt (W : Nat) (h : 32 ≤ W) : (2:Nat) ^ 31 < 2 ^ W :=
  Nat.pow_lt_pow_right (by omega) (by omega)

theorem toNat_lt {v : Int} (h : inDom v = true) : v.toNat < 2 ^ 31 := by
  have := (inDom_iff v).1 h
  omega

/-! ### resizing -/
theorem ext_int {W : Nat} {sg : Bool} {n : Nat} (hW : 32 ≤ W) (hn : n < 2 ^ 31) :
    V.ext W sg ⟨32, n, true⟩ = ⟨W, n, true⟩ := by
  unfold V.ext
  by_cases h : W ≤ 32
  · have : W = 32 := by omega
    subst this
    simp
    omega
  · have h2 : ¬ (2 ^ 31 ≤ n) := by omega
    simp [h, h2]

theorem ext_port {W w n : Nat} (h : w ≤ W) (hn : n < 2 ^ w) : V.ext W false ⟨w, n, true⟩ = ⟨W, n, true⟩ := by
  unfold V.ext
  by_cases h2 : W ≤ w
  · have : W = w := by omega
    subst this
    simp [Nat.mod_eq_of_lt hn]
  · simp [h2]

theorem ext_b1 {W : Nat} (b : Bool) (hW : 1 ≤ W) : V.ext W false (V.b1 b) = ⟨W, if b then 1 else 0, true⟩ := by
  unfold V.b1
  apply ext_port hW
  cases b <;> simp

end C02

namespace C02
open Tp

/-! ### Python operators on non-negative operands, as `Nat` -/
theorem py_fdiv (m n : Nat) : Py.fdiv (m:Int) (n:Int) = ((m / n : Nat) : Int) := by
  unfold Py.fdiv
  rw [Int.fdiv_eq_ediv_of_nonneg _ (Int.natCast_nonneg n)]
  exact (Int.natCast_ediv m n).symm
theorem py_fmod (m n : Nat) : Py.fmod (m:Int) (n:Int) = ((m % n : Nat) : Int) := by
  unfold Py.fmod
  rw [Int.fmod_eq_emod_of_nonneg _ (Int.natCast_nonneg n)]
  exact (Int.natCast_emod m n).symm
theorem py_shr (m k : Nat) : Py.shr (m:Int) k = ((m >>> k : Nat) : Int) := by
  unfold Py.shr
  rw [Int.shiftRight_eq_div_pow, Nat.shiftRight_eq_div_pow]
  exact (Int.natCast_ediv m (2^k)).symm
theorem py_shl (m k : Nat) : Py.shl (m:Int) k = ((m <<< k : Nat) : Int) := by
  unfold Py.shl
  rw [Nat.shiftLeft_eq]
  simp
theorem py_land (m n : Nat) : Py.land (m:Int) (n:Int) = ((m &&& n : Nat) : Int) := rfl
theorem py_lor (m n : Nat) : Py.lor (m:Int) (n:Int) = ((m ||| n : Nat) : Int) := rfl
theorem py_lxor (m n : Nat) : Py.lxor (m:Int) (n:Int) = ((m ^^^ n : Nat) : Int) := rfl

theorem dom_nat {v : Int} (h : inDom v = true) : ∃ m : Nat, v = (m : Int) ∧ m < 2 ^ 31 := by
  have := (inDom_iff v).1 h
  exact ⟨v.toNat, by omega, by omega⟩

theorem inDom_nat {m : Nat} : inDom (m : Int) = true ↔ m < 2 ^ 31 := by
  rw [inDom_iff]; omega

/-! ### `V.toInt` of a non-negative value that fits below the sign bit -/
theorem toInt_small {W x : Nat} (hW : 32 ≤ W) (hx : x < 2 ^ 31) : V.toInt ⟨W, x, true⟩ = (x : Int) := by
  unfold V.toInt
  have : (2:Nat) ^ 31 ≤ 2 ^ (W - 1) := Nat.pow_le_pow_right (by omega) (by omega)
  have h2 : ¬ (2 ^ (W - 1) ≤ x) := by omega
  simp [h2]

theorem ofInt_small {W x : Nat} (hW : 32 ≤ W) (hx : x < 2 ^ 31) : V.ofInt W (x : Int) = ⟨W, x, true⟩ := by
  unfold V.ofInt
  have h := two31_lt W hW
  have : ((x : Int) % ((2 ^ W : Nat) : Int)).toNat = x := by
    rw [← Int.natCast_emod, Int.toNat_natCast, Nat.mod_eq_of_lt (by omega)]
  rw [this]

theorem arith_div {W x y : Nat} (sg : Bool) (hW : 32 ≤ W) (hx : x < 2 ^ 31) (hy : y < 2 ^ 31) (hy0 : y ≠ 0) :
    V.arith "div" W sg ⟨W, x, true⟩ ⟨W, y, true⟩ = ⟨W, x / y, true⟩ := by
  have h31 := two31_lt W hW
  have hq : x / y < 2 ^ 31 := Nat.lt_of_le_of_lt (Nat.div_le_self x y) hx
  cases sg
  · simp [V.arith, V.BV.mk', hy0, Nat.mod_eq_of_lt (show x / y < 2 ^ W by omega)]
  · have h : Int.tdiv (x : Int) (y : Int) = ((x / y : Nat) : Int) := by
      rw [Int.tdiv_eq_ediv_of_nonneg (Int.natCast_nonneg x)]; exact (Int.natCast_ediv x y).symm
    simp only [V.arith, Bool.and_self, Bool.not_true, Bool.false_eq_true, if_false, hy0, if_true, toInt_small hW hx,
      toInt_small hW hy, h, ofInt_small hW hq]

theorem arith_mod {W x y : Nat} (sg : Bool) (hW : 32 ≤ W) (hx : x < 2 ^ 31) (hy : y < 2 ^ 31) (hy0 : y ≠ 0) :
    V.arith "mod" W sg ⟨W, x, true⟩ ⟨W, y, true⟩ = ⟨W, x % y, true⟩ := by
  have h31 := two31_lt W hW
  have hq : x % y < 2 ^ 31 := Nat.lt_of_le_of_lt (Nat.mod_le x y) hx
  cases sg
  · simp [V.arith, V.BV.mk', hy0, Nat.mod_eq_of_lt (show x % y < 2 ^ W by omega)]
  · have h : Int.tmod (x : Int) (y : Int) = ((x % y : Nat) : Int) := by
      rw [Int.tmod_eq_emod_of_nonneg (Int.natCast_nonneg x)]; exact (Int.natCast_emod x y).symm
    simp only [V.arith, Bool.and_self, Bool.not_true, Bool.false_eq_true, if_false, hy0, if_true, toInt_small hW hx,
      toInt_small hW hy, h, ofInt_small hW hq]

/-- arithmetic / bitwise operators: Verilog at any context width >= 32, either signedness = Python, inside the domain -/
theorem binop_sound (op : BinOp) (W : Nat) (sg : Bool) (x y : Nat) (v : Int) (hW : 32 ≤ W) (hx : x < 2 ^ 31) (hy : y < 2 ^ 31)
    (hb : binop op (x : Int) (y : Int) = .ok v) (hv : inDom v = true) (hs1 : op ≠ .shl) (hs2 : op ≠ .shr) :
    V.arith (vBin (Gen.TranspileOps.binSym op)) W sg ⟨W, x, true⟩ ⟨W, y, true⟩ = ⟨W, v.toNat, true⟩ := by
  have h31 := two31_lt W hW
  obtain ⟨m, rfl, hm⟩ := dom_nat hv
  rw [Int.toNat_natCast]
  cases op with
  | add =>
    simp only [binop, Except.ok.injEq] at hb
    have : m = x + y := by omega
    subst this
    simp [V.arith, vBin, Gen.TranspileOps.binSym, V.BV.mk', Nat.mod_eq_of_lt (show x + y < 2 ^ W by omega)]
  | sub =>
    simp only [binop, Except.ok.injEq] at hb
    have hxy : x = m + y := by omega
    subst hxy
    have h1 : y % 2 ^ W = y := Nat.mod_eq_of_lt (by omega)
    have h2 : (m + y + (2 ^ W - y)) % 2 ^ W = m := by
      have : m + y + (2 ^ W - y) = m + 2 ^ W := by omega
      rw [this, Nat.add_mod_right, Nat.mod_eq_of_lt (by omega)]
    simp [V.arith, vBin, Gen.TranspileOps.binSym, V.BV.mk', h1, h2]
  | mul =>
    simp only [binop, Except.ok.injEq] at hb
    have : m = x * y := by
      have : ((x * y : Nat) : Int) = (m : Int) := by rw [← hb]; simp
      omega
    subst this
    simp [V.arith, vBin, Gen.TranspileOps.binSym, V.BV.mk', Nat.mod_eq_of_lt (show x * y < 2 ^ W by omega)]
  | fdiv =>
    simp only [binop] at hb
    split at hb
    · cases hb
    · rename_i hy0
      simp only [Except.ok.injEq, py_fdiv] at hb
      have hmq : m = x / y := by omega
      have hy0' : y ≠ 0 := by omega
      subst hmq
      exact arith_div sg hW hx hy hy0'
  | fmod =>
    simp only [binop] at hb
    split at hb
    · cases hb
    · rename_i hy0
      simp only [Except.ok.injEq, py_fmod] at hb
      have hmq : m = x % y := by omega
      have hy0' : y ≠ 0 := by omega
      subst hmq
      exact arith_mod sg hW hx hy hy0'
  | band =>
    simp only [binop, Except.ok.injEq, py_land] at hb
    have : m = x &&& y := by omega
    subst this
    simp [V.arith, vBin, Gen.TranspileOps.binSym]
  | bor =>
    simp only [binop, Except.ok.injEq, py_lor] at hb
    have : m = x ||| y := by omega
    subst this
    simp [V.arith, vBin, Gen.TranspileOps.binSym]
  | bxor =>
    simp only [binop, Except.ok.injEq, py_lxor] at hb
    have : m = x ^^^ y := by omega
    subst this
    simp [V.arith, vBin, Gen.TranspileOps.binSym]
  | shl => exact absurd rfl hs1
  | shr => exact absurd rfl hs2

end C02

namespace C02
open Tp

/-! ### typing of the Verilog reader and agreement of the two environments -/

/-- declarations the emitted module gives the names: a port has its width and is unsigned, everything else is an `integer` -/
def typing (c : ClassD) (n : String) : Option V.SigInfo :=
  match c.port? n with
  | some p => some { width := p.width, signed := false }
  | none => some { width := 32, signed := true }

def allNames : Expr → List String
  | .const _ => []
  | .loc n => [n] | .attr n => [n] | .get n => [n] | .par n => [n]
  | .un _ e => allNames e
  | .bin _ a b => allNames a ++ allNames b
  | .cmp _ a b => allNames a ++ allNames b
  | .and a b => allNames a ++ allNames b
  | .or a b => allNames a ++ allNames b
  | .ite cnd a b => allNames cnd ++ (allNames a ++ allNames b)

def Typed (c : ClassD) (r : V.Rd) (e : Expr) : Prop := ∀ n, n ∈ allNames e → r.info n = typing c n

/-- the Verilog store holds, for every name the Python side has a value for, that value in the declared shape -/
structure Agree (c : ClassD) (ρ : Env) (r : V.Rd) : Prop where
  loc : ∀ n v, ρ.loc n = some v → inDom v = true → isPort c n = false → r.val n = ⟨32, v.toNat, true⟩
  att : ∀ n v, ρ.att n = some v → inDom v = true → isPort c n = false → (isState c n = true ∨ lookup c.consts n = none) →
          r.val n = ⟨32, v.toNat, true⟩
  cst : ∀ n v k, ρ.att n = some v → isState c n = false → lookup c.consts n = some k → v = k
  par : ∀ n v, ρ.par n = some v → inDom v = true → isPort c n = false → r.val n = ⟨32, v.toNat, true⟩
  wire : ∀ n v p, ρ.wire n = some v → c.port? n = some p → 0 ≤ v ∧ v.toNat < 2 ^ p.width ∧ r.val n = ⟨p.width, v.toNat, true⟩

theorem widthOf_typed {c : ClassD} {r : V.Rd} {n : String} (h : r.info n = typing c n) :
    V.widthOf r n = (match c.port? n with | some p => p.width | none => 32) := by
  unfold V.widthOf typing at *
  rw [h]; cases c.port? n <;> rfl

theorem signedOf_typed {c : ClassD} {r : V.Rd} {n : String} (h : r.info n = typing c n) :
    V.signedOf r n = (c.port? n).isNone := by
  unfold V.signedOf typing at *
  rw [h]; cases c.port? n <;> rfl

theorem selfW_numE (r : V.Rd) (k : Int) : V.selfW r (numE k) = 32 := by
  unfold numE; split <;> simp [V.selfW]

theorem isPort_false {c : ClassD} {n : String} (h : isPort c n = false) : c.port? n = none := by
  unfold isPort at h; cases hp : c.port? n <;> simp_all

theorem isPort_true {c : ClassD} {n : String} (h : isPort c n = true) : ∃ p, c.port? n = some p := by
  unfold isPort at h; cases hp : c.port? n <;> simp_all

theorem selfW_resolve {c : ClassD} {r : V.Rd} {n : String} (h : r.info n = typing c n) :
    V.selfW r (resolveName c n) = (match c.port? n with | some p => p.width | none => 32) := by
  unfold resolveName
  by_cases hp : isPort c n = true
  · simp [hp, V.selfW, widthOf_typed h]
  · have hp' : isPort c n = false := by simpa using hp
    have hn := isPort_false hp'
    by_cases hs : isState c n = true
    · simp [hp', hs, V.selfW, widthOf_typed h]
    · have hs' : isState c n = false := by simpa using hs
      cases hk : lookup c.consts n with
      | none => simp [hp', hs', V.selfW, widthOf_typed h]
      | some k => simp [hp', hs', selfW_numE, hn]

/-- the static width `sw` IS the IEEE self-determined width of the translation -/
theorem selfW_trE (c : ClassD) (r : V.Rd) : ∀ e, Typed c r e → V.selfW r (trE c e) = sw c e := by
  intro e
  induction e with
  | const v => intro _; simp [trE, sw, selfW_numE]
  | loc n => intro h; simp only [trE, sw]; exact selfW_resolve (h n (by simp [allNames]))
  | attr n => intro h; simp only [trE, sw]; exact selfW_resolve (h n (by simp [allNames]))
  | get n => intro h; simp only [trE, sw, V.selfW]; exact widthOf_typed (h n (by simp [allNames]))
  | par n => intro h; simp only [trE, sw, V.selfW]; exact widthOf_typed (h n (by simp [allNames]))
  | un op e ih =>
    intro h
    have := ih (fun n hn => h n (by simpa [allNames] using hn))
    cases op <;> simp [trE, sw, V.selfW, vUn, Gen.TranspileOps.unSym, this]
  | bin op a b iha ihb =>
    intro h
    have ha := iha (fun n hn => h n (by simp [allNames, hn]))
    have hb := ihb (fun n hn => h n (by simp [allNames, hn]))
    cases op <;> simp [trE, sw, isShiftOp, V.selfW, vBin, Gen.TranspileOps.binSym, V.isRel, V.isLog, V.isShift, ha, hb]
  | cmp op a b iha ihb => intro _; cases op <;> simp [trE, sw, V.selfW, vBin, Gen.TranspileOps.cmpSym, V.isRel]
  | and a b iha ihb => intro _; simp [trE, sw, V.selfW, vBin, Gen.TranspileOps.andSym, V.isRel, V.isLog]
  | or a b iha ihb => intro _; simp [trE, sw, V.selfW, vBin, Gen.TranspileOps.orSym, V.isRel, V.isLog]
  | ite cnd a b ihc iha ihb =>
    intro h
    have ha := iha (fun n hn => h n (by simp [allNames, hn]))
    have hb := ihb (fun n hn => h n (by simp [allNames, hn]))
    simp [trE, sw, V.selfW, ha, hb]

end C02

namespace C02
open Tp

theorem inDom_ofBool (b : Bool) : inDom (Py.ofBool b) = true := by cases b <;> decide

theorem evalD_inDom (ρ : Env) : ∀ e v, evalD ρ e = some v → inDom v = true := by
  intro e
  induction e with
  | const k => intro v h; simp only [evalD] at h; split at h <;> simp_all
  | loc n =>
    intro v h; simp only [evalD] at h
    split at h
    · split at h <;> simp_all
    · simp at h
  | attr n =>
    intro v h; simp only [evalD] at h
    split at h
    · split at h <;> simp_all
    · simp at h
  | get n =>
    intro v h; simp only [evalD] at h
    split at h
    · split at h <;> simp_all
    · simp at h
  | par n =>
    intro v h; simp only [evalD] at h
    split at h
    · split at h <;> simp_all
    · simp at h
  | un op e ih =>
    intro v h; simp only [evalD] at h
    split at h
    · split at h <;> simp_all
    · simp at h
  | bin op a b iha ihb =>
    intro v h; simp only [evalD] at h
    split at h
    · split at h
      · split at h <;> simp_all
      · simp at h
    · simp at h
  | cmp op a b iha ihb =>
    intro v h; simp only [evalD] at h
    split at h
    · simp only [Option.some.injEq] at h; subst h; exact inDom_ofBool _
    · simp at h
  | and a b iha ihb =>
    intro v h; simp only [evalD] at h
    split at h
    · rename_i x hx
      split at h
      · exact ihb v h
      · simp only [Option.some.injEq] at h; subst h; exact iha x hx
    · simp at h
  | or a b iha ihb =>
    intro v h; simp only [evalD] at h
    split at h
    · rename_i x hx
      split at h
      · simp only [Option.some.injEq] at h; subst h; exact iha x hx
      · exact ihb v h
    · simp at h
  | ite cnd a b ihc iha ihb =>
    intro v h; simp only [evalD] at h
    split at h
    · split at h
      · exact iha v h
      · exact ihb v h
    · simp at h

theorem isBool_01 (ρ : Env) : ∀ e v, isBool e = true → evalD ρ e = some v → v = 0 ∨ v = 1 := by
  intro e
  induction e with
  | const k =>
    intro v hb h
    simp only [evalD] at h
    split at h <;> simp_all [isBool]
  | cmp op a b _ _ =>
    intro v _ h
    simp only [evalD] at h
    split at h
    · simp only [Option.some.injEq] at h; subst h
      cases cmpop op _ _ <;> simp [Py.ofBool]
    · simp at h
  | un op e _ =>
    intro v hb h
    cases op <;> simp [isBool] at hb
    simp only [evalD] at h
    split at h
    · split at h
      · simp only [Option.some.injEq] at h; subst h
        simp only [unop]
        cases (!Py.truthy _) <;> simp [Py.ofBool]
      · simp at h
    · simp at h
  | and a b iha ihb =>
    intro v hb h
    simp only [isBool, Bool.and_eq_true] at hb
    simp only [evalD] at h
    split at h
    · rename_i x hx
      split at h
      · exact ihb v hb.2 h
      · simp only [Option.some.injEq] at h; subst h; exact iha x hb.1 hx
    · simp at h
  | or a b iha ihb =>
    intro v hb h
    simp only [isBool, Bool.and_eq_true] at hb
    simp only [evalD] at h
    split at h
    · rename_i x hx
      split at h
      · simp only [Option.some.injEq] at h; subst h; exact iha x hb.1 hx
      · exact ihb v hb.2 h
    · simp at h
  | loc n => intro v hb; simp [isBool] at hb
  | attr n => intro v hb; simp [isBool] at hb
  | get n => intro v hb; simp [isBool] at hb
  | par n => intro v hb; simp [isBool] at hb
  | bin op a b _ _ => intro v hb; simp [isBool] at hb
  | ite cnd a b _ _ _ => intro v hb; simp [isBool] at hb

end C02

namespace C02
open Tp

def isGet : Expr → Bool
  | .get _ => true
  | _ => false

/-- value position: evaluated in ANY context at least as wide as the expression (and >= 32 bits unless it is a bare port
    read), signed only if the whole context is -/
def ValOK (c : ClassD) (ρ : Env) (r : V.Rd) (e : Expr) : Prop :=
  ∀ v W sg, okV c e = true → evalD ρ e = some v → (32 ≤ W ∨ isGet e = true) → V.selfW r (trE c e) ≤ W →
    (sg = true → V.isSg r (trE c e) = true) → V.eval r W sg (trE c e) = ⟨W, v.toNat, true⟩

/-- condition position: self-determined evaluation, only the truth value matters -/
def CondOK (c : ClassD) (ρ : Env) (r : V.Rd) (e : Expr) : Prop :=
  ∀ v, okC c e = true → evalD ρ e = some v →
    V.truthy (V.eval r (V.selfW r (trE c e)) (V.isSg r (trE c e)) (trE c e)) = some (Py.truthy v)

theorem truthy_IV {W : Nat} {v : Int} (h : 0 ≤ v) : V.truthy ⟨W, v.toNat, true⟩ = some (Py.truthy v) := by
  unfold V.truthy Py.truthy
  have : (v.toNat != 0) = (v != 0) := by
    by_cases hv : v = 0
    · subst hv; rfl
    · have h0 : v.toNat ≠ 0 := by omega
      have h1 : (v.toNat != 0) = true := by simpa using h0
      have h2 : (v != 0) = true := by simpa using hv
      rw [h1, h2]
  simp [this]

theorem truthy_some {x : V.BV} {b : Bool} (h : V.truthy x = some b) : x.k = true ∧ (x.v != 0) = b := by
  unfold V.truthy at h
  split at h <;> simp_all

theorem eval_num (r : V.Rd) (W : Nat) (sg : Bool) (n : Nat) (hW : 32 ≤ W) (hn : n < 2 ^ 31) :
    V.eval r W sg (.num none true n true) = ⟨W, n, true⟩ := by
  simp only [V.eval, V.BV.mk', if_true]
  rw [Nat.mod_eq_of_lt (by omega)]
  exact ext_int hW hn

theorem eval_numE (r : V.Rd) (W : Nat) (sg : Bool) (k : Int) (hW : 32 ≤ W) (hk : inDom k = true) :
    V.eval r W sg (numE k) = ⟨W, k.toNat, true⟩ := by
  have := (inDom_iff k).1 hk
  unfold numE
  rw [if_neg (by omega)]
  exact eval_num r W sg _ hW (toNat_lt hk)

theorem eval_id_int (r : V.Rd) (W : Nat) (sg : Bool) (n : String) (v : Int) (hW : 32 ≤ W) (hv : inDom v = true)
    (h : r.val n = ⟨32, v.toNat, true⟩) : V.eval r W sg (.id n) = ⟨W, v.toNat, true⟩ := by
  simp only [V.eval, h]
  exact ext_int hW (toNat_lt hv)

theorem cond_from_val {c : ClassD} {ρ : Env} {r : V.Rd} {e : Expr} (hv : ValOK c ρ r e) (v : Int) (hok : okV c e = true)
    (he : evalD ρ e = some v) (hw : 32 ≤ V.selfW r (trE c e) ∨ isGet e = true) :
    V.truthy (V.eval r (V.selfW r (trE c e)) (V.isSg r (trE c e)) (trE c e)) = some (Py.truthy v) := by
  rw [hv v _ _ hok he hw (Nat.le_refl _) (fun h => h)]
  exact truthy_IV ((inDom_iff v).1 (evalD_inDom ρ e v he)).1

end C02

namespace C02
theorem eval_arith (r : V.Rd) (W : Nat) (sg : Bool) (op : String) (a b : V.Expr)
    (h1 : V.isRel op = false) (h2 : V.isLog op = false) (h3 : V.isShift op = false) :
    V.eval r W sg (.bin op a b) = V.arith op W sg (V.eval r W sg a) (V.eval r W sg b) := by
  simp [V.eval, h1, h2, h3]

theorem eval_rel (r : V.Rd) (W : Nat) (sg : Bool) (op : String) (a b : V.Expr) (h1 : V.isRel op = true) :
    V.eval r W sg (.bin op a b) =
      V.ext W false (V.rel op (V.isSg r a && V.isSg r b)
        (V.eval r (max (V.selfW r a) (V.selfW r b)) (V.isSg r a && V.isSg r b) a)
        (V.eval r (max (V.selfW r a) (V.selfW r b)) (V.isSg r a && V.isSg r b) b)) := by
  simp [V.eval, h1]
end C02
