import Py4hwV.Proofs.C12FP
/- C12 — field-extraction lemmas for the IEEE decoders (core Lean only). -/
namespace C12
open Py Bits Helper Helper.FPNum

theorem shr_nat (b n : Nat) : Py.shr (b : Int) n = ((b / 2^n : Nat) : Int) := by
  simp [Py.shr, Int.shiftRight_eq_div_pow]

theorem land_mask_nat (x n : Nat) : Py.land (x : Int) ((2:Int)^n - 1) = ((x % 2^n : Nat) : Int) := by
  rw [land_pow_mask]; simp

theorem lor_hidden_bit (M mb : Nat) (h : M < 2^mb) : Py.lor ((2:Int)^mb) (M : Int) = (2:Int)^mb + (M : Int) := by
  have := lor_disjoint' 1 (M : Int) mb (by omega) (by
    have : ((M : Nat) : Int) < ((2^mb : Nat) : Int) := Int.ofNat_lt.mpr h
    simpa using this) (by omega)
  simpa using this

theorem sp_decode_core (b S E M : Nat) (hS : S < 2) (hE : E < 256) (hM : M < 2^23)
    (hb0 : b = 0 ↔ (S = 0 ∧ E = 0 ∧ M = 0)) :
    (if ((b : Int) == 0) = true then PyFloat.fin false { n := 0, k := 0 }
      else if ((E : Int) == 2 ^ 8 - 1) = true then
        if ((M : Int) == 0) = true then (if ((S : Int) == 1) = true then PyFloat.inf true else PyFloat.inf false)
        else PyFloat.nan
      else FPH.ieee754_parts_to_sp (S : Int) (E : Int) (M : Int)) =
    if (E == 2 ^ 8 - 1) = true then
      (if (M == 0) = true then PyFloat.inf (S % 2 == 1) else PyFloat.nan)
    else if (E == 0) = true then
      (if (M == 0) = true then PyFloat.fin (S % 2 == 1) { n := 0, k := 0 }
       else PyFloat.fin (S % 2 == 1) { n := (M : Int), k := 1 - IEEE.single.bias - ((23 : Nat) : Int) })
    else PyFloat.fin (S % 2 == 1) { n := 2 ^ 23 + (M : Int), k := (E : Int) - IEEE.single.bias - ((23 : Nat) : Int) } := by
  have hl := lor_hidden_bit M 23 hM
  have hbz : ((b : Int) == 0) = (b == 0) := by
    cases hh : (b == 0) <;> simp at hh ⊢ <;> omega
  rw [hbz]
  have hS' : S = 0 ∨ S = 1 := by omega
  by_cases hE255 : E = 255
  · subst hE255
    rcases hS' with rfl | rfl <;> by_cases hM0 : M = 0 <;> simp [hM0, hb0] <;> omega
  · by_cases hE0 : E = 0
    · subst hE0
      rcases hS' with rfl | rfl <;> by_cases hM0 : M = 0 <;>
        simp [hM0, hb0, FPH.ieee754_parts_to_sp, FPH.parts_to_fp, IEEE.Format.bias, IEEE.single] <;> omega
    · have e1 : ((E : Int) == 2^8 - 1) = false := by simp; omega
      have e2 : (E == 2^8 - 1) = false := by simp; omega
      have e3 : (E == 0) = false := by simp [hE0]
      have e4 : ((E : Int) == 0) = false := by simp; omega
      have e5 : (b == 0) = false := by simp; omega
      have hl' : Py.lor 8388608 (M : Int) = 8388608 + (M : Int) := by simpa using hl
      have e1' : ¬ ((E : Int) = 255) := by omega
      rcases hS' with rfl | rfl <;>
        simp [e1', e2, e3, e4, e5, FPH.ieee754_parts_to_sp, FPH.parts_to_fp, IEEE.Format.bias, IEEE.single, shl_one, hl']

theorem dp_decode_core (b S E M : Nat) (hS : S < 2) (hE : E < 2048) (hM : M < 2^52)
    (hb0 : b = 0 ↔ (S = 0 ∧ E = 0 ∧ M = 0)) :
    (if ((b : Int) == 0) = true then PyFloat.fin false { n := 0, k := 0 }
      else if ((E : Int) == 2 ^ 11 - 1) = true then
        if ((M : Int) == 0) = true then (if ((S : Int) == 1) = true then PyFloat.inf true else PyFloat.inf false)
        else PyFloat.nan
      else FPH.ieee754_parts_to_dp (S : Int) (E : Int) (M : Int)) =
    if (E == 2 ^ 11 - 1) = true then
      (if (M == 0) = true then PyFloat.inf (S % 2 == 1) else PyFloat.nan)
    else if (E == 0) = true then
      (if (M == 0) = true then PyFloat.fin (S % 2 == 1) { n := 0, k := 0 }
       else PyFloat.fin (S % 2 == 1) { n := (M : Int), k := 1 - IEEE.double.bias - ((52 : Nat) : Int) })
    else PyFloat.fin (S % 2 == 1) { n := 2 ^ 52 + (M : Int), k := (E : Int) - IEEE.double.bias - ((52 : Nat) : Int) } := by
  have hl := lor_hidden_bit M 52 hM
  have hbz : ((b : Int) == 0) = (b == 0) := by
    cases hh : (b == 0) <;> simp at hh ⊢ <;> omega
  rw [hbz]
  have hS' : S = 0 ∨ S = 1 := by omega
  by_cases hEmax : E = 2047
  · subst hEmax
    rcases hS' with rfl | rfl <;> by_cases hM0 : M = 0 <;> simp [hM0, hb0] <;> omega
  · by_cases hE0 : E = 0
    · subst hE0
      rcases hS' with rfl | rfl <;> by_cases hM0 : M = 0 <;>
        simp [hM0, hb0, FPH.ieee754_parts_to_dp, FPH.parts_to_fp, IEEE.Format.bias, IEEE.double] <;> omega
    · have e1 : ((E : Int) == 2^11 - 1) = false := by simp; omega
      have e2 : (E == 2^11 - 1) = false := by simp; omega
      have e3 : (E == 0) = false := by simp [hE0]
      have e4 : ((E : Int) == 0) = false := by simp; omega
      have e5 : (b == 0) = false := by simp; omega
      have hl' : Py.lor 4503599627370496 (M : Int) = 4503599627370496 + (M : Int) := by simpa using hl
      have e1' : ¬ ((E : Int) = 2047) := by omega
      rcases hS' with rfl | rfl <;>
        simp [e1', e2, e3, e4, e5, FPH.ieee754_parts_to_dp, FPH.parts_to_fp, IEEE.Format.bias, IEEE.double, shl_one, hl']


end C12
