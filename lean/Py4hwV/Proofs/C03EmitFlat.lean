import Py4hwV.Emit.FlatText
import Py4hwV.Verilog.EmitMD
import Py4hwV.Props.C03
/-
  C03 — well-formedness of the MODEL emitter's output for flat designs (`FlatM.FlatSrc.emit`, lean/Py4hwV/Emit/FlatText.lean,
  the C01 emitter model, read-only here).  Helper development for Props/C03Emit.lean.
-/
set_option linter.unusedSimpArgs false
set_option linter.unusedVariables false
namespace C03Emit
open V V.WF FlatM FlatM.FlatSrc

/-! ### generic list facts -/

theorem count_eq_one_of_nodup' {α : Type} [DecidableEq α] {l : List α} (h : l.Nodup) {n : α} (hn : n ∈ l) : l.count n = 1 := by
  induction l with
  | nil => cases hn
  | cons x xs ih =>
    rw [List.nodup_cons] at h
    rw [List.count_cons]
    by_cases e : x = n
    · subst e
      have : xs.count x = 0 := List.count_eq_zero.2 h.1
      simp [this]
    · have hn' : n ∈ xs := by
        rcases List.mem_cons.1 hn with h' | h'
        · exact absurd h'.symm e
        · exact h'
      simp [e, ih h.2 hn']

/-- first match in a list whose keys are pairwise different -/
theorem find?_of_nodup {α : Type} (key : α → String) {l : List α} (h : (l.map key).Nodup) {d : α} (hd : d ∈ l) :
    l.find? (fun x => key x == key d) = some d := by
  induction l with
  | nil => cases hd
  | cons x xs ih =>
    simp only [List.map_cons, List.nodup_cons] at h
    rw [List.find?_cons]
    rcases List.mem_cons.1 hd with e | hm
    · subst e; simp
    · have : key x ≠ key d := fun e => h.1 (e ▸ List.mem_map.2 ⟨d, hm, rfl⟩)
      have hb : (key x == key d) = false := by simp [this]
      rw [hb]; exact ih h.2 hm

/-! ### `dedupMods` -/
def dedupStep (acc : List Module) (m : Module) : List Module := if acc.any (·.name == m.name) then acc else acc ++ [m]

theorem dedupMods_eq (ms : List Module) : dedupMods ms = ms.foldl dedupStep [] := rfl

theorem fold_names_nodup (ms acc : List Module) (h : (acc.map (·.name)).Nodup) : ((ms.foldl dedupStep acc).map (·.name)).Nodup := by
  induction ms generalizing acc with
  | nil => exact h
  | cons m ms ih =>
    apply ih
    unfold dedupStep
    split
    · exact h
    · rename_i hn
      simp only [List.any_eq_true, beq_iff_eq, not_exists, not_and] at hn
      rw [List.map_append, List.nodup_append]
      refine ⟨h, by simp, ?_⟩
      intro a ha b hb
      simp only [List.map_cons, List.map_nil, List.mem_singleton] at hb
      subst hb
      rcases List.mem_map.1 ha with ⟨x, hx, rfl⟩
      exact hn x hx

theorem fold_mem (ms acc : List Module) (x : Module) (h : x ∈ ms.foldl dedupStep acc) : x ∈ acc ∨ x ∈ ms := by
  induction ms generalizing acc with
  | nil => exact .inl h
  | cons m ms ih =>
    rcases ih _ h with h1 | h1
    · unfold dedupStep at h1
      split at h1
      · exact .inl h1
      · rcases List.mem_append.1 h1 with h2 | h2
        · exact .inl h2
        · simp at h2; subst h2; exact .inr (by simp)
    · exact .inr (List.mem_cons_of_mem _ h1)

/-- looking a name up in the de-duplicated list = first module of that name in the original list (after those kept before) -/
theorem fold_find (ms acc : List Module) (n : String) :
    (ms.foldl dedupStep acc).find? (fun m => m.name == n) = (acc ++ ms).find? (fun m => m.name == n) := by
  induction ms generalizing acc with
  | nil => simp
  | cons m ms ih =>
    rw [List.foldl_cons, ih]
    unfold dedupStep
    split
    · rename_i hn
      simp only [List.any_eq_true, beq_iff_eq] at hn
      obtain ⟨x, hx, hxn⟩ := hn
      by_cases e : m.name = n
      · -- the name is already found inside acc
        have hacc : ∃ y, acc.find? (fun m => m.name == n) = some y := by
          cases hf : acc.find? (fun m => m.name == n) with
          | some y => exact ⟨y, rfl⟩
          | none =>
            have := List.find?_eq_none.1 hf x hx
            simp [hxn, e] at this
        obtain ⟨y, hy⟩ := hacc
        simp [List.find?_append, hy]
      · simp [List.find?_append, List.find?_cons, e]
    · simp [List.append_assoc]

theorem dedup_find (ms : List Module) (n : String) : lookup (dedupMods ms) n = ms.find? (fun m => m.name == n) := by
  unfold lookup
  rw [dedupMods_eq, fold_find]; simp

theorem dedup_names_nodup (ms : List Module) : ((dedupMods ms).map (·.name)).Nodup := by
  rw [dedupMods_eq]; exact fold_names_nodup ms [] (by simp)

theorem dedup_mem (ms : List Module) (x : Module) (h : x ∈ dedupMods ms) : x ∈ ms := by
  rw [dedupMods_eq] at h
  rcases fold_mem ms [] x h with h | h
  · cases h
  · exact h

/-! ### the side condition on names that `FlatSrc.check` does not contain, and the facts both give -/

structure Facts (S : FlatSrc) : Prop where
  nets_names : ((nets S).map S.nm).Nodup
  clk_fresh : S.clk ∉ (nets S).map S.nm
  kinds_nets : ∀ k ∈ S.design.kinds, k.out ∈ nets S ∧ ∀ w ∈ (k.leaf S.wd).ins, w ∈ nets S
  regs_nets : ∀ r ∈ S.regSrcs, r.leaf.d ∈ nets S ∧ r.leaf.q ∈ nets S ∧ (r.leaf.hasE = true → r.leaf.e ∈ nets S) ∧
    (r.leaf.hasR = true → r.leaf.r ∈ nets S)
  single : S.drivenNets.Nodup
  top_name : ∀ r ∈ S.regSrcs, r.mname ≠ S.top
  consistent : ∀ r ∈ S.regSrcs, ∀ r' ∈ S.regSrcs, r.mname = r'.mname → S.regModule r = S.regModule r'
  inputs_undriven : ∀ k ∈ S.inputs, k ∉ S.drivenNets
  all_driven : ∀ k ∈ S.outputs ++ S.locals, k ∈ S.drivenNets
  top_kw : S.top ∉ keywords
  mod_kw : ∀ r ∈ S.regSrcs, r.mname ∉ keywords ∧ r.iname ∉ keywords
  net_kw : ∀ k ∈ nets S, S.nm k ∉ keywords
  clk_kw : S.regSrcs ≠ [] → S.clk ∉ keywords
  inames_nodup : (S.regSrcs.map (·.iname)).Nodup
  iname_fresh : ∀ r ∈ S.regSrcs, r.iname ≠ S.clk ∧ r.iname ∉ (nets S).map S.nm

theorem facts (S : FlatSrc) (h : S.check = true) (hn : namesOKb S = true) : Facts S := by
  simp only [FlatSrc.check, FlatSrc.checks, List.all_cons, List.all_nil, Bool.and_true, Bool.and_eq_true, decide_eq_true_eq] at h
  obtain ⟨h1, h2, h3, h4, h5, h6, h7, h8, h9, h10, h11, h12, h13⟩ := h
  simp only [namesOKb, Bool.and_eq_true, decide_eq_true_eq, isKeyword_false, List.all_eq_true, Bool.or_eq_true,
    List.isEmpty_iff] at hn
  obtain ⟨⟨⟨⟨⟨n1, n2⟩, n3⟩, n4⟩, n5⟩, n6⟩ := hn
  have hnames : S.design.names = (nets S).map S.nm ++ ((S.design.regs.flatMap RegI.nodes ++ [Node.base]).map S.design.name) := by
    simp only [FlatDesign.names, FlatDesign.nodes, List.map_append, List.map_map]
    rfl
  rw [hnames, List.nodup_append] at h1
  refine ⟨h1.1, ?_, ?_, ?_, h5, ?_, ?_, ?_, ?_, n1, ?_, n3, ?_, n5, ?_⟩
  · intro hc
    exact h1.2.2 _ hc S.clk (by simp [FlatDesign.name, design]) rfl
  · intro k hk
    have := List.all_eq_true.mp h3 k hk
    simp only [Bool.and_eq_true, List.contains_eq_mem, decide_eq_true_eq, List.all_eq_true] at this
    exact ⟨this.1, fun x hx => this.2 x hx⟩
  · intro r hr
    have hR : FlatSrc.RegSrc.regI r ∈ S.design.regs := List.mem_map.2 ⟨r, hr, rfl⟩
    have := List.all_eq_true.mp h4 _ hR
    simp only [Bool.and_eq_true, List.contains_eq_mem, decide_eq_true_eq, Bool.or_eq_true, Bool.not_eq_true', FlatSrc.RegSrc.regI] at this
    refine ⟨this.1.1.1, this.1.1.2, ?_, ?_⟩
    · intro he; rcases this.1.2 with h | h
      · rw [he] at h; cases h
      · exact h
    · intro hr'; rcases this.2 with h | h
      · rw [hr'] at h; cases h
      · exact h
  · intro r hr; simpa using List.all_eq_true.mp h10 r hr
  · intro r hr r' hr' e
    have := List.all_eq_true.mp (List.all_eq_true.mp h11 r hr) r' hr'
    simp only [Bool.or_eq_true, bne_iff_ne, ne_eq, decide_eq_true_eq] at this
    rcases this with h | h
    · exact absurd e h
    · exact h
  · intro k hk
    have := List.all_eq_true.mp h12 k hk
    simpa using this
  · intro k hk
    have := List.all_eq_true.mp h13 k hk
    simpa using this
  · intro r hr
    have := n2 r hr
    simpa [Bool.and_eq_true, isKeyword_false] using this
  · intro hne
    rcases n4 with h | h
    · exact absurd h hne
    · exact h
  · intro r hr
    have := n6 r hr
    simpa [Bool.and_eq_true] using this

/-! ### the register modules: every header and body rule holds by evaluation (four shapes: with / without enable, reset) -/

theorem regModule_once (S : FlatSrc) (r : RegSrc) : onceErrs (S.regModule r) = [] := by
  rcases r with ⟨i, m, ⟨hR, hE, rv, d, e, rr, q⟩⟩
  cases hR <;> cases hE <;> rfl

theorem regModule_body (all : List Module) (S : FlatSrc) (r : RegSrc) : bodyErrs all (S.regModule r) = [] := by
  rcases r with ⟨i, m, ⟨hR, hE, rv, d, e, rr, q⟩⟩
  cases hR <;> cases hE <;> rfl

theorem regModule_pdef (env : Env) (S : FlatSrc) (r : RegSrc) : pdefErrs env (S.regModule r) = [] := rfl

/-! ### the top module: declarations, instance names -/

def childOut : Child → Nat
  | .prim k => k.out
  | .reg r => r.leaf.q

def childDK : Child → DK
  | .prim _ => .cont
  | .reg _ => .inst

def clkDecl (S : FlatSrc) : List Decl := if S.regSrcs.isEmpty then [] else [{ name := S.clk, kind := .inp, width := 1 }]

def netDecl (S : FlatSrc) (kd : WF.Kind) (k : Nat) : Decl := { name := S.nm k, kind := kd, width := S.wd k }

theorem childItem_decls (S : FlatSrc) (cs : List Child) : (cs.map S.childItem).flatMap itemDecls = [] := by
  rw [List.flatMap_eq_nil_iff]
  intro it hit
  rcases List.mem_map.1 hit with ⟨c, _, rfl⟩
  cases c <;> rfl

theorem decls_top (S : FlatSrc) :
    decls S.topModule = clkDecl S ++ (S.inputs.map (netDecl S .inp) ++ (S.outputs.map (netDecl S .outNet) ++ S.locals.map (netDecl S .wire))) := by
  unfold decls topModule clkDecl
  simp only [List.map_append, List.map_map, List.map_nil, List.nil_append, List.flatMap_append, childItem_decls, List.append_nil,
    List.append_assoc]
  congr 1
  · split <;> rfl
  · congr 1
    congr 1
    rw [List.flatMap_map]
    simp only [itemDecls, netDecl]
    induction S.locals with
    | nil => rfl
    | cons a l ih => simp [List.flatMap_cons, ih]; rfl

theorem declNames_top (S : FlatSrc) :
    declNames S.topModule = (if S.regSrcs.isEmpty then [] else [S.clk]) ++ (nets S).map S.nm := by
  unfold declNames
  rw [decls_top]
  simp only [List.map_append, List.map_map, nets, clkDecl]
  congr 1
  split <;> rfl

theorem instNames_top (S : FlatSrc) : instNames S.topModule = S.regSrcs.map (·.iname) := by
  unfold instNames topModule regSrcs
  simp only [List.flatMap_append]
  have h1 : (S.locals.map fun k => Item.wire (S.nm k) (S.wd k)).flatMap itemInst = [] := by
    rw [List.flatMap_eq_nil_iff]; intro it hit; rcases List.mem_map.1 hit with ⟨c, _, rfl⟩; rfl
  rw [h1, List.nil_append]
  induction S.children with
  | nil => rfl
  | cons c cs ih =>
    cases c with
    | prim k =>
      simp only [List.map_cons, List.flatMap_cons, childItem, itemInst, List.nil_append, List.filterMap_cons, Child.reg?]
      exact ih
    | reg r =>
      simp only [List.map_cons, List.flatMap_cons, childItem, itemInst, List.filterMap_cons, Child.reg?, List.singleton_append]
      rw [ih]

theorem names_top_nodup (S : FlatSrc) (F : Facts S) : (WF.names S.topModule).Nodup := by
  unfold WF.names
  rw [declNames_top, instNames_top, List.nodup_append, List.nodup_append]
  refine ⟨⟨?_, F.nets_names, ?_⟩, F.inames_nodup, ?_⟩
  · split <;> simp
  · intro a ha b hb e
    split at ha
    · cases ha
    · simp only [List.mem_singleton] at ha
      subst ha; subst e
      exact F.clk_fresh hb
  · intro a ha b hb e
    subst e
    rcases List.mem_map.1 hb with ⟨r, hr, rfl⟩
    rcases List.mem_append.1 ha with h | h
    · split at h
      · cases h
      · simp only [List.mem_singleton] at h
        exact (F.iname_fresh r hr).1 h
    · exact (F.iname_fresh r hr).2 h

theorem top_once (S : FlatSrc) (F : Facts S) : onceErrs S.topModule = [] := by
  rw [C03.onceErrs_nil]
  intro n hn
  exact count_eq_one_of_nodup (names_top_nodup S F) hn

/-! ### identifiers of the inline forms -/

theorem catChain_ids (l : List String) : ∀ n ∈ exprIds (catChain l), n ∈ l := by
  induction l with
  | nil => intro n hn; simp [catChain, lit, exprIds] at hn
  | cons a rest ih =>
    cases rest with
    | nil => intro n hn; simpa [catChain, exprIds] using hn
    | cons b rest' =>
      intro n hn
      simp only [catChain, exprIds, List.singleton_append, List.mem_cons] at hn
      rcases hn with h | h
      · simp [h]
      · exact List.mem_cons_of_mem _ (ih n (by simpa [List.mem_cons] using h))

theorem rhs_ids (wd : Nat → Nat) (nm : Nat → String) (k : FlatM.Kind) :
    ∀ n ∈ exprIds (k.rhs wd nm), ∃ w ∈ (k.leaf wd).ins, n = nm w := by
  intro n hn
  cases k with
  | catm ins r =>
    have := catChain_ids _ n hn
    rcases List.mem_map.1 this with ⟨w, hw, rfl⟩
    exact ⟨w, hw, rfl⟩
  | catl ins r =>
    have := catChain_ids _ n hn
    rcases List.mem_map.1 this with ⟨w, hw, rfl⟩
    exact ⟨w, hw, rfl⟩
  | rept i r =>
    have := catChain_ids _ n hn
    have := List.eq_of_mem_replicate this
    exact ⟨i, by simp [Kind.leaf], this⟩
  | sext a r =>
    simp only [Kind.rhs] at hn
    split at hn
    · simp only [exprIds, List.mem_singleton] at hn; exact ⟨a, by simp [Kind.leaf], hn⟩
    · simp only [sextExpr, exprIds, lit, List.append_nil, List.mem_append, List.mem_cons, List.not_mem_nil, or_false, List.mem_singleton,
        or_self] at hn
      exact ⟨a, by simp [Kind.leaf], hn⟩
  | _ =>
    simp only [Kind.rhs, exprIds, lit, List.mem_append, List.mem_cons, List.mem_singleton, List.not_mem_nil, or_false, List.append_nil] at hn <;>
    simp only [Kind.leaf, List.mem_cons, List.not_mem_nil, or_false, exists_eq_or_imp, exists_eq_left] <;>
    first
      | exact hn
      | (rcases hn with h | h | h <;> simp [h])
      | (rcases hn with (h | h) | h <;> simp [h])
      | (rcases hn with h | h <;> simp [h])

theorem lhs_name (wd : Nat → Nat) (nm : Nat → String) (k : FlatM.Kind) : (k.lhs wd nm).name = nm k.out := by
  cases k with
  | const v r => simp only [Kind.lhs, Kind.out]; by_cases h : wd r > 1 <;> simp [h, LHS.name]
  | _ => rfl

theorem lhs_ids (wd : Nat → Nat) (nm : Nat → String) (k : FlatM.Kind) : lhsIds (k.lhs wd nm) = [nm k.out] := by
  cases k with
  | const v r => simp only [Kind.lhs, Kind.out]; by_cases h : wd r > 1 <;> simp [h, lhsIds]
  | _ => rfl

/-! ### identifiers used by the top module -/

theorem mem_kinds (S : FlatSrc) (k : FlatM.Kind) (h : Child.prim k ∈ S.children) : k ∈ S.design.kinds := by
  simp only [design, List.mem_filterMap]
  exact ⟨_, h, rfl⟩

theorem mem_regSrcs (S : FlatSrc) (r : RegSrc) (h : Child.reg r ∈ S.children) : r ∈ S.regSrcs := by
  simp only [regSrcs, List.mem_filterMap]
  exact ⟨_, h, rfl⟩

theorem regConns_ids (S : FlatSrc) (r : RegSrc) (n : String) (hn : n ∈ (S.regConns r).flatMap (fun c => exprIds c.2)) :
    n = S.clk ∨ n = S.nm r.leaf.d ∨ (r.leaf.hasE = true ∧ n = S.nm r.leaf.e) ∨ (r.leaf.hasR = true ∧ n = S.nm r.leaf.r) ∨
    n = S.nm r.leaf.q := by
  unfold regConns at hn
  cases hE : r.leaf.hasE <;> cases hR : r.leaf.hasR <;>
    simp [hE, hR, exprIds, List.flatMap_cons] at hn <;> simp [hn] <;> (rcases hn with h | h | h | h | h <;> simp [h])

theorem uses_top (S : FlatSrc) (F : Facts S) (n : String) (hn : n ∈ uses S.topModule) :
    (n = S.clk ∧ S.regSrcs ≠ []) ∨ n ∈ (nets S).map S.nm := by
  simp only [uses, topModule, List.mem_flatMap, List.mem_append, List.mem_map] at hn
  obtain ⟨it, hit, hn⟩ := hn
  rcases hit with ⟨k, _, rfl⟩ | ⟨c, hc, rfl⟩
  · simp [itemIds] at hn
  · cases c with
    | prim k =>
      have hk := F.kinds_nets k (mem_kinds S k hc)
      simp only [childItem, itemIds, lhs_ids, List.singleton_append, List.mem_cons] at hn
      right
      rcases hn with h | h
      · exact List.mem_map.2 ⟨_, hk.1, h.symm⟩
      · obtain ⟨w, hw, e⟩ := rhs_ids _ _ k n h
        exact List.mem_map.2 ⟨w, hk.2 w hw, e.symm⟩
    | reg r =>
      have hr := mem_regSrcs S r hc
      have hn' := F.regs_nets r hr
      simp only [childItem, itemIds, List.flatMap_nil, List.nil_append] at hn
      rcases regConns_ids S r n hn with h | h | ⟨he, h⟩ | ⟨hr', h⟩ | h
      · left; exact ⟨h, fun e => by rw [e] at hr; cases hr⟩
      · right; exact List.mem_map.2 ⟨_, hn'.1, h.symm⟩
      · right; exact List.mem_map.2 ⟨_, hn'.2.2.1 he, h.symm⟩
      · right; exact List.mem_map.2 ⟨_, hn'.2.2.2 hr', h.symm⟩
      · right; exact List.mem_map.2 ⟨_, hn'.2.1, h.symm⟩

theorem top_kw (S : FlatSrc) (F : Facts S) : kwErrs S.topModule = [] := by
  rw [C03.kwErrs_nil]
  intro n hn
  have key : (n = S.clk ∧ S.regSrcs ≠ []) ∨ n ∈ (nets S).map S.nm ∨ n ∈ S.regSrcs.map (·.iname) := by
    rcases hn with hn | hn
    · unfold WF.names at hn
      rw [declNames_top, instNames_top] at hn
      rcases List.mem_append.1 hn with h | h
      · rcases List.mem_append.1 h with h | h
        · split at h
          · cases h
          · rename_i hne
            simp only [List.mem_singleton] at h
            exact .inl ⟨h, fun e => hne (by simp [e])⟩
        · exact .inr (.inl h)
      · exact .inr (.inr h)
    · rcases uses_top S F n ((mem_uses _ _).2 hn) with h | h
      · exact .inl h
      · exact .inr (.inl h)
  rcases key with ⟨rfl, hne⟩ | h | h
  · exact F.clk_kw hne
  · rcases List.mem_map.1 h with ⟨k, hk, rfl⟩; exact F.net_kw k hk
  · rcases List.mem_map.1 h with ⟨r, hr, rfl⟩; exact (F.mod_kw r hr).2

theorem top_decl (S : FlatSrc) (F : Facts S) : declErrs S.topModule = [] := by
  simp only [declErrs, flatMap_nil, need_decide_nil]
  intro n hn
  rw [declNames_top]
  rcases uses_top S F n hn with ⟨rfl, hne⟩ | h
  · have : S.regSrcs.isEmpty = false := by cases hS : S.regSrcs <;> simp_all
    simp [this]
  · exact List.mem_append_right _ h

/-! ### binding of the register instances, widths seen from the top module -/

theorem find?_map_first {α β : Type} (f : α → β) (p : β → Bool) (l : List α) (x : α) (hx : x ∈ l) (hp : p (f x) = true) :
    ∃ x' ∈ l, (l.map f).find? p = some (f x') ∧ p (f x') = true := by
  induction l with
  | nil => cases hx
  | cons a l ih =>
    rw [List.map_cons, List.find?_cons]
    cases hpa : p (f a) with
    | true => exact ⟨a, by simp, rfl, hpa⟩
    | false =>
      rcases List.mem_cons.1 hx with e | hm
      · subst e; rw [hp] at hpa; cases hpa
      · obtain ⟨x', hx', h1, h2⟩ := ih hm
        exact ⟨x', List.mem_cons_of_mem _ hx', h1, h2⟩

theorem lookup_reg (S : FlatSrc) (F : Facts S) (r : RegSrc) (hr : r ∈ S.regSrcs) :
    lookup S.emit r.mname = some (S.regModule r) := by
  have hne : (S.topModule.name == r.mname) = false := by
    have := F.top_name r hr
    simp only [topModule, beq_eq_false_iff_ne, ne_eq]
    exact fun e => this e.symm
  unfold emit lookup
  rw [List.find?_cons, hne]
  have := dedup_find (S.regSrcs.map S.regModule) r.mname
  unfold lookup at this
  rw [this]
  obtain ⟨r', hr', h1, h2⟩ := find?_map_first S.regModule (fun m => m.name == r.mname) S.regSrcs r hr (by simp [regModule])
  rw [h1]
  have e : r'.mname = r.mname := by simpa [regModule] using h2
  rw [F.consistent r' hr' r hr e]

theorem declNames_nodup (S : FlatSrc) (F : Facts S) : ((decls S.topModule).map (·.name)).Nodup := by
  have := names_top_nodup S F
  unfold WF.names at this
  exact (List.nodup_append.1 this).1

theorem width_of_decl (S : FlatSrc) (F : Facts S) (d : Decl) (hd : d ∈ decls S.topModule) :
    widthOf (rdOf S.topModule) d.name = d.width := by
  unfold widthOf rdOf
  simp only
  rw [find?_of_nodup (fun x : Decl => x.name) (declNames_nodup S F) hd]
  rfl

theorem netDecl_mem (S : FlatSrc) (k : Nat) (hk : k ∈ nets S) : ∃ kd, netDecl S kd k ∈ decls S.topModule := by
  rw [decls_top]
  simp only [nets, List.mem_append] at hk
  rcases hk with h | h | h
  · exact ⟨.inp, by simp [List.mem_append, List.mem_map]; exact .inr (.inl ⟨k, h, rfl⟩)⟩
  · exact ⟨.outNet, by simp [List.mem_append, List.mem_map]; exact .inr (.inr (.inl ⟨k, h, rfl⟩))⟩
  · exact ⟨.wire, by simp [List.mem_append, List.mem_map]; exact .inr (.inr (.inr ⟨k, h, rfl⟩))⟩

theorem width_net (S : FlatSrc) (F : Facts S) (k : Nat) (hk : k ∈ nets S) :
    widthOf (rdOf S.topModule) (S.nm k) = S.wd k := by
  obtain ⟨kd, h⟩ := netDecl_mem S k hk
  exact width_of_decl S F _ h

theorem width_clk (S : FlatSrc) (F : Facts S) (hne : S.regSrcs ≠ []) : widthOf (rdOf S.topModule) S.clk = 1 := by
  have : ({ name := S.clk, kind := .inp, width := 1 } : Decl) ∈ decls S.topModule := by
    rw [decls_top]
    have : S.regSrcs.isEmpty = false := by cases hS : S.regSrcs <;> simp_all
    simp [clkDecl, this]
  exact width_of_decl S F _ this

/-! ### R-inst for the register instances -/

theorem port_clk (S : FlatSrc) (r : RegSrc) : (sigOf (S.regModule r)).port "clk" = some ⟨.inp, 1, "clk"⟩ := rfl
theorem port_d (S : FlatSrc) (r : RegSrc) : (sigOf (S.regModule r)).port "d" = some ⟨.inp, S.wd r.leaf.d, "d"⟩ := rfl
theorem port_e (S : FlatSrc) (r : RegSrc) (h : r.leaf.hasE = true) : (sigOf (S.regModule r)).port "e" = some ⟨.inp, S.wd r.leaf.e, "e"⟩ := by
  rcases r with ⟨i, m, ⟨hR, hE, rv, d, e, rr, q⟩⟩
  simp only at h; subst h
  rfl
theorem port_r (S : FlatSrc) (r : RegSrc) (h : r.leaf.hasR = true) : (sigOf (S.regModule r)).port "r" = some ⟨.inp, S.wd r.leaf.r, "r"⟩ := by
  rcases r with ⟨i, m, ⟨hR, hE, rv, d, e, rr, q⟩⟩
  simp only at h; subst h
  cases hE <;> rfl
theorem port_q (S : FlatSrc) (r : RegSrc) : (sigOf (S.regModule r)).port "q" = some ⟨.out, S.wd r.leaf.q, "q"⟩ := by
  rcases r with ⟨i, m, ⟨hR, hE, rv, d, e, rr, q⟩⟩
  cases hE <;> cases hR <;> rfl

theorem conn_once (S : FlatSrc) (r : RegSrc) : ∀ pn ∈ (S.regConns r).map (·.1), ((S.regConns r).map (·.1)).count pn = 1 := by
  rcases r with ⟨i, m, ⟨hR, hE, rv, d, e, rr, q⟩⟩
  cases hE <;> cases hR
  · show ∀ pn ∈ ["clk", "d", "q"], List.count pn ["clk", "d", "q"] = 1; decide
  · show ∀ pn ∈ ["clk", "d", "r", "q"], List.count pn ["clk", "d", "r", "q"] = 1; decide
  · show ∀ pn ∈ ["clk", "d", "e", "q"], List.count pn ["clk", "d", "e", "q"] = 1; decide
  · show ∀ pn ∈ ["clk", "d", "e", "r", "q"], List.count pn ["clk", "d", "e", "r", "q"] = 1; decide

theorem inputs_conn (S : FlatSrc) (r : RegSrc) : ∀ pt ∈ (sigOf (S.regModule r)).ports, pt.dir = .inp → pt.name ∈ (S.regConns r).map (·.1) := by
  rcases r with ⟨i, m, ⟨hR, hE, rv, d, e, rr, q⟩⟩
  cases hE <;> cases hR <;>
  · intro pt hpt _
    simp [sigOf, regModule, psigOf, mkPort] at hpt
    simp [regConns]
    rcases hpt with rfl | rfl | rfl | rfl | rfl <;> simp

theorem regConns_mem (S : FlatSrc) (r : RegSrc) (c : String × Expr) (hc : c ∈ S.regConns r) :
    c = ("clk", .id S.clk) ∨ c = ("d", .id (S.nm r.leaf.d)) ∨ (r.leaf.hasE = true ∧ c = ("e", .id (S.nm r.leaf.e))) ∨
    (r.leaf.hasR = true ∧ c = ("r", .id (S.nm r.leaf.r))) ∨ c = ("q", .id (S.nm r.leaf.q)) := by
  unfold regConns at hc
  cases hE : r.leaf.hasE <;> cases hR : r.leaf.hasR <;> simp [hE, hR] at hc <;> simp [hc] <;>
    (rcases hc with h | h | h | h | h <;> simp [h])

theorem inst_reg (S : FlatSrc) (F : Facts S) (r : RegSrc) (hr : r ∈ S.regSrcs) :
    InstSigWF (rdOf S.topModule) (sigOf (S.regModule r)) [] (S.regConns r) := by
  have hnets := F.regs_nets r hr
  have hne : S.regSrcs ≠ [] := fun e => by rw [e] at hr; cases hr
  refine ⟨?_, conn_once S r, inputs_conn S r, by simp, by simp⟩
  intro c hc
  rcases regConns_mem S r c hc with rfl | rfl | ⟨he, rfl⟩ | ⟨hR, rfl⟩ | rfl
  · exact ⟨_, port_clk S r, by simp [selfW, width_clk S F hne], fun h => absurd rfl h⟩
  · exact ⟨_, port_d S r, by simp [selfW, width_net S F _ hnets.1], fun h => absurd rfl h⟩
  · exact ⟨_, port_e S r he, by simp [selfW, width_net S F _ (hnets.2.2.1 he)], fun h => absurd rfl h⟩
  · exact ⟨_, port_r S r hR, by simp [selfW, width_net S F _ (hnets.2.2.2 hR)], fun h => absurd rfl h⟩
  · exact ⟨_, port_q S r, by simp [selfW, width_net S F _ hnets.2.1], fun _ => ⟨.lid _, rfl⟩⟩

theorem top_insts (S : FlatSrc) (F : Facts S) : S.topModule.items.flatMap (instErrs S.emit S.topModule) = [] := by
  rw [flatMap_nil]
  intro it hit
  rw [C03.instErrs_nil]
  simp only [topModule, List.mem_append, List.mem_map] at hit
  rcases hit with ⟨k, _, rfl⟩ | ⟨c, hc, rfl⟩
  · trivial
  · cases c with
    | prim k => trivial
    | reg r =>
      have hr := mem_regSrcs S r hc
      exact ⟨_, lookup_reg S F r hr, inst_reg S F r hr⟩

/-! ### R-drv for the top module -/

theorem reg_conn_drivers (S : FlatSrc) (r : RegSrc) :
    (S.regConns r).flatMap (connDrivers (sigOf (S.regModule r))) = [(S.nm r.leaf.q, DK.inst)] := by
  rcases r with ⟨i, m, ⟨hR, hE, rv, d, e, rr, q⟩⟩
  cases hE <;> cases hR <;> rfl

def drvEntry (S : FlatSrc) (c : Child) : String × DK := (S.nm (childOut c), childDK c)

theorem flatMap_singleton_of {α β : Type} (f : α → List β) (g : α → β) (l : List α) (h : ∀ x ∈ l, f x = [g x]) :
    l.flatMap f = l.map g := by
  induction l with
  | nil => rfl
  | cons a l ih =>
    rw [List.flatMap_cons, h a (by simp), ih (fun x hx => h x (List.mem_cons_of_mem _ hx))]
    rfl

theorem drivers_top (S : FlatSrc) (F : Facts S) : drivers S.emit S.topModule = S.children.map (drvEntry S) := by
  unfold drivers topModule
  simp only [List.flatMap_append]
  have h1 : (S.locals.map fun k => Item.wire (S.nm k) (S.wd k)).flatMap (itemDrivers S.emit) = [] := by
    rw [List.flatMap_eq_nil_iff]; intro it hit; rcases List.mem_map.1 hit with ⟨c, _, rfl⟩; rfl
  rw [h1, List.nil_append, List.flatMap_map]
  apply flatMap_singleton_of
  intro c hc
  cases c with
  | prim k => simp only [childItem, itemDrivers, lhs_name, drvEntry, childOut, childDK]
  | reg r =>
    have hr := mem_regSrcs S r hc
    simp only [childItem, itemDrivers, lookup_reg S F r hr, reg_conn_drivers, drvEntry, childOut, childDK]

theorem childOut_mem (S : FlatSrc) (F : Facts S) (c : Child) (hc : c ∈ S.children) : childOut c ∈ nets S := by
  cases c with
  | prim k => exact (F.kinds_nets k (mem_kinds S k hc)).1
  | reg r => exact (F.regs_nets r (mem_regSrcs S r hc)).2.1

theorem inj_of_nodup_map {α : Type} (f : α → String) {l : List α} (h : (l.map f).Nodup) {a b : α} (ha : a ∈ l) (hb : b ∈ l)
    (e : f a = f b) : a = b := by
  induction l with
  | nil => cases ha
  | cons x xs ih =>
    simp only [List.map_cons, List.nodup_cons] at h
    rcases List.mem_cons.1 ha with rfl | ha' <;> rcases List.mem_cons.1 hb with rfl | hb'
    · rfl
    · exact absurd (e ▸ List.mem_map.2 ⟨b, hb', rfl⟩) h.1
    · exact absurd (e ▸ List.mem_map.2 ⟨a, ha', rfl⟩ : f b ∈ xs.map f) h.1
    · exact ih h.2 ha' hb'

theorem drv_no_proc (S : FlatSrc) (cs : List Child) (n : String) : ∀ k ∈ drvOf (cs.map (drvEntry S)) n, k ≠ DK.proc := by
  intro k hk
  simp only [drvOf, List.mem_map, List.mem_filter] at hk
  obtain ⟨p, ⟨⟨c, _, rfl⟩, _⟩, rfl⟩ := hk
  cases c <;> simp [drvEntry, childDK]

/-- number of drivers of net `k` = how often `k` is the output of a child -/
theorem drv_len (S : FlatSrc) (F : Facts S) (cs : List Child) (hcs : ∀ c ∈ cs, childOut c ∈ nets S) (k : Nat) (hk : k ∈ nets S) :
    (drvOf (cs.map (drvEntry S)) (S.nm k)).length = (cs.map childOut).count k := by
  induction cs with
  | nil => rfl
  | cons c cs ih =>
    have ih' := ih (fun c hc => hcs c (List.mem_cons_of_mem _ hc))
    simp only [drvOf, List.map_cons, List.filter_cons, List.length_map] at ih' ⊢
    rw [List.count_cons]
    by_cases e : childOut c = k
    · simp [drvEntry, e, ih']
    · have : S.nm (childOut c) ≠ S.nm k := fun h => e (inj_of_nodup_map S.nm F.nets_names (hcs c (by simp)) hk h)
      simp [drvEntry, e, this, ih']

theorem count_childOut (S : FlatSrc) (k : Nat) : (S.children.map childOut).count k = S.drivenNets.count k := by
  unfold drivenNets design regSrcs
  simp only [List.count_append, List.map_map]
  induction S.children with
  | nil => rfl
  | cons c cs ih =>
    cases c with
    | prim kd =>
      simp only [List.map_cons, List.count_cons, List.filterMap_cons, Child.prim?, Child.reg?, childOut, ih]
      omega
    | reg r =>
      simp only [List.map_cons, List.count_cons, List.filterMap_cons, Child.prim?, Child.reg?, childOut, ih, Function.comp,
        FlatSrc.RegSrc.regI]
      omega

theorem drv_clk (S : FlatSrc) (F : Facts S) : drvOf (S.children.map (drvEntry S)) S.clk = [] := by
  simp only [drvOf, List.map_eq_nil_iff, List.filter_eq_nil_iff, List.mem_map]
  rintro p ⟨c, hc, rfl⟩
  simp only [drvEntry, beq_iff_eq]
  intro e
  exact F.clk_fresh (e ▸ List.mem_map.2 ⟨_, childOut_mem S F c hc, rfl⟩)

theorem top_drivers (S : FlatSrc) (F : Facts S) :
    (decls S.topModule).flatMap (driverErrs S.topModule.name (drivers S.emit S.topModule)) = [] := by
  rw [flatMap_nil, drivers_top S F]
  intro d hd
  rw [C03.driverErrs_nil]
  have hlen : ∀ k ∈ nets S, (drvOf (S.children.map (drvEntry S)) (S.nm k)).length = S.drivenNets.count k := by
    intro k hk
    rw [drv_len S F S.children (childOut_mem S F) k hk, count_childOut]
  have hone : ∀ k ∈ S.outputs ++ S.locals, (drvOf (S.children.map (drvEntry S)) (S.nm k)).length = 1 := by
    intro k hk
    have hk' : k ∈ nets S := by simp only [nets, List.mem_append] at hk ⊢; exact .inr hk
    rw [hlen k hk']
    exact count_eq_one_of_nodup' F.single (F.all_driven k hk)
  rw [decls_top] at hd
  simp only [List.mem_append, List.mem_map] at hd
  rcases hd with h | ⟨k, hk, rfl⟩ | ⟨k, hk, rfl⟩ | ⟨k, hk, rfl⟩
  · unfold clkDecl at h
    split at h
    · cases h
    · simp only [List.mem_singleton] at h
      subst h
      exact drv_clk S F
  · show drvOf _ (S.nm k) = []
    have hk' : k ∈ nets S := by simp [nets, hk]
    have := hlen k hk'
    rw [List.count_eq_zero.2 (F.inputs_undriven k hk)] at this
    exact List.eq_nil_of_length_eq_zero this
  · exact ⟨hone k (by simp [hk]), drv_no_proc S _ _⟩
  · exact ⟨hone k (by simp [hk]), drv_no_proc S _ _⟩

/-! ### module names, assembling -/

theorem emit_mem (S : FlatSrc) (m : Module) (hm : m ∈ S.emit) : m = S.topModule ∨ ∃ r ∈ S.regSrcs, m = S.regModule r := by
  unfold emit at hm
  rcases List.mem_cons.1 hm with h | h
  · exact .inl h
  · rcases List.mem_map.1 (dedup_mem _ _ h) with ⟨r, hr, rfl⟩
    exact .inr ⟨r, hr, rfl⟩

theorem emit_names_nodup (S : FlatSrc) (F : Facts S) : (S.emit.map (·.name)).Nodup := by
  unfold emit
  rw [List.map_cons, List.nodup_cons]
  refine ⟨?_, dedup_names_nodup _⟩
  intro h
  rcases List.mem_map.1 h with ⟨m, hm, e⟩
  rcases List.mem_map.1 (dedup_mem _ _ hm) with ⟨r, hr, rfl⟩
  exact F.top_name r hr e

theorem emit_header (S : FlatSrc) (F : Facts S) (m : Module) (hm : m ∈ S.emit) : headerErrs S.emit m = [] := by
  unfold headerErrs
  rw [List.append_eq_nil_iff, C03.modErrs_nil]
  refine ⟨⟨count_eq_one_of_nodup (emit_names_nodup S F) (List.mem_map.2 ⟨m, hm, rfl⟩), ?_⟩, ?_⟩
  · rcases emit_mem S m hm with rfl | ⟨r, hr, rfl⟩
    · exact F.top_kw
    · exact (F.mod_kw r hr).1
  · rcases emit_mem S m hm with rfl | ⟨r, hr, rfl⟩
    · exact top_once S F
    · exact regModule_once S r

theorem emit_body (S : FlatSrc) (F : Facts S) (m : Module) (hm : m ∈ S.emit) : bodyErrs S.emit m = [] := by
  rcases emit_mem S m hm with rfl | ⟨r, hr, rfl⟩
  · unfold bodyErrs
    rw [top_kw S F, top_decl S F, top_insts S F, top_drivers S F]
    rfl
  · exact regModule_body _ S r

theorem emit_pdef (S : FlatSrc) (env : Env) (m : Module) (hm : m ∈ S.emit) : pdefErrs env m = [] := by
  rcases emit_mem S m hm with rfl | ⟨r, hr, rfl⟩
  · rfl
  · rfl

end C03Emit
