import Py4hwV.Proofs.C17Bridge
/-
  C17 — the deserializer's hand-off FSM (serdes.py:122-130) in isolation: for ALL ready timings that keep up, every byte
  latched at a frame end is presented exactly once, in order, unchanged.  Independent of the divider ratio.
-/
set_option linter.unusedSimpArgs false
namespace C17
open Uart

/-- hand-off part of the deserializer state: state_v and the wires valid, v -/
structure HS where
  stv : Nat
  valid : Nat
  v : Nat
deriving Repr, DecidableEq

def DesN.hs (s : DesN) : HS := ⟨s.stv, s.valid, s.v⟩

/-- one clock of the hand-off FSM; `fe = some b`: the receive FSM completed a frame with byte b in this same call -/
def hsStep (h : HS) (fe : Option Nat) (ready : Nat) : HS :=
  let h1 : HS := match fe with
    | some b => { h with stv := 1, v := b }
    | none => h
  if h1.stv = 1 then (if ready ≠ 0 then { h1 with valid := 1, stv := 2 } else h1)
  else if h1.stv = 2 then (if ready ≠ 0 then { h1 with valid := 0, stv := 0 } else h1)
  else h1

/-- frame-end event of the receive FSM: 10th sample (count = 8) in state 2 -/
def feOf (s : DesN) (sample : Nat) : Option Nat :=
  if s.st = 2 ∧ sample ≠ 0 ∧ s.cnt = 8 then some (s.temp % 256) else none

theorem des_handoff (s : DesN) (rx sample ready : Nat) :
    (desSpec s rx sample ready).hs = hsStep s.hs (feOf s sample) ready := by
  obtain ⟨st, cnt, stv, temp, desync, v, valid⟩ := s
  have hst : st = 0 ∨ st = 2 ∨ (st ≠ 0 ∧ st ≠ 2) := by omega
  have hsv : stv = 1 ∨ stv = 2 ∨ (stv ≠ 1 ∧ stv ≠ 2) := by omega
  have hrd : ready = 0 ∨ ready ≠ 0 := by omega
  have hsm : sample = 0 ∨ sample ≠ 0 := by omega
  have hc : cnt = 8 ∨ cnt ≠ 8 := by omega
  rcases hst with h | h | ⟨h, h'⟩ <;> rcases hsv with g | g | ⟨g, g'⟩ <;> rcases hrd with r | r <;>
    rcases hsm with m | m <;> rcases hc with c | c <;>
    (try subst h) <;> (try subst g) <;> (try subst r) <;> (try subst m) <;> (try subst c) <;>
    simp [desSpec, desSpec1, desSpec2, DesN.hs, hsStep, feOf, *]

/-- bytes handed over: cycles with valid (wire) = 1 and ready (input) ≠ 0 -/
def hsDelivered : HS → List (Option Nat × Nat) → List Nat
  | _, [] => []
  | h, (fe, r) :: es => optCons (if h.valid = 1 ∧ r ≠ 0 then some h.v else none) (hsDelivered (hsStep h fe r) es)

/-- credit / hand-off state / pending byte -/
def HRel (c : Nat) (h : HS) (p : List Nat) : Prop :=
  (c = 2 ∧ h.stv = 0 ∧ h.valid = 0 ∧ p = []) ∨
  (c = 0 ∧ h.stv = 1 ∧ h.valid = 0 ∧ p = [h.v]) ∨
  (c = 1 ∧ h.stv = 2 ∧ h.valid = 1 ∧ p = [h.v])

theorem handoff_inv (es : List (Option Nat × Nat)) :
    ∀ c h p, HRel c h p → keepsUp c es = true → hsDelivered h es = p ++ es.filterMap (·.1) := by
  induction es with
  | nil =>
    intro c h p hr hk
    simp [keepsUp] at hk
    rcases hr with ⟨hc, _, _, hp⟩ | ⟨hc, _⟩ | ⟨hc, _⟩
    · simp [hsDelivered, hp]
    · omega
    · omega
  | cons ev es ih =>
    intro c h p hr hk
    obtain ⟨fe, r⟩ := ev
    obtain ⟨stv, valid, v⟩ := h
    cases fe with
    | some b =>
      simp only [keepsUp, Bool.and_eq_true, Bool.or_eq_true, beq_iff_eq, bne_iff_ne, ne_eq] at hk
      obtain ⟨hc2, hk'⟩ := hk
      rcases hr with ⟨hc, h1, h2, hp⟩ | ⟨hc, _⟩ | ⟨hc, h1, h2, hp⟩
      · simp only at h1 h2; subst h1; subst h2; subst hp
        by_cases hr0 : r = 0
        · subst hr0
          have := ih 0 (hsStep ⟨0, 0, v⟩ (some b) 0) [b] (by right; left; simp [hsStep]) (by simpa using hk')
          simp [hsDelivered, optCons, this]
        · have := ih 1 (hsStep ⟨0, 0, v⟩ (some b) r) [b] (by right; right; simp [hsStep, hr0]) (by simpa [hr0] using hk')
          simp [hsDelivered, optCons, this]
      · omega
      · -- the previous byte is taken in exactly the cycle in which the next frame completes
        simp only at h1 h2 hp; subst h1; subst h2; subst hp
        have hr0 : ¬ (r = 0) := by
          rcases hc2 with h | ⟨_, h⟩
          · omega
          · exact h
        have := ih 1 (hsStep ⟨2, 1, v⟩ (some b) r) [b] (by right; right; simp [hsStep, hr0]) (by simpa [hr0] using hk')
        simp [hsDelivered, optCons, hr0, this]
    | none =>
      simp only [keepsUp] at hk
      rcases hr with ⟨hc, h1, h2, hp⟩ | ⟨hc, h1, h2, hp⟩ | ⟨hc, h1, h2, hp⟩
      · simp only at h1 h2; subst h1; subst h2; subst hp; subst hc
        have hk' : keepsUp 2 es = true := by
          by_cases hr0 : r = 0 <;> simpa [hr0] using hk
        have := ih 2 (hsStep ⟨0, 0, v⟩ none r) [] (by left; simp [hsStep]) hk'
        simp [hsDelivered, optCons, this]
      · simp only at h1 h2 hp; subst h1; subst h2; subst hp; subst hc
        by_cases hr0 : r = 0
        · subst hr0
          have := ih 0 (hsStep ⟨1, 0, v⟩ none 0) [v] (by right; left; simp [hsStep]) (by simpa using hk)
          simp [hsDelivered, optCons, this]
        · have := ih 1 (hsStep ⟨1, 0, v⟩ none r) [v] (by right; right; simp [hsStep, hr0]) (by simpa [hr0] using hk)
          simp [hsDelivered, optCons, this]
      · simp only at h1 h2 hp; subst h1; subst h2; subst hp; subst hc
        by_cases hr0 : r = 0
        · subst hr0
          have := ih 1 (hsStep ⟨2, 1, v⟩ none 0) [v] (by right; right; simp [hsStep]) (by simpa using hk)
          simp [hsDelivered, optCons, this]
        · have := ih 2 (hsStep ⟨2, 1, v⟩ none r) [] (by left; simp [hsStep, hr0]) (by simpa [hr0] using hk)
          simp [hsDelivered, optCons, hr0, this]

theorem feOfDes_eq (d : DesN) (sample : Nat) : feOfDes d.toDes sample = feOf d sample := by
  obtain ⟨st, cnt, stv, temp, desync, v, valid⟩ := d
  have i2 : ((st:Int) = 2) = (st = 2) := by simp; omega
  have i8 : ((cnt:Int) = 8) = (cnt = 8) := by simp; omega
  have hm : ((temp:Int) % 256).toNat = temp % 256 := by omega
  simp only [feOfDes, feOf, DesN.toDes, i2, i8, hm]


end C17
