import Py4hwV.Proofs.C01FlatMain
/-
  C01 design level, stage 2: the clock edge.  Verilog side: every flattened `Reg` body queues exactly the register rule on
  the pre-edge values, the queue is applied together.  Simulator side: `clockDrivers` + `settleAll` on a flat netlist.
-/
set_option linter.unusedSimpArgs false
namespace FlatM
open V C01 Net

theorem pfx_regBody (p : String) (hasR hasE : Bool) (rv : Nat) :
    pfxS p (C01.regBody hasR hasE rv) = regBodyP p hasR hasE rv := by
  cases hasR <;> cases hasE <;> rfl

/-- what one flattened register body queues at an edge -/
def regNba (p : String) (hasR hasE : Bool) (rv w vr ve vd : Nat) : List (Tgt × BV) :=
  if hasR && vr == 1 then [(Tgt.whole (p ++ "rq"), (⟨w, rv % 2 ^ w, true⟩ : BV))]
  else if hasE && ve == 0 then [] else [(Tgt.whole (p ++ "rq"), (⟨w, vd % 2 ^ w, true⟩ : BV))]

/-- `C01.reg_body_step` for the body under an instance prefix, absent optional ports not required, d and q of any widths -/
theorem reg_body_exec {r : Rd} (p : String) (hasR hasE : Bool) (rv w wr we wdd vr ve vd : Nat)
    (hr : hasR = true → Known r (p ++ "r") wr vr) (he : hasE = true → Known r (p ++ "e") we ve)
    (hd : Known r (p ++ "d") wdd vd) (hq : r.info (p ++ "rq") = some { width := w }) (hrv : rv < 2 ^ 31)
    (q0 : List (Tgt × BV)) :
    exec (σ := Rd) id wrA none (regBodyP p hasR hasE rv) { st := r, nba := q0 } =
      { st := r, nba := q0 ++ regNba p hasR hasE rv w vr ve vd } := by
  have hcR : selfW r (.bin "eq" (.id (p ++ "r")) (FlatM.lit 1)) = 1 := by simp [selfW, isRel]
  have hsR : isSg r (.bin "eq" (.id (p ++ "r")) (FlatM.lit 1)) = false := by simp [isSg, isRel]
  have hcE : selfW r (.bin "ne" (.id (p ++ "e")) (FlatM.lit 0)) = 1 := by simp [selfW, isRel]
  have hsE : isSg r (.bin "ne" (.id (p ++ "e")) (FlatM.lit 0)) = false := by simp [isSg, isRel]
  have wq : widthOf r (p ++ "rq") = w := by simp [widthOf, hq]
  have hres : resolve r (.lid (p ++ "rq")) = Tgt.whole (p ++ "rq") := rfl
  have hlw : lhsWidth r (.lid (p ++ "rq")) = w := by simp [lhsWidth, wq]
  have hcoreV : evalAssign r w (.id (p ++ "d")) = ⟨w, vd % 2 ^ w, true⟩ := by
    have := inline_buf w hd
    simpa [Leaf.buf] using this
  have hrstV : evalAssign r w (FlatM.lit rv) = ⟨w, rv % 2 ^ w, true⟩ := by
    have := inline_const r w rv hrv
    rw [← lit_eq] at this
    simpa [Leaf.const, Bits.put_ofNat] using this
  have bE : (ve != 0) = !(ve == 0) := by cases h : ve == 0 <;> simp_all
  cases hasR <;> cases hasE <;>
    simp only [regBodyP, regNba, Bool.false_and, Bool.true_and, Bool.false_eq_true, if_false, if_true]
  · simp [exec, hres, hlw, hcoreV]
  · have hE := cond_ne_zero (he rfl)
    rw [← lit_eq] at hE
    simp only [exec, id, hcE, hsE, hE, bE]
    cases h : ve == 0 <;> simp [exec, hres, hlw, hcoreV]
  · have hR := cond_eq_one (hr rfl)
    rw [← lit_eq] at hR
    simp only [exec, id, hcR, hsR, hR]
    cases h : vr == 1 <;> simp [exec, hres, hlw, hcoreV, hrstV]
  · have hR := cond_eq_one (hr rfl)
    have hE := cond_ne_zero (he rfl)
    rw [← lit_eq] at hR hE
    simp only [exec, id, hcR, hsR, hR]
    cases h : vr == 1
    · simp only [exec, id, hcE, hsE, hE, bE]
      cases h2 : ve == 0 <;> simp [exec, hres, hlw, hcoreV]
    · simp [exec, hres, hlw, hrstV]

end FlatM
