import Py4hwV.Proofs.C01FlatMain
/-
  C01 design level, stage 2: the clock edge.  Verilog side: every flattened `Reg` body queues exactly the register rule on
  the pre-edge values, the queue is applied together.  Simulator side: `clockDrivers` + `settleAll` on a flat netlist.
-/
set_option linter.unusedSimpArgs false
namespace FlatM
open V C01 Net

theorem pfx_regBody (p : String) (hasR hasE : Bool) (rv : Nat) :
    pfxS p (C01.regBody hasR hasE rv) = regBodyP p hasR hasE rv := by
  cases hasR <;> cases hasE <;> rfl

/-- what one flattened register body queues at an edge -/
def regNba (p : String) (hasR hasE : Bool) (rv w vr ve vd : Nat) : List (Tgt × BV) :=
  if hasR && vr == 1 then [(Tgt.whole (p ++ "rq"), (⟨w, rv % 2 ^ w, true⟩ : BV))]
  else if hasE && ve == 0 then [] else [(Tgt.whole (p ++ "rq"), (⟨w, vd % 2 ^ w, true⟩ : BV))]

/-- `C01.reg_body_step` for the body under an instance prefix, absent optional ports not required, d and q of any widths -/
theorem reg_body_exec {r : Rd} (p : String) (hasR hasE : Bool) (rv w wr we wdd vr ve vd : Nat)
    (hr : hasR = true → Known r (p ++ "r") wr vr) (he : hasE = true → Known r (p ++ "e") we ve)
    (hd : Known r (p ++ "d") wdd vd) (hq : r.info (p ++ "rq") = some { width := w }) (hrv : rv < 2 ^ 31)
    (q0 : List (Tgt × BV)) :
    exec (σ := Rd) id wrA none (regBodyP p hasR hasE rv) { st := r, nba := q0 } =
      { st := r, nba := q0 ++ regNba p hasR hasE rv w vr ve vd } := by
  have hcR : selfW r (.bin "eq" (.id (p ++ "r")) (FlatM.lit 1)) = 1 := by simp [selfW, isRel]
  have hsR : isSg r (.bin "eq" (.id (p ++ "r")) (FlatM.lit 1)) = false := by simp [isSg, isRel]
  have hcE : selfW r (.bin "ne" (.id (p ++ "e")) (FlatM.lit 0)) = 1 := by simp [selfW, isRel]
  have hsE : isSg r (.bin "ne" (.id (p ++ "e")) (FlatM.lit 0)) = false := by simp [isSg, isRel]
  have wq : widthOf r (p ++ "rq") = w := by simp [widthOf, hq]
  have hres : resolve r (.lid (p ++ "rq")) = Tgt.whole (p ++ "rq") := rfl
  have hlw : lhsWidth r (.lid (p ++ "rq")) = w := by simp [lhsWidth, wq]
  have hcoreV : evalAssign r w (.id (p ++ "d")) = ⟨w, vd % 2 ^ w, true⟩ := by
    have := inline_buf w hd
    simpa [Leaf.buf] using this
  have hrstV : evalAssign r w (FlatM.lit rv) = ⟨w, rv % 2 ^ w, true⟩ := by
    have := inline_const r w rv hrv
    rw [← lit_eq] at this
    simpa [Leaf.const, Bits.put_ofNat] using this
  have bE : (ve != 0) = !(ve == 0) := by cases h : ve == 0 <;> simp_all
  cases hasR <;> cases hasE <;>
    simp only [regBodyP, regNba, Bool.false_and, Bool.true_and, Bool.false_eq_true, if_false, if_true]
  · simp [exec, hres, hlw, hcoreV]
  · have hE := cond_ne_zero (he rfl)
    rw [← lit_eq] at hE
    simp only [exec, id, hcE, hsE, hE, bE]
    cases h : ve == 0 <;> simp [exec, hres, hlw, hcoreV]
  · have hR := cond_eq_one (hr rfl)
    rw [← lit_eq] at hR
    simp only [exec, id, hcR, hsR, hR]
    cases h : vr == 1 <;> simp [exec, hres, hlw, hcoreV, hrstV]
  · have hR := cond_eq_one (hr rfl)
    have hE := cond_ne_zero (he rfl)
    rw [← lit_eq] at hR hE
    simp only [exec, id, hcR, hsR, hR]
    cases h : vr == 1
    · simp only [exec, id, hcE, hsE, hE, bE]
      cases h2 : ve == 0 <;> simp [exec, hres, hlw, hcoreV]
    · simp [exec, hres, hlw, hrstV]

/-! ### all register bodies at one edge -/

def RegI.rq (R : RegI) : String := R.pfx ++ "rq"

/-- what the flattened body of `R` queues when the pre-edge values of the simulator nets are `V` -/
def RegI.nba (wd : Nat → Nat) (V : Nat → Nat) (R : RegI) : List (Tgt × BV) :=
  regNba R.pfx R.leaf.hasR R.leaf.hasE R.leaf.rv (wd R.leaf.q) (V R.leaf.r) (V R.leaf.e) (V R.leaf.d)

/-- the ports of the flattened instance carry the simulator's values of the connected nets -/
structure RegKnown (wd : Nat → Nat) (V : Nat → Nat) (r : Rd) (R : RegI) : Prop where
  kd : Known r (R.pfx ++ "d") (wd R.leaf.d) (V R.leaf.d)
  ke : R.leaf.hasE = true → Known r (R.pfx ++ "e") (wd R.leaf.e) (V R.leaf.e)
  kr : R.leaf.hasR = true → Known r (R.pfx ++ "r") (wd R.leaf.r) (V R.leaf.r)
  krq : r.info R.rq = some { width := wd R.leaf.q }
  krv : R.leaf.rv < 2 ^ 31

theorem fireAll_regs_acc (regs : List RegI) (r : Rd) (wd : Nat → Nat) (V : Nat → Nat)
    (h : ∀ R, R ∈ regs → RegKnown wd V r R) (q0 : List (Tgt × BV)) :
    (regs.map RegI.proc).foldl fireStep (r, q0) = (r, q0 ++ regs.flatMap (RegI.nba wd V)) := by
  induction regs generalizing q0 with
  | nil => simp
  | cons R regs ih =>
    have hk := h R (by simp)
    have hx := reg_body_exec R.pfx R.leaf.hasR R.leaf.hasE R.leaf.rv (wd R.leaf.q) _ _ _ (V R.leaf.r) (V R.leaf.e)
      (V R.leaf.d) hk.kr hk.ke hk.kd hk.krq hk.krv []
    simp only [List.map_cons, List.foldl, RegI.proc, fireStep, hx, List.nil_append]
    rw [ih (fun R' hR' => h R' (by simp [hR']))]
    simp [List.flatMap_cons, RegI.nba]

theorem fireAll_regs (regs : List RegI) (r : Rd) (wd : Nat → Nat) (V : Nat → Nat)
    (h : ∀ R, R ∈ regs → RegKnown wd V r R) :
    fireAll (regs.map RegI.proc) r = (r, regs.flatMap (RegI.nba wd V)) := by
  unfold fireAll
  rw [fireAll_regs_acc regs r wd V h []]
  simp

/-- the value of `rq` after the edge -/
def RegI.newRq (wd : Nat → Nat) (V : Nat → Nat) (R : RegI) (old : BV) : BV :=
  if R.leaf.hasR && V R.leaf.r == 1 then ⟨wd R.leaf.q, R.leaf.rv % 2 ^ wd R.leaf.q, true⟩
  else if R.leaf.hasE && V R.leaf.e == 0 then old
  else ⟨wd R.leaf.q, V R.leaf.d % 2 ^ wd R.leaf.q, true⟩

theorem applyNbaA_info (r : Rd) (q : List (Tgt × BV)) : (applyNbaA r q).info = r.info := by
  induction q generalizing r with
  | nil => rfl
  | cons a q ih => simp only [applyNbaA, List.foldl] at ih ⊢; rw [ih, wrA_info]

theorem applyNbaA_mem (r : Rd) (q : List (Tgt × BV)) : (applyNbaA r q).mem = r.mem := by
  induction q generalizing r with
  | nil => rfl
  | cons a q ih => simp only [applyNbaA, List.foldl] at ih ⊢; rw [ih, wrA_mem]

theorem applyNbaA_append (r : Rd) (q1 q2 : List (Tgt × BV)) :
    applyNbaA r (q1 ++ q2) = applyNbaA (applyNbaA r q1) q2 := by
  simp [applyNbaA, List.foldl_append]

theorem applyNba_one (wd : Nat → Nat) (V : Nat → Nat) (R : RegI) (r : Rd)
    (hi : r.info R.rq = some { width := wd R.leaf.q }) (n : String) :
    (applyNbaA r (R.nba wd V)).val n = if n = R.rq then R.newRq wd V (r.val R.rq) else r.val n := by
  have hw : widthOf r (R.pfx ++ "rq") = wd R.leaf.q := by simp [widthOf, RegI.rq] at hi ⊢; simp [hi]
  unfold RegI.nba regNba RegI.newRq
  by_cases h1 : (R.leaf.hasR && V R.leaf.r == 1) = true
  · simp only [h1, if_true, applyNbaA, List.foldl, wrA, setWhole, norm, hw, Nat.mod_mod, RegI.rq]
  · simp only [h1, if_false, Bool.false_eq_true]
    by_cases h2 : (R.leaf.hasE && V R.leaf.e == 0) = true
    · simp only [h2, if_true, applyNbaA, List.foldl]
      by_cases e : n = R.rq <;> simp [e]
    · simp only [h2, if_false, Bool.false_eq_true, applyNbaA, List.foldl, wrA, setWhole, norm, hw, Nat.mod_mod, RegI.rq]
      by_cases e : n = R.pfx ++ "rq" <;> simp [e]

theorem applyNba_regs (wd : Nat → Nat) (V : Nat → Nat) (regs : List RegI) (hn : (regs.map RegI.rq).Nodup) (r : Rd)
    (hi : ∀ R, R ∈ regs → r.info R.rq = some { width := wd R.leaf.q }) :
    (∀ R, R ∈ regs → (applyNbaA r (regs.flatMap (RegI.nba wd V))).val R.rq = R.newRq wd V (r.val R.rq)) ∧
    (∀ n, n ∉ regs.map RegI.rq → (applyNbaA r (regs.flatMap (RegI.nba wd V))).val n = r.val n) := by
  induction regs generalizing r with
  | nil => simp [applyNbaA]
  | cons R regs ih =>
    simp only [List.map_cons, List.nodup_cons] at hn
    simp only [List.flatMap_cons, applyNbaA_append]
    have hi' : ∀ R', R' ∈ regs → (applyNbaA r (R.nba wd V)).info R'.rq = some { width := wd R'.leaf.q } := by
      intro R' hR'; rw [applyNbaA_info]; exact hi R' (by simp [hR'])
    have ⟨ih1, ih2⟩ := ih hn.2 (applyNbaA r (R.nba wd V)) hi'
    constructor
    · intro R' hR'
      simp only [List.mem_cons] at hR'
      rcases hR' with e | hR'
      · subst e
        rw [ih2 _ hn.1, applyNba_one wd V R' r (hi R' (by simp)), if_pos rfl]
      · rw [ih1 R' hR', applyNba_one wd V R r (hi R (by simp))]
        have : R'.rq ≠ R.rq := fun e => hn.1 (e ▸ List.mem_map.mpr ⟨R', hR', rfl⟩)
        rw [if_neg this]
    · intro n hn'
      simp only [List.map_cons, List.mem_cons, not_or] at hn'
      rw [ih2 n hn'.2, applyNba_one wd V R r (hi R (by simp)), if_neg hn'.1]

/-! ### the simulation relation and one clock cycle -/

/-- hypotheses tying the flattened text `f` (assigns + one `always @(posedge …)` per `Reg`) to the flat netlist `D` -/
structure SeqCorr (D : NetD) (f : V.Flat) (topo : List (LHS × Expr)) (regs : List RegI) (net : String → Option Nat) : Prop where
  comb : CombCorr D f.assigns topo net
  sched : D.SchedOK
  regs_eq : D.regs = regs.map (·.leaf)
  procs_eq : f.procs = regs.map RegI.proc
  name_d : ∀ R, R ∈ regs → net (R.pfx ++ "d") = some R.leaf.d
  name_e : ∀ R, R ∈ regs → R.leaf.hasE = true → net (R.pfx ++ "e") = some R.leaf.e
  name_r : ∀ R, R ∈ regs → R.leaf.hasR = true → net (R.pfx ++ "r") = some R.leaf.r
  name_rq : ∀ R, R ∈ regs → net R.rq = some R.leaf.q
  /-- the `rq` variables are driven by no assign … -/
  rq_undriven : ∀ R, R ∈ regs → R.rq ∉ f.assigns.map tgt
  /-- … and are the only undriven names that denote register outputs -/
  rq_only : ∀ n k, net n = some k → n ∉ f.assigns.map tgt → ∀ R, R ∈ regs → R.leaf.q = k → n = R.rq
  /-- single driver: no two registers drive the same net -/
  q_nodup : (regs.map (·.leaf.q)).Nodup
  rv_lt : ∀ R, R ∈ regs → R.leaf.rv < 2 ^ 31

/-- the two machines are in corresponding states: the Verilog store declares the nets; every UNDRIVEN name (top-level
    inputs, the `rq` variables) carries the simulator's value of the net it denotes; each `Reg.value` is congruent to
    its output wire; nothing is pending -/
structure SeqRel (D : NetD) (as : List (LHS × Expr)) (net : String → Option Nat) (r : Rd) (s : State Int) : Prop where
  inv : C06.Inv D.design s
  prep : s.prepared = []
  info : InfoOK D as net r
  und : ∀ n k, net n = some k → n ∉ as.map tgt → r.val n = ⟨D.wd k, s.val k, true⟩
  regst : ∀ j R, D.regs[j]? = some R → ∃ x : Nat, s.st (D.rid j) = (x : Int) ∧ x % 2 ^ D.wd R.q = s.val R.q

theorem nodup_idx_inj {α β : Type} (f : α → β) (l : List α) (h : (l.map f).Nodup) (i j : Nat) (a b : α)
    (hi : l[i]? = some a) (hj : l[j]? = some b) (e : f a = f b) : i = j := by
  have hi' : (l.map f)[i]? = some (f a) := by simp [hi]
  have hj' : (l.map f)[j]? = some (f b) := by simp [hj]
  have hil : i < (l.map f).length := by
    rcases Nat.lt_or_ge i (l.map f).length with h | h
    · exact h
    · rw [List.getElem?_eq_none h] at hi'; cases hi'
  have hjl : j < (l.map f).length := by
    rcases Nat.lt_or_ge j (l.map f).length with h | h
    · exact h
    · rw [List.getElem?_eq_none h] at hj'; cases hj'
  exact (List.getElem?_inj hil h).mp (by rw [hi', hj', e])

theorem nodup_map_of {α β γ : Type} (f : α → β) (g : α → γ) (l : List α) (h : (l.map f).Nodup)
    (hg : ∀ a b, a ∈ l → b ∈ l → g a = g b → f a = f b) : (l.map g).Nodup := by
  induction l with
  | nil => simp
  | cons x l ih =>
    simp only [List.map_cons, List.nodup_cons] at h ⊢
    refine ⟨?_, ih h.2 (fun a b ha hb => hg a b (by simp [ha]) (by simp [hb]))⟩
    intro hmem
    rcases List.mem_map.mp hmem with ⟨y, hy, e⟩
    exact h.1 (List.mem_map.mpr ⟨y, hy, hg y x (by simp [hy]) (by simp) e⟩)

section Step
variable {D : NetD} {f : V.Flat} {topo : List (LHS × Expr)} {regs : List RegI} {net : String → Option Nat}

theorem SeqCorr.rq_nodup (C : SeqCorr D f topo regs net) : (regs.map RegI.rq).Nodup := by
  apply nodup_map_of (fun R : RegI => R.leaf.q) RegI.rq regs C.q_nodup
  intro a b ha hb e
  have h1 := C.name_rq a ha
  have h2 := C.name_rq b hb
  rw [e, h2] at h1
  exact (Option.some.inj h1).symm

theorem SeqCorr.q_not_comb (C : SeqCorr D f topo regs net) (R : RegI) (hR : R ∈ regs) :
    ∀ c, c ∈ D.combs → ∀ o, o ∈ c.outs.map (·.1) → o ≠ R.leaf.q :=
  C.comb.undriven R.rq R.leaf.q (C.name_rq R hR) (C.rq_undriven R hR)

/-- `propagateAll` keeps related states related (the Verilog side does nothing) -/
theorem SeqRel.propagate (C : SeqCorr D f topo regs net) {r : Rd} {s : State Int} (h : SeqRel D f.assigns net r s) :
    SeqRel D f.assigns net r (propagateAll D.design s) := by
  refine ⟨C06.inv_propagateAll _ _ h.inv, by rw [propagate_prepared]; exact h.prep, h.info, ?_, ?_⟩
  · intro n k hn hu
    rw [h.und n k hn hu, propagate_val_other D s k (C.comb.undriven n k hn hu)]
  · intro j R hR
    obtain ⟨x, hx1, hx2⟩ := h.regst j R hR
    refine ⟨x, by rw [propagate_st]; exact hx1, ?_⟩
    rw [hx2, propagate_val_other]
    rw [C.regs_eq] at hR
    simp only [List.getElem?_map] at hR
    cases hR' : regs[j]? with
    | none => rw [hR'] at hR; cases hR
    | some RI =>
      rw [hR'] at hR
      simp only [Option.map_some, Option.some.injEq] at hR
      subst hR
      exact C.q_not_comb RI (List.mem_of_getElem? hR')

/-- **Stage 2: one clock cycle.**  `cycleA` (settle, all register bodies on pre-edge values, non-blocking updates applied
    together, settle) corresponds to `clk(1)` (`propagateAll`, `clock()` of every `Reg`, `settleAll`, `propagateAll`):
    related states go to related states, and afterwards EVERY name carries the simulator's value of its net. -/
theorem cycle_corr (C : SeqCorr D f topo regs net) {r : Rd} {s : State Int} (h : SeqRel D f.assigns net r s)
    (hg0 : D.good (propagateAll D.design s).val) (hg1 : D.good (clk D.design 1 s).val) :
    SeqRel D f.assigns net (cycleA f r) (clk D.design 1 s) ∧
    Rel net D.wd (clk D.design 1 s).val (cycleA f r) := by
  -- names
  let d := D.design
  let s1 := propagateAll d s
  let r1 := settleA f.assigns r
  have hr1 : Rel net D.wd s1.val r1 := comb_corr C.sched C.comb s h.inv r h.info h.und hg0 _ (Nat.le_refl _)
  have hi1 : r1.info = r.info := iter_passA_info _ _ _
  have hI1 : InfoOK D f.assigns net r1 := InfoOK_congr hi1.symm h.info
  have h1 : SeqRel D f.assigns net r s1 := h.propagate C
  -- the edge, Verilog side
  have hknown : ∀ R, R ∈ regs → RegKnown D.wd s1.val r1 R := by
    intro R hR
    exact ⟨hr1 _ _ (C.name_d R hR), fun he => hr1 _ _ (C.name_e R hR he), fun hr => hr1 _ _ (C.name_r R hR hr),
      hI1.width _ _ (C.name_rq R hR), C.rv_lt R hR⟩
  have hfire : fireAll f.procs r1 = (r1, regs.flatMap (RegI.nba D.wd s1.val)) := by
    rw [C.procs_eq]; exact fireAll_regs regs r1 D.wd s1.val hknown
  let r2 := applyNbaA r1 (regs.flatMap (RegI.nba D.wd s1.val))
  have hcyc : cycleA f r = settleA f.assigns r2 := by
    show settleA f.assigns (applyNbaA (fireAll f.procs r1).1 (fireAll f.procs r1).2) = _
    rw [hfire]
  have hi2 : r2.info = r.info := by rw [applyNbaA_info, hi1]
  have hI2 : InfoOK D f.assigns net r2 := InfoOK_congr hi2.symm h.info
  have ⟨hv1, hv2⟩ := applyNba_regs D.wd s1.val regs C.rq_nodup r1 (fun R hR => hI1.width _ _ (C.name_rq R hR))
  -- the edge, simulator side
  let s2 := settleAll (clockDrivers d s1 d.drivers)
  have hqinj : ∀ (i j : Nat) (R R' : RLeaf), D.regs[i]? = some R → D.regs[j]? = some R' → R.q = R'.q → i = j := by
    intro i j R R' hi hj e
    have hnd : (D.regs.map (·.q)).Nodup := by rw [C.regs_eq, List.map_map]; exact C.q_nodup
    exact nodup_idx_inj (·.q) D.regs hnd i j R R' hi hj e
  -- register states as naturals
  have hold : ∃ old : Nat → Nat, ∀ j, j < D.regs.length →
      s1.st (D.rid j) = (old j : Int) ∧ old j % 2 ^ D.wd (D.regs.getD j default).q = s1.val (D.regs.getD j default).q := by
    refine ⟨fun j => (s1.st (D.rid j)).toNat, ?_⟩
    intro j hj
    obtain ⟨x, hx1, hx2⟩ := h1.regst j _ (getElem?_getD _ _ hj)
    simp only [hx1, Int.toNat_natCast, hx2, and_self]
  obtain ⟨old, hold⟩ := hold
  have ⟨he1, he2, _, he4⟩ := edge_sim D s1 h1.prep hqinj old (fun j hj => (hold j hj).1)
  have hs2 : C06.Inv d s2 := C06.inv_settleAll d _ (C06.inv_clockDrivers d s1 _ h1.inv)
  -- related again on the undriven names
  have hund2 : ∀ n k, net n = some k → n ∉ f.assigns.map tgt → r2.val n = ⟨D.wd k, s2.val k, true⟩ := by
    intro n k hn hu
    by_cases hq : ∃ R, R ∈ regs ∧ R.leaf.q = k
    · obtain ⟨R, hR, hRk⟩ := hq
      have hnrq := C.rq_only n k hn hu R hR hRk
      subst hnrq
      obtain ⟨j, hjl, hj⟩ := List.mem_iff_getElem.mp hR
      have hjD : D.regs[j]? = some R.leaf := by
        rw [C.regs_eq]; simp [List.getElem?_eq_getElem hjl, hj]
      have hjlD : j < D.regs.length := by rw [C.regs_eq]; simpa using hjl
      have hRd := getD_of_getElem? _ _ _ hjD
      have ⟨hval, _⟩ := he1 j R.leaf hjD
      have ⟨_, hmod⟩ := hold j hjlD
      rw [hRd] at hmod
      rw [hv1 R hR, ← hRk]
      show _ = (⟨D.wd R.leaf.q, s2.val R.leaf.q, true⟩ : BV)
      rw [hval, Bits.put_ofNat]
      have hrq1 : r1.val R.rq = ⟨D.wd R.leaf.q, s1.val R.leaf.q, true⟩ := (hr1 _ _ (C.name_rq R hR)).val
      unfold RegI.newRq regNextV C01.regNext
      by_cases c1 : (R.leaf.hasR && s1.val R.leaf.r == 1) = true
      · simp only [c1, if_true]
      · simp only [c1, if_false, Bool.false_eq_true]
        by_cases c2 : (R.leaf.hasE && s1.val R.leaf.e == 0) = true
        · simp only [c2, if_true, hrq1, hmod]
        · simp only [c2, if_false, Bool.false_eq_true]
    · have hnot : ∀ R, R ∈ regs → R.leaf.q ≠ k := fun R hR e => hq ⟨R, hR, e⟩
      have hnrq : n ∉ regs.map RegI.rq := by
        intro hmem
        rcases List.mem_map.mp hmem with ⟨R, hR, e⟩
        have := C.name_rq R hR
        rw [e, hn] at this
        exact hnot R hR (Option.some.inj this).symm
      have hr1n : r1.val n = r.val n := by
        have := iter_eq_topo C.comb.perm C.comb.acyc r h.info.lhs _ (Nat.le_refl f.assigns.length)
        show (Net.iter (passA f.assigns) f.assigns.length r).val n = _
        rw [this]
        apply passA_val_other topo r (fun a ha => h.info.lhs a (C.comb.perm.mem_iff.mpr ha))
        intro b hb e
        exact hu (List.mem_map.mpr ⟨b, C.comb.perm.mem_iff.mpr hb, e.symm⟩)
      have hs2k : s2.val k = s.val k := by
        rw [he2 k (fun R hR e => by
          rw [C.regs_eq] at hR
          rcases List.mem_map.mp hR with ⟨RI, hRI, e'⟩
          exact hnot RI hRI (e' ▸ e))]
        exact propagate_val_other D s k (C.comb.undriven n k hn hu)
      rw [hv2 n hnrq, hr1n, h.und n k hn hu, hs2k]
  -- settle again
  have hr3 : Rel net D.wd (propagateAll d s2).val (settleA f.assigns r2) :=
    comb_corr C.sched C.comb s2 hs2 r2 hI2 hund2 hg1 _ (Nat.le_refl _)
  have hclk : clk d 1 s = { propagateAll d s2 with clks := (propagateAll d s2).clks + 1 } := rfl
  have hi3 : (settleA f.assigns r2).info = r.info := by
    show (Net.iter (passA f.assigns) f.assigns.length r2).info = _
    rw [iter_passA_info, hi2]
  rw [hcyc]
  refine ⟨⟨?_, ?_, InfoOK_congr hi3.symm h.info, ?_, ?_⟩, ?_⟩
  · rw [hclk]; exact C06.inv_propagateAll d s2 hs2
  · rw [hclk]; show (propagateAll d s2).prepared = []; rw [propagate_prepared]; exact he4
  · intro n k hn _
    rw [hclk]
    exact (hr3 n k hn).val
  · intro j R hR
    rw [hclk]
    show ∃ x : Nat, (propagateAll d s2).st (D.rid j) = (x : Int) ∧ x % 2 ^ D.wd R.q = (propagateAll d s2).val R.q
    have ⟨hval, hst⟩ := he1 j R hR
    refine ⟨regNextV s1.val R (old j), by rw [propagate_st]; exact hst, ?_⟩
    rw [propagate_val_other, hval, Bits.put_ofNat]
    have hR' := hR
    rw [C.regs_eq] at hR'
    simp only [List.getElem?_map] at hR'
    cases hRI : regs[j]? with
    | none => rw [hRI] at hR'; cases hR'
    | some RI =>
      rw [hRI] at hR'
      simp only [Option.map_some, Option.some.injEq] at hR'
      subst hR'
      exact C.q_not_comb RI (List.mem_of_getElem? hRI)
  · rw [hclk]; exact hr3

end Step

end FlatM
