import Py4hwV.Proofs.C01FlatMain
/-
  C01 design level, stage 2: the clock edge.  Verilog side: every flattened `Reg` body queues exactly the register rule on
  the pre-edge values, the queue is applied together.  Simulator side: `clockDrivers` + `settleAll` on a flat netlist.
-/
set_option linter.unusedSimpArgs false
namespace FlatM
open V C01 Net

theorem pfx_regBody (p : String) (hasR hasE : Bool) (rv : Nat) :
    pfxS p (C01.regBody hasR hasE rv) = regBodyP p hasR hasE rv := by
  cases hasR <;> cases hasE <;> rfl

/-- what one flattened register body queues at an edge -/
def regNba (p : String) (hasR hasE : Bool) (rv w vr ve vd : Nat) : List (Tgt × BV) :=
  if hasR && vr == 1 then [(Tgt.whole (p ++ "rq"), (⟨w, rv % 2 ^ w, true⟩ : BV))]
  else if hasE && ve == 0 then [] else [(Tgt.whole (p ++ "rq"), (⟨w, vd % 2 ^ w, true⟩ : BV))]

/-- `C01.reg_body_step` for the body under an instance prefix, absent optional ports not required, d and q of any widths -/
theorem reg_body_exec {r : Rd} (p : String) (hasR hasE : Bool) (rv w wr we wdd vr ve vd : Nat)
    (hr : hasR = true → Known r (p ++ "r") wr vr) (he : hasE = true → Known r (p ++ "e") we ve)
    (hd : Known r (p ++ "d") wdd vd) (hq : r.info (p ++ "rq") = some { width := w }) (hrv : rv < 2 ^ 31)
    (q0 : List (Tgt × BV)) :
    exec (σ := Rd) id wrA none (regBodyP p hasR hasE rv) { st := r, nba := q0 } =
      { st := r, nba := q0 ++ regNba p hasR hasE rv w vr ve vd } := by
  have hcR : selfW r (.bin "eq" (.id (p ++ "r")) (FlatM.lit 1)) = 1 := by simp [selfW, isRel]
  have hsR : isSg r (.bin "eq" (.id (p ++ "r")) (FlatM.lit 1)) = false := by simp [isSg, isRel]
  have hcE : selfW r (.bin "ne" (.id (p ++ "e")) (FlatM.lit 0)) = 1 := by simp [selfW, isRel]
  have hsE : isSg r (.bin "ne" (.id (p ++ "e")) (FlatM.lit 0)) = false := by simp [isSg, isRel]
  have wq : widthOf r (p ++ "rq") = w := by simp [widthOf, hq]
  have hres : resolve r (.lid (p ++ "rq")) = Tgt.whole (p ++ "rq") := rfl
  have hlw : lhsWidth r (.lid (p ++ "rq")) = w := by simp [lhsWidth, wq]
  have hcoreV : evalAssign r w (.id (p ++ "d")) = ⟨w, vd % 2 ^ w, true⟩ := by
    have := inline_buf w hd
    simpa [Leaf.buf] using this
  have hrstV : evalAssign r w (FlatM.lit rv) = ⟨w, rv % 2 ^ w, true⟩ := by
    have := inline_const r w rv hrv
    rw [← lit_eq] at this
    simpa [Leaf.const, Bits.put_ofNat] using this
  have bE : (ve != 0) = !(ve == 0) := by cases h : ve == 0 <;> simp_all
  cases hasR <;> cases hasE <;>
    simp only [regBodyP, regNba, Bool.false_and, Bool.true_and, Bool.false_eq_true, if_false, if_true]
  · simp [exec, hres, hlw, hcoreV]
  · have hE := cond_ne_zero (he rfl)
    rw [← lit_eq] at hE
    simp only [exec, id, hcE, hsE, hE, bE]
    cases h : ve == 0 <;> simp [exec, hres, hlw, hcoreV]
  · have hR := cond_eq_one (hr rfl)
    rw [← lit_eq] at hR
    simp only [exec, id, hcR, hsR, hR]
    cases h : vr == 1 <;> simp [exec, hres, hlw, hcoreV, hrstV]
  · have hR := cond_eq_one (hr rfl)
    have hE := cond_ne_zero (he rfl)
    rw [← lit_eq] at hR hE
    simp only [exec, id, hcR, hsR, hR]
    cases h : vr == 1
    · simp only [exec, id, hcE, hsE, hE, bE]
      cases h2 : ve == 0 <;> simp [exec, hres, hlw, hcoreV]
    · simp [exec, hres, hlw, hrstV]

/-! ### all register bodies at one edge -/

def RegI.rq (R : RegI) : String := R.pfx ++ "rq"

/-- what the flattened body of `R` queues when the pre-edge values of the simulator nets are `V` -/
def RegI.nba (wd : Nat → Nat) (V : Nat → Nat) (R : RegI) : List (Tgt × BV) :=
  regNba R.pfx R.leaf.hasR R.leaf.hasE R.leaf.rv (wd R.leaf.q) (V R.leaf.r) (V R.leaf.e) (V R.leaf.d)

/-- the ports of the flattened instance carry the simulator's values of the connected nets -/
structure RegKnown (wd : Nat → Nat) (V : Nat → Nat) (r : Rd) (R : RegI) : Prop where
  d : Known r (R.pfx ++ "d") (wd R.leaf.d) (V R.leaf.d)
  e : R.leaf.hasE = true → Known r (R.pfx ++ "e") (wd R.leaf.e) (V R.leaf.e)
  r : R.leaf.hasR = true → Known r (R.pfx ++ "r") (wd R.leaf.r) (V R.leaf.r)
  rq : r.info R.rq = some { width := wd R.leaf.q }
  rv : R.leaf.rv < 2 ^ 31

theorem fireAll_regs_acc (regs : List RegI) (r : Rd) (wd : Nat → Nat) (V : Nat → Nat)
    (h : ∀ R, R ∈ regs → RegKnown wd V r R) (q0 : List (Tgt × BV)) :
    (regs.map RegI.proc).foldl (fun acc ep =>
      match ep.1 with
      | .pos _ =>
          let x := exec (σ := Rd) id wrA none ep.2 { st := acc.1, nba := [] }
          (x.st, acc.2 ++ x.nba)
      | _ => acc) (r, q0) = (r, q0 ++ regs.flatMap (RegI.nba wd V)) := by
  induction regs generalizing q0 with
  | nil => simp
  | cons R regs ih =>
    have hk := h R (by simp)
    have hx := reg_body_exec R.pfx R.leaf.hasR R.leaf.hasE R.leaf.rv (wd R.leaf.q) _ _ _ (V R.leaf.r) (V R.leaf.e)
      (V R.leaf.d) hk.r hk.e hk.d hk.rq hk.rv []
    simp only [List.map_cons, List.foldl, RegI.proc, hx, List.nil_append]
    rw [ih (fun R' hR' => h R' (by simp [hR']))]
    simp [List.flatMap_cons, RegI.nba]

theorem fireAll_regs (regs : List RegI) (r : Rd) (wd : Nat → Nat) (V : Nat → Nat)
    (h : ∀ R, R ∈ regs → RegKnown wd V r R) :
    fireAll (regs.map RegI.proc) r = (r, regs.flatMap (RegI.nba wd V)) := by
  unfold fireAll
  rw [fireAll_regs_acc regs r wd V h []]
  simp

/-- the value of `rq` after the edge -/
def RegI.newRq (wd : Nat → Nat) (V : Nat → Nat) (R : RegI) (old : BV) : BV :=
  if R.leaf.hasR && V R.leaf.r == 1 then ⟨wd R.leaf.q, R.leaf.rv % 2 ^ wd R.leaf.q, true⟩
  else if R.leaf.hasE && V R.leaf.e == 0 then old
  else ⟨wd R.leaf.q, V R.leaf.d % 2 ^ wd R.leaf.q, true⟩

theorem applyNbaA_info (r : Rd) (q : List (Tgt × BV)) : (applyNbaA r q).info = r.info := by
  induction q generalizing r with
  | nil => rfl
  | cons a q ih => simp only [applyNbaA, List.foldl] at ih ⊢; rw [ih, wrA_info]

theorem applyNbaA_mem (r : Rd) (q : List (Tgt × BV)) : (applyNbaA r q).mem = r.mem := by
  induction q generalizing r with
  | nil => rfl
  | cons a q ih => simp only [applyNbaA, List.foldl] at ih ⊢; rw [ih, wrA_mem]

theorem applyNbaA_append (r : Rd) (q1 q2 : List (Tgt × BV)) :
    applyNbaA r (q1 ++ q2) = applyNbaA (applyNbaA r q1) q2 := by
  simp [applyNbaA, List.foldl_append]

theorem applyNba_one (wd : Nat → Nat) (V : Nat → Nat) (R : RegI) (r : Rd)
    (hi : r.info R.rq = some { width := wd R.leaf.q }) (n : String) :
    (applyNbaA r (R.nba wd V)).val n = if n = R.rq then R.newRq wd V (r.val R.rq) else r.val n := by
  have hw : widthOf r (R.pfx ++ "rq") = wd R.leaf.q := by simp [widthOf, RegI.rq] at hi ⊢; simp [hi]
  unfold RegI.nba regNba RegI.newRq
  by_cases h1 : (R.leaf.hasR && V R.leaf.r == 1) = true
  · simp only [h1, if_true, applyNbaA, List.foldl, wrA, setWhole, norm, hw, Nat.mod_mod, RegI.rq]
  · simp only [h1, if_false, Bool.false_eq_true]
    by_cases h2 : (R.leaf.hasE && V R.leaf.e == 0) = true
    · simp only [h2, if_true, applyNbaA, List.foldl]
      by_cases e : n = R.rq <;> simp [e]
    · simp only [h2, if_false, Bool.false_eq_true, applyNbaA, List.foldl, wrA, setWhole, norm, hw, Nat.mod_mod, RegI.rq]

theorem applyNba_regs (wd : Nat → Nat) (V : Nat → Nat) (regs : List RegI) (hn : (regs.map RegI.rq).Nodup) (r : Rd)
    (hi : ∀ R, R ∈ regs → r.info R.rq = some { width := wd R.leaf.q }) :
    (∀ R, R ∈ regs → (applyNbaA r (regs.flatMap (RegI.nba wd V))).val R.rq = R.newRq wd V (r.val R.rq)) ∧
    (∀ n, n ∉ regs.map RegI.rq → (applyNbaA r (regs.flatMap (RegI.nba wd V))).val n = r.val n) := by
  induction regs generalizing r with
  | nil => simp [applyNbaA]
  | cons R regs ih =>
    simp only [List.map_cons, List.nodup_cons] at hn
    simp only [List.flatMap_cons, applyNbaA_append]
    have hi' : ∀ R', R' ∈ regs → (applyNbaA r (R.nba wd V)).info R'.rq = some { width := wd R'.leaf.q } := by
      intro R' hR'; rw [applyNbaA_info]; exact hi R' (by simp [hR'])
    have ⟨ih1, ih2⟩ := ih hn.2 (applyNbaA r (R.nba wd V)) hi'
    constructor
    · intro R' hR'
      simp only [List.mem_cons] at hR'
      rcases hR' with e | hR'
      · subst e
        rw [ih2 _ hn.1, applyNba_one wd V R' r (hi R' (by simp)), if_pos rfl]
      · rw [ih1 R' hR', applyNba_one wd V R r (hi R (by simp))]
        have : R'.rq ≠ R.rq := fun e => hn.1 (e ▸ List.mem_map.mpr ⟨R', hR', rfl⟩)
        rw [if_neg this]
    · intro n hn'
      simp only [List.mem_cons, not_or] at hn'
      rw [ih2 n hn'.2, applyNba_one wd V R r (hi R (by simp)), if_neg hn'.1]

end FlatM
