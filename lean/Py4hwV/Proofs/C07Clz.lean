import Py4hwV.Proofs.C07Bcd
/-
  C07 helper lemmas: CountLeadingZeros (the F-function levels of Dimitrakopoulos et al.).
  Lists of one-bit wire values are LSB first; `IsTop f p` says the highest set position of `f` is `p`.
-/
namespace C07
open Bits Lib

/-- every element is a one-bit value -/
def Bitl (f : List Nat) : Prop := ∀ x ∈ f, x ≤ 1

theorem getD_le_one (f : List Nat) (h : Bitl f) (i : Nat) : f.getD i 0 ≤ 1 := by
  rw [List.getD_eq_getElem?_getD]
  cases hi : f[i]? with
  | none => simp
  | some x =>
    have : x ∈ f := List.mem_of_getElem? hi
    simpa using h x this

theorem exists_mem_cons' (p : Nat → Prop) (a : Nat) (l : List Nat) :
    (∃ x, x ∈ a :: l ∧ p x) ↔ p a ∨ ∃ x, x ∈ l ∧ p x := by
  constructor
  · rintro ⟨x, hx, hp⟩
    rcases List.mem_cons.mp hx with rfl | hx
    · exact Or.inl hp
    · exact Or.inr ⟨x, hx, hp⟩
  · rintro (h | ⟨x, hx, hp⟩)
    · exact ⟨a, List.mem_cons_self .., h⟩
    · exact ⟨x, List.mem_cons_of_mem _ hx, hp⟩

theorem and2_bits (a b : Nat) (ha : a ≤ 1) (hb : b ≤ 1) :
    Leaf.and2 1 a b ≤ 1 ∧ (Leaf.and2 1 a b = 1 ↔ a = 1 ∧ b = 1) := by
  have : a = 0 ∨ a = 1 := by omega
  have : b = 0 ∨ b = 1 := by omega
  rcases ‹a = 0 ∨ a = 1› with rfl | rfl <;> rcases ‹b = 0 ∨ b = 1› with rfl | rfl <;> decide

theorem or2_bits (a b : Nat) (ha : a ≤ 1) (hb : b ≤ 1) :
    Leaf.or2 1 a b ≤ 1 ∧ (Leaf.or2 1 a b = 1 ↔ a = 1 ∨ b = 1) := by
  have : a = 0 ∨ a = 1 := by omega
  have : b = 0 ∨ b = 1 := by omega
  rcases ‹a = 0 ∨ a = 1› with rfl | rfl <;> rcases ‹b = 0 ∨ b = 1› with rfl | rfl <;> decide

theorem not1_bit (a : Nat) (ha : a ≤ 1) : Leaf.not1 1 a = 1 - a := by
  have : a = 0 ∨ a = 1 := by omega
  rcases this with rfl | rfl <;> decide

theorem buf_bit (a : Nat) (ha : a ≤ 1) : Leaf.buf 1 a = a := by
  have : a = 0 ∨ a = 1 := by omega
  rcases this with rfl | rfl <;> decide

theorem and_fold (rest : List Nat) (a : Nat) (ha : a ≤ 1) (hr : Bitl rest) :
    rest.foldl (fun auxin x => Leaf.and2 1 auxin x) a ≤ 1 ∧
    (rest.foldl (fun auxin x => Leaf.and2 1 auxin x) a = 1 ↔ a = 1 ∧ ∀ x ∈ rest, x = 1) := by
  induction rest generalizing a with
  | nil => exact ⟨ha, by simp⟩
  | cons b rest ih =>
    have hb : b ≤ 1 := hr b (List.mem_cons_self ..)
    have hr' : Bitl rest := fun x hx => hr x (List.mem_cons_of_mem _ hx)
    have hc := and2_bits a b ha hb
    have := ih _ hc.1 hr'
    rw [List.foldl_cons]
    refine ⟨this.1, ?_⟩
    rw [this.2, hc.2, List.forall_mem_cons]
    exact ⟨fun h => ⟨h.1.1, h.1.2, h.2⟩, fun h => ⟨⟨h.1, h.2.1⟩, h.2.2⟩⟩

theorem or_fold (rest : List Nat) (a : Nat) (ha : a ≤ 1) (hr : Bitl rest) :
    rest.foldl (fun auxin x => Leaf.or2 1 auxin x) a ≤ 1 ∧
    (rest.foldl (fun auxin x => Leaf.or2 1 auxin x) a = 1 ↔ a = 1 ∨ ∃ x ∈ rest, x = 1) := by
  induction rest generalizing a with
  | nil => exact ⟨ha, by simp⟩
  | cons b rest ih =>
    have hb : b ≤ 1 := hr b (List.mem_cons_self ..)
    have hr' : Bitl rest := fun x hx => hr x (List.mem_cons_of_mem _ hx)
    have hc := or2_bits a b ha hb
    have := ih _ hc.1 hr'
    rw [List.foldl_cons]
    refine ⟨this.1, ?_⟩
    rw [this.2, hc.2, exists_mem_cons' (fun x => x = 1)]
    exact ⟨fun h => h.elim (fun h => h.elim Or.inl (fun h => Or.inr (Or.inl h))) (fun h => Or.inr (Or.inr h)),
           fun h => h.elim (fun h => Or.inl (Or.inl h)) (fun h => h.elim (fun h => Or.inl (Or.inr h)) Or.inr)⟩

/-- the And ladder on one-bit wires -/
theorem andN_bits (l : List Nat) (hl : Bitl l) (hne : l ≠ []) :
    ArithAux.andN 1 l ≤ 1 ∧ (ArithAux.andN 1 l = 1 ↔ ∀ x ∈ l, x = 1) := by
  match l, hne with
  | [a], _ =>
    have ha : a ≤ 1 := hl a (List.mem_cons_self ..)
    show Leaf.buf 1 a ≤ 1 ∧ (Leaf.buf 1 a = 1 ↔ _)
    rw [buf_bit a ha]
    exact ⟨ha, by simp⟩
  | a :: b :: rest, _ =>
    have ha : a ≤ 1 := hl a (List.mem_cons_self ..)
    have hr : Bitl (b :: rest) := fun x hx => hl x (List.mem_cons_of_mem _ hx)
    have := and_fold _ a ha hr
    refine ⟨this.1, ?_⟩
    show (b :: rest).foldl (fun auxin x => Leaf.and2 1 auxin x) a = 1 ↔ _
    rw [this.2, List.forall_mem_cons (l := b :: rest)]

/-- the Or ladder on one-bit wires -/
theorem orN_bits (l : List Nat) (hl : Bitl l) (hne : l ≠ []) :
    ArithAux.orN 1 l ≤ 1 ∧ (ArithAux.orN 1 l = 1 ↔ ∃ x ∈ l, x = 1) := by
  match l, hne with
  | [a], _ =>
    have ha : a ≤ 1 := hl a (List.mem_cons_self ..)
    show Leaf.buf 1 a ≤ 1 ∧ (Leaf.buf 1 a = 1 ↔ _)
    rw [buf_bit a ha]
    exact ⟨ha, by simp⟩
  | a :: b :: rest, _ =>
    have ha : a ≤ 1 := hl a (List.mem_cons_self ..)
    have hr : Bitl (b :: rest) := fun x hx => hl x (List.mem_cons_of_mem _ hx)
    have := or_fold _ a ha hr
    refine ⟨this.1, ?_⟩
    show (b :: rest).foldl (fun auxin x => Leaf.or2 1 auxin x) a = 1 ↔ _
    rw [this.2, exists_mem_cons' (fun x => x = 1) a]

/-! ### the F function -/

def IsTop (f : List Nat) (p : Nat) : Prop := f.getD p 0 = 1 ∧ ∀ i, p < i → f.getD i 0 = 0
def AllZero (f : List Nat) : Prop := ∀ i, f.getD i 0 = 0

theorem getD_of_lt (f : List Nat) (j : Nat) (hj : j < f.length) : f.getD j 0 = f[j] := by
  rw [List.getD_eq_getElem?_getD, List.getElem?_eq_getElem hj]; rfl

theorem getD_of_ge (f : List Nat) (j : Nat) (hj : f.length ≤ j) : f.getD j 0 = 0 := by
  rw [List.getD_eq_getElem?_getD, List.getElem?_eq_none hj]; rfl

theorem isTop_lt (f : List Nat) (p : Nat) (h : IsTop f p) : p < f.length := by
  apply Nat.lt_of_not_le
  intro hle
  have := getD_of_ge f p hle
  rw [h.1] at this; omega

theorem getD_map_not (f : List Nat) (j : Nat) (hj : j < f.length) (hf : Bitl f) :
    (f.map (Leaf.not1 1)).getD j 0 = 1 - f.getD j 0 := by
  rw [getD_of_lt _ _ (by simpa using hj), getD_of_lt _ _ hj, List.getElem_map]
  exact not1_bit _ (hf _ (List.getElem_mem hj))

theorem fFunction_char (f : List Nat) (hf : Bitl f) (hw : 2 ≤ f.length) :
    fFunction f ≤ 1 ∧ (fFunction f = 1 ↔
      ∃ t, t < (f.length + 1) / 2 ∧ f.getD (f.length - 1 - 2 * t) 0 = 1 ∧
        ∀ s, s < t → f.getD (f.length - 2 - 2 * s) 0 = 0) := by
  -- every product term is a one-bit value with the expected meaning
  have hterm : ∀ t, 
      let l := f.getD (f.length - 1 - 2 * t) 0 ::
        (List.range t).map fun s => (f.map (Leaf.not1 1)).getD (f.length - 2 - 2 * s) 0
      ArithAux.andN 1 l ≤ 1 ∧ (ArithAux.andN 1 l = 1 ↔
        f.getD (f.length - 1 - 2 * t) 0 = 1 ∧ ∀ s, s < t → f.getD (f.length - 2 - 2 * s) 0 = 0) := by
    intro t l
    have hl : Bitl l := by
      intro x hx
      rcases List.mem_cons.mp hx with rfl | hx
      · exact getD_le_one f hf _
      · obtain ⟨s, _, rfl⟩ := List.mem_map.mp hx
        rw [getD_map_not f _ (by omega) hf]; omega
    have := andN_bits l hl (List.cons_ne_nil _ _)
    refine ⟨this.1, ?_⟩
    rw [this.2, List.forall_mem_cons]
    constructor
    · rintro ⟨h1, h2⟩
      refine ⟨h1, fun s hs => ?_⟩
      have := h2 _ (List.mem_map.mpr ⟨s, List.mem_range.mpr hs, rfl⟩)
      rw [getD_map_not f _ (by omega) hf] at this
      have := getD_le_one f hf (f.length - 2 - 2 * s)
      omega
    · rintro ⟨h1, h2⟩
      refine ⟨h1, fun x hx => ?_⟩
      obtain ⟨s, hs, rfl⟩ := List.mem_map.mp hx
      rw [getD_map_not f _ (by omega) hf, h2 s (List.mem_range.mp hs)]
  have hP : Bitl (fProducts f) := by
    intro x hx
    obtain ⟨t, _, rfl⟩ := List.mem_map.mp hx
    exact (hterm t).1
  have hne : fProducts f ≠ [] := by
    intro h
    have := congrArg List.length h
    simp [fProducts] at this
    omega
  have := orN_bits _ hP hne
  refine ⟨this.1, ?_⟩
  unfold fFunction
  rw [this.2]
  constructor
  · rintro ⟨x, hx, h1⟩
    obtain ⟨t, ht, rfl⟩ := List.mem_map.mp hx
    exact ⟨t, List.mem_range.mp ht, ((hterm t).2).mp h1⟩
  · rintro ⟨t, ht, h⟩
    exact ⟨_, List.mem_map.mpr ⟨t, List.mem_range.mpr ht, rfl⟩, ((hterm t).2).mpr h⟩

/-- Lemma A: on an even number of one-bit wires, F = "the highest set position is odd" -/
theorem fFunction_top (f : List Nat) (hf : Bitl f) (m : Nat) (hm : 1 ≤ m) (hlen : f.length = 2 * m)
    (p : Nat) (hp : IsTop f p) : fFunction f = p % 2 := by
  have hc := fFunction_char f hf (by omega)
  have hpl := isTop_lt f p hp
  by_cases hodd : p % 2 = 1
  · rw [hodd, hc.2]
    refine ⟨(f.length - 1 - p) / 2, by omega, ?_, ?_⟩
    · rw [show f.length - 1 - 2 * ((f.length - 1 - p) / 2) = p by omega]; exact hp.1
    · intro s hs; exact hp.2 _ (by omega)
  · have h0 : p % 2 = 0 := by omega
    rw [h0]
    have : ¬ fFunction f = 1 := by
      rw [hc.2]
      rintro ⟨t, ht, h1, h2⟩
      have hle : f.length - 1 - 2 * t ≤ p := by
        apply Nat.le_of_not_lt
        intro hlt
        rw [hp.2 _ hlt] at h1; omega
      have := h2 ((f.length - 2 - p) / 2) (by omega)
      rw [show f.length - 2 - 2 * ((f.length - 2 - p) / 2) = p by omega, hp.1] at this
      omega
    omega

theorem fFunction_zero (f : List Nat) (hf : Bitl f) (hw : 2 ≤ f.length) (hz : AllZero f) : fFunction f = 0 := by
  have hc := fFunction_char f hf hw
  have : ¬ fFunction f = 1 := by
    rw [hc.2]
    rintro ⟨t, _, h1, _⟩
    rw [hz _] at h1; omega
  omega

/-! ### one level down: pairwise OR -/

theorem clzNext_length (f : List Nat) : (clzNext f).length = f.length / 2 := by simp [clzNext]

theorem clzNext_getD (f : List Nat) (j : Nat) (hj : j < f.length / 2) :
    (clzNext f).getD j 0 = Leaf.or2 1 (f.getD (2 * j) 0) (f.getD (2 * j + 1) 0) := by
  rw [getD_of_lt _ _ (by rw [clzNext_length]; exact hj)]
  simp [clzNext]

theorem clzNext_bitl (f : List Nat) (hf : Bitl f) : Bitl (clzNext f) := by
  intro x hx
  obtain ⟨j, _, rfl⟩ := List.mem_map.mp hx
  exact (or2_bits _ _ (getD_le_one f hf _) (getD_le_one f hf _)).1

/-- Lemma B: the highest set position halves -/
theorem clzNext_top (f : List Nat) (hf : Bitl f) (m : Nat) (hlen : f.length = 2 * m) (p : Nat) (hp : IsTop f p) :
    IsTop (clzNext f) (p / 2) := by
  have hpl := isTop_lt f p hp
  constructor
  · rw [clzNext_getD f _ (by omega)]
    rw [((or2_bits _ _ (getD_le_one f hf _) (getD_le_one f hf _)).2)]
    by_cases h : p % 2 = 0
    · left; rw [show 2 * (p / 2) = p by omega]; exact hp.1
    · right; rw [show 2 * (p / 2) + 1 = p by omega]; exact hp.1
  · intro i hi
    by_cases hil : i < f.length / 2
    · rw [clzNext_getD f _ hil]
      have h := or2_bits _ _ (getD_le_one f hf (2 * i)) (getD_le_one f hf (2 * i + 1))
      have : ¬ Leaf.or2 1 (f.getD (2 * i) 0) (f.getD (2 * i + 1) 0) = 1 := by
        rw [h.2, hp.2 _ (by omega), hp.2 _ (by omega)]; omega
      omega
    · exact getD_of_ge _ _ (by rw [clzNext_length]; omega)

theorem clzNext_zero (f : List Nat) (hz : AllZero f) : AllZero (clzNext f) := by
  intro i
  by_cases hil : i < f.length / 2
  · rw [clzNext_getD f _ hil, hz, hz]; decide
  · exact getD_of_ge _ _ (by rw [clzNext_length]; omega)

/-! ### all levels -/

/-- bits of `2^k - 1 - p`, LSB first: the complemented bits of `p` -/
def cbits : Nat → Nat → List Nat
  | 0, _ => []
  | k+1, p => (1 - p % 2) :: cbits k (p / 2)

theorem two_pow_eq_two_mul (k : Nat) : 2^(k+1) = 2 * 2^k := by rw [Nat.pow_succ]; omega

/-- Lemma C -/
theorem clzLevels_top (k : Nat) (f : List Nat) (hf : Bitl f) (hlen : f.length = 2^k) (p : Nat) (hp : IsTop f p) :
    (clzLevels k f).1 = cbits k p ∧ (clzLevels k f).2.getD 0 0 = 1 := by
  induction k generalizing f p with
  | zero =>
    have hpl := isTop_lt f p hp
    have : p = 0 := by simp at hlen; omega
    subst this
    exact ⟨rfl, hp.1⟩
  | succ k ih =>
    have h2 := two_pow_eq_two_mul k
    have hpos : 1 ≤ 2^k := Nat.two_pow_pos k
    have hA := fFunction_top f hf (2^k) hpos (by omega) p hp
    have hB := clzNext_top f hf (2^k) (by omega) p hp
    have hn := ih (clzNext f) (clzNext_bitl f hf) (by rw [clzNext_length]; omega) (p / 2) hB
    simp only [clzLevels, cbits]
    refine ⟨?_, hn.2⟩
    rw [hn.1, hA, not1_bit _ (by omega)]

theorem clzLevels_zero (k : Nat) (f : List Nat) (hf : Bitl f) (hlen : f.length = 2^k) (hz : AllZero f) :
    (clzLevels k f).2.getD 0 0 = 0 := by
  induction k generalizing f with
  | zero => exact hz 0
  | succ k ih =>
    have h2 := two_pow_eq_two_mul k
    have hpos : 1 ≤ 2^k := Nat.two_pow_pos k
    simp only [clzLevels]
    exact ih (clzNext f) (clzNext_bitl f hf) (by rw [clzNext_length]; omega) (clzNext_zero f hz)

theorem cbits_lt (k p : Nat) : ∀ d ∈ cbits k p, d < 2^1 := by
  induction k generalizing p with
  | zero => intro d hd; simp [cbits] at hd
  | succ k ih =>
    intro d hd
    simp only [cbits, List.mem_cons] at hd
    rcases hd with rfl | hd
    · omega
    · exact ih _ d hd

theorem cbits_val (k p : Nat) (hp : p < 2^k) : digitsVal 1 (cbits k p) = 2^k - 1 - p := by
  induction k generalizing p with
  | zero => simp at hp; subst hp; rfl
  | succ k ih =>
    have h2 := two_pow_eq_two_mul k
    have := ih (p / 2) (by omega)
    simp only [cbits, digitsVal, this]
    omega

/-! ### the input bits -/

theorem bits_length (n x : Nat) : (Leaf.bits n x).length = n := by simp [Leaf.bits]

theorem bits_getD (n x i : Nat) (hx : x < 2^n) : (Leaf.bits n x).getD i 0 = (x.testBit i).toNat := by
  by_cases hi : i < n
  · rw [getD_of_lt _ _ (by rw [bits_length]; exact hi)]
    simp only [Leaf.bits, List.getElem_map, List.getElem_range]
    exact Bits.bit_eq_testBit x i
  · rw [getD_of_ge _ _ (by rw [bits_length]; omega)]
    have : x < 2^i := Nat.lt_of_lt_of_le hx (two_pow_le (by omega))
    rw [Nat.testBit_lt_two_pow this]; rfl

theorem bits_bitl (n x : Nat) : Bitl (Leaf.bits n x) := by
  intro v hv
  obtain ⟨i, _, rfl⟩ := List.mem_map.mp hv
  have := Nat.mod_lt (x >>> i) (show 0 < 2 by decide)
  omega

theorem bits_top (n x : Nat) (hx : x < 2^n) (h0 : x ≠ 0) : IsTop (Leaf.bits n x) x.log2 := by
  constructor
  · rw [bits_getD n x _ hx, Nat.testBit_log2 h0]; rfl
  · intro i hi
    rw [bits_getD n x _ hx]
    have : x < 2^i := Nat.lt_of_lt_of_le Nat.lt_log2_self (two_pow_le (by omega))
    rw [Nat.testBit_lt_two_pow this]; rfl

theorem bits_zero (n : Nat) : AllZero (Leaf.bits n 0) := by
  intro i
  rw [bits_getD n 0 i (Nat.two_pow_pos n)]
  simp

theorem le_two_pow_clog2 (n : Nat) : n ≤ 2^(clog2 n) := by
  unfold clog2
  split
  · have := Nat.two_pow_pos 0; omega
  · have := @Nat.lt_log2_self (n - 1)
    omega

/-! ### assembling CountLeadingZeros -/

/-- the internal count `r_intern` and the "some bit set" flag, for the padded `2^k`-bit word -/
theorem clz_internal (k a : Nat) (ha : a < 2^(2^k)) :
    let lv := clzLevels k (Leaf.bits (2^k) a)
    (a = 0 → lv.2.getD 0 0 = 0) ∧
    (a ≠ 0 → lv.2.getD 0 0 = 1 ∧ Leaf.concat k (lv.1.reverse.map fun v => (1, v)) = 2^k - 1 - a.log2) := by
  intro lv
  constructor
  · intro h0; subst h0
    exact clzLevels_zero k _ (bits_bitl _ _) (bits_length _ _) (bits_zero _)
  · intro h0
    have hp : a.log2 < 2^k := (Nat.log2_lt h0).mpr ha
    have hC := clzLevels_top k _ (bits_bitl _ _) (bits_length _ _) a.log2 (bits_top _ a ha h0)
    refine ⟨hC.2, ?_⟩
    show Leaf.concat k ((clzLevels k (Leaf.bits (2^k) a)).1.reverse.map fun v => (1, v)) = _
    unfold Leaf.concat
    rw [hC.1, concat_fold_digits 1 _ (cbits_lt k _), cbits_val k _ hp]
    apply Nat.mod_eq_of_lt
    have := Nat.two_pow_pos k
    omega

theorem put_sub_mod_put (w x y : Nat) : put w (((x % 2^w : Nat) : Int) - ((put w (y:Int) : Nat) : Int)) = put w ((x:Int) - (y:Int)) := by
  apply put_congr
  rw [put_cast, Int.sub_emod_emod]
  rw [show ((x % 2^w : Nat) : Int) = (x:Int) % (2:Int)^w by simp, Int.emod_sub_emod]

theorem not1_parity_zero (zw : Nat) (hz : 1 ≤ zw) : Leaf.not1 zw 0 % 2 = 1 := by
  unfold Leaf.not1
  have h2 := two_pow_succ' zw hz
  have := Nat.two_pow_pos (zw - 1)
  rw [Nat.zero_mod]; omega

theorem not1_parity_one (zw : Nat) (hz : 1 ≤ zw) : ¬ Leaf.not1 zw 1 % 2 = 1 := by
  unfold Leaf.not1
  have h2 := two_pow_succ' zw hz
  have := Nat.two_pow_pos (zw - 1)
  rw [Nat.mod_eq_of_lt (show 1 < 2^zw by omega)]; omega

end C07
