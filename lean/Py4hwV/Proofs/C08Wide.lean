import Py4hwV.Proofs.C08Gates
/-
  C08, round 8: the blocks OUTSIDE the domain of their `_spec` theorems — exact characterisation theorems
    sumOfMinterms_wrap        every list of Python ints (duplicates, negative, out-of-range, dense)
    priorityEncoder_general   every mix of input / helper / output widths, no hypothesis
    equal_wide equalConstant_wide notEqualConstant_wide comparator_wide     result wires of ANY width
  each with the documented reading as a corollary where it holds, and a negative theorem with a concrete witness where not.
-/
namespace C08
open Lib Leaf Lib.LSpec

/-! ### SumOfMinterms / Minterm for every list -/

/-- SumOfMinterms(a, minterms, r) for EVERY non-empty list of Python ints: `a` is compared with the `aw`-bit wrap-around of
    every entry (no width-1 special case, unlike EqualConstant); duplicates and order are irrelevant -/
theorem sumOfMinterms_wrap (aw rw a : Nat) (ms : List Int) (haw : 1 ≤ aw) (hrw : 1 ≤ rw) (hne : ms ≠ []) (ha : a < 2 ^ aw) :
    Lib.sumOfMinterms aw rw a ms = LSpec.sumOfMintermsWrap aw a ms := by
  unfold Lib.sumOfMinterms LSpec.sumOfMintermsWrap
  rw [orN_bool rw _ hrw (by simpa using hne)]
  · congr 1
    rw [List.any_map]
    apply any_congr_mem
    intro m _
    simp only [Function.comp]
    rw [Bool.eq_iff_iff]
    simp only [decide_eq_true_eq]
    rw [minterm_bits aw a m haw ha, b2n_eq_one, decide_eq_true_eq]
  · intro x hx
    simp only [List.mem_map] at hx
    obtain ⟨m, _, rfl⟩ := hx
    rw [minterm_bits aw a m haw ha]; exact b2n_lt _

/-- the value only depends on the SET of listed minterms (duplicates, order) -/
theorem sumOfMintermsWrap_congr (aw a : Nat) (ms ms' : List Int) (h : ∀ m, m ∈ ms ↔ m ∈ ms') :
    LSpec.sumOfMintermsWrap aw a ms = LSpec.sumOfMintermsWrap aw a ms' := by
  unfold LSpec.sumOfMintermsWrap
  congr 1
  rw [Bool.eq_iff_iff]
  simp only [List.any_eq_true, decide_eq_true_eq]
  constructor
  · rintro ⟨m, hm, e⟩; exact ⟨m, (h m).mp hm, e⟩
  · rintro ⟨m, hm, e⟩; exact ⟨m, (h m).mpr hm, e⟩

/-- with in-range entries the wrap-around reading is the documented one -/
theorem sumOfMintermsWrap_in_range (aw a : Nat) (ms : List Int) (hm : ∀ m ∈ ms, 0 ≤ m ∧ m < (2:Int) ^ aw) :
    LSpec.sumOfMintermsWrap aw a ms = LSpec.sumOfMinterms a ms := by
  unfold LSpec.sumOfMintermsWrap LSpec.sumOfMinterms
  congr 1
  apply any_congr_mem
  intro m hmm
  have := put_of_range aw m (hm m hmm).1 (hm m hmm).2
  rw [Bool.eq_iff_iff]
  simp only [decide_eq_true_eq]
  omega

/-- a list and its complement inside `[0, 2^aw)` give complementary outputs: what any "decode the unlisted combinations and
    negate" construction for dense lists has to satisfy (seed C08m enumerated the complement without the all-ones value) -/
theorem sumOfMinterms_complement (aw a : Nat) (ms ms' : List Int) (ha : a < 2 ^ aw)
    (hc : ∀ x : Nat, x < 2 ^ aw → (((x : Int) ∈ ms') ↔ ¬ ((x : Int) ∈ ms))) :
    LSpec.sumOfMinterms a ms' = 1 - LSpec.sumOfMinterms a ms := by
  unfold LSpec.sumOfMinterms
  have h := hc a ha
  have e : ∀ l : List Int, (l.any fun m => decide ((a : Int) = m)) = decide ((a : Int) ∈ l) := by
    intro l
    rw [Bool.eq_iff_iff]
    simp only [List.any_eq_true, decide_eq_true_eq]
    constructor
    · rintro ⟨m, hm, rfl⟩; exact hm
    · intro hm; exact ⟨_, hm, rfl⟩
  rw [e, e]
  by_cases h1 : (a : Int) ∈ ms
  · have h2 : ¬ (a : Int) ∈ ms' := fun h' => (h.mp h') h1
    simp [h1, h2, b2n]
  · have h2 : (a : Int) ∈ ms' := h.mpr h1
    simp [h1, h2, b2n]

/-- out-of-range entries are not "never matched": 5 on a 2-bit input matches 1, −1 matches 3 -/
theorem sumOfMinterms_out_of_range_counterexample :
    Lib.sumOfMinterms 2 1 1 [5] = 1 ∧ LSpec.sumOfMinterms 1 [5] = 0 ∧ Lib.sumOfMinterms 2 1 3 [-1] = 1 ∧ LSpec.sumOfMinterms 3 [-1] = 0 := by
  decide

/-! ### PriorityEncoder, every mix of widths -/

/-- recursive form of `priorityEncoderW` for the non-first elements: `seen k` = some higher-priority input has bit `k` set -/
def prioSpecGoW (lw rw : Nat) : (Nat → Bool) → List Nat → List Nat
  | _, [] => []
  | seen, a :: as => ofBitFn rw (fun k => a.testBit k && (decide (k < lw) && !seen k)) :: prioSpecGoW lw rw (fun k => seen k || a.testBit k) as

theorem priorityGo_eqW (lw rw : Nat) (as : List Nat) (last : Nat) (seen : Nat → Bool)
    (h : ∀ k, last.testBit k = (decide (k < lw) && seen k)) : Lib.priorityGo lw rw last as = prioSpecGoW lw rw seen as := by
  induction as generalizing last seen with
  | nil => rfl
  | cons a as ih =>
    simp only [Lib.priorityGo, prioSpecGoW]
    congr 1
    · apply eq_ofBitFn
      intro i
      rw [testBit_and2, testBit_not1, h i]
      cases decide (i < rw) <;> cases decide (i < lw) <;> cases seen i <;> cases a.testBit i <;> rfl
    · apply ih
      intro k
      rw [testBit_or2, h k]
      cases decide (k < lw) <;> cases seen k <;> cases a.testBit k <;> rfl

theorem prioSpecGoW_eq_range (lw rw : Nat) (as : List Nat) (seen : Nat → Bool) :
    prioSpecGoW lw rw seen as = (List.range as.length).map fun i => ofBitFn rw fun k =>
      (as.getD i 0).testBit k && (decide (k < lw) && (!seen k && (as.take i).all fun x => !x.testBit k)) := by
  induction as generalizing seen with
  | nil => rfl
  | cons a as ih =>
    simp only [prioSpecGoW, List.length_cons, List.range_succ_eq_map, List.map_cons, List.map_map]
    congr 1
    · apply ofBitFn_congr
      intro k _
      simp
    · rw [ih]
      apply List.map_congr_left
      intro i _
      simp only [Function.comp, List.getD_cons_succ, List.take_succ_cons, List.all_cons]
      apply ofBitFn_congr
      intro k _
      cases (as.getD i 0).testBit k <;> cases seen k <;> cases a.testBit k <;> cases decide (k < lw) <;> simp

/-- the loop of the constructor (after the optional reversal) for any widths -/
theorem priorityDec_eqW (lw rw : Nat) (as : List Nat) :
    Lib.priorityDec lw rw as = (List.range as.length).map fun i => ofBitFn rw fun k =>
      (as.getD i 0).testBit k && ((as.take i).isEmpty || (decide (k < lw) && (as.take i).all fun x => !x.testBit k)) := by
  cases as with
  | nil => rfl
  | cons a as =>
    simp only [Lib.priorityDec, List.length_cons, List.range_succ_eq_map, List.map_cons, List.map_map]
    congr 1
    · apply eq_ofBitFn
      intro i
      rw [testBit_buf]; simp
    · rw [priorityGo_eqW lw rw as (Leaf.buf lw a) (fun k => a.testBit k) (fun k => by rw [testBit_buf]), prioSpecGoW_eq_range]
      apply List.map_congr_left
      intro i _
      simp only [Function.comp, List.getD_cons_succ, List.take_succ_cons, List.all_cons, List.isEmpty_cons, Bool.false_or]

/-- PriorityEncoder(a, r, inc_priority) for EVERY combination of widths and every input: no hypothesis.
    (`lw` = width of the most prioritised input = width of every helper wire, `rw` = width of the outputs) -/
theorem priorityEncoder_general (lw rw : Nat) (inc : Bool) (a : List Nat) :
    Lib.priorityEncoder lw rw inc a = LSpec.priorityEncoderW lw rw inc a := by
  cases inc with
  | false =>
    unfold Lib.priorityEncoder LSpec.priorityEncoderW
    simp only [Bool.false_eq_true, if_false]
    exact priorityDec_eqW lw rw a
  | true =>
    unfold Lib.priorityEncoder LSpec.priorityEncoderW
    simp only [if_true]
    rw [priorityDec_eqW]
    apply List.ext_getElem
    · simp
    · intro n h1 h2
      simp only [List.length_map, List.length_range] at h2
      simp only [List.getElem_reverse, List.getElem_map, List.getElem_range, List.length_map, List.length_range, List.length_reverse]
      apply ofBitFn_congr
      intro k _
      rw [getD_reverse a n h2]
      have e : List.take (a.length - 1 - n) a.reverse = (List.drop (n + 1) a).reverse := by
        rw [List.take_reverse]
        congr 2
        omega
      rw [e, List.all_reverse, List.isEmpty_reverse]

/-- the documented (bitwise) reading holds whenever the outputs are not wider than the most prioritised input —
    whatever the widths and values of the other inputs.  (`priorityEncoder_inc_spec/_dec_spec` are the case `lw = rw`.) -/
theorem priorityEncoder_spec_of_le (lw rw : Nat) (inc : Bool) (a : List Nat) (h : rw ≤ lw) :
    Lib.priorityEncoder lw rw inc a = LSpec.priorityEncoder rw inc a := by
  rw [priorityEncoder_general]
  unfold LSpec.priorityEncoderW LSpec.priorityEncoder
  apply List.map_congr_left
  intro i _
  apply ofBitFn_congr
  intro k hk
  have hkl : k < lw := by omega
  simp only [hkl, decide_true, Bool.true_and]
  cases hl : (if inc = true then List.drop (i + 1) a else List.take i a) with
  | nil => simp
  | cons x xs => simp

/-- outputs wider than the most prioritised input: every other output loses its bits above `lw` even when nothing of higher
    priority is active (helper wires are sized by the first prioritised input, helper.py hw_not / hw_or2) -/
theorem priorityEncoder_narrow_first_counterexample :
    Lib.priorityEncoder 1 2 false [0, 2, 2] = [0, 0, 0] ∧ LSpec.priorityEncoder 2 false [0, 2, 2] = [0, 2, 0] := by decide

/-! ### comparator-like blocks with result wires of any width -/

theorem andN_lt (rw : Nat) (L : List Nat) (hne : L ≠ []) : Lib.andN rw L < 2 ^ rw := by
  apply Nat.lt_pow_two_of_testBit
  intro i hi
  rw [testBit_andN rw i L hne]
  have : ¬ i < rw := by omega
  simp [this]

theorem orN_lt (rw : Nat) (L : List Nat) (hne : L ≠ []) : Lib.orN rw L < 2 ^ rw := by
  apply Nat.lt_pow_two_of_testBit
  intro i hi
  rw [testBit_orN rw i L hne]
  have : ¬ i < rw := by omega
  simp [this]

/-- an And ladder over 0/1 wires landing on a wire of ANY width -/
theorem andN_bool_wide (rw : Nat) (L : List Nat) (hne : L ≠ []) (hL : ∀ x ∈ L, x < 2) :
    Lib.andN rw L = b2n (L.all (fun x => decide (x = 1))) % 2 ^ rw := by
  by_cases h0 : rw = 0
  · subst h0
    have := andN_lt 0 L hne
    simp only [Nat.pow_zero, Nat.mod_one]
    omega
  · rw [andN_bool rw L (by omega) hne hL]
    have h2 : 2 ≤ 2 ^ rw := by
      have := Nat.pow_le_pow_right (by decide : 1 ≤ 2) (by omega : 1 ≤ rw)
      simpa using this
    exact (Nat.mod_eq_of_lt (Nat.lt_of_lt_of_le (b2n_lt _) h2)).symm

/-- Minterm on a result wire of any width (incl. 0): the 0/1 flag, zero extended -/
theorem minterm_wide (rw : Nat) (bits : List Nat) (v : Int) (hne : bits ≠ []) (h : ∀ x ∈ bits, x < 2) :
    Lib.minterm rw bits v = LSpec.minterm bits v % 2 ^ rw := by
  unfold Lib.minterm LSpec.minterm
  rw [andN_bool_wide rw _ (mintermParts_ne v 0 bits hne) (mintermParts_lt v 0 bits h), mintermParts_all v 0 bits h]
  simp

theorem not1_mod (rw a : Nat) : Leaf.not1 rw (a % 2 ^ rw) = Leaf.not1 rw a := by
  unfold Leaf.not1; rw [Nat.mod_mod]

/-- EqualConstant(a, v, r) with a result wire of ANY width and ANY Python int constant -/
theorem equalConstant_wide (aw rw a : Nat) (v : Int) (haw : 1 ≤ aw) (ha : a < 2 ^ aw) :
    Lib.equalConstant aw rw a v = LSpec.equalConstantW aw rw a v := by
  unfold Lib.equalConstant LSpec.equalConstantW
  by_cases h1 : aw = 1
  · subst h1
    simp only [if_true, true_and]
    by_cases hv : v = 0
    · simp only [hv, if_true]; exact not_spec rw a
    · simp only [hv, if_false]
      unfold Leaf.buf LSpec.equalConstantWrap
      simp only [if_true, hv, if_false]
      have : a = 0 ∨ a = 1 := by omega
      rcases this with h | h <;> subst h <;> rfl
  · have hne : Lib.bitsLSBF aw a ≠ [] := by
      intro h; have := bits_length aw a; rw [h] at this; simp at this; omega
    have hf : ¬ (aw = 1 ∧ v = 0) := fun h => h1 h.1
    rw [if_neg hf]
    simp only [h1, if_false]
    rw [minterm_wide rw _ v hne (mem_bits_lt aw a)]
    have := minterm_spec 1 _ v (Nat.le_refl _) hne (mem_bits_lt aw a)
    rw [← this, minterm_bits aw a v haw ha]
    unfold LSpec.equalConstantWrap
    simp only [h1, if_false]

/-- the 1-bit-result theorem is the instance `rw = 1` -/
theorem equalConstantW_one (aw a : Nat) (v : Int) (ha : a < 2 ^ aw) : LSpec.equalConstantW aw 1 a v = LSpec.equalConstantWrap aw a v := by
  unfold LSpec.equalConstantW LSpec.equalConstantWrap
  by_cases h1 : aw = 1
  · subst h1
    have : a = 0 ∨ a = 1 := by omega
    by_cases hv : v = 0
    · simp only [hv, and_self, if_true]; rcases this with h | h <;> subst h <;> decide
    · simp only [hv, and_false, if_false, if_true]; rcases this with h | h <;> subst h <;> decide
  · rw [if_neg (fun h => h1 h.1)]
    simp only [h1, if_false]
    exact Nat.mod_eq_of_lt (b2n_lt _)

/-- NotEqualConstant(a, v, r) with a result wire of ANY width and ANY Python int constant -/
theorem notEqualConstant_wide (aw rw a : Nat) (v : Int) (haw : 1 ≤ aw) (ha : a < 2 ^ aw) :
    Lib.notEqualConstant aw rw a v = LSpec.notEqualConstantW aw rw a v := by
  unfold Lib.notEqualConstant LSpec.notEqualConstantW
  rw [equalConstant_wrap aw a v haw ha]
  exact not_spec rw _

/-- Equal(a, b, r) with a result wire of ANY width: the `rw`-bit complement of the flag "a ≠ b" -/
theorem equal_wide (aw bw rw a b : Nat) (haw : 1 ≤ aw) (ha : a < 2 ^ aw) (hb : b < 2 ^ bw) (hb' : b < 2 ^ aw) :
    Lib.equal aw bw rw a b = LSpec.equalW rw a b := by
  unfold Lib.equal LSpec.equalW
  have hx := xor2_lt aw bw a b hb
  have hz := xor2_eq_zero_iff aw bw a b ha hb hb'
  simp only
  by_cases h1 : aw = 1
  · simp only [h1, if_true]
    rw [h1] at hx hz
    rw [← not_spec]
    congr 1
    have : Lib.xor2 1 bw 1 a b = 0 ∨ Lib.xor2 1 bw 1 a b = 1 := by omega
    by_cases hab : a = b
    · rw [hz.mpr hab]; simp [hab, b2n]
    · have : Lib.xor2 1 bw 1 a b = 1 := by
        rcases this with h | h
        · exact absurd (hz.mp h) hab
        · exact h
      rw [this]; simp [hab, b2n]
  · simp only [h1, if_false]
    unfold Lib.norN
    rw [← not_spec]
    have hne : Lib.bitsLSBF aw (Lib.xor2 aw bw aw a b) ≠ [] := by
      intro h; have := bits_length aw (Lib.xor2 aw bw aw a b); rw [h] at this; simp at this; omega
    by_cases h0 : rw = 0
    · subst h0; simp [Leaf.not1]
    · have e : Lib.orN rw (Lib.bitsLSBF aw (Lib.xor2 aw bw aw a b)) = Lib.orBits aw rw (Lib.xor2 aw bw aw a b) := rfl
      rw [e, orBits_spec aw rw _ haw (by omega) hx]
      unfold LSpec.orBits
      congr 2
      rw [Bool.eq_iff_iff]
      simp only [decide_eq_true_eq, ne_eq]
      rw [hz]

/-- FULL STATEMENT (false): `∀ rw ≥ 1, Lib.equal aw bw rw a b = b2n (a = b)` — "r is active exactly when a == b".
    With a result wire wider than 1 bit the final Not / Nor sets the upper bits: UNEQUAL operands give `2^rw − 2 ≠ 0`,
    i.e. `r` is active (non-zero) for every input.  `equal_spec` is the `_partial` form (hypothesis `rw = 1`). -/
theorem equal_wide_counterexample :
    Lib.equal 2 2 2 1 2 = 2 ∧ LSpec.equal 1 2 = 0 ∧ Lib.equal 1 1 3 0 1 = 6 ∧ Lib.notEqualConstant 2 3 2 2 = 6 ∧
    Lib.equalConstant 1 2 1 0 = 2 ∧ LSpec.equalConstant 1 0 = 0 := by decide

/-- Comparator(a, b, gt, eq, lt) with `gt` / `eq` result wires of ANY width (`eq` at least 1 bit: `notEQ` reads its bit 0),
    every operand width incl. 0 -/
theorem comparator_wide (w gw ew a b : Nat) (hew : 1 ≤ ew) (ha : a < 2 ^ w) (hb : b < 2 ^ w) :
    Lib.comparator w gw ew a b = LSpec.comparatorW w gw ew a b := by
  obtain ⟨h1, h2⟩ := cmp_parts w a b ha hb
  have hs := sub_val w a b ha hb
  have hp : 2 ^ (w + 1) = 2 * 2 ^ w := by rw [Nat.pow_succ]; omega
  have hlt : Leaf.sub (w + 1) a b < 2 ^ (w + 1) := by rw [hs]; split <;> omega
  have h2e : 2 ^ ew = 2 * 2 ^ (ew - 1) := by
    obtain ⟨k, rfl⟩ : ∃ k, ew = k + 1 := ⟨ew - 1, by omega⟩
    rw [Nat.pow_succ]; simp; omega
  have hpos := Nat.two_pow_pos (ew - 1)
  have heq : Lib.equalConstant (w + 1) ew (Leaf.sub (w + 1) a b) 0
      = if w = 0 then 2 ^ ew - 1 else b2n (decide (a = b)) % 2 ^ ew := by
    rw [equalConstant_wide (w + 1) ew _ 0 (by omega) hlt]
    unfold LSpec.equalConstantW
    by_cases hw : w = 0
    · subst hw
      have ha0 : a = 0 := by simpa using ha
      have hb0 : b = 0 := by simpa using hb
      subst ha0; subst hb0
      simp only [if_true, and_self]
      rw [← not_spec]
      have : Leaf.sub (0 + 1) 0 0 = 0 := by decide
      rw [this]
      simp [Leaf.not1]
    · rw [if_neg (fun h => hw (by have := h.1; omega))]
      simp only [hw, if_false]
      rw [← equalConstant_wrap (w + 1) _ 0 (by omega) hlt, h2]
  -- notEQ only reads bit 0 of `eq`
  have hne : Leaf.not1 1 (Lib.equalConstant (w + 1) ew (Leaf.sub (w + 1) a b) 0) = b2n (!decide (a = b)) := by
    rw [heq]
    by_cases hw : w = 0
    · subst hw
      have ha0 : a = 0 := by simpa using ha
      have hb0 : b = 0 := by simpa using hb
      subst ha0; subst hb0
      simp only [if_true]
      unfold Leaf.not1
      have : (2 ^ ew - 1) % 2 ^ 1 = 1 := by simp only [Nat.pow_one]; omega
      rw [this]; simp [b2n]
    · simp only [hw, if_false]
      rw [Nat.mod_eq_of_lt (by have := b2n_lt (decide (a = b)); omega), not1_bool]
  unfold Lib.comparator LSpec.comparatorW
  simp only [h1]
  refine Prod.ext ?_ (Prod.ext ?_ rfl)
  · simp only
    rw [hne, not1_bool]
    unfold Leaf.and2
    congr 1
    have : ∀ x y : Bool, b2n x &&& b2n y = b2n (x && y) := by intro x y; cases x <;> cases y <;> decide
    rw [this]
    congr 1
    rw [Bool.eq_iff_iff]; simp only [Bool.and_eq_true, Bool.not_eq_true', decide_eq_false_iff_not, decide_eq_true_eq]
    omega
  · simp only
    exact heq

end C08
