import Py4hwV.Emit.Cache
/-
  C19 — proof infrastructure: a relational ("two runs") logic for the state monad `Emit.M`.

  `Coh d c`     the module-level cache is coherent: whatever object it names, its map is the freshly computed one.
  `Sim d m₁ m₂` for runs from ANY two coherent states: same result (value or exception), coherence is kept, and both
                runs append the same names to `created` (they never read it).
  `SimC d m₁ m₂` the same for computations that READ `created`: the two states must agree on `created`.
-/
namespace C19
open Emit

def Coh (d : Design) (c : Cache) : Prop := ∀ o, c.obj = some o → computeWireNames d o = .ok c.map

theorem coh_clear (d : Design) : Coh d {} := by intro o h; cases h

def Sim (d : Design) {α : Type} (m₁ m₂ : M α) : Prop :=
  ∀ s₁ s₂, Coh d s₁.cache → Coh d s₂.cache →
    (m₁ s₁).1 = (m₂ s₂).1 ∧ Coh d (m₁ s₁).2.cache ∧ Coh d (m₂ s₂).2.cache ∧
    ∃ δ, (m₁ s₁).2.created = s₁.created ++ δ ∧ (m₂ s₂).2.created = s₂.created ++ δ

def SimC (d : Design) {α : Type} (m₁ m₂ : M α) : Prop :=
  ∀ s₁ s₂, Coh d s₁.cache → Coh d s₂.cache → s₁.created = s₂.created →
    (m₁ s₁).1 = (m₂ s₂).1 ∧ Coh d (m₁ s₁).2.cache ∧ Coh d (m₂ s₂).2.cache ∧ (m₁ s₁).2.created = (m₂ s₂).2.created

variable {d : Design} {α β : Type}

theorem Sim.toC {m₁ m₂ : M α} (h : Sim d m₁ m₂) : SimC d m₁ m₂ := by
  intro s₁ s₂ c₁ c₂ hc
  obtain ⟨e, k₁, k₂, δ, a, b⟩ := h s₁ s₂ c₁ c₂
  exact ⟨e, k₁, k₂, by rw [a, b, hc]⟩

theorem bind_def (m : M α) (f : α → M β) (s : S) :
    (m >>= f) s = match m s with | (.ok a, s') => f a s' | (.error e, s') => (.error e, s') := rfl

theorem pure_def (a : α) (s : S) : (pure a : M α) s = (.ok a, s) := rfl

theorem Sim.pure (a : α) : Sim d (pure a : M α) (pure a) := by
  intro s₁ s₂ c₁ c₂; exact ⟨rfl, c₁, c₂, [], by simp [pure_def], by simp [pure_def]⟩

theorem Sim.throw (e : Err) : Sim d (throwM e : M α) (throwM e) := by
  intro s₁ s₂ c₁ c₂; exact ⟨rfl, c₁, c₂, [], by simp [throwM], by simp [throwM]⟩

theorem Sim.liftE (x : Except Err α) : Sim d (liftE x) (liftE x) := by
  intro s₁ s₂ c₁ c₂; exact ⟨rfl, c₁, c₂, [], by simp [Emit.liftE], by simp [Emit.liftE]⟩

theorem Sim.appendCreated (n : String) : Sim d (appendCreated n) (appendCreated n) := by
  intro s₁ s₂ c₁ c₂; exact ⟨rfl, c₁, c₂, [n], rfl, rfl⟩

theorem Sim.bind {m₁ m₂ : M α} {f₁ f₂ : α → M β} (hm : Sim d m₁ m₂) (hf : ∀ a, Sim d (f₁ a) (f₂ a)) :
    Sim d (m₁ >>= f₁) (m₂ >>= f₂) := by
  intro s₁ s₂ c₁ c₂
  have h := hm s₁ s₂ c₁ c₂
  rw [bind_def, bind_def]
  generalize m₁ s₁ = p₁ at h ⊢
  generalize m₂ s₂ = p₂ at h ⊢
  obtain ⟨r₁, t₁⟩ := p₁
  obtain ⟨r₂, t₂⟩ := p₂
  obtain ⟨e, k₁, k₂, δ, a, b⟩ := h
  simp only at e a b k₁ k₂
  subst e
  cases r₁ with
  | error er => exact ⟨rfl, k₁, k₂, δ, a, b⟩
  | ok v =>
    obtain ⟨e', j₁, j₂, δ', a', b'⟩ := hf v t₁ t₂ k₁ k₂
    refine ⟨e', j₁, j₂, δ ++ δ', ?_, ?_⟩
    · simp only at a' ⊢; rw [a', a, List.append_assoc]
    · simp only at b' ⊢; rw [b', b, List.append_assoc]

theorem SimC.bind {m₁ m₂ : M α} {f₁ f₂ : α → M β} (hm : SimC d m₁ m₂) (hf : ∀ a, SimC d (f₁ a) (f₂ a)) :
    SimC d (m₁ >>= f₁) (m₂ >>= f₂) := by
  intro s₁ s₂ c₁ c₂ hc
  have h := hm s₁ s₂ c₁ c₂ hc
  rw [bind_def, bind_def]
  generalize m₁ s₁ = p₁ at h ⊢
  generalize m₂ s₂ = p₂ at h ⊢
  obtain ⟨r₁, t₁⟩ := p₁
  obtain ⟨r₂, t₂⟩ := p₂
  obtain ⟨e, k₁, k₂, a⟩ := h
  simp only at e a k₁ k₂
  subst e
  cases r₁ with
  | error er => exact ⟨rfl, k₁, k₂, a⟩
  | ok v => exact hf v t₁ t₂ k₁ k₂ a

theorem Sim.mapMM {γ : Type} {f₁ f₂ : γ → M β} (hf : ∀ a, Sim d (f₁ a) (f₂ a)) (l : List γ) :
    Sim d (mapMM f₁ l) (mapMM f₂ l) := by
  induction l with
  | nil => exact Sim.pure _
  | cons a t ih =>
    unfold Emit.mapMM
    exact Sim.bind (hf a) fun b => Sim.bind ih fun r => Sim.pure _

theorem SimC.mapMM {γ : Type} {f₁ f₂ : γ → M β} (hf : ∀ a, SimC d (f₁ a) (f₂ a)) (l : List γ) :
    SimC d (mapMM f₁ l) (mapMM f₂ l) := by
  induction l with
  | nil => exact (Sim.pure _).toC
  | cons a t ih =>
    unfold Emit.mapMM
    exact SimC.bind (hf a) fun b => SimC.bind ih fun r => (Sim.pure _).toC

theorem SimC.isCreated (n : String) : SimC d (isCreated n) (isCreated n) := by
  intro s₁ s₂ c₁ c₂ hc
  exact ⟨by simp [Emit.isCreated, hc], c₁, c₂, hc⟩

end C19
