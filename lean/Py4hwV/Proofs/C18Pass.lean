import Py4hwV.Schem.Pass
/-
  C18 — what one step of insertPassthrough / insertFeedback does, in closed form, for every state and every input:
  which nets it creates (a chain from the old source pin to the old sink pin through fresh markers, column by column),
  which cells it writes (only cells of one fresh row), and what it leaves alone (every other row, every other net).
-/
namespace Schem.Pass

/-- S → m₁ → … → m_k → T, all on wire w; only the first link keeps the source port, only the last the sink port -/
def chain (w : Nat) : Nat → Option Nat → List Nat → Nat → Option Nat → List PNet
  | S, sp, [], T, tp => [{ wire := w, src := S, sp := sp, snk := T, tp := tp }]
  | S, sp, m :: ms, T, tp => { wire := w, src := S, sp := sp, snk := m, tp := none } :: chain w m none ms T tp

theorem range_succ_map_add (n a : Nat) : (List.range (n + 1)).map (· + a) = a :: (List.range n).map (· + (a + 1)) := by
  rw [List.range_succ_eq_map]
  simp only [List.map_cons, List.map_map, Nat.zero_add]
  congr 1
  apply List.map_congr_left
  intro x _
  simp only [Function.comp]
  omega

theorem setCell_other (m : Mat) (r c k r' : Nat) (h : r' ≠ r) : (setCell m r c k)[r']? = m[r']? := by
  unfold setCell
  rw [List.getElem?_modify]
  have : ¬ r = r' := fun e => h e.symm
  cases m[r']? <;> simp [this]

theorem setCell_length (m : Mat) (r c k : Nat) : (setCell m r c k).length = m.length := by
  unfold setCell; exact List.length_modify _ _ _

/-- the row that is written: only column c changes -/
theorem setCell_row (m : Mat) (r c k : Nat) (row : List (Option Nat)) (h : m[r]? = some row) :
    (setCell m r c k)[r]? = some (row.set c (some k)) := by
  unfold setCell
  rw [List.getElem?_modify]
  simp [h]

theorem nobjs_eq (a : PS) (x : Nat) (y : List MK) (h1 : a.nb = x) (h2 : a.marks = y) : a.nobjs = x + y.length := by
  simp [PS.nobjs, h1, h2]

theorem nobjs_push (st : PS) (k : MK) (mat : Mat) (nets : List PNet) :
    PS.nobjs { nb := st.nb, marks := st.marks ++ [k], mat := mat, nets := nets } = st.nobjs + 1 := by
  simp [PS.nobjs, Nat.add_assoc]

/- ---------------------------------------------------------------- insertPassthrough -/
theorem passChain_spec (w r T : Nat) (tp : Option Nat) : ∀ (cols : List Nat) (st : PS) (last : Nat) (lp : Option Nat),
    (passChain w r cols st last lp).1.nets ++
        [{ wire := w, src := (passChain w r cols st last lp).2, sp := if cols = [] then lp else none, snk := T, tp := tp }]
      = st.nets ++ chain w last lp ((List.range cols.length).map (· + st.nobjs)) T tp ∧
    (passChain w r cols st last lp).1.marks = st.marks ++ List.replicate cols.length MK.pass ∧
    (passChain w r cols st last lp).1.nb = st.nb ∧
    (passChain w r cols st last lp).1.mat.length = st.mat.length ∧
    (∀ r', r' ≠ r → (passChain w r cols st last lp).1.mat[r']? = st.mat[r']?) := by
  intro cols
  induction cols with
  | nil =>
    intro st last lp
    simp [passChain, chain]
  | cons col cols ih =>
    intro st last lp
    simp only [passChain]
    obtain ⟨h1, h2, h3, h4, h5⟩ := ih
      { st with marks := st.marks ++ [MK.pass], mat := setCell st.mat r col st.nobjs,
                nets := st.nets ++ [{ wire := w, src := last, sp := lp, snk := st.nobjs, tp := none }] } st.nobjs none
    refine ⟨?_, ?_, h3, ?_, ?_⟩
    · have e : (if cols = [] then (none : Option Nat) else none) = none := by split <;> rfl
      rw [e] at h1
      simp only [List.cons_ne_nil, if_false]
      rw [h1]
      simp only [List.length_cons, range_succ_map_add, chain, List.append_assoc, List.singleton_append]
      congr 3
      simp [PS.nobjs, Nat.add_assoc]
    · rw [h2]
      simp [List.replicate_succ, List.append_assoc]
    · rw [h4]; exact setCell_length _ _ _ _
    · intro r' hr'
      rw [h5 r' hr']
      exact setCell_other _ _ _ _ _ hr'

/-- the unique net found by the code is in the list, is the only one for (w, S, T), and the rest is the list without it -/
theorem takeNet_ok (nets : List PNet) (w S T : Nat) (n : PNet) (rest : List PNet) (h : takeNet nets w S T = .ok (n, rest)) :
    n ∈ nets ∧ n.wire = w ∧ n.src = S ∧ n.snk = T ∧ rest = nets.erase n ∧
    ∀ m ∈ nets, m.wire = w → m.src = S → m.snk = T → m = n := by
  unfold takeNet at h
  split at h
  · cases h
  · rename_i n' hf
    simp only [Except.ok.injEq, Prod.mk.injEq] at h
    obtain ⟨rfl, rfl⟩ := h
    have hm : n' ∈ nets.filter (fun n => n.wire == w && n.src == S && n.snk == T) := by rw [hf]; simp
    have := List.mem_filter.1 hm
    simp only [Bool.and_eq_true, beq_iff_eq] at this
    refine ⟨this.1, this.2.1.1, this.2.1.2, this.2.2, rfl, ?_⟩
    intro m hm1 h1 h2 h3
    have : m ∈ nets.filter (fun n => n.wire == w && n.src == S && n.snk == T) :=
      List.mem_filter.2 ⟨hm1, by simp [h1, h2, h3]⟩
    rw [hf] at this
    simpa using this
  · cases h

/-- insertPassthrough for one wire, in closed form: the net (w, S, T) is replaced by the chain
    S → m₁ → … → m_k → T over k = tc − sc − 1 fresh pass-through markers (k ≥ 1), one per intermediate column, all written
    into ONE new row inserted at r+1; the source port stays on the first link, the sink port on the last; every other net
    and every other row is untouched. -/
theorem passWire_spec (S T sc tc : Nat) (st st' : PS) (r r' w : Nat) (hlt : sc + 1 < tc)
    (h : passWire S T sc tc (st, r) w = .ok (st', r')) :
    ∃ n, n ∈ st.nets ∧ n.wire = w ∧ n.src = S ∧ n.snk = T ∧
      st'.nets = st.nets.erase n ++ chain w S n.sp ((List.range (tc - sc - 1)).map (· + st.nobjs)) T n.tp ∧
      st'.marks = st.marks ++ List.replicate (tc - sc - 1) MK.pass ∧ st'.nb = st.nb ∧ r' = r + 1 ∧
      st'.mat.length = st.mat.length + 1 ∧
      (∀ i, i ≠ r + 1 → st'.mat[i]? = (insertRow st.mat (r + 1))[i]?) := by
  unfold passWire at h
  cases ht : takeNet st.nets w S T with
  | error e => simp [ht, bind, Except.bind] at h
  | ok p =>
    obtain ⟨n, rest⟩ := p
    obtain ⟨hn1, hn2, hn3, hn4, hrest, _⟩ := takeNet_ok st.nets w S T n rest ht
    simp only [ht, bind, Except.bind, Except.ok.injEq, Prod.mk.injEq] at h
    obtain ⟨h1, h2⟩ := h
    have hcols : ((List.range (tc - sc - 1)).map (· + sc + 1)) ≠ [] := by
      have : 0 < tc - sc - 1 := by omega
      intro e
      have := congrArg List.length e
      simp at this
      omega
    obtain ⟨c1, c2, c3, c4, c5⟩ := passChain_spec w (r + 1) T n.tp ((List.range (tc - sc - 1)).map (· + sc + 1))
      { st with nets := rest, mat := insertRow st.mat (r + 1) } S n.sp
    simp only [hcols, if_false] at c1
    refine ⟨n, hn1, hn2, hn3, hn4, ?_, ?_, ?_, h2.symm, ?_, ?_⟩
    · rw [← h1]
      simp only
      rw [c1, hrest]
      simp [PS.nobjs]
    · rw [← h1]; simp only; rw [c2]; simp
    · rw [← h1]; simp only; rw [c3]
    · rw [← h1]; simp only; rw [c4]
      simp only [insertRow, List.length_append, List.length_take, List.length_cons, List.length_nil, List.length_drop]
      omega
    · intro i hi
      rw [← h1]
      simp only
      exact c5 i hi

/- ---------------------------------------------------------------- insertFeedback -/
/-- the pass-through links of a feedback chain: each new marker is the SOURCE of the net to the previous one -/
def backLinks (w : Nat) : Nat → List Nat → List PNet
  | _, [] => []
  | last, m :: ms => { wire := w, src := m, sp := none, snk := last, tp := none } :: backLinks w m ms

theorem feedChain_spec (w r : Nat) : ∀ (cols : List Nat) (st : PS) (last : Nat),
    (feedChain w r cols st last).1.nets = st.nets ++ backLinks w last ((List.range cols.length).map (· + st.nobjs)) ∧
    (feedChain w r cols st last).2 = (((List.range cols.length).map (· + st.nobjs)).getLast?).getD last ∧
    (feedChain w r cols st last).1.marks = st.marks ++ List.replicate cols.length MK.pass ∧
    (feedChain w r cols st last).1.nb = st.nb ∧
    (feedChain w r cols st last).1.mat.length = st.mat.length ∧
    (∀ r', r' ≠ r → (feedChain w r cols st last).1.mat[r']? = st.mat[r']?) := by
  intro cols
  induction cols with
  | nil => intro st last; simp [feedChain, backLinks]
  | cons col cols ih =>
    intro st last
    simp only [feedChain]
    obtain ⟨h1, h2, h3, h4, h5, h6⟩ := ih
      { st with marks := st.marks ++ [MK.pass], mat := setCell st.mat r col st.nobjs,
                nets := st.nets ++ [{ wire := w, src := st.nobjs, sp := none, snk := last, tp := none }] } st.nobjs
    have hn := nobjs_push st MK.pass (setCell st.mat r col st.nobjs) (st.nets ++ [{ wire := w, src := st.nobjs, sp := none, snk := last, tp := none }])
    refine ⟨?_, ?_, ?_, h4, ?_, ?_⟩
    · rw [h1, hn]
      simp only [List.length_cons, range_succ_map_add, backLinks, List.append_assoc, List.singleton_append]
    · rw [h2, hn]
      simp only [List.length_cons, range_succ_map_add]
      cases hc : (List.range cols.length).map (· + (st.nobjs + 1)) with
      | nil => simp
      | cons a l =>
        cases hg : (a :: l).getLast? with
        | none => simp [List.getLast?_eq_none_iff] at hg
        | some v => simp [List.getLast?_cons_cons, hg]
    · rw [h3]; simp [List.replicate_succ, List.append_assoc]
    · rw [h5]; exact setCell_length _ _ _ _
    · intro r' hr'
      rw [h6 r' hr']
      exact setCell_other _ _ _ _ _ hr'

/-- insertFeedback for one wire, in closed form: the net (w, S, T) is replaced by
      S → A,   p₁ → A,  p₂ → p₁, …, p_k → p_{k-1},   Z → p_k,   Z → T
    (A the feedback-start marker, p_i the k = sc − tc + 1 pass-throughs, Z the feedback-stop marker), all markers fresh and all
    written into ONE new row appended at the bottom; the source port stays on S → A, the sink port on Z → T; every other net
    and every other row is untouched (rows are only widened).  The step needs tc > 0. -/
theorem feedWire_spec (S T sc tc : Nat) (st st' : PS) (w : Nat) (h : feedWire S T sc tc st w = .ok st') :
    0 < tc ∧ ∃ n, n ∈ st.nets ∧ n.wire = w ∧ n.src = S ∧ n.snk = T ∧
      st'.nets = st.nets.erase n ++ [{ wire := w, src := S, sp := n.sp, snk := st.nobjs, tp := none }] ++
        backLinks w st.nobjs ((List.range (sc + 1 - tc)).map (· + (st.nobjs + 1))) ++
        [{ wire := w, src := st.nobjs + 1 + (sc + 1 - tc), sp := none,
           snk := (((List.range (sc + 1 - tc)).map (· + (st.nobjs + 1))).getLast?).getD st.nobjs, tp := none },
         { wire := w, src := st.nobjs + 1 + (sc + 1 - tc), sp := none, snk := T, tp := n.tp }] ∧
      st'.marks = st.marks ++ [MK.fbStart] ++ List.replicate (sc + 1 - tc) MK.pass ++ [MK.fbStop] ∧ st'.nb = st.nb ∧
      st'.mat.length = max (st.mat.length + 1) st.mat.length ∧
      (∀ i, i ≠ st.mat.length → st'.mat[i]? = (expand st.mat (st.mat.length + 1) (sc + 2))[i]?) := by
  unfold feedWire at h
  cases ht : takeNet st.nets w S T with
  | error e => simp [ht, bind, Except.bind] at h
  | ok p =>
    obtain ⟨n, rest⟩ := p
    obtain ⟨hn1, hn2, hn3, hn4, hrest, _⟩ := takeNet_ok st.nets w S T n rest ht
    simp only [ht, bind, Except.bind] at h
    by_cases htc : tc = 0
    · simp [htc] at h
    · simp only [htc, if_false, Except.ok.injEq] at h
      refine ⟨by omega, n, hn1, hn2, hn3, hn4, ?_⟩
      obtain ⟨c1, c2, c3, c4, c5, c6⟩ := feedChain_spec w st.mat.length ((List.range (sc + 1 - tc)).map (sc - ·))
        { st with nets := rest ++ [{ wire := w, src := S, sp := n.sp, snk := st.nobjs, tp := none }],
                  marks := st.marks ++ [MK.fbStart],
                  mat := setCell (expand st.mat (st.mat.length + 1) (sc + 2)) st.mat.length (sc + 1) st.nobjs } st.nobjs
      have hn := nobjs_push st MK.fbStart (setCell (expand st.mat (st.mat.length + 1) (sc + 2)) st.mat.length (sc + 1) st.nobjs) (rest ++ [{ wire := w, src := S, sp := n.sp, snk := st.nobjs, tp := none }])
      simp only [List.length_map, List.length_range, hn] at c1 c2 c3
      have hz : (feedChain w st.mat.length ((List.range (sc + 1 - tc)).map (sc - ·))
        { st with nets := rest ++ [{ wire := w, src := S, sp := n.sp, snk := st.nobjs, tp := none }],
                  marks := st.marks ++ [MK.fbStart],
                  mat := setCell (expand st.mat (st.mat.length + 1) (sc + 2)) st.mat.length (sc + 1) st.nobjs } st.nobjs).1.nobjs
            = st.nobjs + 1 + (sc + 1 - tc) := by
        rw [nobjs_eq _ _ _ c4 c3]
        simp only [PS.nobjs, List.length_append, List.length_replicate, List.length_cons, List.length_nil]
        omega
      have hexp : (expand st.mat (st.mat.length + 1) (sc + 2)).length = max (st.mat.length + 1) st.mat.length := by
        simp only [expand, List.length_append, List.length_map, List.length_replicate]
        omega
      refine ⟨?_, ?_, ?_, ?_, ?_⟩
      · rw [← h]; simp only
        rw [c1, c2, hz, hrest]
        try simp [List.append_assoc]
      · rw [← h]; simp only; rw [c3]
      · rw [← h]; simp only; rw [c4]
      · rw [← h]; simp only
        rw [setCell_length, c5, setCell_length, hexp]
      · intro i hi
        rw [← h]; simp only
        rw [setCell_other _ _ _ _ _ hi, c6 i hi, setCell_other _ _ _ _ _ hi]


/- ---------------------------------------------------------------- connectivity is preserved -/
/-- some net of wire w joins a and b -/
def Touch (nets : List PNet) (w a b : Nat) : Prop :=
  ∃ n ∈ nets, n.wire = w ∧ ((n.src = a ∧ n.snk = b) ∨ (n.src = b ∧ n.snk = a))

/-- a and b are joined by nets of wire w through objects numbered ≥ lo only (the markers a step has just created) -/
inductive Via (nets : List PNet) (w lo : Nat) : Nat → Nat → Prop
  | edge {a b : Nat} : Touch nets w a b → Via nets w lo a b
  | trans {a m b : Nat} : Via nets w lo a m → lo ≤ m → Via nets w lo m b → Via nets w lo a b

theorem Via.mono {nets nets' : List PNet} {w lo a b : Nat} (hs : ∀ n ∈ nets, n ∈ nets') (h : Via nets w lo a b) :
    Via nets' w lo a b := by
  induction h with
  | edge ht =>
    obtain ⟨n, hn, h1, h2⟩ := ht
    exact Via.edge ⟨n, hs n hn, h1, h2⟩
  | trans _ hm _ ih1 ih2 => exact Via.trans ih1 hm ih2

theorem chain_via (w lo : Nat) : ∀ (ms : List Nat) (S : Nat) (sp : Option Nat) (T : Nat) (tp : Option Nat),
    (∀ m ∈ ms, lo ≤ m) → Via (chain w S sp ms T tp) w lo S T := by
  intro ms
  induction ms with
  | nil =>
    intro S sp T tp _
    exact Via.edge ⟨(⟨w, S, sp, T, tp⟩ : PNet), by simp [chain], rfl, Or.inl ⟨rfl, rfl⟩⟩
  | cons m ms ih =>
    intro S sp T tp h
    simp only [chain]
    refine Via.trans (Via.edge ⟨(⟨w, S, sp, m, none⟩ : PNet), by simp, rfl, Or.inl ⟨rfl, rfl⟩⟩) (h m (by simp)) ?_
    exact Via.mono (fun n hn => List.mem_cons_of_mem _ hn) (ih m none T tp (fun x hx => h x (List.mem_cons_of_mem _ hx)))

/-- the first link of a chain leaves S with the old source port, the last one enters T with the old sink port -/
theorem chain_ends (w : Nat) : ∀ (ms : List Nat) (S : Nat) (sp : Option Nat) (T : Nat) (tp : Option Nat),
    (∃ n ∈ chain w S sp ms T tp, n.src = S ∧ n.sp = sp ∧ n.wire = w) ∧ (∃ n ∈ chain w S sp ms T tp, n.snk = T ∧ n.tp = tp ∧ n.wire = w) := by
  intro ms
  induction ms with
  | nil => intro S sp T tp; simp [chain]
  | cons m ms ih =>
    intro S sp T tp
    simp only [chain]
    refine ⟨⟨(⟨w, S, sp, m, none⟩ : PNet), by simp, rfl, rfl, rfl⟩, ?_⟩
    obtain ⟨n, hn, h1⟩ := (ih m none T tp).2
    exact ⟨n, List.mem_cons_of_mem _ hn, h1⟩

theorem backLinks_via (w lo : Nat) : ∀ (ms : List Nat) (last : Nat), (∀ m ∈ ms, lo ≤ m) → ms ≠ [] →
    Via (backLinks w last ms) w lo last ((ms.getLast?).getD last) := by
  intro ms
  induction ms with
  | nil => intro last _ h; exact absurd rfl h
  | cons m ms ih =>
    intro last h _
    simp only [backLinks]
    cases ms with
    | nil =>
      simp only [backLinks, List.getLast?_singleton, Option.getD_some]
      exact Via.edge ⟨(⟨w, m, none, last, none⟩ : PNet), by simp, rfl, Or.inr ⟨rfl, rfl⟩⟩
    | cons m2 ms2 =>
      have hl : ((m :: m2 :: ms2).getLast?).getD last = ((m2 :: ms2).getLast?).getD m := by
        simp only [List.getLast?_cons_cons]
        cases hg : (m2 :: ms2).getLast? with
        | none => simp [List.getLast?_eq_none_iff] at hg
        | some v => rfl
      rw [hl]
      refine Via.trans (Via.edge ⟨(⟨w, m, none, last, none⟩ : PNet), by simp, rfl, Or.inr ⟨rfl, rfl⟩⟩) (h m (by simp)) ?_
      exact Via.mono (fun n hn => List.mem_cons_of_mem _ hn)
        (ih m (fun x hx => h x (List.mem_cons_of_mem _ hx)) (by simp))

/-- after insertPassthrough's step the old source and the old sink are still joined, through fresh markers only, by nets of
    the same wire, and the ports at both ends are the old ones -/
theorem passWire_connected (S T sc tc : Nat) (st st' : PS) (r r' w : Nat) (hlt : sc + 1 < tc)
    (h : passWire S T sc tc (st, r) w = .ok (st', r')) :
    ∃ n ∈ st.nets, n.wire = w ∧ n.src = S ∧ n.snk = T ∧ Via st'.nets w st.nobjs S T ∧
      (∃ a ∈ st'.nets, a.wire = w ∧ a.src = S ∧ a.sp = n.sp) ∧ (∃ b ∈ st'.nets, b.wire = w ∧ b.snk = T ∧ b.tp = n.tp) ∧
      (∀ x ∈ st.nets, x ≠ n → x ∈ st'.nets) := by
  obtain ⟨n, hn, h1, h2, h3, hnets, _⟩ := passWire_spec S T sc tc st st' r r' w hlt h
  refine ⟨n, hn, h1, h2, h3, ?_, ?_, ?_, ?_⟩
  · rw [hnets]
    apply Via.mono (fun x hx => List.mem_append_right _ hx)
    apply chain_via
    intro m hm
    obtain ⟨i, _, rfl⟩ := List.mem_map.1 hm
    omega
  · obtain ⟨a, ha, e1, e2, e3⟩ := (chain_ends w ((List.range (tc - sc - 1)).map (· + st.nobjs)) S n.sp T n.tp).1
    exact ⟨a, by rw [hnets]; exact List.mem_append_right _ ha, e3, e1, e2⟩
  · obtain ⟨b, hb, e1, e2, e3⟩ := (chain_ends w ((List.range (tc - sc - 1)).map (· + st.nobjs)) S n.sp T n.tp).2
    exact ⟨b, by rw [hnets]; exact List.mem_append_right _ hb, e3, e1, e2⟩
  · intro x hx hne
    rw [hnets]
    exact List.mem_append_left _ ((List.mem_erase_of_ne hne).2 hx)

/-- the same for insertFeedback's step -/
theorem feedWire_connected (S T sc tc : Nat) (st st' : PS) (w : Nat) (htc : tc ≤ sc)
    (h : feedWire S T sc tc st w = .ok st') :
    ∃ n ∈ st.nets, n.wire = w ∧ n.src = S ∧ n.snk = T ∧ Via st'.nets w st.nobjs S T ∧
      (∃ a ∈ st'.nets, a.wire = w ∧ a.src = S ∧ a.sp = n.sp) ∧ (∃ b ∈ st'.nets, b.wire = w ∧ b.snk = T ∧ b.tp = n.tp) ∧
      (∀ x ∈ st.nets, x ≠ n → x ∈ st'.nets) := by
  obtain ⟨_, n, hn, h1, h2, h3, hnets, _⟩ := feedWire_spec S T sc tc st st' w h
  refine ⟨n, hn, h1, h2, h3, ?_, ?_, ?_, ?_⟩
  · rw [hnets]
    have hne : ((List.range (sc + 1 - tc)).map (· + (st.nobjs + 1))) ≠ [] := by
      intro e
      have := congrArg List.length e
      simp at this
      omega
    have hge : ∀ m ∈ (List.range (sc + 1 - tc)).map (· + (st.nobjs + 1)), st.nobjs ≤ m := by
      intro m hm
      obtain ⟨i, _, rfl⟩ := List.mem_map.1 hm
      omega
    have hlast : st.nobjs ≤ (((List.range (sc + 1 - tc)).map (· + (st.nobjs + 1))).getLast?).getD st.nobjs := by
      cases hg : ((List.range (sc + 1 - tc)).map (· + (st.nobjs + 1))).getLast? with
      | none => simp
      | some v => simp only [Option.getD_some]; exact hge v (List.mem_of_getLast? hg)
    -- S — A — … — p_k — Z — T
    let Z := st.nobjs + 1 + (sc + 1 - tc)
    let P := (((List.range (sc + 1 - tc)).map (· + (st.nobjs + 1))).getLast?).getD st.nobjs
    refine Via.trans (Via.edge ⟨(⟨w, S, n.sp, st.nobjs, none⟩ : PNet), by simp, rfl, Or.inl ⟨rfl, rfl⟩⟩) (Nat.le_refl _) ?_
    refine Via.trans (Via.mono ?_ (backLinks_via w st.nobjs _ st.nobjs hge hne)) hlast ?_
    · intro x hx; simp [hx]
    refine Via.trans (Via.edge ⟨(⟨w, Z, none, P, none⟩ : PNet), by simp [Z, P], rfl, Or.inr ⟨rfl, rfl⟩⟩) (by omega : st.nobjs ≤ Z) ?_
    exact Via.edge ⟨(⟨w, Z, none, T, n.tp⟩ : PNet), by simp [Z], rfl, Or.inl ⟨rfl, rfl⟩⟩
  · exact ⟨(⟨w, S, n.sp, st.nobjs, none⟩ : PNet), by rw [hnets]; simp, rfl, rfl, rfl⟩
  · exact ⟨(⟨w, st.nobjs + 1 + (sc + 1 - tc), none, T, n.tp⟩ : PNet), by rw [hnets]; simp, rfl, rfl, rfl⟩
  · intro x hx hne
    rw [hnets]
    simp only [List.append_assoc, List.mem_append]
    exact Or.inl ((List.mem_erase_of_ne hne).2 hx)


/- ---------------------------------------------------------------- where the markers are written -/
def cellAt (m : Mat) (r c : Nat) : Option Nat := ((m[r]?).bind (·[c]?)).join

theorem cellAt_setCell_same (m : Mat) (r c k : Nat) (row : List (Option Nat)) (hr : m[r]? = some row) (hc : c < row.length) :
    cellAt (setCell m r c k) r c = some k := by
  unfold cellAt
  rw [setCell_row m r c k row hr]
  simp [List.getElem?_set, hc]

theorem cellAt_setCell_other (m : Mat) (r c k r' c' : Nat) (h : r' ≠ r ∨ c' ≠ c) :
    cellAt (setCell m r c k) r' c' = cellAt m r' c' := by
  unfold cellAt
  by_cases hr : r' = r
  · subst hr
    have hc : c' ≠ c := by
      rcases h with h | h
      · exact absurd rfl h
      · exact h
    cases hrow : m[r']? with
    | none =>
      have : (setCell m r' c k)[r']? = none := by
        unfold setCell; rw [List.getElem?_modify, hrow]; rfl
      rw [this]
    | some row =>
      rw [setCell_row m r' c k row hrow]
      have : ¬ c = c' := fun e => hc e.symm
      simp [List.getElem?_set, this]
  · rw [setCell_other m r c k r' hr]

/-- the state after one pass-through marker has been appended -/
abbrev pushPass (st : PS) (w r col last : Nat) (lp : Option Nat) : PS :=
  { st with marks := st.marks ++ [MK.pass], mat := setCell st.mat r col st.nobjs, nets := st.nets ++ [{ wire := w, src := last, sp := lp, snk := st.nobjs, tp := none }] }

theorem passChain_keep (w r : Nat) : ∀ (cols : List Nat) (st : PS) (last : Nat) (lp : Option Nat) (r' c' : Nat),
    (r' ≠ r ∨ c' ∉ cols) → cellAt (passChain w r cols st last lp).1.mat r' c' = cellAt st.mat r' c' := by
  intro cols
  induction cols with
  | nil => intro st last lp r' c' _; rfl
  | cons col cols ih =>
    intro st last lp r' c' h
    simp only [passChain]
    rw [ih]
    · simp only
      apply cellAt_setCell_other
      rcases h with h | h
      · exact Or.inl h
      · exact Or.inr (fun e => h (by simp [e]))
    · rcases h with h | h
      · exact Or.inl h
      · exact Or.inr (fun e => h (List.mem_cons_of_mem _ e))

theorem passChain_row (w r : Nat) : ∀ (cols : List Nat) (st : PS) (last : Nat) (lp : Option Nat) (row : List (Option Nat)),
    st.mat[r]? = some row → ∃ row', (passChain w r cols st last lp).1.mat[r]? = some row' ∧ row'.length = row.length := by
  intro cols
  induction cols with
  | nil => intro st last lp row h; exact ⟨row, h, rfl⟩
  | cons col cols ih =>
    intro st last lp row h
    simp only [passChain]
    obtain ⟨row', h1, h2⟩ := ih (pushPass st w r col last lp) st.nobjs none
      (row.set col (some st.nobjs)) (setCell_row st.mat r col st.nobjs row h)
    exact ⟨row', h1, by rw [h2, List.length_set]⟩

/-- the i-th marker of the chain sits in the chain's row, in the i-th column of the list -/
theorem passChain_cells (w r : Nat) : ∀ (cols : List Nat) (st : PS) (last : Nat) (lp : Option Nat) (row : List (Option Nat)),
    st.mat[r]? = some row → cols.Nodup → (∀ c ∈ cols, c < row.length) →
    ∀ i c, cols[i]? = some c → cellAt (passChain w r cols st last lp).1.mat r c = some (st.nobjs + i) := by
  intro cols
  induction cols with
  | nil => intro st last lp row _ _ _ i c h; simp at h
  | cons col cols ih =>
    intro st last lp row hrow hnd hlt i c hi
    simp only [passChain]
    have hnd' := List.nodup_cons.1 hnd
    cases i with
    | zero =>
      simp only [List.getElem?_cons_zero, Option.some.injEq] at hi
      subst hi
      rw [passChain_keep w r cols _ _ _ r col (Or.inr hnd'.1)]
      simp only [Nat.add_zero]
      exact cellAt_setCell_same st.mat r col st.nobjs row hrow (hlt col (by simp))
    | succ i =>
      simp only [List.getElem?_cons_succ] at hi
      have := ih (pushPass st w r col last lp) st.nobjs none
        (row.set col (some st.nobjs)) (setCell_row st.mat r col st.nobjs row hrow) hnd'.2
        (fun c' hc' => by rw [List.length_set]; exact hlt c' (List.mem_cons_of_mem _ hc')) i c hi
      rw [this]
      have e : (pushPass st w r col last lp).nobjs = st.nobjs + 1 := nobjs_push st MK.pass _ _
      rw [e]
      congr 1
      omega

theorem insertRow_new (m : Mat) (r : Nat) (h : r ≤ m.length) : (insertRow m r)[r]? = some (List.replicate (ncols m) none) := by
  unfold insertRow
  rw [List.append_assoc, List.getElem?_append_right (by simp [List.length_take]; omega)]
  simp [List.length_take, Nat.min_eq_left h]

/-- insertPassthrough for one wire: marker number i of the chain is placed in the new row r+1, in column sc+1+i —
    consecutive columns strictly between the source's and the sink's: every link of the chain spans exactly one column -/
theorem passWire_cells (S T sc tc : Nat) (st st' : PS) (r r' w : Nat) (hlt : sc + 1 < tc) (hr : r < st.mat.length)
    (hT : tc ≤ ncols st.mat) (h : passWire S T sc tc (st, r) w = .ok (st', r')) :
    ∀ i, i < tc - sc - 1 → cellAt st'.mat (r + 1) (sc + 1 + i) = some (st.nobjs + i) := by
  unfold passWire at h
  cases ht : takeNet st.nets w S T with
  | error e => simp [ht, bind, Except.bind] at h
  | ok p =>
    obtain ⟨n, rest⟩ := p
    simp only [ht, bind, Except.bind, Except.ok.injEq, Prod.mk.injEq] at h
    obtain ⟨h1, _⟩ := h
    intro i hi
    rw [← h1]
    simp only
    have hrow := insertRow_new st.mat (r + 1) (by omega)
    have hnd : ((List.range (tc - sc - 1)).map (· + sc + 1)).Nodup := by
      apply List.Pairwise.map _ _ List.nodup_range
      intro a b hab e
      exact hab (by omega)
    have := passChain_cells w (r + 1) ((List.range (tc - sc - 1)).map (· + sc + 1))
      { st with nets := rest, mat := insertRow st.mat (r + 1) } S n.sp _ hrow hnd
      (by
        intro c hc
        obtain ⟨j, hj, rfl⟩ := List.mem_map.1 hc
        have := List.mem_range.1 hj
        simp only [List.length_replicate]
        omega)
      i (sc + 1 + i) (by simp [List.getElem?_map, List.getElem?_range hi]; omega)
    simpa [PS.nobjs] using this


/- ---------------------------------------------------------------- the whole of passthroughCreation -/
/-- a net with a marker at one end -/
def PNet.marked (nb : Nat) (x : PNet) : Prop := nb ≤ x.src ∨ nb ≤ x.snk

/-- the nets that touch a marker -/
def MNets (st : PS) : List PNet := st.nets.filter fun x => decide (st.nb ≤ x.src) || decide (st.nb ≤ x.snk)

theorem mem_MNets (st : PS) (x : PNet) : x ∈ MNets st ↔ x ∈ st.nets ∧ x.marked st.nb := by
  simp [MNets, PNet.marked, List.mem_filter]

/-- what any number of insertPassthrough / insertFeedback wire-steps does to the nets -/
structure Step (st st' : PS) : Prop where
  nb : st'.nb = st.nb
  grow : st.nobjs ≤ st'.nobjs
  /-- a net that touches a marker is never removed again -/
  keep : ∀ x ∈ st.nets, x.marked st.nb → x ∈ st'.nets
  /-- every net is an old one or touches a marker -/
  new : ∀ x ∈ st'.nets, x ∈ st.nets ∨ x.marked st.nb
  /-- an old net is still there, or its two ends — instance / port symbols — are still joined through markers only, by nets of the
      same wire, leaving the source by the same port and entering the sink by the same port -/
  conn : ∀ x ∈ st.nets, x ∈ st'.nets ∨
    (x.src < st.nb ∧ x.snk < st.nb ∧ Via (MNets st') x.wire st.nb x.src x.snk ∧
     (∃ a ∈ MNets st', a.wire = x.wire ∧ a.src = x.src ∧ a.sp = x.sp) ∧ (∃ b ∈ MNets st', b.wire = x.wire ∧ b.snk = x.snk ∧ b.tp = x.tp))

theorem Step.refl (st : PS) : Step st st :=
  ⟨rfl, Nat.le_refl _, fun _ h _ => h, fun _ h => Or.inl h, fun _ h => Or.inl h⟩

theorem MNets_mono {st st' : PS} (h : Step st st') : ∀ x ∈ MNets st, x ∈ MNets st' := by
  intro x hx
  obtain ⟨h1, h2⟩ := (mem_MNets st x).1 hx
  exact (mem_MNets st' x).2 ⟨h.keep x h1 h2, by rw [h.nb]; exact h2⟩

theorem Step.trans {a b c : PS} (h1 : Step a b) (h2 : Step b c) : Step a c := by
  refine ⟨by rw [h2.nb, h1.nb], Nat.le_trans h1.grow h2.grow, ?_, ?_, ?_⟩
  · intro x hx hm
    exact h2.keep x (h1.keep x hx hm) (by rw [h1.nb]; exact hm)
  · intro x hx
    rcases h2.new x hx with h | h
    · exact h1.new x h
    · exact Or.inr (by rw [← h1.nb]; exact h)
  · intro x hx
    rcases h1.conn x hx with h | ⟨e1, e2, hv, ha, hb⟩
    · rcases h2.conn x h with h' | ⟨e1, e2, hv, ha, hb⟩
      · exact Or.inl h'
      · exact Or.inr ⟨by rw [← h1.nb]; exact e1, by rw [← h1.nb]; exact e2, by rw [← h1.nb]; exact hv, ha, hb⟩
    · right
      refine ⟨e1, e2, ?_, ?_, ?_⟩
      · exact Via.mono (MNets_mono h2) hv
      · obtain ⟨a', ha', e⟩ := ha; exact ⟨a', MNets_mono h2 a' ha', e⟩
      · obtain ⟨b', hb', e⟩ := hb; exact ⟨b', MNets_mono h2 b' hb', e⟩

theorem chain_marked (w nb lo : Nat) (hlo : nb ≤ lo) : ∀ (ms : List Nat) (S : Nat) (sp : Option Nat) (T : Nat) (tp : Option Nat),
    ms ≠ [] → (∀ m ∈ ms, lo ≤ m) → ∀ x ∈ chain w S sp ms T tp, x.marked nb := by
  intro ms
  induction ms with
  | nil => intro S sp T tp h; exact absurd rfl h
  | cons m ms ih =>
    intro S sp T tp _ hge x hx
    have hm : nb ≤ m := Nat.le_trans hlo (hge m (by simp))
    simp only [chain, List.mem_cons] at hx
    rcases hx with rfl | hx
    · exact Or.inr hm
    · cases ms with
      | nil =>
        simp only [chain, List.mem_singleton] at hx
        subst hx
        exact Or.inl hm
      | cons m2 ms2 => exact ih m none T tp (by simp) (fun y hy => hge y (List.mem_cons_of_mem _ hy)) x hx

theorem backLinks_marked (w nb : Nat) : ∀ (ms : List Nat) (last : Nat), (∀ m ∈ ms, nb ≤ m) → ∀ x ∈ backLinks w last ms, x.marked nb := by
  intro ms
  induction ms with
  | nil => intro last _ x hx; simp [backLinks] at hx
  | cons m ms ih =>
    intro last hge x hx
    simp only [backLinks, List.mem_cons] at hx
    rcases hx with rfl | hx
    · exact Or.inl (hge m (by simp))
    · exact ih m (fun y hy => hge y (List.mem_cons_of_mem _ hy)) x hx

/-- one wire of insertPassthrough is a `Step` (for an instance / port source and sink) -/
theorem passWire_step (S T sc tc : Nat) (st st' : PS) (r r' w : Nat) (hlt : sc + 1 < tc) (hS : S < st.nb) (hT : T < st.nb)
    (h : passWire S T sc tc (st, r) w = .ok (st', r')) : Step st st' := by
  obtain ⟨n, hn, h1, h2, h3, hnets, hmarks, hnb, _⟩ := Schem.Pass.passWire_spec S T sc tc st st' r r' w hlt h
  have hne : ((List.range (tc - sc - 1)).map (· + st.nobjs)) ≠ [] := by
    intro e
    have := congrArg List.length e
    simp at this
    omega
  have hge : ∀ m ∈ (List.range (tc - sc - 1)).map (· + st.nobjs), st.nobjs ≤ m := by
    intro m hm
    obtain ⟨i, _, rfl⟩ := List.mem_map.1 hm
    omega
  have hmk := chain_marked w st.nb st.nobjs (by simp [PS.nobjs]) _ S n.sp T n.tp hne hge
  have hsub : ∀ x ∈ chain w S n.sp ((List.range (tc - sc - 1)).map (· + st.nobjs)) T n.tp, x ∈ MNets st' := by
    intro x hx
    exact (mem_MNets st' x).2 ⟨by rw [hnets]; exact List.mem_append_right _ hx, by rw [hnb]; exact hmk x hx⟩
  refine ⟨hnb, ?_, ?_, ?_, ?_⟩
  · simp only [PS.nobjs, hnb, hmarks, List.length_append]; omega
  · intro x hx hm
    have hxn : x ≠ n := by
      intro e
      subst e
      rcases hm with hm | hm <;> omega
    rw [hnets]
    exact List.mem_append_left _ ((List.mem_erase_of_ne hxn).2 hx)
  · intro x hx
    rw [hnets] at hx
    rcases List.mem_append.1 hx with hx | hx
    · exact Or.inl (List.mem_of_mem_erase hx)
    · exact Or.inr (hmk x hx)
  · intro x hx
    by_cases hxn : x = n
    · subst hxn
      right
      refine ⟨by omega, by omega, ?_, ?_, ?_⟩
      · rw [h1, h2, h3]
        exact Via.mono hsub (chain_via w st.nb _ S x.sp T x.tp (fun m hm => Nat.le_trans (by simp [PS.nobjs]) (hge m hm)))
      · obtain ⟨a, ha, e1, e2, e3⟩ := (chain_ends w ((List.range (tc - sc - 1)).map (· + st.nobjs)) S x.sp T x.tp).1
        exact ⟨a, hsub a ha, by rw [e3, h1], by rw [e1, h2], e2⟩
      · obtain ⟨b, hb, e1, e2, e3⟩ := (chain_ends w ((List.range (tc - sc - 1)).map (· + st.nobjs)) S x.sp T x.tp).2
        exact ⟨b, hsub b hb, by rw [e3, h1], by rw [e1, h3], e2⟩
    · left
      rw [hnets]
      exact List.mem_append_left _ ((List.mem_erase_of_ne hxn).2 hx)

/-- one wire of insertFeedback is a `Step` -/
theorem feedWire_step (S T sc tc : Nat) (st st' : PS) (w : Nat) (htc : tc ≤ sc) (hS : S < st.nb) (hT : T < st.nb)
    (h : feedWire S T sc tc st w = .ok st') : Step st st' := by
  obtain ⟨_, n, hn, h1, h2, h3, hnets, hmarks, hnb, _⟩ := Schem.Pass.feedWire_spec S T sc tc st st' w h
  obtain ⟨n', hn', g1, g2, g3, hvia, ha, hb, _⟩ := Schem.Pass.feedWire_connected S T sc tc st st' w htc h
  have hnbo : st.nb ≤ st.nobjs := by simp [PS.nobjs]
  have hge : ∀ m ∈ (List.range (sc + 1 - tc)).map (· + (st.nobjs + 1)), st.nb ≤ m := by
    intro m hm
    obtain ⟨i, _, rfl⟩ := List.mem_map.1 hm
    omega
  -- every net added touches a marker
  have hnewm : ∀ x ∈ st'.nets, x ∈ st.nets.erase n ∨ x.marked st.nb := by
    intro x hx
    rw [hnets] at hx
    simp only [List.append_assoc, List.mem_append, List.mem_cons, List.mem_singleton, List.not_mem_nil, or_false] at hx
    rcases hx with hx | rfl | hx | rfl | rfl
    · exact Or.inl hx
    · exact Or.inr (Or.inr hnbo)
    · exact Or.inr (backLinks_marked w st.nb _ _ hge x hx)
    · exact Or.inr (Or.inl (by simp only; omega))
    · exact Or.inr (Or.inl (by simp only; omega))
  refine ⟨hnb, ?_, ?_, ?_, ?_⟩
  · simp only [PS.nobjs, hnb, hmarks, List.length_append]; omega
  · intro x hx hm
    have hxn : x ≠ n := by
      intro e
      subst e
      rcases hm with hm | hm <;> omega
    rw [hnets]
    simp only [List.append_assoc, List.mem_append]
    exact Or.inl ((List.mem_erase_of_ne hxn).2 hx)
  · intro x hx
    rcases hnewm x hx with h' | h'
    · exact Or.inl (List.mem_of_mem_erase h')
    · exact Or.inr h'
  · intro x hx
    by_cases hxn : x = n
    · subst hxn
      right
      -- the joining nets all touch markers: re-derive the path inside MNets st'
      have hsubm : ∀ y ∈ st'.nets, y ∉ st.nets.erase x → y ∈ MNets st' := by
        intro y hy hne
        rcases hnewm y hy with h' | h'
        · exact absurd h' hne
        · exact (mem_MNets st' y).2 ⟨hy, by rw [hnb]; exact h'⟩
      refine ⟨by omega, by omega, ?_, ?_, ?_⟩
      · rw [h1, h2, h3]
        -- S — A — … — p_k — Z — T, all links are marker nets of st'
        have hne : ((List.range (sc + 1 - tc)).map (· + (st.nobjs + 1))) ≠ [] := by
          intro e
          have := congrArg List.length e
          simp at this
          omega
        have hge' : ∀ m ∈ (List.range (sc + 1 - tc)).map (· + (st.nobjs + 1)), st.nb ≤ m := hge
        have hlast : st.nb ≤ (((List.range (sc + 1 - tc)).map (· + (st.nobjs + 1))).getLast?).getD st.nobjs := by
          cases hg : ((List.range (sc + 1 - tc)).map (· + (st.nobjs + 1))).getLast? with
          | none => simpa using hnbo
          | some v => simp only [Option.getD_some]; exact hge v (List.mem_of_getLast? hg)
        have inM : ∀ y : PNet, y ∈ st'.nets → y.marked st.nb → y ∈ MNets st' :=
          fun y hy hm => (mem_MNets st' y).2 ⟨hy, by rw [hnb]; exact hm⟩
        let Z := st.nobjs + 1 + (sc + 1 - tc)
        let P := (((List.range (sc + 1 - tc)).map (· + (st.nobjs + 1))).getLast?).getD st.nobjs
        refine Via.trans (Via.edge ⟨(⟨w, S, x.sp, st.nobjs, none⟩ : PNet), inM _ (by rw [hnets]; simp) (Or.inr hnbo), rfl, Or.inl ⟨rfl, rfl⟩⟩) hnbo ?_
        refine Via.trans (Via.mono ?_ (backLinks_via w st.nb _ st.nobjs hge' hne)) hlast ?_
        · intro y hy
          exact inM y (by rw [hnets]; simp [hy]) (backLinks_marked w st.nb _ _ hge' y hy)
        refine Via.trans (Via.edge ⟨(⟨w, Z, none, P, none⟩ : PNet), inM _ (by rw [hnets]; simp [Z, P]) (Or.inl (by simp only [Z]; omega)), rfl, Or.inr ⟨rfl, rfl⟩⟩)
          (by simp only [Z]; omega : st.nb ≤ Z) ?_
        exact Via.edge ⟨(⟨w, Z, none, T, x.tp⟩ : PNet), inM _ (by rw [hnets]; simp [Z]) (Or.inl (by simp only [Z]; omega)), rfl, Or.inl ⟨rfl, rfl⟩⟩
      · exact ⟨(⟨w, S, x.sp, st.nobjs, none⟩ : PNet),
          (mem_MNets st' _).2 ⟨by rw [hnets]; simp, by rw [hnb]; exact Or.inr hnbo⟩, h1.symm, h2.symm, rfl⟩
      · exact ⟨(⟨w, st.nobjs + 1 + (sc + 1 - tc), none, T, x.tp⟩ : PNet),
          (mem_MNets st' _).2 ⟨by rw [hnets]; simp, by rw [hnb]; exact Or.inl (by simp only; omega)⟩, h1.symm, h3.symm, rfl⟩
    · left
      rw [hnets]
      simp only [List.append_assoc, List.mem_append]
      exact Or.inl ((List.mem_erase_of_ne hxn).2 hx)


theorem foldlM_pass_step (S T sc tc : Nat) (hlt : sc + 1 < tc) : ∀ (ws : List Nat) (st : PS) (r : Nat) (st' : PS) (r' : Nat),
    S < st.nb → T < st.nb → ws.foldlM (passWire S T sc tc) (st, r) = .ok (st', r') → Step st st' := by
  intro ws
  induction ws with
  | nil =>
    intro st r st' r' _ _ h
    simp only [List.foldlM_nil, pure, Except.pure, Except.ok.injEq, Prod.mk.injEq] at h
    rw [← h.1]; exact Step.refl st
  | cons w ws ih =>
    intro st r st' r' hS hT h
    simp only [List.foldlM_cons, bind, Except.bind] at h
    cases h1 : passWire S T sc tc (st, r) w with
    | error e => simp [h1] at h
    | ok p =>
      obtain ⟨st1, r1⟩ := p
      simp only [h1] at h
      have s1 := passWire_step S T sc tc st st1 r r1 w hlt hS hT h1
      exact Step.trans s1 (ih st1 r1 st' r' (by rw [s1.nb]; exact hS) (by rw [s1.nb]; exact hT) h)

theorem foldlM_feed_step (S T sc tc : Nat) (htc : tc ≤ sc) : ∀ (ws : List Nat) (st st' : PS),
    S < st.nb → T < st.nb → ws.foldlM (feedWire S T sc tc) st = .ok st' → Step st st' := by
  intro ws
  induction ws with
  | nil =>
    intro st st' _ _ h
    simp only [List.foldlM_nil, pure, Except.pure, Except.ok.injEq] at h
    rw [← h]; exact Step.refl st
  | cons w ws ih =>
    intro st st' hS hT h
    simp only [List.foldlM_cons, bind, Except.bind] at h
    cases h1 : feedWire S T sc tc st w with
    | error e => simp [h1] at h
    | ok st1 =>
      simp only [h1] at h
      have s1 := feedWire_step S T sc tc st st1 w htc hS hT h1
      exact Step.trans s1 (ih st1 st' (by rw [s1.nb]; exact hS) (by rw [s1.nb]; exact hT) h)

/-- one (S, T) pair of passthroughCreation is a `Step` -/
theorem pairJob_step (st st' : PS) (S T : Nat) (ws : List Nat) (hS : S < st.nb) (hT : T < st.nb)
    (h : pairJob st S T ws = .ok st') : Step st st' := by
  unfold pairJob at h
  cases hp : posOf st.mat S with
  | none => simp [hp] at h
  | some ps =>
    cases hq : posOf st.mat T with
    | none => simp [hp, hq] at h
    | some pt =>
      obtain ⟨rs, sc⟩ := ps
      obtain ⟨rt, tc⟩ := pt
      simp only [hp, hq] at h
      by_cases h1 : sc + 1 < tc
      · simp only [h1, if_true] at h
        cases hf : List.foldlM (passWire S T sc tc) (st, rs) ws with
        | error e => simp [hf, Except.map] at h
        | ok p =>
          obtain ⟨st2, r2⟩ := p
          simp only [hf, Except.map, Except.ok.injEq] at h
          subst h
          exact foldlM_pass_step S T sc tc h1 ws st rs st2 r2 hS hT hf
      · simp only [h1, if_false] at h
        by_cases h2 : tc ≤ sc
        · simp only [h2, if_true] at h
          exact foldlM_feed_step S T sc (if sc = tc then tc - 1 else tc) (by split <;> omega) ws st st' hS hT h
        · simp only [h2, if_false, Except.ok.injEq] at h
          rw [← h]; exact Step.refl st

theorem runJobs_step : ∀ (js : List (Nat × Nat × List Nat)) (st st' : PS),
    (∀ j ∈ js, j.1 < st.nb ∧ j.2.1 < st.nb) → runJobs js st = .ok st' → Step st st' := by
  intro js
  induction js with
  | nil =>
    intro st st' _ h
    simp only [runJobs, Except.ok.injEq] at h
    rw [← h]; exact Step.refl st
  | cons j js ih =>
    intro st st' hj h
    obtain ⟨S, T, ws⟩ := j
    simp only [runJobs, bind, Except.bind] at h
    cases h1 : pairJob st S T ws with
    | error e => simp [h1] at h
    | ok st1 =>
      simp only [h1] at h
      have hb := hj (S, T, ws) (by simp)
      have s1 := pairJob_step st st1 S T ws hb.1 hb.2 h1
      refine Step.trans s1 (ih st1 st' ?_ h)
      intro j' hj'
      rw [s1.nb]
      exact hj j' (List.mem_cons_of_mem _ hj')

/-- passthroughCreation preserves the circuit: when it runs through (none of the three exceptions), every net made by createNets
    is still there, or its source pin and its sink pin are joined by nets of the same wire that run through markers only, leaving
    the source by the same port and entering the sink by the same port; every other net touches a marker; nothing else exists. -/
theorem passthroughCreationOn_connected (d : Design) (m0 : Mat) (so : List (Nat × List Nat)) (wo : List ((Nat × Nat) × List Nat)) (st' : PS)
    (hb : jobsBase d m0 so wo = true) (h : passthroughCreationOn d m0 so wo = .ok st') :
    ∃ nets0, createNets d = .ok nets0 ∧ st'.nb = nB d ∧
      (∀ x ∈ st'.nets, x ∈ nets0 ∨ x.marked (nB d)) ∧
      (∀ x ∈ nets0, x ∈ st'.nets ∨
        (Via (MNets st') x.wire (nB d) x.src x.snk ∧
         (∃ a ∈ MNets st', a.wire = x.wire ∧ a.src = x.src ∧ a.sp = x.sp) ∧ (∃ b ∈ MNets st', b.wire = x.wire ∧ b.snk = x.snk ∧ b.tp = x.tp))) := by
  unfold passthroughCreationOn at h
  cases hc : createNets d with
  | error e => simp [hc, bind, Except.bind] at h
  | ok nets0 =>
    simp only [hc, bind, Except.bind] at h
    have hj : ∀ j ∈ jobs d m0 so wo, j.1 < nB d ∧ j.2.1 < nB d := by
      intro j hj
      have := List.all_eq_true.1 hb j hj
      simpa using this
    have s := runJobs_step _ _ st' hj h
    refine ⟨nets0, rfl, s.nb, ?_, ?_⟩
    · intro x hx
      exact s.new x hx
    · intro x hx
      rcases s.conn x hx with h' | ⟨_, _, hv, ha, hb'⟩
      · exact Or.inl h'
      · exact Or.inr ⟨hv, ha, hb'⟩


/- ---------------------------------------------------------------- every new net spans exactly one column -/
/-- object k sits in column c of the matrix -/
def InCol (m : Mat) (k c : Nat) : Prop := ∃ row ∈ m, row[c]? = some (some k)

/-- all rows have the width of the first one (numpy matrices are rectangular) -/
def Rect (m : Mat) : Prop := ∀ row ∈ m, row.length = ncols m

/-- net x runs from a column to the next one -/
def AdjIn (m : Mat) (x : PNet) : Prop := ∃ c, InCol m x.src c ∧ InCol m x.snk (c + 1)

theorem inCol_of_cellAt (m : Mat) (r c k : Nat) (h : cellAt m r c = some k) : InCol m k c := by
  unfold cellAt at h
  cases hr : m[r]? with
  | none => simp [hr] at h
  | some row =>
    refine ⟨row, List.mem_of_getElem? hr, ?_⟩
    simp only [hr, Option.bind_some] at h
    cases hc : row[c]? with
    | none => simp [hc] at h
    | some o => cases o <;> simp_all

theorem insertRow_get_lt (m : Mat) (p i : Nat) (hi : i < p) (hp : p ≤ m.length) : (insertRow m p)[i]? = m[i]? := by
  unfold insertRow
  rw [List.append_assoc, List.getElem?_append_left (by simp [List.length_take]; omega), List.getElem?_take]
  simp [hi]

theorem insertRow_get_ge (m : Mat) (p i : Nat) (hi : p ≤ i) (hp : p ≤ m.length) : (insertRow m p)[i + 1]? = m[i]? := by
  unfold insertRow
  rw [List.append_assoc, List.getElem?_append_right (by simp [List.length_take]; omega)]
  simp only [List.length_take, Nat.min_eq_left hp]
  rw [List.singleton_append]
  have : i + 1 - p = (i - p) + 1 := by omega
  rw [this, List.getElem?_cons_succ, List.getElem?_drop]
  congr 1
  omega

/-- insertPassthrough for one wire: nothing that was placed moves to another column, and every link of the new chain
    runs from a column to the next one -/
theorem passWire_adjacent (S T sc tc : Nat) (st st' : PS) (r r' w : Nat) (hlt : sc + 1 < tc) (hr : r < st.mat.length)
    (hrect : Rect st.mat) (hS : InCol st.mat S sc) (hT : InCol st.mat T tc)
    (h : passWire S T sc tc (st, r) w = .ok (st', r')) :
    (∀ k c, InCol st.mat k c → InCol st'.mat k c) ∧
    ∃ n ∈ st.nets, ∀ x ∈ chain w S n.sp ((List.range (tc - sc - 1)).map (· + st.nobjs)) T n.tp, AdjIn st'.mat x := by
  obtain ⟨n, hn, _, _, _, _, _, _, _, hlen, hrows⟩ := Schem.Pass.passWire_spec S T sc tc st st' r r' w hlt h
  have htc : tc ≤ ncols st.mat := by
    obtain ⟨row, hrow, hc⟩ := hT
    have := hrect row hrow
    rcases List.getElem?_eq_some_iff.1 hc with ⟨hl, _⟩
    omega
  have hcells := Schem.Pass.passWire_cells S T sc tc st st' r r' w hlt hr htc h
  have hkeep : ∀ k c, InCol st.mat k c → InCol st'.mat k c := by
    intro k c ⟨row, hrow, hc⟩
    obtain ⟨i, hi, hget⟩ := List.mem_iff_getElem.1 hrow
    have hgi : st.mat[i]? = some row := by rw [List.getElem?_eq_getElem hi, hget]
    by_cases hlt' : i < r + 1
    · have : st'.mat[i]? = some row := by
        rw [hrows i (by omega), insertRow_get_lt st.mat (r + 1) i hlt' (by omega), hgi]
      exact ⟨row, List.mem_of_getElem? this, hc⟩
    · have : st'.mat[i + 1]? = some row := by
        rw [hrows (i + 1) (by omega), insertRow_get_ge st.mat (r + 1) i (by omega) (by omega), hgi]
      exact ⟨row, List.mem_of_getElem? this, hc⟩
  refine ⟨hkeep, n, hn, ?_⟩
  -- columns of the chain's objects: S at sc, marker i at sc+1+i, T at tc
  have hmark : ∀ i, i < tc - sc - 1 → InCol st'.mat (st.nobjs + i) (sc + 1 + i) :=
    fun i hi => inCol_of_cellAt _ _ _ _ (hcells i hi)
  -- generic statement about a chain whose k-th marker sits in column c0+1+k
  have key : ∀ (ms : List Nat) (A : Nat) (ap : Option Nat) (c0 : Nat), InCol st'.mat A c0 →
      (∀ i m, ms[i]? = some m → InCol st'.mat m (c0 + 1 + i)) → InCol st'.mat T (c0 + 1 + ms.length) →
      ∀ x ∈ chain w A ap ms T n.tp, AdjIn st'.mat x := by
    intro ms
    induction ms with
    | nil =>
      intro A ap c0 hA _ hT' x hx
      simp only [chain, List.mem_singleton] at hx
      subst hx
      exact ⟨c0, hA, by simpa using hT'⟩
    | cons m ms ih =>
      intro A ap c0 hA hms hT' x hx
      simp only [chain, List.mem_cons] at hx
      rcases hx with rfl | hx
      · exact ⟨c0, hA, by simpa using hms 0 m rfl⟩
      · apply ih m none (c0 + 1) (by simpa using hms 0 m rfl) _ _ x hx
        · intro i m' hi
          have := hms (i + 1) m' (by simpa using hi)
          have e : c0 + 1 + (i + 1) = c0 + 1 + 1 + i := by omega
          rw [e] at this; exact this
        · have e : c0 + 1 + (m :: ms).length = c0 + 1 + 1 + ms.length := by simp; omega
          rw [e] at hT'; exact hT'
  apply key _ S n.sp sc (hkeep S sc hS)
  · intro i m hi
    simp only [List.getElem?_map, Option.map_eq_some_iff] at hi
    obtain ⟨j, hj, rfl⟩ := hi
    obtain ⟨hjl, hje⟩ := List.getElem?_eq_some_iff.1 hj
    simp only [List.length_range] at hjl
    have : j = i := by simpa using hje.symm
    subst this
    have := hmark j hjl
    rw [Nat.add_comm j st.nobjs]; exact this
  · have e : sc + 1 + ((List.range (tc - sc - 1)).map (· + st.nobjs)).length = tc := by simp; omega
    rw [e]; exact hkeep T tc hT


/- ---------------------------------------------------------------- the same for insertFeedback -/
theorem feedChain_mat_eq (w r : Nat) : ∀ (cols : List Nat) (s1 s2 : PS) (l1 l2 : Nat) (lp : Option Nat),
    s1.mat = s2.mat → s1.nobjs = s2.nobjs →
    (feedChain w r cols s1 l1).1.mat = (passChain w r cols s2 l2 lp).1.mat := by
  intro cols
  induction cols with
  | nil => intro s1 s2 l1 l2 lp h _; exact h
  | cons col cols ih =>
    intro s1 s2 l1 l2 lp hm hn
    simp only [feedChain, passChain]
    apply ih
    · simp only [hm, hn]
    · simp only [PS.nobjs, List.length_append, List.length_cons, List.length_nil] at hn ⊢
      omega

theorem expand_old (m : Mat) (nr nc i : Nat) (row : List (Option Nat)) (h : m[i]? = some row) :
    (expand m nr nc)[i]? = some (row ++ List.replicate (max nc (ncols m) - row.length) none) := by
  unfold expand
  have hi : i < m.length := (List.getElem?_eq_some_iff.1 h).1
  simp only
  rw [List.getElem?_append_left (by simpa using hi), List.getElem?_map, h]
  rfl

theorem expand_new (m : Mat) (nc : Nat) : (expand m (m.length + 1) nc)[m.length]? = some (List.replicate (max nc (ncols m)) none) := by
  unfold expand
  simp only
  rw [List.getElem?_append_right (by simp)]
  simp

/-- insertFeedback for one wire whose sink really sits in column tc < sc: nothing that was placed moves to another column, and
    every new net runs from a column to the next one -/
theorem feedWire_adjacent (S T sc tc : Nat) (st st' : PS) (w : Nat) (htc : tc ≤ sc)
    (hS : InCol st.mat S sc) (hT : InCol st.mat T tc) (h : feedWire S T sc tc st w = .ok st') :
    (∀ k c, InCol st.mat k c → InCol st'.mat k c) ∧
    ∀ x ∈ st'.nets, x ∈ st.nets ∨ AdjIn st'.mat x := by
  obtain ⟨htc0, n, hn, _, _, _, hnets, _, _, _, hrows⟩ := Schem.Pass.feedWire_spec S T sc tc st st' w h
  -- old objects keep their column
  have hkeep : ∀ k c, InCol st.mat k c → InCol st'.mat k c := by
    intro k c ⟨row, hrow, hc⟩
    obtain ⟨i, hi, hget⟩ := List.mem_iff_getElem.1 hrow
    have hgi : st.mat[i]? = some row := by rw [List.getElem?_eq_getElem hi, hget]
    have : st'.mat[i]? = some (row ++ List.replicate (max (sc + 2) (ncols st.mat) - row.length) none) := by
      rw [hrows i (by omega), expand_old st.mat _ _ i row hgi]
    refine ⟨_, List.mem_of_getElem? this, ?_⟩
    rw [List.getElem?_append_left (List.getElem?_eq_some_iff.1 hc).1]
    exact hc
  refine ⟨hkeep, ?_⟩
  -- the matrix of st', cell by cell in the new row
  unfold feedWire at h
  cases ht : takeNet st.nets w S T with
  | error e => simp [ht, bind, Except.bind] at h
  | ok p =>
    obtain ⟨n2, rest⟩ := p
    simp only [ht, bind, Except.bind] at h
    have hne0 : ¬ tc = 0 := by omega
    simp only [hne0, if_false, Except.ok.injEq] at h
    -- abbreviations
    generalize hst1 :
        ({ st with nets := rest ++ [{ wire := w, src := S, sp := n2.sp, snk := st.nobjs, tp := none }],
                   marks := st.marks ++ [MK.fbStart],
                   mat := setCell (expand st.mat (st.mat.length + 1) (sc + 2)) st.mat.length (sc + 1) st.nobjs } : PS) = st1 at h
    have hm1 : st1.mat = setCell (expand st.mat (st.mat.length + 1) (sc + 2)) st.mat.length (sc + 1) st.nobjs := by rw [← hst1]
    have hn1 : st1.nobjs = st.nobjs + 1 := by rw [← hst1]; simp [PS.nobjs, Nat.add_assoc]
    have hrow0 := expand_new st.mat (sc + 2)
    have hrow1 : st1.mat[st.mat.length]? = some ((List.replicate (max (sc + 2) (ncols st.mat)) none).set (sc + 1) (some st.nobjs)) := by
      rw [hm1]; exact setCell_row _ _ _ _ _ hrow0
    have hcols_nd : ((List.range (sc + 1 - tc)).map (sc - ·)).Nodup := by
      rw [List.Nodup, List.pairwise_map]
      apply List.Pairwise.imp_of_mem _ (List.nodup_range (n := sc + 1 - tc))
      intro a b ha hb hab e
      have := List.mem_range.1 ha
      have := List.mem_range.1 hb
      exact hab (by omega)
    -- matrix after the chain = the pass-through version of the same loop
    have hmat2 := feedChain_mat_eq w st.mat.length ((List.range (sc + 1 - tc)).map (sc - ·)) st1 st1 st.nobjs st.nobjs none rfl rfl
    have hA2 : cellAt (feedChain w st.mat.length ((List.range (sc + 1 - tc)).map (sc - ·)) st1 st.nobjs).1.mat st.mat.length (sc + 1) = some st.nobjs := by
      rw [hmat2, passChain_keep w st.mat.length _ st1 _ _ st.mat.length (sc + 1)
        (Or.inr (by
          intro hmem
          obtain ⟨j, _, hj⟩ := List.mem_map.1 hmem
          omega)), hm1]
      exact cellAt_setCell_same _ _ _ _ _ hrow0 (by simp; omega)
    have hP2 : ∀ i, i < sc + 1 - tc → cellAt (feedChain w st.mat.length ((List.range (sc + 1 - tc)).map (sc - ·)) st1 st.nobjs).1.mat st.mat.length (sc - i) = some (st.nobjs + 1 + i) := by
      intro i hi
      rw [hmat2]
      have := passChain_cells w st.mat.length ((List.range (sc + 1 - tc)).map (sc - ·)) st1 st.nobjs none _ hrow1 hcols_nd
        (by
          intro c hc
          obtain ⟨j, _, rfl⟩ := List.mem_map.1 hc
          simp; omega)
        i (sc - i) (by simp [List.getElem?_map, List.getElem?_range hi])
      rw [hn1] at this
      exact this
    obtain ⟨row2, hrow2, hlen2⟩ := passChain_row w st.mat.length ((List.range (sc + 1 - tc)).map (sc - ·)) st1 st.nobjs none _ hrow1
    rw [← hmat2] at hrow2
    -- the final matrix
    have hmat' : st'.mat = setCell (feedChain w st.mat.length ((List.range (sc + 1 - tc)).map (sc - ·)) st1 st.nobjs).1.mat st.mat.length (tc - 1)
        (feedChain w st.mat.length ((List.range (sc + 1 - tc)).map (sc - ·)) st1 st.nobjs).1.nobjs := by rw [← h]
    have hz : (feedChain w st.mat.length ((List.range (sc + 1 - tc)).map (sc - ·)) st1 st.nobjs).1.nobjs = st.nobjs + 1 + (sc + 1 - tc) := by
      obtain ⟨_, _, c3, c4, _, _⟩ := feedChain_spec w st.mat.length ((List.range (sc + 1 - tc)).map (sc - ·)) st1 st.nobjs
      rw [nobjs_eq _ _ _ c4 c3]
      have : st1.nb + st1.marks.length = st.nobjs + 1 := hn1
      simp only [List.length_append, List.length_replicate, List.length_map, List.length_range]
      omega
    have cA : InCol st'.mat st.nobjs (sc + 1) := by
      apply inCol_of_cellAt _ st.mat.length
      rw [hmat', cellAt_setCell_other _ _ _ _ _ _ (Or.inr (by omega))]
      exact hA2
    have cP : ∀ i, i < sc + 1 - tc → InCol st'.mat (st.nobjs + 1 + i) (sc - i) := by
      intro i hi
      apply inCol_of_cellAt _ st.mat.length
      rw [hmat', cellAt_setCell_other _ _ _ _ _ _ (Or.inr (by omega))]
      exact hP2 i hi
    have cZ : InCol st'.mat (st.nobjs + 1 + (sc + 1 - tc)) (tc - 1) := by
      apply inCol_of_cellAt _ st.mat.length
      rw [hmat', hz]
      apply cellAt_setCell_same _ _ _ _ row2 hrow2
      rw [hlen2]
      simp; omega
    -- now the nets
    intro x hx
    rw [hnets] at hx
    simp only [List.append_assoc, List.mem_append, List.mem_cons, List.not_mem_nil, or_false] at hx
    rcases hx with hx | rfl | hx | rfl | rfl
    · exact Or.inl (List.mem_of_mem_erase hx)
    · exact Or.inr ⟨sc, hkeep S sc hS, cA⟩
    · -- the pass-through links: marker i+1 (column sc-(i+1)) → marker i (column sc-i); the first one → A
      right
      have key : ∀ (ms : List Nat) (last c0 : Nat), InCol st'.mat last (c0 + 1) → ms.length ≤ c0 + 1 →
          (∀ i m, ms[i]? = some m → InCol st'.mat m (c0 - i)) → ∀ y ∈ backLinks w last ms, AdjIn st'.mat y := by
        intro ms
        induction ms with
        | nil => intro last c0 _ _ _ y hy; simp [backLinks] at hy
        | cons m ms ih =>
          intro last c0 hl hlen hms y hy
          simp only [backLinks, List.mem_cons] at hy
          rcases hy with rfl | hy
          · exact ⟨c0, by simpa using hms 0 m rfl, hl⟩
          · cases ms with
            | nil => simp [backLinks] at hy
            | cons m2 ms2 =>
              have hc0 : 1 ≤ c0 := by simp at hlen; omega
              apply ih m (c0 - 1) _ _ _ y hy
              · have := hms 0 m rfl
                have e : c0 - 1 + 1 = c0 - 0 := by omega
                rw [e]; exact this
              · simp at hlen ⊢; omega
              · intro i m' hi
                have := hms (i + 1) m' (by simpa using hi)
                have e : c0 - (i + 1) = c0 - 1 - i := by omega
                rw [e] at this; exact this
      apply key _ st.nobjs sc cA (by simp) _ x hx
      intro i m hi
      simp only [List.getElem?_map, Option.map_eq_some_iff] at hi
      obtain ⟨j, hj, rfl⟩ := hi
      obtain ⟨hjl, hje⟩ := List.getElem?_eq_some_iff.1 hj
      simp only [List.length_range] at hjl
      have : j = i := by simpa using hje.symm
      subst this
      have := cP j hjl
      have e : j + (st.nobjs + 1) = st.nobjs + 1 + j := by omega
      rw [e]; exact this
    · -- Z → last pass-through (column tc)
      right
      refine ⟨tc - 1, cZ, ?_⟩
      have hk : 0 < sc + 1 - tc := by omega
      have hl : (((List.range (sc + 1 - tc)).map (· + (st.nobjs + 1))).getLast?) = some (st.nobjs + 1 + (sc - tc)) := by
        have : sc + 1 - tc = (sc - tc) + 1 := by omega
        rw [this, List.range_succ]
        simp; omega
      simp only [hl, Option.getD_some]
      have := cP (sc - tc) (by omega)
      have e : sc - (sc - tc) = tc - 1 + 1 := by omega
      rw [e] at this; exact this
    · -- Z → T
      right
      refine ⟨tc - 1, cZ, ?_⟩
      have e : tc - 1 + 1 = tc := by omega
      rw [e]; exact hkeep T tc hT

end Schem.Pass
