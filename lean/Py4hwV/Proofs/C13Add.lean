import Py4hwV.Proofs.C13Mul
/-
  C13 — helper development for FPAdder_SP: the magnitude swap and commutativity.
-/
namespace C13
open Lib Lib.Fp Lib.LSpec FpSpec

/-- a 32-bit word is determined by its three fields -/
theorem word_of_fields (x : Nat) (hx : x < 2^32) : x = signOf x * 2^31 + (expOf x * 2^23 + fracOf x) := by
  unfold signOf expOf fracOf; omega

/-- the magnitude swap of FPAdder_SP -/
theorem fpadd_swap (a b : Nat) (ha : a < 2^32) (hb : b < 2^32) :
    fpadd a b = if (expOf a < expOf b ∨ (expOf a = expOf b ∧ fracOf a < fracOf b)) then fpaddCore b a else fpaddCore a b := by
  unfold fpadd
  rw [fpcmp_abs_fields]
  simp only [Lib.swap, Leaf.mux2, Nat.mod_eq_of_lt ha, Nat.mod_eq_of_lt hb]
  by_cases h : (expOf a < expOf b ∨ (expOf a = expOf b ∧ fracOf a < fracOf b))
  · have : (decide (expOf a < expOf b) || decide (expOf a = expOf b) && decide (fracOf a < fracOf b)) = true := by
      simp only [Bool.or_eq_true, Bool.and_eq_true, decide_eq_true_eq]; exact h
    rw [this, if_pos h]
    simp [b2n]
  · have : (decide (expOf a < expOf b) || decide (expOf a = expOf b) && decide (fracOf a < fracOf b)) = false := by
      rw [Bool.eq_false_iff]; intro hh
      simp only [Bool.or_eq_true, Bool.and_eq_true, decide_eq_true_eq] at hh; exact h hh
    rw [this, if_neg h]
    simp [b2n]

/-- commutativity of the real adder's model whenever the magnitudes differ (or the operands are identical) -/
theorem fpadd_comm' (a b : Nat) (ha : a < 2^32) (hb : b < 2^32)
    (h : ¬ (expOf a = expOf b ∧ fracOf a = fracOf b) ∨ a = b) : fpadd a b = fpadd b a := by
  rw [fpadd_swap a b ha hb, fpadd_swap b a hb ha]
  rcases h with h | h
  · by_cases h1 : (expOf a < expOf b ∨ (expOf a = expOf b ∧ fracOf a < fracOf b))
    · rw [if_pos h1, if_neg (by omega)]
    · rw [if_neg h1, if_pos (by omega)]
  · subst h; rfl

/-- the datapath of FPAdder_SP after the swap, as arithmetic on the fields (A = larger magnitude), EVERY exponent gap
    (for gaps ≥ 24 the aligned operand `mB / 2^d` is 0) -/
theorem fpaddCore_eq (A B : Nat) (hA : 1 ≤ expOf A) (hB : 1 ≤ expOf B) (hle : expOf B ≤ expOf A) :
    let mA := 2^23 + fracOf A
    let mB := 2^23 + fracOf B
    let mb3 := mB / 2^(expOf A - expOf B)
    let mr : Nat := if signOf A = signOf B then (mA + mb3) % 2^25 else Leaf.sub 25 mA mb3
    let c : Nat := if mr = 0 then 25 else 24 - mr.log2
    fpaddCore A B = signOf A * 2^31 + ((((expOf A + 256 - c) % 256 + 1) % 256) * 2^23 + (mr * 2^c % 2^25) / 2 % 2^23) := by
  intro mA mB mb3 mr c
  have hfa := fracOf_lt A
  have hfb := fracOf_lt B
  have hea := expOf_lt A
  have heb := expOf_lt B
  unfold fpaddCore
  rw [parts_eq, parts_eq]
  simp only [partsRaw, range_e]
  have hda : decide (expOf A ≠ 0) = true := by simp; omega
  have hdb : decide (expOf B ≠ 0) = true := by simp; omega
  simp only [hda, hdb, show b2n true = 1 from rfl, Nat.one_mul]
  have hmB : mB < 2^24 := by show 2^23 + fracOf B < 2^24; omega
  have hmA : mA < 2^24 := by show 2^23 + fracOf A < 2^24; omega
  have hgap : expOf A - expOf B < 2^8 := by omega
  have hed : Leaf.sub 8 (expOf A) (expOf B) = expOf A - expOf B := by
    rw [sub_nat 8 _ _ hle]; exact Nat.mod_eq_of_lt hgap
  rw [hed, C07.shiftRight_logical_spec 24 8 24 _ _ hmB hgap]
  have hmb3 : ArithSpec.shiftRightL 24 (2 ^ 23 + fracOf B) (expOf A - expOf B) = mb3 := by
    unfold ArithSpec.shiftRightL
    apply Nat.mod_eq_of_lt
    exact Nat.lt_of_le_of_lt (Nat.div_le_self _ _) hmB
  rw [hmb3, C07.add_spec 25 0 _ _ none (by decide)]
  rw [b2n_of_lt2 (signOf A) (signOf_lt A), b2n_of_lt2 (signOf B) (signOf_lt B), C08.xor2_bool]
  have hmr : Leaf.mux2 25 (b2n (decide (signOf A = 1) ^^ decide (signOf B = 1)))
      (ArithSpec.add 25 (2 ^ 23 + fracOf A) mb3 ((none : Option Nat).getD 0)) (Leaf.sub 25 (2 ^ 23 + fracOf A) mb3) = mr := by
    show _ = (if signOf A = signOf B then (mA + mb3) % 2^25 else Leaf.sub 25 mA mb3)
    have sa := signOf_lt A
    have sb := signOf_lt B
    unfold Leaf.mux2 ArithSpec.add
    have hs25 : Leaf.sub 25 mA mb3 % 2^25 = Leaf.sub 25 mA mb3 := Nat.mod_eq_of_lt (Bits.put_lt _ _)
    by_cases h : signOf A = signOf B
    · rw [if_pos h]
      have : (decide (signOf A = 1) ^^ decide (signOf B = 1)) = false := by rw [h]; simp
      rw [this]; simp [b2n]; rfl
    · rw [if_neg h]
      have : (decide (signOf A = 1) ^^ decide (signOf B = 1)) = true := by
        have : signOf A = 0 ∧ signOf B = 1 ∨ signOf A = 1 ∧ signOf B = 0 := by omega
        rcases this with ⟨h1, h2⟩ | ⟨h1, h2⟩ <;> simp [h1, h2]
      rw [this]; simp [b2n]; exact hs25
  rw [hmr]
  have hmrL : mr < 2^25 := by
    show (if signOf A = signOf B then (mA + mb3) % 2^25 else Leaf.sub 25 mA mb3) < 2^25
    split
    · exact Nat.mod_lt _ (by decide)
    · exact Bits.put_lt _ _
  have hclz : (Lib.countLeadingZeros 25 5 1 mr).1 = c := by
    rw [C07.countLeadingZeros_spec 25 5 1 mr (by decide) (by decide) hmrL]
    unfold ArithSpec.countLeadingZeros ArithSpec.clz
    rw [Nat.mod_eq_of_lt hmrL]
    show _ = (if mr = 0 then 25 else 24 - mr.log2)
    split
    · rfl
    · apply Nat.mod_eq_of_lt; simp only [Nat.reducePow]; omega
  have hcL : c ≤ 25 := by show (if mr = 0 then 25 else 24 - mr.log2) ≤ 25; split <;> omega
  rw [hclz, C07.shiftLeft_spec 25 5 25 mr c (by decide) (by simp only [Nat.reducePow]; omega)]
  rw [sub8g _ _ (by omega), C07.add_spec 8 0 _ _ none (by decide)]
  have hbuf : Leaf.buf 1 (b2n (decide (signOf A = 1))) = signOf A := by
    rw [buf_b2n, ← b2n_of_lt2 _ (signOf_lt A)]
  rw [hbuf]
  have hr : Leaf.range 23 (ArithSpec.shiftLeft 25 mr c) 23 1 = (mr * 2^c % 2^25) / 2 % 2^23 := by
    unfold ArithSpec.shiftLeft
    simp only [Leaf.range, Nat.shiftRight_eq_div_pow, Nat.reduceSub, Nat.reduceAdd, Nat.mod_mod, Nat.pow_one]
  rw [hr]
  rw [C08.concatMSBF_spec 32 _ (by simp) (by
      intro wv hwv
      simp only [List.mem_cons, List.mem_nil_iff, or_false] at hwv
      rcases hwv with rfl | rfl | rfl
      · exact signOf_lt A
      · exact Nat.mod_lt _ (by decide)
      · exact Nat.mod_lt _ (by decide))]
  simp only [LSpec.concatMSBF, List.map, List.sum_cons, List.sum_nil, ArithSpec.add, Option.getD,
    show Leaf.const 8 1 = 1 by decide]
  rw [← b2n_of_lt2 (signOf A) (signOf_lt A)]
  generalize mr * 2 ^ c % 2 ^ 25 / 2 % 2 ^ 23 = Z
  generalize (expOf A + 256 - c) % 256 = Y
  simp only [Nat.reducePow, Nat.reduceAdd]
  omega

end C13
