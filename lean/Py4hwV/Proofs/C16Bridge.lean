import Py4hwV.Proto.AxiSpec
import Py4hwV.Lib.Leaf
/-
  C16 bridges: the netlists composed of the leaf definitions GENERATED from the Python source (`Axi.*.stepG`) equal the
  Nat-level models (`Axi.*.step`) the theorems of Props/C16.lean are about.  A semantic change of `Reg.clock`, `And2.propagate`,
  `Or2`, `Not`, `Buf`, `Range`, `Constant` breaks a lemma here (the model file and the driver keep compiling).
-/
namespace Axi

/-- the reference leaves repeated in Proto/Axi.lean are those of Lib/Leaf.lean -/
theorem leaf_defs_agree : and2 = Leaf.and2 ∧ or2 = Leaf.or2 ∧ not1 = Leaf.not1 ∧ buf = Leaf.buf ∧ range = Leaf.range ∧
    const = Leaf.const ∧ landed = Leaf.landed := ⟨rfl, rfl, rfl, rfl, rfl, rfl, rfl⟩

theorem gen_or2 (rw a b : Nat) : landed rw (Gen.Or2.step ⟨⟩ ⟨⟩ ⟨a, b⟩ ⟨⟩).2.r = or2 rw a b := Leaf.gen_or2 rw a b
theorem gen_and2 (rw a b : Nat) : landed rw (Gen.And2.step ⟨⟩ ⟨⟩ ⟨a, b⟩ ⟨⟩).2.r = and2 rw a b := Leaf.gen_and2 rw a b
theorem gen_not (rw a : Nat) : landed rw (Gen.Not.step ⟨⟩ ⟨⟩ ⟨a⟩ ⟨⟩).2.r = not1 rw a := Leaf.gen_not rw a
theorem gen_buf (rw a : Nat) : landed rw (Gen.Buf.step ⟨⟩ ⟨⟩ ⟨a⟩ ⟨⟩).2.r = buf rw a := Leaf.gen_buf rw a
theorem gen_const (rw : Nat) (v : Int) : landed rw (Gen.Constant.step ⟨v⟩ ⟨⟩ ⟨⟩ ⟨⟩).2.r = const rw v := Leaf.gen_const rw v
theorem gen_range (rw a hi lo : Nat) (h : lo ≤ hi) :
    landed rw (Gen.Range.step ⟨hi, lo⟩ ⟨⟩ ⟨a⟩ ⟨⟩).2.r = range rw a hi lo := Leaf.gen_range rw a hi lo h

theorem gen_regER (w v e r d : Nat) : regERG w v e r d = regER v e r d % 2^w := by
  unfold regERG regER
  by_cases hr : r = 1
  · subst hr
    simp [Gen.Reg.step, Id.run, pure, landed, Py.truthy]
    exact (Bits.put_ofNat w 0).trans (by simp)
  · have hr' : ¬ ((r:Int) = 1) := by omega
    by_cases he : e = 0
    · subst he
      simp [Gen.Reg.step, Id.run, pure, landed, Py.truthy, Py.ofBool, Bits.put_ofNat, hr, hr']
    · have he' : ¬ ((e:Int) = 0) := by omega
      simp [Gen.Reg.step, Id.run, pure, landed, Py.truthy, Py.ofBool, Bits.put_ofNat, hr, hr', he]

theorem gen_regE (w v e d : Nat) : regEG w v e d = regE v e d % 2^w := by
  unfold regEG regE
  by_cases he : e = 0
  · subst he
    simp [Gen.Reg.step, Id.run, pure, landed, Py.truthy, Py.ofBool, Bits.put_ofNat]
  · have he' : ¬ ((e:Int) = 0) := by omega
    simp [Gen.Reg.step, Id.run, pure, landed, Py.truthy, Py.ofBool, Bits.put_ofNat, he]

/-- the state kept inside the Reg object agrees with what it prepares on q -/
theorem gen_reg_value_eq_q (c : Gen.Reg.Cfg) (s : Gen.Reg.St) (i : Gen.Reg.In) :
    (Gen.Reg.step c s i ⟨⟩).2.q = some (Gen.Reg.step c s i ⟨⟩).1.value := by
  simp only [Gen.Reg.step, Id.run, pure]
  repeat' split
  all_goals rfl


theorem or2G_eq (w a b : Nat) : or2G w a b = or2 w a b := gen_or2 w a b
theorem and2G_eq (w a b : Nat) : and2G w a b = and2 w a b := gen_and2 w a b
theorem notG_eq (w a : Nat) : notG w a = not1 w a := gen_not w a
theorem bufG_eq (w a : Nat) : bufG w a = buf w a := gen_buf w a
theorem constG_eq (w : Nat) (v : Int) : constG w v = const w v := gen_const w v
theorem rangeG_eq (w a hi lo : Nat) (h : lo ≤ hi) : rangeG w a hi lo = range w a hi lo := gen_range w a hi lo h

theorem orNG_eq (w : Nat) (l : List Nat) : orNG w l = orN w l := by
  match l with
  | [] => rfl
  | [a] => simp [orNG, orN, bufG_eq]
  | a :: b :: rest =>
    simp [orNG, orN, or2G_eq]


namespace A2R
theorem combG_eq_comb (c : Cfg) (s : St) (i : In) : combG c s i = comb c s i := by
  simp only [combG, comb, notG_eq, bufG_eq, and2G_eq, or2G_eq, orNG_eq, rangeG_eq _ _ _ _ (Nat.zero_le _)]

theorem stepG_eq_step (c : Cfg) (s : St) (i : In) : stepG c s i = step c s i := by
  simp only [stepG, step, combG_eq_comb, gen_regER]

theorem runG_eq_run (c : Cfg) (s : St) (is : List In) : runG c s is = run c s is := by
  unfold runG run
  congr 1
  funext s i
  exact stepG_eq_step c s i
end A2R

namespace R2A
theorem combG_eq_comb (c : Cfg) (s : St) (i : In) : combG c s i = comb c s i := by
  simp only [combG, comb, notG_eq, bufG_eq, and2G_eq, or2G_eq, orNG_eq, constG_eq]

theorem stepG_eq_step (c : Cfg) (s : St) (i : In) : stepG c s i = step c s i := by
  simp only [stepG, step, combG_eq_comb, gen_regER, gen_regE]

theorem runG_eq_run (c : Cfg) (s : St) (is : List In) : runG c s is = run c s is := by
  unfold runG run
  congr 1
  funext s i
  exact stepG_eq_step c s i
end R2A
end Axi
