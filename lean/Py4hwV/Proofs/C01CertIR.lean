import Py4hwV.Proofs.C01Cert1
import Py4hwV.Proofs.C01FlatIR
/-
  C01 design level: the leaves of the generalised children (`GKind.leaves`) are leaves of the netlist IR (`Net.LeafInst`, the object
  harness/dump_ir.py exports and the net-sim stream ties to the real simulator): the single-output ones are `Kind.inst`
  (`kind_inst_prop`, Proofs/C01FlatIR.lean); here the two new shapes: the multi-output Bits leaf and Div / Mod.
-/
set_option linter.unusedSimpArgs false
namespace FlatM
open Net

/-- the IR instance of BitsLSBF / BitsMSBF as dump_ir.py exports it: cfg `w_a`, one input, one output LIST -/
def bitsInst (kind : String) (wd : Nat → Nat) (a : Nat) (bits : List Nat) : LeafInst :=
  { kind := kind, cfg := [[(wd a : Int)]], ins := [a], inls := [], outs := [], outls := [bits], st0 := [], isProp := true, isClk := false }

/-- the IR instance of Div / Mod (inputs in the order of the generated step: `b`, `a`) -/
def dmInst (isMod : Bool) (a b r : Nat) : LeafInst :=
  { kind := if isMod then "Mod" else "Div", cfg := [], ins := [b, a], inls := [], outs := [r], outls := [], st0 := [],
    isProp := true, isClk := false }

theorem zip_range_map {α β : Type} (l : List α) (f : Nat → β) (k : Nat) :
    l.zip ((List.range' k l.length).map f) = (l.zipIdx k).map fun xi => (xi.1, f xi.2) := by
  induction l generalizing k with
  | nil => rfl
  | cons x l ih => simp [List.range'_succ, List.zipIdx_cons, ih]

theorem bits_puts (wd : Nat → Nat) (a : Nat) (bits : List Nat) (hnd : bits.Nodup) (hlen : bits.length = wd a)
    (f : Nat → List Nat → Int) (va : Nat) (hf : ∀ j, j < wd a → f j [va] = (((va >>> j) % 2 : Nat) : Int))
    (c : CLeaf) (hc : c ∈ bitsLeaf f a bits) (v : Nat → Nat) (hv : v a = va) :
    bits.zip ((Leaf.bits (wd a) va).map fun (b : Nat) => (b : Int)) = c.outs.map fun of => (of.1, of.2 (c.ins.map v)) := by
  obtain ⟨hins, houts⟩ := bitsLeaf_outs f a bits hnd c hc
  rw [houts, hins, List.map_map]
  have : (Leaf.bits (wd a) va).map (fun (b : Nat) => (b : Int)) =
      (List.range' 0 bits.length).map fun j => (((va >>> j) % 2 : Nat) : Int) := by
    rw [hlen, ← List.range_eq_range']; simp [Leaf.bits, List.map_map, Function.comp_def]
  rw [this, zip_range_map]
  apply List.map_congr_left
  intro bi hbi
  have hlt : bi.2 < wd a := by
    rw [← hlen]
    have := List.mem_zipIdx hbi
    omega
  simp only [Function.comp, List.map, hv, hf bi.2 hlt]

/-- the puts of the IR BitsLSBF leaf are the puts of the `CLeaf` the theorems are stated over -/
theorem bitsL_inst_prop (wd : Nat → Nat) (a : Nat) (bits : List Nat) (hnd : bits.Nodup) (hlen : bits.length = wd a)
    (c : CLeaf) (hc : c ∈ bitsLeaf (bitsFnL (wd a)) a bits) (v : Val) (s : LSt) :
    (((bitsInst "BitsLSBF" wd a bits).sem wd).prop v s).2 = c.outs.map fun of => (of.1, of.2 (c.ins.map v)) := by
  have hg := C08.gen_bitsLSBF (wd a) (v a)
  simp only [bitsInst, LeafInst.sem, LeafInst.call, Gen.dynStep, Gen.BitsLSBF.dyn, if_true, List.map, List.getD_cons_zero,
    List.headD_cons, zipPuts, zipPutLs, List.zip_nil_left, List.filterMap_nil, List.nil_append]
  rw [show ((v a : Nat) : Int) = ((v a : Nat) : Int) from rfl, hg]
  simp only [List.zip_cons_cons, List.zip_nil_right, List.map_cons, List.map_nil, List.flatten_cons, List.flatten_nil,
    List.append_nil]
  exact bits_puts wd a bits hnd hlen _ (v a) (fun j hj => bitsFnL_val (wd a) (v a) j hj) c hc v rfl

theorem bitsM_inst_prop (wd : Nat → Nat) (a : Nat) (bits : List Nat) (hnd : bits.Nodup) (hlen : bits.length = wd a)
    (c : CLeaf) (hc : c ∈ bitsLeaf (bitsFnM (wd a)) a bits) (v : Val) (s : LSt) :
    (((bitsInst "BitsMSBF" wd a bits).sem wd).prop v s).2 = c.outs.map fun of => (of.1, of.2 (c.ins.map v)) := by
  have hg := C08.gen_bitsMSBF (wd a) (v a)
  simp only [bitsInst, LeafInst.sem, LeafInst.call, Gen.dynStep, Gen.BitsMSBF.dyn, if_true, List.map, List.getD_cons_zero,
    List.headD_cons, zipPuts, zipPutLs, List.zip_nil_left, List.filterMap_nil, List.nil_append]
  rw [hg]
  simp only [List.zip_cons_cons, List.zip_nil_right, List.map_cons, List.map_nil, List.flatten_cons, List.flatten_nil,
    List.append_nil]
  exact bits_puts wd a bits hnd hlen _ (v a) (fun j hj => bitsFnM_val (wd a) (v a) j hj) c hc v rfl

/-- Div / Mod: the IR leaf puts what the `CLeaf` of `GKind.dm` puts -/
theorem dm_inst_prop (wd : Nat → Nat) (isMod : Bool) (a b r : Nat) (c : CLeaf) (hc : c ∈ (GKind.dm isMod a b r).leaves wd)
    (v : Val) (s : LSt) :
    (((dmInst isMod a b r).sem wd).prop v s).2 = c.outs.map fun of => (of.1, of.2 (c.ins.map v)) := by
  simp only [GKind.leaves, List.mem_singleton] at hc
  subst hc
  rw [outs_single _ rfl]
  cases isMod
  · by_cases hb : v b = 0 <;>
      simp [dmInst, LeafInst.sem, LeafInst.call, Gen.dynStep, Gen.Div.dyn, Gen.Div.step, zipPuts, zipPutLs, g, Id.run, pure, hb]
  · by_cases hb : v b = 0 <;>
      simp [dmInst, LeafInst.sem, LeafInst.call, Gen.dynStep, Gen.Mod.dyn, Gen.Mod.step, zipPuts, zipPutLs, g, Id.run, pure, hb]

end FlatM
