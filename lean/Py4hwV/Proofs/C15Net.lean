import Py4hwV.Net.Sim
import Py4hwV.Proto.WaveformNet
import Py4hwV.Proofs.C15Capture
/-
  C15, simulator half: a recorder is a clockable leaf of `Net.Sim`.  During the clock phase of a cycle no wire value
  changes (clock methods only `prepare`), so the recorder reads the values going into the edge whatever its position
  among the clockables; settle and the post-edge propagate do not touch its attributes.
-/
namespace C15
open Net Waveform

variable {σ : Type}

/-- leaf `k` of design `d` behaves like `Waveform.clock` on the attribute `proj` and is not propagatable -/
structure IsRecorder (d : Design σ) (k : Nat) (uniq : List Nat) (proj : σ → Dict) : Prop where
  clock  : ∀ v s, proj ((d.leaf k).clock v s).1 = clockData uniq v (proj s)
  noprop : k ∉ d.order

/-- how many times `clock()` of leaf `k` is called in a cycle whose pre-edge values are `v`
    (`_clk_cycle`: drivers with `enable.get() == 0` are skipped) -/
def hits (k : Nat) (v : Net.Val) : List Driver → Nat
  | [] => 0
  | dr :: ds => (if enabled v dr.enable then dr.clockables.count k else 0) + hits k v ds

theorem iter_add {α : Type} (f : α → α) (a b : Nat) (x : α) : iter f (a + b) x = iter f b (iter f a x) := by
  induction a generalizing x with
  | zero => simp [iter]
  | succ a ih => rw [Nat.succ_add]; simp only [iter]; exact ih (f x)

theorem foldl_prepW (d : Design σ) (l : List (Nat × Int)) (s : State σ) :
    (l.foldl (prepW d) s).val = s.val ∧ (l.foldl (prepW d) s).st = s.st := by
  induction l generalizing s with
  | nil => exact ⟨rfl, rfl⟩
  | cons a l ih => simp only [List.foldl_cons]; obtain ⟨h1, h2⟩ := ih (prepW d s a); exact ⟨h1, h2⟩

theorem foldl_putW_st (d : Design σ) (l : List (Nat × Int)) (s : State σ) : (l.foldl (putW d) s).st = s.st := by
  induction l generalizing s with
  | nil => rfl
  | cons a l ih => simp only [List.foldl_cons]; exact ih (putW d s a)

theorem clockLeaf_val (d : Design σ) (s : State σ) (j : Nat) : (clockLeaf d s j).val = s.val := by
  unfold clockLeaf; exact (foldl_prepW d _ _).1

theorem clockLeaf_st (d : Design σ) (s : State σ) (j : Nat) :
    (clockLeaf d s j).st = upd s.st j ((d.leaf j).clock s.val (s.st j)).1 := by
  unfold clockLeaf; exact (foldl_prepW d _ _).2

theorem propLeaf_st (d : Design σ) (s : State σ) (j k : Nat) (h : k ≠ j) : (propLeaf d s j).st k = s.st k := by
  unfold propLeaf; rw [foldl_putW_st]; simp [upd, h]

theorem propagate_st (d : Design σ) (l : List Nat) (s : State σ) (k : Nat) (h : k ∉ l) :
    (l.foldl (propLeaf d) s).st k = s.st k := by
  induction l generalizing s with
  | nil => rfl
  | cons j l ih =>
    simp only [List.mem_cons, not_or] at h
    simp only [List.foldl_cons]
    rw [ih _ h.2, propLeaf_st d s j k h.1]

theorem clockables_fold (d : Design σ) (k : Nat) (uniq : List Nat) (proj : σ → Dict)
    (hr : IsRecorder d k uniq proj) (cs : List Nat) (s : State σ) :
    (cs.foldl (clockLeaf d) s).val = s.val ∧
    proj ((cs.foldl (clockLeaf d) s).st k) = iter (clockData uniq s.val) (cs.count k) (proj (s.st k)) := by
  induction cs generalizing s with
  | nil => exact ⟨rfl, rfl⟩
  | cons j cs ih =>
    simp only [List.foldl_cons]
    obtain ⟨h1, h2⟩ := ih (clockLeaf d s j)
    rw [clockLeaf_val] at h1 h2
    refine ⟨h1, ?_⟩
    rw [h2, clockLeaf_st, List.count_cons]
    by_cases e : j = k
    · subst e
      simp only [upd_same, beq_self_eq_true, if_true]
      rw [Nat.add_comm, iter_add]
      simp only [iter]
      rw [hr.clock]
    · have : k ≠ j := fun h => e h.symm
      simp [upd, this, e]

/-- **clockDrivers_val**: the whole clock phase of a cycle leaves every wire value untouched; the recorder's data
    gets one `Waveform.clock` with the PRE-EDGE values per call -/
theorem clockDrivers_val (d : Design σ) (k : Nat) (uniq : List Nat) (proj : σ → Dict)
    (hr : IsRecorder d k uniq proj) (ds : List Driver) (s : State σ) :
    (clockDrivers d s ds).val = s.val ∧
    proj ((clockDrivers d s ds).st k) = iter (clockData uniq s.val) (hits k s.val ds) (proj (s.st k)) := by
  unfold clockDrivers
  induction ds generalizing s with
  | nil => exact ⟨rfl, rfl⟩
  | cons dr ds ih =>
    simp only [List.foldl_cons]
    by_cases he : enabled s.val dr.enable = true
    · simp only [he, if_true]
      obtain ⟨c1, c2⟩ := clockables_fold d k uniq proj hr dr.clockables s
      obtain ⟨h1, h2⟩ := ih (dr.clockables.foldl (clockLeaf d) s)
      rw [c1] at h1 h2
      refine ⟨h1, ?_⟩
      rw [h2, c2]
      simp only [hits, he, if_true]
      rw [iter_add]
    · have he' : enabled s.val dr.enable = false := by simpa using he
      simp only [he', Bool.false_eq_true, if_false]
      obtain ⟨h1, h2⟩ := ih s
      refine ⟨h1, ?_⟩
      rw [h2]
      simp [hits, he']

/-- **clkCycle_recorder**: one simulated cycle = `hits` calls of `Waveform.clock` on the values going into the edge -/
theorem clkCycle_recorder (d : Design σ) (k : Nat) (uniq : List Nat) (proj : σ → Dict)
    (hr : IsRecorder d k uniq proj) (s : State σ) :
    proj ((clkCycle d s).st k) = iter (clockData uniq s.val) (hits k s.val d.drivers) (proj (s.st k)) := by
  obtain ⟨_, h2⟩ := clockDrivers_val d k uniq proj hr d.drivers s
  simp only [clkCycle]
  unfold propagateAll
  rw [propagate_st d d.order _ k hr.noprop]
  simpa [settleAll] using h2

/-- the scheduler lists leaf `k` exactly once, in the driver `dr` -/
structure SchedOnce (d : Design σ) (k : Nat) (dr : Driver) : Prop where
  split : ∃ pre post, d.drivers = pre ++ dr :: post ∧
            (∀ x ∈ pre, x.clockables.count k = 0) ∧ (∀ x ∈ post, x.clockables.count k = 0)
  once  : dr.clockables.count k = 1

theorem hits_zero (k : Nat) (v : Net.Val) (ds : List Driver) (h : ∀ x ∈ ds, x.clockables.count k = 0) :
    hits k v ds = 0 := by
  induction ds with
  | nil => rfl
  | cons x ds ih =>
    simp only [hits]
    rw [h x (by simp), ih (fun y hy => h y (by simp [hy]))]
    simp

theorem hits_append (k : Nat) (v : Net.Val) (a b : List Driver) : hits k v (a ++ b) = hits k v a + hits k v b := by
  induction a with
  | nil => simp [hits]
  | cons x a ih => simp only [List.cons_append, hits, ih]; omega

theorem hits_sched (d : Design σ) (k : Nat) (dr : Driver) (h : SchedOnce d k dr) (v : Net.Val) :
    hits k v d.drivers = if enabled v dr.enable then 1 else 0 := by
  obtain ⟨pre, post, e, h1, h2⟩ := h.split
  rw [e, hits_append]
  simp only [hits]
  rw [hits_zero k v pre h1, hits_zero k v post h2, h.once]
  simp

/-- **capture_gated** (general form): in every simulated cycle the recorder takes one sample of the pre-edge values if
    its clock driver is enabled going into the edge, and none otherwise. -/
theorem capture_gated (d : Design σ) (k : Nat) (uniq : List Nat) (proj : σ → Dict)
    (hr : IsRecorder d k uniq proj) (dr : Driver) (hs : SchedOnce d k dr) (s : State σ) :
    proj ((clkCycle d s).st k) =
      if enabled s.val dr.enable then clockData uniq s.val (proj (s.st k)) else proj (s.st k) := by
  rw [clkCycle_recorder d k uniq proj hr s, hits_sched d k dr hs]
  by_cases he : enabled s.val dr.enable = true <;> simp [he, iter]

/-- the pre-edge value vectors of `n` consecutive cycles starting in state `s` -/
def edges (d : Design σ) : Nat → State σ → List Net.Val
  | 0, _ => []
  | n + 1, s => s.val :: edges d n (clkCycle d s)

theorem edges_length (d : Design σ) (n : Nat) (s : State σ) : (edges d n s).length = n := by
  induction n generalizing s with
  | zero => rfl
  | succ n ih => simp [edges, ih]

/-- n cycles on a recorder whose driver is not gated: data after = data before, clocked once per cycle with that
    cycle's pre-edge values, in cycle order -/
theorem capture_iter (d : Design σ) (k : Nat) (uniq : List Nat) (proj : σ → Dict)
    (hr : IsRecorder d k uniq proj) (dr : Driver) (hs : SchedOnce d k dr) (hen : dr.enable = none)
    (n : Nat) (s : State σ) :
    proj ((iter (clkCycle d) n s).st k) = (edges d n s).foldl (fun D v => clockData uniq v D) (proj (s.st k)) := by
  induction n generalizing s with
  | zero => rfl
  | succ n ih =>
    simp only [iter, edges, List.foldl_cons]
    rw [ih (clkCycle d s), capture_gated d k uniq proj hr dr hs s]
    simp [hen, enabled]

/-- `Simulator.clk(n)`: the leading `propagateAll` does not touch the recorder -/
theorem capture_clk (d : Design σ) (k : Nat) (uniq : List Nat) (proj : σ → Dict)
    (hr : IsRecorder d k uniq proj) (dr : Driver) (hs : SchedOnce d k dr) (hen : dr.enable = none)
    (n : Nat) (s : State σ) :
    proj ((clk d n s).st k) =
      (edges d n (propagateAll d s)).foldl (fun D v => clockData uniq v D) (proj (s.st k)) := by
  unfold clk
  rw [capture_iter d k uniq proj hr dr hs hen n (propagateAll d s)]
  congr 1
  unfold propagateAll
  rw [propagate_st d d.order s k hr.noprop]

/-- the executable recorder leaves of `Proto/WaveformNet.lean` are recorders in this sense -/
theorem withRecorders_isRecorder (d : Design σ) (recs : List (Nat × List Nat)) (k : Nat) (u : List Nat)
    (hk : recs.lookup k = some u) (ho : k ∉ d.order) :
    IsRecorder (withRecorders d recs) k u Prod.snd :=
  ⟨by intro v s; simp [withRecorders, hk, recorderLeaf], ho⟩

end C15
