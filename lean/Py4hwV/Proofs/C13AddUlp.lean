import Py4hwV.Proofs.C13Add
/-
  C13 — FPAdder_SP: sign of the exact sum and error below two units in the last place of the larger operand.
  The four steps: `add_exact` (alignment truncation), `norm_mant`/`norm_exp`/`norm_value` (normalisation by the leading-zero
  count), exponent range from the exact sum being normal (inside `fpaddCore_ulp`), final sign case split.
-/
namespace C13
open Lib Lib.Fp Lib.LSpec FpSpec

/-- normalisation by the leading-zero count: the 24-bit significand of the result (`L = log2 mr`) -/
theorem norm_mant (mr L : Nat) (hL : L ≤ 24) (h1 : 2^L ≤ mr) (h2 : mr < 2^(L+1)) :
    (L ≤ 23 → 2^23 + (mr * 2^(24 - L) % 2^25) / 2 % 2^23 = mr * 2^(23 - L)) ∧
    (L = 24 → 2^23 + (mr * 2^(24 - L) % 2^25) / 2 % 2^23 = mr / 2) := by
  have : L = 0 ∨ L = 1 ∨ L = 2 ∨ L = 3 ∨ L = 4 ∨ L = 5 ∨ L = 6 ∨ L = 7 ∨ L = 8 ∨ L = 9 ∨ L = 10 ∨ L = 11 ∨ L = 12 ∨ L = 13 ∨ L = 14 ∨ L = 15 ∨ L = 16 ∨ L = 17 ∨ L = 18 ∨ L = 19 ∨ L = 20 ∨ L = 21 ∨ L = 22 ∨ L = 23 ∨ L = 24 := by omega
  rcases this with h | h | h | h | h | h | h | h | h | h | h | h | h | h | h | h | h | h | h | h | h | h | h | h | h <;> subst h <;> simp only [Nat.reducePow, Nat.reduceAdd, Nat.reduceSub] at * <;> omega

/-- the exponent field of the result: `eA − clz + 1` on 8-bit wires is `eA + L − 23` when that is in 1..254 -/
theorem norm_exp (eA L : Nat) (hL : L ≤ 24) (_he : eA ≤ 254) (h1 : 24 ≤ eA + L) (h2 : eA + L ≤ 277) :
    ((eA + 256 - (24 - L)) % 256 + 1) % 256 = eA + L - 23 := by omega

/-- exact relation between the aligned 25-bit sum/difference `mr` and the exact sum, in multiples of
    `V = 2^(eA−1)` (one ulp of the larger operand):  |S| = mr·V ± rrU  with  rrU < V  (the alignment truncation) -/
theorem add_exact (mA mB d eB : Nat) (same : Bool) (mr : Nat)
    (hmr : if same then mr = mA + mB / 2^d else mr + mB / 2^d = mA) :
    ∃ W rrU, rrU < 2^(d + eB) ∧ mB * 2^eB = W + rrU ∧
      (if same then mr * 2^(d + eB) = mA * 2^(d + eB) + W else mr * 2^(d + eB) + W = mA * 2^(d + eB)) := by
  have hD : 0 < 2^d := Nat.two_pow_pos d
  have hU : 0 < 2^eB := Nat.two_pow_pos eB
  have hdm := Nat.div_add_mod mB (2^d)
  have hr : mB % 2^d < 2^d := Nat.mod_lt _ hD
  rw [Nat.pow_add]
  generalize mB / 2^d = q at *
  generalize mB % 2^d = rr at *
  generalize 2^d = D at *
  generalize 2^eB = U at *
  refine ⟨q * (D * U), rr * U, Nat.mul_lt_mul_of_pos_right hr hU, ?_, ?_⟩
  · rw [← hdm, Nat.add_mul, Nat.mul_assoc, Nat.mul_left_comm]
  · cases same
    · simp only [Bool.false_eq_true, if_false] at *
      rw [← hmr, Nat.add_mul]
    · simp only [if_true] at *
      rw [hmr, Nat.add_mul]

/-- value of the normalised result in multiples of `V = 2^(eA−1)`: exact for `L ≤ 23`, bit 0 dropped for `L = 24` -/
theorem norm_value (mr L eA : Nat) (hL : L ≤ 24) (h1 : 2^L ≤ mr) (h2 : mr < 2^(L+1)) (h24 : 24 ≤ eA + L) (heA : 1 ≤ eA) :
    (2^23 + (mr * 2^(24 - L) % 2^25) / 2 % 2^23) * 2^(eA + L - 23 - 1) + (if L = 24 then (mr % 2) * 2^(eA - 1) else 0)
      = mr * 2^(eA - 1) := by
  obtain ⟨n1, n2⟩ := norm_mant mr L hL h1 h2
  by_cases h : L = 24
  · subst h
    rw [n2 rfl, if_pos rfl, show eA + 24 - 23 - 1 = (eA - 1) + 1 by omega, Nat.pow_succ]
    have := Nat.div_add_mod mr 2
    generalize 2^(eA - 1) = V
    rw [← Nat.mul_assoc, Nat.mul_right_comm, ← Nat.add_mul]
    congr 1; omega
  · rw [n1 (by omega), if_neg h, Nat.add_zero, Nat.mul_assoc, ← Nat.pow_add]
    congr 2; omega

/-- the swapped datapath meets the property's bound (`addOk`) AND the tightened one (`addTight`) -/
theorem fpaddCore_strong (A B : Nat) (hA1 : 1 ≤ expOf A) (hA2 : expOf A ≤ 254) (hB1 : 1 ≤ expOf B)
    (hmag : mag B ≤ mag A) (hs : sumNormal A B = true) :
    addOk A B (fpaddCore A B) = true ∧ addTight A B (fpaddCore A B) = true := by
  have hfa := fracOf_lt A
  have hfb := fracOf_lt B
  have hsa := signOf_lt A
  have hsb := signOf_lt B
  have hord : expOf B < expOf A ∨ (expOf B = expOf A ∧ fracOf B ≤ fracOf A) := by
    have := mag_lt_iff A B hA1 hB1
    have h' : ¬ mag A < mag B := by omega
    rw [this] at h'; omega
  have hle : expOf B ≤ expOf A := by omega
  have hEq := fpaddCore_eq A B hA1 hB1 hle
  simp only [] at hEq
  rw [hEq]; clear hEq
  have hMA : mag A = (2^23 + fracOf A) * 2^(expOf A - 1) := rfl
  have hMB : mag B = (2^23 + fracOf B) * 2^(expOf B - 1) := rfl
  have hmA : 2^23 + fracOf A < 2^24 := by omega
  have hmB : 2^23 + fracOf B < 2^24 := by omega
  have hmA' : 2^23 ≤ 2^23 + fracOf A := by omega
  have hmB' : 2^23 ≤ 2^23 + fracOf B := by omega
  have hd0 : expOf A - expOf B = 0 → 2^23 + fracOf B ≤ 2^23 + fracOf A := by omega
  have hsA' : signOf (signOf A * 2^31 + 0) = signOf A := by unfold signOf; omega
  clear hsA'
  generalize 2^23 + fracOf A = mA at *
  generalize 2^23 + fracOf B = mB at *
  generalize hd : expOf A - expOf B = d at *
  have hmb3 : mB / 2^d ≤ mA := by
    by_cases h0 : d = 0
    · subst h0; simp only [Nat.pow_zero, Nat.div_one]; exact hd0 rfl
    · have h2 : 2^1 ≤ 2^d := Nat.pow_le_pow_right (by decide) (by omega)
      have := Nat.div_le_div_left (a := mB) h2 (by decide)
      omega
  -- the aligned sum / difference
  have hrel : ∀ mr, (if signOf A = signOf B then (mA + mB / 2^d) % 2^25 else Leaf.sub 25 mA (mB / 2^d)) = mr →
      (if decide (signOf A = signOf B) then mr = mA + mB / 2^d else mr + mB / 2^d = mA) ∧ mr < 2^25 ∧
      (signOf A ≠ signOf B → mr < 2^24) := by
    intro mr h
    have hq : mB / 2^d ≤ mB := Nat.div_le_self _ _
    generalize mB / 2^d = q at *
    by_cases hsg : signOf A = signOf B
    · rw [if_pos hsg, Nat.mod_eq_of_lt (by omega)] at h
      simp only [hsg, decide_true, if_true]
      omega
    · rw [if_neg hsg, sub_nat 25 _ _ hmb3, Nat.mod_eq_of_lt (by omega)] at h
      simp only [hsg, decide_false, Bool.false_eq_true, if_false]
      omega
  generalize hmrdef : (if signOf A = signOf B then (mA + mB / 2^d) % 2^25 else Leaf.sub 25 mA (mB / 2^d)) = mr
  obtain ⟨hrel1, hmr25, hmr24⟩ := hrel mr hmrdef
  obtain ⟨W, rrU, hrr, hWB, hWA⟩ := add_exact mA mB d (expOf B - 1) (decide (signOf A = signOf B)) mr hrel1
  have hV : d + (expOf B - 1) = expOf A - 1 := by omega
  rw [hV] at hrr hWA
  rw [← hMB] at hWB
  -- the exact sum, as a natural number
  unfold sumNormal inNormalRange sum at hs
  simp only [Bool.and_eq_true, decide_eq_true_eq] at hs
  have hSdef : (sval A + sval B).natAbs = if decide (signOf A = signOf B) then mag A + mag B else mag A - mag B := by
    unfold sval
    have : signOf A = 0 ∨ signOf A = 1 := by omega
    have : signOf B = 0 ∨ signOf B = 1 := by omega
    rcases ‹signOf A = 0 ∨ signOf A = 1› with h1 | h1 <;> rcases ‹signOf B = 0 ∨ signOf B = 1› with h2 | h2 <;>
      simp [h1, h2] <;> omega
  generalize hSn : (sval A + sval B).natAbs = S at *
  obtain ⟨hS1, hS2⟩ := hs
  have hVpos : 0 < 2^(expOf A - 1) := Nat.two_pow_pos _
  rw [hMA] at hSdef
  have hMApos : 2^23 * 1 ≤ mA * 2^(expOf A - 1) := Nat.mul_le_mul hmA' hVpos
  -- mr ≠ 0
  have hmr0 : mr ≠ 0 := by
    intro h0
    subst h0
    rw [Nat.zero_mul] at hWA
    by_cases hsg : signOf A = signOf B
    · simp only [hsg, decide_true, if_true] at hWA hSdef; omega
    · simp only [hsg, decide_false, Bool.false_eq_true, if_false] at hWA hSdef; omega
  have h1L : 2^mr.log2 ≤ mr := Nat.log2_self_le hmr0
  have h2L : mr < 2^(mr.log2 + 1) := Nat.lt_log2_self
  have hL : mr.log2 ≤ 24 := by have := (Nat.log2_lt hmr0).mpr hmr25; omega
  have hLd : signOf A ≠ signOf B → mr.log2 ≤ 23 := fun h => by have := (Nat.log2_lt hmr0).mpr (hmr24 h); omega
  have hLs : signOf A = signOf B → 23 ≤ mr.log2 := fun h => by
    apply (Nat.le_log2 hmr0).mpr
    simp only [h, decide_true, if_true] at hrel1
    rw [hrel1]; exact Nat.le_trans hmA' (Nat.le_add_right _ _)
  generalize mr.log2 = L at *
  -- S in terms of mr·V
  have hSlt : S < mr * 2^(expOf A - 1) + 2^(expOf A - 1) ∧ (signOf A = signOf B → mr * 2^(expOf A - 1) ≤ S) := by
    by_cases hsg : signOf A = signOf B
    · simp only [hsg, decide_true, if_true] at hWA hSdef; omega
    · simp only [hsg, decide_false, Bool.false_eq_true, if_false] at hWA hSdef; omega
  -- exponent range
  have h24 : 24 ≤ expOf A + L := by
    have e1 : (mr + 1) * 2^(expOf A - 1) ≤ 2^(L + 1) * 2^(expOf A - 1) := Nat.mul_le_mul_right _ h2L
    rw [Nat.add_mul, Nat.one_mul, ← Nat.pow_add] at e1
    have : 2^23 < 2^(L + 1 + (expOf A - 1)) := by omega
    have := (Nat.pow_lt_pow_iff_right (by decide)).mp this
    omega
  have h277 : expOf A + L ≤ 277 := by
    by_cases h : L = 24
    · subst h
      have hsg : signOf A = signOf B := by
        apply Classical.byContradiction; intro hn; have := hLd hn; omega
      have e1 : 2^24 * 2^(expOf A - 1) ≤ mr * 2^(expOf A - 1) := Nat.mul_le_mul_right _ h1L
      rw [← Nat.pow_add] at e1
      have : 2^(24 + (expOf A - 1)) < 2^277 := by have := hSlt.2 hsg; omega
      have := (Nat.pow_lt_pow_iff_right (by decide)).mp this
      omega
    · omega
  have her1 : 1 ≤ expOf A + L - 23 := by omega
  have her2 : expOf A + L - 23 ≤ 254 := by
    by_cases h : L = 24
    · subst h
      have hsg : signOf A = signOf B := by
        apply Classical.byContradiction; intro hn; have := hLd hn; omega
      have e1 : 2^24 * 2^(expOf A - 1) ≤ mr * 2^(expOf A - 1) := Nat.mul_le_mul_right _ h1L
      rw [← Nat.pow_add] at e1
      have : 2^(24 + (expOf A - 1)) < 2^277 := by have := hSlt.2 hsg; omega
      have := (Nat.pow_lt_pow_iff_right (by decide)).mp this
      omega
    · omega
  -- the result word
  simp only [hmr0, if_false]
  rw [norm_exp (expOf A) L hL hA2 h24 h277]
  have hfr : (mr * 2^(24 - L) % 2^25) / 2 % 2^23 < 2^23 := Nat.mod_lt _ (by decide)
  obtain ⟨w1, w2, w3, w4⟩ := fields_of_word (signOf A) (expOf A + L - 23) _ hsa (by simp only [Nat.reducePow]; omega) hfr
  have hnv := norm_value mr L (expOf A) hL h1L h2L h24 hA1
  have hX : (if L = 24 then (mr % 2) * 2^(expOf A - 1) else 0) ≤ 2^(expOf A - 1) := by
    split
    · have : mr % 2 ≤ 1 := by omega
      have := Nat.mul_le_mul_right (2^(expOf A - 1)) this
      omega
    · omega
  have hX0 : L ≠ 24 → (if L = 24 then (mr % 2) * 2^(expOf A - 1) else 0) = 0 := fun h => if_neg h
  generalize (if L = 24 then (mr % 2) * 2^(expOf A - 1) else 0) = X at *
  generalize hfrdef : (mr * 2^(24 - L) % 2^25) / 2 % 2^23 = fr at *
  generalize signOf A * 2^31 + ((expOf A + L - 23) * 2^23 + fr) = r at *
  have hMR : mag r = (2^23 + fr) * 2^(expOf A + L - 23 - 1) := by unfold mag mant; rw [w3, w4]
  have hMRpos := mag_pos r
  have hU : ulpMax A B = 2^(expOf A - 1) := by unfold ulpMax; rw [Nat.max_eq_left hle]
  have hUr : ulp r = 2^(expOf A + L - 23 - 1) := by unfold ulp; rw [w3]
  have hU23 : L = 23 → 2^(expOf A + L - 23 - 1) = 2^(expOf A - 1) := fun h => by subst h; congr 1
  have hU24 : L = 24 → 2^(expOf A + L - 23 - 1) = 2 * 2^(expOf A - 1) := fun h => by
    subst h; rw [show expOf A + 24 - 23 - 1 = (expOf A - 1) + 1 by omega, Nat.pow_succ]; omega
  rw [← hMR] at hnv
  have hsgA : signOf A = 0 ∨ signOf A = 1 := by omega
  have hsgB : signOf B = 0 ∨ signOf B = 1 := by omega
  refine ⟨?_, ?_⟩
  · unfold addOk normal
    rw [hU]
    simp only [Bool.and_eq_true, decide_eq_true_eq]
    unfold sum sval
    rw [w2]
    refine ⟨⟨⟨⟨w1, by omega⟩, by omega⟩, ?_⟩, ?_⟩
    · rcases hsgA with h1 | h1 <;> rcases hsgB with h2 | h2 <;> simp [h1, h2] at hWA hSdef ⊢ <;> omega
    · rcases hsgA with h1 | h1 <;> rcases hsgB with h2 | h2 <;> simp [h1, h2] at hWA hSdef ⊢ <;> omega
  · unfold addTight
    rw [hU, hUr]
    unfold sum sval
    rw [w2]
    generalize 2^(expOf A + L - 23 - 1) = Ur at *
    by_cases hsg : signOf A = signOf B
    · rw [if_pos hsg]
      simp only [Bool.and_eq_true, decide_eq_true_eq]
      have hL2 : L = 23 ∨ L = 24 := by have := hLs hsg; omega
      rcases hL2 with l | l
      · have u := hU23 l
        have x0 := hX0 (by omega)
        rcases hsgA with h1 | h1 <;> rcases hsgB with h2 | h2 <;> simp [h1, h2] at hWA hSdef hsg ⊢ <;> omega
      · have u := hU24 l
        rcases hsgA with h1 | h1 <;> rcases hsgB with h2 | h2 <;> simp [h1, h2] at hWA hSdef hsg ⊢ <;> omega
    · rw [if_neg hsg]
      simp only [Bool.and_eq_true, decide_eq_true_eq]
      have x0 := hX0 (by have := hLd hsg; omega)
      rcases hsgA with h1 | h1 <;> rcases hsgB with h2 | h2 <;> simp [h1, h2] at hWA hSdef hsg ⊢ <;> omega

theorem fpaddCore_ulp (A B : Nat) (hA1 : 1 ≤ expOf A) (hA2 : expOf A ≤ 254) (hB1 : 1 ≤ expOf B)
    (hmag : mag B ≤ mag A) (hs : sumNormal A B = true) : addOk A B (fpaddCore A B) = true :=
  (fpaddCore_strong A B hA1 hA2 hB1 hmag hs).1

theorem addOk_comm (a b r : Nat) : addOk a b r = addOk b a r := by
  unfold addOk sum ulpMax; rw [Int.add_comm, Nat.max_comm]

theorem addTight_comm (a b r : Nat) : addTight a b r = addTight b a r := by
  unfold addTight sum ulpMax
  rw [Int.add_comm, Nat.max_comm]
  by_cases h : signOf a = signOf b
  · rw [if_pos h, if_pos h.symm]
  · rw [if_neg h, if_neg (fun h' => h h'.symm)]

theorem sumNormal_comm (a b : Nat) : sumNormal a b = sumNormal b a := by
  unfold sumNormal sum; rw [Int.add_comm]

/-- FPAdder_SP with the magnitude swap: operands with exponent fields 1..254, exact sum normal -/
theorem fpadd_sign_ulp' (a b : Nat) (ha : a < 2^32) (hb : b < 2^32) (ha1 : 1 ≤ expOf a) (ha2 : expOf a ≤ 254)
    (hb1 : 1 ≤ expOf b) (hb2 : expOf b ≤ 254) (hs : sumNormal a b = true) : addOk a b (fpadd a b) = true := by
  rw [fpadd_swap a b ha hb]
  have hlt := mag_lt_iff a b ha1 hb1
  by_cases h : (expOf a < expOf b ∨ (expOf a = expOf b ∧ fracOf a < fracOf b))
  · rw [if_pos h, addOk_comm]
    exact fpaddCore_ulp b a hb1 hb2 ha1 (Nat.le_of_lt (hlt.mpr h)) (by rw [sumNormal_comm]; exact hs)
  · rw [if_neg h]
    exact fpaddCore_ulp a b ha1 ha2 hb1 (by have := mt hlt.mp h; omega) hs

/-- the tightened bounds for FPAdder_SP with the magnitude swap -/
theorem fpadd_tight' (a b : Nat) (ha : a < 2^32) (hb : b < 2^32) (ha1 : 1 ≤ expOf a) (ha2 : expOf a ≤ 254)
    (hb1 : 1 ≤ expOf b) (hb2 : expOf b ≤ 254) (hs : sumNormal a b = true) : addTight a b (fpadd a b) = true := by
  rw [fpadd_swap a b ha hb]
  have hlt := mag_lt_iff a b ha1 hb1
  by_cases h : (expOf a < expOf b ∨ (expOf a = expOf b ∧ fracOf a < fracOf b))
  · rw [if_pos h, addTight_comm]
    exact (fpaddCore_strong b a hb1 hb2 ha1 (Nat.le_of_lt (hlt.mpr h)) (by rw [sumNormal_comm]; exact hs)).2
  · rw [if_neg h]
    exact (fpaddCore_strong a b ha1 ha2 hb1 (by have := mt hlt.mp h; omega) hs).2

end C13
