import Py4hwV.Proofs.C02Expr
/- C02: the main structural induction (value and condition statements proved together) -/
namespace C02
open Tp

variable {c : ClassD} {ρ : Env} {r : V.Rd}

theorem sw_nonport_leaf {e : Expr} (hl : leaf e = true) (hok : okV c e = true) (hg : isGet e = false) : sw c e = 32 := by
  cases e with
  | const k => rfl
  | loc n =>
    simp only [okV, Bool.and_eq_true, Bool.not_eq_eq_eq_not, Bool.not_true] at hok
    simp [sw, isPort_false hok.1]
  | attr n =>
    simp only [okV, Bool.not_eq_eq_eq_not, Bool.not_true] at hok
    simp [sw, isPort_false hok]
  | get n => simp [isGet] at hg
  | par n =>
    simp only [okV, Bool.and_eq_true, Bool.not_eq_eq_eq_not, Bool.not_true] at hok
    simp [sw, isPort_false hok.2]
  | un op e => simp [leaf] at hl
  | bin op a b => simp [leaf] at hl
  | cmp op a b => simp [leaf] at hl
  | and a b => simp [leaf] at hl
  | or a b => simp [leaf] at hl
  | ite cnd a b => simp [leaf] at hl

/-- a self-determined position that is `exact` computes the Python value at its own width -/
theorem exact_eval {e : Expr} (ht : Typed c r e) (hv : ValOK c ρ r e) (hok : okV c e = true) (hx : exact c e = true)
    (v : Int) (he : evalD ρ e = some v) (sg : Bool) (hsg : sg = true → V.isSg r (trE c e) = true) :
    V.eval r (V.selfW r (trE c e)) sg (trE c e) = ⟨V.selfW r (trE c e), v.toNat, true⟩ := by
  apply hv v _ sg hok he _ (Nat.le_refl _) hsg
  by_cases hg : isGet e = true
  · exact Or.inr hg
  · left
    rw [selfW_trE c r e ht]
    simp only [exact, Bool.or_eq_true, decide_eq_true_eq] at hx
    rcases hx with hl | h32
    · rw [sw_nonport_leaf hl hok (by simpa using hg)]; exact Nat.le_refl _
    · exact h32

/-! leaves -/
theorem val_const (k : Int) : ValOK c ρ r (.const k) := by
  intro v W sg _ he hW _ _
  simp only [evalD] at he
  split at he
  · rename_i hd
    simp only [Option.some.injEq] at he; subst he
    have hW' : 32 ≤ W := by simpa [isGet] using hW
    exact eval_numE r W sg k hW' hd
  · simp at he

theorem val_loc (hA : Agree c ρ r) (n : String) : ValOK c ρ r (.loc n) := by
  intro v W sg hok he hW _ _
  have hW' : 32 ≤ W := by simpa [isGet] using hW
  simp only [okV, Bool.and_eq_true, Bool.not_eq_eq_eq_not, Bool.not_true, Option.isNone_iff_eq_none] at hok
  simp only [evalD] at he
  split at he
  · rename_i x hx
    split at he
    · rename_i hd
      simp only [Option.some.injEq] at he; subst he
      have : trE c (.loc n) = .id n := by simp [trE, resolveName, hok.1, hok.2]
      rw [this]
      exact eval_id_int r W sg n x hW' hd (hA.loc n x hx hd hok.1)
    · simp at he
  · simp at he

theorem val_attr (hA : Agree c ρ r) (n : String) : ValOK c ρ r (.attr n) := by
  intro v W sg hok he hW _ _
  have hW' : 32 ≤ W := by simpa [isGet] using hW
  simp only [okV, Bool.not_eq_eq_eq_not, Bool.not_true] at hok
  simp only [evalD] at he
  split at he
  · rename_i x hx
    split at he
    · rename_i hd
      simp only [Option.some.injEq] at he; subst he
      by_cases hs : isState c n = true
      · have : trE c (.attr n) = .id n := by simp [trE, resolveName, hok, hs]
        rw [this]
        exact eval_id_int r W sg n x hW' hd (hA.att n x hx hd hok (Or.inl hs))
      · have hs' : isState c n = false := by simpa using hs
        cases hk : lookup c.consts n with
        | none =>
          have : trE c (.attr n) = .id n := by simp [trE, resolveName, hok, hs', hk]
          rw [this]
          exact eval_id_int r W sg n x hW' hd (hA.att n x hx hd hok (Or.inr hk))
        | some k =>
          have : trE c (.attr n) = numE k := by simp [trE, resolveName, hok, hs', hk]
          rw [this]
          have := hA.cst n x k hx hs' hk
          subst this
          exact eval_numE r W sg x hW' hd
    · simp at he
  · simp at he

theorem val_par (hA : Agree c ρ r) (n : String) : ValOK c ρ r (.par n) := by
  intro v W sg hok he hW _ _
  have hW' : 32 ≤ W := by simpa [isGet] using hW
  simp only [okV, Bool.and_eq_true, Bool.not_eq_eq_eq_not, Bool.not_true] at hok
  simp only [evalD] at he
  split at he
  · rename_i x hx
    split at he
    · rename_i hd
      simp only [Option.some.injEq] at he; subst he
      simp only [trE]
      exact eval_id_int r W sg n x hW' hd (hA.par n x hx hd hok.2)
    · simp at he
  · simp at he

theorem val_get (hA : Agree c ρ r) (n : String) (ht : Typed c r (.get n)) : ValOK c ρ r (.get n) := by
  intro v W sg hok he _ hw hsg
  simp only [okV] at hok
  obtain ⟨p, hp⟩ := isPort_true hok
  have hinfo := ht n (by simp [allNames])
  simp only [evalD] at he
  split at he
  · rename_i x hx
    split at he
    · simp only [Option.some.injEq] at he; subst he
      obtain ⟨_, hlt, hval⟩ := hA.wire n x p hx hp
      have hsgf : sg = false := by
        cases sg
        · rfl
        · have := hsg rfl
          simp [trE, V.isSg, signedOf_typed hinfo, hp] at this
      subst hsgf
      have hwid : p.width ≤ W := by
        have := hw
        simp only [trE, V.selfW, widthOf_typed hinfo, hp] at this
        exact this
      simp only [trE, V.eval, hval]
      exact ext_port hwid hlt
    · simp at he
  · simp at he

/-! unary -/
theorem val_neg_inv {op : UnOp} {e : Expr} (hop : op ≠ .lnot) (ih : ValOK c ρ r e) : ValOK c ρ r (.un op e) := by
  intro v W sg hok he hW hw hsg
  have hW' : 32 ≤ W := by simpa [isGet] using hW
  have hoke : okV c e = true := by cases op <;> simp_all [okV]
  simp only [evalD] at he
  split at he
  · rename_i a ha
    split at he
    · rename_i hd
      simp only [Option.some.injEq] at he; subst he
      have hda := (inDom_iff a).1 (evalD_inDom ρ e a ha)
      have hdv := (inDom_iff _).1 hd
      cases op with
      | lnot => exact absurd rfl hop
      | inv => simp only [unop, Py.lnot] at hdv; omega
      | neg =>
        simp only [unop] at hdv
        have ha0 : a = 0 := by omega
        subst ha0
        have hsw : V.selfW r (trE c e) ≤ W := by
          simpa [trE, V.selfW, vUn, Gen.TranspileOps.unSym] using hw
        have hsg' : sg = true → V.isSg r (trE c e) = true := by
          intro h; simpa [trE, V.isSg, vUn, Gen.TranspileOps.unSym] using hsg h
        have := ih 0 W sg hoke ha (Or.inl hW') hsw hsg'
        simp [trE, vUn, Gen.TranspileOps.unSym, V.eval, this, unop, V.BV.mk']
    · simp at he
  · simp at he

theorem lnot_core {e : Expr} (ih : CondOK c ρ r e) (a : Int) (hok : okC c e = true) (ha : evalD ρ e = some a) (W : Nat) (sg : Bool)
    (hW : 1 ≤ W) :
    V.eval r W sg (trE c (.un .lnot e)) = ⟨W, (Py.ofBool (!Py.truthy a)).toNat, true⟩ := by
  have h := truthy_some (ih a hok ha)
  simp only [trE, vUn, Gen.TranspileOps.unSym, V.eval]
  simp only [show ("lnot" == "not") = false by decide, show ("lnot" == "neg") = false by decide, Bool.false_eq_true, if_false,
    h.1, Bool.not_true, show ("lnot" == "lnot") = true by decide, if_true]
  rw [ext_b1 _ hW]
  have h2 := h.2
  cases hb : Py.truthy a
  · rw [hb] at h2
    have : (V.eval r (V.selfW r (trE c e)) (V.isSg r (trE c e)) (trE c e)).v = 0 := by simpa using h2
    simp [this, Py.ofBool]
  · rw [hb] at h2
    have : (V.eval r (V.selfW r (trE c e)) (V.isSg r (trE c e)) (trE c e)).v ≠ 0 := by simpa using h2
    simp [this, Py.ofBool]

theorem val_lnot {e : Expr} (ih : CondOK c ρ r e) : ValOK c ρ r (.un .lnot e) := by
  intro v W sg hok he hW _ _
  have hW' : 32 ≤ W := by simpa [isGet] using hW
  simp only [okV] at hok
  simp only [evalD] at he
  split at he
  · rename_i a ha
    split at he
    · simp only [Option.some.injEq] at he; subst he
      exact lnot_core ih a hok ha W sg (by omega)
    · simp at he
  · simp at he

theorem cond_lnot {e : Expr} (ih : CondOK c ρ r e) : CondOK c ρ r (.un .lnot e) := by
  intro v hok he
  simp only [okC] at hok
  simp only [evalD] at he
  split at he
  · rename_i a ha
    split at he
    · simp only [Option.some.injEq] at he; subst he
      have hs : V.selfW r (trE c (.un .lnot e)) = 1 := by simp [trE, vUn, Gen.TranspileOps.unSym, V.selfW]
      rw [hs, lnot_core ih a hok ha 1 _ (Nat.le_refl _)]
      exact truthy_IV (by cases (!Py.truthy a) <;> simp [Py.ofBool])
    · simp at he
  · simp at he

/-! binary arithmetic / bitwise / shifts -/
theorem typed_bin_l {op : BinOp} {a b : Expr} (h : Typed c r (.bin op a b)) : Typed c r a :=
  fun n hn => h n (by simp [allNames, hn])
theorem typed_bin_r {op : BinOp} {a b : Expr} (h : Typed c r (.bin op a b)) : Typed c r b :=
  fun n hn => h n (by simp [allNames, hn])

theorem val_bin {op : BinOp} {a b : Expr} (ht : Typed c r (.bin op a b)) (iha : ValOK c ρ r a) (ihb : ValOK c ρ r b) :
    ValOK c ρ r (.bin op a b) := by
  intro v W sg hok he hW hw hsg
  have hW' : 32 ≤ W := by simpa [isGet] using hW
  have h31 := two31_lt W hW'
  rw [okV] at hok
  simp only [Bool.and_eq_true, Bool.or_eq_true, Bool.not_eq_eq_eq_not, Bool.not_true] at hok
  have hoka : okV c a = true := hok.1.1
  have hokb : okV c b = true := hok.1.2
  simp only [evalD] at he
  split at he
  · rename_i x y hx hy
    split at he
    · rename_i vv hbin
      split at he
      · rename_i hd
        simp only [Option.some.injEq] at he; subst he
        obtain ⟨m, rfl, hm⟩ := dom_nat (evalD_inDom ρ a x hx)
        obtain ⟨n, rfl, hn⟩ := dom_nat (evalD_inDom ρ b y hy)
        by_cases hsh : op = .shl ∨ op = .shr
        · -- shifts: left operand in the context, amount self-determined
          have hexb : exact c b = true := by
            rcases hsh with h | h <;> (subst h; simpa [isShiftOp] using hok.2)
          have hswa : V.selfW r (trE c a) ≤ W := by
            rcases hsh with h | h <;> (subst h; simpa [trE, V.selfW, vBin, Gen.TranspileOps.binSym, V.isRel, V.isLog, V.isShift] using hw)
          have hsga : sg = true → V.isSg r (trE c a) = true := by
            intro hs
            rcases hsh with h | h <;> (subst h; simpa [trE, V.isSg, vBin, Gen.TranspileOps.binSym, V.isRel, V.isLog, V.isShift] using hsg hs)
          have ea := iha _ W sg hoka hx (Or.inl hW') hswa hsga
          have eb := exact_eval (typed_bin_r ht) ihb hokb hexb _ hy false (by simp)
          rcases hsh with h | h
          · subst h
            simp only [binop] at hbin
            split at hbin
            · cases hbin
            · simp only [Except.ok.injEq] at hbin
              subst hbin
              rw [Int.toNat_natCast, py_shl] at *
              have hlt := inDom_nat.1 hd
              simp only [trE, vBin, Gen.TranspileOps.binSym, V.eval, show V.isRel "shl" = false by decide,
                show V.isLog "shl" = false by decide, show V.isShift "shl" = true by decide, Bool.false_eq_true, if_false, if_true,
                ea, eb, Int.toNat_natCast, Bool.and_self, Bool.not_true, show ("shl" == "shl") = true by decide, V.BV.mk']
              rw [Nat.mod_eq_of_lt (by omega)]
          · subst h
            simp only [binop] at hbin
            split at hbin
            · cases hbin
            · simp only [Except.ok.injEq] at hbin
              subst hbin
              rw [Int.toNat_natCast, py_shr] at *
              simp only [trE, vBin, Gen.TranspileOps.binSym, V.eval, show V.isRel "shr" = false by decide,
                show V.isLog "shr" = false by decide, show V.isShift "shr" = true by decide, Bool.false_eq_true, if_false, if_true,
                ea, eb, Int.toNat_natCast, Bool.and_self, Bool.not_true, show ("shr" == "shl") = false by decide,
                show ("shr" == "ashr") = false by decide, Bool.false_and]
        · have hs1 : op ≠ .shl := fun h => hsh (Or.inl h)
          have hs2 : op ≠ .shr := fun h => hsh (Or.inr h)
          have hnr : V.isRel (vBin (Gen.TranspileOps.binSym op)) = false := by cases op <;> decide
          have hnl : V.isLog (vBin (Gen.TranspileOps.binSym op)) = false := by cases op <;> decide
          have hns : V.isShift (vBin (Gen.TranspileOps.binSym op)) = false := by
            cases op <;> first | decide | exact absurd rfl hs1 | exact absurd rfl hs2
          have hswab : V.selfW r (trE c a) ≤ W ∧ V.selfW r (trE c b) ≤ W := by
            have := hw
            simp only [trE, V.selfW, hnr, hnl, hns, Bool.false_eq_true, if_false, Bool.or_self] at this
            omega
          have hsgab : sg = true → V.isSg r (trE c a) = true ∧ V.isSg r (trE c b) = true := by
            intro hs
            have := hsg hs
            simpa [trE, V.isSg, hnr, hnl, hns] using this
          have ea := iha _ W sg hoka hx (Or.inl hW') hswab.1 (fun h => (hsgab h).1)
          have eb := ihb _ W sg hokb hy (Or.inl hW') hswab.2 (fun h => (hsgab h).2)
          simp only [trE]
          rw [eval_arith r W sg _ _ _ hnr hnl hns, ea, eb, Int.toNat_natCast, Int.toNat_natCast]
          exact binop_sound op W sg m n vv hW' hm hn hbin hd hs1 hs2
      · simp at he
    · simp at he
  · simp at he

/-! comparisons -/
theorem rel_IV (op : CmpOp) (s : Bool) (m : Nat) (x y : Int) (hx : inDom x = true) (hy : inDom y = true)
    (hs : s = true → 32 ≤ m) :
    V.rel (vBin (Gen.TranspileOps.cmpSym op)) s ⟨m, x.toNat, true⟩ ⟨m, y.toNat, true⟩ = V.b1 (cmpop op x y) := by
  obtain ⟨a, rfl, ha⟩ := dom_nat hx
  obtain ⟨b, rfl, hb⟩ := dom_nat hy
  simp only [Int.toNat_natCast]
  have hp : (if s = true then (V.toInt ⟨m, a, true⟩, V.toInt ⟨m, b, true⟩) else ((a : Int), (b : Int))) = ((a : Int), (b : Int)) := by
    cases s
    · simp
    · simp [toInt_small (hs rfl) ha, toInt_small (hs rfl) hb]
  unfold V.rel
  simp only [Bool.and_self, Bool.not_true, Bool.false_eq_true, if_false, hp]
  cases op <;> simp [vBin, Gen.TranspileOps.cmpSym, cmpop]

theorem isSg_get_false {n : String} (ht : r.info n = typing c n) (hp : isPort c n = true) : V.isSg r (trE c (.get n)) = false := by
  obtain ⟨p, hp⟩ := isPort_true hp
  simp [trE, V.isSg, signedOf_typed ht, hp]

theorem isGet_of_narrow_leaf {e : Expr} (hl : leaf e = true) (hok : okV c e = true) (hn : sw c e < 32) : isGet e = true := by
  by_cases hg : isGet e = true
  · exact hg
  · have := sw_nonport_leaf hl hok (by simpa using hg)
    omega

theorem rel_core {op : CmpOp} {a b : Expr} (ht : Typed c r (.cmp op a b)) (iha : ValOK c ρ r a) (ihb : ValOK c ρ r b)
    (hok : okV c (.cmp op a b) = true) (x y : Int) (hx : evalD ρ a = some x) (hy : evalD ρ b = some y) :
    V.rel (vBin (Gen.TranspileOps.cmpSym op)) (V.isSg r (trE c a) && V.isSg r (trE c b))
      (V.eval r (max (V.selfW r (trE c a)) (V.selfW r (trE c b))) (V.isSg r (trE c a) && V.isSg r (trE c b)) (trE c a))
      (V.eval r (max (V.selfW r (trE c a)) (V.selfW r (trE c b))) (V.isSg r (trE c a) && V.isSg r (trE c b)) (trE c b))
    = V.b1 (cmpop op x y) := by
  have hta : Typed c r a := fun n hn => ht n (by simp [allNames, hn])
  have htb : Typed c r b := fun n hn => ht n (by simp [allNames, hn])
  rw [okV] at hok
  simp only [Bool.and_eq_true, Bool.or_eq_true, decide_eq_true_eq] at hok
  obtain ⟨⟨hoka, hokb⟩, hwide⟩ := hok
  have hsa := selfW_trE c r a hta
  have hsb := selfW_trE c r b htb
  have hdx := evalD_inDom ρ a x hx
  have hdy := evalD_inDom ρ b y hy
  by_cases h32 : 32 ≤ max (sw c a) (sw c b)
  · have ea := iha x (max (V.selfW r (trE c a)) (V.selfW r (trE c b))) (V.isSg r (trE c a) && V.isSg r (trE c b)) hoka hx
      (Or.inl (by rw [hsa, hsb]; exact h32)) (Nat.le_max_left _ _) (fun h => by simp only [Bool.and_eq_true] at h; exact h.1)
    have eb := ihb y (max (V.selfW r (trE c a)) (V.selfW r (trE c b))) (V.isSg r (trE c a) && V.isSg r (trE c b)) hokb hy
      (Or.inl (by rw [hsa, hsb]; exact h32)) (Nat.le_max_right _ _) (fun h => by simp only [Bool.and_eq_true] at h; exact h.2)
    rw [ea, eb]
    exact rel_IV op _ _ x y hdx hdy (fun _ => by rw [hsa, hsb]; exact h32)
  · have hll : leaf a = true ∧ leaf b = true := by
      rcases hwide with h | h
      · exact absurd h h32
      · exact h
    have hga := isGet_of_narrow_leaf hll.1 hoka (by omega)
    have hgb := isGet_of_narrow_leaf hll.2 hokb (by omega)
    have hsf : (V.isSg r (trE c a) && V.isSg r (trE c b)) = false := by
      cases a <;> simp [isGet] at hga
      rename_i n
      rw [okV] at hoka
      rw [isSg_get_false (hta n (by simp [allNames])) hoka]
      rfl
    have ea := iha x (max (V.selfW r (trE c a)) (V.selfW r (trE c b))) (V.isSg r (trE c a) && V.isSg r (trE c b)) hoka hx
      (Or.inr hga) (Nat.le_max_left _ _) (fun h => by simp only [Bool.and_eq_true] at h; exact h.1)
    have eb := ihb y (max (V.selfW r (trE c a)) (V.selfW r (trE c b))) (V.isSg r (trE c a) && V.isSg r (trE c b)) hokb hy
      (Or.inr hgb) (Nat.le_max_right _ _) (fun h => by simp only [Bool.and_eq_true] at h; exact h.2)
    rw [ea, eb, hsf]
    exact rel_IV op false _ x y hdx hdy (fun h => by simp at h)

theorem isRel_cmp (op : CmpOp) : V.isRel (vBin (Gen.TranspileOps.cmpSym op)) = true := by cases op <;> decide

theorem ofBool_toNat (b : Bool) : (Py.ofBool b).toNat = if b then 1 else 0 := by cases b <;> rfl

theorem val_cmp {op : CmpOp} {a b : Expr} (ht : Typed c r (.cmp op a b)) (iha : ValOK c ρ r a) (ihb : ValOK c ρ r b) :
    ValOK c ρ r (.cmp op a b) := by
  intro v W sg hok he hW _ _
  have hW' : 32 ≤ W := by simpa [isGet] using hW
  simp only [evalD] at he
  split at he
  · rename_i x y hx hy
    simp only [Option.some.injEq] at he; subst he
    simp only [trE]
    rw [eval_rel r W sg _ _ _ (isRel_cmp op), rel_core ht iha ihb hok x y hx hy, ext_b1 _ (by omega), ofBool_toNat]
  · simp at he

theorem cond_cmp {op : CmpOp} {a b : Expr} (ht : Typed c r (.cmp op a b)) (iha : ValOK c ρ r a) (ihb : ValOK c ρ r b) :
    CondOK c ρ r (.cmp op a b) := by
  intro v hok he
  rw [okC] at hok
  simp only [evalD] at he
  split at he
  · rename_i x y hx hy
    simp only [Option.some.injEq] at he; subst he
    have hs : V.selfW r (trE c (.cmp op a b)) = 1 := by simp [trE, V.selfW, isRel_cmp]
    rw [hs]
    simp only [trE]
    rw [eval_rel r 1 _ _ _ _ (isRel_cmp op), rel_core ht iha ihb hok x y hx hy, ext_b1 _ (Nat.le_refl _)]
    cases cmpop op x y <;> rfl
  · simp at he

/-! and / or -/
theorem eval_land (W : Nat) (sg : Bool) (a b : V.Expr) :
    V.eval r W sg (.bin "land" a b) = V.ext W false
      (match V.truthy (V.eval r (V.selfW r a) (V.isSg r a) a), V.truthy (V.eval r (V.selfW r b) (V.isSg r b) b) with
        | some p, some q => V.b1 (p && q)
        | some p, none => if p then V.BV.x 1 else V.b1 false
        | none, some q => if q then V.BV.x 1 else V.b1 false
        | none, none => V.BV.x 1) := by
  simp only [V.eval, show V.isRel "land" = false by decide, show V.isLog "land" = true by decide, Bool.false_eq_true, if_false, if_true,
    show ("land" == "land") = true by decide]
  generalize V.truthy (V.eval r (V.selfW r a) (V.isSg r a) a) = x
  generalize V.truthy (V.eval r (V.selfW r b) (V.isSg r b) b) = y
  cases x <;> cases y <;> rfl

theorem eval_lor (W : Nat) (sg : Bool) (a b : V.Expr) :
    V.eval r W sg (.bin "lor" a b) = V.ext W false
      (match V.truthy (V.eval r (V.selfW r a) (V.isSg r a) a), V.truthy (V.eval r (V.selfW r b) (V.isSg r b) b) with
        | some p, some q => V.b1 (p || q)
        | some p, none => if p then V.b1 true else V.BV.x 1
        | none, some q => if q then V.b1 true else V.BV.x 1
        | none, none => V.BV.x 1) := by
  simp only [V.eval, show V.isRel "lor" = false by decide, show V.isLog "lor" = true by decide, Bool.false_eq_true, if_false, if_true,
    show ("lor" == "land") = false by decide]
  generalize V.truthy (V.eval r (V.selfW r a) (V.isSg r a) a) = x
  generalize V.truthy (V.eval r (V.selfW r b) (V.isSg r b) b) = y
  cases x <;> cases y <;> rfl

/-- `a and b`: whatever the second operand does when Python short-circuits, the Verilog result is the truth value of
    the Python result -/
theorem and_core {a b : Expr} (iha : CondOK c ρ r a) (ihb : CondOK c ρ r b) (hoka : okC c a = true) (hokb : okC c b = true)
    (v : Int) (he : evalD ρ (.and a b) = some v) (W : Nat) (sg : Bool) (hW : 1 ≤ W) :
    V.eval r W sg (trE c (.and a b)) = ⟨W, if Py.truthy v then 1 else 0, true⟩ := by
  simp only [evalD] at he
  split at he
  · rename_i x hx
    have hxa := iha x hoka hx
    simp only [trE, vBin, Gen.TranspileOps.andSym]
    rw [eval_land, hxa]
    split at he
    · rename_i htx
      have hyb := ihb v hokb he
      rw [hyb, htx]
      simp only [Bool.true_and]
      exact ext_b1 _ hW
    · rename_i htx
      simp only [Option.some.injEq] at he; subst he
      have htx' : Py.truthy x = false := by simpa using htx
      rw [htx']
      cases V.truthy (V.eval r (V.selfW r (trE c b)) (V.isSg r (trE c b)) (trE c b)) with
      | none => simpa using ext_b1 false hW
      | some q => simpa using ext_b1 false hW
  · simp at he

theorem or_core {a b : Expr} (iha : CondOK c ρ r a) (ihb : CondOK c ρ r b) (hoka : okC c a = true) (hokb : okC c b = true)
    (v : Int) (he : evalD ρ (.or a b) = some v) (W : Nat) (sg : Bool) (hW : 1 ≤ W) :
    V.eval r W sg (trE c (.or a b)) = ⟨W, if Py.truthy v then 1 else 0, true⟩ := by
  simp only [evalD] at he
  split at he
  · rename_i x hx
    have hxa := iha x hoka hx
    simp only [trE, vBin, Gen.TranspileOps.orSym]
    rw [eval_lor, hxa]
    split at he
    · rename_i htx
      simp only [Option.some.injEq] at he; subst he
      rw [htx]
      cases V.truthy (V.eval r (V.selfW r (trE c b)) (V.isSg r (trE c b)) (trE c b)) with
      | none => simpa using ext_b1 true hW
      | some q => simpa using ext_b1 true hW
    · rename_i htx
      have htx' : Py.truthy x = false := by simpa using htx
      have hyb := ihb v hokb he
      rw [hyb, htx']
      simp only [Bool.false_or]
      exact ext_b1 _ hW
  · simp at he

theorem truthy_01 {v : Int} (h : v = 0 ∨ v = 1) : (if Py.truthy v then 1 else 0) = v.toNat := by
  rcases h with h | h <;> subst h <;> rfl

theorem val_and {a b : Expr} (iha : CondOK c ρ r a) (ihb : CondOK c ρ r b) : ValOK c ρ r (.and a b) := by
  intro v W sg hok he hW _ _
  have hW' : 32 ≤ W := by simpa [isGet] using hW
  rw [okV] at hok
  simp only [Bool.and_eq_true] at hok
  rw [and_core iha ihb hok.1.1.1 hok.1.1.2 v he W sg (by omega)]
  have := isBool_01 ρ (.and a b) v (by simp [isBool, hok.1.2, hok.2]) he
  rw [truthy_01 this]

theorem val_or {a b : Expr} (iha : CondOK c ρ r a) (ihb : CondOK c ρ r b) : ValOK c ρ r (.or a b) := by
  intro v W sg hok he hW _ _
  have hW' : 32 ≤ W := by simpa [isGet] using hW
  rw [okV] at hok
  simp only [Bool.and_eq_true] at hok
  rw [or_core iha ihb hok.1.1.1 hok.1.1.2 v he W sg (by omega)]
  have := isBool_01 ρ (.or a b) v (by simp [isBool, hok.1.2, hok.2]) he
  rw [truthy_01 this]

theorem truthy_bit (W : Nat) (b : Bool) : V.truthy ⟨W, if b then 1 else 0, true⟩ = some b := by
  cases b <;> rfl

theorem cond_and {a b : Expr} (iha : CondOK c ρ r a) (ihb : CondOK c ρ r b) : CondOK c ρ r (.and a b) := by
  intro v hok he
  rw [okC] at hok
  simp only [Bool.and_eq_true] at hok
  rw [and_core iha ihb hok.1 hok.2 v he _ _ (by simp [trE, vBin, Gen.TranspileOps.andSym, V.selfW, V.isRel, V.isLog])]
  exact truthy_bit _ _

theorem cond_or {a b : Expr} (iha : CondOK c ρ r a) (ihb : CondOK c ρ r b) : CondOK c ρ r (.or a b) := by
  intro v hok he
  rw [okC] at hok
  simp only [Bool.and_eq_true] at hok
  rw [or_core iha ihb hok.1 hok.2 v he _ _ (by simp [trE, vBin, Gen.TranspileOps.orSym, V.selfW, V.isRel, V.isLog])]
  exact truthy_bit _ _

/-! conditional expression `a if c else b`  ->  `((c) ? a : b)` -/
theorem val_ite {cnd a b : Expr} (ihc : CondOK c ρ r cnd) (iha : ValOK c ρ r a) (ihb : ValOK c ρ r b) :
    ValOK c ρ r (.ite cnd a b) := by
  intro v W sg hok he hW hw hsg
  have hW' : 32 ≤ W := by simpa [isGet] using hW
  rw [okV] at hok
  simp only [Bool.and_eq_true] at hok
  have hsw : V.selfW r (trE c a) ≤ W ∧ V.selfW r (trE c b) ≤ W := by
    have := hw
    simp only [trE, V.selfW] at this
    omega
  have hsgab : sg = true → V.isSg r (trE c a) = true ∧ V.isSg r (trE c b) = true := by
    intro hs
    have := hsg hs
    simpa [trE, V.isSg] using this
  simp only [evalD] at he
  split at he
  · rename_i x hx
    have hc := ihc x hok.1.1 hx
    simp only [trE, V.eval, hc]
    split at he
    · rename_i ht
      rw [ht]
      exact iha v W sg hok.1.2 he (Or.inl hW') hsw.1 (fun h => (hsgab h).1)
    · rename_i ht
      have : Py.truthy x = false := by simpa using ht
      rw [this]
      exact ihb v W sg hok.2 he (Or.inl hW') hsw.2 (fun h => (hsgab h).2)
  · simp at he

/-! assembling the induction -/
theorem cond_leaf {e : Expr} (ht : Typed c r e) (hl : leaf e = true) (hv : ValOK c ρ r e) (hvc : ∀ h : okC c e = true, okV c e = true) :
    CondOK c ρ r e := by
  intro v hok he
  have hokv := hvc hok
  apply cond_from_val hv v hokv he
  by_cases hg : isGet e = true
  · exact Or.inr hg
  · left
    rw [selfW_trE c r e ht, sw_nonport_leaf hl hokv (by simpa using hg)]
    exact Nat.le_refl _

theorem trE_both (hA : Agree c ρ r) : ∀ e, Typed c r e → ValOK c ρ r e ∧ CondOK c ρ r e := by
  intro e
  induction e with
  | const k => intro ht; exact ⟨val_const k, cond_leaf ht rfl (val_const k) (fun h => by rw [okC] at h; rw [okV]; exact h)⟩
  | loc n => intro ht; exact ⟨val_loc hA n, cond_leaf ht rfl (val_loc hA n) (fun h => by rw [okC] at h; rw [okV]; exact h)⟩
  | attr n => intro ht; exact ⟨val_attr hA n, cond_leaf ht rfl (val_attr hA n) (fun h => by rw [okC] at h; rw [okV]; exact h)⟩
  | get n => intro ht; exact ⟨val_get hA n ht, cond_leaf ht rfl (val_get hA n ht) (fun h => by rw [okC] at h; rw [okV]; exact h)⟩
  | par n => intro ht; exact ⟨val_par hA n, cond_leaf ht rfl (val_par hA n) (fun h => by rw [okC] at h; rw [okV]; exact h)⟩
  | un op e ih =>
    intro ht
    have hte : Typed c r e := fun n hn => ht n (by simpa [allNames] using hn)
    obtain ⟨ihv, ihc⟩ := ih hte
    by_cases hop : op = .lnot
    · subst hop
      exact ⟨val_lnot ihc, cond_lnot ihc⟩
    · have hv := val_neg_inv (c := c) (ρ := ρ) (r := r) hop ihv
      refine ⟨hv, ?_⟩
      intro v hok he
      have hok2 : okV c e = true ∧ 32 ≤ sw c (.un op e) := by
        cases op
        · simpa [okC] using hok
        · simpa [okC] using hok
        · exact absurd rfl hop
      have hokv : okV c (.un op e) = true := by
        cases op
        · simpa [okV] using hok2.1
        · simpa [okV] using hok2.1
        · exact absurd rfl hop
      exact cond_from_val hv v hokv he (Or.inl (by rw [selfW_trE c r _ ht]; exact hok2.2))
  | bin op a b iha ihb =>
    intro ht
    obtain ⟨iva, _⟩ := iha (typed_bin_l ht)
    obtain ⟨ivb, _⟩ := ihb (typed_bin_r ht)
    have hv := val_bin ht iva ivb
    refine ⟨hv, ?_⟩
    intro v hok he
    rw [okC] at hok
    simp only [Bool.and_eq_true, decide_eq_true_eq] at hok
    exact cond_from_val hv v hok.1 he (Or.inl (by rw [selfW_trE c r _ ht]; exact hok.2))
  | cmp op a b iha ihb =>
    intro ht
    obtain ⟨iva, _⟩ := iha (fun n hn => ht n (by simp [allNames, hn]))
    obtain ⟨ivb, _⟩ := ihb (fun n hn => ht n (by simp [allNames, hn]))
    exact ⟨val_cmp ht iva ivb, cond_cmp ht iva ivb⟩
  | and a b iha ihb =>
    intro ht
    obtain ⟨_, ica⟩ := iha (fun n hn => ht n (by simp [allNames, hn]))
    obtain ⟨_, icb⟩ := ihb (fun n hn => ht n (by simp [allNames, hn]))
    exact ⟨val_and ica icb, cond_and ica icb⟩
  | or a b iha ihb =>
    intro ht
    obtain ⟨_, ica⟩ := iha (fun n hn => ht n (by simp [allNames, hn]))
    obtain ⟨_, icb⟩ := ihb (fun n hn => ht n (by simp [allNames, hn]))
    exact ⟨val_or ica icb, cond_or ica icb⟩
  | ite cnd a b ihc iha ihb =>
    intro ht
    obtain ⟨_, icc⟩ := ihc (fun n hn => ht n (by simp [allNames, hn]))
    obtain ⟨iva, _⟩ := iha (fun n hn => ht n (by simp [allNames, hn]))
    obtain ⟨ivb, _⟩ := ihb (fun n hn => ht n (by simp [allNames, hn]))
    have hv := val_ite icc iva ivb
    refine ⟨hv, ?_⟩
    intro v hok he
    rw [okC] at hok
    simp only [Bool.and_eq_true, decide_eq_true_eq] at hok
    exact cond_from_val hv v hok.1 he (Or.inl (by rw [selfW_trE c r _ ht]; exact hok.2))

end C02
