import Py4hwV.Proofs.C02Comb
/-
  C02, power-up.  The emitted module declares its outputs `output reg` without initial value (x), the simulator's wires start at 0.
  The x is unobservable exactly as long as no output is READ before it has been written: run the Python semantics on a state in
  which the not-yet-written outputs have NO value (`initStU`): `evalD`/`execD` then fail on the first read of such an output, and
  `Agree` asks nothing of the Verilog store for them.  All bisimulation theorems apply to that run unchanged, from cycle 0.
-/
namespace C02
open Tp

/-- `s'` knows at least the wires `s` knows, with the same values; everything else equal -/
structure Le (s s' : St) : Prop where
  loc : s.loc = s'.loc
  att : s.att = s'.att
  prep : s.prep = s'.prep
  wire : ∀ n v, s.wire n = some v → s'.wire n = some v

theorem evalD_mono (ρ ρ' : Env) (hl : ρ.loc = ρ'.loc) (ha : ρ.att = ρ'.att) (hp : ρ.par = ρ'.par)
    (hw : ∀ n v, ρ.wire n = some v → ρ'.wire n = some v) : ∀ e v, evalD ρ e = some v → evalD ρ' e = some v := by
  intro e
  induction e with
  | const k => intro v h; exact h
  | loc n => intro v h; simpa [evalD, ← hl] using h
  | attr n => intro v h; simpa [evalD, ← ha] using h
  | par n => intro v h; simpa [evalD, ← hp] using h
  | get n =>
    intro v h
    simp only [evalD] at h ⊢
    split at h
    · rename_i x hx
      rw [hw n x hx]; exact h
    · simp at h
  | un op e ih =>
    intro v h
    simp only [evalD] at h ⊢
    split at h
    · rename_i a ha'
      rw [ih a ha']; exact h
    · simp at h
  | bin op a b iha ihb =>
    intro v h
    simp only [evalD] at h ⊢
    split at h
    · rename_i x y hx hy
      rw [iha x hx, ihb y hy]; exact h
    · simp at h
  | cmp op a b iha ihb =>
    intro v h
    simp only [evalD] at h ⊢
    split at h
    · rename_i x y hx hy
      rw [iha x hx, ihb y hy]; exact h
    · simp at h
  | and a b iha ihb =>
    intro v h
    simp only [evalD] at h ⊢
    split at h
    · rename_i x hx
      rw [iha x hx]
      split at h
      · rename_i ht; simp only [ht, if_true]; exact ihb v h
      · rename_i ht; simp only [ht]; exact h
    · simp at h
  | or a b iha ihb =>
    intro v h
    simp only [evalD] at h ⊢
    split at h
    · rename_i x hx
      rw [iha x hx]
      split at h
      · rename_i ht; simp only [ht, if_true]; exact h
      · rename_i ht; simp only [ht]; exact ihb v h
    · simp at h
  | ite cnd a b ihc iha ihb =>
    intro v h
    simp only [evalD] at h ⊢
    split at h
    · rename_i x hx
      rw [ihc x hx]
      split at h
      · rename_i ht; simp only [ht, if_true]; exact iha v h
      · rename_i ht; simp only [ht]; exact ihb v h
    · simp at h

theorem le_eval {c : ClassD} {s s' : St} (h : Le s s') (e : Expr) (v : Int) (he : evalD (s.env c) e = some v) :
    evalD (s'.env c) e = some v :=
  evalD_mono (s.env c) (s'.env c) (by simp [St.env, h.loc]) (by simp [St.env, h.att]) rfl (fun n x hx => h.wire n x hx) e v he

theorem le_upd_wire {s s' : St} (h : Le s s') (w : String) (v : Int) :
    Le { s with wire := upd s.wire w v } { s' with wire := upd s'.wire w v } :=
  ⟨h.loc, h.att, h.prep, by
    intro n x hx
    simp only [upd] at hx ⊢
    split at hx
    · rename_i hn; simp only [hn, if_true]; exact hx
    · rename_i hn; simp only [hn]; exact h.wire n x hx⟩

/-- knowing more wires never changes an execution that succeeds -/
theorem execD_mono (c : ClassD) : ∀ (stmt : Stmt) (sv : Option Int) (s t s' : St), execD c sv stmt s = some t → Le s s' →
    ∃ t', execD c sv stmt s' = some t' ∧ Le t t' := by
  intro stmt
  induction stmt with
  | skip => intro sv s t s' he h; simp only [execD, Option.some.injEq] at he; subst he; exact ⟨s', rfl, h⟩
  | seq a b iha ihb =>
    intro sv s t s' he h
    simp only [execD] at he
    split at he
    · rename_i s1 h1
      obtain ⟨t1, e1, l1⟩ := iha sv s s1 s' h1 h
      obtain ⟨t2, e2, l2⟩ := ihb sv s1 t t1 he l1
      exact ⟨t2, by simp [execD, e1, e2], l2⟩
    · simp at he
  | setLoc n e =>
    intro sv s t s' he h
    simp only [execD] at he
    split at he
    · rename_i v hv
      simp only [Option.some.injEq] at he; subst he
      exact ⟨{ s' with loc := upd s'.loc n v }, by simp [execD, le_eval h e v hv], ⟨by simp [h.loc], h.att, h.prep, h.wire⟩⟩
    · simp at he
  | setAttr n e =>
    intro sv s t s' he h
    simp only [execD] at he
    split at he
    · rename_i v hv
      simp only [Option.some.injEq] at he; subst he
      exact ⟨{ s' with att := upd s'.att n v }, by simp [execD, le_eval h e v hv], ⟨h.loc, by simp [h.att], h.prep, h.wire⟩⟩
    · simp at he
  | put w e =>
    intro sv s t s' he h
    simp only [execD] at he
    split at he
    · rename_i v p hv hp
      simp only [Option.some.injEq] at he; subst he
      exact ⟨_, by simp [execD, le_eval h e v hv, hp], le_upd_wire h w _⟩
    · simp at he
  | prep w e =>
    intro sv s t s' he h
    simp only [execD] at he
    split at he
    · rename_i v p hv hp
      simp only [Option.some.injEq] at he; subst he
      exact ⟨{ s' with prep := s'.prep ++ [(w, maskW p.width v)] }, by simp [execD, le_eval h e v hv, hp],
        ⟨h.loc, h.att, by simp [h.prep], h.wire⟩⟩
    · simp at he
  | ife cnd a b iha ihb =>
    intro sv s t s' he h
    simp only [execD] at he
    split at he
    · rename_i v hv
      split at he
      · rename_i ht
        obtain ⟨t1, e1, l1⟩ := iha sv s t s' he h
        exact ⟨t1, by simp [execD, le_eval h cnd v hv, ht, e1], l1⟩
      · rename_i ht
        obtain ⟨t1, e1, l1⟩ := ihb sv s t s' he h
        exact ⟨t1, by simp [execD, le_eval h cnd v hv, ht, e1], l1⟩
    · simp at he
  | mtch subj ch ih =>
    intro sv s t s' he h
    simp only [execD] at he
    split at he
    · rename_i v hv
      obtain ⟨t1, e1, l1⟩ := ih (some v) s t s' he h
      exact ⟨t1, by simp [execD, le_eval h subj v hv, e1], l1⟩
    · simp at he
  | arm v g body rest ihb ihr =>
    intro sv s t s' he h
    cases sv with
    | none => simp [execD] at he
    | some x =>
      simp only [execD] at he
      split at he
      · simp at he
      · rename_i pv hpv
        split at he
        · rename_i hx
          cases g with
          | none =>
            obtain ⟨t1, e1, l1⟩ := ihb none s t s' he h
            exact ⟨t1, by simp [execD, le_eval h v pv hpv, hx, e1], l1⟩
          | some ge =>
            simp only at he
            split at he
            · rename_i gv hgv
              split at he
              · rename_i hg
                obtain ⟨t1, e1, l1⟩ := ihb none s t s' he h
                exact ⟨t1, by simp [execD, le_eval h v pv hpv, hx, le_eval h ge gv hgv, hg, e1], l1⟩
              · rename_i hg
                obtain ⟨t1, e1, l1⟩ := ihr (some x) s t s' he h
                exact ⟨t1, by simp [execD, le_eval h v pv hpv, hx, le_eval h ge gv hgv, hg, e1], l1⟩
            · simp at he
        · rename_i hx
          obtain ⟨t1, e1, l1⟩ := ihr (some x) s t s' he h
          exact ⟨t1, by simp [execD, le_eval h v pv hpv, hx, e1], l1⟩
  | dflt body ih =>
    intro sv s t s' he h
    have he' : execD c none body s = some t := by simpa [execD] using he
    obtain ⟨t1, e1, l1⟩ := ih none s t s' he' h
    exact ⟨t1, by simp [execD, e1], l1⟩

end C02

namespace C02
open Tp

theorem foldl_upd_le (L : List (String × Int)) : ∀ (f f' : String → Option Int), (∀ n v, f n = some v → f' n = some v) →
    ∀ n v, L.foldl (fun f (p : String × Int) => upd f p.1 p.2) f n = some v →
           L.foldl (fun f (p : String × Int) => upd f p.1 p.2) f' n = some v := by
  induction L with
  | nil => intro f f' h; exact h
  | cons hd tl ih =>
    intro f f' h
    simp only [List.foldl]
    apply ih
    intro n v hx
    simp only [upd] at hx ⊢
    split at hx
    · rename_i hn; simp only [hn, if_true]; exact hx
    · rename_i hn; simp only [hn]; exact h n v hx

theorem le_settle {s s' : St} (h : Le s s') : Le (settle s) (settle s') := by
  rw [settle_eq, settle_eq]
  refine ⟨h.loc, h.att, rfl, ?_⟩
  show ∀ n v, _ = some v → _ = some v
  rw [← h.prep]
  exact foldl_upd_le s.prep s.wire s'.wire h.wire

theorem le_drive (c : ClassD) : ∀ (asg : List (String × Int)) (s s' : St), Le s s' → Le (driveIn c s asg) (driveIn c s' asg) := by
  intro asg
  induction asg with
  | nil => intro s s' h; exact h
  | cons hd tl ih =>
    intro s s' h
    simp only [driveIn, List.foldl]
    cases hp : c.port? hd.1 with
    | none => exact ih s s' h
    | some p => exact ih _ _ (le_upd_wire h hd.1 _)

theorem le_fresh {s s' : St} (h : Le s s') : Le { s with loc := fun _ => none } { s' with loc := fun _ => none } :=
  ⟨rfl, h.att, h.prep, h.wire⟩

/-- a whole history: the run that knows more wires succeeds whenever the one that knows fewer does, with the same state
    variables and the same value on every wire the smaller run knows -/
theorem runD_mono (c : ClassD) : ∀ (h : List (List (String × Int))) (s t s' : St), runD c s h = some t → Le s s' →
    ∃ t', runD c s' h = some t' ∧ Le t t' := by
  intro h
  induction h with
  | nil => intro s t s' hr hl; simp only [runD, Option.some.injEq] at hr; subst hr; exact ⟨s', rfl, hl⟩
  | cons asg rest ih =>
    intro s t s' hr hl
    simp only [runD] at hr
    split at hr
    · rename_i s1 h1
      simp only [clockCycleD, Option.map_eq_some_iff] at h1
      obtain ⟨s0, he, hs0⟩ := h1
      subst hs0
      obtain ⟨t0, e0, l0⟩ := execD_mono c c.body none _ s0 _ he (le_fresh (le_drive c asg s s' hl))
      obtain ⟨t', e', l'⟩ := ih _ t _ hr (le_settle l0)
      exact ⟨t', by simp [runD, clockCycleD, e0, e'], l'⟩
    · simp at hr

theorem initStU_le (c : ClassD) : Le (initStU c) (initSt c) :=
  ⟨rfl, rfl, rfl, by
    intro n v h
    simp only [initStU, initSt] at h ⊢
    cases hp : c.port? n with
    | none => simp [hp] at h
    | some p =>
      simp only [hp] at h ⊢
      split at h
      · simp at h
      · simpa using h⟩

/-- what the Verilog side must provide at power-up: declarations as emitted, state integers initialised by the `initial`
    block, parameters bound, INPUT ports driven to the simulator's power-up value 0.  Nothing is asked of the outputs (x). -/
structure PowerUp {σ : Type} (c : ClassD) (rd : σ → V.Rd) (st : σ) : Prop where
  typed : ∀ n, (rd st).info n = typing c n
  state : ∀ n v, lookup c.state n = some v → (rd st).val n = ⟨32, v.toNat, true⟩
  par : ∀ n v, lookup c.params n = some v → (rd st).val n = ⟨32, v.toNat, true⟩
  inp : ∀ n p, c.port? n = some p → p.isOut = false → (rd st).val n = ⟨p.width, 0, true⟩

theorem isState_iff (c : ClassD) (n : String) : isState c n = true ↔ ∃ v, lookup c.state n = some v := by
  unfold isState; cases lookup c.state n <;> simp

theorem powerup_crel {σ : Type} {c : ClassD} {rd : σ → V.Rd} {st : σ} (h : PowerUp c rd st) : CRel c rd (initStU c) st := by
  refine ⟨⟨?_, ?_, ?_, ?_, ?_⟩, h.typed, ?_, rfl⟩
  · intro n v hk; simp [St.env, initStU] at hk
  · intro n v hk hd hp hs
    rcases env_att_some hk with h1 | ⟨h1, h2⟩
    · exact h.state n v h1
    · rcases hs with hs | hs
      · obtain ⟨v', hv'⟩ := (isState_iff c n).1 hs
        have : lookup c.state n = none := h1
        rw [this] at hv'; cases hv'
      · rw [hs] at h2; cases h2
  · intro n v k hk hs hcn
    rcases env_att_some hk with h1 | ⟨_, h2⟩
    · have : isState c n = true := (isState_iff c n).2 ⟨v, h1⟩
      rw [hs] at this; cases this
    · rw [hcn] at h2; simpa using h2.symm
  · intro n v hk hd hp; exact h.par n v hk
  · intro n v p hk hp
    have hk' : (match c.port? n with | some p => if p.isOut then none else some (0:Int) | none => none) = some v := hk
    rw [hp] at hk'
    by_cases ho : p.isOut = true
    · simp [ho] at hk'
    · have ho' : p.isOut = false := by simpa using ho
      simp only [ho', Bool.false_eq_true, if_false, Option.some.injEq] at hk'
      subst hk'
      exact ⟨Int.le_refl _, by simpa using Nat.pos_of_ne_zero (by simp : (2:Nat) ^ p.width ≠ 0), h.inp n p hp ho'⟩
  · intro k v hk; exact (isState_iff c k).2 ⟨v, hk⟩

end C02

namespace C02
open Tp

/-! ### the `initial` block establishes the state part of `PowerUp` -/

def execList {σ : Type} (rd : σ → V.Rd) (wr : σ → V.Tgt → V.BV → σ) (l : List V.Stmt) (x : V.Ex σ) : V.Ex σ :=
  l.foldl (fun x s => V.exec rd wr none s x) x

theorem exec_seqOf {σ : Type} (rd : σ → V.Rd) (wr : σ → V.Tgt → V.BV → σ) :
    ∀ (l : List V.Stmt) (x : V.Ex σ), V.exec rd wr none (seqOf l) x = execList rd wr l x := by
  intro l
  induction l with
  | nil => intro x; rfl
  | cons hd tl ih =>
    intro x
    cases tl with
    | nil => rfl
    | cons h2 t2 =>
      show V.exec rd wr none (.seq hd (seqOf (h2 :: t2))) x = _
      simp only [V.exec, ih]
      rfl

def initStmts (l : List (String × Int)) : List V.Stmt := l.map fun p => V.Stmt.ba (.lid p.1) (numE p.2)

/-- executing a list of constructor assignments `x = const` in order leaves, in every assigned integer, the constant of the
    LAST assignment to it (no distinctness needed), and touches nothing else -/
theorem init_list_last {σ : Type} {rd : σ → V.Rd} {wr : σ → V.Tgt → V.BV → σ} (L : Laws rd wr) (c : ClassD) :
    ∀ (l : List (String × Int)) (x : V.Ex σ),
      (∀ p, p ∈ l → inDom p.2 = true ∧ isPort c p.1 = false) → (∀ n, (rd x.st).info n = typing c n) →
      (∀ n v, lastVal l n = some v → (rd (execList rd wr (initStmts l) x).st).val n = ⟨32, v.toNat, true⟩) ∧
      (∀ k, lastVal l k = none → (rd (execList rd wr (initStmts l) x).st).val k = (rd x.st).val k) ∧
      (∀ n, (rd (execList rd wr (initStmts l) x).st).info n = typing c n) ∧
      (execList rd wr (initStmts l) x).nba = x.nba := by
  intro l
  induction l with
  | nil => intro x _ ht; exact ⟨by intro n v h; simp [lastVal] at h, fun _ _ => rfl, ht, rfl⟩
  | cons hd tl ih =>
    intro x hok ht
    obtain ⟨k0, v0⟩ := hd
    obtain ⟨hd_dom, hd_np⟩ := hok (k0, v0) (by simp)
    have hw : V.widthOf (rd x.st) k0 = 32 := widthOf_int (ht k0) hd_np
    have hv : V.evalAssign (rd x.st) 32 (numE v0) = ⟨32, v0.toNat, true⟩ := by
      unfold V.evalAssign
      simp only [selfW_numE, Nat.max_self, eval_numE _ 32 _ v0 (Nat.le_refl _) hd_dom, if_true]
      rw [Nat.mod_eq_of_lt (by have := toNat_lt hd_dom; omega)]
    have hstep : V.exec rd wr none (V.Stmt.ba (.lid k0) (numE v0)) x =
        { x with st := wr x.st (.whole k0) ⟨32, v0.toNat, true⟩ } := by
      simp only [V.exec, V.resolve, V.lhsWidth, hw, hv]
    have ht1 : ∀ n, (rd (wr x.st (.whole k0) ⟨32, v0.toNat, true⟩)).info n = typing c n := by
      intro n; rw [L.info]; exact ht n
    obtain ⟨i1, i2, i3, i4⟩ := ih { x with st := wr x.st (.whole k0) ⟨32, v0.toNat, true⟩ }
      (fun p hp => hok p (by simp [hp])) ht1
    have hunf : execList rd wr (initStmts ((k0, v0) :: tl)) x =
        execList rd wr (initStmts tl) { x with st := wr x.st (.whole k0) ⟨32, v0.toNat, true⟩ } := by
      simp only [initStmts, List.map, execList, List.foldl, hstep]
    rw [hunf]
    refine ⟨?_, ?_, i3, i4⟩
    · intro n v hl
      simp only [lastVal] at hl
      cases hlt : lastVal tl n with
      | some w =>
        rw [hlt] at hl
        simp only [Option.some.injEq] at hl; subst hl
        exact i1 n w hlt
      | none =>
        rw [hlt] at hl
        simp only at hl
        split at hl
        · rename_i hk
          have : k0 = n := by simpa using hk
          subst this
          simp only [Option.some.injEq] at hl; subst hl
          rw [i2 _ hlt]; exact L.same _ _ _
        · simp at hl
    · intro k hl
      simp only [lastVal] at hl
      cases hlt : lastVal tl k with
      | some w => rw [hlt] at hl; simp at hl
      | none =>
        rw [hlt] at hl
        simp only at hl
        have hne : k ≠ k0 := by
          intro h; subst h; simp at hl
        rw [i2 k hlt]
        exact L.other _ _ _ _ hne

theorem lookup_mem : ∀ (l : List (String × Int)) (n : String) (v : Int), lookup l n = some v → (n, v) ∈ l := by
  intro l
  induction l with
  | nil => intro n v h; simp [lookup] at h
  | cons hd tl ih =>
    intro n v h
    obtain ⟨k, x⟩ := hd
    simp only [lookup] at h
    split at h
    · rename_i hk
      have : k = n := by simpa using hk
      subst this
      simp only [Option.some.injEq] at h; subst h; simp
    · simp [ih n v h]

/-! ### no output is ever read: masking the outputs changes nothing -/

/-- `sU` is `sT` with some output wires forgotten -/
structure Masked (c : ClassD) (sU sT : St) : Prop where
  le : Le sU sT
  same : ∀ n, isOutPort c n = false → sU.wire n = sT.wire n

def noOutRead (c : ClassD) (stmt : Stmt) : Prop := ∀ n, n ∈ getsS stmt → isOutPort c n = false

theorem masked_eval {c : ClassD} {sU sT : St} (h : Masked c sU sT) (e : Expr) (hg : ∀ n, n ∈ getsE e → isOutPort c n = false) :
    evalD (sT.env c) e = evalD (sU.env c) e := by
  apply evalD_congr
  · simp [St.env, h.le.loc]
  · simp [St.env, h.le.att]
  · rfl
  · intro n hn; exact (h.same n (hg n hn)).symm

theorem masked_upd {c : ClassD} {sU sT : St} (h : Masked c sU sT) (w : String) (v : Int) :
    Masked c { sU with wire := upd sU.wire w v } { sT with wire := upd sT.wire w v } :=
  ⟨le_upd_wire h.le w v, by
    intro n hn
    simp only [upd]
    split
    · rfl
    · exact h.same n hn⟩

theorem execD_masked (c : ClassD) : ∀ (stmt : Stmt) (sv : Option Int) (sT tT sU : St), execD c sv stmt sT = some tT →
    Masked c sU sT → noOutRead c stmt → ∃ tU, execD c sv stmt sU = some tU ∧ Masked c tU tT := by
  intro stmt
  induction stmt with
  | skip => intro sv sT tT sU he h _; simp only [execD, Option.some.injEq] at he; subst he; exact ⟨sU, rfl, h⟩
  | seq a b iha ihb =>
    intro sv sT tT sU he h hg
    simp only [execD] at he
    split at he
    · rename_i s1 h1
      obtain ⟨t1, e1, m1⟩ := iha sv sT s1 sU h1 h (fun n hn => hg n (by simp [getsS, hn]))
      obtain ⟨t2, e2, m2⟩ := ihb sv s1 tT t1 he m1 (fun n hn => hg n (by simp [getsS, hn]))
      exact ⟨t2, by simp [execD, e1, e2], m2⟩
    · simp at he
  | setLoc n e =>
    intro sv sT tT sU he h hg
    simp only [execD] at he
    split at he
    · rename_i v hv
      simp only [Option.some.injEq] at he; subst he
      rw [masked_eval h e (fun n hn => hg n (by simpa [getsS] using hn))] at hv
      exact ⟨{ sU with loc := upd sU.loc n v }, by simp [execD, hv],
        ⟨⟨by simp [h.le.loc], h.le.att, h.le.prep, h.le.wire⟩, h.same⟩⟩
    · simp at he
  | setAttr n e =>
    intro sv sT tT sU he h hg
    simp only [execD] at he
    split at he
    · rename_i v hv
      simp only [Option.some.injEq] at he; subst he
      rw [masked_eval h e (fun n hn => hg n (by simpa [getsS] using hn))] at hv
      exact ⟨{ sU with att := upd sU.att n v }, by simp [execD, hv],
        ⟨⟨h.le.loc, by simp [h.le.att], h.le.prep, h.le.wire⟩, h.same⟩⟩
    · simp at he
  | put w e =>
    intro sv sT tT sU he h hg
    simp only [execD] at he
    split at he
    · rename_i v p hv hp
      simp only [Option.some.injEq] at he; subst he
      rw [masked_eval h e (fun n hn => hg n (by simpa [getsS] using hn))] at hv
      exact ⟨_, by simp [execD, hv, hp], masked_upd h w _⟩
    · simp at he
  | prep w e =>
    intro sv sT tT sU he h hg
    simp only [execD] at he
    split at he
    · rename_i v p hv hp
      simp only [Option.some.injEq] at he; subst he
      rw [masked_eval h e (fun n hn => hg n (by simpa [getsS] using hn))] at hv
      exact ⟨{ sU with prep := sU.prep ++ [(w, maskW p.width v)] }, by simp [execD, hv, hp],
        ⟨⟨h.le.loc, h.le.att, by simp [h.le.prep], h.le.wire⟩, h.same⟩⟩
    · simp at he
  | ife cnd a b iha ihb =>
    intro sv sT tT sU he h hg
    simp only [execD] at he
    split at he
    · rename_i v hv
      rw [masked_eval h cnd (fun n hn => hg n (by simp [getsS, hn]))] at hv
      split at he
      · rename_i ht
        obtain ⟨t1, e1, m1⟩ := iha sv sT tT sU he h (fun n hn => hg n (by simp [getsS, hn]))
        exact ⟨t1, by simp [execD, hv, ht, e1], m1⟩
      · rename_i ht
        obtain ⟨t1, e1, m1⟩ := ihb sv sT tT sU he h (fun n hn => hg n (by simp [getsS, hn]))
        exact ⟨t1, by simp [execD, hv, ht, e1], m1⟩
    · simp at he
  | mtch subj ch ih =>
    intro sv sT tT sU he h hg
    simp only [execD] at he
    split at he
    · rename_i v hv
      rw [masked_eval h subj (fun n hn => hg n (by simp [getsS, hn]))] at hv
      obtain ⟨t1, e1, m1⟩ := ih (some v) sT tT sU he h (fun n hn => hg n (by simp [getsS, hn]))
      exact ⟨t1, by simp [execD, hv, e1], m1⟩
    · simp at he
  | arm v g body rest ihb ihr =>
    intro sv sT tT sU he h hg
    cases sv with
    | none => simp [execD] at he
    | some x =>
      simp only [execD] at he
      split at he
      · simp at he
      · rename_i pv hpv
        rw [masked_eval h v (fun n hn => hg n (by simp [getsS, hn]))] at hpv
        split at he
        · rename_i hx
          cases g with
          | none =>
            obtain ⟨t1, e1, m1⟩ := ihb none sT tT sU he h (fun n hn => hg n (by simp [getsS, hn]))
            exact ⟨t1, by simp [execD, hpv, hx, e1], m1⟩
          | some ge =>
            simp only at he
            split at he
            · rename_i gv hgv
              rw [masked_eval h ge (fun n hn => hg n (by simp [getsS, hn]))] at hgv
              split at he
              · rename_i hgt
                obtain ⟨t1, e1, m1⟩ := ihb none sT tT sU he h (fun n hn => hg n (by simp [getsS, hn]))
                exact ⟨t1, by simp [execD, hpv, hx, hgv, hgt, e1], m1⟩
              · rename_i hgt
                obtain ⟨t1, e1, m1⟩ := ihr (some x) sT tT sU he h (fun n hn => hg n (by simp [getsS, hn]))
                exact ⟨t1, by simp [execD, hpv, hx, hgv, hgt, e1], m1⟩
            · simp at he
        · rename_i hx
          obtain ⟨t1, e1, m1⟩ := ihr (some x) sT tT sU he h (fun n hn => hg n (by simp [getsS, hn]))
          exact ⟨t1, by simp [execD, hpv, hx, e1], m1⟩
  | dflt body ih =>
    intro sv sT tT sU he h hg
    have he' : execD c none body sT = some tT := by simpa [execD] using he
    obtain ⟨t1, e1, m1⟩ := ih none sT tT sU he' h (fun n hn => hg n (by simpa [getsS] using hn))
    exact ⟨t1, by simp [execD, e1], m1⟩

end C02

namespace C02
open Tp

theorem masked_foldl (c : ClassD) (L : List (String × Int)) : ∀ (sU sT : St), Masked c sU sT →
    Masked c { sU with wire := L.foldl (fun f (p : String × Int) => upd f p.1 p.2) sU.wire }
             { sT with wire := L.foldl (fun f (p : String × Int) => upd f p.1 p.2) sT.wire } := by
  induction L with
  | nil => intro sU sT h; exact h
  | cons hd tl ih =>
    intro sU sT h
    simp only [List.foldl]
    exact ih _ _ (masked_upd h hd.1 hd.2)

theorem masked_settle {c : ClassD} {sU sT : St} (h : Masked c sU sT) : Masked c (settle sU) (settle sT) := by
  rw [settle_eq, settle_eq, ← h.le.prep]
  have := masked_foldl c sU.prep sU sT h
  exact ⟨⟨this.le.loc, this.le.att, rfl, this.le.wire⟩, this.same⟩

theorem masked_drive (c : ClassD) : ∀ (asg : List (String × Int)) (sU sT : St), Masked c sU sT →
    Masked c (driveIn c sU asg) (driveIn c sT asg) := by
  intro asg
  induction asg with
  | nil => intro sU sT h; exact h
  | cons hd tl ih =>
    intro sU sT h
    simp only [driveIn, List.foldl]
    cases hp : c.port? hd.1 with
    | none => exact ih sU sT h
    | some p => exact ih _ _ (masked_upd h hd.1 _)

/-- STATIC sufficient condition: a body that never reads an output port runs identically with the outputs unknown -/
theorem runD_masked (c : ClassD) (hno : noOutRead c c.body) : ∀ (h : List (List (String × Int))) (sT tT sU : St),
    runD c sT h = some tT → Masked c sU sT → ∃ tU, runD c sU h = some tU ∧ Masked c tU tT := by
  intro h
  induction h with
  | nil => intro sT tT sU hr hm; simp only [runD, Option.some.injEq] at hr; subst hr; exact ⟨sU, rfl, hm⟩
  | cons asg rest ih =>
    intro sT tT sU hr hm
    simp only [runD] at hr
    split at hr
    · rename_i s1 h1
      simp only [clockCycleD, Option.map_eq_some_iff] at h1
      obtain ⟨s0, he, hs0⟩ := h1
      subst hs0
      have hm0 : Masked c ({ driveIn c sU asg with loc := fun _ => none } : St) ({ driveIn c sT asg with loc := fun _ => none } : St) := by
        have := masked_drive c asg sU sT hm
        exact ⟨le_fresh this.le, this.same⟩
      obtain ⟨t0, e0, m0⟩ := execD_masked c c.body none _ s0 _ he hm0 hno
      obtain ⟨tU, eU, mU⟩ := ih _ tT _ hr (masked_settle m0)
      exact ⟨tU, by simp [runD, clockCycleD, e0, eU], mU⟩
    · simp at hr

theorem initStU_masked (c : ClassD) : Masked c (initStU c) (initSt c) :=
  ⟨initStU_le c, by
    intro n hn
    simp only [initStU, initSt]
    cases hp : c.port? n with
    | none => rfl
    | some p =>
      have : p.isOut = false := by simpa [isOutPort, hp] using hn
      simp [this]⟩

end C02

namespace C02
open Tp

/-- the state the emitted module is in after its `initial` block since /repo c2ba9bf: as `PowerUp`, and every OUTPUT register
    holds the simulator's power-up value 0 -/
structure PowerUpFull {σ : Type} (c : ClassD) (rd : σ → V.Rd) (st : σ) : Prop where
  base : PowerUp c rd st
  outp : ∀ n p, c.port? n = some p → p.isOut = true → (rd st).val n = ⟨p.width, 0, true⟩

/-- ... which is related to the REAL power-up state of the Python object (all wires 0), no masking of outputs -/
theorem powerup_crel_full {σ : Type} {c : ClassD} {rd : σ → V.Rd} {st : σ} (h : PowerUpFull c rd st) : CRel c rd (initSt c) st := by
  have hb := powerup_crel h.base
  refine ⟨⟨?_, ?_, ?_, ?_, ?_⟩, hb.typed, ?_, rfl⟩
  · intro n v hk; simp [St.env, initSt] at hk
  · intro n v hk hd hp hs; exact hb.agree.att n v hk hd hp hs
  · intro n v k hk hs hcn; exact hb.agree.cst n v k hk hs hcn
  · intro n v hk hd hp; exact hb.agree.par n v hk hd hp
  · intro n v p hk hp
    have hk' : (match c.port? n with | some _ => some (0:Int) | none => none) = some v := hk
    rw [hp] at hk'
    simp only [Option.some.injEq] at hk'
    subst hk'
    have hpos : (0:Int).toNat < 2 ^ p.width := by simpa using Nat.pos_of_ne_zero (by simp : (2:Nat) ^ p.width ≠ 0)
    by_cases ho : p.isOut = true
    · exact ⟨Int.le_refl _, hpos, h.outp n p hp ho⟩
    · exact ⟨Int.le_refl _, hpos, h.base.inp n p hp (by simpa using ho)⟩
  · intro k v hk; exact (isState_iff c k).2 ⟨v, hk⟩

end C02

namespace C02
open Tp

def zeroStmtsP (ps : List PortD) : List V.Stmt := ps.map fun p => V.Stmt.ba (.lid p.port) (numE 0)

/-- executing `q = 0;` for a list of ports (each the class's port of that name) leaves 0 in every one of them, touches nothing else -/
theorem init_outputs_zero {σ : Type} {rd : σ → V.Rd} {wr : σ → V.Tgt → V.BV → σ} (L : Laws rd wr) (c : ClassD) :
    ∀ (ps : List PortD) (x : V.Ex σ), (∀ p, p ∈ ps → c.port? p.port = some p) → (∀ n, (rd x.st).info n = typing c n) →
      (∀ p, p ∈ ps → (rd (execList rd wr (zeroStmtsP ps) x).st).val p.port = ⟨p.width, 0, true⟩) ∧
      (∀ k, k ∉ ps.map (·.port) → (rd (execList rd wr (zeroStmtsP ps) x).st).val k = (rd x.st).val k) ∧
      (∀ n, (rd (execList rd wr (zeroStmtsP ps) x).st).info n = typing c n) ∧
      (execList rd wr (zeroStmtsP ps) x).nba = x.nba := by
  intro ps
  induction ps with
  | nil => intro x _ ht; exact ⟨by simp, fun _ _ => rfl, ht, rfl⟩
  | cons hd tl ih =>
    intro x hok ht
    have hp := hok hd (by simp)
    have hw : V.widthOf (rd x.st) hd.port = hd.width := by rw [widthOf_typed (ht hd.port), hp]
    have hv : V.evalAssign (rd x.st) hd.width (numE 0) = ⟨hd.width, 0, true⟩ := by
      unfold V.evalAssign
      simp only [selfW_numE, eval_numE _ (max hd.width 32) _ 0 (Nat.le_max_right _ _) (by decide), if_true]
      simp
    have hstep : V.exec rd wr none (V.Stmt.ba (.lid hd.port) (numE 0)) x =
        { x with st := wr x.st (.whole hd.port) ⟨hd.width, 0, true⟩ } := by
      simp only [V.exec, V.resolve, V.lhsWidth, hw, hv]
    have ht1 : ∀ n, (rd (wr x.st (.whole hd.port) ⟨hd.width, 0, true⟩)).info n = typing c n := by
      intro n; rw [L.info]; exact ht n
    obtain ⟨i1, i2, i3, i4⟩ := ih { x with st := wr x.st (.whole hd.port) ⟨hd.width, 0, true⟩ }
      (fun p hp' => hok p (by simp [hp'])) ht1
    have hunf : execList rd wr (zeroStmtsP (hd :: tl)) x =
        execList rd wr (zeroStmtsP tl) { x with st := wr x.st (.whole hd.port) ⟨hd.width, 0, true⟩ } := by
      simp only [zeroStmtsP, List.map, execList, List.foldl, hstep]
    rw [hunf]
    refine ⟨?_, ?_, i3, i4⟩
    · intro p hpm
      simp only [List.mem_cons] at hpm
      rcases hpm with rfl | hpm
      · by_cases hin : p.port ∈ tl.map (·.port)
        · obtain ⟨p', hp', hpe⟩ := List.mem_map.1 hin
          have h1 := hok p' (by simp [hp'])
          rw [hpe, hp] at h1
          simp only [Option.some.injEq] at h1
          subst h1
          exact i1 p hp'
        · rw [i2 _ hin]; exact L.same _ _ _
      · exact i1 p hpm
    · intro k hk
      simp only [List.map, List.mem_cons, not_or] at hk
      rw [i2 k hk.2]
      exact L.other _ _ _ _ hk.1

theorem execList_append {σ : Type} (rd : σ → V.Rd) (wr : σ → V.Tgt → V.BV → σ) (a b : List V.Stmt) (x : V.Ex σ) :
    execList rd wr (a ++ b) x = execList rd wr b (execList rd wr a x) := by
  simp [execList, List.foldl_append]

end C02
