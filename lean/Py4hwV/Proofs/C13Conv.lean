import Py4hwV.Proofs.C13Basic
/-
  C13 — helper development for the conversions InttoFP_SP / FixedPointtoFP_SP / FPtoInt_SP.
-/
namespace C13
open Lib Lib.Fp Lib.LSpec FpSpec

/-- the arithmetic core of InttoFP: normalisation by the leading-zero count, then truncation to 24 significant bits -/
theorem i2f_core (n L : Nat) (hL : L ≤ 31) (h1 : 2^L ≤ n) (h2 : n < 2^(L+1)) :
    (2^23 + ((n * 2^(31 - L)) % 2^32 / 2^8) % 2^23) * 2^(126 + L) = n / 2^(L + 1 - 24) * 2^(L + 1 - 24) * 2^149 ∧
    (((n * 2^(31 - L)) % 2^32 % 2^8 ≠ 0) ↔ n % 2^(L + 1 - 24) ≠ 0) := by
  have : L = 0 ∨ L = 1 ∨ L = 2 ∨ L = 3 ∨ L = 4 ∨ L = 5 ∨ L = 6 ∨ L = 7 ∨ L = 8 ∨ L = 9 ∨ L = 10 ∨ L = 11 ∨ L = 12 ∨ L = 13 ∨ L = 14 ∨ L = 15 ∨ L = 16 ∨ L = 17 ∨ L = 18 ∨ L = 19 ∨ L = 20 ∨ L = 21 ∨ L = 22 ∨ L = 23 ∨ L = 24 ∨ L = 25 ∨ L = 26 ∨ L = 27 ∨ L = 28 ∨ L = 29 ∨ L = 30 ∨ L = 31 := by omega
  rcases this with h | h | h | h | h | h | h | h | h | h | h | h | h | h | h | h | h | h | h | h | h | h | h | h | h | h | h | h | h | h | h | h <;> subst h <;> simp only [Nat.reducePow, Nat.reduceAdd, Nat.reduceSub] at * <;> omega

theorem sub_nat (w a b : Nat) (h : b ≤ a) : Leaf.sub w a b = (a - b) % 2^w := by
  unfold Leaf.sub
  rw [show ((a:Int) - (b:Int)) = ((a - b : Nat) : Int) by omega, Bits.put_ofNat]

theorem buf_b2n (x : Bool) : Leaf.buf 1 (b2n x) = b2n x := by cases x <;> decide

/-- a word assembled from a sign bit, an exponent field and a fraction field -/
theorem fields_of_word (s e f : Nat) (hs : s < 2) (he : e < 2^8) (hf : f < 2^23) :
    s * 2^31 + (e * 2^23 + f) < 2^32 ∧ signOf (s * 2^31 + (e * 2^23 + f)) = s ∧ expOf (s * 2^31 + (e * 2^23 + f)) = e ∧
    fracOf (s * 2^31 + (e * 2^23 + f)) = f := by
  unfold signOf expOf fracOf
  simp only [Nat.reducePow] at *
  omega

theorem int32_natAbs_le (a : Nat) : (int32 a).natAbs ≤ 2^31 := by
  unfold int32 Bits.toSigned
  have : a % 2^32 < 2^32 := Nat.mod_lt _ (by decide)
  simp only [Nat.reducePow, Nat.reduceSub] at *
  split <;> omega

/-- what InttoFP_SP computes, in terms of n = |int32 a| and L = log2 n -/
theorem inttofp_eq (a : Nat) (ha : a < 2^32) :
    let n := (int32 a).natAbs
    inttofp a =
      (if n = 0 then 0 else
         (if int32 a < 0 then 1 else 0) * 2^31 + ((127 + n.log2) * 2^23 + ((n * 2^(31 - n.log2)) % 2^32 / 2^8) % 2^23),
       b2n (decide ((n * 2^(if n = 0 then 32 else 31 - n.log2)) % 2^32 % 2^8 ≠ 0))) := by
  intro n
  have hn : n ≤ 2^31 := int32_natAbs_le a
  have hn32 : n < 2^32 := by simp only [Nat.reducePow] at *; omega
  have habs : (Lib.abs 32 32 1 a) = (n, if int32 a < 0 then 1 else 0) := by
    refine Prod.ext ?_ ?_
    · rw [C07.abs_spec 32 32 1 a (by decide) ha (by decide)]
      show (int32 a).natAbs % 2^32 = n
      exact Nat.mod_eq_of_lt hn32
    · rw [C07.abs_inverted_spec 32 32 a (by decide) ha]; rfl
  have hclz : Lib.countLeadingZeros 32 5 1 n = ((if n = 0 then 32 else 31 - n.log2) % 2^5, if n = 0 then 1 else 0) := by
    refine Prod.ext ?_ ?_
    · rw [C07.countLeadingZeros_spec 32 5 1 n (by decide) (by decide) hn32]
      unfold ArithSpec.countLeadingZeros ArithSpec.clz
      rw [Nat.mod_eq_of_lt hn32]
    · rw [C07.countLeadingZeros_z_spec 32 5 n hn32]
      unfold ArithSpec.isZero
      rw [Nat.mod_eq_of_lt hn32]
  unfold inttofp
  simp only [habs, hclz]
  by_cases h0 : n = 0
  · simp only [h0, if_true]
    refine Prod.ext ?_ ?_
    · simp only [Leaf.mux2, if_true]
      decide
    · show Leaf.buf 1 (Lib.notEqualConstant 8 1 (Leaf.range 8 (shiftLeft 32 5 32 0 (32 % 2 ^ 5)) 7 0) 0) = _
      decide
  · have hL : n.log2 ≤ 31 := by
      have := (Nat.log2_lt h0).mpr hn32
      omega
    have hc : (31 - n.log2) % 2^5 = 31 - n.log2 := Nat.mod_eq_of_lt (by simp only [Nat.reducePow]; omega)
    simp only [h0, if_false, hc]
    rw [C07.shiftLeft_spec 32 5 32 n (31 - n.log2) (by decide) (by simp only [Nat.reducePow]; omega)]
    unfold ArithSpec.shiftLeft
    have hsh : n * 2 ^ (31 - n.log2) % 2 ^ 32 < 2^32 := Nat.mod_lt _ (by decide)
    generalize n * 2 ^ (31 - n.log2) % 2 ^ 32 = sh at *
    have hs : (if int32 a < 0 then 1 else 0) < 2 := by split <;> omega
    generalize (if int32 a < 0 then 1 else 0) = sg at *
    have hexp : Leaf.sub 8 (Leaf.const 8 158) (31 - n.log2) = 127 + n.log2 := by
      rw [show Leaf.const 8 158 = 158 by decide, sub_nat 8 158 _ (by omega)]
      simp only [Nat.reducePow]; omega
    have hfr : Leaf.range 23 sh 30 8 = sh / 2^8 % 2^23 := by
      simp only [Leaf.range, Nat.shiftRight_eq_div_pow, Nat.reducePow, Nat.reduceSub, Nat.reduceAdd]; omega
    have hlo : Leaf.range 8 sh 7 0 = sh % 2^8 := by
      simp only [Leaf.range, Nat.shiftRight_eq_div_pow, Nat.reducePow, Nat.reduceSub, Nat.reduceAdd]; omega
    rw [hexp, hfr, hlo]
    rw [C08.notEqualConstant_spec 8 (sh % 2^8) 0 (by decide) (Nat.mod_lt _ (by decide)) (by decide) (by decide)]
    rw [C08.concatMSBF_spec 32 _ (by simp) (by
      intro wv hwv
      simp only [List.mem_cons, List.mem_nil_iff, or_false] at hwv
      rcases hwv with rfl | rfl | rfl
      · exact hs
      · simp only [Nat.reducePow]; omega
      · exact Nat.mod_lt _ (by decide))]
    simp only [LSpec.concatMSBF, LSpec.notEqualConstant, buf_b2n, Leaf.mux2, List.map, List.sum_cons, List.sum_nil]
    refine Prod.ext ?_ ?_
    · simp only [Nat.reducePow, Nat.reduceAdd, Nat.zero_mod, Nat.zero_ne_one, if_false] at *
      omega
    · simp only []
      rw [b2n_inj, Bool.eq_iff_iff]
      simp only [decide_eq_true_eq]
      omega

end C13
