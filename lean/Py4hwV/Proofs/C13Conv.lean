import Py4hwV.Proofs.C13Basic
/-
  C13 — helper development for the conversions InttoFP_SP / FixedPointtoFP_SP / FPtoInt_SP.
-/
namespace C13
open Lib Lib.Fp Lib.LSpec FpSpec

/-- the arithmetic core of InttoFP: normalisation by the leading-zero count, then truncation to 24 significant bits -/
theorem i2f_core (n L : Nat) (hL : L ≤ 31) (h1 : 2^L ≤ n) (h2 : n < 2^(L+1)) :
    (2^23 + ((n * 2^(31 - L)) % 2^32 / 2^8) % 2^23) * 2^(126 + L) = n / 2^(L + 1 - 24) * 2^(L + 1 - 24) * 2^149 ∧
    (((n * 2^(31 - L)) % 2^32 % 2^8 ≠ 0) ↔ n % 2^(L + 1 - 24) ≠ 0) := by
  have : L = 0 ∨ L = 1 ∨ L = 2 ∨ L = 3 ∨ L = 4 ∨ L = 5 ∨ L = 6 ∨ L = 7 ∨ L = 8 ∨ L = 9 ∨ L = 10 ∨ L = 11 ∨ L = 12 ∨ L = 13 ∨ L = 14 ∨ L = 15 ∨ L = 16 ∨ L = 17 ∨ L = 18 ∨ L = 19 ∨ L = 20 ∨ L = 21 ∨ L = 22 ∨ L = 23 ∨ L = 24 ∨ L = 25 ∨ L = 26 ∨ L = 27 ∨ L = 28 ∨ L = 29 ∨ L = 30 ∨ L = 31 := by omega
  rcases this with h | h | h | h | h | h | h | h | h | h | h | h | h | h | h | h | h | h | h | h | h | h | h | h | h | h | h | h | h | h | h | h <;> subst h <;> simp only [Nat.reducePow, Nat.reduceAdd, Nat.reduceSub] at * <;> omega

theorem sub_nat (w a b : Nat) (h : b ≤ a) : Leaf.sub w a b = (a - b) % 2^w := by
  unfold Leaf.sub
  rw [show ((a:Int) - (b:Int)) = ((a - b : Nat) : Int) by omega, Bits.put_ofNat]

theorem buf_b2n (x : Bool) : Leaf.buf 1 (b2n x) = b2n x := by cases x <;> decide

/-- a word assembled from a sign bit, an exponent field and a fraction field -/
theorem fields_of_word (s e f : Nat) (hs : s < 2) (he : e < 2^8) (hf : f < 2^23) :
    s * 2^31 + (e * 2^23 + f) < 2^32 ∧ signOf (s * 2^31 + (e * 2^23 + f)) = s ∧ expOf (s * 2^31 + (e * 2^23 + f)) = e ∧
    fracOf (s * 2^31 + (e * 2^23 + f)) = f := by
  unfold signOf expOf fracOf
  simp only [Nat.reducePow] at *
  omega

theorem int32_natAbs_le (a : Nat) : (int32 a).natAbs ≤ 2^31 := by
  unfold int32 Bits.toSigned
  have : a % 2^32 < 2^32 := Nat.mod_lt _ (by decide)
  simp only [Nat.reducePow, Nat.reduceSub] at *
  split <;> omega

/-- what InttoFP_SP computes, in terms of n = |int32 a| and L = log2 n -/
theorem inttofp_eq (a : Nat) (ha : a < 2^32) :
    let n := (int32 a).natAbs
    inttofp a =
      (if n = 0 then 0 else
         (if int32 a < 0 then 1 else 0) * 2^31 + ((127 + n.log2) * 2^23 + ((n * 2^(31 - n.log2)) % 2^32 / 2^8) % 2^23),
       b2n (decide ((n * 2^(if n = 0 then 32 else 31 - n.log2)) % 2^32 % 2^8 ≠ 0))) := by
  intro n
  have hn : n ≤ 2^31 := int32_natAbs_le a
  have hn32 : n < 2^32 := by simp only [Nat.reducePow] at *; omega
  have habs : (Lib.abs 32 32 1 a) = (n, if int32 a < 0 then 1 else 0) := by
    refine Prod.ext ?_ ?_
    · rw [C07.abs_spec 32 32 1 a (by decide) ha (by decide)]
      show (int32 a).natAbs % 2^32 = n
      exact Nat.mod_eq_of_lt hn32
    · rw [C07.abs_inverted_spec 32 32 a (by decide) ha]; rfl
  have hclz : Lib.countLeadingZeros 32 5 1 n = ((if n = 0 then 32 else 31 - n.log2) % 2^5, if n = 0 then 1 else 0) := by
    refine Prod.ext ?_ ?_
    · rw [C07.countLeadingZeros_spec 32 5 1 n (by decide) (by decide) hn32]
      unfold ArithSpec.countLeadingZeros ArithSpec.clz
      rw [Nat.mod_eq_of_lt hn32]
    · rw [C07.countLeadingZeros_z_spec 32 5 n hn32]
      unfold ArithSpec.isZero
      rw [Nat.mod_eq_of_lt hn32]
  unfold inttofp
  simp only [habs, hclz]
  by_cases h0 : n = 0
  · simp only [h0, if_true]
    refine Prod.ext ?_ ?_
    · simp only [Leaf.mux2, if_true]
      decide
    · show Leaf.buf 1 (Lib.notEqualConstant 8 1 (Leaf.range 8 (shiftLeft 32 5 32 0 (32 % 2 ^ 5)) 7 0) 0) = _
      decide
  · have hL : n.log2 ≤ 31 := by
      have := (Nat.log2_lt h0).mpr hn32
      omega
    have hc : (31 - n.log2) % 2^5 = 31 - n.log2 := Nat.mod_eq_of_lt (by simp only [Nat.reducePow]; omega)
    simp only [h0, if_false, hc]
    rw [C07.shiftLeft_spec 32 5 32 n (31 - n.log2) (by decide) (by simp only [Nat.reducePow]; omega)]
    unfold ArithSpec.shiftLeft
    have hsh : n * 2 ^ (31 - n.log2) % 2 ^ 32 < 2^32 := Nat.mod_lt _ (by decide)
    generalize n * 2 ^ (31 - n.log2) % 2 ^ 32 = sh at *
    have hs : (if int32 a < 0 then 1 else 0) < 2 := by split <;> omega
    generalize (if int32 a < 0 then 1 else 0) = sg at *
    have hexp : Leaf.sub 8 (Leaf.const 8 158) (31 - n.log2) = 127 + n.log2 := by
      rw [show Leaf.const 8 158 = 158 by decide, sub_nat 8 158 _ (by omega)]
      simp only [Nat.reducePow]; omega
    have hfr : Leaf.range 23 sh 30 8 = sh / 2^8 % 2^23 := by
      simp only [Leaf.range, Nat.shiftRight_eq_div_pow, Nat.reducePow, Nat.reduceSub, Nat.reduceAdd]; omega
    have hlo : Leaf.range 8 sh 7 0 = sh % 2^8 := by
      simp only [Leaf.range, Nat.shiftRight_eq_div_pow, Nat.reducePow, Nat.reduceSub, Nat.reduceAdd]; omega
    rw [hexp, hfr, hlo]
    rw [C08.notEqualConstant_spec 8 (sh % 2^8) 0 (by decide) (Nat.mod_lt _ (by decide)) (by decide) (by decide)]
    rw [C08.concatMSBF_spec 32 _ (by simp) (by
      intro wv hwv
      simp only [List.mem_cons, List.mem_nil_iff, or_false] at hwv
      rcases hwv with rfl | rfl | rfl
      · exact hs
      · simp only [Nat.reducePow]; omega
      · exact Nat.mod_lt _ (by decide))]
    simp only [LSpec.concatMSBF, LSpec.notEqualConstant, buf_b2n, Leaf.mux2, List.map, List.sum_cons, List.sum_nil]
    refine Prod.ext ?_ ?_
    · simp only [Nat.reducePow, Nat.reduceAdd, Nat.zero_mod, Nat.zero_ne_one, if_false] at *
      omega
    · simp only []
      rw [b2n_inj, Bool.eq_iff_iff]
      simp only [decide_eq_true_eq]
      omega

theorem inttofp_spec' (a : Nat) (ha : a < 2^32) :
    (int32 a = 0 → (inttofp a).1 = 0) ∧
    (int32 a ≠ 0 → normal (inttofp a).1 = true ∧
       sval (inttofp a).1 = (if int32 a < 0 then -1 else 1) * ((truncSig (int32 a).natAbs : Nat) : Int) * 2^149) ∧
    (inttofp a).2 = b2n (lostSig (int32 a).natAbs) := by
  have hEq := inttofp_eq a ha
  simp only [] at hEq
  rw [hEq]
  generalize hn : (int32 a).natAbs = n
  have hx0 : int32 a = 0 ↔ n = 0 := by rw [← hn]; omega
  by_cases h0 : n = 0
  · subst h0
    refine ⟨fun _ => by simp, fun h => absurd (hx0.mpr rfl) h, ?_⟩
    show b2n (decide ((0 * 2 ^ if 0 = 0 then 32 else 31 - Nat.log2 0) % 2 ^ 32 % 2 ^ 8 ≠ 0)) = b2n (lostSig 0)
    decide
  · have hn32 : n < 2^32 := by have := int32_natAbs_le a; rw [hn] at this; simp only [Nat.reducePow] at *; omega
    have hL : n.log2 ≤ 31 := by have := (Nat.log2_lt h0).mpr hn32; omega
    have h1 : 2^n.log2 ≤ n := Nat.log2_self_le h0
    have h2 : n < 2^(n.log2 + 1) := Nat.lt_log2_self
    obtain ⟨c1, c2⟩ := i2f_core n n.log2 hL h1 h2
    simp only [h0, if_false]
    have hs : (if int32 a < 0 then 1 else 0) < 2 := by split <;> omega
    have hf : (n * 2 ^ (31 - n.log2) % 2 ^ 32 / 2 ^ 8) % 2 ^ 23 < 2^23 := Nat.mod_lt _ (by decide)
    obtain ⟨w1, w2, w3, w4⟩ := fields_of_word (if int32 a < 0 then 1 else 0) (127 + n.log2) _ hs
      (by simp only [Nat.reducePow]; omega) hf
    refine ⟨fun h => absurd (hx0.mp h) h0, fun _ => ⟨?_, ?_⟩, ?_⟩
    · unfold normal
      rw [w3]
      simp only [Bool.and_eq_true, decide_eq_true_eq]
      omega
    · unfold sval mag mant
      rw [w2, w3, w4, show 127 + n.log2 - 1 = 126 + n.log2 by omega, c1]
      unfold truncSig dropBits
      generalize n / 2 ^ (n.log2 + 1 - 24) * 2 ^ (n.log2 + 1 - 24) = T
      by_cases hneg : int32 a < 0
      · simp only [hneg, if_true]
        rw [Int.natCast_mul]
        simp only [Int.natCast_pow, Int.cast_ofNat_Int]
        omega
      · simp only [hneg, if_false]
        rw [Int.natCast_mul]
        simp only [Int.natCast_pow, Int.cast_ofNat_Int]
        omega
    · unfold lostSig dropBits
      rw [b2n_inj, Bool.eq_iff_iff]
      simp only [decide_eq_true_eq]
      exact c2
theorem sub8 (a b : Nat) (ha : a < 256) (hb : b < 256) : Leaf.sub 8 a b = (a + 256 - b) % 256 := by
  unfold Leaf.sub Bits.put
  simp only [Int.reducePow]
  omega
theorem or_mod_left (u v w : Nat) : (u % 2^w ||| v) % 2^w = (u ||| v) % 2^w := by
  apply Nat.eq_of_testBit_eq
  intro i
  simp only [Nat.testBit_mod_two_pow, Nat.testBit_or]
  by_cases h : i < w <;> simp [h]

/-- `Select([0, s1, 1], ins)`: the OR of the selected inputs, each at its own width -/
theorem select3 (rw s1 w0 w1 w2 x0 x1 x2 : Nat) (hs : s1 < 2) :
    Lib.select rw [0, s1, 1] [(w0, x0), (w1, x1), (w2, x2)] =
      ((if s1 = 1 then x1 % 2^w1 else 0) ||| x2 % 2^w2) % 2^rw := by
  have hm : ∀ w x, (2^w - 1) &&& x = x % 2^w := fun w x => by
    rw [Nat.and_comm]; exact Nat.and_two_pow_sub_one_eq_mod x w
  have : s1 = 0 ∨ s1 = 1 := by omega
  rcases this with h | h <;> subst h <;>
    simp [Lib.select, Lib.orN, Leaf.or2, Leaf.and2, Leaf.repeat1, hm, or_mod_left]

/-- the datapath of FPtoInt_SP on an operand with a non-zero exponent field, as arithmetic on the fields -/
theorem fptoint_eq (a : Nat) (h1 : 1 ≤ expOf a) :
    let e := expOf a
    let m := 2^23 + fracOf a
    let realE := (e + 129) % 256
    let sra := (279 - realE) % 256
    let sla := (realE + 233) % 256
    let shifted : Nat := if sra / 128 % 2 = 1 then (m * 2^32 * 2^sla) % 2^64 else (m * 2^32 / 2^sra) % 2^64
    let pos : Nat := shifted / 2^32
    let fm : Nat := if signOf a = 1 then Bits.put 33 (-(pos : Int)) else pos
    let sre := realE / 128 % 2
    fptoint a = ⟨((if sre = 1 then 0 else 0) ||| fm % 2^33) % 2^32,
                 ((if sre = 1 then 1 else 0) ||| b2n (decide (shifted % 2^32 ≠ 0)) % 2) % 2,
                 0,
                 ((if sre = 1 then 0 else 0) ||| b2n (decide (Bits.toSigned 8 30 < Bits.toSigned 8 realE)) % 2) % 2⟩ := by
  intro e m realE sra sla shifted pos fm sre
  have he : e < 2^8 := expOf_lt a
  have hf := fracOf_lt a
  have he0 : e ≠ 0 := by omega
  unfold fptoint
  rw [parts_eq]
  have hd0 : decide (expOf a = 0) = false := by simp; exact he0
  have hd1 : decide (expOf a ≠ 0) = true := by simp; exact he0
  have hb1 : b2n true = 1 := rfl
  have hb0 : b2n false = 0 := rfl
  simp only [hd0, hd1, Bool.false_and, hb1, hb0, Nat.one_mul]
  have hre : Leaf.sub 8 (expOf a) 127 = realE := by
    rw [sub8 _ _ (by simpa using he) (by decide)]; show (e + 256 - 127) % 256 = (e + 129) % 256; omega
  have hreL : realE < 256 := Nat.mod_lt _ (by decide)
  have hsra : Leaf.sub 8 (Leaf.const 8 23) realE = sra := by
    rw [show Leaf.const 8 23 = 23 by decide, sub8 _ _ (by decide) hreL]
  have hsla : Leaf.sub 8 realE (Leaf.const 8 23) = sla := by
    rw [show Leaf.const 8 23 = 23 by decide, sub8 _ _ hreL (by decide)]; show (realE + 256 - 23) % 256 = (realE + 233) % 256; omega
  have hsraL : sra < 2^8 := Nat.mod_lt _ (by decide)
  have hslaL : sla < 2^8 := Nat.mod_lt _ (by decide)
  have hsign : ∀ x, Lib.sign 8 1 x = x / 128 % 2 := by
    intro x; simp only [Lib.sign, Leaf.bit, Nat.shiftRight_eq_div_pow, Nat.reducePow, Nat.reduceSub]; omega
  have hm : m < 2^24 := by show 2^23 + fracOf a < 2^24; simp only [Nat.reducePow] at *; omega
  have hfrac0 : Lib.concatMSBF 56 [(24, 2 ^ 23 + fracOf a), (32, Leaf.const 32 0)] = m * 2^32 := by
    rw [show Leaf.const 32 0 = 0 by decide, C08.concatMSBF_spec 56 _ (by simp) (by
      intro wv hwv
      simp only [List.mem_cons, List.mem_nil_iff, or_false] at hwv
      rcases hwv with rfl | rfl
      · exact hm
      · exact (by decide : 0 < 2^32))]
    simp [LSpec.concatMSBF]
    rfl
  have hf0L : m * 2^32 < 2^56 := by simp only [Nat.reducePow] at *; omega
  rw [hre, hsra, hsla, hfrac0, hsign, hsign,
    C07.shiftRight_logical_spec 56 8 64 _ _ hf0L hsraL, C07.shiftLeft_spec 56 8 64 _ _ (by decide) hslaL]
  have hsh : Leaf.mux2 64 (sra / 128 % 2) (ArithSpec.shiftRightL 64 (m * 2 ^ 32) sra)
      (ArithSpec.shiftLeft 64 (m * 2 ^ 32) sla) = shifted := by
    show _ = (if sra / 128 % 2 = 1 then m * 2 ^ 32 * 2 ^ sla % 2 ^ 64 else m * 2 ^ 32 / 2 ^ sra % 2 ^ 64)
    unfold Leaf.mux2 ArithSpec.shiftRightL ArithSpec.shiftLeft
    rw [Nat.mod_mod, Nat.mod_mod, Nat.mod_mod]
  rw [hsh]
  have hshL : shifted < 2^64 := by
    show (if sra / 128 % 2 = 1 then m * 2 ^ 32 * 2 ^ sla % 2 ^ 64 else m * 2 ^ 32 / 2 ^ sra % 2 ^ 64) < 2^64
    split <;> exact Nat.mod_lt _ (by decide)
  have hpos : Leaf.range 33 shifted 64 32 = pos := by
    show _ = shifted / 2^32
    simp only [Leaf.range, Nat.shiftRight_eq_div_pow, Nat.reducePow, Nat.reduceSub, Nat.reduceAdd] at *; omega
  have hlow : Leaf.range 32 shifted 31 0 = shifted % 2^32 := by
    simp only [Leaf.range, Nat.shiftRight_eq_div_pow, Nat.reducePow, Nat.reduceSub, Nat.reduceAdd] at *; omega
  rw [hpos, hlow, C07.neg_spec,
    C08.notEqualConstant_spec 32 _ 0 (by decide) (Nat.mod_lt _ (by decide)) (by decide) (by decide),
    C08.comparatorSU_spec 8 realE _ (by decide) (by simpa using hreL) (by decide)]
  have hsre : realE / 128 % 2 < 2 := Nat.mod_lt _ (by decide)
  have hsel3 : Leaf.or2 1 (Leaf.not1 1 0) (Leaf.not1 1 (realE / 128 % 2)) = 1 := by
    have : realE / 128 % 2 = 0 ∨ realE / 128 % 2 = 1 := by omega
    rcases this with h | h <;> rw [h] <;> decide
  rw [hsel3, select3 _ _ _ _ _ _ _ _ hsre, select3 _ _ _ _ _ _ _ _ hsre, select3 _ _ _ _ _ _ _ _ hsre]
  have hmux : Leaf.mux2 33 (signOf a) pos (ArithSpec.neg 33 pos) % 2 ^ 33 = fm % 2^33 := by
    show _ = (if signOf a = 1 then Bits.put 33 (-(pos:Int)) else pos) % 2^33
    have := signOf_lt a
    unfold Leaf.mux2 ArithSpec.neg
    by_cases hs : signOf a = 1
    · rw [if_pos (by omega), if_pos hs, Nat.mod_mod]
    · rw [if_neg (by omega), if_neg hs, Nat.mod_mod]
  have hne : LSpec.notEqualConstant (shifted % 2 ^ 32) 0 = b2n (decide (shifted % 2 ^ 32 ≠ 0)) := by
    unfold LSpec.notEqualConstant
    rw [b2n_inj, Bool.eq_iff_iff]
    simp only [decide_eq_true_eq]
    omega
  rw [hmux, hne]
  simp only [LSpec.comparatorSU, show Leaf.const 32 0 % 2 ^ 32 = 0 by decide, show Leaf.not1 1 0 % 2 ^ 1 = 1 by decide,
    show Leaf.buf 1 0 = 0 by decide, show Leaf.const 1 0 % 2 ^ 1 = 0 by decide, show Leaf.const 8 30 = 30 by decide,
    Nat.pow_one]
  rfl

theorem b2n_mod2 (x : Bool) : b2n x % 2 = b2n x := by cases x <;> decide

/-- splitting `m·X` at `2^k·X`: quotient and remainder -/
theorem mul_split (m k X P : Nat) (hP : P = 2^k * X) (hX : 0 < X) :
    m * X = (m / 2^k) * P + (m % 2^k) * X ∧ (m % 2^k) * X < P ∧ ((m % 2^k) * X ≠ 0 ↔ m % 2^k ≠ 0) := by
  have hk : 0 < 2^k := Nat.two_pow_pos k
  have hdm := Nat.div_add_mod m (2^k)
  have hr : m % 2^k < 2^k := Nat.mod_lt _ hk
  generalize m / 2^k = q at *
  generalize m % 2^k = r at *
  generalize 2^k = K at *
  subst hP
  refine ⟨?_, Nat.mul_lt_mul_of_pos_right hr hX, ?_⟩
  · rw [← hdm, Nat.add_mul, Nat.mul_assoc, Nat.mul_left_comm]
  · constructor
    · intro h h0; rw [h0, Nat.zero_mul] at h; exact h rfl
    · intro h h0
      rcases Nat.mul_eq_zero.mp h0 with h1 | h1
      · exact h h1
      · omega

/-- the shifter of FPtoInt_SP for exponent fields 127..150: `shifted = q·2^32 + t`, `q = trunc |x|`, `t ≠ 0 ⇔ discarded bits` -/
theorem shift_view_right (m e : Nat) (hm : m < 2^24) (h1 : 127 ≤ e) (h2 : e ≤ 150) :
    ∃ q t, m * 2^32 / 2^(150 - e) % 2^64 = q * 2^32 + t ∧ t < 2^32 ∧ q < 2^31 ∧
      m * 2^(e - 1) / 2^149 = q ∧ (m * 2^(e - 1) % 2^149 ≠ 0 ↔ t ≠ 0) := by
  have hk : 150 - e ≤ 23 := by omega
  generalize hkk : 150 - e = k at *
  have he : e - 1 = 149 - k := by omega
  rw [he]
  have h32 : 2^32 = 2^k * 2^(32 - k) := two_pow_split k 32 (by omega)
  have h149 : 2^149 = 2^k * 2^(149 - k) := two_pow_split k 149 (by omega)
  have hX : 0 < 2^(32 - k) := Nat.two_pow_pos _
  have hY : 0 < 2^(149 - k) := Nat.two_pow_pos _
  obtain ⟨a1, a2, a3⟩ := mul_split m k (2^(32 - k)) (2^32) h32 hX
  obtain ⟨b1, b2, b3⟩ := mul_split m k (2^(149 - k)) (2^149) h149 hY
  have hq : m / 2^k ≤ m := Nat.div_le_self _ _
  refine ⟨m / 2^k, (m % 2^k) * 2^(32 - k), ?_, a2, by simp only [Nat.reducePow] at *; omega, ?_, ?_⟩
  · have e1 : m * 2^32 / 2^k = m * 2^(32 - k) := by
      rw [h32, ← Nat.mul_assoc, Nat.mul_comm m, Nat.mul_assoc, Nat.mul_div_cancel_left _ (Nat.two_pow_pos k)]
    rw [e1, a1]
    apply Nat.mod_eq_of_lt
    simp only [Nat.reducePow] at *
    omega
  · rw [b1]
    generalize m % 2 ^ k * 2 ^ (149 - k) = t' at *
    generalize m / 2^k = q at *
    simp only [Nat.reducePow] at *
    omega
  · rw [b1, a3, ← b3]
    generalize m % 2 ^ k * 2 ^ (149 - k) = t' at *
    generalize m / 2^k = q at *
    have : (q * 2^149 + t') % 2^149 = t' := by
      rw [Nat.mul_comm, Nat.mul_add_mod]; exact Nat.mod_eq_of_lt b2
    rw [this]
/-- … and for exponent fields 151..157 (left shift by 1..7, nothing discarded) -/
theorem shift_view_left (m e : Nat) (hm : m < 2^24) (h1 : 151 ≤ e) (h2 : e ≤ 157) :
    ∃ q t, m * 2^32 * 2^(e - 150) % 2^64 = q * 2^32 + t ∧ t < 2^32 ∧ q < 2^31 ∧
      m * 2^(e - 1) / 2^149 = q ∧ (m * 2^(e - 1) % 2^149 ≠ 0 ↔ t ≠ 0) := by
  refine ⟨m * 2^(e - 150), 0, ?_⟩
  have : e = 151 ∨ e = 152 ∨ e = 153 ∨ e = 154 ∨ e = 155 ∨ e = 156 ∨ e = 157 := by omega
  rcases this with h | h | h | h | h | h | h <;> subst h <;> simp only [Nat.reducePow, Nat.reduceSub] at * <;> omega

/-- what remains once the shifter is known: sign handling, p_lost, invalid, on the atoms `q`, `t` -/
theorem fptoint_fin (s q t S : Nat) (hs : s < 2) (hS : S = q * 2^32 + t) (ht : t < 2^32) (hq : q < 2^31) :
    (if s = 1 then Bits.put 33 (-((S / 2^32 : Nat) : Int)) else S / 2^32) % 2^33 % 2^32
        = Bits.put 32 ((if s = 1 then -1 else 1) * (q : Int)) ∧
    (S % 2^32 ≠ 0 ↔ t ≠ 0) := by
  subst hS
  unfold Bits.put
  simp only [Nat.reducePow, Int.reducePow] at *
  have : s = 0 ∨ s = 1 := by omega
  rcases this with h | h <;> subst h <;> simp <;> omega

/-- exponent fields 127..157 (1 ≤ |x| < 2^31) -/
theorem fptoint_mid (a : Nat) (h1 : 127 ≤ expOf a) (h2 : expOf a ≤ 157) :
    (fptoint a).denorm = 0 ∧ (fptoint a).invalid = 0 ∧ (fptoint a).r = f2iR a ∧
    (fptoint a).p_lost = b2n (f2iLost a) ∧ fitsInt a = true := by
  have hEq := fptoint_eq a (by omega)
  simp only [] at hEq
  rw [hEq]
  clear hEq
  unfold fitsInt f2iR f2iLost mag mant
  have hf := fracOf_lt a
  have hs := signOf_lt a
  generalize expOf a = e at *
  generalize fracOf a = f at *
  generalize signOf a = s at *
  have hm : 2^23 + f < 2^24 := by simp only [Nat.reducePow] at *; omega
  generalize 2^23 + f = m at *
  simp only [b2n_mod2]
  have hsre : (e + 129) % 256 / 128 % 2 = 0 := by omega
  simp only [hsre, Nat.zero_ne_one, if_false, Nat.zero_or]
  have hinv : b2n (decide (Bits.toSigned 8 30 < Bits.toSigned 8 ((e + 129) % 256))) = 0 := by
    rw [show (0:Nat) = b2n false from rfl, b2n_inj]
    unfold Bits.toSigned
    simp only [Nat.reducePow, Nat.reduceSub, decide_eq_false_iff_not]
    omega
  -- the shifter
  have hview : ∃ q t, (if (279 - (e + 129) % 256) % 256 / 128 % 2 = 1 then m * 2 ^ 32 * 2 ^ (((e + 129) % 256 + 233) % 256) % 2 ^ 64
        else m * 2 ^ 32 / 2 ^ ((279 - (e + 129) % 256) % 256) % 2 ^ 64) = q * 2^32 + t ∧ t < 2^32 ∧ q < 2^31 ∧
      m * 2^(e - 1) / 2^149 = q ∧ (m * 2^(e - 1) % 2^149 ≠ 0 ↔ t ≠ 0) := by
    by_cases hr : e ≤ 150
    · rw [if_neg (by omega), show (279 - (e + 129) % 256) % 256 = 150 - e by omega]
      exact shift_view_right m e hm h1 hr
    · rw [if_pos (by omega), show ((e + 129) % 256 + 233) % 256 = e - 150 by omega]
      exact shift_view_left m e hm (by omega) h2
  obtain ⟨q, t, v1, v2, v3, v4, v5⟩ := hview
  generalize (if (279 - (e + 129) % 256) % 256 / 128 % 2 = 1 then m * 2 ^ 32 * 2 ^ (((e + 129) % 256 + 233) % 256) % 2 ^ 64
        else m * 2 ^ 32 / 2 ^ ((279 - (e + 129) % 256) % 256) % 2 ^ 64) = S at *
  obtain ⟨f1, f2⟩ := fptoint_fin s q t S hs v1 v2 v3
  refine ⟨trivial, ?_, ?_, ?_, ?_⟩
  · rw [hinv]
  · rw [f1, v4]
  · rw [b2n_mod2, b2n_inj, Bool.eq_iff_iff]
    simp only [decide_eq_true_eq]
    rw [f2, v5]
  · simp only [decide_eq_true_eq]
    have : m * 2^(e-1) < 2^24 * 2^156 :=
      Nat.mul_lt_mul_of_lt_of_le hm (Nat.pow_le_pow_right (by decide) (by omega)) (Nat.two_pow_pos _)
    simpa using this

/-- exponent fields 158..254 (|x| ≥ 2^31): flagged invalid -/
theorem fptoint_big (a : Nat) (h1 : 158 ≤ expOf a) (h2 : expOf a ≤ 254) :
    (fptoint a).denorm = 0 ∧ (fptoint a).invalid = 1 ∧ fitsInt a = false := by
  have hEq := fptoint_eq a (by omega)
  simp only [] at hEq
  rw [hEq]
  clear hEq
  simp only []
  unfold fitsInt mag mant
  generalize expOf a = e at *
  have hsre : (e + 129) % 256 / 128 % 2 = 0 := by omega
  have hinv : b2n (decide (Bits.toSigned 8 30 < Bits.toSigned 8 ((e + 129) % 256))) = 1 := by
    rw [show (1:Nat) = b2n true from rfl, b2n_inj]
    unfold Bits.toSigned
    simp only [Nat.reducePow, Nat.reduceSub, decide_eq_true_eq]
    omega
  refine ⟨trivial, ?_, ?_⟩
  · simp only [hsre, hinv, Nat.zero_ne_one, if_false, Nat.zero_or]
  · simp only [decide_eq_false_iff_not, Nat.not_lt]
    have : 2^23 * 2^157 ≤ (2^23 + fracOf a) * 2^(e - 1) :=
      Nat.mul_le_mul (by omega) (Nat.pow_le_pow_right (by decide) (by omega))
    simpa using this

/-- exponent fields 1..126 (0 < |x| < 1): result 0, precision lost -/
theorem fptoint_small (a : Nat) (h1 : 1 ≤ expOf a) (h2 : expOf a ≤ 126) :
    (fptoint a).denorm = 0 ∧ (fptoint a).invalid = 0 ∧ (fptoint a).r = f2iR a ∧
    (fptoint a).p_lost = b2n (f2iLost a) ∧ fitsInt a = true := by
  have hEq := fptoint_eq a h1
  simp only [] at hEq
  rw [hEq]
  clear hEq
  simp only []
  have hmagpos := mag_pos a
  unfold fitsInt f2iR f2iLost
  unfold mag mant at *
  have hf := fracOf_lt a
  have hs := signOf_lt a
  generalize expOf a = e at *
  generalize fracOf a = f at *
  generalize signOf a = s at *
  have hm : 2^23 + f < 2^24 := by simp only [Nat.reducePow] at *; omega
  generalize 2^23 + f = m at *
  have hmag : m * 2^(e - 1) < 2^149 := by
    have : m * 2^(e-1) < 2^24 * 2^125 :=
      Nat.mul_lt_mul_of_lt_of_le hm (Nat.pow_le_pow_right (by decide) (by omega)) (Nat.two_pow_pos _)
    simpa using this
  have hsre : (e + 129) % 256 / 128 % 2 = 1 := by omega
  have hinv : b2n (decide (Bits.toSigned 8 30 < Bits.toSigned 8 ((e + 129) % 256))) = 0 := by
    rw [show (0:Nat) = b2n false from rfl, b2n_inj]
    unfold Bits.toSigned
    simp only [Nat.reducePow, Nat.reduceSub, decide_eq_false_iff_not]
    omega
  have hsh : (if (279 - (e + 129) % 256) % 256 / 128 % 2 = 1 then m * 2 ^ 32 * 2 ^ (((e + 129) % 256 + 233) % 256) % 2 ^ 64
        else m * 2 ^ 32 / 2 ^ ((279 - (e + 129) % 256) % 256) % 2 ^ 64) / 2^32 = 0 := by
    apply Nat.div_eq_of_lt
    by_cases hr : e ≤ 22
    · rw [if_pos (by omega), show ((e + 129) % 256 + 233) % 256 = 64 + (e + 42) by omega, Nat.pow_add,
        ← Nat.mul_assoc, Nat.mul_comm _ (2^64), Nat.mul_assoc, Nat.mul_assoc, Nat.mul_mod_right]
      decide
    · rw [if_neg (by omega), show (279 - (e + 129) % 256) % 256 = 24 + (126 - e) by omega, Nat.pow_add,
        ← Nat.div_div_eq_div_mul]
      have h1 : m * 2^32 / 2^24 / 2^(126 - e) ≤ m * 2^32 / 2^24 := Nat.div_le_self _ _
      have h2 : m * 2^32 / 2^24 / 2^(126 - e) % 2^64 ≤ m * 2^32 / 2^24 / 2^(126 - e) := Nat.mod_le _ _
      generalize m * 2^32 / 2^24 / 2^(126 - e) = Z at *
      simp only [Nat.reducePow] at *
      omega
  refine ⟨trivial, ?_, ?_, ?_, ?_⟩
  · simp only [hsre, hinv, if_true, Nat.zero_or]
  · rw [hsh, Nat.div_eq_of_lt hmag, hsre]
    have : s = 0 ∨ s = 1 := by omega
    rcases this with h | h <;> subst h <;> decide
  · simp only [hsre, if_true, b2n_mod2]
    have e1 : ∀ x : Bool, (1 ||| b2n x) % 2 = 1 := fun x => by cases x <;> decide
    rw [e1, Nat.mod_eq_of_lt hmag]
    have : decide (m * 2^(e-1) ≠ 0) = true := by simp; omega
    rw [this]; rfl
  · simp only [decide_eq_true_eq]
    have : (2:Nat)^149 ≤ 2^180 := by decide
    omega

end C13
