import Py4hwV.Proofs.C01FlatSeq
/-
  C01 design level: whole runs.  Power-up, pokes of top-level inputs, clk(n) — by induction over the history.
-/
set_option linter.unusedSimpArgs false
namespace FlatM
open V C01 Net

section Run
variable {D : NetD} {f : V.Flat} {topo : List (LHS × Expr)} {regs : List RegI} {net : String → Option Nat}

theorem iter_succ' {α : Type} (g : α → α) (k : Nat) (a : α) : Net.iter g (k + 1) a = g (Net.iter g k a) := by
  induction k generalizing a with
  | zero => rfl
  | succ k ih => simp only [Net.iter] at *; exact ih _

theorem clk_one (d : Design Int) (s : State Int) : clk d 1 s = clkCycle d (propagateAll d s) := rfl

/-- **clk(n)**, any n -/
theorem clk_corr (C : SeqCorr D f topo regs net) {r : Rd} {s : State Int} (h : SeqRel D f.assigns net r s) (n : Nat)
    (hg : ∀ i, i ≤ n → D.good (clk D.design i s).val) :
    SeqRel D f.assigns net (Net.iter (cycleA f) n r) (clk D.design n s) ∧
    (0 < n → Rel net D.wd (clk D.design n s).val (Net.iter (cycleA f) n r)) := by
  have hidem : C05.PropIdem D.design := C04.propIdem D.design D.comb C.sched.1
  induction n with
  | zero => exact ⟨h.propagate C, fun h0 => absurd h0 (Nat.lt_irrefl 0)⟩
  | succ n ih =>
    have hg0 : D.good (propagateAll D.design (clk D.design n s)).val := by
      have := hg n (Nat.le_succ n)
      rw [show n = n + 0 from rfl, C05.clk_split D.design hidem n 0 s] at this
      exact this
    have hg1 : D.good (clk D.design 1 (clk D.design n s)).val := by
      rw [← C05.clk_split D.design hidem n 1 s]; exact hg (n + 1) (Nat.le_refl _)
    rw [C05.clk_split D.design hidem n 1 s, iter_succ']
    have := cycle_corr C (ih (fun i hi => hg i (Nat.le_succ_of_le hi))).1 hg0 hg1
    exact ⟨this.1, fun _ => this.2⟩

/-- `n` is THE top-level input name of net `k`: it denotes `k`, no assign drives it, no other undriven name denotes
    `k`, and `k` is not a register output -/
structure IsInput (f : V.Flat) (regs : List RegI) (net : String → Option Nat) (k : Nat) (n : String) : Prop where
  denotes : net n = some k
  undriven : n ∉ f.assigns.map tgt
  only : ∀ n', net n' = some k → n' ∉ f.assigns.map tgt → n' = n
  not_q : ∀ R, R ∈ regs → R.leaf.q ≠ k

theorem poke_info (r : Rd) (n : String) (v : Nat) : (poke r n v).info = r.info := rfl

/-- **poke** of a top-level input with a non-negative value -/
theorem poke_corr (C : SeqCorr D f topo regs net) {r : Rd} {s : State Int} (h : SeqRel D f.assigns net r s)
    (k : Nat) (n : String) (hin : IsInput f regs net k n) (v : Int) (hv : 0 ≤ v) :
    SeqRel D f.assigns net (poke r n v.toNat) (putW D.design s (k, v)) := by
  refine ⟨C06.inv_putW _ _ _ h.inv, h.prep, InfoOK_congr (poke_info r n _).symm h.info, ?_, ?_⟩
  · intro n' k' hn' hu'
    by_cases e : k' = k
    · subst e
      have := hin.only n' hn' hu'
      subst this
      have hw : widthOf r n' = D.wd k' := by simp [widthOf, h.info.width n' k' hn']
      have hput : (Gen.Wire.put ((D.wd k' : Nat) : Int) v).toNat = v.toNat % 2 ^ D.wd k' := by
        rw [wput]
        obtain ⟨m, rfl⟩ : ∃ m : Nat, v = (m : Int) := ⟨v.toNat, (Int.toNat_of_nonneg hv).symm⟩
        rw [Bits.put_ofNat]; simp
      simp [poke, setWhole, norm, hw, putW, NetD.design, hput]
    · have hne : n' ≠ n := by
        intro e'; subst e'
        rw [hin.denotes] at hn'
        exact e (Option.some.inj hn').symm
      simp only [poke, setWhole, putW, if_neg hne, upd, if_neg e]
      exact h.und n' k' hn' hu'
  · intro j R hR
    obtain ⟨x, hx1, hx2⟩ := h.regst j R hR
    refine ⟨x, hx1, ?_⟩
    have hne : R.q ≠ k := by
      rw [C.regs_eq] at hR
      simp only [List.getElem?_map] at hR
      cases hRI : regs[j]? with
      | none => rw [hRI] at hR; cases hR
      | some RI =>
        rw [hRI] at hR
        simp only [Option.map_some, Option.some.injEq] at hR
        subst hR
        exact hin.not_q RI (List.mem_of_getElem? hRI)
    simp only [putW, upd, if_neg hne]
    exact hx2

/-- which test-bench operations are covered: pokes of top-level inputs with non-negative values, clk(n), re-sort -/
def OpOK (f : V.Flat) (regs : List RegI) (net : String → Option Nat) (inName : Nat → String) : Op → Prop
  | .poke k v => IsInput f regs net k (inName k) ∧ 0 ≤ v
  | _ => True

/-- the side condition `D.good` holds at every settle of the operation (before every clock edge and after the last) -/
def GoodOp (D : NetD) (s : State Int) : Op → Prop
  | .clk n => ∀ i, i ≤ n → D.good (clk D.design i s).val
  | _ => True

/-- … of every operation of a run from `s` -/
def GoodRun (D : NetD) : State Int → List Op → Prop
  | _, [] => True
  | s, op :: ops => GoodOp D s op ∧ GoodRun D (applyOp D.design s op) ops

theorem goodRun_of_all (D : NetD) (h : ∀ V, D.good V) (s : State Int) (ops : List Op) : GoodRun D s ops := by
  induction ops generalizing s with
  | nil => trivial
  | cons op ops ih =>
    refine ⟨?_, ih _⟩
    cases op <;> simp [GoodOp, h]

theorem goodRun_append (D : NetD) (s : State Int) (a b : List Op) :
    GoodRun D s (a ++ b) ↔ GoodRun D s a ∧ GoodRun D (a.foldl (applyOp D.design) s) b := by
  induction a generalizing s with
  | nil => simp [GoodRun]
  | cons op a ih => simp [GoodRun, ih, and_assoc]

theorem op_corr (C : SeqCorr D f topo regs net) (inName : Nat → String) {r : Rd} {s : State Int}
    (h : SeqRel D f.assigns net r s) (op : Op) (hop : OpOK f regs net inName op) (hg : GoodOp D s op) :
    SeqRel D f.assigns net (applyOpA f inName r op) (applyOp D.design s op) := by
  cases op with
  | poke k v => exact poke_corr C h k (inName k) hop.1 v hop.2
  | clk n => exact (clk_corr C h n hg).1
  | resort => exact h

theorem ops_corr (C : SeqCorr D f topo regs net) (inName : Nat → String) (ops : List Op)
    (hops : ∀ op, op ∈ ops → OpOK f regs net inName op) {r : Rd} {s : State Int} (h : SeqRel D f.assigns net r s)
    (hg : GoodRun D s ops) :
    SeqRel D f.assigns net (ops.foldl (applyOpA f inName) r) (ops.foldl (applyOp D.design) s) := by
  induction ops generalizing r s with
  | nil => exact h
  | cons op ops ih =>
    simp only [List.foldl]
    exact ih (fun o ho => hops o (by simp [ho])) (op_corr C inName h op (hops op (by simp)) hg.1) hg.2

/-! ### power-up -/

/-- the Verilog store at time 0, before the first settle: declarations in place; every `reg rq = RV` holds its
    initialiser; the test bench drives every top-level input with 0 (py4hw wires power up at 0) -/
structure PowerUp (D : NetD) (f : V.Flat) (regs : List RegI) (net : String → Option Nat) (r : Rd) : Prop where
  info : InfoOK D f.assigns net r
  rq : ∀ R, R ∈ regs → r.val R.rq = ⟨D.wd R.leaf.q, R.leaf.rv % 2 ^ D.wd R.leaf.q, true⟩
  inputs : ∀ n k, net n = some k → n ∉ f.assigns.map tgt → (∀ R, R ∈ regs → R.leaf.q ≠ k) → r.val n = ⟨D.wd k, 0, true⟩

theorem st0_rid (D : NetD) (j : Nat) (R : RLeaf) (h : D.regs[j]? = some R) : D.st0 (D.rid j) = (R.rv : Int) := by
  unfold NetD.st0 NetD.rid
  have : D.combs.length + j - D.combs.length = j := by omega
  rw [this, h]
  simp

theorem powerup_corr (C : SeqCorr D f topo regs net) {r : Rd} (h : PowerUp D f regs net r) :
    SeqRel D f.assigns net r (initC D.design D.st0 D.cons) := by
  let z : State Int := D.cons.foldl (putW D.design) { val := fun _ => 0, nxt := fun _ => 0, prepared := [], st := D.st0, clks := 0 }
  have hnd : (D.cons.map Prod.fst).Nodup := by
    have : D.cons.map Prod.fst = regs.map (·.leaf.q) := by
      unfold NetD.cons; rw [C.regs_eq]; simp [List.map_map]
    rw [this]; exact C.q_nodup
  have hz : SeqRel D f.assigns net r z := by
    refine ⟨?_, ?_, h.info, ?_, ?_⟩
    · apply C06.inv_foldl D.design (putW D.design) (fun s a => C06.inv_putW D.design s a)
      constructor
      · intro w; exact Nat.two_pow_pos _
      · intro w hw; simp at hw
    · show (List.foldl (putW D.design) _ D.cons).prepared = []
      rw [C05.foldl_putW_prepared]
    · intro n k hn hu
      by_cases hq : ∃ R, R ∈ regs ∧ R.leaf.q = k
      · obtain ⟨R, hR, hRk⟩ := hq
        have := C.rq_only n k hn hu R hR hRk
        subst this
        have hmem : (R.leaf.q, (R.leaf.rv : Int)) ∈ D.cons := by
          unfold NetD.cons; rw [C.regs_eq]
          simp only [List.map_map, List.mem_map, Function.comp]
          exact ⟨R, hR, rfl⟩
        have := C04.foldl_putW_hit D.design D.cons
          { val := fun _ => 0, nxt := fun _ => 0, prepared := [], st := D.st0, clks := 0 } hnd _ hmem
        rw [h.rq R hR, ← hRk]
        show _ = (⟨D.wd R.leaf.q, z.val R.leaf.q, true⟩ : BV)
        show _ = (⟨D.wd R.leaf.q, (List.foldl (putW D.design) _ D.cons).val R.leaf.q, true⟩ : BV)
        rw [this]
        simp only [C04.mval]
        rw [show (D.design.width R.leaf.q : Int) = ((D.wd R.leaf.q : Nat) : Int) from rfl, wput, Bits.put_ofNat]
      · have hnot : ∀ R, R ∈ regs → R.leaf.q ≠ k := fun R hR e => hq ⟨R, hR, e⟩
        rw [h.inputs n k hn hu hnot]
        show _ = (⟨D.wd k, (List.foldl (putW D.design) _ D.cons).val k, true⟩ : BV)
        rw [C10.foldl_putW_val_other]
        intro hmem
        unfold NetD.cons at hmem
        rw [C.regs_eq] at hmem
        simp only [List.map_map, List.mem_map, Function.comp] at hmem
        obtain ⟨R, hR, e⟩ := hmem
        exact hnot R hR e
    · intro j R hR
      refine ⟨R.rv, ?_, ?_⟩
      · show (List.foldl (putW D.design) _ D.cons).st (D.rid j) = _
        rw [C10.foldl_putW_st]
        exact st0_rid D j R hR
      · have hmem : (R.q, (R.rv : Int)) ∈ D.cons := by
          unfold NetD.cons
          exact List.mem_map.mpr ⟨R, List.mem_of_getElem? hR, rfl⟩
        have := C04.foldl_putW_hit D.design D.cons
          { val := fun _ => 0, nxt := fun _ => 0, prepared := [], st := D.st0, clks := 0 } hnd _ hmem
        show _ = (List.foldl (putW D.design) _ D.cons).val R.q
        rw [this]
        simp only [C04.mval]
        rw [show (D.design.width R.q : Int) = ((D.wd R.q : Nat) : Int) from rfl, wput, Bits.put_ofNat]
  exact hz.propagate C

/-- **every run from power-up**: after ANY sequence of covered test-bench operations the two machines are in
    corresponding states -/
theorem run_corr (C : SeqCorr D f topo regs net) (inName : Nat → String) {r0 : Rd} (h0 : PowerUp D f regs net r0)
    (ops : List Op) (hops : ∀ op, op ∈ ops → OpOK f regs net inName op)
    (hg : GoodRun D (initC D.design D.st0 D.cons) ops) :
    SeqRel D f.assigns net (ops.foldl (applyOpA f inName) r0) (runC D.design D.st0 D.cons ops) :=
  ops_corr C inName ops hops (powerup_corr C h0) hg

/-- reading after settling on both sides -/
theorem observe_corr (C : SeqCorr D f topo regs net) {r : Rd} {s : State Int} (h : SeqRel D f.assigns net r s)
    (hg : D.good (propagateAll D.design s).val) :
    Rel net D.wd (propagateAll D.design s).val (settleA f.assigns r) :=
  comb_corr C.sched C.comb s h.inv r h.info h.und hg _ (Nat.le_refl _)

end Run
end FlatM
