import Py4hwV.Emit.FlatText
import Py4hwV.Proofs.C01FlatSeq
/-
  C01 design level, elaboration: `V.flatten` of the emitted module list `FlatSrc.emit`.
-/
set_option linter.unusedSimpArgs false
namespace FlatM
open V

/-! ### prefixing with the empty path is the identity -/

theorem pfxE_empty (e : Expr) : pfxE "" e = e := by
  induction e <;> simp [pfxE, *]

theorem pfxL_empty (l : LHS) : pfxL "" l = l := by
  cases l <;> simp [pfxL, pfxE_empty]

/-! ### what an item adds to the flattened design -/

structure Contrib where
  sigs : List (String × SigInfo) := []
  inits : List (String × Expr) := []
  assigns : List (LHS × Expr) := []
  procs : List (Event × Stmt) := []

def addC (f : V.Flat) (c : Contrib) : V.Flat :=
  { f with sigs := f.sigs ++ c.sigs, inits := f.inits ++ c.inits, assigns := f.assigns ++ c.assigns, procs := f.procs ++ c.procs }

def Contrib.app (a b : Contrib) : Contrib :=
  { sigs := a.sigs ++ b.sigs, inits := a.inits ++ b.inits, assigns := a.assigns ++ b.assigns, procs := a.procs ++ b.procs }

theorem addC_addC (f : V.Flat) (a b : Contrib) : addC (addC f a) b = addC f (a.app b) := by
  simp [addC, Contrib.app, List.append_assoc]

theorem addC_empty (f : V.Flat) : addC f {} = f := by simp [addC]

def Contrib.join (cs : List Contrib) : Contrib :=
  { sigs := cs.flatMap (·.sigs), inits := cs.flatMap (·.inits), assigns := cs.flatMap (·.assigns), procs := cs.flatMap (·.procs) }

theorem join_cons (c : Contrib) (cs : List Contrib) : Contrib.join (c :: cs) = c.app (Contrib.join cs) := by
  simp [Contrib.join, Contrib.app]

theorem fold_addC {α : Type} (step : V.Flat → α → V.Flat) (items : List α) (c : α → Contrib)
    (h : ∀ f it, it ∈ items → step f it = addC f (c it)) (f : V.Flat) :
    items.foldl step f = addC f (Contrib.join (items.map c)) := by
  induction items generalizing f with
  | nil => simp [Contrib.join, addC]
  | cons it items ih =>
    simp only [List.foldl, List.map_cons, join_cons]
    rw [h f it (by simp), ih (fun f it' h' => h f it' (by simp [h'])), addC_addC]

namespace FlatSrc
variable (S : FlatSrc)

theorem pfx_regBody0 (p : String) (hasR hasE : Bool) (rv : Nat) :
    pfxS p (regBody0 hasR hasE rv) = regBodyP p hasR hasE rv := by
  cases hasR <;> cases hasE <;> rfl

/-- what the body of a flattened register module adds, under instance prefix `cp` -/
def regModC (r : RegSrc) (cp : String) : Contrib :=
  { sigs := [(cp ++ "clk", { width := 1 }), (cp ++ "d", { width := S.wd r.leaf.d })] ++
      (if r.leaf.hasE then [(cp ++ "e", { width := S.wd r.leaf.e })] else []) ++
      (if r.leaf.hasR then [(cp ++ "r", { width := S.wd r.leaf.r })] else []) ++
      [(cp ++ "q", { width := S.wd r.leaf.q }), (cp ++ "rq", { width := S.wd r.leaf.q })],
    inits := [(cp ++ "rq", lit r.leaf.rv)],
    assigns := [(.lid (cp ++ "q"), .id (cp ++ "rq"))],
    procs := [(.pos (cp ++ "clk"), regBodyP cp r.leaf.hasR r.leaf.hasE r.leaf.rv)] }

theorem flatten_regModule (d : Design) (fuel : Nat) (r : RegSrc) (cp : String) (f : V.Flat) :
    flattenM d (fuel + 1) (S.regModule r) cp f = addC f (S.regModC r cp) := by
  cases hE : r.leaf.hasE <;> cases hR : r.leaf.hasR <;>
    simp [flattenM, regModule, regModC, addC, hE, hR, mkPort, pfxL, pfxE, pfxEv, pfx_regBody0, lit, List.append_assoc]

/-- the connection assigns of a flattened instance (`V.flattenM`, `.inst` case) -/
def connC (r : RegSrc) : Contrib :=
  { assigns := [(.lid (r.iname ++ "." ++ "clk"), .id S.clk), (.lid (r.iname ++ "." ++ "d"), .id (S.nm r.leaf.d))] ++
      (if r.leaf.hasE then [(.lid (r.iname ++ "." ++ "e"), .id (S.nm r.leaf.e))] else []) ++
      (if r.leaf.hasR then [(.lid (r.iname ++ "." ++ "r"), .id (S.nm r.leaf.r))] else []) ++
      [(.lid (S.nm r.leaf.q), .id (r.iname ++ "." ++ "q"))] }

def childC : Child → Contrib
  | .prim k => { assigns := [k.assign S.wd S.nm] }
  | .reg r => (S.regModC r (r.iname ++ ".")).app (S.connC r)

def portSig (p : String) (pt : Port) : String × SigInfo := (p ++ pt.name, { width := pt.width })

theorem ports_fold (p : String) (ports : List Port) (f : V.Flat) :
    ports.foldl (fun f pt => { f with sigs := f.sigs ++ [(p ++ pt.name, ({ width := pt.width } : SigInfo))] }) f =
      addC f { sigs := ports.map (portSig p) } := by
  induction ports generalizing f with
  | nil => simp [addC]
  | cons pt ports ih => simp only [List.foldl, ih]; simp [addC, portSig, List.append_assoc]

def topC : Contrib :=
  (({ sigs := S.topModule.ports.map (portSig "") } : Contrib).app
    (Contrib.join (S.locals.map fun k => ({ sigs := [(S.nm k, { width := S.wd k })] } : Contrib)))).app
    (Contrib.join (S.children.map S.childC))

theorem flatten_top (d : Design) (fuel : Nat)
    (hfind : ∀ r, r ∈ S.regSrcs → findModule d r.mname = some (S.regModule r)) :
    flattenM d (fuel + 2) S.topModule "" {} = addC {} S.topC := by
  rw [flattenM]
  simp only [ports_fold]
  have hparams : S.topModule.params = [] := rfl
  have hitems : S.topModule.items = (S.locals.map fun k => Item.wire (S.nm k) (S.wd k)) ++ S.children.map S.childItem := rfl
  rw [hparams, hitems]
  simp only [List.foldl_nil, List.foldl_append, List.foldl_map]
  rw [fold_addC _ S.locals (fun k => ({ sigs := [(S.nm k, { width := S.wd k })] } : Contrib))
    (by intro f k _; simp [addC])]
  rw [fold_addC _ S.children S.childC (by
    intro f c hc
    cases c with
    | prim k => simp [childItem, childC, addC, pfxL_empty, pfxE_empty, Kind.assign]
    | reg r =>
      have hr : r ∈ S.regSrcs := by
        unfold regSrcs; rw [List.mem_filterMap]; exact ⟨.reg r, hc, rfl⟩
      simp only [childItem, hfind r hr, flatten_regModule, List.foldl_nil]
      cases hE : r.leaf.hasE <;> cases hR : r.leaf.hasR <;>
        simp [regConns, regModule, childC, connC, regModC, Contrib.app, addC, hE, hR, mkPort, pfxL, pfxE, exprToLHS,
          List.append_assoc, List.find?])]
  simp [addC_addC, topC]

/-! ### module lookup in the emitted list -/

theorem dedup_aux (ms acc : List Module) :
    (∀ m, m ∈ ms.foldl (fun acc m => if acc.any (·.name == m.name) then acc else acc ++ [m]) acc → m ∈ acc ∨ m ∈ ms) ∧
    (∀ m, m ∈ acc ∨ m ∈ ms → ∃ m', m' ∈ ms.foldl (fun acc m => if acc.any (·.name == m.name) then acc else acc ++ [m]) acc ∧
      m'.name = m.name) := by
  induction ms generalizing acc with
  | nil =>
    simp only [List.foldl_nil, List.not_mem_nil, or_false]
    exact ⟨fun m h => h, fun m h => ⟨m, h, rfl⟩⟩
  | cons x ms ih =>
    simp only [List.foldl_cons]
    by_cases hany : acc.any (·.name == x.name) = true
    · rw [if_pos hany]
      have ⟨h1, h2⟩ := ih acc
      refine ⟨fun m hm => ?_, fun m hm => ?_⟩
      · rcases h1 m hm with h | h
        · exact Or.inl h
        · exact Or.inr (by simp [h])
      · rcases hm with h | h
        · exact h2 m (Or.inl h)
        · simp only [List.mem_cons] at h
          rcases h with h | h
          · subst h
            rcases List.any_eq_true.mp hany with ⟨y, hy, hyn⟩
            obtain ⟨m', hm', e⟩ := h2 y (Or.inl hy)
            exact ⟨m', hm', by rw [e]; simpa using hyn⟩
          · exact h2 m (Or.inr h)
    · rw [if_neg hany]
      have ⟨h1, h2⟩ := ih (acc ++ [x])
      refine ⟨fun m hm => ?_, fun m hm => ?_⟩
      · rcases h1 m hm with h | h
        · simp only [List.mem_append, List.mem_singleton] at h
          rcases h with h | h
          · exact Or.inl h
          · exact Or.inr (by simp [h])
        · exact Or.inr (by simp [h])
      · apply h2 m
        rcases hm with h | h
        · exact Or.inl (by simp [h])
        · simp only [List.mem_cons] at h
          rcases h with h | h
          · exact Or.inl (by simp [h])
          · exact Or.inr h

theorem findModule_emit_top : findModule S.emit S.top = some S.topModule := by
  simp [findModule, emit, topModule]

/-- module names are used consistently and differ from the top module's name -/
structure ModsOK (S : FlatSrc) : Prop where
  top_name : ∀ r, r ∈ S.regSrcs → r.mname ≠ S.top
  consistent : ∀ r r', r ∈ S.regSrcs → r' ∈ S.regSrcs → r.mname = r'.mname → S.regModule r = S.regModule r'

theorem findModule_emit_reg (h : S.ModsOK) (r : RegSrc) (hr : r ∈ S.regSrcs) :
    findModule S.emit r.mname = some (S.regModule r) := by
  have hne : (S.topModule.name == r.mname) = false := by
    simp only [topModule, beq_eq_false_iff_ne, ne_eq]
    exact fun e => h.top_name r hr e.symm
  unfold findModule emit
  rw [List.find?_cons, hne]
  have ⟨h1, h2⟩ := dedup_aux (S.regSrcs.map S.regModule) []
  obtain ⟨m', hm', hname⟩ := h2 (S.regModule r) (Or.inr (List.mem_map.mpr ⟨r, hr, rfl⟩))
  have hsome : ((dedupMods (S.regSrcs.map S.regModule)).find? (·.name == r.mname)).isSome = true := by
    rw [List.find?_isSome]
    exact ⟨m', hm', by simp [hname, regModule]⟩
  cases hf : (dedupMods (S.regSrcs.map S.regModule)).find? (·.name == r.mname) with
  | none => rw [hf] at hsome; cases hsome
  | some x =>
    have hx : x ∈ dedupMods (S.regSrcs.map S.regModule) := List.mem_of_find?_eq_some hf
    have hxn := List.find?_some hf
    simp only [beq_iff_eq] at hxn
    rcases h1 x hx with h0 | h0
    · cases h0
    · rcases List.mem_map.mp h0 with ⟨r', hr', e⟩
      subst e
      rw [h.consistent r' r hr' hr hxn]

theorem flatten_emit (h : S.ModsOK) : flatten S.emit S.top = addC {} S.topC := by
  unfold flatten
  rw [findModule_emit_top]
  simp only
  have : S.emit.length + 2 = (S.emit.length) + 2 := rfl
  exact flatten_top S S.emit S.emit.length (fun r hr => findModule_emit_reg S h r hr)

end FlatSrc
end FlatM
