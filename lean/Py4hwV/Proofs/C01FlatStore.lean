import Py4hwV.Proofs.C01FlatV
import Std.Data.HashMap.Lemmas
/-
  C01 design level: the SHIPPED interpreter (HashMap store, Verilog/Run.lean) refines the reader-level steps of
  Emit/Flat.lean on flat designs: `Store.wr (.whole n)` is `setWhole`, `settlePass` is `passA`, `settleLoop` ends in
  the settled store and reports success.
-/
set_option linter.unusedSimpArgs false
namespace FlatM
open V Std

theorem bv_beq (a b : BV) : (a == b) = true ↔ a = b := by
  cases a; cases b
  simp [BEq.beq, V.instBEqBV.beq]

theorem setVal_rd (s : Store) (n : String) (v : BV) :
    (s.setVal n v).rd = { s.rd with val := fun m => if m = n then v else s.rd.val m } := by
  unfold Store.setVal
  simp only
  by_cases h : (s.rd.val n == v) = true
  · rw [if_pos h]
    have hv := (bv_beq _ _).mp h
    apply rd_ext
    · rfl
    · rfl
    · intro m
      by_cases e : m = n
      · subst e; simp [hv]
      · simp [e]
  · rw [if_neg h]
    apply rd_ext
    · rfl
    · rfl
    · intro m
      simp only [Store.rd, HashMap.getElem?_insert]
      by_cases e : m = n
      · subst e; simp
      · have : (n == m) = false := by simp; exact fun h => e h.symm
        simp [this, e]

theorem wr_whole_rd (s : Store) (n : String) (v : BV) : (s.wr (.whole n) v).rd = setWhole s.rd n v := by
  simp only [Store.wr, setVal_rd]
  rfl

/-- no `always @(*)` blocks (a flat design has only `always @(posedge …)`) -/
def NoStar (f : V.Flat) : Prop := ∀ ep, ep ∈ f.procs → ep.1 ≠ Event.star

theorem fold_id {α β : Type} (g : α → β → α) (l : List β) (h : ∀ s b, b ∈ l → g s b = s) (s : α) : l.foldl g s = s := by
  induction l generalizing s with
  | nil => rfl
  | cons b l ih => simp only [List.foldl]; rw [h s b (by simp)]; exact ih (fun s b hb => h s b (by simp [hb])) s

theorem fold_assigns_rd (g : Store → LHS × Expr → Store)
    (hg : ∀ s a, g s a = s.wr (resolve s.rd a.1) (evalAssign s.rd (lhsWidth s.rd a.1) a.2))
    (as : List (LHS × Expr)) (s : Store) (hok : ∀ a, a ∈ as → LhsOk s.rd a.1) :
    (as.foldl g s).rd = passA as s.rd := by
  induction as generalizing s with
  | nil => rfl
  | cons a as ih =>
    simp only [List.foldl, passA]
    have hl := hok a (by simp)
    have hstep : (g s a).rd = stepA s.rd a := by
      rw [hg]
      unfold stepA
      rw [hl.1, wr_whole_rd]
      rfl
    have := ih (g s a) (by
      intro b hb
      rw [hstep]
      exact LhsOk_congr (stepA_info _ _).symm (hok b (by simp [hb])))
    simp only [passA] at this
    rw [this, hstep]

/-- **`V.settlePass` is `passA`** on a flat design -/
theorem settlePass_rd (f : V.Flat) (hns : NoStar f) (s : Store) (hok : ∀ a, a ∈ f.assigns → LhsOk s.rd a.1) :
    (settlePass f s).rd = passA f.assigns s.rd := by
  unfold settlePass
  rw [fold_id _ f.procs]
  · exact fold_assigns_rd _ (fun s a => rfl) f.assigns s hok
  · intro s ep hep
    obtain ⟨ev, p⟩ := ep
    have hne := hns (ev, p) hep
    cases ev with
    | star => exact absurd rfl hne
    | pos c => rfl
    | neg c => rfl

/-! ### `settleLoop` -/

instance : LawfulBEq BV where
  eq_of_beq h := (bv_beq _ _).mp h
  rfl := (bv_beq _ _).mpr rfl

theorem foldl_and {α : Type} (l : List α) (p : α → Bool) (b : Bool) :
    l.foldl (fun acc x => acc && p x) b = true ↔ b = true ∧ ∀ x, x ∈ l → p x = true := by
  induction l generalizing b with
  | nil => simp
  | cons a l ih =>
    simp only [List.foldl, ih, Bool.and_eq_true, List.mem_cons]
    constructor
    · rintro ⟨⟨hb, ha⟩, hl⟩
      refine ⟨hb, ?_⟩
      intro x hx
      rcases hx with e | e
      · rw [e]; exact ha
      · exact hl x e
    · rintro ⟨hb, hl⟩
      exact ⟨⟨hb, hl a (Or.inl rfl)⟩, fun x hx => hl x (Or.inr hx)⟩

theorem sameStore_iff (a b : Store) :
    sameStore a b = true ↔
      (∀ (k : String) (v : BV), b.vals[k]? = some v → a.rd.val k = v) ∧
      (∀ (k : String) (arr : Array BV), b.mems[k]? = some arr → ∃ x, a.mems[k]? = some x ∧ (x == arr) = true) := by
  unfold sameStore
  rw [Bool.and_eq_true, HashMap.fold_eq_foldl_toList, HashMap.fold_eq_foldl_toList]
  rw [foldl_and, foldl_and]
  constructor
  · rintro ⟨⟨_, h1⟩, ⟨_, h2⟩⟩
    constructor
    · intro k v hkv
      have := h1 (k, v) (HashMap.mem_toList_iff_getElem?_eq_some.mpr hkv)
      exact (bv_beq _ _).mp this
    · intro k arr hk
      have := h2 (k, arr) (HashMap.mem_toList_iff_getElem?_eq_some.mpr hk)
      simp only at this
      cases hx : a.mems[k]? with
      | none => rw [hx] at this; cases this
      | some x => rw [hx] at this; exact ⟨x, rfl, this⟩
  · rintro ⟨h1, h2⟩
    refine ⟨⟨rfl, ?_⟩, ⟨rfl, ?_⟩⟩
    · intro kv hkv
      have := h1 kv.1 kv.2 (HashMap.mem_toList_iff_getElem?_eq_some.mp hkv)
      exact (bv_beq _ _).mpr this
    · intro kv hkv
      obtain ⟨x, hx, hb⟩ := h2 kv.1 kv.2 (HashMap.mem_toList_iff_getElem?_eq_some.mp hkv)
      simp only [hx, hb]

/-- what whole-net writes leave alone -/
structure Keeps (s s' : Store) : Prop where
  info : s'.info = s.info
  mems : s'.mems = s.mems
  mono : ∀ k : String, (s.vals[k]?).isSome = true → (s'.vals[k]?).isSome = true

theorem Keeps.refl (s : Store) : Keeps s s := ⟨rfl, rfl, fun _ h => h⟩

theorem Keeps.trans {a b c : Store} (h1 : Keeps a b) (h2 : Keeps b c) : Keeps a c :=
  ⟨h2.info.trans h1.info, h2.mems.trans h1.mems, fun k h => h2.mono k (h1.mono k h)⟩

theorem keeps_setVal (s : Store) (n : String) (v : BV) : Keeps s (s.setVal n v) := by
  unfold Store.setVal
  simp only
  split
  · exact Keeps.refl s
  · refine ⟨rfl, rfl, ?_⟩
    intro k hk
    simp only [HashMap.getElem?_insert]
    split
    · rfl
    · exact hk

theorem keeps_wr_whole (s : Store) (n : String) (v : BV) : Keeps s (s.wr (.whole n) v) := keeps_setVal _ _ _

theorem keeps_fold (g : Store → LHS × Expr → Store)
    (hg : ∀ s a, g s a = s.wr (resolve s.rd a.1) (evalAssign s.rd (lhsWidth s.rd a.1) a.2))
    (as : List (LHS × Expr)) (s : Store) (hok : ∀ a, a ∈ as → LhsOk s.rd a.1) : Keeps s (as.foldl g s) := by
  induction as generalizing s with
  | nil => exact Keeps.refl s
  | cons a as ih =>
    simp only [List.foldl]
    have hl := hok a (by simp)
    have hk : Keeps s (g s a) := by rw [hg, hl.1]; exact keeps_wr_whole _ _ _
    have hrd : (g s a).rd.info = s.rd.info := by
      show (fun n => (g s a).info[n]?) = fun n => s.info[n]?
      rw [hk.info]
    exact hk.trans (ih (g s a) (fun b hb => LhsOk_congr hrd.symm (hok b (by simp [hb]))))

theorem keeps_settlePass (f : V.Flat) (hns : NoStar f) (s : Store) (hok : ∀ a, a ∈ f.assigns → LhsOk s.rd a.1) :
    Keeps s (settlePass f s) := by
  unfold settlePass
  rw [fold_id _ f.procs]
  · exact keeps_fold _ (fun s a => rfl) f.assigns s hok
  · intro s ep hep
    obtain ⟨ev, p⟩ := ep
    have hne := hns (ev, p) hep
    cases ev with
    | star => exact absurd rfl hne
    | pos c => rfl
    | neg c => rfl

/-- a pass that changed no observable value is detected as such, and conversely -/
theorem sameStore_pass (f : V.Flat) (hns : NoStar f) (s : Store) (hok : ∀ a, a ∈ f.assigns → LhsOk s.rd a.1) :
    sameStore s (settlePass f s) = true ↔ (settlePass f s).rd = s.rd := by
  have hk := keeps_settlePass f hns s hok
  rw [sameStore_iff]
  constructor
  · rintro ⟨h1, _⟩
    apply rd_ext
    · show (fun n => (settlePass f s).info[n]?) = fun n => s.info[n]?
      rw [hk.info]
    · simp only [Store.rd, hk.mems, hk.info]
    · intro k
      cases hv : (settlePass f s).vals[k]? with
      | some v =>
        rw [h1 k v hv]
        simp [Store.rd, hv]
      | none =>
        have hs : s.vals[k]? = none := by
          cases hs : s.vals[k]? with
          | none => rfl
          | some v' =>
            have := hk.mono k (by rw [hs]; rfl)
            rw [hv] at this; cases this
        simp [Store.rd, hv, hs, hk.info]
  · intro h
    constructor
    · intro k v hkv
      have : (settlePass f s).rd.val k = v := by simp [Store.rd, hkv]
      rw [← this, h]
    · intro k arr hk'
      rw [hk.mems] at hk'
      exact ⟨arr, hk', beq_self_eq_true arr⟩

theorem iter_fix {α : Type} (g : α → α) (a : α) (h : g a = a) (k : Nat) : Net.iter g k a = a := by
  induction k with
  | zero => rfl
  | succ k ih => simp only [Net.iter]; rw [h]; exact ih

theorem settleLoop_aux (f : V.Flat) (hns : NoStar f) (fin : Rd) (fuel : Nat) :
    ∀ (m : Nat) (s : Store), (∀ a, a ∈ f.assigns → LhsOk s.rd a.1) →
      (∀ m', m ≤ m' → Net.iter (passA f.assigns) m' s.rd = fin) → m < fuel →
      (settleLoop f fuel s).2 = true ∧ (settleLoop f fuel s).1.rd = fin := by
  induction fuel with
  | zero => intro m s _ _ h; omega
  | succ fuel ih =>
    intro m s hok hQ hm
    have hpass := settlePass_rd f hns s hok
    unfold settleLoop
    simp only
    by_cases hsame : sameStore s (settlePass f s) = true
    · rw [if_pos hsame]
      refine ⟨rfl, ?_⟩
      have hrd := (sameStore_pass f hns s hok).mp hsame
      rw [hrd]
      have hfix : passA f.assigns s.rd = s.rd := by rw [← hpass, hrd]
      rw [← hQ m (Nat.le_refl _), iter_fix _ _ hfix]
    · rw [if_neg hsame]
      cases m with
      | zero =>
        exfalso
        apply hsame
        rw [sameStore_pass f hns s hok, hpass]
        have h0 : s.rd = fin := hQ 0 (Nat.le_refl _)
        have h1 : passA f.assigns s.rd = fin := hQ 1 (by omega)
        rw [h1, h0]
      | succ m0 =>
        apply ih m0 (settlePass f s)
        · intro a ha
          have : (settlePass f s).rd.info = s.rd.info := by rw [hpass, passA_info]
          exact LhsOk_congr this.symm (hok a ha)
        · intro m' hm'
          rw [hpass]
          have := hQ (m' + 1) (by omega)
          simpa [Net.iter] using this
        · omega

/-- **`V.settleLoop` computes the settled store and reports success** on a flat design: with the fuel `Sim.settle`
    gives it (`assigns.length + procs.length + 3`) or any fuel above `assigns.length`, from ANY store -/
theorem settleLoop_rd (f : V.Flat) (hns : NoStar f) {topo : List (LHS × Expr)} (hp : f.assigns.Perm topo) (hA : Acyc topo)
    (fuel : Nat) (s : Store) (hok : ∀ a, a ∈ f.assigns → LhsOk s.rd a.1) (hfuel : f.assigns.length < fuel) :
    (settleLoop f fuel s).2 = true ∧ (settleLoop f fuel s).1.rd = settleA f.assigns s.rd := by
  have hfin : settleA f.assigns s.rd = passA topo s.rd := iter_eq_topo hp hA s.rd hok _ (Nat.le_refl _)
  rw [hfin]
  apply settleLoop_aux f hns (passA topo s.rd) fuel f.assigns.length s hok _ hfuel
  intro m' hm'
  exact iter_eq_topo hp hA s.rd hok m' hm'

/-- `Sim.settle` on a flat design: no error is logged and the store is the settled one -/
theorem sim_settle_rd (m : Sim) (hns : NoStar m.flat) {topo : List (LHS × Expr)} (hp : m.flat.assigns.Perm topo)
    (hA : Acyc topo) (hok : ∀ a, a ∈ m.flat.assigns → LhsOk m.st.rd a.1) :
    m.settle.st.rd = settleA m.flat.assigns m.st.rd ∧ m.settle.errors = m.errors ∧ m.settle.flat = m.flat ∧
    m.settle.clk = m.clk := by
  have h := settleLoop_rd m.flat hns hp hA (m.flat.assigns.length + m.flat.procs.length + 3) m.st hok (by omega)
  refine ⟨h.2, ?_, rfl, rfl⟩
  show (if (settleLoop m.flat (m.flat.assigns.length + m.flat.procs.length + 3) m.st).2 = true then m.errors
    else m.errors ++ ["combinational logic did not settle"]) = m.errors
  rw [h.1]; rfl

end FlatM
