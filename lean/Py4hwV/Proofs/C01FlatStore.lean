import Py4hwV.Proofs.C01FlatV
import Std.Data.HashMap.Lemmas
/-
  C01 design level: the SHIPPED interpreter (HashMap store, Verilog/Run.lean) refines the reader-level steps of
  Emit/Flat.lean on flat designs: `Store.wr (.whole n)` is `setWhole`, `settlePass` is `passA`, `settleLoop` ends in
  the settled store and reports success.
-/
set_option linter.unusedSimpArgs false
namespace FlatM
open V Std

theorem bv_beq (a b : BV) : (a == b) = true ↔ a = b := by
  cases a; cases b
  simp [BEq.beq, V.instBEqBV.beq]

theorem setVal_rd (s : Store) (n : String) (v : BV) :
    (s.setVal n v).rd = { s.rd with val := fun m => if m = n then v else s.rd.val m } := by
  unfold Store.setVal
  simp only
  by_cases h : (s.rd.val n == v) = true
  · rw [if_pos h]
    have hv := (bv_beq _ _).mp h
    apply rd_ext
    · rfl
    · rfl
    · intro m
      by_cases e : m = n
      · subst e; simp [hv]
      · simp [e]
  · rw [if_neg h]
    apply rd_ext
    · rfl
    · rfl
    · intro m
      simp only [Store.rd, HashMap.getElem?_insert]
      by_cases e : m = n
      · subst e; simp
      · have : (n == m) = false := by simp; exact fun h => e h.symm
        simp [this, e]

theorem wr_whole_rd (s : Store) (n : String) (v : BV) : (s.wr (.whole n) v).rd = setWhole s.rd n v := by
  simp only [Store.wr, setVal_rd]
  rfl

end FlatM
