import Py4hwV.Proto.Uart
import Py4hwV.Lib.Leaf
/-
  C17 — Nat-level reference state machines for the three generated FSMs and the bridge theorems
  `Gen.*.step (through Uart.Ser/Des.step) = reference` for EVERY state and input.  These are the obligations that stop
  checking when serdes.py / clock.py change semantically.
-/
set_option linter.unusedSimpArgs false
namespace C17
open Uart

theorem wr_none (w old : Nat) : wr w old none = old := rfl
theorem wr_one (old : Nat) : wr 1 old (some 1) = 1 := by simp [wr, Bits.put]
theorem wr_zero (w old : Nat) : wr w old (some 0) = 0 := by simp [wr, Bits.put]
theorem wr_bit (old a : Nat) : wr 1 old (some (Py.land (a:Int) 1)) = a % 2 := by
  simp only [wr, Leaf.land_one]
  rw [Bits.put_ofNat]; simp
theorem wr_nat (w old a : Nat) : wr w old (some (a:Int)) = a % 2^w := by
  simp only [wr, Bits.put_ofNat]

/-! ### serializer -/
structure SerN where
  st : Nat
  cnt : Nat
  txv : Nat
  tx : Nat
  ready : Nat
deriving Repr, DecidableEq

def SerN.toSer (s : SerN) : Ser := ⟨⟨s.cnt, s.st, s.txv⟩, s.tx, s.ready⟩

/-- reference serializer (reads like serdes.py:26-66) -/
def serSpec (s : SerN) (valid v pulse : Nat) : SerN :=
  if s.st = 0 then { s with tx := 1, ready := 1, st := 1 }
  else if s.st = 1 then (if valid ≠ 0 then { s with st := 2, ready := 0, txv := v } else s)
  else if s.st = 2 then (if pulse ≠ 0 then { s with st := 3 } else s)
  else if s.st = 3 then { s with tx := 0, cnt := 7, st := if pulse ≠ 0 then 4 else 3 }
  else if s.st = 4 then
    (if pulse ≠ 0 then
       (if s.cnt = 0 then { s with tx := s.txv % 2, txv := s.txv / 2, st := 5 }
        else { s with tx := s.txv % 2, txv := s.txv / 2, cnt := s.cnt - 1 })
     else { s with tx := s.txv % 2 })
  else if s.st = 5 then { s with tx := 1, st := if pulse ≠ 0 then 0 else 5 }
  else s

theorem truthy_zero : Py.truthy 0 = false := by decide
theorem truthy_pos (a : Nat) (h : ¬ a = 0) : Py.truthy (a:Int) = true := by
  simp [Py.truthy]; omega

theorem shr1 (a : Nat) : Py.shrT (a:Int) 1 = ((a / 2 : Nat) : Int) := by
  have : Py.shrT (a:Int) 1 = Py.shr (a:Int) 1 := rfl
  rw [this, Bits.shr_ofNat, Nat.shiftRight_eq_div_pow]

theorem ser_step_eq (s : SerN) (valid v pulse : Nat) :
    s.toSer.step valid v pulse = (serSpec s valid v pulse).toSer := by
  obtain ⟨st, cnt, txv, tx, ready⟩ := s
  by_cases h0 : st = 0
  · subst h0; simp [SerN.toSer, Ser.step, serSpec, Gen.UARTSerializer.step, Id.run, pure, wr_one]
  by_cases h1 : st = 1
  · subst h1
    by_cases hv : valid = 0 <;>
      simp [SerN.toSer, Ser.step, serSpec, Gen.UARTSerializer.step, Id.run, pure, wr_none, wr_zero, truthy_zero, truthy_pos, hv]
  by_cases h2 : st = 2
  · subst h2
    by_cases hp : pulse = 0 <;>
      simp [SerN.toSer, Ser.step, serSpec, Gen.UARTSerializer.step, Id.run, pure, wr_none, truthy_zero, truthy_pos, hp]
  by_cases h3 : st = 3
  · subst h3
    by_cases hp : pulse = 0 <;>
      simp [SerN.toSer, Ser.step, serSpec, Gen.UARTSerializer.step, Id.run, pure, wr_none, wr_zero, truthy_zero, truthy_pos, hp]
  by_cases h4 : st = 4
  · subst h4
    by_cases hp : pulse = 0
    · simp [SerN.toSer, Ser.step, serSpec, Gen.UARTSerializer.step, Id.run, pure, wr_none, wr_bit, truthy_zero, truthy_pos, hp]
    · by_cases hc : cnt = 0
      · simp [SerN.toSer, Ser.step, serSpec, Gen.UARTSerializer.step, Id.run, pure, wr_none, wr_bit, truthy_zero, truthy_pos, hp, hc, shr1]
      · have hc' : ¬ ((cnt:Int) = 0) := by omega
        have hc2 : ((cnt:Int) - 1) = ((cnt - 1 : Nat) : Int) := by omega
        simp [SerN.toSer, Ser.step, serSpec, Gen.UARTSerializer.step, Id.run, pure, wr_none, wr_bit, truthy_zero, truthy_pos, hp, hc, hc', shr1, hc2]
  by_cases h5 : st = 5
  · subst h5
    by_cases hp : pulse = 0 <;>
      simp [SerN.toSer, Ser.step, serSpec, Gen.UARTSerializer.step, Id.run, pure, wr_none, wr_one, truthy_zero, truthy_pos, hp]
  · have e0 : ¬ ((st:Int) = 0) := by omega
    have e1 : ¬ ((st:Int) = 1) := by omega
    have e2 : ¬ ((st:Int) = 2) := by omega
    have e3 : ¬ ((st:Int) = 3) := by omega
    have e4 : ¬ ((st:Int) = 4) := by omega
    have e5 : ¬ ((st:Int) = 5) := by omega
    simp [SerN.toSer, Ser.step, serSpec, Gen.UARTSerializer.step, Id.run, pure, wr_none, h0, h1, h2, h3, h4, h5, e0, e1, e2, e3, e4, e5]


/-! ### deserializer -/
structure DesN where
  st : Nat
  cnt : Nat
  stv : Nat
  temp : Nat
  desync : Nat
  v : Nat
  valid : Nat
deriving Repr, DecidableEq

def DesN.toDes (s : DesN) : Des := ⟨⟨s.cnt, s.st, s.stv, s.temp⟩, s.desync, s.v, s.valid⟩

/-- receive FSM (serdes.py:87-107) -/
def desSpec1 (s : DesN) (rx sample : Nat) : DesN :=
  if s.st = 0 then
    { s with desync := 0, cnt := 0, temp := 0, st := if sample ≠ 0 ∧ rx = 0 then 2 else 0 }
  else if s.st = 2 then
    (if sample ≠ 0 then
       (if s.cnt = 8 then { s with st := 0, stv := 1, v := s.temp % 256, desync := 1 }
        else { s with temp := s.temp ||| (rx <<< s.cnt), cnt := s.cnt + 1 })
     else s)
  else s
/-- hand-off FSM (serdes.py:122-130), runs in the same call on the updated state_v -/
def desSpec2 (s : DesN) (ready : Nat) : DesN :=
  if s.stv = 1 then (if ready ≠ 0 then { s with valid := 1, stv := 2 } else s)
  else if s.stv = 2 then (if ready ≠ 0 then { s with valid := 0, stv := 0 } else s)
  else s
def desSpec (s : DesN) (rx sample ready : Nat) : DesN := desSpec2 (desSpec1 s rx sample) ready

theorem lor_shl (a rx c : Nat) : Py.lor (a:Int) (Py.shlT (rx:Int) (c:Int)) = ((a ||| (rx <<< c) : Nat) : Int) := by
  have : Py.shlT (rx:Int) (c:Int) = Py.shl (rx:Int) c := by simp [Py.shlT]
  rw [this, Bits.shl_ofNat, Bits.lor_ofNat]

theorem des_step_eq (s : DesN) (rx sample ready : Nat) :
    s.toDes.step rx sample ready = (desSpec s rx sample ready).toDes := by
  obtain ⟨st, cnt, stv, temp, desync, v, valid⟩ := s
  have hst : st = 0 ∨ st = 2 ∨ (st ≠ 0 ∧ st ≠ 2) := by omega
  have hsv : stv = 0 ∨ stv = 1 ∨ stv = 2 ∨ (stv ≠ 0 ∧ stv ≠ 1 ∧ stv ≠ 2) := by omega
  have hrd : ready = 0 ∨ ready ≠ 0 := by omega
  have hsm : sample = 0 ∨ sample ≠ 0 := by omega
  have hrx : rx = 0 ∨ rx ≠ 0 := by omega
  have hc : cnt = 8 ∨ cnt ≠ 8 := by omega
  have i1 : ((stv:Int) = 1) = (stv = 1) := by simp; omega
  have i2 : ((stv:Int) = 2) = (stv = 2) := by simp; omega
  have i8 : ((cnt:Int) = 8) = (cnt = 8) := by simp; omega
  rcases hst with h | h | ⟨h, h'⟩
  · subst h
    rcases hsv with g | g | g | ⟨g, g', g''⟩ <;> rcases hrd with r | r <;> rcases hsm with m | m <;> rcases hrx with x | x <;>
      (try subst g) <;> (try subst r) <;> (try subst m) <;> (try subst x) <;>
      simp [DesN.toDes, Des.step, desSpec, desSpec1, desSpec2, Gen.UARTDeserializer.step, Id.run, pure, wr_none, wr_zero, wr_one,
        truthy_zero, truthy_pos, i1, i2, i8, *] <;> (try omega)
  · subst h
    rcases hsv with g | g | g | ⟨g, g', g''⟩ <;> rcases hrd with r | r <;> rcases hsm with m | m <;> rcases hc with c | c <;>
      (try subst g) <;> (try subst r) <;> (try subst m) <;> (try subst c) <;>
      simp [DesN.toDes, Des.step, desSpec, desSpec1, desSpec2, Gen.UARTDeserializer.step, Id.run, pure, wr_none, wr_zero, wr_one,
        wr_nat, lor_shl, truthy_zero, truthy_pos, i1, i2, i8, *] <;> (try omega)
  · have e0 : ¬ ((st:Int) = 0) := by omega
    have e2 : ¬ ((st:Int) = 2) := by omega
    rcases hsv with g | g | g | ⟨g, g', g''⟩ <;> rcases hrd with r | r <;>
      (try subst g) <;> (try subst r) <;>
      simp [DesN.toDes, Des.step, desSpec, desSpec1, desSpec2, Gen.UARTDeserializer.step, Id.run, pure, wr_none, wr_zero, wr_one,
        truthy_zero, truthy_pos, i1, i2, i8, *] <;> (try omega)

/-! ### ClockSyncFSM with its two output wires -/
structure FsmN where
  st : Nat
  sync : Nat
  active : Nat
deriving Repr, DecidableEq

def fsmSpec (s : FsmN) (start stop : Nat) : FsmN :=
  if s.st = 0 then (if start ≠ 0 then ⟨1, 1, 1⟩ else ⟨0, 0, 0⟩)
  else if s.st = 1 then (if stop ≠ 0 then ⟨0, 0, 0⟩ else ⟨1, 0, 1⟩)
  else s

theorem fsm_step_eq (s : FsmN) (start stop : Nat) :
    let r := Gen.ClockSyncFSM.step ⟨⟩ ⟨s.st⟩ ⟨start, stop⟩ ⟨⟩
    (r.1, wr 1 s.sync r.2.sync, wr 1 s.active r.2.active) =
      (⟨((fsmSpec s start stop).st : Int)⟩, (fsmSpec s start stop).sync, (fsmSpec s start stop).active) := by
  obtain ⟨st, sync, active⟩ := s
  have hst : st = 0 ∨ st = 1 ∨ (st ≠ 0 ∧ st ≠ 1) := by omega
  have h1 : start = 0 ∨ start ≠ 0 := by omega
  have h2 : stop = 0 ∨ stop ≠ 0 := by omega
  rcases hst with h | h | ⟨h, h'⟩
  · subst h
    rcases h1 with a | a <;> (try subst a) <;>
      simp [fsmSpec, Gen.ClockSyncFSM.step, Id.run, pure, wr_none, wr_zero, wr_one, truthy_zero, truthy_pos, *]
  · subst h
    rcases h2 with a | a <;> (try subst a) <;>
      simp [fsmSpec, Gen.ClockSyncFSM.step, Id.run, pure, wr_none, wr_zero, wr_one, truthy_zero, truthy_pos, *]
  · have e0 : ¬ ((st:Int) = 0) := by omega
    have e1 : ¬ ((st:Int) = 1) := by omega
    simp [fsmSpec, Gen.ClockSyncFSM.step, Id.run, pure, wr_none, *]

end C17
