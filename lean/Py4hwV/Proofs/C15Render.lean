import Py4hwV.Proto.Waveform
/-
  C15, rendering half: the run-length / 2-state encoding of `get_wavedrom` is inverted by `decodeWave`.
-/
namespace C15
open Waveform

/-! ### `'{:X}'` round trip -/

theorem hexVal_hexDigit : ∀ d, d < 16 → hexVal (hexDigit d) = some d := by decide

theorem parseHexAux_append (l : List Char) (c : Char) (acc : Nat) :
    parseHexAux (l ++ [c]) acc = (parseHexAux l acc).bind (fun a => (hexVal c).map (fun d => a * 16 + d)) := by
  induction l generalizing acc with
  | nil => simp [parseHexAux]; cases hexVal c <;> simp
  | cons x l ih =>
    simp only [List.cons_append, parseHexAux]
    cases hexVal x with
    | none => simp
    | some d => simp [ih]

theorem hexUpperF_spec (f n : Nat) (h : n < f) :
    parseHexAux (hexUpperF f n) 0 = some n ∧ hexUpperF f n ≠ [] := by
  induction f generalizing n with
  | zero => omega
  | succ f ih =>
    unfold hexUpperF
    by_cases h16 : n < 16
    · simp [h16, parseHexAux, hexVal_hexDigit n h16]
    · simp only [h16, if_false]
      have hlt : n / 16 < f := by omega
      have hm : n % 16 < 16 := Nat.mod_lt _ (by decide)
      obtain ⟨h1, _⟩ := ih (n / 16) hlt
      constructor
      · rw [parseHexAux_append, h1, hexVal_hexDigit _ hm]
        simp
        omega
      · simp

/-- parsing the upper-case hex label gives the value back, for EVERY natural number -/
theorem parseHex_hexUpper (n : Nat) : parseHex (hexUpper n) = some n := by
  obtain ⟨h1, h2⟩ := hexUpperF_spec (n + 1) n (by omega)
  simp [parseHex, hexUpper, h1, h2]

/-- `'{}'.format(v)` of a bit is the bit character -/
theorem decStr_bit (v : Nat) (h : v < 2) : decStr v = [if v = 0 then '0' else '1'] := by
  have : v = 0 ∨ v = 1 := by omega
  rcases this with rfl | rfl <;> decide

/-! ### the loop as a recursive function -/

/-- what the loop appends to `wavedata` / `wavedatadata` from a given `last` -/
def enc (ww : Nat) (fmt : Fmt) : Option Nat → List Nat → List Char × List (List Char)
  | _, [] => ([], [])
  | last, v :: vs =>
    let r := enc ww fmt (some v) vs
    if some v ≠ last then
      if ww = 1 then (decStr v ++ r.1, r.2) else ('2' :: r.1, fmt.format v :: r.2)
    else ('.' :: r.1, r.2)

theorem foldl_encStep (ww : Nat) (fmt : Fmt) (vs : List Nat) (st : Enc) :
    (vs.foldl (encStep ww fmt) st).wave = st.wave ++ (enc ww fmt st.last vs).1 ∧
    (vs.foldl (encStep ww fmt) st).labels = st.labels ++ (enc ww fmt st.last vs).2 := by
  induction vs generalizing st with
  | nil => simp [enc]
  | cons v vs ih =>
    simp only [List.foldl_cons]
    obtain ⟨h1, h2⟩ := ih (encStep ww fmt st v)
    rw [h1, h2]
    unfold encStep
    by_cases hl : some v = st.last
    · simp [enc, hl]
    · by_cases hw : ww = 1
      · simp [enc, hl, hw]
      · simp [enc, hl, hw]

/-- the Python loop = framing 'x' followed by the recursive encoding -/
theorem encLoop_eq_enc (ww : Nat) (fmt : Fmt) (vs : List Nat) :
    (encLoop ww fmt vs).wave = 'x' :: (enc ww fmt none vs).1 ∧ (encLoop ww fmt vs).labels = (enc ww fmt none vs).2 := by
  obtain ⟨h1, h2⟩ := foldl_encStep ww fmt vs { wave := ['x'], labels := [], last := none }
  exact ⟨by simpa [encLoop] using h1, by simpa [encLoop] using h2⟩

/-! ### decoding -/

theorem decodeBody_cons (ww : Nat) (c : Char) (cs : List Char) (ls : List (List Char)) (last : Option Nat) :
    decodeBody ww (c :: cs) ls last =
      if c = '.' then
        match last with
        | some v => (decodeBody ww cs ls (some v)).map (v :: ·)
        | none => none
      else if ww = 1 then
        if c = '0' then (decodeBody ww cs ls (some 0)).map (0 :: ·)
        else if c = '1' then (decodeBody ww cs ls (some 1)).map (1 :: ·)
        else none
      else if c = '2' then
        match ls with
        | l :: ls' => match parseHex l with
                      | some v => (decodeBody ww cs ls' (some v)).map (v :: ·)
                      | none => none
        | [] => none
      else none := by
  rw [decodeBody.eq_def]
  cases ls <;> rfl

theorem decodeBody_enc (ww : Nat) (fmt : Fmt) (hf : ww ≠ 1 → fmt = Fmt.hex) (vs : List Nat)
    (hb : ww = 1 → ∀ v ∈ vs, v < 2) (last : Option Nat) :
    decodeBody ww (enc ww fmt last vs).1 (enc ww fmt last vs).2 last = some vs := by
  induction vs generalizing last with
  | nil => simp [enc, decodeBody]
  | cons v vs ih =>
    have hb' : ww = 1 → ∀ x ∈ vs, x < 2 := fun h x hx => hb h x (by simp [hx])
    have ih' := ih hb' (some v)
    by_cases hl : some v = last
    · subst hl
      simp only [enc, ne_eq, not_true_eq_false, if_false]
      rw [decodeBody_cons]
      simp [ih']
    · by_cases hw : ww = 1
      · have hv : v < 2 := hb hw v (by simp)
        have : v = 0 ∨ v = 1 := by omega
        rcases this with rfl | rfl
        · simp only [enc, ne_eq, hl, not_false_eq_true, if_true, hw, decStr_bit 0 (by omega)]
          simp only [List.cons_append, List.nil_append]
          rw [decodeBody_cons]
          simp only [hw] at ih'
          simp [ih']
        · simp only [enc, ne_eq, hl, not_false_eq_true, if_true, hw, decStr_bit 1 (by omega)]
          simp only [List.cons_append, List.nil_append]
          rw [decodeBody_cons]
          simp only [hw] at ih'
          simp [ih']
      · simp only [enc, ne_eq, hl, not_false_eq_true, if_true, hw, if_false]
        rw [decodeBody_cons]
        simp [hw, hf hw, Fmt.format, parseHex_hexUpper]
        rw [hf hw] at ih'
        simpa [Fmt.format] using ih'

theorem enc_length (ww : Nat) (fmt : Fmt) (vs : List Nat) (hb : ww = 1 → ∀ v ∈ vs, v < 2) (last : Option Nat) :
    (enc ww fmt last vs).1.length = vs.length := by
  induction vs generalizing last with
  | nil => simp [enc]
  | cons v vs ih =>
    have hb' : ww = 1 → ∀ x ∈ vs, x < 2 := fun h x hx => hb h x (by simp [hx])
    have ih' := ih hb' (some v)
    by_cases hl : some v = last
    · subst hl
      simp [enc, ih']
    · by_cases hw : ww = 1
      · have hv : v < 2 := hb hw v (by simp)
        simp [enc, hl, hw, decStr_bit v hv]
        simpa [hw] using ih'
      · simp [enc, hl, hw, ih']

/-- the display format the constructor chooses for a wire of width `ww` -/
def fmtOfWidth (ww : Nat) : Fmt := if ww = 1 then Fmt.bit else Fmt.hex

theorem fmtOfWidth_hex (ww : Nat) : ww ≠ 1 → fmtOfWidth ww = Fmt.hex := by
  intro h; simp [fmtOfWidth, h]

/-- bits of a 1-bit wire are < 2 -/
theorem bit_of_range (ww : Nat) (vs : List Nat) (h : ∀ v ∈ vs, v < 2 ^ ww) : ww = 1 → ∀ v ∈ vs, v < 2 := by
  intro hw v hv; have := h v hv; subst hw; simpa using this

/-- core round trip, weakest hypothesis: only the samples of 1-bit rows have to be bits -/
theorem roundtrip_core (ww : Nat) (fmt : Fmt) (hf : ww ≠ 1 → fmt = Fmt.hex) (vs : List Nat)
    (hb : ww = 1 → ∀ v ∈ vs, v < 2) :
    decodeWave ww ((encLoop ww fmt vs).wave ++ ['x']) (encLoop ww fmt vs).labels = some vs := by
  obtain ⟨h1, h2⟩ := encLoop_eq_enc ww fmt vs
  rw [h1, h2]
  simp only [decodeWave, List.cons_append]
  simp [decodeBody_enc ww fmt hf vs hb none]

/-- **wavedrom_roundtrip**: for every width and every sample list that fits the width (repeats included — they are
    run-length encoded as dots), decoding the rendered row gives exactly the sample list back. -/
theorem wavedrom_roundtrip (ww : Nat) (vs : List Nat) (h : ∀ v ∈ vs, v < 2 ^ ww) :
    decodeWave ww ((encLoop ww (fmtOfWidth ww) vs).wave ++ ['x']) (encLoop ww (fmtOfWidth ww) vs).labels = some vs :=
  roundtrip_core ww _ (fmtOfWidth_hex ww) vs (bit_of_range ww vs h)

/-- for rows of wires that are not 1 bit wide no range hypothesis is needed at all -/
theorem wavedrom_roundtrip_wide (ww : Nat) (hw : ww ≠ 1) (vs : List Nat) :
    decodeWave ww ((encLoop ww Fmt.hex vs).wave ++ ['x']) (encLoop ww Fmt.hex vs).labels = some vs :=
  roundtrip_core ww _ (fun _ => rfl) vs (fun h => absurd h hw)

/-- the rendering determines the samples: two recordings with the same row are the same recording -/
theorem render_injective (ww : Nat) (vs vs' : List Nat) (h : ∀ v ∈ vs, v < 2 ^ ww) (h' : ∀ v ∈ vs', v < 2 ^ ww)
    (hw : (encLoop ww (fmtOfWidth ww) vs).wave = (encLoop ww (fmtOfWidth ww) vs').wave)
    (hl : (encLoop ww (fmtOfWidth ww) vs).labels = (encLoop ww (fmtOfWidth ww) vs').labels) : vs = vs' := by
  have a := wavedrom_roundtrip ww vs h
  have b := wavedrom_roundtrip ww vs' h'
  rw [hw, hl, b] at a
  exact (Option.some.inj a).symm

/-- **wavedrom_span**: a row is the frame `x … x` around exactly one character per recorded cycle (n = 0 included) -/
theorem wavedrom_span (ww : Nat) (fmt : Fmt) (vs : List Nat) (hb : ww = 1 → ∀ v ∈ vs, v < 2) :
    ((encLoop ww fmt vs).wave ++ ['x']).length = vs.length + 2 := by
  obtain ⟨h1, _⟩ := encLoop_eq_enc ww fmt vs
  rw [h1]
  simp [enc_length ww fmt vs hb none]

end C15
