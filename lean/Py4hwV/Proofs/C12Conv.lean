import Py4hwV.Proofs.C12Enc
/- C12 — `FPNum.convert ∘ FPNum.from_ieee754`: closed forms of the standardisation loops, the exact shape of what
   `adjust_semp` returns on a decoded encoding, and the field-level round trip for a generic format (core Lean only). -/
namespace C12
open Py Bits Helper Helper.FPNum

theorem two_pow_inj_int (a b : Nat) (h : (2:Int)^a = (2:Int)^b) : a = b := by
  rcases Nat.lt_trichotomy a b with c | c | c
  · have := two_pow_lt_int a b c; omega
  · exact c
  · have := two_pow_lt_int b a c; omega

theorem mul_two_pow_cancel (X Y : Int) (n : Nat) (h : X * (2:Int)^n = Y * (2:Int)^n) : X = Y :=
  Int.eq_of_mul_eq_mul_right (Int.ne_of_gt (two_pow_pos_int n)) h

/-- `while (p < p_std): p <<= 1; m <<= 1` on powers of two -/
theorem stdUpLoop_pow2 : ∀ (f : Nat) (m : Int) (a c : Nat), a ≤ c → c - a < f →
    stdUpLoop f ((2:Int)^c) m ((2:Int)^a) = some (m * (2:Int)^(c - a), (2:Int)^c) := by
  intro f
  induction f with
  | zero => intro m a c _ h; omega
  | succ f ih =>
    intro m a c hac hf
    unfold stdUpLoop
    by_cases h : a < c
    · rw [if_pos (two_pow_lt_int a c h), shl_one', shl_one']
      have e : (2:Int)^a * 2 = (2:Int)^(a+1) := by rw [Int.pow_succ]
      rw [e, ih (m * 2) (a+1) c (by omega) (by omega)]
      congr 2
      have : c - a = (c - (a+1)) + 1 := by omega
      rw [this, Int.pow_succ]; ac_rfl
    · have : a = c := by omega
      subst this
      rw [if_neg (by omega)]; simp

/-- `while (p > p_std): p >>= 1; m >>= 1` on powers of two, when the dropped bits are zero -/
theorem stdDownLoop_pow2 : ∀ (f : Nat) (m' : Int) (a c : Nat), c ≤ a → a - c < f →
    stdDownLoop f ((2:Int)^c) (m' * (2:Int)^(a - c)) ((2:Int)^a) = some (m', (2:Int)^c) := by
  intro f
  induction f with
  | zero => intro m a c _ h; omega
  | succ f ih =>
    intro m' a c hca hf
    unfold stdDownLoop
    by_cases h : c < a
    · rw [if_pos (two_pow_lt_int c a h), shr_one, shr_one]
      have ea : a = (a - 1) + 1 := by omega
      have e1 : (2:Int)^a / 2 = (2:Int)^(a-1) := by
        conv => lhs; rw [ea, Int.pow_succ]
        exact Int.mul_ediv_cancel _ (by decide)
      have e2 : m' * (2:Int)^(a - c) / 2 = m' * (2:Int)^((a - 1) - c) := by
        have : a - c = ((a - 1) - c) + 1 := by omega
        rw [this, Int.pow_succ, ← Int.mul_assoc]
        exact Int.mul_ediv_cancel _ (by decide)
      rw [e1, e2]
      exact ih m' (a-1) c (by omega) (by omega)
    · have : a = c := by omega
      subst this
      rw [if_neg (by omega)]; simp

theorem toNat_two_pow (n : Nat) : ((2:Int)^n).toNat = 2^n := by
  have : (2:Int)^n = ((2^n : Nat) : Int) := by simp
  rw [this]; exact Int.toNat_natCast _

/-- the two standardisation loops rescale `m` from precision `2^a` to `2^c` exactly, whenever that is possible -/
theorem stdPrec_exact (m M : Int) (a c : Nat) (h : m * (2:Int)^c = M * (2:Int)^a) :
    stdPrec ((2:Int)^c) m ((2:Int)^a) = some M := by
  unfold stdPrec
  rw [toNat_two_pow, toNat_two_pow]
  rcases Nat.lt_or_ge a c with hac | hac
  · -- p < p_std: no down step, (c - a) up steps
    -- the down loop exits at once because 2^a > 2^c is false
    have hdown : stdDownLoop (2^a + 1) ((2:Int)^c) m ((2:Int)^a) = some (m, (2:Int)^a) := by
      unfold stdDownLoop
      have := two_pow_lt_int a c hac
      rw [if_neg (by omega)]
    have hup := stdUpLoop_pow2 (2^c + 1) m a c (by omega) (by have := nat_lt_two_pow c; omega)
    simp only [hdown, hup, bind, Option.bind, pure]
    congr 1
    have : c = a + (c - a) := by omega
    rw [this, Int.pow_add, ← Int.mul_assoc] at h
    have h' : m * (2:Int)^(c - a) * (2:Int)^a = M * (2:Int)^a := by rw [← h]; ac_rfl
    exact mul_two_pow_cancel _ _ a h'
  · have hm : m = M * (2:Int)^(a - c) := by
      have : a = c + (a - c) := by omega
      rw [this, Int.pow_add, ← Int.mul_assoc] at h
      have h' : m * (2:Int)^c = M * (2:Int)^(a - c) * (2:Int)^c := by rw [h]; ac_rfl
      exact mul_two_pow_cancel _ _ c h'
    have hdown := stdDownLoop_pow2 (2^a + 1) M a c hac (by have := nat_lt_two_pow a; omega)
    have hup := stdUpLoop_pow2 (2^c + 1) M c c (Nat.le_refl _) (by have := Nat.two_pow_pos c; omega)
    rw [hm]
    simp only [hdown, hup, bind, Option.bind, pure]
    simp

/-- hidden bit: for `2^q ≤ m < 2^(q+1)`, `m & 2^q ≠ 0` and `m ^ 2^q = m − 2^q` -/
theorem hidden_bit (m : Int) (q : Nat) (h0 : (2:Int)^q ≤ m) (h1 : m < (2:Int)^(q+1)) :
    Py.land m ((2:Int)^q) = (2:Int)^q ∧ Py.lxor m ((2:Int)^q) = m - (2:Int)^q := by
  have hq := two_pow_pos_int q
  obtain ⟨n, rfl⟩ := Int.eq_ofNat_of_zero_le (show 0 ≤ m by omega)
  have hn0 : 2^q ≤ n := by
    have : ((2^q : Nat) : Int) ≤ (n : Int) := by simpa using h0
    exact Int.ofNat_le.mp this
  have hn1 : n < 2^(q+1) := by
    have : (n : Int) < ((2^(q+1) : Nat) : Int) := by simpa using h1
    exact Int.ofNat_lt.mp this
  have e2 : ((2:Int)^q) = ((2^q : Nat) : Int) := by simp
  rw [e2, land_ofNat, lxor_ofNat, and_two_pow, testBit_top n q hn1]
  simp only [hn0, decide_true, if_true, true_and]
  -- xor: write n = 2^q + r
  obtain ⟨r, rfl⟩ : ∃ r, n = 2^q + r := ⟨n - 2^q, by omega⟩
  have hr : r < 2^q := by rw [Nat.pow_succ] at hn1; omega
  have hx : (2^q + r) ^^^ 2^q = r := by
    have e : 2^q + r = 2^q ||| r := by
      have := Nat.two_pow_add_eq_or_of_lt hr 1
      simpa using this
    rw [e]
    apply Nat.eq_of_testBit_eq
    intro i
    rw [Nat.testBit_xor, Nat.testBit_or, Nat.testBit_two_pow]
    by_cases c : q = i
    · subst c; simp [Nat.testBit_lt_two_pow hr]
    · simp [c]
  rw [hx]
  omega
/-- exact shape of `adjust_semp` on an input with `0 < m < 2p` (what `from_ieee754_*` feed it): both `m` and `p` lose a
    common factor `2^k`, then `m` is doubled `d` times (`e` decreased by `d`) until `p ≤ m` -/
structure AdjShape (x y : FPNum) : Prop where
  ex : ∃ k d : Nat, x.p = y.p * (2:Int)^k ∧ x.m * (2:Int)^d = y.m * (2:Int)^k ∧ y.e = x.e - (d : Int) ∧
        (x.p ≤ x.m → d = 0) ∧ (x.m < x.p → 1 ≤ d)
  s : y.s = x.s
  inf : y.infinity = x.infinity
  nan : y.nan = x.nan
  p_pos : 0 < y.p
  normal : y.p ≤ y.m ∧ y.m < 2 * y.p

theorem adjust_semp_shape (x y : FPNum) (hp : 0 < x.p) (hm : 0 < x.m) (hlt : x.m < 2 * x.p)
    (h : adjust_semp x = some y) : AdjShape x y := by
  have post := adjust_semp_spec x y hp (by omega) h
  unfold adjust_semp at h
  have hp0 : (x.p == 0) = false := by simp; omega
  simp only [hp0, Bool.false_eq_true, if_false] at h
  cases hr : reduceLoop (x.p.natAbs + 1) x.m x.p with
  | none => simp [hr] at h
  | some r =>
    obtain ⟨m1, p1⟩ := r
    obtain ⟨k, hk1, hk2, -⟩ := reduceLoop_spec _ _ _ _ _ hr
    have h2k := two_pow_pos_int k
    have hp1 : 0 < p1 := by
      rcases Int.lt_trichotomy p1 0 with c | c | c
      · have := Int.mul_neg_of_neg_of_pos c h2k; omega
      · subst c; simp at hk2; omega
      · exact c
    have hm1 : 0 < m1 := by
      rcases Int.lt_trichotomy m1 0 with c | c | c
      · have := Int.mul_neg_of_neg_of_pos c h2k; omega
      · subst c; simp at hk1; omega
      · exact c
    have hlt1 : m1 < 2 * p1 := by
      by_cases c : m1 < 2 * p1
      · exact c
      · have c : 2 * p1 ≤ m1 := by omega
        have := Int.mul_le_mul_of_nonneg_right c (Int.le_of_lt h2k)
        rw [Int.mul_assoc] at this
        omega
    have hnorm : y.p ≤ y.m ∧ y.m < 2 * y.p := by
      rcases post.normal with c | c
      · exact absurd (post.zero.mpr c) (by omega)
      · exact c
    simp only [hr, bind, Option.bind, shl_one'] at h
    have c1 : ¬ (m1 ≥ p1 * 2) := by omega
    rw [if_neg c1] at h
    by_cases c2 : m1 < p1
    · rw [if_pos c2] at h
      cases hd : expDownLoop (p1.toNat + 1) m1 p1 x.e with
      | none => simp [hd] at h
      | some r =>
        obtain ⟨m2, e2⟩ := r
        obtain ⟨d, hj1, hj2, hj3⟩ := expDownLoop_spec _ _ _ _ _ _ (by omega) (by omega) hd
        simp only [hd, pure, Option.some.injEq] at h
        subst h
        refine ⟨⟨k, d, hk2, ?_, hj2, ?_, ?_⟩, rfl, rfl, rfl, hp1, hnorm⟩
        · show x.m * (2:Int)^d = m2 * (2:Int)^k
          rw [hk1, hj1]; ac_rfl
        · intro hle
          -- x.p ≤ x.m gives p1 ≤ m1, contradiction with c2
          exfalso
          rw [hk1, hk2] at hle
          have := Int.mul_lt_mul_of_pos_right c2 h2k
          omega
        · intro _
          rcases Nat.eq_zero_or_pos d with z | z
          · subst z
            simp at hj1
            rcases hj3 with c | c <;> omega
          · exact z
    · rw [if_neg c2] at h
      simp only [pure, Option.some.injEq] at h
      subst h
      refine ⟨⟨k, 0, hk2, ?_, by simp, fun _ => rfl, ?_⟩, rfl, rfl, rfl, hp1, hnorm⟩
      · show x.m * (2:Int)^0 = m1 * (2:Int)^k
        rw [hk1]; simp
      · intro hlt2
        exfalso
        rw [hk1, hk2] at hlt2
        have : p1 * (2:Int)^k ≤ m1 * (2:Int)^k := Int.mul_le_mul_of_nonneg_right (by omega) (Int.le_of_lt h2k)
        omega
/-- `y.p · 2^k = 2^mb` with `y.p > 0`: `y.p = 2^a`, `a + k = mb` -/
theorem pow2_split (p : Int) (k mb : Nat) (hp : 0 < p) (h : (2:Int)^mb = p * (2:Int)^k) :
    ∃ a : Nat, p = (2:Int)^a ∧ a + k = mb := by
  obtain ⟨a, ha⟩ := pow2_of_mul k p hp ⟨mb, h.symm⟩
  refine ⟨a, ha, ?_⟩
  rw [ha, ← Int.pow_add] at h
  exact (two_pow_inj_int _ _ h).symm

theorem convertFinite_normal (bias emask : Int) (mb : Nat) (x y : FPNum) (sh : AdjShape x y)
    (hxp : x.p = (2:Int)^mb) (M E : Int) (hxm : x.m = (2:Int)^mb + M) (hM0 : 0 ≤ M) (hM1 : M < (2:Int)^mb)
    (hxe : x.e = E - bias) (hE0 : 1 ≤ E) (hE1 : E < emask) :
    convertFinite bias emask ((2:Int)^mb) y.e y.m y.p = some (E, M) := by
  obtain ⟨k, d, h1, h2, h3, h4, -⟩ := sh.ex
  have hd : d = 0 := h4 (by omega)
  subst hd
  simp only [Int.pow_zero, Int.mul_one] at h2
  obtain ⟨a, ha, hak⟩ := pow2_split y.p k mb sh.p_pos (by rw [← hxp]; exact h1)
  have hpa := two_pow_pos_int a
  have hn := sh.normal
  have hye : y.e = E - bias := by rw [h3, hxe]; simp
  unfold convertFinite
  have c1 : ¬ (y.e < -(bias - 1)) := by omega
  have c2 : (y.e == -(bias - 1) && decide (y.p > y.m)) = false := by
    have : ¬ (y.p > y.m) := by omega
    simp [this]
  simp only [c1, c2, if_false, Bool.false_eq_true]
  have c3 : ¬ (y.e + bias < 0) := by omega
  have c4 : ¬ (y.e + bias ≥ emask) := by omega
  have c5 : (y.e + bias == 0) = false := by simp; omega
  have c6 : ¬ (y.p > y.m) := by omega
  simp only [c3, c4, c5, c6, if_false, Bool.false_eq_true, shl_one']
  have c7 : ¬ (y.m ≥ y.p * 2) := by omega
  simp only [c7, if_false]
  have hb := hidden_bit y.m a (by rw [← ha]; exact hn.1) (by rw [two_pow_succ_int, ← ha]; exact hn.2)
  rw [ha, hb.1, hb.2]
  have c8 : ((2:Int)^a == 0) = false := by simp; omega
  simp only [c8, Bool.false_eq_true, if_false]
  have hstd : stdPrec ((2:Int)^mb) (y.m - (2:Int)^a) ((2:Int)^a) = some M := by
    apply stdPrec_exact
    -- (y.m − 2^a)·2^mb = M·2^a   from   y.m·2^k = 2^mb + M,  2^a·2^k = 2^mb
    have e1 : (y.m - (2:Int)^a) * (2:Int)^k = M := by
      rw [Int.sub_mul, ← h2, hxm, ← Int.pow_add, hak]; omega
    rw [← hak, Int.pow_add, ← e1]; ac_rfl
  rw [hstd]
  simp only [Option.map]
  congr 2; omega

theorem convertFinite_subnormal (bias emask : Int) (mb : Nat) (x y : FPNum) (sh : AdjShape x y)
    (hxp : x.p = (2:Int)^mb) (M : Int) (hxm : x.m = M) (hM0 : 0 < M) (hM1 : M < (2:Int)^mb)
    (hxe : x.e = 1 - bias) (hmask : 0 < emask) :
    convertFinite bias emask ((2:Int)^mb) y.e y.m y.p = some (0, M) := by
  obtain ⟨k, d, h1, h2, h3, -, h5⟩ := sh.ex
  have hd : 1 ≤ d := h5 (by omega)
  obtain ⟨a, ha, hak⟩ := pow2_split y.p k mb sh.p_pos (by rw [← hxp]; exact h1)
  unfold convertFinite
  have c1 : y.e < -(bias - 1) := by omega
  simp only [c1, if_true]
  have c3 : ¬ ((0:Int) < 0) := by omega
  have c4 : ¬ ((0:Int) ≥ emask) := by omega
  simp only [c3, c4, if_false, beq_self_eq_true, if_true]
  have hsh : (-(bias - 1) - y.e).toNat = d := by omega
  have hp' : Py.shl y.p (-(bias - 1) - y.e).toNat = (2:Int)^(a + d) := by
    rw [hsh, ha, Int.pow_add]; simp [Py.shl]
  rw [hp']
  have hstd : stdPrec ((2:Int)^mb) y.m ((2:Int)^(a + d)) = some M := by
    apply stdPrec_exact
    -- y.m·2^mb = M·2^(a+d)   from   M·2^d = y.m·2^k,  a + k = mb
    rw [← hak, Int.pow_add, Int.pow_add]
    have : y.m * ((2:Int)^a * (2:Int)^k) = (y.m * (2:Int)^k) * (2:Int)^a := by ac_rfl
    rw [this, ← h2, hxm]; ac_rfl
  rw [hstd]; simp [Option.map]
/-- **field-level round trip for a generic format** (`e_sub = 1 − e_bias`, exponent field `≤ e_max`, mantissa `< 2^mb`,
    not a NaN): `from_parts` followed by `convertParts` returns the fields it was given -/
theorem roundtrip_fields (e_max e_sub e_bias : Int) (mb : Nat) (nanM : Int) (S E M : Nat)
    (hS : S < 2) (hE1 : (E : Int) ≤ e_max) (hM1 : M < 2^mb) (hnan : (E : Int) = e_max → M = 0)
    (hsub : e_sub = 1 - e_bias) (hmaxpos : 0 < e_max) :
    ∃ x, from_parts (S : Int) (E : Int) (M : Int) e_max e_sub e_bias mb = some x ∧
         convertParts x e_bias e_max ((2:Int)^mb) nanM 0 = some ((S : Int), (E : Int), (M : Int)) := by
  have hM1' : (M : Int) < (2:Int)^mb := by rw [← nat_pow_cast]; exact Int.ofNat_lt.mpr hM1
  have hmbpos := two_pow_pos_int mb
  -- the sign bit that `convert` recomputes from x.s
  have hsign : (if (if ((S : Int) == 0) = true then (1:Int) else -1) > 0 then (0:Int) else 1) = (S : Int) := by
    rcases Nat.lt_or_ge S 1 with c | c
    · have : S = 0 := by omega
      subst this; simp
    · have : S = 1 := by omega
      subst this; decide
  unfold from_parts
  simp only []
  by_cases cmax : (E : Int) = e_max
  · have hm0 := hnan cmax
    subst hm0
    have : ((E : Int) == e_max) = true := by simp [cmax]
    simp only [this, if_true]
    refine ⟨_, rfl, ?_⟩
    rcases (show S = 0 ∨ S = 1 by omega) with rfl | rfl <;> simp [convertParts, set_semp, fresh, cmax]
  · have : ((E : Int) == e_max) = false := by simp [cmax]
    simp only [this, Bool.false_eq_true, if_false, shl_one]
    by_cases ce0 : E = 0
    · subst ce0
      simp only [Int.natCast_zero, beq_self_eq_true, if_true]
      rw [set_semp_finite _ _ _ _ hmbpos]
      obtain ⟨y, hy⟩ := adjust_semp_total' ({ s := (if ((S : Int) == 0) = true then 1 else -1), e := e_sub, m := (M : Int), p := (2:Int)^mb } : FPNum)
        (by exact hmbpos) (by show (0:Int) ≤ (M : Int); omega)
      refine ⟨y, hy, ?_⟩
      have post := adjust_semp_spec _ y (by exact hmbpos) (by show (0:Int) ≤ (M : Int); omega) hy
      have hinf : y.infinity = false := post.inf
      have hnn : y.nan = false := post.nan
      have hs : y.s = (if ((S : Int) == 0) = true then 1 else -1) := post.s
      unfold convertParts
      simp only [hinf, hnn, Bool.or_self, Bool.false_eq_true, if_false, hs, hsign]
      by_cases cm0 : M = 0
      · subst cm0
        have : y.m = 0 := post.zero.mp rfl
        simp [this]
      · have hMpos : (0:Int) < (M : Int) := by omega
        have ym : ¬ (y.m = 0) := fun h => by
          have := post.zero.mpr h
          simp at this; omega
        have ym' : (y.m == 0) = false := by simp [ym]
        simp only [ym', Bool.false_eq_true, if_false]
        have sh := adjust_semp_shape _ y (by exact hmbpos) (by exact hMpos) (by show (M : Int) < 2 * (2:Int)^mb; omega) hy
        rw [convertFinite_subnormal e_bias e_max mb _ y sh rfl (M : Int) rfl hMpos hM1' (by show e_sub = 1 - e_bias; exact hsub) hmaxpos]
        simp [Option.map]
    · have ce0' : ((E : Int) == 0) = false := by simp; omega
      simp only [ce0', Bool.false_eq_true, if_false]
      rw [set_semp_finite _ _ _ _ hmbpos, lor_hidden_bit M mb hM1]
      obtain ⟨y, hy⟩ := adjust_semp_total' ({ s := (if ((S : Int) == 0) = true then 1 else -1), e := (E : Int) - e_bias, m := (2:Int)^mb + (M : Int), p := (2:Int)^mb } : FPNum)
        (by exact hmbpos) (by show (0:Int) ≤ (2:Int)^mb + (M : Int); omega)
      refine ⟨y, hy, ?_⟩
      have post := adjust_semp_spec _ y (by exact hmbpos) (by show (0:Int) ≤ (2:Int)^mb + (M : Int); omega) hy
      have hinf : y.infinity = false := post.inf
      have hnn : y.nan = false := post.nan
      have hs : y.s = (if ((S : Int) == 0) = true then 1 else -1) := post.s
      have sh := adjust_semp_shape _ y (by exact hmbpos) (by show (0:Int) < (2:Int)^mb + (M : Int); omega)
        (by show (2:Int)^mb + (M : Int) < 2 * (2:Int)^mb; omega) hy
      have ym : ¬ (y.m = 0) := fun h => by
        have := sh.normal; have := sh.p_pos; omega
      have ym' : (y.m == 0) = false := by simp [ym]
      unfold convertParts
      simp only [hinf, hnn, Bool.or_self, Bool.false_eq_true, if_false, hs, hsign, ym']
      rw [convertFinite_normal e_bias e_max mb _ y sh rfl (M : Int) (E : Int) rfl (by omega) hM1' rfl (by omega) (by omega)]
      simp [Option.map]
theorem land_one_nat (x : Nat) : Py.land (x : Int) 1 = ((x % 2 : Nat) : Int) := by
  have := land_mask_nat x 1
  simpa using this

theorem isNaN_false (f : IEEE.Format) (b : Nat) (h : IEEE.isNaN f b = false) :
    IEEE.expOf f b = 2 ^ f.ebits - 1 → IEEE.manOf f b = 0 := by
  intro he
  unfold IEEE.isNaN at h
  simp [he] at h; exact h

theorem val4_as_dy (s e n : Int) (mb : Nat) :
    val4 s e n ((2:Int)^mb) = (s : Rat) * Dy.toRat ⟨n, e - (mb : Int)⟩ := by
  unfold val4 Dy.toRat
  have h2 := two_pow_ne_zero_rat mb
  have e1 : (2:Rat)^(e - (mb:Int)) * (2:Rat)^mb = (2:Rat)^e := zpow_sub_nat e mb
  have e2 : (((2:Int)^mb : Int) : Rat) = (2:Rat)^mb := by simp [Rat.intCast_pow]
  rw [e2, ← e1]
  grind

/-- what `from_ieee754_*` denote, for a generic format: sign · significand · 2^exponent of the encoding -/
theorem from_parts_value (e_max e_sub e_bias : Int) (mb : Nat) (S E M : Nat)
    (hS : S < 2) (hne : (E : Int) ≠ e_max) (hM1 : M < 2^mb) :
    ∃ x, from_parts (S : Int) (E : Int) (M : Int) e_max e_sub e_bias mb = some x ∧ x.Finite ∧
      x.value = (if S = 0 then 1 else -1 : Rat) *
        Dy.toRat (if E = 0 then ⟨(M : Int), e_sub - (mb : Int)⟩ else ⟨(2:Int)^mb + (M : Int), (E : Int) - e_bias - (mb : Int)⟩) := by
  have hmbpos := two_pow_pos_int mb
  have hsg : (((if ((S : Int) == 0) = true then (1:Int) else -1) : Int) : Rat) = (if S = 0 then 1 else -1 : Rat) := by
    rcases (show S = 0 ∨ S = 1 by omega) with rfl | rfl <;> simp
  have hsg2 : (if ((S : Int) == 0) = true then (1:Int) else -1) = 1 ∨ (if ((S : Int) == 0) = true then (1:Int) else -1) = -1 := by
    rcases (show S = 0 ∨ S = 1 by omega) with rfl | rfl <;> simp
  unfold from_parts
  have : ((E : Int) == e_max) = false := by simp [hne]
  simp only [this, Bool.false_eq_true, if_false, shl_one]
  by_cases ce0 : E = 0
  · subst ce0
    simp only [Int.natCast_zero, beq_self_eq_true, if_true]
    rw [set_semp_finite _ _ _ _ hmbpos]
    obtain ⟨y, hy⟩ := adjust_semp_total' ({ s := (if ((S : Int) == 0) = true then 1 else -1), e := e_sub, m := (M : Int), p := (2:Int)^mb } : FPNum)
      (by exact hmbpos) (by show (0:Int) ≤ (M : Int); omega)
    have post := adjust_semp_spec _ y (by exact hmbpos) (by show (0:Int) ≤ (M : Int); omega) hy
    refine ⟨y, hy, ⟨by rw [post.s]; exact hsg2, post.m_nonneg, post.p_pos, post.inf, post.nan⟩, ?_⟩
    rw [post.value, value_eq]; simp only []
    rw [val4_as_dy, hsg]
  · have ce0' : ((E : Int) == 0) = false := by simp; omega
    simp only [ce0', Bool.false_eq_true, if_false, ce0]
    rw [set_semp_finite _ _ _ _ hmbpos, lor_hidden_bit M mb hM1]
    obtain ⟨y, hy⟩ := adjust_semp_total' ({ s := (if ((S : Int) == 0) = true then 1 else -1), e := (E : Int) - e_bias, m := (2:Int)^mb + (M : Int), p := (2:Int)^mb } : FPNum)
      (by exact hmbpos) (by show (0:Int) ≤ (2:Int)^mb + (M : Int); omega)
    have post := adjust_semp_spec _ y (by exact hmbpos) (by show (0:Int) ≤ (2:Int)^mb + (M : Int); omega) hy
    refine ⟨y, hy, ⟨by rw [post.s]; exact hsg2, post.m_nonneg, post.p_pos, post.inf, post.nan⟩, ?_⟩
    rw [post.value, value_eq]; simp only []
    rw [val4_as_dy, hsg]
/-- `convert` of a normalised mantissa (`2^a ≤ m < 2^(a+1)`, precision `2^a`) into a format in which the number is NORMAL
    (`1 ≤ e + bias < e_mask`) and whose mantissa is at least as wide (`a ≤ mb`): exponent field `e + bias`, mantissa field the
    fraction bits shifted up — nothing is lost -/
theorem convertFinite_exact_normal (bias emask : Int) (mb a : Nat) (e m : Int)
    (h0 : (2:Int)^a ≤ m) (h1 : m < (2:Int)^(a+1)) (ha : a ≤ mb) (he0 : 1 ≤ e + bias) (he1 : e + bias < emask) :
    convertFinite bias emask ((2:Int)^mb) e m ((2:Int)^a) = some (e + bias, (m - (2:Int)^a) * (2:Int)^(mb - a)) := by
  have hpa := two_pow_pos_int a
  have h1' : m < 2 * (2:Int)^a := by rw [← two_pow_succ_int]; exact h1
  unfold convertFinite
  have c1 : ¬ (e < -(bias - 1)) := by omega
  have c2 : (e == -(bias - 1) && decide ((2:Int)^a > m)) = false := by
    have : ¬ ((2:Int)^a > m) := by omega
    simp [this]
  simp only [c1, c2, if_false, Bool.false_eq_true]
  have c3 : ¬ (e + bias < 0) := by omega
  have c4 : ¬ (e + bias ≥ emask) := by omega
  have c5 : (e + bias == 0) = false := by simp; omega
  have c6 : ¬ ((2:Int)^a > m) := by omega
  simp only [c3, c4, c5, c6, if_false, Bool.false_eq_true, shl_one']
  have c7 : ¬ (m ≥ (2:Int)^a * 2) := by omega
  simp only [c7, if_false]
  have hb := hidden_bit m a h0 h1
  rw [hb.1, hb.2]
  have c8 : ((2:Int)^a == 0) = false := by simp; omega
  simp only [c8, Bool.false_eq_true, if_false]
  have hstd : stdPrec ((2:Int)^mb) (m - (2:Int)^a) ((2:Int)^a) = some ((m - (2:Int)^a) * (2:Int)^(mb - a)) := by
    apply stdPrec_exact
    have : mb = (mb - a) + a := by omega
    conv => lhs; rw [this, Int.pow_add]
    ac_rfl
  rw [hstd]; simp [Option.map]
theorem dy_toRat_scale (n k : Int) (t : Nat) : Dy.toRat ⟨n * (2:Int)^t, k - (t : Int)⟩ = Dy.toRat ⟨n, k⟩ := by
  unfold Dy.toRat
  simp only []
  rw [cast_mul_pow, ← zpow_sub_nat k t]
  grind

/-- a finite non-zero decoded number converted into a format where it is normal and fits: fields and value -/
theorem convert_shape_exact (bias2 emask2 : Int) (mb1 mb2 : Nat) (x y : FPNum) (sh : AdjShape x y)
    (hxp : x.p = (2:Int)^mb1) (hmb : mb1 ≤ mb2) (he0 : 1 ≤ y.e + bias2) (he1 : y.e + bias2 < emask2) :
    ∃ M2 : Int, convertFinite bias2 emask2 ((2:Int)^mb2) y.e y.m y.p = some (y.e + bias2, M2) ∧
      0 ≤ M2 ∧ M2 < (2:Int)^mb2 ∧
      val4 y.s y.e y.m y.p = (y.s : Rat) * Dy.toRat ⟨(2:Int)^mb2 + M2, (y.e + bias2) - bias2 - (mb2 : Int)⟩ := by
  obtain ⟨k, d, h1, -, -, -, -⟩ := sh.ex
  obtain ⟨a, ha, hak⟩ := pow2_split y.p k mb1 sh.p_pos (by rw [← hxp]; exact h1)
  have hn := sh.normal
  rw [ha] at hn
  have hpa := two_pow_pos_int a
  have h1' : y.m < (2:Int)^(a+1) := by rw [two_pow_succ_int]; exact hn.2
  refine ⟨(y.m - (2:Int)^a) * (2:Int)^(mb2 - a), ?_, ?_, ?_, ?_⟩
  · rw [ha]; exact convertFinite_exact_normal bias2 emask2 mb2 a y.e y.m hn.1 h1' (by omega) he0 he1
  · exact Int.mul_nonneg (by omega) (Int.le_of_lt (two_pow_pos_int _))
  · have : mb2 = a + (mb2 - a) := by omega
    conv => rhs; rw [this, Int.pow_add]
    exact Int.mul_lt_mul_of_pos_right (by omega) (two_pow_pos_int _)
  · rw [ha, val4_as_dy]
    congr 1
    have e1 : (2:Int)^mb2 + (y.m - (2:Int)^a) * (2:Int)^(mb2 - a) = y.m * (2:Int)^(mb2 - a) := by
      have : mb2 = a + (mb2 - a) := by omega
      conv => lhs; rw [this, Int.pow_add]
      rw [Int.sub_mul]; have e : a + (mb2 - a) - a = mb2 - a := by omega
      rw [e]; omega
    rw [e1]
    have e2 : y.e + bias2 - bias2 - (mb2 : Int) = (y.e - (a : Int)) - ((mb2 - a : Nat) : Int) := by omega
    rw [e2, dy_toRat_scale]
theorem shape_exp_bounds (mb : Nat) (x y : FPNum) (sh : AdjShape x y) (hxp : x.p = (2:Int)^mb) (hm : 0 < x.m) :
    y.e ≤ x.e ∧ x.e - (mb : Int) ≤ y.e := by
  obtain ⟨k, d, h1, h2, h3, h4, -⟩ := sh.ex
  refine ⟨by omega, ?_⟩
  rcases Nat.lt_or_ge mb d with c | c
  · exfalso
    -- 2^(mb+1) ≤ 2^d ≤ x.m·2^d = y.m·2^k < 2·y.p·2^k = 2^(mb+1)
    have hk := two_pow_pos_int k
    have hd := two_pow_pos_int d
    have l1 := two_pow_le_int (mb+1) d c
    have l2 : (2:Int)^d ≤ x.m * (2:Int)^d := by
      have := Int.mul_le_mul_of_nonneg_right (show (1:Int) ≤ x.m by omega) (Int.le_of_lt hd)
      omega
    have l3 : y.m * (2:Int)^k < 2 * y.p * (2:Int)^k := Int.mul_lt_mul_of_pos_right sh.normal.2 hk
    rw [Int.mul_assoc, ← h1, hxp, ← two_pow_succ_int] at l3
    omega
  · omega

/-- **widening, generic formats**: decode with (e_max1, e_sub1 = 1 − bias1, bias1, mb1), convert into a format with
    `mb1 ≤ mb2`, `bias1 + mb1 ≤ bias2` (every source subnormal is a target normal), `bias1 + bias2 < emask2`.
    The result fields are in range, and: infinity ↦ infinity, ±0 ↦ ±0, every other number ↦ a NORMAL number whose value is the
    value of the source FPNum. -/
theorem widen_fields (e_max1 e_sub1 bias1 bias2 emask2 : Int) (mb1 mb2 : Nat) (nanM2 : Int) (S E M : Nat)
    (hS : S < 2) (hE1 : (E : Int) ≤ e_max1) (hM1 : M < 2^mb1) (hnan : (E : Int) = e_max1 → M = 0)
    (hsub : e_sub1 = 1 - bias1) (hmax1 : e_max1 ≤ 2 * bias1 + 1) (hmb : mb1 ≤ mb2) (hb12 : bias1 + (mb1 : Int) ≤ bias2)
    (hmask : bias1 + bias2 < emask2) (hb1 : 1 ≤ bias1) :
    ∃ x E2 M2, from_parts (S : Int) (E : Int) (M : Int) e_max1 e_sub1 bias1 mb1 = some x ∧
      convertParts x bias2 emask2 ((2:Int)^mb2) nanM2 0 = some ((S : Int), E2, M2) ∧
      0 ≤ M2 ∧ M2 < (2:Int)^mb2 ∧
      (((E : Int) = e_max1 ∧ E2 = emask2 ∧ M2 = 0) ∨
       ((E : Int) ≠ e_max1 ∧ E = 0 ∧ M = 0 ∧ E2 = 0 ∧ M2 = 0) ∨
       ((E : Int) ≠ e_max1 ∧ ¬ (E = 0 ∧ M = 0) ∧ 1 ≤ E2 ∧ E2 < emask2 ∧
          x.value = (if S = 0 then 1 else -1 : Rat) * Dy.toRat ⟨(2:Int)^mb2 + M2, E2 - bias2 - (mb2 : Int)⟩)) := by
  have hsg : (((if ((S : Int) == 0) = true then (1:Int) else -1) : Int) : Rat) = (if S = 0 then 1 else -1 : Rat) := by
    rcases (show S = 0 ∨ S = 1 by omega) with rfl | rfl <;> simp
  have hM1' : (M : Int) < (2:Int)^mb1 := by rw [← nat_pow_cast]; exact Int.ofNat_lt.mpr hM1
  have hmbpos := two_pow_pos_int mb1
  have hmb2pos := two_pow_pos_int mb2
  have hsign : (if (if ((S : Int) == 0) = true then (1:Int) else -1) > 0 then (0:Int) else 1) = (S : Int) := by
    rcases (show S = 0 ∨ S = 1 by omega) with rfl | rfl <;> simp
  unfold from_parts
  simp only []
  by_cases cmax : (E : Int) = e_max1
  · have hm0 := hnan cmax
    subst hm0
    have : ((E : Int) == e_max1) = true := by simp [cmax]
    simp only [this, if_true]
    refine ⟨_, emask2, 0, rfl, ?_, by omega, hmb2pos, Or.inl ⟨cmax, rfl, rfl⟩⟩
    rcases (show S = 0 ∨ S = 1 by omega) with rfl | rfl <;> simp [convertParts, set_semp, fresh]
  · have : ((E : Int) == e_max1) = false := by simp [cmax]
    simp only [this, Bool.false_eq_true, if_false, shl_one]
    -- the common tail for a non-zero finite number
    have tail : ∀ (e0 m0 : Int) (y : FPNum), 0 < m0 → m0 < 2 * (2:Int)^mb1 → 1 - bias1 ≤ e0 → e0 ≤ bias1 →
        adjust_semp ({ s := (if ((S : Int) == 0) = true then 1 else -1), e := e0, m := m0, p := (2:Int)^mb1 } : FPNum) = some y →
        ∃ E2 M2, convertParts y bias2 emask2 ((2:Int)^mb2) nanM2 0 = some ((S : Int), E2, M2) ∧ 0 ≤ M2 ∧ M2 < (2:Int)^mb2 ∧
          1 ≤ E2 ∧ E2 < emask2 ∧ y.value = (if S = 0 then 1 else -1 : Rat) * Dy.toRat ⟨(2:Int)^mb2 + M2, E2 - bias2 - (mb2 : Int)⟩ := by
      intro e0 m0 y hm0 hm1 he0 he1 hy
      have post := adjust_semp_spec _ y (by exact hmbpos) (by show (0:Int) ≤ m0; omega) hy
      have sh := adjust_semp_shape _ y (by exact hmbpos) (by exact hm0) (by exact hm1) hy
      have hb := shape_exp_bounds mb1 _ y sh rfl (by exact hm0)
      simp only [] at hb
      obtain ⟨M2, hc, hM20, hM21, hv⟩ := convert_shape_exact bias2 emask2 mb1 mb2 _ y sh rfl hmb (by omega) (by omega)
      have ym : (y.m == 0) = false := by
        have := sh.normal; have := sh.p_pos
        simp; omega
      refine ⟨y.e + bias2, M2, ?_, hM20, hM21, by omega, by omega, ?_⟩
      · unfold convertParts
        have hinf : y.infinity = false := post.inf
        have hnn : y.nan = false := post.nan
        have hs : y.s = (if ((S : Int) == 0) = true then 1 else -1) := post.s
        simp only [hinf, hnn, Bool.or_self, Bool.false_eq_true, if_false, hs, hsign, ym, hc, Option.map]
      · rw [value_eq, hv, post.s, hsg]
    by_cases ce0 : E = 0
    · subst ce0
      simp only [Int.natCast_zero, beq_self_eq_true, if_true]
      rw [set_semp_finite _ _ _ _ hmbpos]
      obtain ⟨y, hy⟩ := adjust_semp_total' ({ s := (if ((S : Int) == 0) = true then 1 else -1), e := e_sub1, m := (M : Int), p := (2:Int)^mb1 } : FPNum)
        (by exact hmbpos) (by show (0:Int) ≤ (M : Int); omega)
      by_cases cm0 : M = 0
      · subst cm0
        have post := adjust_semp_spec _ y (by exact hmbpos) (by show (0:Int) ≤ ((0:Nat) : Int); omega) hy
        have hinf : y.infinity = false := post.inf
        have hnn : y.nan = false := post.nan
        have hs : y.s = (if ((S : Int) == 0) = true then 1 else -1) := post.s
        have hz : y.m = 0 := post.zero.mp rfl
        refine ⟨y, 0, 0, hy, ?_, by omega, hmb2pos, Or.inr (Or.inl ⟨cmax, by trivial, by trivial, rfl, rfl⟩)⟩
        unfold convertParts
        rcases (show S = 0 ∨ S = 1 by omega) with rfl | rfl <;> simp [hinf, hnn, hs, hz]
      · obtain ⟨E2, M2, t1, t2, t3, t4, t5, t6⟩ := tail e_sub1 (M : Int) y (by omega) (by omega) (by omega) (by omega) hy
        exact ⟨y, E2, M2, hy, t1, t2, t3, Or.inr (Or.inr ⟨cmax, by omega, t4, t5, t6⟩)⟩
    · have ce0' : ((E : Int) == 0) = false := by simp; omega
      simp only [ce0', Bool.false_eq_true, if_false]
      rw [set_semp_finite _ _ _ _ hmbpos, lor_hidden_bit M mb1 hM1]
      obtain ⟨y, hy⟩ := adjust_semp_total' ({ s := (if ((S : Int) == 0) = true then 1 else -1), e := (E : Int) - bias1, m := (2:Int)^mb1 + (M : Int), p := (2:Int)^mb1 } : FPNum)
        (by exact hmbpos) (by show (0:Int) ≤ (2:Int)^mb1 + (M : Int); omega)
      obtain ⟨E2, M2, t1, t2, t3, t4, t5, t6⟩ := tail ((E : Int) - bias1) ((2:Int)^mb1 + (M : Int)) y (by omega) (by omega) (by omega) (by omega) hy
      exact ⟨y, E2, M2, hy, t1, t2, t3, Or.inr (Or.inr ⟨cmax, by omega, t4, t5, t6⟩)⟩
theorem fields_of_sp (S E M : Nat) (hS : S < 2) (hE : E < 2^8) (hM : M < 2^23) :
    IEEE.signOf IEEE.single (S * 2^31 + E * 2^23 + M) = S ∧ IEEE.expOf IEEE.single (S * 2^31 + E * 2^23 + M) = E ∧
    IEEE.manOf IEEE.single (S * 2^31 + E * 2^23 + M) = M := by
  unfold IEEE.signOf IEEE.expOf IEEE.manOf IEEE.single
  simp only
  refine ⟨?_, ?_, ?_⟩ <;> omega

/-- `IEEE.decode` as a function of the three fields -/
def decodeF (f : IEEE.Format) (S E M : Nat) : PyFloat :=
  if E == 2 ^ f.ebits - 1 then (if M == 0 then .inf (S == 1) else .nan)
  else if E == 0 then (if M == 0 then .fin (S == 1) ⟨0, 0⟩ else .fin (S == 1) ⟨M, 1 - f.bias - f.mbits⟩)
  else .fin (S == 1) ⟨2 ^ f.mbits + M, (E : Int) - f.bias - f.mbits⟩

theorem decode_eq_decodeF (f : IEEE.Format) (b : Nat) :
    IEEE.decode f b = decodeF f (IEEE.signOf f b) (IEEE.expOf f b) (IEEE.manOf f b) := rfl

theorem fields_of_dp (S E M : Nat) (hS : S < 2) (hE : E < 2^11) (hM : M < 2^52) :
    IEEE.signOf IEEE.double (S * 2^63 + E * 2^52 + M) = S ∧ IEEE.expOf IEEE.double (S * 2^63 + E * 2^52 + M) = E ∧
    IEEE.manOf IEEE.double (S * 2^63 + E * 2^52 + M) = M := by
  unfold IEEE.signOf IEEE.expOf IEEE.manOf IEEE.double
  simp only
  refine ⟨?_, ?_, ?_⟩ <;> omega

end C12
