import Py4hwV.Proofs.C01FlatV
import Py4hwV.Props.C01
import Py4hwV.Proofs.C01FlatKinds
import Py4hwV.Props.C04
import Py4hwV.Props.C06
/-
  C01 design level, correspondence: a settled Verilog valuation carries, on every name that denotes a simulator net,
  the value the simulator's settled valuation has on that net — provided each assign is JUSTIFIED (`Just`): evaluated
  on operands that carry the simulator's values it yields the simulator's value of its target.  Justification of the
  inline forms comes from Props/C01.lean (`kind_eval`), of the port-connection aliases from `C01.inline_buf`.
-/
set_option linter.unusedSimpArgs false
namespace FlatM
open V C01

/-- `V` : simulator valuation, `net` : which simulator net a Verilog name denotes (several names may denote one net:
    a port of a flattened instance and the wire connected to it).  `Rel` : every such name is declared with the net's
    width and carries the net's value, known. -/
def Rel (net : String → Option Nat) (wd : Nat → Nat) (V : Nat → Nat) (r : Rd) : Prop :=
  ∀ n k, net n = some k → Known r n (wd k) (V k)

/-- the assign `a` is justified by the simulator valuation `V` -/
def Just (net : String → Option Nat) (wd : Nat → Nat) (V : Nat → Nat) (a : LHS × Expr) : Prop :=
  ∀ k, net (tgt a) = some k → ∀ r : Rd,
    (∀ n k', n ∈ reads a.2 → net n = some k' → Known r n (wd k') (V k')) →
    (∀ n, n ∈ reads a.2 → ∃ k', net n = some k') ∧
    evalAssign r (wd k) a.2 = ⟨wd k, V k, true⟩

/-- **settled ⇒ related.**  Induction along the sources-first order. -/
theorem settled_rel (net : String → Option Nat) (wd : Nat → Nat) (V : Nat → Nat) (topo : List (LHS × Expr))
    (hA : Acyc topo) (fin : Rd) (hS : Settled topo fin)
    (hinfo : ∀ n k, net n = some k → fin.info n = some { width := wd k })
    (hV : ∀ n k, net n = some k → V k < 2 ^ wd k)
    (hund : ∀ n k, n ∉ topo.map tgt → net n = some k → fin.val n = ⟨wd k, V k, true⟩)
    (hj : ∀ a, a ∈ topo → Just net wd V a) : Rel net wd V fin := by
  suffices h : ∀ n k, net n = some k → fin.val n = ⟨wd k, V k, true⟩ from
    fun n k hn => ⟨hinfo n k hn, h n k hn, hV n k hn⟩
  induction topo with
  | nil => intro n k hn; exact hund n k (by simp) hn
  | cons a rest ih =>
    obtain ⟨hr, hw, hrest⟩ := hA
    have hta : ∀ k, net (tgt a) = some k → fin.val (tgt a) = ⟨wd k, V k, true⟩ := by
      intro k hk
      have hwd : widthOf fin (tgt a) = wd k := by simp [widthOf, hinfo _ _ hk]
      rw [hS a (by simp), hwd]
      apply (hj a (by simp) k hk fin _).2
      intro n k' hn hk'
      refine ⟨hinfo n k' hk', ?_, hV n k' hk'⟩
      apply hund n k' _ hk'
      intro hmem
      rcases List.mem_map.mp hmem with ⟨b, hb, e⟩
      exact hr b hb n hn e.symm
    apply ih hrest (fun k hk => hS k (by simp [hk])) _ (fun b hb => hj b (by simp [hb]))
    intro n k hn hk
    by_cases e : n = tgt a
    · rw [e]; exact hta k (e ▸ hk)
    · apply hund n k _ hk
      simp only [List.map_cons, List.mem_cons, not_or]
      exact ⟨e, hn⟩

/-! ### justification of the emitted forms -/

theorem lit_eq (n : Nat) : FlatM.lit n = C01.lit n := rfl

/-- a port connection / `assign q = rq`: both names denote the same net -/
theorem just_alias (net : String → Option Nat) (wd : Nat → Nat) (V : Nat → Nat) (l : LHS) (m : String)
    (hV : ∀ n k, net n = some k → V k < 2 ^ wd k)
    (hm : ∀ k, net l.name = some k → net m = some k) (hm' : ∃ k, net m = some k) : Just net wd V (l, .id m) := by
  intro k hk r hK
  refine ⟨?_, ?_⟩
  · intro n hn; simp [reads] at hn; subst hn; exact hm'
  · have hkn := hK m k (by simp [reads]) (hm k hk)
    rw [inline_buf (wd k) hkn]
    simp [Leaf.buf, Nat.mod_eq_of_lt hkn.lt]

/-- an assign whose target denotes no simulator net (the clock connections) needs no justification -/
theorem just_unmapped (net : String → Option Nat) (wd : Nat → Nat) (V : Nat → Nat) (a : LHS × Expr)
    (h : net (tgt a) = none) : Just net wd V a := by
  intro k hk; rw [h] at hk; cases hk

theorem g_cons0 (x : Nat) (l : List Nat) : g (x :: l) 0 = (x : Int) := rfl
theorem g_cons1 (x y : Nat) (l : List Nat) : g (x :: y :: l) 1 = (y : Int) := rfl
theorem g_cons2 (x y z : Nat) (l : List Nat) : g (x :: y :: z :: l) 2 = (z : Int) := rfl

theorem zip_map_self {α β γ : Type} (ins : List α) (V : α → β) (h : α × β → γ) :
    (ins.zip (ins.map V)).map h = ins.map fun x => h (x, V x) := by
  induction ins with
  | nil => rfl
  | cons a l ih => simp [ih]

/-- **every covered primitive**: the emitted right-hand side, on operands carrying the values `V`, evaluates to what the
    GENERATED propagate() lands on the output wire (all widths, all values) -/
theorem kind_eval (wd : Nat → Nat) (nm : Nat → String) (k : Kind) (hok : k.ok wd) (r : Rd) (V : Nat → Nat)
    (hK : ∀ x, x ∈ (k.leaf wd).ins → Known r (nm x) (wd x) (V x)) :
    evalAssign r (wd k.out) (k.rhs wd nm) =
      ⟨wd k.out, Bits.put (wd k.out) ((k.leaf wd).py ((k.leaf wd).ins.map V)), true⟩ := by
  cases k with
  | and2 a b o =>
    have := Leaf.gen_and2 (wd o) (V a) (V b)
    simp only [Leaf.landed] at this
    simp only [Kind.rhs, Kind.out, Kind.leaf, List.map, g_cons0, g_cons1, this]
    exact inline_and2 (wd o) (hK a (by simp [Kind.leaf])) (hK b (by simp [Kind.leaf]))
  | or2 a b o =>
    have := Leaf.gen_or2 (wd o) (V a) (V b)
    simp only [Leaf.landed] at this
    simp only [Kind.rhs, Kind.out, Kind.leaf, List.map, g_cons0, g_cons1, this]
    exact inline_or2 (wd o) (hK a (by simp [Kind.leaf])) (hK b (by simp [Kind.leaf]))
  | not1 a o =>
    have := Leaf.gen_not (wd o) (V a)
    simp only [Leaf.landed] at this
    simp only [Kind.rhs, Kind.out, Kind.leaf, List.map, g_cons0, this]
    exact inline_not (wd o) (hK a (by simp [Kind.leaf]))
  | buf a o =>
    have := Leaf.gen_buf (wd o) (V a)
    simp only [Leaf.landed] at this
    simp only [Kind.rhs, Kind.out, Kind.leaf, List.map, g_cons0, this]
    exact inline_buf (wd o) (hK a (by simp [Kind.leaf]))
  | zext a o =>
    have := Leaf.gen_zext (wd o) (V a)
    simp only [Leaf.landed] at this
    simp only [Kind.rhs, Kind.out, Kind.leaf, List.map, g_cons0, this]
    exact inline_buf (wd o) (hK a (by simp [Kind.leaf]))
  | bit a i o =>
    have := Leaf.gen_bit (wd o) (V a) i
    simp only [Leaf.landed] at this
    simp only [Kind.rhs, Kind.out, Kind.leaf, List.map, g_cons0, this, lit_eq]
    exact inline_bit (wd o) i hok.1 hok.2 (hK a (by simp [Kind.leaf]))
  | mux2 s s0 s1 o =>
    have := Leaf.gen_mux2 (wd o) (V s) (V s0) (V s1)
    simp only [Leaf.landed] at this
    simp only [Kind.rhs, Kind.out, Kind.leaf, List.map, g_cons0, g_cons1, g_cons2, this, lit_eq]
    exact inline_mux2 (wd o) (hK s (by simp [Kind.leaf])) (hK s0 (by simp [Kind.leaf])) (hK s1 (by simp [Kind.leaf]))
  | const v o =>
    have := Leaf.gen_const (wd o) (v : Int)
    simp only [Leaf.landed] at this
    simp only [Kind.rhs, Kind.out, Kind.leaf, List.map, this, lit_eq]
    exact inline_const r (wd o) v hok
  | shl a n o =>
    have := Leaf.gen_shlC (wd o) (V a) n
    simp only [Leaf.landed] at this
    simp only [Kind.rhs, Kind.out, Kind.leaf, List.map, g_cons0, this, lit_eq]
    exact inline_shl (wd o) n hok (hK a (by simp [Kind.leaf]))
  | shr a n o =>
    have := Leaf.gen_shrC (wd o) (V a) n
    simp only [Leaf.landed] at this
    simp only [Kind.rhs, Kind.out, Kind.leaf, List.map, g_cons0, this, lit_eq]
    exact inline_shr (wd o) n hok (hK a (by simp [Kind.leaf]))
  | addc a b c o =>
    have := Leaf.gen_addc (wd o) (V a) (V b) (V c)
    simp only [Leaf.landed] at this
    simp only [Kind.rhs, Kind.out, Kind.leaf, List.map, g_cons0, g_cons1, g_cons2, this]
    exact inline_add (wd o) (hK a (by simp [Kind.leaf])) (hK b (by simp [Kind.leaf])) (hK c (by simp [Kind.leaf]))
  | sub a b o =>
    have := Leaf.gen_sub (wd o) (V a) (V b)
    simp only [Leaf.landed] at this
    simp only [Kind.rhs, Kind.out, Kind.leaf, List.map, g_cons0, g_cons1, this]
    exact inline_sub (wd o) (hK a (by simp [Kind.leaf])) (hK b (by simp [Kind.leaf]))
  | mul a b o =>
    have := Leaf.gen_mul (wd o) (V a) (V b)
    simp only [Leaf.landed] at this
    simp only [Kind.rhs, Kind.out, Kind.leaf, List.map, g_cons0, g_cons1, this]
    exact inline_mul (wd o) (hK a (by simp [Kind.leaf])) (hK b (by simp [Kind.leaf]))
  | range a hi lo o =>
    have := Leaf.gen_range (wd o) (V a) hi lo hok.1
    simp only [Leaf.landed] at this
    simp only [Kind.rhs, Kind.out, Kind.leaf, List.map, g_cons0, this]
    exact inline_range (wd o) hi lo hok.1 hok.2 (hK a (by simp [Kind.leaf]))
  | catm ins o =>
    have hz : (ins.zip (ins.map V)).map (fun p => ((wd p.1 : Int), (p.2 : Int))) =
        (ins.map fun x => (wd x, V x)).map fun p => ((p.1 : Int), (p.2 : Int)) := by
      rw [zip_map_self, List.map_map]; rfl
    have := gen_concatMSBF (wd o) (ins.map fun x => (wd x, V x))
    simp only [Leaf.landed] at this
    simp only [Kind.rhs, Kind.out, Kind.leaf, hz, this]
    have := inline_concat (r := r) (wd o) (ins.map fun x => (nm x, wd x, V x)) (by intro e; exact hok (by simpa using e))
      (by intro x hx; rcases List.mem_map.mp hx with ⟨y, hy, e⟩; subst e; exact hK y (by simpa [Kind.leaf] using hy))
    simpa [List.map_map, Function.comp_def] using this
  | catl ins o =>
    have hz : (ins.zip (ins.map V)).map (fun p => ((wd p.1 : Int), (p.2 : Int))) =
        (ins.map fun x => (wd x, V x)).map fun p => ((p.1 : Int), (p.2 : Int)) := by
      rw [zip_map_self, List.map_map]; rfl
    have := Leaf.gen_concatLSBF (wd o) (ins.map fun x => (wd x, V x))
    simp only [Leaf.landed] at this
    simp only [Kind.rhs, Kind.out, Kind.leaf, hz, this]
    have := inline_concat (r := r) (wd o) (ins.map fun x => (nm x, wd x, V x)) (by intro e; exact hok (by simpa using e))
      (by intro x hx; rcases List.mem_map.mp hx with ⟨y, hy, e⟩; subst e; exact hK y (by simpa [Kind.leaf] using hy))
    simpa [List.map_map, Function.comp_def] using this
  | sext a o =>
    have := Leaf.gen_sext (wd o) (wd a) (V a)
    simp only [Leaf.landed] at this
    simp only [Kind.rhs, Kind.out, Kind.leaf, List.map, g_cons0, this]
    exact inline_sext (wd o) hok.1 hok.2 (hK a (by simp [Kind.leaf]))
  | smul a b o =>
    have := Leaf.gen_smul (wd o) (wd a) (wd b) (V a) (V b) hok.1 hok.2
    simp only [Leaf.landed] at this
    simp only [Kind.rhs, Kind.out, Kind.leaf, List.map, g_cons0, g_cons1, this]
    exact inline_smul (wd o) hok.1 hok.2 (hK a (by simp [Kind.leaf])) (hK b (by simp [Kind.leaf]))
  | rept i o =>
    have := Leaf.gen_repeat (wd o) (V i)
    simp only [Leaf.landed] at this
    simp only [Kind.rhs, Kind.out, Kind.leaf, List.map, g_cons0, this]
    have hki := hK i (by simp [Kind.leaf])
    rw [hok.1] at hki
    exact inline_repeat (wd o) hok.2 (nm i) (V i) hki

end FlatM
