import Py4hwV.Proofs.C18Place
import Py4hwV.Proofs.C18Pins
/-
  C18 — composition of two modelled mechanisms: the grid-to-pixel placement (Schem.Place, `replaceAsColRow`) and the pin
  geometry of the symbol classes (Schem.Pins).  Result: in every layout whose coordinates are those of the placement model and
  whose symbols have the boxes and pins of the pin model, with port counts inside `Fits` and `Tidy`,
  NO TWO DIFFERENT PINS OF THE CIRCUIT ARE DRAWN ON THE SAME PIXEL (`pinPos_injective`) — the part of the clause
  "… and no pin of any other wire" that concerns the end points of the nets.
-/
namespace Schem.Place

/-- the margins leave room: columns are really separated and the vertical margin is larger than the `slack` by which the pins
    of NotSymbol / BufSymbol hang below their box (true of the constants of schematic.py: 5 and 15 > 3) -/
def Cfg.Roomy (cfg : Cfg) : Prop := cfg.NonNeg ∧ 0 < cfg.mh ∧ Schem.Pins.slack < cfg.mv

theorem std_roomy : Cfg.std.Roomy := by
  refine ⟨?_, ?_, ?_⟩
  · unfold Cfg.NonNeg Cfg.std; decide
  · unfold Cfg.std; decide
  · unfold Cfg.std Schem.Pins.slack; decide

theorem gap_ge_mh (cfg : Cfg) (h : cfg.NonNeg) (tracks : List Nat) (c : Nat) : cfg.mh ≤ gap cfg tracks c := by
  obtain ⟨_, _, hns, hts⟩ := h
  unfold gap
  cases tracks[c]? with
  | none => simp
  | some t =>
    have h1 : 0 ≤ (t : Int) * cfg.ts := Int.mul_nonneg (Int.natCast_nonneg t) hts
    simp only
    split <;> omega

/-- a later column starts at least one horizontal margin after the widest symbol of an earlier one -/
theorem xAt_sep (cfg : Cfg) (h : cfg.NonNeg) (tracks : List Nat) (m : List (List Cell)) (c c' : Nat) (hc : c < c') :
    xAt cfg tracks m c + colW m c + cfg.mh ≤ xAt cfg tracks m c' := by
  induction c' with
  | zero => omega
  | succ k ih =>
    have g := gap_ge_mh cfg h tracks k
    have wk := colW_nonneg m k
    simp only [xAt]
    by_cases hk : c = k
    · subst hk; omega
    · have := ih (by omega)
      have wc := colW_nonneg m c
      have := h.2.1
      omega

/-- a later row starts at least one vertical margin below the tallest symbol of an earlier one -/
theorem yAt_sep (cfg : Cfg) (h : cfg.NonNeg) (m : List (List Cell)) (r r' : Nat) (hr : r < r') :
    yAt cfg m r + rowH ((m[r]?).getD []) + cfg.mv ≤ yAt cfg m r' := by
  obtain ⟨hmv, _⟩ := h
  induction r' with
  | zero => omega
  | succ k ih =>
    have hk0 := rowH_nonneg ((m[k]?).getD [])
    simp only [yAt]
    by_cases hk : r = k
    · subst hk; omega
    · have := ih (by omega)
      have hr0 := rowH_nonneg ((m[r]?).getD [])
      omega

end Schem.Place

namespace Schem
open Place Pins

/-- pixel position of pin `p` of symbol `a` as exported (the symbol's own pin function at the final placement) -/
def Sym.pinAt (a : Sym) : PinRef → Option Pt
  | .inp i => (a.ipins[i]?).join
  | .out i => (a.opins[i]?).join

/-- the symbol's box and pins are those the pin model computes for shape `sh` (checked for every symbol of every explored
    layout by the `pin-model` stream) -/
structure Sym.HasShape (a : Sym) (sh : Shape) : Prop where
  w : a.w = sh.width
  h : a.h = sh.height
  ipins : a.ipins = (List.range sh.ins.length).map fun i => (sh.sinkPos i).map fun d => (a.x + d.1, a.y + d.2)
  opins : a.opins = (List.range sh.outs.length).map fun i => (sh.srcPos i).map fun d => (a.x + d.1, a.y + d.2)

theorem Sym.HasShape.pinAt {a : Sym} {sh : Shape} (hs : a.HasShape sh) (p : PinRef) (pt : Pt) (h : a.pinAt p = some pt) :
    sh.valid p ∧ ∃ d, sh.pos p = some d ∧ pt = (a.x + d.1, a.y + d.2) := by
  cases p with
  | inp i =>
    simp only [Sym.pinAt, hs.ipins, List.getElem?_map] at h
    by_cases hi : i < sh.ins.length
    · rw [List.getElem?_range hi] at h
      simp only [Option.map_some, Option.join_some, Option.map_eq_some_iff] at h
      obtain ⟨d, hd, rfl⟩ := h
      exact ⟨hi, d, hd, rfl⟩
    · rw [List.getElem?_eq_none (by simpa using hi)] at h
      simp at h
  | out i =>
    simp only [Sym.pinAt, hs.opins, List.getElem?_map] at h
    by_cases hi : i < sh.outs.length
    · rw [List.getElem?_range hi] at h
      simp only [Option.map_some, Option.join_some, Option.map_eq_some_iff] at h
      obtain ⟨d, hd, rfl⟩ := h
      exact ⟨hi, d, hd, rfl⟩
    · rw [List.getElem?_eq_none (by simpa using hi)] at h
      simp at h

/-- WITHIN ONE SYMBOL: two pins drawn on the same pixel are the same pin -/
theorem sym_pins_injective (a : Sym) (sh : Shape) (hs : a.HasShape sh) (hinj : sh.Injective) (p q : PinRef) (pt : Pt)
    (hp : a.pinAt p = some pt) (hq : a.pinAt q = some pt) : p = q := by
  obtain ⟨vp, d, hd, e1⟩ := hs.pinAt p pt hp
  obtain ⟨vq, d', hd', e2⟩ := hs.pinAt q pt hq
  have : d = d' := by
    have := e1.symm.trans e2
    simp only [Prod.mk.injEq] at this
    apply Prod.ext <;> omega
  subst this
  exact hinj p q d vp vq hd hd'

/-- every pin is drawn inside the closed box of its symbol, at most `slack` pixels below it -/
theorem sym_pin_in_box (a : Sym) (sh : Shape) (hs : a.HasShape sh) (hb : sh.InBox) (p : PinRef) (pt : Pt) (hp : a.pinAt p = some pt) :
    a.x ≤ pt.1 ∧ pt.1 ≤ a.x + a.w ∧ a.y ≤ pt.2 ∧ pt.2 ≤ a.y + a.h + slack := by
  obtain ⟨vp, d, hd, rfl⟩ := hs.pinAt p pt hp
  have := hb p d vp hd
  rw [hs.w, hs.h]
  simp only
  omega

/-- the pins of a symbol all lie in its box (+ slack) -/
def Sym.PinsInBox (a : Sym) : Prop :=
  ∀ p pt, a.pinAt p = some pt → a.x ≤ pt.1 ∧ pt.1 ≤ a.x + a.w ∧ a.y ≤ pt.2 ∧ pt.2 ≤ a.y + a.h + slack

/-- ACROSS SYMBOLS: in a layout placed by replaceAsColRow with roomy margins, pins of two different symbols never share a pixel -/
theorem pins_apart_of_placedBy (L : Layout) (cfg : Cfg) (hcfg : cfg.Roomy) (tracks : List Nat) (hp : L.PlacedBy cfg tracks)
    (i j : Nat) (a b : Sym) (ha : L.syms[i]? = some a) (hb : L.syms[j]? = some b) (hij : i ≠ j)
    (hba : a.PinsInBox) (hbb : b.PinsInBox) (p q : PinRef) (pt : Pt) (h1 : a.pinAt p = some pt) (h2 : b.pinAt q = some pt) : False := by
  obtain ⟨hnn, hmh, hmv⟩ := hcfg
  obtain ⟨r, c, hcell, hat, hx, hy⟩ := hp i a ha
  obtain ⟨r', c', hcell', hat', hx', hy'⟩ := hp j b hb
  have hne : (r, c) ≠ (r', c') := by
    intro e
    simp only [Prod.mk.injEq] at e
    rw [e.1, e.2, hat'] at hat
    exact hij (Option.some.inj hat).symm
  obtain ⟨row, hrow, hk⟩ := (cellAt_some' L r c i).1 hat
  obtain ⟨row', hrow', hk'⟩ := (cellAt_some' L r' c' j).1 hat'
  have hs : L.sizes[r]? = some (row.map fun o => o.bind fun k => (L.syms[k]?).map fun s => (s.w, s.h)) := by
    simp [Layout.sizes, hrow]
  have hs' : L.sizes[r']? = some (row'.map fun o => o.bind fun k => (L.syms[k]?).map fun s => (s.w, s.h)) := by
    simp [Layout.sizes, hrow']
  have hcw : (row.map fun o => o.bind fun k => (L.syms[k]?).map fun s => (s.w, s.h))[c]? = some (some (a.w, a.h)) := by
    simp [hk, ha]
  have hcw' : (row'.map fun o => o.bind fun k => (L.syms[k]?).map fun s => (s.w, s.h))[c']? = some (some (b.w, b.h)) := by
    simp [hk', hb]
  have hw := colW_ge L.sizes r c _ a.w a.h hs hcw
  have hw' := colW_ge L.sizes r' c' _ b.w b.h hs' hcw'
  have hh := rowH_ge _ c a.w a.h hcw
  have hh' := rowH_ge _ c' b.w b.h hcw'
  have A := hba p pt h1
  have B := hbb q pt h2
  rcases Nat.lt_trichotomy c c' with hlt | heq | hgt
  · have := xAt_sep cfg hnn tracks L.sizes c c' hlt
    omega
  · subst heq
    have hrr : r ≠ r' := fun e => hne (by rw [e])
    rcases Nat.lt_or_gt_of_ne hrr with hlt | hgt
    · have := yAt_sep cfg hnn L.sizes r r' hlt
      rw [hs] at this
      simp only [Option.getD_some] at this
      omega
    · have := yAt_sep cfg hnn L.sizes r' r hgt
      rw [hs'] at this
      simp only [Option.getD_some] at this
      omega
  · have := xAt_sep cfg hnn tracks L.sizes c' c hgt
    omega

/-- which symbol and which of its pins a pin of the circuit is drawn as -/
def Pin.kind : Pin → Kind
  | .instOut i _ => .inst i | .instIn i _ => .inst i | .blockIn p => .inPort p | .blockOut p => .outPort p

def Pin.ref : Pin → PinRef
  | .instOut _ p => .out p | .instIn _ p => .inp p | .blockIn _ => .out 0 | .blockOut _ => .inp 0

theorem Pin.ext_kind_ref (p q : Pin) (hk : p.kind = q.kind) (hr : p.ref = q.ref) : p = q := by
  cases p <;> cases q <;> simp only [Pin.kind, Pin.ref] at hk hr <;> first | (cases hr; done) | (cases hk; done) | (cases hk; cases hr; rfl)

theorem pinPos_eq (L : Layout) (p : Pin) : L.pinPos p = (L.symOf p.kind).bind (·.pinAt p.ref) := by
  cases p <;> simp only [Layout.pinPos, Pin.kind, Pin.ref, Sym.pinAt] <;> cases L.symOf _ <;> rfl

theorem symOf_some (L : Layout) (k : Kind) (a : Sym) (h : L.symOf k = some a) : a.kind = k ∧ ∃ i : Nat, L.syms[i]? = some a := by
  unfold Layout.symOf at h
  have h1 := List.find?_some h
  have h2 := List.mem_of_find?_eq_some h
  refine ⟨by simpa using h1, ?_⟩
  obtain ⟨i, hi, e⟩ := List.getElem_of_mem h2
  refine ⟨i, ?_⟩
  simp only [Array.length_toList] at hi
  rw [Array.getElem?_eq_getElem hi]
  simpa using e

/-- COMPOSITION of the placement model and the pin model: if the layout's coordinates are those replaceAsColRow computes
    (roomy margins) and every symbol has the box and pins the pin model computes for a shape that tells its pins apart and keeps
    them in its box, then two different pins of the circuit are never drawn on the same pixel. -/
theorem pinPos_injective (L : Layout) (cfg : Cfg) (hcfg : cfg.Roomy) (tracks : List Nat) (hp : L.PlacedBy cfg tracks)
    (hshape : ∀ (k : Nat) (s : Sym), L.syms[k]? = some s → ∃ sh : Shape, s.HasShape sh ∧ sh.Injective ∧ sh.InBox)
    (p q : Pin) (pt : Pt) (h1 : L.pinPos p = some pt) (h2 : L.pinPos q = some pt) : p = q := by
  rw [pinPos_eq] at h1 h2
  obtain ⟨a, ha, hpa⟩ := Option.bind_eq_some_iff.1 h1
  obtain ⟨b, hb, hpb⟩ := Option.bind_eq_some_iff.1 h2
  obtain ⟨hka, i, hi⟩ := symOf_some L _ a ha
  obtain ⟨hkb, j, hj⟩ := symOf_some L _ b hb
  obtain ⟨sha, hsa, hia, hba⟩ := hshape i a hi
  obtain ⟨shb, hsb, _, hbb⟩ := hshape j b hj
  by_cases hk : p.kind = q.kind
  · have hab : b = a := by
      rw [hk, hb] at ha
      exact Option.some.inj ha
    rw [hab] at hpb
    exact Pin.ext_kind_ref p q hk (sym_pins_injective a sha hsa hia _ _ pt hpa hpb)
  · exfalso
    have hij : i ≠ j := by
      intro e
      subst e
      rw [hi] at hj
      cases hj
      exact hk (hka.symm.trans hkb)
    exact pins_apart_of_placedBy L cfg hcfg tracks hp i j a b hi hj hij
      (fun p' pt' h => sym_pin_in_box a sha hsa hba p' pt' h) (fun p' pt' h => sym_pin_in_box b shb hsb hbb p' pt' h) _ _ pt hpa hpb

end Schem

namespace Schem
open Place Pins

/-- HISTORY, C18-scope-pin-below-box (tree before /repo 0891c9c): when a Scope with ≥ 4 inputs was the tallest symbol of its row,
    replaceAsColRow put the next row exactly where the sink pin of a pass-through marker of the same column met the Scope's fourth pin -/
theorem scope4_meets_marker_old (s m : Shape) (hs : s.cls = .scope) (h4 : 4 ≤ s.ins.length) (hm : m.cls = .pass) (x y : Int) :
    ∃ d e, s.sinkPos 3 = some d ∧ m.sinkPos 0 = some e ∧ (x + d.1, y + d.2) = (x + e.1, (y + s.oldHeight + Cfg.std.mv) + e.2) := by
  obtain ⟨h1, h2, _⟩ := scope4_outside_old s hs h4
  refine ⟨(0, 105), (0, 10), h1, ?_, ?_⟩
  · obtain ⟨cls, iw, ins, outs⟩ := m
    simp only at hm
    subst hm
    simp [Shape.sinkPos]
  · rw [h2]
    simp only [Cfg.std, Prod.mk.injEq, true_and]
    omega

end Schem

namespace Schem
open Place Pins

/- executable forms of the two per-layout hypotheses of `pinPos_injective` (used for the non-vacuity example) -/
def Sym.hasShapeB (a : Sym) (sh : Shape) : Bool :=
  a.w == sh.width && a.h == sh.height &&
  a.ipins == ((List.range sh.ins.length).map fun i => (sh.sinkPos i).map fun d => (a.x + d.1, a.y + d.2)) &&
  a.opins == ((List.range sh.outs.length).map fun i => (sh.srcPos i).map fun d => (a.x + d.1, a.y + d.2))

theorem Sym.hasShapeB_sound (a : Sym) (sh : Shape) (h : a.hasShapeB sh = true) : a.HasShape sh := by
  simp only [Sym.hasShapeB, Bool.and_eq_true, beq_iff_eq] at h
  exact ⟨h.1.1.1, h.1.1.2, h.1.2, h.2⟩

def Layout.placedByB (L : Layout) (cfg : Cfg) (tracks : List Nat) : Bool :=
  (List.range L.syms.size).all fun k =>
    match L.syms[k]? with
    | some s => (match s.cell with
                 | some (r, c) => L.cellAt r c == some k && s.x == xAt cfg tracks L.sizes c && s.y == yAt cfg L.sizes r
                 | none => false)
    | none => true

theorem Layout.placedByB_sound (L : Layout) (cfg : Cfg) (tracks : List Nat) (h : L.placedByB cfg tracks = true) : L.PlacedBy cfg tracks := by
  intro k s hk
  have hlt : k < L.syms.size := by
    apply Classical.byContradiction
    intro hn
    rw [Array.getElem?_eq_none (by omega)] at hk
    cases hk
  have := List.all_eq_true.1 h k (List.mem_range.2 hlt)
  simp only [hk] at this
  cases hc : s.cell with
  | none => simp [hc] at this
  | some rc =>
    obtain ⟨r, c⟩ := rc
    simp only [hc, Bool.and_eq_true, beq_iff_eq] at this
    exact ⟨r, c, rfl, this.1.1, this.1.2, this.2⟩

end Schem
