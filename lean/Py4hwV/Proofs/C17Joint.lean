import Py4hwV.Proofs.C17RxS
/-
  C17 — the receive side's phase as a function / relation of the transmitter position: the recovered clock samples frame bit k
  exactly once, n+1 cycles after the falling edge and then every 2n cycles, and the receive side is idle again before the next
  start bit.  Parametric in n ≥ 2 (n = 2, 3 need the cycles after the stop bit: gap / first ready cycle).
-/
set_option linter.unusedSimpArgs false
namespace C17
open Uart

theorem fb_le (b i : Nat) : fb b i ≤ 1 := by
  unfold fb; split
  · omega
  · split
    · have := Nat.mod_lt (b / 2 ^ (i - 1)) (show 0 < 2 by decide); omega
    · omega

theorem tx_line (n b i e : Nat) (hi : i ≤ 9) :
    (serOf n (.frame b i) e).tx = if e = 2 * n - 1 then fbPrev b i else fb b i := by
  have h : i = 0 ∨ (1 ≤ i ∧ i ≤ 8) ∨ i = 9 := by omega
  rcases h with h | ⟨h1, h2⟩ | h
  · subst h; simp [serOf, fb, fbPrev]
  · have : ¬ (i = 0) := by omega
    simp [serOf, fb, fbPrev, this, h2]
  · subst h; simp [serOf, fb, fbPrev]

/-- phase of the receive side while the transmitter is at bit i, e cycles before the next baud pulse -/
def framePh (n b i e : Nat) : RxPh :=
  if i = 0 ∧ 2 * n ≤ e + 2 then .idle 1
  else if 3 * n ≤ e + 3 then .busy b (i - 1) (e + 3 - 3 * n)
  else if n ≤ e + 3 then .busy b i (e + 3 - n)
  else if i < 9 then .busy b (i + 1) (e + 3 + n)
  else if e + 4 = n then .ended else .idle 1

def J (n : Nat) (m : Mode) (e : Nat) (ph : RxPh) : Prop :=
  match m with
  | .gap tx _ => (tx = 0 ∧ ph = .idle 0) ∨
      (tx = 1 ∧ e = 2 * n - 1 ∧ ((n = 2 ∧ ∃ b, ph = .busy b 9 0) ∨ (n = 3 ∧ ph = .ended) ∨ (4 ≤ n ∧ ph = .idle 1)))
  | .ready _ => (∃ z, z ≤ 1 ∧ ph = .idle z) ∨ (n = 2 ∧ e = 2 ∧ ph = .ended)
  | .wait _ => ph = .idle 1
  | .frame b i => ph = framePh n b i e

def byteOf : Mode → Nat
  | .frame b _ => b
  | _ => 0

theorem J_step (n : Nat) (hn : 2 ≤ n) (m : Mode) (e valid v : Nat) (ph : RxPh) (wf : m.wf) (lt : e < 2 * n)
    (hJ : J n m e ph) :
    RxOk ph (serOf n m e).tx ∧
      J n (nextMode m e valid v) (nextE n e) (rxNext n ph (serOf n m e).tx (byteOf m)).1 := by
  cases m with
  | gap tx j =>
    simp only [J] at hJ
    rcases hJ with ⟨h1, h2⟩ | ⟨h1, h2, ⟨h3, b, h4⟩ | ⟨h3, h4⟩ | ⟨h3, h4⟩⟩
    · subst h1; subst h2; simp [RxOk, serOf, rxNext, nextMode, J]
    · subst h1; subst h2; subst h3; subst h4
      simp [RxOk, serOf, rxNext, nextMode, J, fb, nextE]
    · subst h1; subst h2; subst h3; subst h4
      simp [RxOk, serOf, rxNext, nextMode, J, nextE]
    · subst h1; subst h2; subst h4
      simp [RxOk, serOf, rxNext, nextMode, J, nextE]
  | ready j =>
    simp only [J] at hJ
    rcases hJ with ⟨z, hz, h⟩ | ⟨h1, h2, h3⟩
    · subst h
      by_cases hv : valid = 0 <;> simp [RxOk, serOf, rxNext, nextMode, J, hz, hv]
    · subst h3
      by_cases hv : valid = 0 <;> simp [RxOk, serOf, rxNext, nextMode, J, hv]
  | wait b =>
    simp only [J] at hJ
    subst hJ
    by_cases he : e = 0
    · subst he
      have : nextE n 0 = 2 * n - 1 := by simp [nextE]
      simp [RxOk, serOf, rxNext, nextMode, J, this, framePh]; omega
    · simp [RxOk, serOf, rxNext, nextMode, J, he]
  | frame b i =>
    simp only [Mode.wf] at wf
    simp only [J] at hJ
    subst hJ
    rw [tx_line n b i e wf]
    simp only [byteOf]
    have hfb := fb_le b i
    have hfbp : fbPrev b i ≤ 1 := by unfold fbPrev; split; omega; exact fb_le _ _
    have hcases : (i = 0 ∧ e = 2 * n - 1) ∨ (i = 0 ∧ e = 2 * n - 2) ∨
        (¬ (i = 0 ∧ 2 * n ≤ e + 2) ∧ 3 * n ≤ e + 3) ∨
        (¬ (i = 0 ∧ 2 * n ≤ e + 2) ∧ e + 3 = n) ∨
        (¬ (i = 0 ∧ 2 * n ≤ e + 2) ∧ n < e + 3 ∧ e + 3 < 3 * n ∧ e ≠ 0) ∨
        (¬ (i = 0 ∧ 2 * n ≤ e + 2) ∧ n < e + 3 ∧ e + 3 < 3 * n ∧ e = 0) ∨
        (e + 3 < n) := by omega
    rcases hcases with ⟨hi, he⟩ | ⟨hi, he⟩ | ⟨h0, h1⟩ | ⟨h0, h1⟩ | ⟨h0, h1, h2, h3⟩ | ⟨h0, h1, h2, h3⟩ | h1
    · -- start bit, first cycle: line still high, receiver idle
      subst hi; subst he
      have a1 : 2 * n ≤ 2 * n - 1 + 2 := by omega
      have a2 : ¬ (2 * n - 1 = 0) := by omega
      have a3 : 2 * n ≤ 2 * n - 1 - 1 + 2 := by omega
      simp [framePh, a1, a2, a3, RxOk, rxNext, nextMode, nextE, J, fbPrev] <;> omega
    · -- the falling edge is seen
      subst hi; subst he
      have a2 : ¬ (2 * n - 2 = 0) := by omega
      have a3 : ¬ (2 * n - 2 = 2 * n - 1) := by omega
      have a4 : ¬ (2 * n ≤ 2 * n - 2 - 1 + 2) := by omega
      have a5 : ¬ (3 * n ≤ 2 * n - 2 - 1 + 3) := by omega
      have a6 : n ≤ 2 * n - 2 - 1 + 3 := by omega
      have a7 : 2 * n - 2 - 1 + 3 - n = n := by omega
      have a8 : 2 * n ≤ 2 * n - 2 + 2 := by omega
      simp [framePh, a2, a3, a4, a5, a6, a7, a8, RxOk, rxNext, nextMode, nextE, J, fb]
    · -- n = 2: sample of bit i-1 in the first cycle of bit i
      have hn2 : n = 2 := by omega
      subst hn2
      have he : e = 3 := by omega
      subst he
      have hi0 : ¬ (i = 0) := by omega
      have hfp : fbPrev b i = fb b (i - 1) := by simp [fbPrev, hi0]
      have a1 : i - 1 < 9 := by omega
      have a2 : i - 1 + 1 = i := by omega
      simp [framePh, hi0, RxOk, rxNext, nextMode, nextE, J, hfp, a1, a2] <;> omega
    · -- the sampling cycle of bit i (n ≥ 3)
      have he : e = n - 3 := by omega
      have hn3 : 3 ≤ n := by omega
      subst he
      have a1 : ¬ (3 * n ≤ n - 3 + 3) := by omega
      have a2 : n ≤ n - 3 + 3 := by omega
      have a3 : n - 3 + 3 - n = 0 := by omega
      have a4 : ¬ (n - 3 = 2 * n - 1) := by omega
      simp only [framePh, h0, a1, a2, a3, a4, if_false, if_true, RxOk, rxNext, ne_eq, not_true_eq_false, forall_const]
      refine ⟨trivial, ?_⟩
      by_cases h3 : n = 3
      · subst h3
        by_cases h9 : i < 9
        · have b1 : ¬ (i + 1 = 0) := by omega
          simp [nextMode, nextE, h9, J, framePh, b1] <;> omega
        · have : i = 9 := by omega
          subst this
          simp [nextMode, nextE, J] <;> omega
      · have b0 : ¬ (n - 3 = 0) := by omega
        have b1 : ¬ (i = 0 ∧ 2 * n ≤ n - 3 - 1 + 2) := by omega
        have b2 : ¬ (3 * n ≤ n - 3 - 1 + 3) := by omega
        have b3 : ¬ (n ≤ n - 3 - 1 + 3) := by omega
        have b4 : n - 3 - 1 + 3 + n = 2 * n - 1 := by omega
        have b5 : n - 3 - 1 + 4 = n := by omega
        by_cases h9 : i < 9
        · simp [nextMode, nextE, b0, h9, J, framePh, b1, b2, b3, b4] <;> omega
        · have : i = 9 := by omega
          subst this
          simp [nextMode, nextE, b0, J, framePh, b2, b3, b5] <;> omega
    · -- waiting for the sampling cycle of bit i
      have a1 : ¬ (3 * n ≤ e + 3) := by omega
      have a2 : n ≤ e + 3 := by omega
      have a3 : ¬ (e + 3 - n = 0) := by omega
      have b1 : ¬ (i = 0 ∧ 2 * n ≤ e - 1 + 2) := by omega
      have b2 : ¬ (3 * n ≤ e - 1 + 3) := by omega
      have b3 : n ≤ e - 1 + 3 := by omega
      have b4 : e - 1 + 3 - n = e + 3 - n - 1 := by omega
      simp [framePh, h0, a1, a2, a3, RxOk, rxNext, nextMode, nextE, h3, J, b1, b2, b3, b4] <;> omega
    · -- n = 2, pulse cycle: the sample comes with the first cycle of the next bit (or of the gap)
      subst h3
      have hn2 : n = 2 := by omega
      subst hn2
      by_cases h9 : i < 9
      · have b1 : ¬ (i + 1 = 0) := by omega
        simp [framePh, h0, RxOk, rxNext, nextMode, nextE, h9, J, b1] <;> omega
      · have : i = 9 := by omega
        subst this
        simp [framePh, RxOk, rxNext, nextMode, nextE, J] <;> omega
    · -- after the sampling cycle (n ≥ 4)
      have a0 : ¬ (i = 0 ∧ 2 * n ≤ e + 2) := by omega
      have a1 : ¬ (3 * n ≤ e + 3) := by omega
      have a2 : ¬ (n ≤ e + 3) := by omega
      have a4 : ¬ (e = 2 * n - 1) := by omega
      by_cases h9 : i < 9
      · have a3 : ¬ (e + 3 + n = 0) := by omega
        by_cases he : e = 0
        · subst he
          have b1 : ¬ (i + 1 = 0) := by omega
          have b2 : ¬ (3 * n ≤ 2 * n - 1 + 3) := by omega
          have b3 : n ≤ 2 * n - 1 + 3 := by omega
          have b4 : 2 * n - 1 + 3 - n = 3 + n - 1 := by omega
          have a0' : ¬ (i = 0 ∧ 2 * n ≤ 2) := by omega
          simp [framePh, a0', a1, a2, a4, h9, a3, RxOk, rxNext, nextMode, nextE, J, b1, b2, b3, b4]
        · have b1 : ¬ (i = 0 ∧ 2 * n ≤ e - 1 + 2) := by omega
          have b2 : ¬ (3 * n ≤ e - 1 + 3) := by omega
          have b3 : ¬ (n ≤ e - 1 + 3) := by omega
          have b4 : e - 1 + 3 + n = e + 3 + n - 1 := by omega
          simp [framePh, a0, a1, a2, a4, h9, a3, RxOk, rxNext, nextMode, nextE, he, J, b1, b2, b3, b4] <;> omega
      · have : i = 9 := by omega
        subst this
        have hx : fb b 9 = 1 := by simp [fb]
        by_cases he : e = 0
        · subst he
          have b5 : 4 ≤ n := by omega
          by_cases h4 : 0 + 4 = n
          · simp [framePh, a1, a2, a4, h4, RxOk, rxNext, nextMode, nextE, J, hx, b5] <;> omega
          · simp [framePh, a1, a2, a4, h4, RxOk, rxNext, nextMode, nextE, J, hx, b5]
        · have b2 : ¬ (3 * n ≤ e - 1 + 3) := by omega
          have b3 : ¬ (n ≤ e - 1 + 3) := by omega
          have b4 : ¬ (e - 1 + 4 = n) := by omega
          by_cases h4 : e + 4 = n
          · simp [framePh, a1, a2, a4, h4, RxOk, rxNext, nextMode, nextE, he, J, hx, b2, b3, b4] <;> omega
          · simp [framePh, a1, a2, a4, h4, RxOk, rxNext, nextMode, nextE, he, J, hx, b2, b3, b4]

/-- byte accepted by the serializer but not yet latched by the receive FSM -/
def pendRx (m : Mode) (ph : RxPh) : List Nat :=
  match ph with
  | .busy b _ _ => [b % 256]
  | _ =>
    match m with
    | .wait b => [b % 256]
    | .frame b i => if i = 0 then [b % 256] else []
    | _ => []

theorem pendRx_step (n : Nat) (hn : 2 ≤ n) (m : Mode) (e valid v : Nat) (ph : RxPh) (wf : m.wf) (lt : e < 2 * n)
    (hJ : J n m e ph) :
    pendRx m ph ++ (accOf m valid v).toList.map (· % 256) =
      (rxNext n ph (serOf n m e).tx (byteOf m)).2.toList ++
        pendRx (nextMode m e valid v) (rxNext n ph (serOf n m e).tx (byteOf m)).1 := by
  cases m with
  | gap tx j =>
    simp only [J] at hJ
    rcases hJ with ⟨h1, h2⟩ | ⟨h1, h2, ⟨h3, b, h4⟩ | ⟨h3, h4⟩ | ⟨h3, h4⟩⟩
    · subst h1; subst h2; simp [pendRx, accOf, serOf, rxNext, nextMode]
    · subst h1; subst h2; subst h3; subst h4
      simp [pendRx, accOf, serOf, rxNext, nextMode, fb, nextE]
    · subst h1; subst h2; subst h3; subst h4
      simp [pendRx, accOf, serOf, rxNext, nextMode, nextE]
    · subst h1; subst h2; subst h4
      simp [pendRx, accOf, serOf, rxNext, nextMode, nextE]
  | ready j =>
    simp only [J] at hJ
    rcases hJ with ⟨z, hz, h⟩ | ⟨h1, h2, h3⟩
    · subst h
      by_cases hv : valid = 0 <;> simp [pendRx, accOf, serOf, rxNext, nextMode, hz, hv]
    · subst h3
      by_cases hv : valid = 0 <;> simp [pendRx, accOf, serOf, rxNext, nextMode, hv]
  | wait b =>
    simp only [J] at hJ
    subst hJ
    by_cases he : e = 0
    · subst he
      have : nextE n 0 = 2 * n - 1 := by simp [nextE]
      simp [pendRx, accOf, serOf, rxNext, nextMode, this, framePh] <;> omega
    · simp [pendRx, accOf, serOf, rxNext, nextMode, he]
  | frame b i =>
    simp only [Mode.wf] at wf
    simp only [J] at hJ
    subst hJ
    rw [tx_line n b i e wf]
    simp only [byteOf]
    have hfb := fb_le b i
    have hfbp : fbPrev b i ≤ 1 := by unfold fbPrev; split; omega; exact fb_le _ _
    have hcases : (i = 0 ∧ e = 2 * n - 1) ∨ (i = 0 ∧ e = 2 * n - 2) ∨
        (¬ (i = 0 ∧ 2 * n ≤ e + 2) ∧ 3 * n ≤ e + 3) ∨
        (¬ (i = 0 ∧ 2 * n ≤ e + 2) ∧ e + 3 = n) ∨
        (¬ (i = 0 ∧ 2 * n ≤ e + 2) ∧ n < e + 3 ∧ e + 3 < 3 * n ∧ e ≠ 0) ∨
        (¬ (i = 0 ∧ 2 * n ≤ e + 2) ∧ n < e + 3 ∧ e + 3 < 3 * n ∧ e = 0) ∨
        (e + 3 < n) := by omega
    rcases hcases with ⟨hi, he⟩ | ⟨hi, he⟩ | ⟨h0, h1⟩ | ⟨h0, h1⟩ | ⟨h0, h1, h2, h3⟩ | ⟨h0, h1, h2, h3⟩ | h1
    · -- start bit, first cycle: line still high, receiver idle
      subst hi; subst he
      have a1 : 2 * n ≤ 2 * n - 1 + 2 := by omega
      have a2 : ¬ (2 * n - 1 = 0) := by omega
      have a3 : 2 * n ≤ 2 * n - 1 - 1 + 2 := by omega
      simp [framePh, a1, a2, a3, pendRx, accOf, rxNext, nextMode, nextE, fbPrev] <;> omega
    · -- the falling edge is seen
      subst hi; subst he
      have a2 : ¬ (2 * n - 2 = 0) := by omega
      have a3 : ¬ (2 * n - 2 = 2 * n - 1) := by omega
      have a4 : ¬ (2 * n ≤ 2 * n - 2 - 1 + 2) := by omega
      have a5 : ¬ (3 * n ≤ 2 * n - 2 - 1 + 3) := by omega
      have a6 : n ≤ 2 * n - 2 - 1 + 3 := by omega
      have a7 : 2 * n - 2 - 1 + 3 - n = n := by omega
      have a8 : 2 * n ≤ 2 * n - 2 + 2 := by omega
      simp [framePh, a2, a3, a4, a5, a6, a7, a8, pendRx, accOf, rxNext, nextMode, nextE, fb]
    · -- n = 2: sample of bit i-1 in the first cycle of bit i
      have hn2 : n = 2 := by omega
      subst hn2
      have he : e = 3 := by omega
      subst he
      have hi0 : ¬ (i = 0) := by omega
      have hfp : fbPrev b i = fb b (i - 1) := by simp [fbPrev, hi0]
      have a1 : i - 1 < 9 := by omega
      have a2 : i - 1 + 1 = i := by omega
      simp [framePh, hi0, pendRx, accOf, rxNext, nextMode, nextE, hfp, a1, a2] <;> omega
    · -- the sampling cycle of bit i (n ≥ 3)
      have he : e = n - 3 := by omega
      have hn3 : 3 ≤ n := by omega
      subst he
      have a1 : ¬ (3 * n ≤ n - 3 + 3) := by omega
      have a2 : n ≤ n - 3 + 3 := by omega
      have a3 : n - 3 + 3 - n = 0 := by omega
      have a4 : ¬ (n - 3 = 2 * n - 1) := by omega
      simp only [framePh, h0, a1, a2, a3, a4, if_false, if_true, rxNext, ne_eq, not_true_eq_false]
      by_cases h3 : n = 3
      · subst h3
        by_cases h9 : i < 9
        · have b1 : ¬ (i + 1 = 0) := by omega
          simp [pendRx, accOf, nextMode, nextE, h9, framePh, b1] <;> omega
        · have : i = 9 := by omega
          subst this
          simp [pendRx, accOf, nextMode, nextE] <;> omega
      · have b0 : ¬ (n - 3 = 0) := by omega
        have b1 : ¬ (i = 0 ∧ 2 * n ≤ n - 3 - 1 + 2) := by omega
        have b2 : ¬ (3 * n ≤ n - 3 - 1 + 3) := by omega
        have b3 : ¬ (n ≤ n - 3 - 1 + 3) := by omega
        have b4 : n - 3 - 1 + 3 + n = 2 * n - 1 := by omega
        have b5 : n - 3 - 1 + 4 = n := by omega
        by_cases h9 : i < 9
        · simp [pendRx, accOf, nextMode, nextE, b0, h9, framePh, b1, b2, b3, b4] <;> omega
        · have : i = 9 := by omega
          subst this
          simp [pendRx, accOf, nextMode, nextE, b0, framePh, b2, b3, b5] <;> omega
    · -- waiting for the sampling cycle of bit i
      have a1 : ¬ (3 * n ≤ e + 3) := by omega
      have a2 : n ≤ e + 3 := by omega
      have a3 : ¬ (e + 3 - n = 0) := by omega
      have b1 : ¬ (i = 0 ∧ 2 * n ≤ e - 1 + 2) := by omega
      have b2 : ¬ (3 * n ≤ e - 1 + 3) := by omega
      have b3 : n ≤ e - 1 + 3 := by omega
      have b4 : e - 1 + 3 - n = e + 3 - n - 1 := by omega
      simp [framePh, h0, a1, a2, a3, pendRx, accOf, rxNext, nextMode, nextE, h3, b1, b2, b3, b4] <;> omega
    · -- n = 2, pulse cycle: the sample comes with the first cycle of the next bit (or of the gap)
      subst h3
      have hn2 : n = 2 := by omega
      subst hn2
      by_cases h9 : i < 9
      · have b1 : ¬ (i + 1 = 0) := by omega
        simp [framePh, h0, pendRx, accOf, rxNext, nextMode, nextE, h9, b1] <;> omega
      · have : i = 9 := by omega
        subst this
        simp [framePh, pendRx, accOf, rxNext, nextMode, nextE] <;> omega
    · -- after the sampling cycle (n ≥ 4)
      have a0 : ¬ (i = 0 ∧ 2 * n ≤ e + 2) := by omega
      have a1 : ¬ (3 * n ≤ e + 3) := by omega
      have a2 : ¬ (n ≤ e + 3) := by omega
      have a4 : ¬ (e = 2 * n - 1) := by omega
      by_cases h9 : i < 9
      · have a3 : ¬ (e + 3 + n = 0) := by omega
        by_cases he : e = 0
        · subst he
          have b1 : ¬ (i + 1 = 0) := by omega
          have b2 : ¬ (3 * n ≤ 2 * n - 1 + 3) := by omega
          have b3 : n ≤ 2 * n - 1 + 3 := by omega
          have b4 : 2 * n - 1 + 3 - n = 3 + n - 1 := by omega
          have a0' : ¬ (i = 0 ∧ 2 * n ≤ 2) := by omega
          simp [framePh, a0', a1, a2, a4, h9, a3, pendRx, accOf, rxNext, nextMode, nextE, b1, b2, b3, b4]
        · have b1 : ¬ (i = 0 ∧ 2 * n ≤ e - 1 + 2) := by omega
          have b2 : ¬ (3 * n ≤ e - 1 + 3) := by omega
          have b3 : ¬ (n ≤ e - 1 + 3) := by omega
          have b4 : e - 1 + 3 + n = e + 3 + n - 1 := by omega
          simp [framePh, a0, a1, a2, a4, h9, a3, pendRx, accOf, rxNext, nextMode, nextE, he, b1, b2, b3, b4] <;> omega
      · have : i = 9 := by omega
        subst this
        have hx : fb b 9 = 1 := by simp [fb]
        by_cases he : e = 0
        · subst he
          have b5 : 4 ≤ n := by omega
          by_cases h4 : 0 + 4 = n
          · simp [framePh, a1, a2, a4, h4, pendRx, accOf, rxNext, nextMode, nextE, hx, b5] <;> omega
          · simp [framePh, a1, a2, a4, h4, pendRx, accOf, rxNext, nextMode, nextE, hx, b5]
        · have b2 : ¬ (3 * n ≤ e - 1 + 3) := by omega
          have b3 : ¬ (n ≤ e - 1 + 3) := by omega
          have b4 : ¬ (e - 1 + 4 = n) := by omega
          by_cases h4 : e + 4 = n
          · simp [framePh, a1, a2, a4, h4, pendRx, accOf, rxNext, nextMode, nextE, he, hx, b2, b3, b4] <;> omega
          · simp [framePh, a1, a2, a4, h4, pendRx, accOf, rxNext, nextMode, nextE, he, hx, b2, b3, b4]

end C17
