import Py4hwV.Proofs.C17Tx
/-
  C17 — where the serializer is k cycles after a byte was accepted (closed form), for ser_frame.
-/
set_option linter.unusedSimpArgs false
namespace C17
open Uart

def posRun (n : Nat) : Mode → Nat → List (Nat × Nat) → Mode × Nat
  | m, e, [] => (m, e)
  | m, e, (valid, v) :: is => posRun n (nextMode m e valid v) (nextE n e) is

theorem pos_inv (n : Nat) (hn : 2 ≤ n) (ins : List (Nat × Nat)) :
    ∀ (s : TxN) (m : Mode) (e : Nat), TxInv n s m e →
      TxInv n (TxN.run n s ins) (posRun n m e ins).1 (posRun n m e ins).2 ∧
        TxSide.run n s.toTx ins = (TxN.run n s ins).toTx := by
  induction ins with
  | nil => intro s m e h; exact ⟨h, rfl⟩
  | cons i is ih =>
    intro s m e h
    obtain ⟨valid, v⟩ := i
    have h' := tx_inv_step n hn s m e valid v h
    obtain ⟨a, b⟩ := ih _ _ _ h'
    exact ⟨a, by simp only [TxSide.run, TxN.run, tx_step_eq]; exact b⟩

/-- position k steps after the accepting step left the serializer in (wait b, e1) -/
def fpos (n b e1 k : Nat) : Mode × Nat :=
  if k ≤ e1 then (Mode.wait b, e1 - k)
  else if k - e1 - 1 < 10 * (2 * n) then (Mode.frame b ((k - e1 - 1) / (2 * n)), 2 * n - 1 - (k - e1 - 1) % (2 * n))
  else (Mode.gap 1 (b / 2 ^ 8), 2 * n - 1)

theorem fpos_step (n : Nat) (hn : 2 ≤ n) (b e1 k valid v : Nat) (hk : k ≤ e1 + 10 * (2 * n)) :
    (nextMode (fpos n b e1 k).1 (fpos n b e1 k).2 valid v, nextE n (fpos n b e1 k).2) = fpos n b e1 (k + 1) := by
  have hP : 0 < 2 * n := by omega
  by_cases h1 : k < e1
  · have a1 : k ≤ e1 := by omega
    have a2 : k + 1 ≤ e1 := by omega
    have a3 : ¬ (e1 - k = 0) := by omega
    simp [fpos, a1, a2, nextMode, nextE, a3]; omega
  by_cases h2 : k = e1
  · subst h2
    have a2 : ¬ (k + 1 ≤ k) := by omega
    have a3 : k + 1 - k - 1 = 0 := by omega
    simp [fpos, a2, a3, nextMode, nextE]; omega
  · have a1 : ¬ (k ≤ e1) := by omega
    have a2 : ¬ (k + 1 ≤ e1) := by omega
    have a3 : k - e1 - 1 < 10 * (2 * n) := by omega
    have a4 : k + 1 - e1 - 1 = (k - e1 - 1) + 1 := by omega
    simp only [fpos, a1, a2, if_false, a4]
    generalize hj : k - e1 - 1 = j at *
    have hdm := Nat.div_add_mod j (2 * n)
    have hr : j % (2 * n) < 2 * n := Nat.mod_lt _ hP
    have hi : j / (2 * n) < 10 := (Nat.div_lt_iff_lt_mul hP).mpr a3
    generalize hq : j / (2 * n) = i at *
    generalize hrr : j % (2 * n) = r at *
    by_cases hl : r = 2 * n - 1
    · -- last cycle of the bit: pulse
      have e0 : 2 * n - 1 - r = 0 := by omega
      have hm : 2 * n * (i + 1) = 2 * n * i + 2 * n := Nat.mul_succ _ _
      by_cases h9 : i < 9
      · have hlt : j + 1 < 10 * (2 * n) := by
          have : 2 * n * (i + 1) ≤ 2 * n * 9 := Nat.mul_le_mul_left _ (by omega)
          omega
        have hd : (j + 1) / (2 * n) = i + 1 ∧ (j + 1) % (2 * n) = 0 :=
          (Nat.div_mod_unique hP).mpr ⟨by omega, hP⟩
        simp [fpos, a1, a2, a3, a4, hlt, hd.1, hd.2, hq, hrr, e0, nextMode, nextE, h9]
      · have i9 : i = 9 := by omega
        subst i9
        have hlt : ¬ (j + 1 < 10 * (2 * n)) := by omega
        simp [fpos, a1, a2, a3, a4, hlt, hq, hrr, e0, nextMode, nextE]
    · have e0 : ¬ (2 * n - 1 - r = 0) := by omega
      have hlt : j + 1 < 10 * (2 * n) := by
        have : 2 * n * i ≤ 2 * n * 9 := Nat.mul_le_mul_left _ (by omega)
        omega
      have hd : (j + 1) / (2 * n) = i ∧ (j + 1) % (2 * n) = r + 1 :=
        (Nat.div_mod_unique hP).mpr ⟨by omega, by omega⟩
      simp [fpos, a1, a2, a3, a4, hlt, hd.1, hd.2, hq, hrr, e0, nextMode, nextE]; omega

theorem posRun_fpos (n : Nat) (hn : 2 ≤ n) (b e1 : Nat) (ins : List (Nat × Nat)) :
    ∀ k, k + ins.length ≤ e1 + 10 * (2 * n) + 1 →
      posRun n (fpos n b e1 k).1 (fpos n b e1 k).2 ins = fpos n b e1 (k + ins.length) := by
  induction ins with
  | nil => intro k _; rfl
  | cons i is ih =>
    intro k hk
    obtain ⟨valid, v⟩ := i
    simp only [List.length_cons] at hk
    have hs := fpos_step n hn b e1 k valid v (by omega)
    have e1' := congrArg Prod.fst hs
    have e2' := congrArg Prod.snd hs
    simp only at e1' e2'
    simp only [posRun, e1', e2', List.length_cons]
    rw [ih (k + 1) (by omega)]
    congr 1; omega

end C17
