import Py4hwV.Props.C04
/-
  C04 completeness (partial): the swap sorter `Sched.sortLoop` terminates successfully on every netlist that has
  a ranking (rank strictly increasing along every dependency edge = acyclic), within `n(n-1)/2 + 1` passes.

  Potential: the number of rank-inversions of the list.  Every swap of the sorter exchanges the leaf `u` at position
  `i` with its first dependent `w` at position `pos < i`, and `rk u < rk w`; exchanging an inverted pair strictly
  decreases the number of inversions, whatever stands between the two.
-/
namespace C04Complete
open Sched C04

/-! ## inversions w.r.t. a key -/

/-- number of elements of `ys` with key strictly smaller than `k` -/
def below (rk : Nat → Nat) (k : Nat) (ys : List Nat) : Nat := ys.countP (fun y => rk y < k)
/-- number of elements of `ys` with key strictly greater than `k` -/
def above (rk : Nat → Nat) (k : Nat) (ys : List Nat) : Nat := ys.countP (fun y => k < rk y)

/-- inversions: pairs (earlier x, later y) with rk y < rk x -/
def inv (rk : Nat → Nat) : List Nat → Nat
  | [] => 0
  | x :: xs => below rk (rk x) xs + inv rk xs

theorem below_append (rk : Nat → Nat) (k : Nat) (a b : List Nat) :
    below rk k (a ++ b) = below rk k a + below rk k b := by simp [below, List.countP_append]
theorem above_append (rk : Nat → Nat) (k : Nat) (a b : List Nat) :
    above rk k (a ++ b) = above rk k a + above rk k b := by simp [above, List.countP_append]
theorem below_cons (rk : Nat → Nat) (k x : Nat) (b : List Nat) :
    below rk k (x :: b) = below rk k b + (if rk x < k then 1 else 0) := by simp [below, List.countP_cons]
theorem above_cons (rk : Nat → Nat) (k x : Nat) (b : List Nat) :
    above rk k (x :: b) = above rk k b + (if k < rk x then 1 else 0) := by simp [above, List.countP_cons]

theorem below_le_length (rk : Nat → Nat) (k : Nat) (ys : List Nat) : below rk k ys ≤ ys.length := by
  unfold below; exact List.countP_le_length

theorem below_mono (rk : Nat → Nat) (k k' : Nat) (h : k ≤ k') (ys : List Nat) : below rk k ys ≤ below rk k' ys := by
  induction ys with
  | nil => simp [below]
  | cons y ys ih =>
    rw [below_cons, below_cons]
    by_cases h1 : rk y < k
    · have : rk y < k' := by omega
      simp [h1, this]; exact ih
    · by_cases h2 : rk y < k' <;> simp [h1, h2] <;> omega

theorem above_mono (rk : Nat → Nat) (k k' : Nat) (h : k ≤ k') (ys : List Nat) : above rk k' ys ≤ above rk k ys := by
  induction ys with
  | nil => simp [above]
  | cons y ys ih =>
    rw [above_cons, above_cons]
    by_cases h1 : k' < rk y
    · have : k < rk y := by omega
      simp [h1, this]; exact ih
    · by_cases h2 : k < rk y <;> simp [h1, h2] <;> omega

/-- inversions of a concatenation, with the cross term written from the point of view of one middle element -/
theorem inv_append_cons (rk : Nat → Nat) (a : List Nat) (x : Nat) (b : List Nat) :
    inv rk (a ++ x :: b) = inv rk (a ++ b) + above rk (rk x) a + below rk (rk x) b := by
  induction a with
  | nil => simp [inv, above]; omega
  | cons y a ih =>
    simp only [List.cons_append, inv]
    rw [ih, below_append, below_append, below_cons, above_cons]
    omega

theorem inv_le (rk : Nat → Nat) (l : List Nat) : inv rk l ≤ l.length * (l.length - 1) / 2 := by
  induction l with
  | nil => simp [inv]
  | cons x xs ih =>
    simp only [inv, List.length_cons, Nat.add_sub_cancel]
    have h1 := below_le_length rk (rk x) xs
    have h2 : xs.length * (xs.length - 1) / 2 + xs.length = (xs.length + 1) * xs.length / 2 := by
      cases hn : xs.length with
      | zero => simp
      | succ m =>
        simp only [Nat.add_sub_cancel]
        have : (m + 1 + 1) * (m + 1) = (m + 1) * m + 2 * (m + 1) := by
          simp only [Nat.add_mul, Nat.mul_add]; omega
        rw [this, Nat.add_mul_div_left _ _ (by decide : 0 < 2)]
    omega

/-- exchanging an inverted pair strictly decreases the number of inversions -/
theorem inv_swap_lt (rk : Nat → Nat) (a b c : List Nat) (w u : Nat) (h : rk u < rk w) :
    inv rk (a ++ u :: (b ++ w :: c)) < inv rk (a ++ w :: (b ++ u :: c)) := by
  have e1 : a ++ u :: (b ++ w :: c) = (a ++ u :: b) ++ w :: c := by simp
  have e2 : a ++ w :: (b ++ u :: c) = (a ++ w :: b) ++ u :: c := by simp
  have e3 : (a ++ u :: b) ++ c = a ++ u :: (b ++ c) := by simp
  have e4 : (a ++ w :: b) ++ c = a ++ w :: (b ++ c) := by simp
  rw [e1, e2, inv_append_cons, inv_append_cons, e3, e4, inv_append_cons, inv_append_cons]
  rw [above_append, above_append, above_cons, above_cons, below_append, below_append]
  have m1 := below_mono rk (rk u) (rk w) (by omega) b
  have m2 := above_mono rk (rk u) (rk w) (by omega) b
  have m3 := below_mono rk (rk u) (rk w) (by omega) c
  have m4 := above_mono rk (rk u) (rk w) (by omega) a
  have hn : ¬ rk w < rk u := by omega
  simp only [h, hn, if_true, if_false]
  omega

/-! ## one swap of the sorter, structurally -/

theorem swapAt_struct (a b c : List Nat) (w u : Nat) :
    swapAt (a ++ w :: (b ++ u :: c)) a.length (a.length + 1 + b.length) = a ++ u :: (b ++ w :: c) := by
  unfold swapAt
  have g1 : (a ++ w :: (b ++ u :: c)).getD (a.length + 1 + b.length) 0 = u := by
    simp [List.getD, List.getElem?_append_right, Nat.add_assoc, List.getElem?_cons]
  have g2 : (a ++ w :: (b ++ u :: c)).getD a.length 0 = w := by
    simp [List.getD]
  rw [g1, g2]
  have e : 1 + b.length = b.length + 1 := by omega
  simp [List.set_append_right, Nat.add_assoc, e]

theorem decomp (l : List Nat) (p i : Nat) (hp : p < i) (hi : i < l.length) :
    ∃ a b c, l = a ++ l[p] :: (b ++ l[i] :: c) ∧ a.length = p ∧ a.length + 1 + b.length = i := by
  refine ⟨l.take p, (l.drop (p+1)).take (i - p - 1), l.drop (i+1), ?_, by simp; omega, by simp; omega⟩
  have h1 : l = l.take p ++ l.drop p := (List.take_append_drop p l).symm
  have h2 : l.drop p = l[p] :: l.drop (p+1) := List.drop_eq_getElem_cons (by omega)
  have h3 : l.drop (p+1) = (l.drop (p+1)).take (i-p-1) ++ (l.drop (p+1)).drop (i-p-1) :=
    (List.take_append_drop _ _).symm
  have h4 : (l.drop (p+1)).drop (i-p-1) = l.drop i := by
    rw [List.drop_drop]; congr 1; omega
  have h5 : l.drop i = l[i] :: l.drop (i+1) := List.drop_eq_getElem_cons hi
  rw [h4, h5] at h3
  rw [← h3, ← h2]
  exact h1

theorem ffdp_mem (succs : Nat → List Nat) (l : List Nat) (u pos : Nat) (h : ffdp succs l u = some pos) :
    ∃ v, v ∈ succs u ∧ idx l v = pos := by
  unfold ffdp at h
  cases hs : succs u with
  | nil => rw [hs] at h; cases h
  | cons s0 rest =>
    rw [hs] at h
    simp only [Option.some.injEq] at h
    have key : ∀ (xs : List Nat) (m : Nat), (∃ v, v ∈ s0 :: rest ∧ idx l v = m) → (∀ x, x ∈ xs → x ∈ s0 :: rest) →
        ∃ v, v ∈ s0 :: rest ∧ idx l v = xs.foldl (fun m s => if idx l s < m then idx l s else m) m := by
      intro xs
      induction xs with
      | nil => intro m hm _; simpa using hm
      | cons x xs ih =>
        intro m hm hsub
        simp only [List.foldl]
        apply ih
        · by_cases hx : idx l x < m
          · simp only [hx, if_true]; exact ⟨x, hsub x (by simp), rfl⟩
          · simp only [hx, if_false]; exact hm
        · intro y hy; exact hsub y (by simp [hy])
    have := key (s0 :: rest) (idx l s0) ⟨s0, by simp, rfl⟩ (fun x hx => hx)
    rw [h] at this
    exact this


/-- `rk` strictly increases along every dependency edge between members of `l` -/
def Ranked (succs : Nat → List Nat) (l : List Nat) (rk : Nat → Nat) : Prop :=
  ∀ u, u ∈ l → ∀ w, w ∈ succs u → w ∈ l → rk u < rk w

def flagN (f : Bool) : Nat := if f then 1 else 0

theorem inv_swapAt_lt (rk : Nat → Nat) (l : List Nat) (p i : Nat) (hp : p < i) (hi : i < l.length)
    (h : rk l[i] < rk (l[p]'(by omega))) : inv rk (swapAt l p i) < inv rk l := by
  obtain ⟨a, b, c, e, ha, hb⟩ := decomp l p i hp hi
  have hs := swapAt_struct a b c (l[p]'(by omega)) l[i]
  rw [hb, ha, ← e] at hs
  rw [hs]
  conv => rhs; rw [e]
  exact inv_swap_lt rk a b c _ _ h

theorem passStep_ok (succs : Nat → List Nat) (rk : Nat → Nat) (l0 l : List Nat) (f : Bool) (i : Nat)
    (hr : Ranked succs l0 rk) (hp : l.Perm l0) (hi : i < l.length) :
    ∃ r, passStep succs (some (l, f)) i = some r ∧ r.1.Perm l0 ∧
      inv rk r.1 + flagN r.2 ≤ inv rk l + flagN f := by
  have hgi : l.getD i 0 = l[i] := by simp [List.getD, hi]
  unfold passStep
  simp only
  cases hf : ffdp succs l (l.getD i 0) with
  | none => exact ⟨(l, f), rfl, hp, Nat.le_refl _⟩
  | some pos =>
    simp only
    obtain ⟨v, hv, hidx⟩ := ffdp_mem succs l _ pos hf
    rw [hgi] at hv
    unfold idx at hidx
    subst hidx
    by_cases h1 : List.idxOf v l = i
    · exfalso
      have hlt : List.idxOf v l < l.length := by omega
      have hvl : v ∈ l := List.idxOf_lt_length_iff.mp hlt
      have hget : l[List.idxOf v l] = v := List.getElem_idxOf hlt
      have hvu : l[i] = v := by
        rw [← hget]; simp [h1]
      have hul : l[i] ∈ l := List.getElem_mem hi
      have := hr l[i] (hp.mem_iff.mp hul) v hv (hp.mem_iff.mp hvl)
      rw [hvu] at this
      omega
    · by_cases h2 : List.idxOf v l < i
      · simp only [h1, h2, if_true, if_false]
        have hlt : List.idxOf v l < l.length := by omega
        have hvl : v ∈ l := List.idxOf_lt_length_iff.mp hlt
        have hget : l[List.idxOf v l] = v := List.getElem_idxOf hlt
        have hul : l[i] ∈ l := List.getElem_mem hi
        have hrk := hr l[i] (hp.mem_iff.mp hul) v hv (hp.mem_iff.mp hvl)
        have hlt' := inv_swapAt_lt rk l (List.idxOf v l) i h2 hi (by rw [hget]; exact hrk)
        refine ⟨_, rfl, (swapAt_perm l _ i (by omega) hi).trans hp, ?_⟩
        simp only [flagN, if_true]
        split <;> omega
      · simp only [h1, h2, if_false]
        exact ⟨(l, f), rfl, hp, Nat.le_refl _⟩

theorem fold_ok (succs : Nat → List Nat) (rk : Nat → Nat) (l0 l : List Nat) (f : Bool) (n : Nat)
    (hr : Ranked succs l0 rk) (hp : l.Perm l0) (hn : n ≤ l.length) :
    ∃ r, (List.range n).foldl (passStep succs) (some (l, f)) = some r ∧ r.1.Perm l0 ∧
      inv rk r.1 + flagN r.2 ≤ inv rk l + flagN f := by
  induction n with
  | zero => exact ⟨(l, f), by simp, hp, Nat.le_refl _⟩
  | succ n ih =>
    obtain ⟨r, h1, h2, h3⟩ := ih (by omega)
    rw [List.range_succ, List.foldl_append, h1]
    simp only [List.foldl]
    have hl : r.1.length = l.length := (h2.trans hp.symm).length_eq
    obtain ⟨r', g1, g2, g3⟩ := passStep_ok succs rk l0 r.1 r.2 n hr h2 (by omega)
    exact ⟨r', g1, g2, by omega⟩

theorem sortLoop_complete (succs : Nat → List Nat) (rk : Nat → Nat) (l0 : List Nat) (hr : Ranked succs l0 rk)
    (fuel : Nat) (l : List Nat) (hp : l.Perm l0) (hfuel : inv rk l < fuel) :
    ∃ σ, sortLoop succs fuel l = some σ := by
  induction fuel generalizing l with
  | zero => omega
  | succ fuel ih =>
    unfold sortLoop
    obtain ⟨r, h1, h2, h3⟩ := fold_ok succs rk l0 l false l.length hr hp (Nat.le_refl _)
    unfold onePass
    rw [h1]
    simp only
    cases hf : r.2 with
    | false => exact ⟨r.1, by simp⟩
    | true =>
      simp only [if_true]
      apply ih r.1 h2
      rw [hf] at h3
      simp [flagN] at h3
      omega

/-! ## acyclicity, and the completeness theorems -/

/-- the dependency graph restricted to `l` is acyclic: it has a ranking (a topological numbering) -/
def Acyclic (succs : Nat → List Nat) (l : List Nat) : Prop := ∃ rk : Nat → Nat, Ranked succs l rk

/-- a netlist that has ANY valid evaluation order is acyclic in this sense -/
theorem acyclic_of_schedule (succs : Nat → List Nat) (l σ : List Nat) (hn : l.Nodup) (hp : σ.Perm l)
    (hr : Respects succs σ) : Acyclic succs l := by
  refine ⟨idx σ, ?_⟩
  intro u hu w hw _
  exact edge_order succs σ (hp.nodup_iff.mpr hn) hr u w (hp.mem_iff.mpr hu) hw

/-- no path a → … → z → a among members of `l` (the notion `C04.cyclic_rejected` refutes) -/
def NoCycle (succs : Nat → List Nat) (l : List Nat) : Prop :=
  ∀ a z mid, IsPath succs (a :: (mid ++ [z])) → (∀ x, x ∈ a :: (mid ++ [z]) → x ∈ l) → a ∉ succs z

theorem topoSort_complete (succs : Nat → List Nat) (l : List Nat) (h : Acyclic succs l) (limit : Nat)
    (hl : l.length * (l.length - 1) / 2 < limit) : ∃ σ, topoSort limit succs l = some σ := by
  obtain ⟨rk, hr⟩ := h
  exact sortLoop_complete succs rk l hr limit l (List.Perm.refl _) (Nat.lt_of_le_of_lt (inv_le rk l) hl)

/-! ## no cycle ⇔ a ranking exists -/

theorem isPath_tail (succs : Nat → List Nat) (x : Nat) (r : List Nat) (h : IsPath succs (x :: r)) : IsPath succs r := by
  cases r with
  | nil => trivial
  | cons y r => exact h.2

theorem isPath_right (succs : Nat → List Nat) (p q : List Nat) (h : IsPath succs (p ++ q)) : IsPath succs q := by
  induction p with
  | nil => exact h
  | cons x p ih => exact ih (isPath_tail succs x _ h)

theorem isPath_left (succs : Nat → List Nat) (p q : List Nat) (h : IsPath succs (p ++ q)) : IsPath succs p := by
  induction p with
  | nil => trivial
  | cons x p ih =>
    cases p with
    | nil => trivial
    | cons y p => exact ⟨h.1, ih h.2⟩

/-- a path that repeats a node contains a cycle -/
theorem cycle_of_dup (succs : Nat → List Nat) (p : List Nat) (hp : IsPath succs p) (hd : ¬ p.Nodup) :
    ∃ a z mid, IsPath succs (a :: (mid ++ [z])) ∧ (∀ x, x ∈ a :: (mid ++ [z]) → x ∈ p) ∧ a ∈ succs z := by
  induction p with
  | nil => exact absurd List.nodup_nil hd
  | cons a rest ih =>
    by_cases hmem : a ∈ rest
    · obtain ⟨s, t, e⟩ := List.append_of_mem hmem
      subst e
      rcases List.eq_nil_or_concat s with hs | ⟨s', z, hs⟩
      · subst hs
        refine ⟨a, a, [], ?_, ?_, hp.1⟩
        · exact ⟨hp.1, trivial⟩
        · intro x hx; simp at hx; simp [hx]
      · subst hs
        rw [List.concat_eq_append] at hp
        refine ⟨a, z, s', ?_, ?_, ?_⟩
        · have : a :: (s' ++ [z] ++ a :: t) = (a :: (s' ++ [z])) ++ (a :: t) := by simp
          rw [this] at hp
          exact isPath_left succs _ _ hp
        · intro x hx
          simp at hx ⊢
          rcases hx with h | h | h
          · left; exact h
          · right; left; exact h
          · right; right; left; exact h
        · have : a :: (s' ++ [z] ++ a :: t) = (a :: s') ++ (z :: a :: t) := by simp
          rw [this] at hp
          exact (isPath_right succs _ _ hp).1
    · have hd' : ¬ rest.Nodup := fun h => hd (List.nodup_cons.mpr ⟨hmem, h⟩)
      obtain ⟨a', z, mid, h1, h2, h3⟩ := ih (isPath_tail succs a rest hp) hd'
      exact ⟨a', z, mid, h1, fun x hx => List.mem_cons_of_mem _ (h2 x hx), h3⟩

theorem walk_exists (succs : Nat → List Nat) (l : List Nat)
    (next : ∀ s, s ∈ l → ∃ w, w ∈ succs s ∧ w ∈ l) (k : Nat) :
    ∀ x, x ∈ l → ∃ r, r.length = k ∧ IsPath succs (x :: r) ∧ ∀ y, y ∈ r → y ∈ l := by
  induction k with
  | zero => intro x _; exact ⟨[], rfl, trivial, by simp⟩
  | succ k ih =>
    intro x hx
    obtain ⟨w, hw, hwl⟩ := next x hx
    obtain ⟨r, h1, h2, h3⟩ := ih w hwl
    refine ⟨w :: r, by simp [h1], ⟨hw, h2⟩, ?_⟩
    intro y hy
    simp at hy
    rcases hy with rfl | hy
    · exact hwl
    · exact h3 y hy

theorem sink_exists (succs : Nat → List Nat) (l : List Nat) (hne : l ≠ []) (hc : NoCycle succs l) :
    ∃ s, s ∈ l ∧ ∀ w, w ∈ succs s → w ∉ l := by
  apply Classical.byContradiction
  intro hno
  have next : ∀ s, s ∈ l → ∃ w, w ∈ succs s ∧ w ∈ l := by
    intro s hs
    apply Classical.byContradiction
    intro h
    apply hno
    refine ⟨s, hs, ?_⟩
    intro w hw hwl
    exact h ⟨w, hw, hwl⟩
  obtain ⟨x0, hx0⟩ := List.exists_mem_of_ne_nil l hne
  obtain ⟨r, h1, h2, h3⟩ := walk_exists succs l next l.length x0 hx0
  have hsub : ∀ y, y ∈ x0 :: r → y ∈ l := by
    intro y hy; simp at hy; rcases hy with rfl | hy
    · exact hx0
    · exact h3 y hy
  have hd : ¬ (x0 :: r).Nodup := by
    intro hnd
    have := List.Nodup.length_le_of_subset hnd (fun y hy => hsub y hy)
    simp [h1] at this
    omega
  obtain ⟨a, z, mid, p1, p2, p3⟩ := cycle_of_dup succs (x0 :: r) h2 hd
  exact hc a z mid p1 (fun x hx => hsub x (p2 x hx)) p3

theorem le_sum_map (rk : Nat → Nat) (l : List Nat) (u : Nat) (h : u ∈ l) : rk u ≤ (l.map rk).sum := by
  induction l with
  | nil => cases h
  | cons x l ih =>
    simp at h ⊢
    rcases h with rfl | h
    · omega
    · have := ih h; omega

theorem acyclic_of_noCycle_aux (succs : Nat → List Nat) (n : Nat) :
    ∀ l : List Nat, l.length = n → l.Nodup → NoCycle succs l → Acyclic succs l := by
  induction n with
  | zero =>
    intro l hl _ _
    have : l = [] := List.length_eq_zero_iff.mp hl
    subst this
    exact ⟨fun _ => 0, by intro u hu; cases hu⟩
  | succ n ih =>
    intro l hl hn hc
    have hne : l ≠ [] := by intro e; subst e; simp at hl
    obtain ⟨s, hs, hsink⟩ := sink_exists succs l hne hc
    have hc' : NoCycle succs (l.erase s) := by
      intro a z mid hp hin
      exact hc a z mid hp (fun x hx => List.mem_of_mem_erase (hin x hx))
    obtain ⟨rk', hr'⟩ := ih (l.erase s) (by rw [List.length_erase_of_mem hs, hl]; rfl) (hn.erase s) hc'
    refine ⟨fun u => if u = s then ((l.erase s).map rk').sum + 1 else rk' u, ?_⟩
    intro u hu w hw hwl
    have hus : u ≠ s := by intro e; subst e; exact hsink w hw hwl
    have hu' : u ∈ l.erase s := (hn.mem_erase_iff).mpr ⟨hus, hu⟩
    simp only [hus, if_false]
    by_cases hws : w = s
    · simp only [hws, if_true]
      have := le_sum_map rk' (l.erase s) u hu'
      omega
    · simp only [hws, if_false]
      exact hr' u hu' w hw ((hn.mem_erase_iff).mpr ⟨hws, hwl⟩)

/-- a netlist without dependency cycles has a ranking -/
theorem acyclic_of_noCycle (succs : Nat → List Nat) (l : List Nat) (hn : l.Nodup) (hc : NoCycle succs l) :
    Acyclic succs l := acyclic_of_noCycle_aux succs l.length l rfl hn hc

/-- and conversely -/
theorem noCycle_of_acyclic (succs : Nat → List Nat) (l : List Nat) (h : Acyclic succs l) : NoCycle succs l := by
  obtain ⟨rk, hr⟩ := h
  intro a z mid hp hin hclose
  have key : ∀ (rest : List Nat) (a : Nat), IsPath succs (a :: rest) → (∀ x, x ∈ a :: rest → x ∈ l) →
      ∀ b, b ∈ rest → rk a < rk b := by
    intro rest
    induction rest with
    | nil => intro a _ _ b hb; cases hb
    | cons c rest ih =>
      intro a hp hin b hb
      have hac : rk a < rk c := hr a (hin a (by simp)) c hp.1 (hin c (by simp))
      simp at hb
      rcases hb with rfl | hb
      · exact hac
      · have := ih c hp.2 (fun x hx => hin x (List.mem_cons_of_mem _ hx)) b hb
        omega
  have h1 := key (mid ++ [z]) a hp hin z (by simp)
  have h2 := hr z (hin z (by simp)) a hclose (hin a (by simp))
  omega

end C04Complete
