import Py4hwV.Proofs.C11Basic
/-
  C11: every API call keeps the registered drivers and children (`Keeps`), and keeps the registered wires
  (`KeepsW`) — except that the rename family drops the key (parent, name) of the wire it moves.
-/
namespace Build

theorem keeps_modWire (g : G) (w : Nat) (f : Wire → Wire)
    (hf : ∀ wr p, g.wires[w]? = some wr → wr.source = some p → (f wr).source = some p) : Keeps g (modWire g w f) := by
  constructor
  · intro w' p h
    simp only [srcOf, modWire_wires, List.getElem?_modify] at *
    by_cases e : w = w'
    · subst e
      cases hw : g.wires[w]? with
      | none => simp [hw] at h
      | some wr => simp [hw] at h ⊢; exact hf wr p hw h
    · simp [e]; exact h
  · intro o n c h; exact h

theorem keeps_modObj (g : G) (o : Nat) (f : Obj → Obj)
    (hf : ∀ ob n c, g.objs[o]? = some ob → dget ob.children n = some c → dget (f ob).children n = some c) :
    Keeps g (modObj g o f) := by
  constructor
  · intro w p h; exact h
  · intro o' n c h
    simp only [childOf, modObj_objs, List.getElem?_modify] at *
    by_cases e : o = o'
    · subst e
      cases ho : g.objs[o]? with
      | none => simp [ho] at h
      | some ob => simp [ho] at h ⊢; exact hf ob n c ho h
    · simp [e]; exact h

theorem keepsW_modObj (ex : Option (Nat × String)) (g : G) (o : Nat) (f : Obj → Obj)
    (hf : ∀ ob n w, g.objs[o]? = some ob → some (o, n) ≠ ex → dget ob.wires n = some w → dget (f ob).wires n = some w) :
    KeepsW ex g (modObj g o f) := by
  intro o' n w hne h
  simp only [wireOf, modObj_objs, List.getElem?_modify] at *
  by_cases e : o = o'
  · subst e
    cases ho : g.objs[o]? with
    | none => simp [ho] at h
    | some ob => simp [ho] at h ⊢; exact hf ob n w ho hne h
  · simp [e]; exact h

theorem keeps_pushPort (g : G) (pt : Port) : Keeps g (pushPort g pt) := keeps_of_eq rfl rfl
theorem keepsW_pushPort (g : G) (pt : Port) : KeepsW none g (pushPort g pt) := keepsW_of_eq rfl

/-! #### the primitive calls -/

theorem regSource_keeps (g : G) (w pid : Nat) : Keeps g (regSource g w pid).1 := by
  unfold regSource
  split
  · exact Keeps.refl g
  · rename_i wr hw
    split
    · exact keeps_modWire g w _ (fun wr p _ h => h)
    · split
      · exact Keeps.refl g
      · rename_i hs
        apply keeps_modWire
        intro wr' p hw' h
        rw [hw] at hw'; cases hw'
        simp [h] at hs

theorem regSource_keepsW (g : G) (w pid : Nat) : KeepsW none g (regSource g w pid).1 := by
  unfold regSource
  split
  · exact KeepsW.refl _ g
  · split
    · exact keepsW_of_eq rfl
    · split
      · exact KeepsW.refl _ g
      · exact keepsW_of_eq rfl

theorem regSink_keeps (g : G) (w pid : Nat) : Keeps g (regSink g w pid).1 := by
  unfold regSink
  split
  · exact Keeps.refl g
  · exact keeps_modWire g w _ (fun wr p _ h => h)

theorem regSink_keepsW (g : G) (w pid : Nat) : KeepsW none g (regSink g w pid).1 := by
  unfold regSink
  split
  · exact KeepsW.refl _ g
  · exact keepsW_of_eq rfl

theorem appendWire_keeps (g : G) (p w : Nat) : Keeps g (appendWire g p w).1 := by
  unfold appendWire
  split
  · split
    · exact Keeps.refl g
    · exact keeps_modObj g p _ (fun ob n c _ h => h)
  · exact Keeps.refl g

theorem appendWire_keepsW (g : G) (p w : Nat) : KeepsW none g (appendWire g p w).1 := by
  unfold appendWire
  split
  · rename_i po wr hp hw
    split
    · exact KeepsW.refl _ g
    · rename_i hh
      apply keepsW_modObj
      intro ob n w' ho _ h
      rw [hp] at ho; cases ho
      have hn : dget po.wires wr.name = none := by
        rw [← dhas_eq_false]; simpa using hh
      by_cases e : n = wr.name
      · subst e; rw [hn] at h; cases h
      · simp only; rw [dget_dset_ne _ _ _ _ e]; exact h
  · exact KeepsW.refl _ g

theorem delWireKey_keeps (g : G) (w : Nat) : Keeps g (delWireKey g w).1 := by
  unfold delWireKey
  split
  · exact Keeps.refl g
  · split
    · exact Keeps.refl g
    · split
      · exact keeps_modObj g _ _ (fun ob n c _ h => h)
      · exact Keeps.refl g

/-- `del self.parent._wires[self.name]` drops exactly the key (parent, name) of the wire -/
theorem delWireKey_keepsW (g : G) (w : Nat) (wr : Wire) (hw : g.wires[w]? = some wr) :
    KeepsW (some (wr.parent, wr.name)) g (delWireKey g w).1 := by
  unfold delWireKey
  rw [hw]
  simp only
  split
  · exact KeepsW.refl _ g
  · split
    · apply keepsW_modObj
      intro ob n w' _ hne h
      have e : n ≠ wr.name := by
        intro e; apply hne; rw [e]
      simp only; rw [dget_ddel_ne _ _ _ e]; exact h
    · exact KeepsW.refl _ g

theorem delWireKey_keepsW_bad (g : G) (w : Nat) (hw : g.wires[w]? = none) : (delWireKey g w).1 = g := by
  unfold delWireKey; rw [hw]

theorem delWireKey_wires (g : G) (w : Nat) : (delWireKey g w).1.wires = g.wires := by
  unfold delWireKey
  split
  · rfl
  · split
    · rfl
    · split <;> rfl

/-! #### Logic / Wire / port calls -/

theorem newLogic_keeps (g : G) (p : Option Nat) (n : String) (pr : Bool) : Keeps g (newLogic g p n pr).1 := by
  unfold newLogic
  split
  · constructor
    · intro w q h; exact h
    · intro o m c h
      simp only [childOf] at *
      cases ho : g.objs[o]? with
      | none => simp [ho] at h
      | some ob =>
        have hlt : o < g.objs.length := by
          rcases Nat.lt_or_ge o g.objs.length with h' | h'
          · exact h'
          · rw [List.getElem?_eq_none h'] at ho; cases ho
        rw [List.getElem?_append_left hlt]; exact h
  · rename_i p
    split
    · exact Keeps.refl g
    · rename_i po hp
      split
      · exact Keeps.refl g
      · rename_i hh
        have hn : dget po.children n = none := by
          rw [← dhas_eq_false]; simpa using hh
        constructor
        · intro w q h; exact h
        · intro o m c h
          simp only [childOf] at *
          cases ho : g.objs[o]? with
          | none => simp [ho] at h
          | some ob =>
            have hlt : o < (g.objs.modify p fun po => { po with children := dset po.children n g.objs.length }).length := by
              rw [List.length_modify]
              rcases Nat.lt_or_ge o g.objs.length with h' | h'
              · exact h'
              · rw [List.getElem?_eq_none h'] at ho; cases ho
            rw [List.getElem?_append_left hlt, List.getElem?_modify]
            simp [ho] at h ⊢
            by_cases e : p = o
            · subst e
              rw [hp] at ho; cases ho
              simp
              by_cases e2 : m = n
              · subst e2; rw [hn] at h; cases h
              · rw [dget_dset_ne _ _ _ _ e2]; exact h
            · simp [e]; exact h

theorem newLogic_keepsW (g : G) (p : Option Nat) (n : String) (pr : Bool) : KeepsW none g (newLogic g p n pr).1 := by
  unfold newLogic
  split
  · intro o m w _ h
    simp only [wireOf] at *
    cases ho : g.objs[o]? with
    | none => simp [ho] at h
    | some ob =>
      have hlt : o < g.objs.length := by
        rcases Nat.lt_or_ge o g.objs.length with h' | h'
        · exact h'
        · rw [List.getElem?_eq_none h'] at ho; cases ho
      rw [List.getElem?_append_left hlt]; exact h
  · rename_i p
    split
    · exact KeepsW.refl _ g
    · split
      · exact KeepsW.refl _ g
      · intro o m w _ h
        simp only [wireOf] at *
        cases ho : g.objs[o]? with
        | none => simp [ho] at h
        | some ob =>
          have hlt : o < (g.objs.modify p fun po => { po with children := dset po.children n g.objs.length }).length := by
            rw [List.length_modify]
            rcases Nat.lt_or_ge o g.objs.length with h' | h'
            · exact h'
            · rw [List.getElem?_eq_none h'] at ho; cases ho
          rw [List.getElem?_append_left hlt, List.getElem?_modify]
          simp [ho] at h ⊢
          by_cases e : p = o
          · simp [e]; exact h
          · simp [e]; exact h

theorem keeps_pushWire (g : G) (x : Wire) : Keeps g { g with wires := g.wires ++ [x] } := by
  constructor
  · intro w p h
    simp only [srcOf] at *
    cases hw : g.wires[w]? with
    | none => simp [hw] at h
    | some wr =>
      have hlt : w < g.wires.length := by
        rcases Nat.lt_or_ge w g.wires.length with h' | h'
        · exact h'
        · rw [List.getElem?_eq_none h'] at hw; cases hw
      rw [List.getElem?_append_left hlt]; exact h
  · intro o n c h; exact h

theorem newWire_keeps (g : G) (p : Nat) (n : String) (b : Bool) : Keeps g (newWire g p n b).1 := by
  unfold newWire
  simp only
  split
  · exact Keeps.trans _ _ _ (keeps_pushWire g _) (appendWire_keeps _ _ _)
  · exact Keeps.refl g

theorem newWire_keepsW (g : G) (p : Nat) (n : String) (b : Bool) : KeepsW none g (newWire g p n b).1 := by
  unfold newWire
  simp only
  split
  · exact KeepsW.trans _ _ { g with wires := g.wires ++ [{ parent := p, name := n, bidir := b }] } _
      (keepsW_of_eq rfl) (appendWire_keepsW _ _ _)
  · exact KeepsW.refl _ g

theorem attach_keeps (g : G) (pt : Port) (o : Nat) (f : Obj → Obj) (hf : ∀ ob, (f ob).children = ob.children) :
    Keeps g (modObj (pushPort g pt) o f) :=
  Keeps.trans _ _ _ (keeps_pushPort g pt) (keeps_modObj _ _ _ (fun ob n c _ h => by rw [hf]; exact h))

theorem attach_keepsW (g : G) (pt : Port) (o : Nat) (f : Obj → Obj) (hf : ∀ ob, (f ob).wires = ob.wires) :
    KeepsW none g (modObj (pushPort g pt) o f) :=
  KeepsW.trans _ _ _ _ (keepsW_pushPort g pt) (keepsW_modObj _ _ _ _ (fun ob n c _ _ h => by rw [hf]; exact h))

theorem addIn_keeps (g : G) (o : Nat) (n : String) (w : Nat) : Keeps g (addIn g o n w).1 := by
  unfold addIn
  split
  · exact Keeps.refl g
  · exact Keeps.refl g
  · apply andThen_rel Keeps.refl Keeps.trans
    · split
      · exact regSink_keeps _ _ _
      · exact Keeps.refl g
    · intro g1; exact attach_keeps _ _ _ _ (fun _ => rfl)

theorem addIn_keepsW (g : G) (o : Nat) (n : String) (w : Nat) : KeepsW none g (addIn g o n w).1 := by
  unfold addIn
  split
  · exact KeepsW.refl _ g
  · exact KeepsW.refl _ g
  · apply andThen_rel (KeepsW.refl _) (KeepsW.trans _)
    · split
      · exact regSink_keepsW _ _ _
      · exact KeepsW.refl _ g
    · intro g1; exact attach_keepsW _ _ _ _ (fun _ => rfl)

theorem addOut_keeps (g : G) (o : Nat) (n : String) (w : Nat) : Keeps g (addOut g o n w).1 := by
  unfold addOut
  split
  · exact Keeps.refl g
  · exact Keeps.refl g
  · apply andThen_rel Keeps.refl Keeps.trans
    · split
      · exact regSource_keeps _ _ _
      · exact Keeps.refl g
    · intro g1; exact attach_keeps _ _ _ _ (fun _ => rfl)

theorem addOut_keepsW (g : G) (o : Nat) (n : String) (w : Nat) : KeepsW none g (addOut g o n w).1 := by
  unfold addOut
  split
  · exact KeepsW.refl _ g
  · exact KeepsW.refl _ g
  · apply andThen_rel (KeepsW.refl _) (KeepsW.trans _)
    · split
      · exact regSource_keepsW _ _ _
      · exact KeepsW.refl _ g
    · intro g1; exact attach_keepsW _ _ _ _ (fun _ => rfl)

theorem addInOut_keeps (g : G) (o : Nat) (n : String) (w : Nat) : Keeps g (addInOut g o n w).1 := by
  unfold addInOut
  split
  · exact Keeps.refl g
  · exact Keeps.refl g
  · apply andThen_rel Keeps.refl Keeps.trans
    · split
      · apply andThen_rel Keeps.refl Keeps.trans
        · exact regSource_keeps _ _ _
        · intro g1; exact regSink_keeps _ _ _
      · exact Keeps.refl g
    · intro g1; exact attach_keeps _ _ _ _ (fun _ => rfl)

theorem addInOut_keepsW (g : G) (o : Nat) (n : String) (w : Nat) : KeepsW none g (addInOut g o n w).1 := by
  unfold addInOut
  split
  · exact KeepsW.refl _ g
  · exact KeepsW.refl _ g
  · apply andThen_rel (KeepsW.refl _) (KeepsW.trans _)
    · split
      · apply andThen_rel (KeepsW.refl _) (KeepsW.trans _)
        · exact regSource_keepsW _ _ _
        · intro g1; exact regSink_keepsW _ _ _
      · exact KeepsW.refl _ g
    · intro g1; exact attach_keepsW _ _ _ _ (fun _ => rfl)

/-! #### rename family -/

theorem renameOld_keeps (g : G) (w : Nat) (n : String) : Keeps g (renameOld g w n).1 := by
  unfold renameOld
  apply andThen_rel Keeps.refl Keeps.trans
  · exact delWireKey_keeps _ _
  · intro g1
    refine Keeps.trans _ _ _ ?_ (appendWire_keeps _ _ _)
    exact keeps_modWire g1 w _ (fun wr p _ h => h)

theorem reparentOld_keeps (g : G) (w p : Nat) : Keeps g (reparentOld g w p).1 := by
  unfold reparentOld
  apply andThen_rel Keeps.refl Keeps.trans
  · exact delWireKey_keeps _ _
  · intro g1
    refine Keeps.trans _ _ _ ?_ (appendWire_keeps _ _ _)
    exact keeps_modWire g1 w _ (fun wr p _ h => h)

theorem reparentAndRenameOld_keeps (g : G) (w p : Nat) (n : String) : Keeps g (reparentAndRenameOld g w p n).1 := by
  unfold reparentAndRenameOld
  apply andThen_rel Keeps.refl Keeps.trans
  · exact delWireKey_keeps _ _
  · intro g1
    refine Keeps.trans _ _ _ ?_ (appendWire_keeps _ _ _)
    exact keeps_modWire g1 w _ (fun wr p _ h => h)

/-- the key that `del self.parent._wires[self.name]` removes -/
def movedKey (g : G) (w : Nat) : Option (Nat × String) := (g.wires[w]?).map fun wr => (wr.parent, wr.name)

theorem delWireKey_keepsW' (g : G) (w : Nat) : KeepsW (movedKey g w) g (delWireKey g w).1 := by
  cases hw : g.wires[w]? with
  | none => rw [delWireKey_keepsW_bad g w hw]; exact KeepsW.refl _ g
  | some wr => simpa [movedKey, hw] using delWireKey_keepsW g w wr hw

theorem renameOld_keepsW (g : G) (w : Nat) (n : String) : KeepsW (movedKey g w) g (renameOld g w n).1 := by
  unfold renameOld
  apply andThen_rel (KeepsW.refl _) (KeepsW.trans _)
  · exact delWireKey_keepsW' _ _
  · intro g1
    refine KeepsW.trans _ _ _ _ ?_ (KeepsW.weaken (appendWire_keepsW _ _ _))
    exact KeepsW.weaken (keepsW_of_eq rfl)

theorem reparentOld_keepsW (g : G) (w p : Nat) : KeepsW (movedKey g w) g (reparentOld g w p).1 := by
  unfold reparentOld
  apply andThen_rel (KeepsW.refl _) (KeepsW.trans _)
  · exact delWireKey_keepsW' _ _
  · intro g1
    refine KeepsW.trans _ _ _ _ ?_ (KeepsW.weaken (appendWire_keepsW _ _ _))
    exact KeepsW.weaken (keepsW_of_eq rfl)

theorem reparentAndRenameOld_keepsW (g : G) (w p : Nat) (n : String) :
    KeepsW (movedKey g w) g (reparentAndRenameOld g w p n).1 := by
  unfold reparentAndRenameOld
  apply andThen_rel (KeepsW.refl _) (KeepsW.trans _)
  · exact delWireKey_keepsW' _ _
  · intro g1
    refine KeepsW.trans _ _ _ _ ?_ (KeepsW.weaken (appendWire_keepsW _ _ _))
    exact KeepsW.weaken (keepsW_of_eq rfl)

theorem rename_keeps (g : G) (w : Nat) (n : String) : Keeps g (rename g w n).1 :=
  pre_pred (P := Keeps g) (Keeps.refl g) (fun g1 h => Keeps.trans _ _ _ h (renameOld_keeps g1 w n))
theorem reparent_keeps (g : G) (w p : Nat) : Keeps g (reparent g w p).1 :=
  pre_pred (P := Keeps g) (Keeps.refl g) (fun g1 h => Keeps.trans _ _ _ h (reparentOld_keeps g1 w p))
theorem reparentAndRename_keeps (g : G) (w p : Nat) (n : String) : Keeps g (reparentAndRename g w p n).1 :=
  pre_pred (P := Keeps g) (Keeps.refl g) (fun g1 h => Keeps.trans _ _ _ h (reparentAndRenameOld_keeps g1 w p n))

theorem rename_keepsW (g : G) (w : Nat) (n : String) : KeepsW (movedKey g w) g (rename g w n).1 := by
  unfold rename
  rcases res_cases (preCheck g w (wireParent g w) n).2 with h | ⟨e, h⟩
  · rw [andThen_ok h, preCheck_fst]; exact renameOld_keepsW g w n
  · rw [andThen_err h, preCheck_fst]; exact KeepsW.refl _ g
theorem reparent_keepsW (g : G) (w p : Nat) : KeepsW (movedKey g w) g (reparent g w p).1 := by
  unfold reparent
  rcases res_cases (preCheck g w p (wireName g w)).2 with h | ⟨e, h⟩
  · rw [andThen_ok h, preCheck_fst]; exact reparentOld_keepsW g w p
  · rw [andThen_err h, preCheck_fst]; exact KeepsW.refl _ g
theorem reparentAndRename_keepsW (g : G) (w p : Nat) (n : String) :
    KeepsW (movedKey g w) g (reparentAndRename g w p n).1 := by
  unfold reparentAndRename
  rcases res_cases (preCheck g w p n).2 with h | ⟨e, h⟩
  · rw [andThen_ok h, preCheck_fst]; exact reparentAndRenameOld_keepsW g w p n
  · rw [andThen_err h, preCheck_fst]; exact KeepsW.refl _ g

/-! #### interfaces -/

theorem newIface_keeps (g : G) (p : Nat) (n : String) : Keeps g (newIface g p n).1 := keeps_of_eq rfl rfl
theorem newIface_keepsW (g : G) (p : Nat) (n : String) : KeepsW none g (newIface g p n).1 := keepsW_of_eq rfl

theorem ifS2K_keeps (g : G) (i : Nat) (n : String) : Keeps g (ifS2K g i n).1 := by
  unfold ifS2K
  split
  · exact Keeps.refl g
  · apply andThen_rel Keeps.refl Keeps.trans
    · exact newWire_keeps _ _ _ _
    · intro g1; exact keeps_of_eq rfl rfl

theorem ifS2K_keepsW (g : G) (i : Nat) (n : String) : KeepsW none g (ifS2K g i n).1 := by
  unfold ifS2K
  split
  · exact KeepsW.refl _ g
  · apply andThen_rel (KeepsW.refl _) (KeepsW.trans _)
    · exact newWire_keepsW _ _ _ _
    · intro g1; exact keepsW_of_eq rfl

theorem ifK2S_keeps (g : G) (i : Nat) (n : String) : Keeps g (ifK2S g i n).1 := by
  unfold ifK2S
  split
  · exact Keeps.refl g
  · apply andThen_rel Keeps.refl Keeps.trans
    · exact newWire_keeps _ _ _ _
    · intro g1; exact keeps_of_eq rfl rfl

theorem ifK2S_keepsW (g : G) (i : Nat) (n : String) : KeepsW none g (ifK2S g i n).1 := by
  unfold ifK2S
  split
  · exact KeepsW.refl _ g
  · apply andThen_rel (KeepsW.refl _) (KeepsW.trans _)
    · exact newWire_keepsW _ _ _ _
    · intro g1; exact keepsW_of_eq rfl

theorem addIfSource_keeps (g : G) (o : Nat) (n : String) (i : Nat) : Keeps g (addIfSource g o n i).1 := by
  unfold addIfSource
  split
  · exact Keeps.refl g
  · apply andThen_rel Keeps.refl Keeps.trans
    · exact forEach_rel Keeps.refl Keeps.trans _ (fun g x => addOut_keeps _ _ _ _) _ _
    · intro g1; exact forEach_rel Keeps.refl Keeps.trans _ (fun g x => addIn_keeps _ _ _ _) _ _

theorem addIfSource_keepsW (g : G) (o : Nat) (n : String) (i : Nat) : KeepsW none g (addIfSource g o n i).1 := by
  unfold addIfSource
  split
  · exact KeepsW.refl _ g
  · apply andThen_rel (KeepsW.refl _) (KeepsW.trans _)
    · exact forEach_rel (KeepsW.refl _) (KeepsW.trans _) _ (fun g x => addOut_keepsW _ _ _ _) _ _
    · intro g1; exact forEach_rel (KeepsW.refl _) (KeepsW.trans _) _ (fun g x => addIn_keepsW _ _ _ _) _ _

theorem addIfSink_keeps (g : G) (o : Nat) (n : String) (i : Nat) : Keeps g (addIfSink g o n i).1 := by
  unfold addIfSink
  split
  · exact Keeps.refl g
  · apply andThen_rel Keeps.refl Keeps.trans
    · exact forEach_rel Keeps.refl Keeps.trans _ (fun g x => addIn_keeps _ _ _ _) _ _
    · intro g1; exact forEach_rel Keeps.refl Keeps.trans _ (fun g x => addOut_keeps _ _ _ _) _ _

theorem addIfSink_keepsW (g : G) (o : Nat) (n : String) (i : Nat) : KeepsW none g (addIfSink g o n i).1 := by
  unfold addIfSink
  split
  · exact KeepsW.refl _ g
  · apply andThen_rel (KeepsW.refl _) (KeepsW.trans _)
    · exact forEach_rel (KeepsW.refl _) (KeepsW.trans _) _ (fun g x => addIn_keepsW _ _ _ _) _ _
    · intro g1; exact forEach_rel (KeepsW.refl _) (KeepsW.trans _) _ (fun g x => addOut_keepsW _ _ _ _) _ _

theorem newWires_keeps (g : G) (p : Nat) (n : String) (k : Nat) : Keeps g (newWires g p n k).1 :=
  forEach_rel Keeps.refl Keeps.trans _ (fun g x => newWire_keeps _ _ _ _) _ _
theorem newWires_keepsW (g : G) (p : Nat) (n : String) (k : Nat) : KeepsW none g (newWires g p n k).1 :=
  forEach_rel (KeepsW.refl _) (KeepsW.trans _) _ (fun g x => newWire_keepsW _ _ _ _) _ _

/-- disconnect touches only wires and ports: children and `_wires` registries are kept -/
theorem disconnect_objs (g : G) (w o : Nat) : (disconnect g w o).1.objs = g.objs := by
  unfold disconnect
  split
  · split
    · rfl
    · split
      · split
        · rfl
        · split <;> rfl
      · split <;> rfl
  · rfl

/-- is the call one of `Wire.rename / reparent / reparentAndRename`?  then: the key it deletes first -/
def Op.moved (g : G) : Op → Option (Nat × String)
  | .rename w _ => movedKey g w
  | .reparent w _ => movedKey g w
  | .reparentAndRename w _ _ => movedKey g w
  | _ => none

def Op.isDisconnect : Op → Bool
  | .disconnect _ _ => true
  | _ => false

theorem step_keeps (g : G) (op : Op) (h : op.isDisconnect = false) : Keeps g (step g op).1 := by
  cases op with
  | newLogic p n pr => exact newLogic_keeps _ _ _ _
  | wire p n b => exact newWire_keeps _ _ _ _
  | addIn o n w => exact addIn_keeps _ _ _ _
  | addOut o n w => exact addOut_keeps _ _ _ _
  | addInOut o n w => exact addInOut_keeps _ _ _ _
  | rename w n => exact rename_keeps _ _ _
  | reparent w p => exact reparent_keeps _ _ _
  | reparentAndRename w p n => exact reparentAndRename_keeps _ _ _ _
  | newIface p n => exact newIface_keeps _ _ _
  | ifS2K i n => exact ifS2K_keeps _ _ _
  | ifK2S i n => exact ifK2S_keeps _ _ _
  | addIfSource o n i => exact addIfSource_keeps _ _ _ _
  | addIfSink o n i => exact addIfSink_keeps _ _ _ _
  | disconnect w o => simp [Op.isDisconnect] at h
  | wires p n k => exact newWires_keeps _ _ _ _

theorem step_keepsW (g : G) (op : Op) : KeepsW (op.moved g) g (step g op).1 := by
  cases op with
  | newLogic p n pr => exact newLogic_keepsW _ _ _ _
  | wire p n b => exact newWire_keepsW _ _ _ _
  | addIn o n w => exact addIn_keepsW _ _ _ _
  | addOut o n w => exact addOut_keepsW _ _ _ _
  | addInOut o n w => exact addInOut_keepsW _ _ _ _
  | rename w n => exact rename_keepsW _ _ _
  | reparent w p => exact reparent_keepsW _ _ _
  | reparentAndRename w p n => exact reparentAndRename_keepsW _ _ _ _
  | newIface p n => exact newIface_keepsW _ _ _
  | ifS2K i n => exact ifS2K_keepsW _ _ _
  | ifK2S i n => exact ifK2S_keepsW _ _ _
  | addIfSource o n i => exact addIfSource_keepsW _ _ _ _
  | addIfSink o n i => exact addIfSink_keepsW _ _ _ _
  | disconnect w o => exact keepsW_of_eq (disconnect_objs _ _ _)
  | wires p n k => exact newWires_keepsW _ _ _ _

theorem step_keeps_child (g : G) (op : Op) (o : Nat) (n : String) (c : Nat) (h : childOf g o n = some c) :
    childOf (step g op).1 o n = some c := by
  by_cases hd : op.isDisconnect = false
  · exact (step_keeps g op hd).child o n c h
  · cases op with
    | disconnect w o' => simpa [childOf, step, disconnect_objs] using h
    | _ => simp [Op.isDisconnect] at hd

end Build
