import Py4hwV.Proofs.C13AddUlp
/-
  C13 — CHARACTERISATION of the blocks on operands outside the property's domain (zero, subnormal, ∞, NaN; exact results
  outside the normal range).  The property claims nothing there, so these are theorems about what the code DOES (the model is
  tied to the real blocks on exactly these operands by the `blocks` stream of harness/c13.py), not findings:
    comparator  plain mode = IEEE-754 totalOrder on ALL 2^32 encodings (so: correct on zeros/subnormals/∞ except +0 > −0;
                NaNs are ordered, never "unordered"); absolute mode = order of the magnitude key on all encodings
    multiplier  no special-case logic at all: hidden bit = [exp ≠ 0], exponent fields added modulo 256;  0·x ≠ 0 in general
    adder       same; x + (±0) = x exactly;  x − x = ±2^(e−24) with the sign of the FIRST operand (not commutative);
                0 + 0 = 2^105; ∞ + ∞ = +0
-/
namespace C13
open Lib Lib.Fp Lib.LSpec FpSpec

/-- the hidden bit `_FP_parts` prepends: 1 unless the exponent field is 0 -/
def hid (x : Nat) : Nat := b2n (decide (expOf x ≠ 0))
/-- the 24-bit significand wire `m` of `_FP_parts` for ANY word -/
def sig (x : Nat) : Nat := hid x * 2^23 + fracOf x

theorem hid_le (x : Nat) : hid x ≤ 1 := by unfold hid b2n; split <;> omega
theorem sig_lt (x : Nat) : sig x < 2^24 := by
  have := hid_le x; have := fracOf_lt x; unfold sig; omega
theorem sig_normal (x : Nat) (h : 1 ≤ expOf x) : sig x = 2^23 + fracOf x := by
  unfold sig hid; rw [show decide (expOf x ≠ 0) = true by simp; omega]; simp [b2n]
theorem sig_zero (x : Nat) (h : expOf x = 0) : sig x = fracOf x := by
  unfold sig hid; rw [show decide (expOf x ≠ 0) = false by simp [h]]; simp [b2n]
theorem parts_m (x : Nat) : (parts x).m = sig x := by rw [parts_eq]; rfl
theorem parts_s (x : Nat) : (parts x).s = signOf x := by rw [parts_eq]

/-! ## comparator on all encodings -/

theorem mag_ge (x : Nat) : 2^23 ≤ mag x := by
  unfold mag mant
  have : 2^23 * 1 ≤ (2^23 + fracOf x) * 2^(expOf x - 1) := Nat.mul_le_mul (by omega) (Nat.two_pow_pos _)
  omega

/-- the magnitude key is strictly monotone in (exponent field, fraction field) on ALL words -/
theorem magx_lt_iff (a b : Nat) :
    magx a < magx b ↔ (expOf a < expOf b ∨ (expOf a = expOf b ∧ fracOf a < fracOf b)) := by
  have fa := fracOf_lt a
  have fb := fracOf_lt b
  have ga := mag_ge a
  have gb := mag_ge b
  unfold magx
  by_cases ha : expOf a = 0 <;> by_cases hb : expOf b = 0
  · rw [if_pos ha, if_pos hb]; omega
  · rw [if_pos ha, if_neg hb]; omega
  · rw [if_neg ha, if_pos hb]; omega
  · rw [if_neg ha, if_neg hb, mag_lt_iff a b (by omega) (by omega)]

theorem magx_eq_iff (a b : Nat) : magx a = magx b ↔ (expOf a = expOf b ∧ fracOf a = fracOf b) := by
  have h1 := magx_lt_iff a b
  have h2 := magx_lt_iff b a
  constructor
  · intro h; omega
  · intro ⟨h3, h4⟩; unfold magx mag mant; rw [h3, h4]

/-- absolute mode on ALL pairs of words: the order of the magnitude key (= |value| on every finite encoding, zero and
    subnormals included; ∞ above every finite number; NaNs above ∞, ordered by payload) -/
theorem fpcmp_abs_all (a b : Nat) :
    fpcmp true a b = (b2n (decide (magx b < magx a)), b2n (decide (magx a = magx b)), b2n (decide (magx a < magx b))) := by
  rw [fpcmp_abs_fields]
  have h1 := magx_lt_iff a b
  have h2 := magx_lt_iff b a
  have h3 := magx_eq_iff a b
  generalize magx a = A at *
  generalize magx b = B at *
  refine Prod.ext ?_ (Prod.ext ?_ ?_) <;> simp only [] <;> rw [b2n_inj, Bool.eq_iff_iff] <;>
    simp only [Bool.or_eq_true, Bool.and_eq_true, decide_eq_true_eq] <;> omega

/-- plain mode on ALL pairs of words is the IEEE-754 `totalOrder` predicate: sign first (−0 below +0), then the magnitude key,
    reversed for negative operands.  NaN encodings are ordered like any other word (IEEE comparison would be "unordered"). -/
theorem fpcmp_total_order (a b : Nat) :
    fpcmp false a b = (b2n (decide (tkey b < tkey a)), b2n (decide (tkey a = tkey b)), b2n (decide (tkey a < tkey b))) := by
  rw [fpcmp_fields]
  unfold tkey
  have h1 := magx_lt_iff a b
  have h2 := magx_lt_iff b a
  have h3 := magx_eq_iff a b
  generalize magx a = A at *
  generalize magx b = B at *
  have sa : signOf a = 0 ∨ signOf a = 1 := by have := signOf_lt a; omega
  have sb : signOf b = 0 ∨ signOf b = 1 := by have := signOf_lt b; omega
  rcases sa with sa | sa <;> rcases sb with sb | sb <;>
    (refine Prod.ext ?_ (Prod.ext ?_ ?_) <;> simp only [sa, sb] <;> rw [b2n_inj, Bool.eq_iff_iff] <;>
      simp <;> omega)

/-- consequence: on ALL encodings (finite — zero, subnormal, normal — and, formally, ±∞) the plain comparator orders the
    operands as their real values `svalx`, with the single exception of a pair of zeros (+0 vs −0 is reported as +0 > −0) -/
theorem fpcmp_finite (a b : Nat) (hz : ¬ (magx a = 0 ∧ magx b = 0)) :
    fpcmp false a b = (b2n (decide (svalx b < svalx a)), b2n (decide (svalx a = svalx b)), b2n (decide (svalx a < svalx b))) := by
  rw [fpcmp_total_order]
  unfold tkey svalx
  generalize magx a = A at *
  generalize magx b = B at *
  have sa : signOf a = 0 ∨ signOf a = 1 := by have := signOf_lt a; omega
  have sb : signOf b = 0 ∨ signOf b = 1 := by have := signOf_lt b; omega
  rcases sa with sa | sa <;> rcases sb with sb | sb <;>
    (refine Prod.ext ?_ (Prod.ext ?_ ?_) <;> simp only [sa, sb] <;> rw [b2n_inj, Bool.eq_iff_iff] <;>
      simp <;> omega)

/-! ## multiplier on all encodings -/

/-- FPMult_SP on ALL pairs of words, as arithmetic on the fields: there is no special-case logic; the significands carry the
    hidden bit [exp ≠ 0] (`sig`), the exponent FIELDS are added and re-biased modulo 256 -/
theorem fpmul_fields (a b : Nat) :
    let P := sig a * sig b
    let E := expOf a + expOf b
    fpmul a b = b2n (decide (signOf a = 1) ^^ decide (signOf b = 1)) * 2^31 +
      ((if P / 2^47 % 2 = 1 then (E + 130) % 256 else ((E + 130) % 256 + 255) % 256) * 2^23 +
       (if P / 2^47 % 2 = 1 then P / 2^24 % 2^23 else P / 2^23 % 2^23)) := by
  intro P E
  have hea := expOf_lt a
  have heb := expOf_lt b
  have hsa := sig_lt a
  have hsb := sig_lt b
  unfold fpmul
  simp only [parts_m, parts_s, partsRaw, range_e]
  rw [b2n_of_lt2 (signOf a) (signOf_lt a), b2n_of_lt2 (signOf b) (signOf_lt b), C08.xor2_bool]
  have hb2 : ∀ x : Bool, (b2n x = 1) = (x = true) := fun x => by cases x <;> decide
  simp only [hb2, decide_eq_true_eq]
  have hP : P < 2^48 := by
    show sig a * sig b < 2^48
    have : sig a * sig b < 2^24 * 2^24 := Nat.mul_lt_mul'' hsa hsb
    simpa using this
  have hmul : Lib.mul 48 (sig a) (sig b) = P := by
    show (sig a * sig b) % 2^48 = P
    exact Nat.mod_eq_of_lt hP
  have hadd : (Lib.add 9 0 (expOf a) (expOf b) none).1 = E := by
    rw [C07.add_spec 9 0 _ _ none (by decide)]
    show (expOf a + expOf b + 0) % 2^9 = expOf a + expOf b
    simp only [Nat.reducePow] at *; omega
  rw [hmul, hadd]
  have he2 : Leaf.sub 8 E (Leaf.const 9 126) = (E + 130) % 256 := by
    rw [show Leaf.const 9 126 = 126 by decide, sub8g _ _ (by omega)]; omega
  have he3 : Leaf.sub 8 ((E + 130) % 256) (Leaf.const 9 1) = ((E + 130) % 256 + 255) % 256 := by
    rw [show Leaf.const 9 1 = 1 by decide, sub8g _ _ (by omega)]; omega
  rw [he2, he3]
  have hsel : Leaf.bit 1 P 47 = P / 2^47 % 2 := by
    simp only [Leaf.bit, Nat.shiftRight_eq_div_pow]; omega
  have hr2 : Leaf.range 23 P 46 24 = P / 2^24 % 2^23 := by
    simp only [Leaf.range, Nat.shiftRight_eq_div_pow, Nat.reduceSub, Nat.reduceAdd, Nat.mod_mod]
  have hr3 : Leaf.range 23 P 45 23 = P / 2^23 % 2^23 := by
    simp only [Leaf.range, Nat.shiftRight_eq_div_pow, Nat.reduceSub, Nat.reduceAdd, Nat.mod_mod]
  rw [hsel, hr2, hr3]
  have hsl : P / 2^47 % 2 < 2 := Nat.mod_lt _ (by decide)
  rw [C08.concatMSBF_spec 32 _ (by simp) (by
      intro wv hwv
      simp only [List.mem_cons, List.mem_nil_iff, or_false] at hwv
      rcases hwv with rfl | rfl | rfl
      · exact C08.b2n_lt _
      · simp only [Leaf.mux2]; split <;> exact Nat.mod_lt _ (by decide)
      · simp only [Leaf.mux2]; split <;> exact Nat.mod_lt _ (by decide))]
  simp only [LSpec.concatMSBF, List.map, List.sum_cons, List.sum_nil, Leaf.mux2, Nat.mod_mod]
  by_cases h : P / 2^47 % 2 = 1
  · simp only [h, if_true]
    simp only [Nat.reducePow, Nat.reduceAdd] ; omega
  · have h0 : P / 2^47 % 2 = 0 := by omega
    simp only [h0, Nat.zero_ne_one, if_false]
    simp only [Nat.reducePow, Nat.reduceAdd] ; omega

/-- a zero operand does NOT force a zero product (`isZeror` drives nothing): ±0 · b has fraction 0 and exponent field
    `(expOf b − 127) mod 256` — a zero encoding only when expOf b = 127 -/
theorem fpmul_zero (a b : Nat) (he : expOf a = 0) (hf : fracOf a = 0) :
    fpmul a b = b2n (decide (signOf a = 1) ^^ decide (signOf b = 1)) * 2^31 + ((expOf b + 129) % 256) * 2^23 := by
  have h := fpmul_fields a b
  simp only [] at h
  rw [h, sig_zero a he, hf, he]
  have := expOf_lt b
  simp only [Nat.zero_mul, Nat.zero_div, Nat.zero_mod, Nat.zero_ne_one, if_false, Nat.zero_add, Nat.add_zero]
  congr 2
  omega

/-! ## adder on all encodings -/

/-- the datapath of FPAdder_SP after the swap on ALL words with expOf B ≤ expOf A (what the swap guarantees), as arithmetic
    on the fields: `fpaddCore_eq` without the "exponent field ≠ 0" hypotheses — the significands are `sig` (hidden bit
    [exp ≠ 0]), the exponent FIELDS are subtracted (a subnormal is aligned as if its exponent were one lower than it is) -/
theorem fpaddCore_fields (A B : Nat) (hle : expOf B ≤ expOf A) :
    let mA := sig A
    let mB := sig B
    let mb3 := mB / 2^(expOf A - expOf B)
    let mr : Nat := if signOf A = signOf B then (mA + mb3) % 2^25 else Leaf.sub 25 mA mb3
    let c : Nat := if mr = 0 then 25 else 24 - mr.log2
    fpaddCore A B = signOf A * 2^31 + ((((expOf A + 256 - c) % 256 + 1) % 256) * 2^23 + (mr * 2^c % 2^25) / 2 % 2^23) := by
  intro mA mB mb3 mr c
  have hea := expOf_lt A
  have heb := expOf_lt B
  unfold fpaddCore
  simp only [parts_m, parts_s, partsRaw, range_e]
  have hmB : mB < 2^24 := sig_lt B
  have hmA : mA < 2^24 := sig_lt A
  have hgap : expOf A - expOf B < 2^8 := by omega
  have hed : Leaf.sub 8 (expOf A) (expOf B) = expOf A - expOf B := by
    rw [sub_nat 8 _ _ hle]; exact Nat.mod_eq_of_lt hgap
  rw [hed, C07.shiftRight_logical_spec 24 8 24 _ _ hmB hgap]
  have hmb3 : ArithSpec.shiftRightL 24 (sig B) (expOf A - expOf B) = mb3 := by
    unfold ArithSpec.shiftRightL
    apply Nat.mod_eq_of_lt
    exact Nat.lt_of_le_of_lt (Nat.div_le_self _ _) hmB
  rw [hmb3, C07.add_spec 25 0 _ _ none (by decide)]
  rw [b2n_of_lt2 (signOf A) (signOf_lt A), b2n_of_lt2 (signOf B) (signOf_lt B), C08.xor2_bool]
  have hmr : Leaf.mux2 25 (b2n (decide (signOf A = 1) ^^ decide (signOf B = 1)))
      (ArithSpec.add 25 (sig A) mb3 ((none : Option Nat).getD 0)) (Leaf.sub 25 (sig A) mb3) = mr := by
    show _ = (if signOf A = signOf B then (sig A + mb3) % 2^25 else Leaf.sub 25 (sig A) mb3)
    have sa := signOf_lt A
    have sb := signOf_lt B
    have hmux : ∀ (s : Bool) (x y : Nat), Leaf.mux2 25 (b2n s) x y = if s = true then y % 2^25 else x % 2^25 := by
      intro s x y; cases s <;> simp [Leaf.mux2, b2n]
    rw [hmux]
    by_cases h : signOf A = signOf B
    · have hx : (decide (signOf A = 1) ^^ decide (signOf B = 1)) = false := by rw [h]; simp
      rw [if_pos h, hx, if_neg (by decide)]
      unfold ArithSpec.add
      rw [Option.getD_none, Nat.add_zero, Nat.mod_mod]
    · have hx : (decide (signOf A = 1) ^^ decide (signOf B = 1)) = true := by
        have : signOf A = 0 ∧ signOf B = 1 ∨ signOf A = 1 ∧ signOf B = 0 := by omega
        rcases this with ⟨h1, h2⟩ | ⟨h1, h2⟩ <;> simp [h1, h2]
      rw [if_neg h, hx, if_pos rfl]
      exact Nat.mod_eq_of_lt (Bits.put_lt _ _)
  rw [hmr]
  have hmrL : mr < 2^25 := by
    show (if signOf A = signOf B then (mA + mb3) % 2^25 else Leaf.sub 25 mA mb3) < 2^25
    split
    · exact Nat.mod_lt _ (by decide)
    · exact Bits.put_lt _ _
  have hclz : (Lib.countLeadingZeros 25 5 1 mr).1 = c := by
    rw [C07.countLeadingZeros_spec 25 5 1 mr (by decide) (by decide) hmrL]
    unfold ArithSpec.countLeadingZeros ArithSpec.clz
    rw [Nat.mod_eq_of_lt hmrL]
    show _ = (if mr = 0 then 25 else 24 - mr.log2)
    split
    · rfl
    · apply Nat.mod_eq_of_lt; simp only [Nat.reducePow]; omega
  have hcL : c ≤ 25 := by show (if mr = 0 then 25 else 24 - mr.log2) ≤ 25; split <;> omega
  rw [hclz, C07.shiftLeft_spec 25 5 25 mr c (by decide) (by simp only [Nat.reducePow]; omega)]
  rw [sub8g _ _ (by omega), C07.add_spec 8 0 _ _ none (by decide)]
  have hbuf : Leaf.buf 1 (b2n (decide (signOf A = 1))) = signOf A := by
    rw [buf_b2n, ← b2n_of_lt2 _ (signOf_lt A)]
  rw [hbuf]
  have hr : Leaf.range 23 (ArithSpec.shiftLeft 25 mr c) 23 1 = (mr * 2^c % 2^25) / 2 % 2^23 := by
    unfold ArithSpec.shiftLeft
    simp only [Leaf.range, Nat.shiftRight_eq_div_pow, Nat.reduceSub, Nat.reduceAdd, Nat.mod_mod, Nat.pow_one]
  rw [hr]
  rw [C08.concatMSBF_spec 32 _ (by simp) (by
      intro wv hwv
      simp only [List.mem_cons, List.mem_nil_iff, or_false] at hwv
      rcases hwv with rfl | rfl | rfl
      · exact signOf_lt A
      · exact Nat.mod_lt _ (by decide)
      · exact Nat.mod_lt _ (by decide))]
  simp only [LSpec.concatMSBF, List.map, List.sum_cons, List.sum_nil, ArithSpec.add, Option.getD,
    show Leaf.const 8 1 = 1 by decide]
  rw [← b2n_of_lt2 (signOf A) (signOf_lt A)]
  generalize mr * 2 ^ c % 2 ^ 25 / 2 % 2 ^ 23 = Z
  generalize (expOf A + 256 - c) % 256 = Y
  simp only [Nat.reducePow, Nat.reduceAdd]
  omega

/-- the datapath returns its first operand unchanged when the second is ±0 and the first has a non-zero exponent field -/
theorem fpaddCore_zero (A B : Nat) (hA : A < 2^32) (hA1 : 1 ≤ expOf A) (hBe : expOf B = 0) (hBf : fracOf B = 0) :
    fpaddCore A B = A := by
  have h := fpaddCore_fields A B (by omega)
  simp only [] at h
  rw [h, sig_zero B hBe, hBf, sig_normal A hA1]
  have hf := fracOf_lt A
  have he := expOf_lt A
  simp only [Nat.zero_div, Nat.add_zero]
  have hsub : Leaf.sub 25 (2^23 + fracOf A) 0 = 2^23 + fracOf A := by
    rw [sub_nat 25 _ _ (by omega)]; apply Nat.mod_eq_of_lt; simp only [Nat.reducePow] at *; omega
  have hmod : (2^23 + fracOf A) % 2^25 = 2^23 + fracOf A := by
    apply Nat.mod_eq_of_lt; simp only [Nat.reducePow] at *; omega
  rw [hsub, hmod]
  simp only [ite_self]
  have hlog : (2^23 + fracOf A).log2 = 23 := by
    have h0 : 2^23 + fracOf A ≠ 0 := by simp only [Nat.reducePow]; omega
    have l1 := (Nat.log2_lt h0 (k := 24)).mpr (by simp only [Nat.reducePow] at *; omega)
    have l2 := (Nat.le_log2 h0 (k := 23)).mpr (by simp only [Nat.reducePow]; omega)
    omega
  rw [hlog, if_neg (by simp only [Nat.reducePow]; omega)]
  conv => rhs; rw [word_of_fields A hA]
  simp only [Nat.reducePow, Nat.reduceSub] at *
  omega

/-- **x + (±0) = x exactly**, in both operand orders, for every 32-bit word x with a non-zero exponent field
    (every normal number; also ∞ and NaN words) -/
theorem fpadd_zero (a z : Nat) (ha : a < 2^32) (hz : z < 2^32) (ha1 : 1 ≤ expOf a) (hze : expOf z = 0) (hzf : fracOf z = 0) :
    fpadd a z = a ∧ fpadd z a = a := by
  constructor
  · rw [fpadd_swap a z ha hz, if_neg (by omega)]
    exact fpaddCore_zero a z ha ha1 hze hzf
  · rw [fpadd_swap z a hz ha, if_pos (by omega)]
    exact fpaddCore_zero a z ha ha1 hze hzf

/-- exact cancellation is NOT zero: for a normal `a` and `b = −a` the aligned difference is 0, the leading-zero count says 25,
    and the result is  (sign of the FIRST operand, exponent field (expOf a − 24) mod 256, fraction 0):  for expOf a ≥ 25 that
    is ±2^(e−24) (half an ulp of a), so `fpadd a (−a) ≠ fpadd (−a) a`: the adder is not commutative exactly there -/
theorem fpadd_cancel (a b : Nat) (ha : a < 2^32) (hb : b < 2^32) (ha1 : 1 ≤ expOf a)
    (he : expOf b = expOf a) (hf : fracOf b = fracOf a) (hs : signOf b ≠ signOf a) :
    fpadd a b = signOf a * 2^31 + ((expOf a + 232) % 256) * 2^23 ∧
    fpadd b a = signOf b * 2^31 + ((expOf a + 232) % 256) * 2^23 := by
  have key : ∀ A B : Nat, 1 ≤ expOf A → expOf B = expOf A → fracOf B = fracOf A → signOf B ≠ signOf A →
      fpaddCore A B = signOf A * 2^31 + ((expOf A + 232) % 256) * 2^23 := by
    intro A B hA1 hE hF hS
    have h := fpaddCore_fields A B (by omega)
    simp only [] at h
    have hS' : ¬ signOf A = signOf B := fun h => hS h.symm
    rw [h, sig_normal A hA1, sig_normal B (by omega), hE, hF, Nat.sub_self, Nat.pow_zero, Nat.div_one]
    simp only [if_neg hS']
    have hsub : Leaf.sub 25 (2^23 + fracOf A) (2^23 + fracOf A) = 0 := by
      rw [sub_nat 25 _ _ (Nat.le_refl _), Nat.sub_self]
    rw [hsub]
    have := expOf_lt A
    simp only [if_true, Nat.zero_mul, Nat.zero_mod, Nat.zero_div, Nat.add_zero]
    have e : ((expOf A + 256 - 25) % 256 + 1) % 256 = (expOf A + 232) % 256 := by omega
    rw [e]
  constructor
  · rw [fpadd_swap a b ha hb, if_neg (by omega)]
    exact key a b ha1 he hf hs
  · rw [fpadd_swap b a hb ha, if_neg (by omega), key b a (by omega) he.symm hf.symm (fun h => hs h.symm), he]

end C13
