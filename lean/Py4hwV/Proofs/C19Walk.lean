import Py4hwV.Proofs.C19Fun
/-
  C19 — what the generator does to `created_structures`, exactly.

  `NoCr m`      the computation never touches `created` (everything except `appendCreated`).
  `FinM n m`    a computation returning a module text for structure name `n`: when it succeeds, `created` has grown by
                exactly `out.adds n` (= [n] for a module, [] for the "inlined out of scope" warning) and the text is not ''.
  `obs`, `obsF` the observable part of a run: result and the final content of the list (nothing when it raised).
  `foldSpec`    the python `for child in obj.children.values(): str += …` with the list content threaded through.
-/
namespace C19
open Emit

variable {d : Design} {α β : Type}

def NoCr (m : M α) : Prop := ∀ s, (m s).2.created = s.created

theorem NoCr.pure (a : α) : NoCr (pure a : M α) := fun _ => rfl
theorem NoCr.throw (e : Err) : NoCr (throwM e : M α) := fun _ => rfl
theorem NoCr.liftE (x : Except Err α) : NoCr (liftE x) := fun _ => rfl

theorem NoCr.bind {m : M α} {f : α → M β} (hm : NoCr m) (hf : ∀ a, NoCr (f a)) : NoCr (m >>= f) := by
  intro s
  have k := hm s
  rw [bind_def]
  generalize m s = p at k ⊢
  obtain ⟨r, s'⟩ := p
  cases r with
  | error e => exact k
  | ok a => simp only at k ⊢; rw [hf a s', k]

theorem NoCr.mapMM {γ : Type} {f : γ → M β} (hf : ∀ a, NoCr (f a)) (l : List γ) : NoCr (mapMM f l) := by
  induction l with
  | nil => exact NoCr.pure _
  | cons a t ih =>
    unfold Emit.mapMM
    exact NoCr.bind (hf a) fun b => NoCr.bind ih fun r => NoCr.pure _

theorem getWireNames_nocr (uc : Bool) (o : Option ObjId) : NoCr (getWireNames d uc o) := by
  intro s
  unfold getWireNames
  cases o with
  | none => rfl
  | some o =>
    simp only
    split
    · rfl
    · cases computeWireNames d o <;> rfl

theorem getWireName_nocr (uc : Bool) (scope : ObjId) (w : WireId) : NoCr (getWireName d uc scope w) := by
  unfold getWireName
  refine NoCr.bind (getWireNames_nocr _ _) fun wn => ?_
  split
  · exact NoCr.pure _
  · exact NoCr.throw _

theorem getParentWireName_nocr (uc : Bool) (child : ObjD) (w : WireId) : NoCr (getParentWireName d uc child w) := by
  unfold getParentWireName
  refine NoCr.bind (NoCr.liftE _) fun wd => ?_
  split
  · exact NoCr.pure _
  · refine NoCr.bind (getWireNames_nocr _ _) fun wn => ?_
    split
    · exact NoCr.pure _
    · exact NoCr.throw _

theorem inlinePrimitive_nocr (uc : Bool) (o : ObjId) (obj : ObjD) : NoCr (inlinePrimitive d uc o obj) := by
  unfold inlinePrimitive
  exact NoCr.bind (NoCr.mapMM (fun w => getParentWireName_nocr _ _ w) _) fun names => NoCr.pure _

theorem connect_nocr (c : ObjId) (wn : NameMap) (p : PortD) : NoCr (connect d c wn p) := by
  unfold connect
  split
  · exact NoCr.throw _
  · split
    · exact NoCr.throw _
    · exact NoCr.pure _

theorem instantiateStructural_nocr (uc : Bool) (c : ObjId) (child : ObjD) : NoCr (instantiateStructural d uc c child) := by
  unfold instantiateStructural
  refine NoCr.bind ?_ fun clk => NoCr.bind (getWireNames_nocr _ _) fun wn =>
    NoCr.bind (NoCr.mapMM (fun p => connect_nocr c wn p) _) fun conns => NoCr.pure _
  split
  · exact NoCr.pure _
  · refine NoCr.bind (NoCr.liftE _) fun b => ?_
    split
    · refine NoCr.bind (NoCr.liftE _) fun drv => ?_
      split
      · exact NoCr.throw _
      · refine NoCr.bind ?_ fun pd => ?_
        · split
          · exact NoCr.throw _
          · exact NoCr.liftE _
        · split
          · exact NoCr.pure _
          · refine NoCr.bind ?_ fun wn => NoCr.pure _
            split
            · exact NoCr.throw _
            · exact getWireName_nocr _ _ _
    · exact NoCr.pure _

theorem emitChild_nocr (uc : Bool) (c : ObjId) : NoCr (emitChild d uc c) := by
  unfold emitChild
  refine NoCr.bind (NoCr.liftE _) fun child => ?_
  split
  · exact inlinePrimitive_nocr _ _ _
  · exact instantiateStructural_nocr _ _ _

theorem moduleInstances_nocr (uc : Bool) (obj : ObjD) : NoCr (moduleInstances d uc obj) :=
  NoCr.mapMM (fun c => emitChild_nocr _ c) _

theorem declare_nocr (o : ObjId) (wn : NameMap) (w : WireId) : NoCr (declare d o wn w) := by
  unfold declare
  refine NoCr.bind (NoCr.liftE _) fun wd => ?_
  split
  · exact NoCr.pure _
  · split
    · exact NoCr.pure _
    · exact NoCr.throw _

/-! ### what a module-returning computation appends -/

/-- the names `_getVerilog` appends for a text it returns: the structure name for a module, nothing for '' and for the
    "inlined out of scope" warning (that path returns before `created_structures.append`) -/
def _root_.Emit.Out.adds (n : String) : Out → List String
  | .mod _ => [n]
  | _ => []

def FinM (n : String) (m : M Out) : Prop :=
  ∀ s out, (m s).1 = .ok out → (m s).2.created = s.created ++ out.adds n ∧ out ≠ .empty

theorem FinM.bind {n : String} {m : M α} {f : α → M Out} (hm : NoCr m) (hf : ∀ a, FinM n (f a)) : FinM n (m >>= f) := by
  intro s out h
  have k := hm s
  rw [bind_def] at h ⊢
  generalize m s = p at h k ⊢
  obtain ⟨r, s'⟩ := p
  cases r with
  | error e => simp at h
  | ok a =>
    simp only at h k ⊢
    have := hf a s' out h
    rw [k] at this
    exact this

theorem finishModule_fin (n : String) (hdr : ModT) (b : Body) : FinM n (finishModule n hdr b) := by
  intro s out h
  simp only [finishModule, bind_def, appendCreated, pure_def] at h ⊢
  cases h
  exact ⟨rfl, by intro h'; cases h'⟩

theorem emitModule_fin (uc : Bool) (o : ObjId) (obj : ObjD) (n : String) : FinM n (emitModule d uc o obj n) := by
  unfold emitModule
  refine FinM.bind (NoCr.liftE _) fun hdr => FinM.bind (NoCr.liftE _) fun lw => FinM.bind (getWireNames_nocr _ _) fun wn =>
    FinM.bind (NoCr.mapMM (fun w => declare_nocr o wn w) _) fun decls => ?_
  have warn : FinM n (inlinePrimitive d uc o obj >>= fun f => (pure (Out.inlinedOutOfScope f) : M Out)) := by
    refine FinM.bind (inlinePrimitive_nocr _ _ _) fun f => ?_
    intro s out h
    simp only [pure_def] at h ⊢
    cases h
    exact ⟨by simp [Out.adds], by intro h'; cases h'⟩
  split
  · split
    · exact finishModule_fin _ _ _
    · split
      · exact warn
      · exact finishModule_fin _ _ _
  · split
    · exact finishModule_fin _ _ _
    · split
      · split
        · exact finishModule_fin _ _ _
        · exact finishModule_fin _ _ _
      · exact FinM.bind (moduleInstances_nocr _ _) fun fr => finishModule_fin _ _ _

/-! ### observable part of a run -/

def obs (r : Except Err α × S) : Except Err (α × List String) :=
  match r with
  | (.ok a, s) => .ok (a, s.created)
  | (.error e, _) => .error e

def obsF (r : Except Err (List (List Out)) × S) : Except Err (List Out × List String) :=
  match r with
  | (.ok parts, s) => .ok (parts.flatten, s.created)
  | (.error e, _) => .error e

/-- `for x in l: str += f(x)` with the content of the list threaded through; stops at the first exception -/
def foldSpec {γ : Type} (sp : γ → List String → Except Err (List Out × List String)) :
    List γ → List String → Except Err (List Out × List String)
  | [], cr => .ok ([], cr)
  | a :: t, cr =>
    match sp a cr with
    | .error e => .error e
    | .ok (x, cr1) =>
      match foldSpec sp t cr1 with
      | .error e => .error e
      | .ok (y, cr2) => .ok (x ++ y, cr2)

theorem mapMM_obs {γ : Type} (g : γ → M (List Out)) (sp : γ → List String → Except Err (List Out × List String))
    (h : ∀ a s, Coh d s.cache → obs (g a s) = sp a s.created ∧ Coh d (g a s).2.cache) :
    ∀ (l : List γ) (s : S), Coh d s.cache → obsF (mapMM g l s) = foldSpec sp l s.created := by
  intro l
  induction l with
  | nil => intro s _; rfl
  | cons a t ih =>
    intro s hc
    obtain ⟨h1, c1⟩ := h a s hc
    unfold Emit.mapMM
    rw [bind_def]
    simp only [foldSpec]
    rw [← h1]
    generalize g a s = p at c1 ⊢
    obtain ⟨r, s1⟩ := p
    cases r with
    | error e => rfl
    | ok x =>
      simp only [obs]
      have h2 := ih s1 c1
      rw [bind_def]
      rw [← h2]
      generalize Emit.mapMM g t s1 = q
      obtain ⟨r2, s2⟩ := q
      cases r2 with
      | error e => rfl
      | ok y => simp [obsF, pure_def]

end C19
