import Py4hwV.Proofs.C12Ieee
/- C12 — closed form of the `fp_to_parts` loops and of `sp/dp_to_ieee754_parts` on decoded values (core Lean only). -/
namespace C12
open Py Bits Helper Helper.FPNum

/-! #### comparisons of a positive dyadic `N·2^k`, `2^j ≤ N < 2^(j+1)`, with 1 and 2 -/

theorem two_pow_succ_int (j : Nat) : (2:Int)^(j+1) = 2 * (2:Int)^j := by rw [Int.pow_succ]; omega

theorem dy_ltInt_one (N k : Int) (j : Nat) (h0 : (2:Int)^j ≤ N) (h1 : N < (2:Int)^(j+1)) :
    (Dy.ltInt ⟨N, k⟩ 1 = true) ↔ (j : Int) + k < 0 := by
  unfold Dy.ltInt
  have hj := two_pow_pos_int j
  by_cases c : k ≥ 0
  · simp only [c, if_true, decide_eq_true_eq]
    have hk := two_pow_pos_int k.toNat
    have : 1 ≤ N * (2:Int)^k.toNat := by
      have := Int.mul_le_mul (show (1:Int) ≤ N by omega) (show (1:Int) ≤ (2:Int)^k.toNat by omega) (by omega) (by omega)
      omega
    constructor <;> intro h <;> omega
  · simp only [c, if_false, decide_eq_true_eq, Int.one_mul]
    have hkk : (-k).toNat = (-k).toNat := rfl
    generalize hq : (-k).toNat = q
    have hqk : (q : Int) = -k := by omega
    constructor
    · intro h
      rcases Nat.lt_or_ge j q with c2 | c2
      · omega
      · have := two_pow_le_int q j c2; omega
    · intro h
      have : j + 1 ≤ q := by omega
      have := two_pow_le_int (j+1) q this; omega

theorem dy_geInt_two (N k : Int) (j : Nat) (h0 : (2:Int)^j ≤ N) (h1 : N < (2:Int)^(j+1)) :
    (Dy.geInt ⟨N, k⟩ 2 = true) ↔ 1 ≤ (j : Int) + k := by
  unfold Dy.geInt Dy.ltInt
  have hj := two_pow_pos_int j
  by_cases c : k ≥ 0
  · simp only [c, if_true, Bool.not_eq_true', decide_eq_false_iff_not, Int.not_lt]
    generalize hq : k.toNat = q
    have hqk : (q : Int) = k := by omega
    have hk := two_pow_pos_int q
    constructor
    · intro h
      rcases Nat.eq_zero_or_pos (j + q) with z | z
      · have : j = 0 := by omega
        have : q = 0 := by omega
        subst_vars; simp at h1 h; omega
      · omega
    · intro h
      have h2 : (2:Int)^(j + q) ≤ N * (2:Int)^q := by
        rw [Int.pow_add]; exact Int.mul_le_mul_of_nonneg_right h0 (by omega)
      have h3 := two_pow_le_int 1 (j + q) (by omega)
      simp at h3; omega
  · simp only [c, if_false, Bool.not_eq_true', decide_eq_false_iff_not, Int.not_lt]
    generalize hq : (-k).toNat = q
    have hqk : (q : Int) = -k := by omega
    rw [← two_pow_succ_int q]
    constructor
    · intro h
      rcases Nat.lt_or_ge j (q+1) with c2 | c2
      · have := two_pow_le_int (j+1) (q+1) (by omega); omega
      · omega
    · intro h
      have := two_pow_le_int (q+1) j (by omega); omega
/-- `while (m >= 2): m = m / 2; e += 1` on `N·2^k`: runs `max 0 (j+k)` times -/
theorem halveLoop_closed : ∀ (f : Nat) (N k e : Int) (j : Nat), (2:Int)^j ≤ N → N < (2:Int)^(j+1) →
    ((j : Int) + k).toNat < f →
    FPH.halveLoop f ⟨N, k⟩ e = some (⟨N, k - (((j : Int) + k).toNat : Int)⟩, e + (((j : Int) + k).toNat : Int)) := by
  intro f
  induction f with
  | zero => intro N k e j _ _ h; omega
  | succ f ih =>
    intro N k e j h0 h1 hf
    unfold FPH.halveLoop
    have hc := dy_geInt_two N k j h0 h1
    by_cases c : 1 ≤ (j : Int) + k
    · rw [if_pos (hc.mpr c)]
      have := ih N (k + -1) (e + 1) j h0 h1 (by omega)
      simp only [Dy.scale]
      rw [this]
      have e1 : ((j : Int) + (k + -1)).toNat = ((j : Int) + k).toNat - 1 := by omega
      congr 2
      · congr 1; omega
      · omega
    · have : ¬ (Dy.geInt ⟨N, k⟩ 2 = true) := fun h => c (hc.mp h)
      rw [if_neg this]
      have z : ((j : Int) + k).toNat = 0 := by omega
      rw [z]; simp

/-- `while (m < 1): m = m * 2; e -= 1` on `N·2^k`: runs `max 0 (-(j+k))` times -/
theorem doubleLoop_closed : ∀ (f : Nat) (N k e : Int) (j : Nat), (2:Int)^j ≤ N → N < (2:Int)^(j+1) →
    (-((j : Int) + k)).toNat < f →
    FPH.doubleLoop f ⟨N, k⟩ e = some (⟨N, k + ((-((j : Int) + k)).toNat : Int)⟩, e - ((-((j : Int) + k)).toNat : Int)) := by
  intro f
  induction f with
  | zero => intro N k e j _ _ h; omega
  | succ f ih =>
    intro N k e j h0 h1 hf
    unfold FPH.doubleLoop
    have hc := dy_ltInt_one N k j h0 h1
    by_cases c : (j : Int) + k < 0
    · rw [if_pos (hc.mpr c)]
      have := ih N (k + 1) (e - 1) j h0 h1 (by omega)
      simp only [Dy.scale]
      rw [this]
      congr 2
      · congr 1; omega
      · omega
    · have : ¬ (Dy.ltInt ⟨N, k⟩ 1 = true) := fun h => c (hc.mp h)
      rw [if_neg this]
      have z : (-((j : Int) + k)).toNat = 0 := by omega
      rw [z]; simp

/-- **closed form of `fp_to_parts`** on a positive dyadic `N·2^k` with `2^j ≤ N < 2^(j+1)`:
    exponent `j + k`, mantissa `N·2^-j ∈ [1,2)`, sign bit from the float's sign -/
theorem fp_to_parts_spec (neg : Bool) (N k : Int) (j : Nat) (h0 : (2:Int)^j ≤ N) (h1 : N < (2:Int)^(j+1)) :
    FPH.fp_to_parts (.fin neg ⟨N, k⟩) = some (if neg then 1 else 0, (j : Int) + k, ⟨N, -(j : Int)⟩) := by
  have hj := two_pow_pos_int j
  have hN : 0 < N := by omega
  have hlog : j ≤ N.natAbs.log2 := by
    have hne : N.natAbs ≠ 0 := by omega
    rw [Nat.le_log2 hne]
    have : ((2^j : Nat) : Int) ≤ (N.natAbs : Int) := by
      have : (N.natAbs : Int) = N := by omega
      rw [this]; simpa using h0
    exact Int.ofNat_le.mp this
  unfold FPH.fp_to_parts
  have hz : Dy.isZero ⟨N, k⟩ = false := by simp [Dy.isZero]; omega
  have hg : Dy.gtZero ⟨N, k⟩ = true := by simp [Dy.gtZero]; omega
  have hfuel1 : ((j : Int) + k).toNat < FPH.fuelFor ⟨N, k⟩ := by unfold FPH.fuelFor; simp only; omega
  have hfuel2 : ∀ k' : Int, k' = k - (((j : Int) + k).toNat : Int) → (-((j : Int) + k')).toNat < FPH.fuelFor ⟨N, k⟩ := by
    intro k' hk'; unfold FPH.fuelFor; simp only; omega
  have hA := halveLoop_closed (FPH.fuelFor ⟨N, k⟩) N k 0 j h0 h1 hfuel1
  have hB := doubleLoop_closed (FPH.fuelFor ⟨N, k⟩) N (k - (((j : Int) + k).toNat : Int)) (0 + (((j : Int) + k).toNat : Int)) j h0 h1
    (hfuel2 _ rfl)
  simp only [hz, hg, Bool.not_false, Bool.and_true, hA, hB, bind, Option.bind, pure, if_true]
  cases neg <;> simp <;> omega
theorem round_k0 (n k : Int) (h : k = 0) : Dy.round ⟨n, k⟩ = n := by
  subst h; simp [Dy.round]

/-- the constants of an encoder function are those of the interchange format `f` -/
structure CfgOK (c : FPH.EncCfg) (f : IEEE.Format) : Prop where
  mb_pos : 1 ≤ f.mbits
  bias_pos : 1 ≤ f.bias
  eInf : c.eInf = 2 * f.bias + 1
  eOver : c.eOver = f.bias + 1
  eSub : c.eSub = -f.bias
  subSh : c.subSh = (f.mbits : Int) - 1
  mSh : c.mSh = (f.mbits : Int)
  bias : c.bias = f.bias
  keeps : c.zeroKeepsSign = true
  emax : ((2 ^ f.ebits - 1 : Nat) : Int) = 2 * f.bias + 1

theorem spCfg_ok : CfgOK FPH.spCfg IEEE.single := by
  refine ⟨by decide, by decide, by decide, by decide, by decide, by decide, by decide, by decide, by decide, by decide⟩
theorem dpCfg_ok : CfgOK FPH.dpCfg IEEE.double := by
  refine ⟨by decide, by decide, by decide, by decide, by decide, by decide, by decide, by decide, by decide, by decide⟩

theorem parts_zero (c : FPH.EncCfg) (f : IEEE.Format) (ok : CfgOK c f) (neg : Bool) :
    FPH.to_ieee754_parts c (.fin neg ⟨0, 0⟩) = some (if neg then 1 else 0, 0, 0) := by
  simp [FPH.to_ieee754_parts, FPH.fp_to_parts, Dy.isZero, Dy.gtZero, ok.keeps, bind, Option.bind, pure]

theorem parts_subnormal (c : FPH.EncCfg) (f : IEEE.Format) (ok : CfgOK c f) (neg : Bool) (M : Int) (j : Nat)
    (h0 : (2:Int)^j ≤ M) (h1 : M < (2:Int)^(j+1)) (hj : j < f.mbits) :
    FPH.to_ieee754_parts c (.fin neg ⟨M, 1 - f.bias - (f.mbits : Int)⟩) = some (if neg then 1 else 0, 0, M) := by
  have hp := fp_to_parts_spec neg M (1 - f.bias - (f.mbits : Int)) j h0 h1
  have hj0 := two_pow_pos_int j
  have hz : Dy.isZero ⟨M, -(j : Int)⟩ = false := by simp [Dy.isZero]; omega
  have hb := ok.bias_pos
  unfold FPH.to_ieee754_parts
  simp only [hp, bind, Option.bind, hz, Bool.false_eq_true, if_false, pure, ok.eOver, ok.eSub, ok.subSh]
  have c1 : ¬ ((j : Int) + (1 - f.bias - (f.mbits : Int)) ≥ f.bias + 1) := by omega
  have c2 : (j : Int) + (1 - f.bias - (f.mbits : Int)) ≤ -f.bias := by omega
  simp only [c1, c2, if_false, if_true, Dy.scale]
  rw [round_k0 _ _ (by omega)]

theorem parts_normal (c : FPH.EncCfg) (f : IEEE.Format) (ok : CfgOK c f) (neg : Bool) (M E : Int)
    (hM0 : 0 ≤ M) (hM1 : M < (2:Int)^f.mbits) (hE0 : 1 ≤ E) (hE1 : E ≤ 2 * f.bias) :
    FPH.to_ieee754_parts c (.fin neg ⟨(2:Int)^f.mbits + M, E - f.bias - (f.mbits : Int)⟩)
      = some (if neg then 1 else 0, E, M) := by
  have hp := fp_to_parts_spec neg ((2:Int)^f.mbits + M) (E - f.bias - (f.mbits : Int)) f.mbits (by omega)
    (by rw [two_pow_succ_int]; omega)
  have hj0 := two_pow_pos_int f.mbits
  have hz : Dy.isZero ⟨(2:Int)^f.mbits + M, -(f.mbits : Int)⟩ = false := by simp [Dy.isZero]; omega
  have hb := ok.bias_pos
  have hmb := ok.mb_pos
  unfold FPH.to_ieee754_parts
  simp only [hp, bind, Option.bind, hz, Bool.false_eq_true, if_false, pure, ok.eOver, ok.eSub, ok.mSh, ok.bias]
  have c1 : ¬ ((f.mbits : Int) + (E - f.bias - (f.mbits : Int)) ≥ f.bias + 1) := by omega
  have c2 : ¬ ((f.mbits : Int) + (E - f.bias - (f.mbits : Int)) ≤ -f.bias) := by omega
  have hsub : Dy.subInt ⟨(2:Int)^f.mbits + M, -(f.mbits : Int)⟩ 1 = ⟨M, -(f.mbits : Int)⟩ := by
    unfold Dy.subInt
    have : ¬ (-(f.mbits : Int) ≥ 0) := by omega
    simp only [this, if_false]
    have e : (- -(f.mbits : Int)).toNat = f.mbits := by omega
    rw [e]; congr 1; omega
  simp only [c1, c2, if_false, hsub, Dy.scale]
  rw [round_k0 _ _ (by omega)]
  have c3 : ¬ (M ≥ Py.shlT 1 (f.mbits : Int)) := by rw [shlT_one]; omega
  simp only [c3, if_false]
  congr 3; omega
theorem nat_pow_cast (n : Nat) : (((2:Nat)^n : Nat) : Int) = (2:Int)^n := by simp

/-- encoder parts of a decoded pattern are the pattern's own fields -/
theorem parts_of_decode (c : FPH.EncCfg) (f : IEEE.Format) (ok : CfgOK c f) (b : Nat)
    (hs : IEEE.signOf f b < 2) (hnan : IEEE.isNaN f b = false) :
    FPH.to_ieee754_parts c (IEEE.decode f b) =
      some ((IEEE.signOf f b : Int), (IEEE.expOf f b : Int), (IEEE.manOf f b : Int)) := by
  unfold IEEE.decode
  have hM : IEEE.manOf f b < 2 ^ f.mbits := Nat.mod_lt _ (Nat.two_pow_pos _)
  have hE : IEEE.expOf f b < 2 ^ f.ebits := Nat.mod_lt _ (Nat.two_pow_pos _)
  have hsb : (if (IEEE.signOf f b == 1) = true then (1:Int) else 0) = (IEEE.signOf f b : Int) := by
    rcases Nat.lt_or_ge (IEEE.signOf f b) 1 with c | c
    · have : IEEE.signOf f b = 0 := by omega
      simp [this]
    · have : IEEE.signOf f b = 1 := by omega
      simp [this]
  have hemax := ok.emax
  simp only []
  by_cases cmax : IEEE.expOf f b = 2 ^ f.ebits - 1
  · have hm0 : IEEE.manOf f b = 0 := by
      unfold IEEE.isNaN at hnan
      simp [cmax] at hnan; exact hnan
    simp only [cmax, hm0, beq_self_eq_true, if_true, FPH.to_ieee754_parts, ok.eInf, hsb]
    congr 2
    simp only [Prod.mk.injEq]
    exact ⟨by omega, by simp⟩
  · have cmax' : (IEEE.expOf f b == 2 ^ f.ebits - 1) = false := by simp [cmax]
    simp only [cmax', Bool.false_eq_true, if_false]
    by_cases ce0 : IEEE.expOf f b = 0
    · simp only [ce0, beq_self_eq_true, if_true]
      by_cases cm0 : IEEE.manOf f b = 0
      · simp only [cm0, beq_self_eq_true, if_true]
        rw [parts_zero c f ok, hsb]; simp
      · have cm0' : (IEEE.manOf f b == 0) = false := by simp [cm0]
        simp only [cm0', Bool.false_eq_true, if_false]
        have hne : IEEE.manOf f b ≠ 0 := cm0
        have l0 : 2 ^ (IEEE.manOf f b).log2 ≤ IEEE.manOf f b := Nat.log2_self_le hne
        have l1 : IEEE.manOf f b < 2 ^ ((IEEE.manOf f b).log2 + 1) := Nat.lt_log2_self
        have lj : (IEEE.manOf f b).log2 < f.mbits := (Nat.log2_lt hne).mpr hM
        rw [parts_subnormal c f ok _ (IEEE.manOf f b : Int) (IEEE.manOf f b).log2
          (by rw [← nat_pow_cast]; exact Int.ofNat_le.mpr l0)
          (by rw [← nat_pow_cast]; exact Int.ofNat_lt.mpr l1) lj, hsb]
        simp
    · have ce0' : (IEEE.expOf f b == 0) = false := by simp [ce0]
      simp only [ce0', Bool.false_eq_true, if_false]
      rw [parts_normal c f ok _ (IEEE.manOf f b : Int) (IEEE.expOf f b : Int) (by omega)
        (by rw [← nat_pow_cast]; exact Int.ofNat_lt.mpr hM) (by omega) (by omega), hsb]
/-- `r = s << (eb+mb); r = r | (e << mb); r = r | m` on in-range fields -/
theorem assemble_fields (S E M eb mb : Nat) (hE : E < 2^eb) (hM : M < 2^mb) :
    Py.lor (Py.lor (Py.shl (S : Int) (eb + mb)) (Py.shl (E : Int) mb)) (M : Int)
      = ((S * 2^(eb+mb) + E * 2^mb + M : Nat) : Int) := by
  simp only [Py.shl]
  have hE' : (E : Int) < (2:Int)^eb := by rw [← nat_pow_cast]; exact Int.ofNat_lt.mpr hE
  have hM' : (M : Int) < (2:Int)^mb := by rw [← nat_pow_cast]; exact Int.ofNat_lt.mpr hM
  have hB1 : (E : Int) * (2:Int)^mb < (2:Int)^(eb + mb) := by
    rw [Int.pow_add]; exact Int.mul_lt_mul_of_pos_right hE' (two_pow_pos_int mb)
  rw [lor_disjoint' _ _ (eb + mb) (Int.mul_nonneg (by omega) (Int.le_of_lt (two_pow_pos_int mb))) hB1 (by omega)]
  have e2 : (S : Int) * (2:Int)^(eb + mb) + (E : Int) * (2:Int)^mb = ((S : Int) * (2:Int)^eb + (E : Int)) * (2:Int)^mb := by
    rw [Int.pow_add, Int.add_mul, Int.mul_assoc]
  rw [e2, lor_disjoint' _ _ mb (by omega) hM' (by
    have := Int.mul_nonneg (show (0:Int) ≤ S by omega) (Int.le_of_lt (two_pow_pos_int eb)); omega), ← e2]
  simp

end C12
