import Py4hwV.Lib.Fxp
import Py4hwV.Lib.FxpSpec
import Py4hwV.Props.C07
import Py4hwV.Props.C08
/- C14 — integer lemmas behind the fixed-point theorems (core Lean only). -/
namespace C14
open Bits

theorem cast_pow (n : Nat) : ((2^n : Nat) : Int) = (2:Int)^n := by simp

theorem toSigned_emod (w a : Nat) : toSigned w a % (2:Int)^w = (a:Int) % (2:Int)^w := by
  unfold toSigned
  split
  · rfl
  · rw [Int.sub_emod, Int.emod_self]; simp

theorem sgn_eq (w a : Nat) (ha : a < 2^w) : FxpSpec.sgn w a = toSigned w a := by
  unfold FxpSpec.sgn; rw [Nat.mod_eq_of_lt ha]

theorem two_pow_succ_pred (w : Nat) (hw : 1 ≤ w) : (2:Int)^w = 2 * (2:Int)^(w-1) := by
  have : w = (w - 1) + 1 := by omega
  rw [this, Int.pow_succ]; simp; omega

theorem toSigned_bounds (w a : Nat) (hw : 1 ≤ w) (ha : a < 2^w) :
    -(2:Int)^(w-1) ≤ toSigned w a ∧ toSigned w a < (2:Int)^(w-1) := by
  have h2 := two_pow_succ_pred w hw
  have hc := cast_pow w
  have hc1 := cast_pow (w-1)
  have hp := two_pow_pos_int (w-1)
  unfold toSigned
  split
  · rename_i h; constructor <;> omega
  · rename_i h; constructor <;> omega

/-- a value inside the `w`-bit two's-complement range survives encode / decode -/
theorem toSigned_put (w : Nat) (hw : 1 ≤ w) (v : Int) (h0 : -(2:Int)^(w-1) ≤ v) (h1 : v < (2:Int)^(w-1)) :
    toSigned w (put w v) = v := by
  have h2 := two_pow_succ_pred w hw
  have hc := cast_pow w
  have hc1 := cast_pow (w-1)
  have hp := two_pow_pos_int (w-1)
  have hcast := put_cast w v
  unfold toSigned
  by_cases hv : 0 ≤ v
  · have e : v % (2:Int)^w = v := Int.emod_eq_of_lt hv (by omega)
    rw [e] at hcast
    have : put w v < 2^(w-1) := by omega
    rw [if_pos this]; exact hcast
  · have e : v % (2:Int)^w = v + (2:Int)^w := by
      rw [← Int.add_emod_right]; exact Int.emod_eq_of_lt (by omega) (by omega)
    rw [e] at hcast
    have : ¬ put w v < 2^(w-1) := by omega
    rw [if_neg this]; omega

theorem put_toSigned (w a : Nat) (ha : a < 2^w) : put w (toSigned w a) = a := by
  rw [put_congr w _ _ (toSigned_emod w a), put_of_lt w a ha]

/-- `put` is a ring homomorphism onto residues -/
theorem put_add_congr (w : Nat) (x x' y y' : Int) (hx : x % (2:Int)^w = x' % (2:Int)^w) (hy : y % (2:Int)^w = y' % (2:Int)^w) :
    put w (x + y) = put w (x' + y') := by
  apply put_congr; rw [Int.add_emod, hx, hy, ← Int.add_emod]

theorem put_sub_congr (w : Nat) (x x' y y' : Int) (hx : x % (2:Int)^w = x' % (2:Int)^w) (hy : y % (2:Int)^w = y' % (2:Int)^w) :
    put w (x - y) = put w (x' - y') := by
  apply put_congr; rw [Int.sub_emod, hx, hy, ← Int.sub_emod]

theorem put_mul_congr (w : Nat) (x x' y y' : Int) (hx : x % (2:Int)^w = x' % (2:Int)^w) (hy : y % (2:Int)^w = y' % (2:Int)^w) :
    put w (x * y) = put w (x' * y') := by
  apply put_congr; rw [Int.mul_emod, hx, hy, ← Int.mul_emod]

theorem put_emod_self (w : Nat) (v : Int) : ((put w v : Nat) : Int) % (2:Int)^w = v % (2:Int)^w := by
  rw [put_cast]; exact Int.emod_emod_of_dvd v (Int.dvd_refl _)

/-- `(Z / a) % b` only sees `Z % (a*b)` -/
theorem ediv_emod_swap (Z a b : Int) (ha : 0 < a) (hb : 0 < b) : (Z / a) % b = (Z % (a * b)) / a := by
  have hab : 0 < a * b := Int.mul_pos ha hb
  have hr0 : 0 ≤ Z % (a*b) := Int.emod_nonneg Z (Int.ne_of_gt hab)
  have hr1 : Z % (a*b) < a*b := Int.emod_lt_of_pos Z hab
  have hq : Z = Z % (a*b) + a * (b * (Z / (a*b))) := by
    have := Int.emod_add_mul_ediv Z (a*b)
    rw [Int.mul_assoc] at this; omega
  have e1 : Z / a = (Z % (a*b)) / a + b * (Z / (a*b)) := by
    conv => lhs; rw [hq]
    exact Int.add_mul_ediv_left _ _ (Int.ne_of_gt ha)
  rw [e1, Int.add_mul_emod_self_left]
  apply Int.emod_eq_of_lt
  · exact Int.ediv_nonneg hr0 (Int.le_of_lt ha)
  · apply Int.ediv_lt_of_lt_mul ha
    rw [Int.mul_comm b a]; exact hr1

/-- floor-shift then mask only sees the low `f + w` bits -/
theorem shr_mod_depends (X Y : Int) (f w : Nat) (h : X % (2:Int)^(f+w) = Y % (2:Int)^(f+w)) :
    (X / (2:Int)^f) % (2:Int)^w = (Y / (2:Int)^f) % (2:Int)^w := by
  rw [ediv_emod_swap X _ _ (two_pow_pos_int f) (two_pow_pos_int w),
      ediv_emod_swap Y _ _ (two_pow_pos_int f) (two_pow_pos_int w), ← Int.pow_add, h]

/-- the product of an `aw`-bit and a `bw`-bit signed number fits `aw+bw` bits (even `aw+bw-1` unless both are most negative) -/
theorem prod_bounds (aw bw : Nat) (x y : Int) (haw : 1 ≤ aw) (hbw : 1 ≤ bw)
    (hx0 : -(2:Int)^(aw-1) ≤ x) (hx1 : x < (2:Int)^(aw-1)) (hy0 : -(2:Int)^(bw-1) ≤ y) (hy1 : y < (2:Int)^(bw-1)) :
    -(2:Int)^(aw+bw-1) ≤ x * y ∧ x * y < (2:Int)^(aw+bw-1) := by
  have hpa := two_pow_pos_int (aw-1)
  have hpb := two_pow_pos_int (bw-1)
  have hna : x.natAbs ≤ 2^(aw-1) := by have := cast_pow (aw-1); omega
  have hnb : y.natAbs ≤ 2^(bw-1) := by have := cast_pow (bw-1); omega
  have hm : (x * y).natAbs ≤ 2^(aw-1) * 2^(bw-1) := by
    rw [Int.natAbs_mul]; exact Nat.mul_le_mul hna hnb
  rw [← Nat.pow_add] at hm
  have e : aw + bw - 1 = (aw - 1 + (bw - 1)) + 1 := by omega
  have h2 : (2:Int)^(aw+bw-1) = 2 * (2:Int)^(aw - 1 + (bw - 1)) := by rw [e, Int.pow_succ]; omega
  have hc := cast_pow (aw - 1 + (bw - 1))
  have hpp := two_pow_pos_int (aw - 1 + (bw - 1))
  constructor <;> omega

end C14
