import Py4hwV.Verilog.WF
/-
  C03 helper development: the emitter's naming scheme (model in WF.lean: getPortName / localWireName / getInstanceName)
  keeps the three py4hw name spaces apart — under exactly the hypotheses whose complements are the listed findings
  C03-name-collision, C03-same-wire-name and C03-keyword-table.
-/
namespace V.WF

/-- `s` starts with `p` -/
def HasPrefix (p s : String) : Prop := ∃ t, s = p ++ t

theorem append_right_cancel (p a b : String) (h : p ++ a = p ++ b) : a = b := by
  have := congrArg String.toList h
  rw [String.toList_append, String.toList_append] at this
  exact String.toList_inj.mp (List.append_cancel_left this)

theorem w_ne_i (a b : String) : "w_" ++ a ≠ "i_" ++ b := by
  intro h
  have := congrArg String.toList h
  rw [String.toList_append, String.toList_append] at this
  have h1 : "w_".toList = ['w', '_'] := by decide
  have h2 : "i_".toList = ['i', '_'] := by decide
  rw [h1, h2] at this
  simp at this

theorem reserved_ne_w (a b : String) : "reserved_" ++ a ≠ "w_" ++ b := by
  intro h
  have := congrArg String.toList h
  rw [String.toList_append, String.toList_append] at this
  have h1 : "w_".toList = ['w', '_'] := by decide
  have h2 : "reserved_".toList = ['r', 'e', 's', 'e', 'r', 'v', 'e', 'd', '_'] := by decide
  rw [h1, h2] at this
  simp at this

theorem reserved_ne_i (a b : String) : "reserved_" ++ a ≠ "i_" ++ b := by
  intro h
  have := congrArg String.toList h
  rw [String.toList_append, String.toList_append] at this
  have h1 : "i_".toList = ['i', '_'] := by decide
  have h2 : "reserved_".toList = ['r', 'e', 's', 'e', 'r', 'v', 'e', 'd', '_'] := by decide
  rw [h1, h2] at this
  simp at this

theorem nodup_map_on {l : List String} {f : String → String}
    (hf : ∀ a ∈ l, ∀ b ∈ l, f a = f b → a = b) (h : l.Nodup) : (l.map f).Nodup := by
  induction l with
  | nil => simp
  | cons x xs ih =>
    rw [List.map_cons, List.nodup_cons]
    rw [List.nodup_cons] at h
    refine ⟨?_, ih (fun a ha b hb => hf a (List.mem_cons_of_mem _ ha) b (List.mem_cons_of_mem _ hb)) h.2⟩
    intro hm
    rcases List.mem_map.1 hm with ⟨y, hy, hxy⟩
    have := hf y (List.mem_cons_of_mem _ hy) x (by simp) hxy
    subst this
    exact h.1 hy

/-- `getValidVerilogName` is injective on names that do not themselves start with `reserved_` -/
theorem validName_inj (a b : String) (ha : ¬ HasPrefix "reserved_" a) (hb : ¬ HasPrefix "reserved_" b)
    (h : getValidVerilogName a = getValidVerilogName b) : a = b := by
  unfold getValidVerilogName at h
  split at h <;> split at h
  · exact append_right_cancel _ _ _ h
  · exact absurd ⟨a, h.symm⟩ hb
  · exact absurd ⟨b, h⟩ ha
  · exact h

theorem validName_ne_w (p x : String) (hp : ¬ HasPrefix "w_" p) : getValidVerilogName p ≠ "w_" ++ x := by
  unfold getValidVerilogName
  split
  · exact reserved_ne_w _ _
  · exact fun h => hp ⟨x, h⟩

theorem validName_ne_i (p x : String) (hp : ¬ HasPrefix "i_" p) : getValidVerilogName p ≠ "i_" ++ x := by
  unfold getValidVerilogName
  split
  · exact reserved_ne_i _ _
  · exact fun h => hp ⟨x, h⟩

/-- the Verilog name space the structural emitter builds for a module: port names, local wires, instances -/
def emittedNames (ports wires insts : List String) : List String :=
  ports.map getPortName ++ (wires.map localWireName ++ insts.map getInstanceName)

/-- hypotheses on the py4hw side under which the naming scheme is collision free -/
structure NamesOK (ports wires insts : List String) : Prop where
  ports_nodup : ports.Nodup
  wires_nodup : wires.Nodup            -- fails for same-named wires of different owners (C03-same-wire-name)
  insts_nodup : insts.Nodup
  no_prefix : ∀ p ∈ ports, ¬ HasPrefix "reserved_" p ∧ ¬ HasPrefix "w_" p ∧ ¬ HasPrefix "i_" p   -- C03-name-collision

theorem emittedNames_nodup {ports wires insts : List String} (h : NamesOK ports wires insts) :
    (emittedNames ports wires insts).Nodup := by
  unfold emittedNames
  rw [List.nodup_append, List.nodup_append]
  refine ⟨?_, ⟨?_, ?_, ?_⟩, ?_⟩
  · exact nodup_map_on (fun a ha b hb => validName_inj a b (h.no_prefix a ha).1 (h.no_prefix b hb).1) h.ports_nodup
  · exact nodup_map_on (fun a _ b _ e => append_right_cancel _ _ _ e) h.wires_nodup
  · exact nodup_map_on (fun a _ b _ e => append_right_cancel _ _ _ e) h.insts_nodup
  · intro a ha b hb
    rcases List.mem_map.1 ha with ⟨x, _, rfl⟩
    rcases List.mem_map.1 hb with ⟨y, _, rfl⟩
    exact w_ne_i x y
  · intro a ha b hb
    rcases List.mem_map.1 ha with ⟨p, hp, rfl⟩
    rcases List.mem_append.1 hb with hb | hb
    · rcases List.mem_map.1 hb with ⟨x, _, rfl⟩
      exact validName_ne_w p x (h.no_prefix p hp).2.1
    · rcases List.mem_map.1 hb with ⟨x, _, rfl⟩
      exact validName_ne_i p x (h.no_prefix p hp).2.2


theorem count_eq_one_of_nodup {l : List String} (h : l.Nodup) {n : String} (hn : n ∈ l) : l.count n = 1 := by
  induction l with
  | nil => cases hn
  | cons x xs ih =>
    rw [List.nodup_cons] at h
    rw [List.count_cons]
    by_cases e : x = n
    · subst e
      have : xs.count x = 0 := List.count_eq_zero.2 h.1
      simp [this]
    · have hn' : n ∈ xs := by
        rcases List.mem_cons.1 hn with h' | h'
        · exact absurd h'.symm e
        · exact h'
      simp [e, ih h.2 hn']

end V.WF
