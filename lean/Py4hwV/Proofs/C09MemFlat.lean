import Py4hwV.Lib.SeqMem
import Py4hwV.Proofs.C09Flat
/-
  C09, netlist level, leaves with list state: what `propagateAll` and one clock edge do to a `SeqMem.NetS`.

  Part A (any `Net.Design σ`): C04's fixpoint theorem generalised to propagatable leaves whose `propagate()` may WRITE THEIR
  OWN ATTRIBUTE (`C04.Comb` demands `stateless`; `AsynchronousMemory.propagate` stores into `self.data`).  After evaluating
  the leaves once in an edge-respecting order every leaf's outputs AND its new attribute are its function of the FINAL
  wire values and of its attribute BEFORE the pass.
  Part B: `NetS` instance (`propagate_propfix`, frame lemmas).
  Part C: the clock edge (`edge_sim`): every clocked leaf is clocked on the pre-edge values (C05), all the wires it
  prepares show the prepared values masked, nothing else changes.
-/
set_option linter.unusedSimpArgs false
namespace SeqMem
open Net SeqFlat

/-! ## Part A: propagate with stateful leaves -/
section Gen
variable {σ : Type}

/-- propagatable leaves with declared read / write sets; `propagate()` may change the leaf's own attribute -/
structure PComb (d : Design σ) where
  reads  : Nat → List Nat
  writes : Nat → List Nat
  reads_ok : ∀ k v v' x, (∀ w, w ∈ reads k → v w = v' w) → (d.leaf k).prop v x = (d.leaf k).prop v' x
  writes_ok : ∀ k v x, ((d.leaf k).prop v x).2.map Prod.fst = writes k
  writes_nodup : ∀ k, (writes k).Nodup

/-- evaluation order (as `C04.TopoOK`) -/
def TopoOK {d : Design σ} (C : PComb d) : List Nat → Prop
  | [] => True
  | a :: rest => (∀ b, b ∈ a :: rest → ∀ w, w ∈ C.reads a → w ∉ C.writes b) ∧
                 (∀ b, b ∈ rest → ∀ w, w ∈ C.writes a → w ∉ C.writes b) ∧ a ∉ rest ∧ TopoOK C rest

theorem propLeaf_val_other (d : Design σ) (C : PComb d) (s : State σ) (k w : Nat) (h : w ∉ C.writes k) :
    (propLeaf d s k).val w = s.val w := by
  unfold propLeaf
  apply C10.foldl_putW_val_other
  rw [C.writes_ok]; exact h

theorem fold_propLeaf_val_other (d : Design σ) (C : PComb d) (l : List Nat) (s : State σ) (w : Nat)
    (h : ∀ k, k ∈ l → w ∉ C.writes k) : (l.foldl (propLeaf d) s).val w = s.val w := by
  induction l generalizing s with
  | nil => rfl
  | cons a l ih =>
    simp only [List.foldl]
    rw [ih _ (fun k hk => h k (by simp [hk])), propLeaf_val_other d C s a w (h a (by simp))]

theorem fold_propLeaf_st_other (d : Design σ) (l : List Nat) (s : State σ) (j : Nat) (h : j ∉ l) :
    (l.foldl (propLeaf d) s).st j = s.st j := by
  induction l generalizing s with
  | nil => rfl
  | cons a l ih =>
    simp only [List.foldl]
    rw [ih _ (fun hh => h (by simp [hh]))]
    exact C10.propLeaf_st_other d s a j (fun e => h (by simp [e]))

theorem propLeaf_st_self (d : Design σ) (s : State σ) (k : Nat) :
    (propLeaf d s k).st k = ((d.leaf k).prop s.val (s.st k)).1 := by
  unfold propLeaf
  rw [C10.foldl_putW_st]
  simp [upd]

/-- **fixpoint with stateful leaves.** After one pass in an edge-respecting order, every leaf's outputs equal its
    function of the FINAL wire values and its attribute BEFORE the pass, and its attribute is the one that call stores. -/
theorem propagate_fixpoint (d : Design σ) (C : PComb d) (l : List Nat) (hT : TopoOK C l) (s : State σ) :
    ∀ k, k ∈ l →
      (∀ wx, wx ∈ ((d.leaf k).prop (l.foldl (propLeaf d) s).val (s.st k)).2 →
          (l.foldl (propLeaf d) s).val wx.1 = C04.mval d wx) ∧
      (l.foldl (propLeaf d) s).st k = ((d.leaf k).prop (l.foldl (propLeaf d) s).val (s.st k)).1 := by
  induction l generalizing s with
  | nil => intro k hk; cases hk
  | cons a rest ih =>
    obtain ⟨hr, hw, hna, hrest⟩ := hT
    simp only [List.foldl]
    intro k hk
    simp at hk
    rcases hk with hk | hk
    · subst hk
      have hreads : ∀ w, w ∈ C.reads k → (rest.foldl (propLeaf d) (propLeaf d s k)).val w = s.val w := by
        intro w hwr
        rw [fold_propLeaf_val_other d C rest _ w (fun b hb => hr b (by simp [hb]) w hwr)]
        exact propLeaf_val_other d C s k w (hr k (by simp) w hwr)
      have hputs : (d.leaf k).prop (rest.foldl (propLeaf d) (propLeaf d s k)).val (s.st k)
          = (d.leaf k).prop s.val (s.st k) := C.reads_ok k _ _ _ hreads
      rw [hputs]
      constructor
      · intro wx hwx
        have hwk : wx.1 ∈ C.writes k := by
          rw [← C.writes_ok k s.val (s.st k)]; exact List.mem_map.mpr ⟨wx, hwx, rfl⟩
        rw [fold_propLeaf_val_other d C rest _ wx.1 (fun b hb => hw b hb wx.1 hwk)]
        unfold propLeaf
        apply C04.foldl_putW_hit
        · rw [C.writes_ok]; exact C.writes_nodup k
        · exact hwx
      · rw [fold_propLeaf_st_other d rest _ k hna]
        exact propLeaf_st_self d s k
    · have hka : k ≠ a := fun e => hna (e ▸ hk)
      have := ih hrest (propLeaf d s a) k hk
      rw [C10.propLeaf_st_other d s a k hka] at this
      exact this

theorem foldl_nstep_hit (d : Design σ) (ps : List (Nat × Int)) (n0 : Val) (hn : (ps.map Prod.fst).Nodup)
    (wv : Nat × Int) (h : wv ∈ ps) : (ps.foldl (C05.nstep d) n0) wv.1 = C05.P d wv := by
  induction ps generalizing n0 with
  | nil => cases h
  | cons a ps ih =>
    simp only [List.foldl]
    simp only [List.map_cons, List.nodup_cons] at hn
    simp only [List.mem_cons] at h
    rcases h with h | h
    · subst h
      have hnot : ∀ (l : List (Nat × Int)) (m : Val), wv.1 ∉ l.map Prod.fst → (l.foldl (C05.nstep d) m) wv.1 = m wv.1 := by
        intro l
        induction l with
        | nil => intro m _; rfl
        | cons b l ihl =>
          intro m hm
          simp only [List.map_cons, List.mem_cons, not_or] at hm
          simp only [List.foldl]
          rw [ihl _ hm.2]
          simp [C05.nstep, upd, hm.1]
      rw [hnot ps _ hn.1]
      simp [C05.nstep]
    · exact ih _ hn.2 h

end Gen

/-! ## Part B: `NetS` -/

instance : Inhabited QLeaf := ⟨⟨[], [], fun _ s => (s, []), [], []⟩⟩
instance : Inhabited PLeaf := ⟨⟨[], 0, fun _ s => (s, 0), []⟩⟩

theorem leaf_prop (D : NetS) (k : Nat) (v : Val) (x : LSt) :
    (D.leaf k).prop v x = match D.props[k]? with
      | some p => ((p.f (p.ins.map v) x).1, [(p.out, (p.f (p.ins.map v) x).2)])
      | none => (x, []) := by
  unfold NetS.leaf
  cases h : D.props[k]? with
  | some p => rfl
  | none =>
    simp only
    cases D.seqs[k - D.props.length]? <;> rfl

def NetS.reads (D : NetS) (k : Nat) : List Nat := match D.props[k]? with | some p => p.ins | none => []
def NetS.writes (D : NetS) (k : Nat) : List Nat := match D.props[k]? with | some p => [p.out] | none => []

def NetS.pcomb (D : NetS) : PComb D.design where
  reads := D.reads
  writes := D.writes
  reads_ok := by
    intro k v v' x h
    show (D.leaf k).prop v x = (D.leaf k).prop v' x
    rw [leaf_prop, leaf_prop]
    unfold NetS.reads at h
    cases hc : D.props[k]? with
    | none => rfl
    | some p =>
      rw [hc] at h
      simp only
      rw [List.map_congr_left h]
  writes_ok := by
    intro k v x
    show ((D.leaf k).prop v x).2.map Prod.fst = D.writes k
    rw [leaf_prop]
    unfold NetS.writes
    cases D.props[k]? <;> rfl
  writes_nodup := by
    intro k
    unfold NetS.writes
    cases D.props[k]? <;> simp

/-- the schedule is an evaluation order containing every propagatable leaf -/
def NetS.SchedOK (D : NetS) : Prop :=
  TopoOK D.pcomb D.order ∧ ∀ i, i < D.props.length → i ∈ D.order

/-- with `x` the attributes before the pass: every propagatable leaf's output holds its function of the CURRENT wire
    values `V` and of `x`, and `x'` holds the attribute that call stored -/
def PropFix (D : NetS) (x : Nat → LSt) (V : Nat → Nat) (x' : Nat → LSt) : Prop :=
  ∀ k p, D.props[k]? = some p →
    V p.out = Bits.put (D.wd p.out) (p.f (p.ins.map V) (x k)).2 ∧ x' k = (p.f (p.ins.map V) (x k)).1

theorem propagate_propfix (D : NetS) (h : D.SchedOK) (s : State LSt) :
    PropFix D s.st (propagateAll D.design s).val (propagateAll D.design s).st := by
  intro k p hk
  have hi : k < D.props.length := by
    rcases Nat.lt_or_ge k D.props.length with h' | h'
    · exact h'
    · rw [List.getElem?_eq_none h'] at hk; cases hk
  have hfix := propagate_fixpoint D.design D.pcomb D.order h.1 s k (h.2 k hi)
  have e : (D.design.leaf k).prop (List.foldl (propLeaf D.design) s D.order).val (s.st k)
      = ((p.f (p.ins.map (List.foldl (propLeaf D.design) s D.order).val) (s.st k)).1,
         [(p.out, (p.f (p.ins.map (List.foldl (propLeaf D.design) s D.order).val) (s.st k)).2)]) := by
    show (D.leaf k).prop _ _ = _
    rw [leaf_prop, hk]
  rw [e] at hfix
  unfold propagateAll
  show (List.foldl (propLeaf D.design) s D.order).val p.out = _ ∧ (List.foldl (propLeaf D.design) s D.order).st k = _
  refine ⟨?_, hfix.2⟩
  have h2 := hfix.1 (p.out, (p.f (p.ins.map (List.foldl (propLeaf D.design) s D.order).val) (s.st k)).2)
    (List.mem_singleton.mpr rfl)
  show (List.foldl (propLeaf D.design) s D.order).val p.out =
    Bits.put (D.wd p.out) (p.f (p.ins.map (List.foldl (propLeaf D.design) s D.order).val) (s.st k)).2
  rw [h2]
  simp only [C04.mval]
  exact SeqFlat.wput _ _

/-- nets no propagatable leaf drives keep their value -/
theorem propagate_val_other (D : NetS) (s : State LSt) (w : Nat) (hw : ∀ p, p ∈ D.props → p.out ≠ w) :
    (propagateAll D.design s).val w = s.val w := by
  unfold propagateAll
  apply fold_propLeaf_val_other D.design D.pcomb
  intro k _ hmem
  replace hmem : w ∈ D.writes k := hmem
  unfold NetS.writes at hmem
  cases hc : D.props[k]? with
  | none => rw [hc] at hmem; cases hmem
  | some p =>
    rw [hc] at hmem
    simp at hmem
    exact hw p (List.mem_of_getElem? hc) hmem.symm

/-- `propagate()` of a leaf that is not a propagatable leaf does nothing: attributes of the clocked leaves survive a pass -/
theorem propagate_st_seq (D : NetS) (s : State LSt) (j : Nat) (hj : D.props[j]? = none) :
    (propagateAll D.design s).st j = s.st j := by
  unfold propagateAll
  generalize D.design.order = l
  induction l generalizing s with
  | nil => rfl
  | cons a l ih =>
    simp only [List.foldl]
    rw [ih]
    by_cases e : j = a
    · subst e
      rw [propLeaf_st_self]
      show ((D.leaf j).prop s.val (s.st j)).1 = _
      rw [leaf_prop, hj]
    · exact C10.propLeaf_st_other D.design s a j e

theorem rid_none (D : NetS) (j : Nat) : D.props[D.rid j]? = none := List.getElem?_eq_none (by unfold NetS.rid; omega)

theorem propagate_prepared (D : NetS) (s : State LSt) : (propagateAll D.design s).prepared = s.prepared :=
  (C04.fold_propLeaf_rest D.design _ s).2.1

/-! ## Part C: the clock edge -/

theorem prep_fst (outs : List Nat) (vals : List Int) : (prep outs vals).map Prod.fst = outs := by
  simp [prep, List.map_map, Function.comp_def]

theorem mem_prep (outs : List Nat) (vals : List Int) (i o : Nat) (h : outs[i]? = some o) :
    (o, vals.getD i 0) ∈ prep outs vals := by
  simp only [prep, List.mem_map]
  exact ⟨(o, i), by simpa [List.mem_zipIdx_iff_getElem?] using h, rfl⟩

theorem leaf_clock_seq (D : NetS) (j : Nat) (q : QLeaf) (h : D.seqs[j]? = some q) (v : Val) (x : LSt) :
    (D.leaf (D.rid j)).clock v x = q.sem.clock v x := by
  unfold NetS.leaf NetS.rid
  have h1 : D.props[D.props.length + j]? = none := List.getElem?_eq_none (by omega)
  have h2 : D.props.length + j - D.props.length = j := by omega
  rw [h1, h2, h]

theorem range_getD {α : Type} [Inhabited α] (l : List α) : (List.range l.length).map (fun j => l.getD j default) = l := by
  apply List.ext_getElem
  · simp
  · intro i h _
    simp at h
    simp [List.getElem?_eq_getElem h]

theorem flatMap_map_eq {α β γ : Type} (rid : α → β) (f : β → List γ) (g : α → List γ) (l : List α)
    (h : ∀ j, j ∈ l → f (rid j) = g j) : (l.map rid).flatMap f = l.flatMap g := by
  induction l with
  | nil => rfl
  | cons a l ih =>
    simp only [List.map_cons, List.flatMap_cons, h a (by simp)]
    rw [ih (fun j hj => h j (by simp [hj]))]

/-- pre-edge → post-edge (`clockDrivers` then `settleAll`): every clocked leaf `j` stores the attribute and shows on
    each of its outputs the (masked) value its generated `clock()` computes from the PRE-EDGE wire values -/
theorem edge_sim (D : NetS) (s : State LSt) (hp : s.prepared = []) (hq : (D.seqs.flatMap (·.outs)).Nodup) :
    (∀ j q, D.seqs[j]? = some q →
        (settleAll (clockDrivers D.design s D.design.drivers)).st (D.rid j) = (q.ck (q.ins.map s.val) (s.st (D.rid j))).1 ∧
        ∀ i o, q.outs[i]? = some o →
          (settleAll (clockDrivers D.design s D.design.drivers)).val o =
            Bits.put (D.wd o) ((q.ck (q.ins.map s.val) (s.st (D.rid j))).2.getD i 0)) ∧
    (∀ w, (∀ q, q ∈ D.seqs → w ∉ q.outs) → (settleAll (clockDrivers D.design s D.design.drivers)).val w = s.val w) ∧
    (∀ k, k < D.props.length → (settleAll (clockDrivers D.design s D.design.drivers)).st k = s.st k) ∧
    (settleAll (clockDrivers D.design s D.design.drivers)).prepared = [] := by
  let d := D.design
  let qq : Nat → QLeaf := fun j => D.seqs.getD j default
  let g : Nat → List (Nat × Int) := fun j => prep (qq j).outs ((qq j).ck ((qq j).ins.map s.val) (s.st (D.rid j))).2
  have hids : (clockDrivers d s d.drivers) = D.seqIds.foldl (C05.applyRes d (C05.res d s)) s := by
    have : clockDrivers d s d.drivers = D.seqIds.foldl (clockLeaf d) s := by
      simp [clockDrivers, d, NetS.design, enabled]
    rw [this]
    apply C05.foldl_clockLeaf_eq d s _ _ s rfl (fun _ _ => rfl)
    unfold NetS.seqIds
    rw [List.nodup_iff_pairwise_ne, List.pairwise_map]
    apply (List.nodup_iff_pairwise_ne.mp (List.nodup_range (n := D.seqs.length))).imp
    intro a b hab
    unfold NetS.rid
    omega
  have hres : ∀ j, j < D.seqs.length →
      C05.res d s (D.rid j) = (((qq j).ck ((qq j).ins.map s.val) (s.st (D.rid j))).1, g j) := by
    intro j hj
    have hget : D.seqs[j]? = some (qq j) := getElem?_getD _ _ hj
    show (D.leaf (D.rid j)).clock s.val (s.st (D.rid j)) = _
    rw [leaf_clock_seq D j _ hget]
    rfl
  have hps : D.seqIds.flatMap (fun k => (C05.res d s k).2) = (List.range D.seqs.length).flatMap g := by
    unfold NetS.seqIds
    apply flatMap_map_eq
    intro j hj
    rw [hres j (List.mem_range.mp hj)]
  have hfst : ((List.range D.seqs.length).flatMap g).map Prod.fst = D.seqs.flatMap (·.outs) := by
    rw [List.map_flatMap]
    have : ∀ j, (g j).map Prod.fst = (qq j).outs := fun j => prep_fst _ _
    simp only [this]
    conv => rhs; rw [← range_getD D.seqs]
    rw [List.flatMap_map]
  have hnd : (((List.range D.seqs.length).flatMap g).map Prod.fst).Nodup := by rw [hfst]; exact hq
  have hprep : (clockDrivers d s d.drivers).prepared = ((List.range D.seqs.length).flatMap g).map Prod.fst := by
    rw [hids, C05.foldl_applyRes_prepared, hp, hps]; simp
  have hnxt : (clockDrivers d s d.drivers).nxt = ((List.range D.seqs.length).flatMap g).foldl (C05.nstep d) s.nxt := by
    rw [hids, C05.foldl_applyRes_nxt, hps]
  have hval : (clockDrivers d s d.drivers).val = s.val := by rw [hids, C05.foldl_applyRes_val]
  have hstk : ∀ k, (clockDrivers d s d.drivers).st k = if k ∈ D.seqIds then (C05.res d s k).1 else s.st k := by
    intro k; rw [hids, C05.foldl_applyRes_st]
  refine ⟨?_, ?_, ?_, rfl⟩
  · intro j q hR
    have hj : j < D.seqs.length := by
      rcases Nat.lt_or_ge j D.seqs.length with h | h
      · exact h
      · rw [List.getElem?_eq_none h] at hR; cases hR
    have hRd : qq j = q := getD_of_getElem? _ _ _ hR
    constructor
    · show (clockDrivers d s d.drivers).st (D.rid j) = _
      rw [hstk, if_pos (by unfold NetS.seqIds; exact List.mem_map.mpr ⟨j, List.mem_range.mpr hj, rfl⟩), hres j hj, hRd]
    · intro i o ho
      rw [C05.settle_exactly, hprep, hnxt]
      have hmemg : (o, (q.ck (q.ins.map s.val) (s.st (D.rid j))).2.getD i 0) ∈ g j := by
        show _ ∈ prep (qq j).outs _
        rw [hRd]
        exact mem_prep _ _ i o ho
      have hmem : (o, (q.ck (q.ins.map s.val) (s.st (D.rid j))).2.getD i 0) ∈ (List.range D.seqs.length).flatMap g :=
        List.mem_flatMap.mpr ⟨j, List.mem_range.mpr hj, hmemg⟩
      have hin : o ∈ ((List.range D.seqs.length).flatMap g).map Prod.fst := List.mem_map.mpr ⟨_, hmem, rfl⟩
      rw [if_pos hin]
      exact foldl_nstep_hit d _ s.nxt hnd _ hmem
  · intro w hw
    rw [C05.settle_exactly, hprep, hval]
    have : w ∉ ((List.range D.seqs.length).flatMap g).map Prod.fst := by
      rw [hfst]
      intro hmem
      rcases List.mem_flatMap.mp hmem with ⟨q, hqm, e⟩
      exact hw q hqm e
    rw [if_neg this]
  · intro k hk
    show (clockDrivers d s d.drivers).st k = _
    rw [hstk, if_neg]
    unfold NetS.seqIds NetS.rid
    intro hmem
    rcases List.mem_map.mp hmem with ⟨j, _, e⟩
    omega

end SeqMem
