import Py4hwV.Proofs.C17Tx
import Py4hwV.Proofs.C17Rx
/-
  C17 — receive side: Nat-level mirror, phases (idle / busy b k er / ended) and the one-step lemma, parametric in n ≥ 1.
-/
set_option linter.unusedSimpArgs false
namespace C17
open Uart

structure RxN where
  div : Div
  zRx : Nat
  zSmp : Nat
  fsm : FsmN
  des : DesN

def RxN.toRx (r : RxN) : RxSide := ⟨r.div, r.zRx, r.zSmp, ⟨r.fsm.st⟩, r.fsm.sync, r.fsm.active, r.des.toDes⟩
def RxN.start (r : RxN) (rx : Nat) : Nat := and1 (edgeNeg rx r.zRx) (not1 r.fsm.active)
def RxN.sample (r : RxN) : Nat := and1 (edgePos r.div.clk r.zSmp) r.fsm.active
def RxN.step (n : Nat) (r : RxN) (rx ready : Nat) : RxN :=
  ⟨r.div.step n (r.start rx), rx, r.div.clk, fsmSpec r.fsm (r.start rx) r.des.desync, desSpec r.des rx r.sample ready⟩
def RxN.init : RxN := ⟨Div.init, 0, 0, ⟨0, 0, 0⟩, ⟨0, 0, 0, 0, 0, 0, 0⟩⟩

theorem rx_init_eq : RxN.init.toRx = RxSide.init := rfl

theorem rx_step_eq (n : Nat) (r : RxN) (rx ready : Nat) :
    r.toRx.step n rx ready = (r.step n rx ready).toRx := by
  have hf := fsm_step_eq r.fsm (r.start rx) r.des.desync
  simp only [Prod.mk.injEq] at hf
  obtain ⟨h1, h2, h3⟩ := hf
  simp only [RxN.toRx, RxSide.step, RxN.step, RxSide.start, RxSide.rxNeg, RxSide.sample, RxSide.preSample, RxN.start,
    RxN.sample, des_step_eq] at *
  have hd : r.des.toDes.desync = r.des.desync := rfl
  rw [hd, h1, h2, h3]

inductive RxPh where
  | idle (z : Nat)            -- not active; z = value of the rx edge-detector register (previous line level)
  | busy (b k er : Nat)       -- synchronised: k samples taken so far, next sample in er cycles
  | ended                     -- the cycle after the 10th sample: desync = 1
deriving Repr, DecidableEq

def RxAt (n : Nat) (r : RxN) : RxPh → Prop
  | .idle z => r.fsm.st = 0 ∧ r.fsm.active = 0 ∧ r.des.st = 0 ∧ r.des.desync = 0 ∧ r.div.clk ≤ 1 ∧ r.zSmp ≤ 1 ∧ r.zRx = z
  | .busy b k er => r.fsm.st = 1 ∧ r.fsm.active = 1 ∧ r.des.desync = 0 ∧ Ph n r.div r.zSmp er ∧ er < 2 * n ∧ k ≤ 9 ∧
      (k = 0 → r.des.st = 0) ∧ (1 ≤ k → r.des.st = 2 ∧ r.des.cnt = k - 1 ∧ r.des.temp = b % 2 ^ (k - 1))
  | .ended => r.fsm.st = 1 ∧ r.fsm.active = 1 ∧ r.des.desync = 1 ∧ r.des.st = 0 ∧ Ph n r.div r.zSmp (2 * n - 1)

/-- phase transition for line level x (b = byte of the frame that starts, ghost) -/
def rxNext (n : Nat) (ph : RxPh) (x b : Nat) : RxPh × Option Nat :=
  match ph with
  | .idle z => if z = 1 ∧ x = 0 then (.busy b 0 n, none) else (.idle x, none)
  | .busy b' k er =>
    if er ≠ 0 then (.busy b' k (er - 1), none)
    else if k < 9 then (.busy b' (k + 1) (2 * n - 1), none)
    else (.ended, some (b' % 256))
  | .ended => (.idle x, none)

/-- the line level is what the phase needs: at a sampling cycle it is frame bit k -/
def RxOk (ph : RxPh) (x : Nat) : Prop :=
  match ph with
  | .idle z => z ≤ 1 ∧ x ≤ 1
  | .busy b k er => er = 0 → x = fb b k
  | .ended => True

theorem ph_clk_le (n : Nat) (d : Div) (z e : Nat) (h : Ph n d z e) : d.clk ≤ 1 ∧ z ≤ 1 := by
  rcases h with ⟨hc, _, _, _, hz⟩ | ⟨hc, _, ⟨_, _, hz⟩ | ⟨_, _, hz⟩⟩ <;> omega

theorem or_bit (b k : Nat) (hk : 1 ≤ k) :
    b % 2 ^ (k - 1) ||| (b / 2 ^ (k - 1) % 2) <<< (k - 1) = b % 2 ^ k := by
  have hlt : b % 2 ^ (k - 1) < 2 ^ (k - 1) := Nat.mod_lt _ (Nat.two_pow_pos _)
  rw [Nat.or_comm, ← Nat.shiftLeft_add_eq_or_of_lt hlt, Nat.shiftLeft_eq]
  have := acc_step b k hk
  rw [Nat.mod_mod] at this
  omega

end C17
