import Py4hwV.Proofs.C17Tx
import Py4hwV.Proofs.C17Rx
/-
  C17 — receive side: Nat-level mirror, phases (idle / busy b k er / ended) and the one-step lemma, parametric in n ≥ 1.
-/
set_option linter.unusedSimpArgs false
namespace C17
open Uart

structure RxN where
  div : Div
  zRx : Nat
  zSmp : Nat
  fsm : FsmN
  des : DesN

def RxN.toRx (r : RxN) : RxSide := ⟨r.div, r.zRx, r.zSmp, ⟨r.fsm.st⟩, r.fsm.sync, r.fsm.active, r.des.toDes⟩
def RxN.start (r : RxN) (rx : Nat) : Nat := and1 (edgeNeg rx r.zRx) (not1 r.fsm.active)
def RxN.sample (r : RxN) : Nat := and1 (edgePos r.div.clk r.zSmp) r.fsm.active
def RxN.step (n : Nat) (r : RxN) (rx ready : Nat) : RxN :=
  ⟨r.div.step n (r.start rx), rx, r.div.clk, fsmSpec r.fsm (r.start rx) r.des.desync, desSpec r.des rx r.sample ready⟩
def RxN.init : RxN := ⟨Div.init, 0, 0, ⟨0, 0, 0⟩, ⟨0, 0, 0, 0, 0, 0, 0⟩⟩

theorem rx_init_eq : RxN.init.toRx = RxSide.init := rfl

theorem rx_step_eq (n : Nat) (r : RxN) (rx ready : Nat) :
    r.toRx.step n rx ready = (r.step n rx ready).toRx := by
  have hf := fsm_step_eq r.fsm (r.start rx) r.des.desync
  simp only [Prod.mk.injEq] at hf
  obtain ⟨h1, h2, h3⟩ := hf
  simp only [RxN.toRx, RxSide.step, RxN.step, RxSide.start, RxSide.rxNeg, RxSide.sample, RxSide.preSample, RxN.start,
    RxN.sample, des_step_eq] at *
  have hd : r.des.toDes.desync = r.des.desync := rfl
  rw [hd, h1, h2, h3]

inductive RxPh where
  | idle (z : Nat)            -- not active; z = value of the rx edge-detector register (previous line level)
  | busy (b k er : Nat)       -- synchronised: k samples taken so far, next sample in er cycles
  | ended                     -- the cycle after the 10th sample: desync = 1
deriving Repr, DecidableEq

def RxAt (n : Nat) (r : RxN) : RxPh → Prop
  | .idle z => r.fsm.st = 0 ∧ r.fsm.active = 0 ∧ r.des.st = 0 ∧ r.des.desync = 0 ∧ r.div.clk ≤ 1 ∧ r.zSmp ≤ 1 ∧ r.zRx = z
  | .busy b k er => r.fsm.st = 1 ∧ r.fsm.active = 1 ∧ r.des.desync = 0 ∧ Ph n r.div r.zSmp er ∧ er < 2 * n ∧ k ≤ 9 ∧
      (k = 0 → r.des.st = 0) ∧ (1 ≤ k → r.des.st = 2 ∧ r.des.cnt = k - 1 ∧ r.des.temp = b % 2 ^ (k - 1))
  | .ended => r.fsm.st = 1 ∧ r.fsm.active = 1 ∧ r.des.desync = 1 ∧ r.des.st = 0 ∧ Ph n r.div r.zSmp (2 * n - 1)

/-- phase transition for line level x (b = byte of the frame that starts, ghost) -/
def rxNext (n : Nat) (ph : RxPh) (x b : Nat) : RxPh × Option Nat :=
  match ph with
  | .idle z => if z = 1 ∧ x = 0 then (.busy b 0 n, none) else (.idle x, none)
  | .busy b' k er =>
    if er ≠ 0 then (.busy b' k (er - 1), none)
    else if k < 9 then (.busy b' (k + 1) (2 * n - 1), none)
    else (.ended, some (b' % 256))
  | .ended => (.idle x, none)

/-- the line level is what the phase needs: at a sampling cycle it is frame bit k -/
def RxOk (ph : RxPh) (x : Nat) : Prop :=
  match ph with
  | .idle z => z ≤ 1 ∧ x ≤ 1
  | .busy b k er => er = 0 → x = fb b k
  | .ended => True

theorem ph_clk_le (n : Nat) (d : Div) (z e : Nat) (h : Ph n d z e) : d.clk ≤ 1 ∧ z ≤ 1 := by
  rcases h with ⟨hc, _, _, _, hz⟩ | ⟨hc, _, ⟨_, _, hz⟩ | ⟨_, _, hz⟩⟩ <;> omega

theorem or_bit (b k : Nat) (hk : 1 ≤ k) :
    b % 2 ^ (k - 1) ||| (b / 2 ^ (k - 1) % 2) <<< (k - 1) = b % 2 ^ k := by
  have hlt : b % 2 ^ (k - 1) < 2 ^ (k - 1) := Nat.mod_lt _ (Nat.two_pow_pos _)
  rw [Nat.or_comm, ← Nat.shiftLeft_add_eq_or_of_lt hlt, Nat.shiftLeft_eq]
  have := acc_step b k hk
  rw [Nat.mod_mod] at this
  omega

theorem desSpec_keep (s : DesN) (rx sample ready : Nat) :
    (desSpec s rx sample ready).st = (desSpec1 s rx sample).st ∧ (desSpec s rx sample ready).cnt = (desSpec1 s rx sample).cnt ∧
    (desSpec s rx sample ready).temp = (desSpec1 s rx sample).temp ∧
    (desSpec s rx sample ready).desync = (desSpec1 s rx sample).desync := by
  unfold desSpec desSpec2
  split
  · split <;> simp
  · split
    · split <;> simp
    · simp

theorem and1_one (p : Nat) (hp : p ≤ 1) : and1 p 1 = p := by
  unfold and1; split <;> omega

theorem div_step_clk_le (n : Nat) (d : Div) (reset : Nat) (h : d.clk ≤ 1) : (d.step n reset).clk ≤ 1 := by
  unfold Div.step
  simp only
  split
  · omega
  · split
    · unfold not1; split <;> omega
    · exact h

theorem rx_step (n : Nat) (hn : 1 ≤ n) (r : RxN) (ph : RxPh) (x ready b : Nat) (h : RxAt n r ph) (ok : RxOk ph x) :
    RxAt n (r.step n x ready) (rxNext n ph x b).1 ∧ feOf r.des r.sample = (rxNext n ph x b).2 := by
  obtain ⟨div, zRx, zSmp, fsm, des⟩ := r
  obtain ⟨fst, fsync, fact⟩ := fsm
  cases ph with
  | idle z =>
    obtain ⟨h1, h2, h3, h4, h5, h6, h7⟩ := h
    simp only at h1 h2 h3 h4 h5 h6 h7
    subst h1; subst h2; subst h7
    obtain ⟨okz, okx⟩ := ok
    have hsm : RxN.sample ⟨div, zRx, zSmp, ⟨0, fsync, 0⟩, des⟩ = 0 := by simp [RxN.sample, and1]
    obtain ⟨k1, k2, k3, k4⟩ := desSpec_keep des x 0 ready
    have hd1 : (desSpec1 des x 0).st = 0 ∧ (desSpec1 des x 0).desync = 0 := by simp [desSpec1, h3]
    by_cases hc : zRx = 1 ∧ x = 0
    · obtain ⟨hz, hx⟩ := hc
      subst hz; subst hx
      have hst : RxN.start ⟨div, 1, zSmp, ⟨0, fsync, 0⟩, des⟩ 0 = 1 := by simp [RxN.start, edgeNeg, and1, not1]
      simp only [rxNext, RxN.step, hst, hsm, and_self, if_true, RxAt, feOf, h3]
      refine ⟨⟨by simp [fsmSpec], by simp [fsmSpec], by rw [k4]; exact hd1.2, ?_, by omega, by omega, ?_, ?_⟩, by simp⟩
      · left; simp [Div.step, or1]; omega
      · intro _; rw [k1]; exact hd1.1
      · intro hk; omega
    · have hst : RxN.start ⟨div, zRx, zSmp, ⟨0, fsync, 0⟩, des⟩ x = 0 := by
        simp only [RxN.start, edgeNeg, and1, not1]
        by_cases hx0 : x = 0
        · have : zRx = 0 := by
            have : ¬ (zRx = 1) := fun hz => hc ⟨hz, hx0⟩
            omega
          simp [hx0, this]
        · simp [hx0]
      simp only [rxNext, hc, if_false, RxN.step, hst, hsm, RxAt, feOf, h3]
      refine ⟨⟨by simp [fsmSpec], by simp [fsmSpec], by rw [k1]; exact hd1.1, by rw [k4]; exact hd1.2,
        div_step_clk_le n div 0 h5, h5, by trivial⟩, by simp⟩
  | busy b' k er =>
    obtain ⟨h1, h2, h3, h4, h5, h6, h7, h8⟩ := h
    simp only at h1 h2 h3 h4 h5 h6 h7 h8
    subst h1; subst h2
    have hpl := ph_pulse n div zSmp er h4
    have hst : RxN.start ⟨div, zRx, zSmp, ⟨1, fsync, 1⟩, des⟩ x = 0 := by simp [RxN.start, and1, not1]
    have hsm : RxN.sample ⟨div, zRx, zSmp, ⟨1, fsync, 1⟩, des⟩ = if er = 0 then 1 else 0 := by
      simp only [RxN.sample]; rw [hpl]; split <;> simp [and1]
    have hph := ph_step n hn div zSmp er h4
    have hfs : fsmSpec ⟨1, fsync, 1⟩ 0 des.desync = ⟨1, 0, 1⟩ := by simp [fsmSpec, h3]
    obtain ⟨dst, dcnt, dstv, dtemp, ddes, dv, dvalid⟩ := des
    simp only at h3 h7 h8
    subst h3
    by_cases he : er = 0
    · subst he
      have hx : x = fb b' k := ok rfl
      have hne : nextE n 0 = 2 * n - 1 := by simp [nextE]
      rw [hne] at hph
      rw [if_pos rfl] at hsm
      obtain ⟨k1, k2, k3, k4⟩ := desSpec_keep ⟨dst, dcnt, dstv, dtemp, 0, dv, dvalid⟩ x 1 ready
      by_cases hk9 : k < 9
      · simp only [rxNext, ne_eq, not_true_eq_false, if_false, hk9, if_true, RxN.step, hst, hsm, RxAt, hfs, feOf]
        by_cases hk0 : k = 0
        · subst hk0
          have hs0 : dst = 0 := h7 rfl
          subst hs0
          have hx0 : x = 0 := by rw [hx]; simp [fb]
          subst hx0
          refine ⟨⟨by trivial, by trivial, ?_, hph, by omega, by omega, by omega, ?_⟩, by simp⟩
          · rw [k4]; simp [desSpec1]
          · intro _; rw [k1, k2, k3]; simp [desSpec1, Nat.mod_one]
        · obtain ⟨g1, g2, g3⟩ := h8 (by omega)
          subst g1; subst g2; subst g3
          have hc8 : ¬ (k - 1 = 8) := by omega
          have hk8 : k ≤ 8 := by omega
          have hxv : x = b' / 2 ^ (k - 1) % 2 := by rw [hx]; simp [fb, hk0, hk8]
          refine ⟨⟨by trivial, by trivial, ?_, hph, by omega, by omega, by omega, ?_⟩, by simp [hc8]⟩
          · rw [k4]; simp [desSpec1, hc8]
          · intro _
            rw [k1, k2, k3]
            simp only [desSpec1, hc8]
            simp
            refine ⟨by omega, ?_⟩
            rw [hxv]; exact or_bit b' k (by omega)
      · have hk : k = 9 := by omega
        subst hk
        obtain ⟨g1, g2, g3⟩ := h8 (by omega)
        subst g1; subst g2; subst g3
        simp only [rxNext, ne_eq, not_true_eq_false, if_false, hk9, RxN.step, hst, hsm, RxAt, hfs, feOf]
        refine ⟨⟨by trivial, by trivial, ?_, ?_, hph⟩, by simp⟩
        · rw [k4]; simp [desSpec1]
        · rw [k1]; simp [desSpec1]
    · have hne : nextE n er = er - 1 := by simp [nextE, he]
      rw [hne] at hph
      rw [if_neg he] at hsm
      obtain ⟨k1, k2, k3, k4⟩ := desSpec_keep ⟨dst, dcnt, dstv, dtemp, 0, dv, dvalid⟩ x 0 ready
      simp only [rxNext, ne_eq, he, not_false_eq_true, if_true, RxN.step, hst, hsm, if_false, RxAt, hfs, feOf]
      refine ⟨⟨by trivial, by trivial, ?_, hph, by omega, h6, ?_, ?_⟩, by simp⟩
      · rw [k4]; simp only [desSpec1]; split <;> (try split) <;> simp
      · intro hk; rw [k1]; have := h7 hk; subst this; simp [desSpec1]
      · intro hk
        obtain ⟨g1, g2, g3⟩ := h8 hk
        subst g1
        rw [k1, k2, k3]; simp [desSpec1, g2, g3]
  | ended =>
    obtain ⟨h1, h2, h3, h4, h5⟩ := h
    simp only at h1 h2 h3 h4 h5
    subst h1; subst h2
    have hpl := ph_pulse n div zSmp (2 * n - 1) h5
    have hn0 : ¬ (2 * n - 1 = 0) := by omega
    have hst : RxN.start ⟨div, zRx, zSmp, ⟨1, fsync, 1⟩, des⟩ x = 0 := by simp [RxN.start, and1, not1]
    have hsm : RxN.sample ⟨div, zRx, zSmp, ⟨1, fsync, 1⟩, des⟩ = 0 := by
      simp only [RxN.sample]; rw [hpl]; simp [hn0, and1]
    have hph := ph_step n hn div zSmp (2 * n - 1) h5
    have hcl := ph_clk_le n _ _ _ hph
    obtain ⟨k1, k2, k3, k4⟩ := desSpec_keep des x 0 ready
    simp only [rxNext, RxN.step, hst, hsm, RxAt, feOf, h4]
    refine ⟨⟨by simp [fsmSpec, h3], by simp [fsmSpec, h3], ?_, ?_, hcl.1, hcl.2, by trivial⟩, by simp⟩
    · rw [k1]; simp [desSpec1, h4]
    · rw [k4]; simp [desSpec1, h4]

end C17
