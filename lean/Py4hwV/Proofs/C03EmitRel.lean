import Py4hwV.Verilog.EmitMDOf
/-
  C03 — the level-free list `S.toHS` (Verilog/EmitMDOf.lean) of a nested description `S : FlatM.HierSrc` emits the SAME module
  list as the C01 model: `toHS_mods`, `toHS_emit`.  Every operation of a level of Emit/Hier.lean (`Low.hasReg`, `Low.items`,
  `Low.modOf`, `Low.mods` of `lowN wd clk n`) is the corresponding operation of Verilog/EmitMD.lean on the converted child /
  module, by induction on the nesting depth.
-/
namespace C03Emit
open V FlatM FlatM.HierSrc

/-! ### the clock flag -/

theorem hasRegN_eq (wd : Nat → Nat) (clk : String) : ∀ (n : Nat) (c : ChildN n), hasRegN n c = (lowN wd clk n).hasReg c
  | 0, _ => rfl
  | _ + 1, .g _ => rfl
  | n + 1, .sub _ b => by
      show b.children.any (hasRegN n) = b.children.any (lowN wd clk n).hasReg
      congr 1; funext c; exact hasRegN_eq wd clk n c

theorem modHasRegN_eq (wd : Nat → Nat) (clk : String) (n : Nat) (b : ModN n) :
    modHasRegN n b = (lowN wd clk n).modHasReg b := by
  show b.children.any (hasRegN n) = b.children.any (lowN wd clk n).hasReg
  congr 1; funext c; exact hasRegN_eq wd clk n c

theorem convG_hasClk (c : GChild) : CI.hasClk (convG c) = GChild.isReg c := by cases c <;> rfl

theorem convN_hasClk (wd : Nat → Nat) (clk : String) : ∀ (n : Nat) (c : ChildN n), CI.hasClk (convN n c) = (lowN wd clk n).hasReg c
  | 0, c => convG_hasClk c
  | _ + 1, .g c => convG_hasClk c
  | n + 1, .sub _ b => modHasRegN_eq wd clk n b

theorem mdOfN_hasClk (wd : Nat → Nat) (clk : String) (n : Nat) (b : ModN n) :
    MD.hasClk (mdOfN n b) = (lowN wd clk n).modHasReg b := by
  show (b.children.map (convN n)).any CI.hasClk = b.children.any (lowN wd clk n).hasReg
  rw [List.any_map]
  congr 1; funext c; exact convN_hasClk wd clk n c

/-! ### items, modules -/

theorem ciItems_convG (H : HSrc) (nm : Nat → String) (c : GChild) :
    H.ciItems nm (convG c) = HierSrc.gchildItems H.wd nm H.clk c := by cases c <;> rfl

theorem ciItems_convN (H : HSrc) (nm : Nat → String) :
    ∀ (n : Nat) (c : ChildN n), H.ciItems nm (convN n c) = (lowN H.wd H.clk n).items nm c
  | 0, c => ciItems_convG H nm c
  | _ + 1, .g c => ciItems_convG H nm c
  | n + 1, .sub iname b => by
      show [Item.inst b.mname iname [] (H.subConns nm
              { iname := iname, mname := b.mname, hasClk := modHasRegN n b, inputs := b.inputs, outputs := b.outputs })] =
           [Item.inst b.mname iname [] (HierSrc.subConns nm H.clk ((lowN H.wd H.clk n).modHasReg b) b)]
      rw [← modHasRegN_eq H.wd H.clk n b]
      rfl

theorem mdModule_mdOfN (H : HSrc) (n : Nat) (b : ModN n) :
    H.mdModule (mdOfN n b) = (lowN H.wd H.clk n).modOf H.wd H.clk b := by
  have hitems : (mdOfN n b).children.flatMap (H.ciItems (mdOfN n b).nm) = b.children.flatMap ((lowN H.wd H.clk n).items b.nm) := by
    show (b.children.map (convN n)).flatMap (H.ciItems b.nm) = _
    rw [List.flatMap_map]
    congr 1; funext c; exact ciItems_convN H b.nm n c
  unfold HSrc.mdModule Low.modOf
  rw [hitems, mdOfN_hasClk H.wd H.clk n b]
  rfl

theorem toModule_modsOfG (H : HSrc) (c : GChild) : (modsOfG c).map H.toModule = HierSrc.gchildMods H.wd c := by
  cases c <;> rfl

theorem toModule_modsOfN (H : HSrc) : ∀ (n : Nat) (c : ChildN n), (modsOfN n c).map H.toModule = (lowN H.wd H.clk n).mods c
  | 0, c => toModule_modsOfG H c
  | _ + 1, .g c => toModule_modsOfG H c
  | n + 1, .sub _ b => by
      show (ModD.str (mdOfN n b) :: b.children.flatMap (modsOfN n)).map H.toModule =
           (lowN H.wd H.clk n).modOf H.wd H.clk b :: b.children.flatMap (lowN H.wd H.clk n).mods
      rw [List.map_cons, List.map_flatMap]
      congr 1
      · exact mdModule_mdOfN H n b
      · congr 1; funext c; exact toModule_modsOfN H n c

theorem toModule_flatMap_modsOfN (H : HSrc) (n : Nat) (cs : List (ChildN n)) :
    (cs.flatMap (modsOfN n)).map H.toModule = cs.flatMap (lowN H.wd H.clk n).mods := by
  rw [List.map_flatMap]
  congr 1; funext c; exact toModule_modsOfN H n c

/-! ### the whole description -/

theorem toHS_wd (S : HierSrc) : S.toHS.wd = S.wd := rfl
theorem toHS_clk (S : HierSrc) : S.toHS.clk = S.clk := rfl

/-- the converted list, module by module, is the C01 model's module list -/
theorem toHS_mods (S : HierSrc) : S.toHS.mods.map S.toHS.toModule = S.mods := by
  show (ModD.str (mdOfN S.depth S.top) :: S.top.children.flatMap (modsOfN S.depth)).map S.toHS.toModule =
       (lowN S.wd S.clk S.depth).modOf S.wd S.clk S.top :: S.top.children.flatMap (lowN S.wd S.clk S.depth).mods
  rw [List.map_cons, toModule_flatMap_modsOfN]
  congr 1
  exact mdModule_mdOfN S.toHS S.depth S.top

/-- **`toHS_emit`**: the level-free description emits exactly what the nested description emits -/
theorem toHS_emit (S : HierSrc) : S.toHS.emit = S.emit := by
  show FlatSrc.dedupMods (S.toHS.mods.map S.toHS.toModule) = FlatSrc.dedupMods S.mods
  rw [toHS_mods]

end C03Emit
