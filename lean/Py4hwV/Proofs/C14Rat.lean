import Py4hwV.Proofs.C14Lemmas
/- C14 — exact rationals (`Rat`, Lean core): the value `val = sgn / 2^f` of an encoding, order, sums, products and the
   floor of a quotient as integer division.  Core Lean only. -/
namespace C14
open Bits Lib.Fxp

theorem rat_two_pow_pos (f : Nat) : (0:Rat) < (2:Rat)^f := Rat.pow_pos (by decide)

theorem rat_cast_pow (f : Nat) : (((2:Int)^f : Int) : Rat) = (2:Rat)^f := by
  rw [Rat.intCast_pow]; rfl

/-- floor of a quotient of integers is Lean's (floor) integer division -/
theorem floor_div (n d : Int) (hd : 0 < d) : ((n:Rat) / (d:Rat)).floor = n / d := by
  have hdr : (0:Rat) < (d:Rat) := by
    have := (@Rat.intCast_lt_intCast 0 d).mpr hd
    simpa using this
  have h1 : ¬ ((n:Rat) / (d:Rat)).floor < n / d := by
    rw [Rat.floor_lt_iff, Rat.div_lt_iff hdr, ← Rat.intCast_mul, Rat.intCast_lt_intCast]
    have := Int.ediv_mul_le n (Int.ne_of_gt hd)
    omega
  have h2 : ((n:Rat) / (d:Rat)).floor < n / d + 1 := by
    rw [Rat.floor_lt_iff, Rat.div_lt_iff hdr, ← Rat.intCast_mul, Rat.intCast_lt_intCast]
    exact Int.lt_ediv_add_one_mul_self n hd
  omega

theorem val_lt (w f a b : Nat) : FxpSpec.val w f a < FxpSpec.val w f b ↔ FxpSpec.sgn w a < FxpSpec.sgn w b := by
  unfold FxpSpec.val
  have hp := rat_two_pow_pos f
  rw [Rat.div_lt_iff hp, Rat.div_mul_cancel (Rat.ne_of_gt hp), Rat.intCast_lt_intCast]

theorem val_neg (w f a : Nat) : FxpSpec.val w f a < 0 ↔ FxpSpec.sgn w a < 0 := by
  unfold FxpSpec.val
  have hp := rat_two_pow_pos f
  rw [Rat.div_lt_iff hp, Rat.zero_mul]
  exact @Rat.intCast_lt_intCast _ 0

theorem val_add (f : Nat) (x y : Int) : ((x + y : Int) : Rat) / (2:Rat)^f = (x:Rat) / (2:Rat)^f + (y:Rat) / (2:Rat)^f := by
  rw [Rat.intCast_add, Rat.div_def, Rat.div_def, Rat.div_def, Rat.add_mul]

theorem val_sub (f : Nat) (x y : Int) : ((x - y : Int) : Rat) / (2:Rat)^f = (x:Rat) / (2:Rat)^f - (y:Rat) / (2:Rat)^f := by
  rw [Rat.intCast_sub, Rat.div_def, Rat.div_def, Rat.div_def]; grind

theorem val_mul (fa fb : Nat) (x y : Int) :
    (x:Rat) / (2:Rat)^fa * ((y:Rat) / (2:Rat)^fb) = ((x * y : Int) : Rat) / (2:Rat)^(fa+fb) := by
  rw [Rat.intCast_mul]; grind

/-- the specification's `rescale` is the floor of the exact rational product scaled to the result format -/
theorem rescale_floor (P : Int) (F T : Nat) :
    FxpSpec.rescale P F T = (((P:Rat) / (2:Rat)^F) * (2:Rat)^T).floor := by
  unfold FxpSpec.rescale
  rw [← floor_div _ _ (two_pow_pos_int F), Rat.intCast_mul, rat_cast_pow, rat_cast_pow]
  congr 1
  grind
end C14
