import Py4hwV.Proofs.C13Conv
/-
  C13 — FixedPointtoFP_SP (arithmetic_fp.py:352-406): the model `Lib.Fp.fixedtofp aw f1` as arithmetic, for EVERY format the
  constructor accepts (1 ≤ aw ≤ 32, any integer f[1]) and every encoding, and its value specification.
  Format reading: the `aw`-bit two's-complement word `a` denotes  x · 2^(f1 + 1 − aw),  x = toSigned aw a  (f = (sign, f1, aw−1−f1):
  f1 integer bits above the binary point next to the sign bit).  The datapath is the one of InttoFP_SP behind a constant left
  shift by 32 − aw, so the arithmetic core `i2f_core` is shared.
-/
namespace C13
open Lib Lib.Fp Lib.LSpec FpSpec

theorem clz_legal5 : ∀ aw : Fin 33, 1 ≤ aw.val → Lib.countLeadingZerosLegal aw.val 5 = true := by decide +kernel

theorem toSigned_natAbs_le (w a : Nat) (hw : 1 ≤ w) (ha : a < 2^w) : (Bits.toSigned w a).natAbs ≤ 2^(w-1) := by
  have h2 : 2^w = 2 * 2^(w-1) := by
    rw [show w = (w - 1) + 1 by omega, Nat.pow_succ]; simp only [Nat.add_sub_cancel]; omega
  have c : ((2:Int)^w) = ((2^w : Nat) : Int) := by simp
  unfold Bits.toSigned
  split
  · omega
  · rw [c]; omega

/-- clz of a non-zero `aw`-bit value as `aw − 1 − log2` -/
theorem log2_lt_of_lt (n w : Nat) (h0 : n ≠ 0) (h : n < 2^w) : n.log2 < w := (Nat.log2_lt h0).mpr h

/-- what FixedPointtoFP_SP computes, for every accepted format and every encoding, in terms of
    x = toSigned aw a, n = |x|, L = log2 n: the InttoFP datapath with exponent constant 127 + f1 and clz = aw − 1 − L.
    The exponent field is `(127 + f1 − clz) mod 256` (8-bit Constant and Sub). -/
theorem fixedtofp_eq (aw : Nat) (f1 : Int) (a : Nat) (h1 : 1 ≤ aw) (h32 : aw ≤ 32) (ha : a < 2^aw) :
    let x := Bits.toSigned aw a
    let n := x.natAbs
    fixedtofp aw f1 a =
      (if n = 0 then 0 else
         (if x < 0 then 1 else 0) * 2^31 + (Bits.put 8 (127 + f1 - ((aw - 1 - n.log2 : Nat) : Int)) * 2^23
            + ((n * 2^(31 - n.log2)) % 2^32 / 2^8) % 2^23),
       b2n (decide ((n * 2^(31 - n.log2)) % 2^32 % 2^8 ≠ 0))) := by
  intro x n
  have hn : n ≤ 2^(aw-1) := toSigned_natAbs_le aw a h1 ha
  have hpw : 2^(aw-1) < 2^aw := Nat.pow_lt_pow_right (by decide) (by omega)
  have hnaw : n < 2^aw := by omega
  have hlegal : Lib.countLeadingZerosLegal aw 5 = true := clz_legal5 ⟨aw, by omega⟩ h1
  have habs : (Lib.abs aw aw 1 a) = (n, if x < 0 then 1 else 0) := by
    refine Prod.ext ?_ ?_
    · rw [C07.abs_spec aw aw 1 a h1 ha (by decide)]
      show (ArithSpec.sgn aw a).natAbs % 2^aw = n
      rw [C07.sgn_of_lt aw a ha]
      exact Nat.mod_eq_of_lt hnaw
    · rw [C07.abs_inverted_spec aw aw a h1 ha]
      show (if ArithSpec.sgn aw a < 0 then 1 else 0) = _
      rw [C07.sgn_of_lt aw a ha]
  have hclz : Lib.countLeadingZeros aw 5 1 n = ((if n = 0 then aw else aw - 1 - n.log2) % 2^5, if n = 0 then 1 else 0) := by
    refine Prod.ext ?_ ?_
    · rw [C07.countLeadingZeros_spec aw 5 1 n hlegal (by decide) hnaw]
      unfold ArithSpec.countLeadingZeros ArithSpec.clz
      rw [Nat.mod_eq_of_lt hnaw]
    · rw [C07.countLeadingZeros_z_spec aw 5 n hnaw]
      unfold ArithSpec.isZero
      rw [Nat.mod_eq_of_lt hnaw]
  unfold fixedtofp
  simp only [habs, hclz]
  by_cases h0 : n = 0
  · simp only [h0, if_true]
    have hsl : shiftLeft 32 5 32 (shiftLeftConstant 32 0 (32 - aw)) (aw % 2^5) = 0 := by
      rw [C07.shiftLeft_spec 32 5 32 _ _ (by decide) (Nat.mod_lt _ (by decide))]
      simp [ArithSpec.shiftLeft, Lib.shiftLeftConstant, Leaf.shlC]
    rw [hsl]
    refine Prod.ext ?_ ?_
    · simp only [Leaf.mux2, if_true]
      decide
    · show Leaf.buf 1 (Lib.notEqualConstant 8 1 (Leaf.range 8 0 7 0) 0) = _
      decide
  · have hL : n.log2 < aw := log2_lt_of_lt n aw h0 hnaw
    have hc : (aw - 1 - n.log2) % 2^5 = aw - 1 - n.log2 := Nat.mod_eq_of_lt (by simp only [Nat.reducePow]; omega)
    simp only [h0, if_false, hc]
    have hpre : shiftLeftConstant 32 n (32 - aw) = n * 2^(32 - aw) := by
      unfold Lib.shiftLeftConstant Leaf.shlC
      rw [Nat.shiftLeft_eq]
      apply Nat.mod_eq_of_lt
      calc n * 2^(32 - aw) ≤ 2^(aw-1) * 2^(32 - aw) := Nat.mul_le_mul_right _ hn
        _ = 2^31 := by rw [← Nat.pow_add]; congr 1; omega
        _ < 2^32 := by decide
    rw [hpre, C07.shiftLeft_spec 32 5 32 _ (aw - 1 - n.log2) (by decide) (by simp only [Nat.reducePow]; omega)]
    have hshv : ArithSpec.shiftLeft 32 (n * 2^(32 - aw)) (aw - 1 - n.log2) = n * 2^(31 - n.log2) % 2^32 := by
      unfold ArithSpec.shiftLeft
      rw [Nat.mul_assoc, ← Nat.pow_add]
      congr 3; omega
    rw [hshv]
    have hsh : n * 2 ^ (31 - n.log2) % 2 ^ 32 < 2^32 := Nat.mod_lt _ (by decide)
    generalize n * 2 ^ (31 - n.log2) % 2 ^ 32 = sh at *
    have hs : (if x < 0 then 1 else 0) < 2 := by split <;> omega
    generalize (if x < 0 then 1 else 0) = sg at *
    have hexp : Leaf.sub 8 (Leaf.const 8 (127 + f1)) (aw - 1 - n.log2) = Bits.put 8 (127 + f1 - ((aw - 1 - n.log2 : Nat) : Int)) := by
      unfold Leaf.sub Leaf.const
      apply Bits.put_congr
      rw [Bits.put_cast]
      simp only [Int.reducePow]
      omega
    have hfr : Leaf.range 23 sh 30 8 = sh / 2^8 % 2^23 := by
      simp only [Leaf.range, Nat.shiftRight_eq_div_pow, Nat.reducePow, Nat.reduceSub, Nat.reduceAdd]; omega
    have hlo : Leaf.range 8 sh 7 0 = sh % 2^8 := by
      simp only [Leaf.range, Nat.shiftRight_eq_div_pow, Nat.reducePow, Nat.reduceSub, Nat.reduceAdd]; omega
    rw [hexp, hfr, hlo]
    have hE := Bits.put_lt 8 (127 + f1 - ((aw - 1 - n.log2 : Nat) : Int))
    generalize Bits.put 8 (127 + f1 - ((aw - 1 - n.log2 : Nat) : Int)) = E at *
    rw [C08.notEqualConstant_spec 8 (sh % 2^8) 0 (by decide) (Nat.mod_lt _ (by decide)) (by decide) (by decide)]
    rw [C08.concatMSBF_spec 32 _ (by simp) (by
      intro wv hwv
      simp only [List.mem_cons, List.mem_nil_iff, or_false] at hwv
      rcases hwv with rfl | rfl | rfl
      · exact hs
      · exact hE
      · exact Nat.mod_lt _ (by decide))]
    simp only [LSpec.concatMSBF, LSpec.notEqualConstant, buf_b2n, Leaf.mux2, List.map, List.sum_cons, List.sum_nil]
    refine Prod.ext ?_ ?_
    · simp only [Nat.reducePow, Nat.reduceAdd, Nat.zero_mod, Nat.zero_ne_one, if_false] at *
      omega
    · simp only []
      rw [b2n_inj, Bool.eq_iff_iff]
      simp only [decide_eq_true_eq]
      omega

/-- scaling an equation between powers of two by an integer offset `δ` of either sign -/
theorem pow_shift_eq (M T e0 k0 e k : Nat) (δ : Int) (h : M * 2^e0 = T * 2^k0)
    (he : (e : Int) = e0 + δ) (hk : (k : Int) = k0 + δ) : M * 2^e = T * 2^k := by
  by_cases hd : 0 ≤ δ
  · have hdn : ((δ.toNat : Nat) : Int) = δ := Int.toNat_of_nonneg hd
    rw [show e = e0 + δ.toNat by omega, show k = k0 + δ.toNat by omega, Nat.pow_add, Nat.pow_add, ← Nat.mul_assoc, ← Nat.mul_assoc, h]
  · have hdn : (((-δ).toNat : Nat) : Int) = -δ := Int.toNat_of_nonneg (by omega)
    have hp : 0 < 2^((-δ).toNat) := Nat.two_pow_pos _
    apply Nat.eq_of_mul_eq_mul_right hp
    rw [Nat.mul_assoc, Nat.mul_assoc, ← Nat.pow_add, ← Nat.pow_add,
      show e + (-δ).toNat = e0 by omega, show k + (-δ).toNat = k0 by omega, h]

/-- **FixedPointtoFP_SP**, every accepted format (1 ≤ aw ≤ 32, ANY integer f1) and every `aw`-bit encoding `a` (x = toSigned aw a,
    exact value x·2^(f1+1−aw)): zero gives +0; whenever the exact value is in the normal range (`fxBiased` in 1..254) the result
    is a normal encoding whose value is the exact value truncated toward zero to 24 significant bits (exact when it fits):
    `sval r · 2^aw = ± truncSig |x| · 2^(f1+150)`; `p_lost = 1` iff truncation discarded a non-zero bit (all formats). -/
theorem fixedtofp_spec' (aw : Nat) (f1 : Int) (a : Nat) (h1 : 1 ≤ aw) (h32 : aw ≤ 32) (ha : a < 2^aw) :
    let x := Bits.toSigned aw a
    (x = 0 → (fixedtofp aw f1 a).1 = 0) ∧
    (x ≠ 0 → 1 ≤ fxBiased aw f1 x.natAbs → fxBiased aw f1 x.natAbs ≤ 254 →
       normal (fixedtofp aw f1 a).1 = true ∧ 0 ≤ f1 + 150 ∧
       sval (fixedtofp aw f1 a).1 * 2^aw
         = (if x < 0 then -1 else 1) * ((truncSig x.natAbs : Nat) : Int) * 2^(f1 + 150).toNat) ∧
    (fixedtofp aw f1 a).2 = b2n (lostSig x.natAbs) := by
  intro x
  have hEq := fixedtofp_eq aw f1 a h1 h32 ha
  simp only [] at hEq
  rw [hEq]
  have hnle : x.natAbs ≤ 2^(aw-1) := toSigned_natAbs_le aw a h1 ha
  have hxd : Bits.toSigned aw a = x := rfl
  clear_value x
  rw [hxd] at hEq ⊢
  clear hEq
  generalize hn : x.natAbs = n at *
  have hx0 : x = 0 ↔ n = 0 := by rw [← hn]; omega
  by_cases h0 : n = 0
  · subst h0
    refine ⟨fun _ => by simp, fun h => absurd (hx0.mpr rfl) h, ?_⟩
    show b2n (decide (0 * 2 ^ (31 - Nat.log2 0) % 2 ^ 32 % 2 ^ 8 ≠ 0)) = b2n (lostSig 0)
    decide
  · have hn32 : n < 2^32 := by
      have : 2^(aw-1) ≤ 2^31 := Nat.pow_le_pow_right (by decide) (by omega)
      simp only [Nat.reducePow] at *; omega
    have hnaw : n < 2^aw := Nat.lt_of_le_of_lt hnle (Nat.pow_lt_pow_right (by decide) (by omega))
    have hLaw : n.log2 < aw := log2_lt_of_lt n aw h0 hnaw
    have hL : n.log2 ≤ 31 := by omega
    have h1' : 2^n.log2 ≤ n := Nat.log2_self_le h0
    have h2' : n < 2^(n.log2 + 1) := Nat.lt_log2_self
    obtain ⟨c1, c2⟩ := i2f_core n n.log2 hL h1' h2'
    simp only [h0, if_false]
    have hs : (if x < 0 then 1 else 0) < 2 := by split <;> omega
    have hf : (n * 2 ^ (31 - n.log2) % 2 ^ 32 / 2 ^ 8) % 2 ^ 23 < 2^23 := Nat.mod_lt _ (by decide)
    refine ⟨fun h => absurd (hx0.mp h) h0, fun _ hb1 hb2 => ?_, ?_⟩
    · unfold fxBiased at hb1 hb2
      -- the 8-bit exponent does not wrap
      have hE : ∃ e : Nat, Bits.put 8 (127 + f1 - ((aw - 1 - n.log2 : Nat) : Int)) = e ∧
          (e : Int) = (n.log2 : Int) + f1 + 128 - (aw : Int) := by
        refine ⟨((n.log2 : Int) + f1 + 128 - (aw : Int)).toNat, ?_, Int.toNat_of_nonneg (by omega)⟩
        rw [show 127 + f1 - ((aw - 1 - n.log2 : Nat) : Int) = (((n.log2 : Int) + f1 + 128 - (aw : Int)).toNat : Int) by omega]
        apply Bits.put_of_lt
        simp only [Nat.reducePow]; omega
      obtain ⟨e, hEe, hev⟩ := hE
      rw [hEe]
      obtain ⟨w1, w2, w3, w4⟩ := fields_of_word (if x < 0 then 1 else 0) e _ hs
        (by simp only [Nat.reducePow]; omega) hf
      have hK : (((f1 + 150).toNat : Nat) : Int) = f1 + 150 := Int.toNat_of_nonneg (by omega)
      refine ⟨?_, by omega, ?_⟩
      · unfold normal
        rw [w3]
        simp only [Bool.and_eq_true, decide_eq_true_eq]
        omega
      · unfold sval mag mant
        rw [w2, w3, w4]
        unfold truncSig dropBits
        have key := pow_shift_eq (2 ^ 23 + n * 2 ^ (31 - n.log2) % 2 ^ 32 / 2 ^ 8 % 2 ^ 23)
          (n / 2 ^ (n.log2 + 1 - 24) * 2 ^ (n.log2 + 1 - 24)) (126 + n.log2) 149 (e - 1 + aw) (f1 + 150).toNat (f1 + 1) c1
          (by omega) (by omega)
        rw [Nat.pow_add, ← Nat.mul_assoc] at key
        generalize n / 2 ^ (n.log2 + 1 - 24) * 2 ^ (n.log2 + 1 - 24) = T at *
        generalize (2 ^ 23 + n * 2 ^ (31 - n.log2) % 2 ^ 32 / 2 ^ 8 % 2 ^ 23) * 2 ^ (e - 1) = M at *
        have keyZ : (M : Int) * 2^aw = (T : Int) * 2^(f1 + 150).toNat := by exact_mod_cast key
        by_cases hneg : x < 0
        · simp only [hneg, if_true]
          rw [Int.neg_mul, keyZ]
          simp [Int.neg_mul]
        · simp only [hneg, if_false]
          simp only [Nat.zero_ne_one, if_false, Int.one_mul]
          exact keyZ
    · unfold lostSig dropBits
      rw [b2n_inj, Bool.eq_iff_iff]
      simp only [decide_eq_true_eq]
      exact c2

/-- every format with `aw − 127 ≤ f1 ≤ 127` (in particular every format with 0 ≤ f1 < aw, the ones the format tuple
    (sign, f1, aw−1−f1) describes) has ALL its non-zero values in the normal range -/
theorem fxBiased_format (aw : Nat) (f1 : Int) (n : Nat) (hn : n.log2 < aw) (hlo : (aw : Int) - 127 ≤ f1) (hhi : f1 ≤ 127) :
    1 ≤ fxBiased aw f1 n ∧ fxBiased aw f1 n ≤ 254 := by
  unfold fxBiased; omega

/-- the oracle the harness runs on the real block accepts the model's outputs on the whole domain -/
theorem fixedtofp_oracle' (aw : Nat) (f1 : Int) (a : Nat) (hd : fxDomain aw f1 a = true) :
    fx2fOk aw f1 a (fixedtofp aw f1 a).1 (fixedtofp aw f1 a).2 = true := by
  unfold fxDomain at hd
  simp only [Bool.and_eq_true, Bool.or_eq_true, decide_eq_true_eq] at hd
  obtain ⟨⟨⟨h1, h32⟩, ha⟩, hdom⟩ := hd
  obtain ⟨s1, s2, s3⟩ := fixedtofp_spec' aw f1 a h1 h32 ha
  unfold fx2fOk
  rw [Nat.mod_eq_of_lt ha] at *
  simp only [Bool.and_eq_true, beq_iff_eq]
  refine ⟨?_, s3⟩
  by_cases h0 : Bits.toSigned aw a = 0
  · rw [if_pos h0]; simp [s1 h0]
  · rw [if_neg h0]
    have hb : 1 ≤ fxBiased aw f1 (Bits.toSigned aw a).natAbs ∧ fxBiased aw f1 (Bits.toSigned aw a).natAbs ≤ 254 := by
      rcases hdom with h | h
      · exact absurd h h0
      · exact h
    obtain ⟨n1, n2, n3⟩ := s2 h0 hb.1 hb.2
    simp only [Bool.and_eq_true, decide_eq_true_eq]
    exact ⟨⟨n1, n2⟩, n3⟩

/-- format (32, f1 = 31) is the integer conversion: FixedPointtoFP_SP and InttoFP_SP agree on every 32-bit word -/
theorem fixedtofp_int' (a : Nat) (ha : a < 2^32) : fixedtofp 32 31 a = inttofp a := by
  have h1 := fixedtofp_eq 32 31 a (by decide) (by decide) ha
  have h2 := inttofp_eq a ha
  simp only [] at h1 h2
  rw [h1, h2]
  have hx : Bits.toSigned 32 a = int32 a := by unfold int32; rw [Nat.mod_eq_of_lt ha]
  rw [hx]
  generalize hn : (int32 a).natAbs = n
  have hle : n ≤ 2^31 := by rw [← hn]; exact int32_natAbs_le a
  by_cases h0 : n = 0
  · subst h0; simp
  · have hn32 : n < 2^32 := by simp only [Nat.reducePow] at *; omega
    have hL : n.log2 < 32 := log2_lt_of_lt n 32 h0 hn32
    have he : Bits.put 8 (127 + 31 - ((32 - 1 - n.log2 : Nat) : Int)) = 127 + n.log2 := by
      rw [show (127 : Int) + 31 - ((32 - 1 - n.log2 : Nat) : Int) = ((127 + n.log2 : Nat) : Int) by omega]
      apply Bits.put_of_lt
      simp only [Nat.reducePow]; omega
    simp only [h0, if_false, he]

end C13
