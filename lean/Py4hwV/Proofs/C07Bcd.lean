import Py4hwV.Proofs.C07Arith
/-
  C07 helper lemmas: ConcatenateLSBF of equal-width digits, BinaryToBCD.
-/
namespace C07
open Bits

/-- value of a list of `w`-bit digits, least significant first -/
def digitsVal (w : Nat) : List Nat → Nat
  | [] => 0
  | d :: rest => d + 2^w * digitsVal w rest

/-- the Concatenate loop over the reversed list (what ConcatenateLSBF runs) computes `digitsVal` -/
theorem concat_fold_digits (w : Nat) (ds : List Nat) (h : ∀ d ∈ ds, d < 2^w) :
    (ds.reverse.map fun v => (w, v)).foldl (fun acc wv => (acc <<< wv.1) ||| wv.2) 0 = digitsVal w ds := by
  induction ds with
  | nil => rfl
  | cons d ds ih =>
    rw [List.reverse_cons, List.map_append, List.foldl_append, ih (fun x hx => h x (List.mem_cons_of_mem _ hx))]
    simp only [List.map_cons, List.map_nil, List.foldl_cons, List.foldl_nil]
    rw [← Nat.shiftLeft_add_eq_or_of_lt (h d (List.mem_cons_self ..)), Nat.shiftLeft_eq]
    show digitsVal w ds * 2^w + d = d + 2^w * digitsVal w ds
    rw [Nat.add_comm, Nat.mul_comm]

theorem bcdLoop_digits_lt (aw d v : Nat) : ∀ x ∈ Lib.bcdLoop aw 10 d v, x < 2^4 := by
  induction d generalizing v with
  | zero => intro x hx; simp [Lib.bcdLoop] at hx
  | succ d ih =>
    intro x hx
    simp only [Lib.bcdLoop, List.mem_cons] at hx
    rcases hx with rfl | hx
    · unfold Leaf.mod; exact Nat.mod_lt _ (by decide)
    · exact ih _ x hx

theorem bcdLoop_val (aw d v : Nat) (hv : v < 2^aw) : digitsVal 4 (Lib.bcdLoop aw 10 d v) = ArithSpec.bcd v d := by
  induction d generalizing v with
  | zero => rfl
  | succ d ih =>
    have h10 : v / 10 < 2^aw := Nat.lt_of_le_of_lt (Nat.div_le_self _ _) hv
    have hm : v % 10 < 16 := by have := Nat.mod_lt v (show 0 < 10 by decide); omega
    simp only [Lib.bcdLoop, digitsVal, ArithSpec.bcd]
    rw [show Leaf.div aw v 10 = v / 10 from Nat.mod_eq_of_lt h10, ih _ h10]
    rw [show Leaf.mod 4 v 10 = v % 10 from Nat.mod_eq_of_lt (by simpa using hm)]

/-- `d` BCD digits never overflow `4·d` bits: with a legal result width the final mask is vacuous -/
theorem bcd_lt (a d : Nat) : ArithSpec.bcd a d < 2^(4*d) := by
  induction d generalizing a with
  | zero => simp [ArithSpec.bcd]
  | succ d ih =>
    have := ih (a / 10)
    have hm := Nat.mod_lt a (show 0 < 10 by decide)
    have e : 2^(4*(d+1)) = 16 * 2^(4*d) := by
      rw [show 4*(d+1) = 4*d + 4 by omega, Nat.pow_add]; omega
    simp only [ArithSpec.bcd]
    omega

end C07
