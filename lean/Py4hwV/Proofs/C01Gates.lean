import Py4hwV.Emit.Cert
import Py4hwV.Props.C01
/-
  C01 design level: the text of the N-ary gates (`a & b & c`, `a | b | c`, `~( a | b | c )`) and of Equal / EqualConstant,
  evaluated on known operands (all widths, any arity ≥ 1).
-/
set_option linter.unusedSimpArgs false
namespace FlatM
open V C01

def chainE (op : String) (e : Expr) (ys : List String) : Expr := ys.foldl (fun e y => .bin op e (.id y)) e

theorem binChain_cons (op : String) (x : String) (xs : List String) : binChain op (x :: xs) = chainE op (.id x) xs := rfl

theorem chain_eval (op : String) (f : Nat → Nat → Nat) (h1 : isRel op = false) (h2 : isLog op = false) (h3 : isShift op = false)
    (hf : ∀ W a b, arith op W false ⟨W, a, true⟩ ⟨W, b, true⟩ = ⟨W, f a b, true⟩)
    (r : Rd) (W : Nat) (l : List (String × Nat × Nat)) (hK : ∀ x, x ∈ l → Known r x.1 x.2.1 x.2.2) (hW : ∀ x, x ∈ l → x.2.1 ≤ W)
    (e : Expr) (p : Nat) (he : eval r W false e = ⟨W, p, true⟩) :
    eval r W false (chainE op e (l.map (·.1))) = ⟨W, l.foldl (fun p x => f p x.2.2) p, true⟩ := by
  induction l generalizing e p with
  | nil => exact he
  | cons y ys ih =>
    simp only [List.map_cons, chainE, List.foldl_cons]
    apply ih (fun x hx => hK x (by simp [hx])) (fun x hx => hW x (by simp [hx]))
    have hy := eval_id (hK y (by simp)) W (hW y (by simp))
    simp only [eval] at hy
    simp only [eval, h1, h2, h3, Bool.false_eq_true, if_false, he, hy]
    exact hf W p y.2.2

theorem isSg_chain (op : String) (h1 : isRel op = false) (h2 : isLog op = false) (h3 : isShift op = false) (r : Rd)
    (ys : List String) (e : Expr) (he : isSg r e = false) : isSg r (chainE op e ys) = false := by
  induction ys generalizing e with
  | nil => exact he
  | cons y ys ih =>
    simp only [chainE, List.foldl_cons]
    apply ih
    simp [isSg, h1, h2, h3, he]

theorem selfW_chain (op : String) (h1 : isRel op = false) (h2 : isLog op = false) (h3 : isShift op = false) (r : Rd)
    (ys : List String) (e : Expr) :
    selfW r e ≤ selfW r (chainE op e ys) ∧ ∀ y, y ∈ ys → widthOf r y ≤ selfW r (chainE op e ys) := by
  induction ys generalizing e with
  | nil => exact ⟨Nat.le_refl _, fun _ h => nomatch h⟩
  | cons y ys ih =>
    simp only [chainE, List.foldl_cons]
    have ⟨i1, i2⟩ := ih (.bin op e (.id y))
    simp only [chainE] at i1 i2
    have hs : selfW r (.bin op e (.id y)) = max (selfW r e) (widthOf r y) := by simp [selfW, h1, h2, h3]
    rw [hs] at i1
    refine ⟨by omega, ?_⟩
    intro z hz
    simp only [List.mem_cons] at hz
    rcases hz with e1 | e1
    · subst e1; omega
    · exact i2 z e1

/-- `assign r = x0 op x1 op …` for a context-determined bitwise operator -/
theorem evalAssign_chain (op : String) (f : Nat → Nat → Nat) (h1 : isRel op = false) (h2 : isLog op = false) (h3 : isShift op = false)
    (hf : ∀ W a b, arith op W false ⟨W, a, true⟩ ⟨W, b, true⟩ = ⟨W, f a b, true⟩)
    (r : Rd) (rw : Nat) (x : String × Nat × Nat) (l : List (String × Nat × Nat))
    (hK : ∀ y, y ∈ x :: l → Known r y.1 y.2.1 y.2.2) :
    evalAssign r rw (binChain op ((x :: l).map (·.1))) = ⟨rw, (l.foldl (fun p y => f p y.2.2) x.2.2) % 2 ^ rw, true⟩ ∧
    ∀ y, y ∈ x :: l → y.2.1 ≤ max rw (selfW r (binChain op ((x :: l).map (·.1)))) := by
  have hx := hK x (by simp)
  have ⟨s1, s2⟩ := selfW_chain op h1 h2 h3 r (l.map (·.1)) (.id x.1)
  have hWall : ∀ y, y ∈ x :: l → y.2.1 ≤ max rw (selfW r (binChain op ((x :: l).map (·.1)))) := by
    intro y hy
    rw [List.map_cons, binChain_cons]
    simp only [List.mem_cons] at hy
    rcases hy with e | e
    · subst e
      have : selfW r (.id y.1) = y.2.1 := selfW_id hx
      omega
    · have := s2 y.1 (List.mem_map.mpr ⟨y, e, rfl⟩)
      rw [widthOf_k (hK y (by simp [e]))] at this
      omega
  refine ⟨?_, hWall⟩
  have hsg : isSg r (binChain op ((x :: l).map (·.1))) = false := by
    rw [List.map_cons, binChain_cons]
    exact isSg_chain op h1 h2 h3 r _ _ (isSg_id hx)
  unfold evalAssign
  simp only [hsg]
  have hev := chain_eval op f h1 h2 h3 hf r (max rw (selfW r (binChain op ((x :: l).map (·.1))))) l
    (fun y hy => hK y (by simp [hy])) (fun y hy => hWall y (by simp [hy])) (.id x.1) x.2.2
    (eval_id hx _ (hWall x (by simp)))
  rw [List.map_cons, binChain_cons] at hev ⊢
  rw [hev]
  simp

theorem fold_lt (f : Nat → Nat → Nat) (W : Nat) (hf : ∀ a b, a < 2 ^ W → b < 2 ^ W → f a b < 2 ^ W)
    (l : List (String × Nat × Nat)) (hl : ∀ y, y ∈ l → y.2.2 < 2 ^ W) (p : Nat) (hp : p < 2 ^ W) :
    l.foldl (fun p y => f p y.2.2) p < 2 ^ W := by
  induction l generalizing p with
  | nil => exact hp
  | cons y ys ih =>
    simp only [List.foldl_cons]
    exact ih (fun z hz => hl z (by simp [hz])) _ (hf _ _ hp (hl y (by simp)))

/-- `assign r = ~( x0 | x1 | … )` -/
theorem evalAssign_notchain (r : Rd) (rw : Nat) (x : String × Nat × Nat) (l : List (String × Nat × Nat))
    (hK : ∀ y, y ∈ x :: l → Known r y.1 y.2.1 y.2.2) :
    evalAssign r rw (.un "not" (binChain "or" ((x :: l).map (·.1)))) =
      ⟨rw, Leaf.not1 rw (l.foldl (fun p y => p ||| y.2.2) x.2.2), true⟩ := by
  have hf : ∀ W a b, arith "or" W false ⟨W, a, true⟩ ⟨W, b, true⟩ = ⟨W, a ||| b, true⟩ := by intro W a b; simp [arith]
  obtain ⟨_, hWall⟩ := evalAssign_chain "or" (· ||| ·) (by decide) (by decide) (by decide) hf r rw x l hK
  have hx := hK x (by simp)
  have hsg : isSg r (binChain "or" ((x :: l).map (·.1))) = false := by
    rw [List.map_cons, binChain_cons]
    exact isSg_chain "or" (by decide) (by decide) (by decide) r _ _ (isSg_id hx)
  have hev := chain_eval "or" (· ||| ·) (by decide) (by decide) (by decide) hf r (max rw (selfW r (binChain "or" ((x :: l).map (·.1))))) l
    (fun y hy => hK y (by simp [hy])) (fun y hy => hWall y (by simp [hy])) (.id x.1) x.2.2
    (eval_id hx _ (hWall x (by simp)))
  have hlt : l.foldl (fun p y => p ||| y.2.2) x.2.2 < 2 ^ (max rw (selfW r (binChain "or" ((x :: l).map (·.1))))) := by
    apply fold_lt (· ||| ·) _ (fun a b ha hb => Nat.or_lt_two_pow ha hb)
    · intro y hy
      exact Nat.lt_of_lt_of_le (hK y (by simp [hy])).lt (Nat.pow_le_pow_right (by decide) (hWall y (by simp [hy])))
    · exact Nat.lt_of_lt_of_le hx.lt (Nat.pow_le_pow_right (by decide) (hWall x (by simp)))
  unfold evalAssign
  have hs : selfW r (.un "not" (binChain "or" ((x :: l).map (·.1)))) = selfW r (binChain "or" ((x :: l).map (·.1))) := by
    simp [selfW]
  have hg : isSg r (.un "not" (binChain "or" ((x :: l).map (·.1)))) = false := by
    simp only [isSg, beq_self_eq_true, Bool.true_or, if_true]; exact hsg
  rw [hs, hg]
  rw [List.map_cons, binChain_cons] at hev hlt ⊢
  simp only [eval, beq_self_eq_true, if_true, hev, Leaf.not1]
  congr 1
  exact put_ofNat_sub _ _ _ (by omega) hlt

end FlatM
