import Py4hwV.Emit.Cert
import Py4hwV.Props.C01
/-
  C01 design level: the text of the N-ary gates (`a & b & c`, `a | b | c`, `~( a | b | c )`) and of Equal / EqualConstant,
  evaluated on known operands (all widths, any arity ≥ 1).
-/
set_option linter.unusedSimpArgs false
namespace FlatM
open V C01

def chainE (op : String) (e : Expr) (ys : List String) : Expr := ys.foldl (fun e y => .bin op e (.id y)) e

theorem binChain_cons (op : String) (x : String) (xs : List String) : binChain op (x :: xs) = chainE op (.id x) xs := rfl

theorem chain_eval (op : String) (f : Nat → Nat → Nat) (h1 : isRel op = false) (h2 : isLog op = false) (h3 : isShift op = false)
    (hf : ∀ W a b, arith op W false ⟨W, a, true⟩ ⟨W, b, true⟩ = ⟨W, f a b, true⟩)
    (r : Rd) (W : Nat) (l : List (String × Nat × Nat)) (hK : ∀ x, x ∈ l → Known r x.1 x.2.1 x.2.2) (hW : ∀ x, x ∈ l → x.2.1 ≤ W)
    (e : Expr) (p : Nat) (he : eval r W false e = ⟨W, p, true⟩) :
    eval r W false (chainE op e (l.map (·.1))) = ⟨W, l.foldl (fun p x => f p x.2.2) p, true⟩ := by
  induction l generalizing e p with
  | nil => exact he
  | cons y ys ih =>
    simp only [List.map_cons, chainE, List.foldl_cons]
    apply ih (fun x hx => hK x (by simp [hx])) (fun x hx => hW x (by simp [hx]))
    have hy := eval_id (hK y (by simp)) W (hW y (by simp))
    simp only [eval] at hy
    simp only [eval, h1, h2, h3, Bool.false_eq_true, if_false, he, hy]
    exact hf W p y.2.2

theorem isSg_chain (op : String) (h1 : isRel op = false) (h2 : isLog op = false) (h3 : isShift op = false) (r : Rd)
    (ys : List String) (e : Expr) (he : isSg r e = false) : isSg r (chainE op e ys) = false := by
  induction ys generalizing e with
  | nil => exact he
  | cons y ys ih =>
    simp only [chainE, List.foldl_cons]
    apply ih
    simp [isSg, h1, h2, h3, he]

theorem selfW_chain (op : String) (h1 : isRel op = false) (h2 : isLog op = false) (h3 : isShift op = false) (r : Rd)
    (ys : List String) (e : Expr) :
    selfW r e ≤ selfW r (chainE op e ys) ∧ ∀ y, y ∈ ys → widthOf r y ≤ selfW r (chainE op e ys) := by
  induction ys generalizing e with
  | nil => exact ⟨Nat.le_refl _, fun _ h => nomatch h⟩
  | cons y ys ih =>
    simp only [chainE, List.foldl_cons]
    have ⟨i1, i2⟩ := ih (.bin op e (.id y))
    simp only [chainE] at i1 i2
    have hs : selfW r (.bin op e (.id y)) = max (selfW r e) (widthOf r y) := by simp [selfW, h1, h2, h3]
    rw [hs] at i1
    refine ⟨by omega, ?_⟩
    intro z hz
    simp only [List.mem_cons] at hz
    rcases hz with e1 | e1
    · subst e1; omega
    · exact i2 z e1

/-- `assign r = x0 op x1 op …` for a context-determined bitwise operator -/
theorem evalAssign_chain (op : String) (f : Nat → Nat → Nat) (h1 : isRel op = false) (h2 : isLog op = false) (h3 : isShift op = false)
    (hf : ∀ W a b, arith op W false ⟨W, a, true⟩ ⟨W, b, true⟩ = ⟨W, f a b, true⟩)
    (r : Rd) (rw : Nat) (x : String × Nat × Nat) (l : List (String × Nat × Nat))
    (hK : ∀ y, y ∈ x :: l → Known r y.1 y.2.1 y.2.2) :
    evalAssign r rw (binChain op ((x :: l).map (·.1))) = ⟨rw, (l.foldl (fun p y => f p y.2.2) x.2.2) % 2 ^ rw, true⟩ ∧
    ∀ y, y ∈ x :: l → y.2.1 ≤ max rw (selfW r (binChain op ((x :: l).map (·.1)))) := by
  have hx := hK x (by simp)
  have ⟨s1, s2⟩ := selfW_chain op h1 h2 h3 r (l.map (·.1)) (.id x.1)
  have hWall : ∀ y, y ∈ x :: l → y.2.1 ≤ max rw (selfW r (binChain op ((x :: l).map (·.1)))) := by
    intro y hy
    rw [List.map_cons, binChain_cons]
    simp only [List.mem_cons] at hy
    rcases hy with e | e
    · subst e
      have : selfW r (.id y.1) = y.2.1 := selfW_id hx
      omega
    · have := s2 y.1 (List.mem_map.mpr ⟨y, e, rfl⟩)
      rw [widthOf_k (hK y (by simp [e]))] at this
      omega
  refine ⟨?_, hWall⟩
  have hsg : isSg r (binChain op ((x :: l).map (·.1))) = false := by
    rw [List.map_cons, binChain_cons]
    exact isSg_chain op h1 h2 h3 r _ _ (isSg_id hx)
  unfold evalAssign
  simp only [hsg]
  have hev := chain_eval op f h1 h2 h3 hf r (max rw (selfW r (binChain op ((x :: l).map (·.1))))) l
    (fun y hy => hK y (by simp [hy])) (fun y hy => hWall y (by simp [hy])) (.id x.1) x.2.2
    (eval_id hx _ (hWall x (by simp)))
  rw [List.map_cons, binChain_cons] at hev ⊢
  rw [hev]
  simp

theorem fold_lt (f : Nat → Nat → Nat) (W : Nat) (hf : ∀ a b, a < 2 ^ W → b < 2 ^ W → f a b < 2 ^ W)
    (l : List (String × Nat × Nat)) (hl : ∀ y, y ∈ l → y.2.2 < 2 ^ W) (p : Nat) (hp : p < 2 ^ W) :
    l.foldl (fun p y => f p y.2.2) p < 2 ^ W := by
  induction l generalizing p with
  | nil => exact hp
  | cons y ys ih =>
    simp only [List.foldl_cons]
    exact ih (fun z hz => hl z (by simp [hz])) _ (hf _ _ hp (hl y (by simp)))

/-- `assign r = ~( x0 | x1 | … )` -/
theorem evalAssign_notchain (r : Rd) (rw : Nat) (x : String × Nat × Nat) (l : List (String × Nat × Nat))
    (hK : ∀ y, y ∈ x :: l → Known r y.1 y.2.1 y.2.2) :
    evalAssign r rw (.un "not" (binChain "or" ((x :: l).map (·.1)))) =
      ⟨rw, Leaf.not1 rw (l.foldl (fun p y => p ||| y.2.2) x.2.2), true⟩ := by
  have hf : ∀ W a b, arith "or" W false ⟨W, a, true⟩ ⟨W, b, true⟩ = ⟨W, a ||| b, true⟩ := by intro W a b; simp [arith]
  obtain ⟨_, hWall⟩ := evalAssign_chain "or" (· ||| ·) (by decide) (by decide) (by decide) hf r rw x l hK
  have hx := hK x (by simp)
  have hsg : isSg r (binChain "or" ((x :: l).map (·.1))) = false := by
    rw [List.map_cons, binChain_cons]
    exact isSg_chain "or" (by decide) (by decide) (by decide) r _ _ (isSg_id hx)
  have hev := chain_eval "or" (· ||| ·) (by decide) (by decide) (by decide) hf r (max rw (selfW r (binChain "or" ((x :: l).map (·.1))))) l
    (fun y hy => hK y (by simp [hy])) (fun y hy => hWall y (by simp [hy])) (.id x.1) x.2.2
    (eval_id hx _ (hWall x (by simp)))
  have hlt : l.foldl (fun p y => p ||| y.2.2) x.2.2 < 2 ^ (max rw (selfW r (binChain "or" ((x :: l).map (·.1))))) := by
    apply fold_lt (· ||| ·) _ (fun a b ha hb => Nat.or_lt_two_pow ha hb)
    · intro y hy
      exact Nat.lt_of_lt_of_le (hK y (by simp [hy])).lt (Nat.pow_le_pow_right (by decide) (hWall y (by simp [hy])))
    · exact Nat.lt_of_lt_of_le hx.lt (Nat.pow_le_pow_right (by decide) (hWall x (by simp)))
  unfold evalAssign
  have hs : selfW r (.un "not" (binChain "or" ((x :: l).map (·.1)))) = selfW r (binChain "or" ((x :: l).map (·.1))) := by
    simp [selfW]
  have hg : isSg r (.un "not" (binChain "or" ((x :: l).map (·.1)))) = false := by
    simp only [isSg, beq_self_eq_true, Bool.true_or, if_true]; exact hsg
  rw [hs, hg]
  rw [List.map_cons, binChain_cons] at hev hlt ⊢
  simp only [eval, beq_self_eq_true, if_true, hev, Leaf.not1]
  congr 1
  exact put_ofNat_sub _ _ _ (by omega) hlt

/-! ### Equal / EqualConstant: arithmetic of one-bit values -/

theorem bit_val (x j : Nat) : (x >>> j) % 2 = if x.testBit j then 1 else 0 := by
  rw [Nat.testBit_eq_decide_div_mod_eq, Nat.shiftRight_eq_div_pow]
  have : x / 2 ^ j % 2 < 2 := Nat.mod_lt _ (by decide)
  by_cases h : x / 2 ^ j % 2 = 1
  · simp [h]
  · simp [h]; omega

theorem lt2 {x : Nat} (h : x < 2) : x = 0 ∨ x = 1 := by omega

theorem orfold01 (l : List Nat) (acc : Nat) (hacc : acc < 2) (hl : ∀ x, x ∈ l → x < 2) :
    l.foldl (· ||| ·) acc < 2 ∧ (l.foldl (· ||| ·) acc = 0 ↔ acc = 0 ∧ ∀ x, x ∈ l → x = 0) := by
  induction l generalizing acc with
  | nil => simp [hacc]
  | cons y ys ih =>
    simp only [List.foldl_cons]
    have hy := hl y (by simp)
    have hstep : acc ||| y < 2 ∧ (acc ||| y = 0 ↔ acc = 0 ∧ y = 0) := by
      rcases lt2 hacc with e | e <;> rcases lt2 hy with e' | e' <;> subst e e' <;> decide
    have := ih (acc ||| y) hstep.1 (fun x hx => hl x (by simp [hx]))
    refine ⟨this.1, ?_⟩
    rw [this.2, hstep.2]
    simp [and_assoc]

theorem andfold01 (l : List Nat) (acc : Nat) (hacc : acc < 2) (hl : ∀ x, x ∈ l → x < 2) :
    l.foldl (· &&& ·) acc < 2 ∧ (l.foldl (· &&& ·) acc = 1 ↔ acc = 1 ∧ ∀ x, x ∈ l → x = 1) := by
  induction l generalizing acc with
  | nil => simp [hacc]
  | cons y ys ih =>
    simp only [List.foldl_cons]
    have hy := hl y (by simp)
    have hstep : acc &&& y < 2 ∧ (acc &&& y = 1 ↔ acc = 1 ∧ y = 1) := by
      rcases lt2 hacc with e | e <;> rcases lt2 hy with e' | e' <;> subst e e' <;> decide
    have := ih (acc &&& y) hstep.1 (fun x hx => hl x (by simp [hx]))
    refine ⟨this.1, ?_⟩
    rw [this.2, hstep.2]
    simp [and_assoc]

theorem eq_of_bits (w a b : Nat) (ha : a < 2 ^ w) (hb : b < 2 ^ w) (h : ∀ j, j < w → a.testBit j = b.testBit j) : a = b := by
  apply Nat.eq_of_testBit_eq
  intro i
  by_cases hi : i < w
  · exact h i hi
  · have hle : w ≤ i := by omega
    rw [Nat.testBit_lt_two_pow (Nat.lt_of_lt_of_le ha (Nat.pow_le_pow_right (by decide) hle)),
      Nat.testBit_lt_two_pow (Nat.lt_of_lt_of_le hb (Nat.pow_le_pow_right (by decide) hle))]

/-- Equal: `assign r = (a == b)? 1:0` -/
theorem inline_equal {r : Rd} {a b : String} {wa wb va vb : Nat} (rw : Nat) (hw : 1 ≤ rw)
    (ha : Known r a wa va) (hb : Known r b wb vb) :
    evalAssign r rw (.tern (.bin "eq" (.id a) (.id b)) (C01.lit 1) (C01.lit 0)) = ⟨rw, if va = vb then 1 else 0, true⟩ := by
  have e1 : ext (max wa wb) false ⟨wa, va, true⟩ = ⟨max wa wb, va, true⟩ := ext_known _ _ _ ha.lt (by omega)
  have e2 : ext (max wa wb) false ⟨wb, vb, true⟩ = ⟨max wa wb, vb, true⟩ := ext_known _ _ _ hb.lt (by omega)
  have one_lt : (1:Nat) < 2 ^ rw := Nat.one_lt_two_pow (by omega)
  have x1 : ext (max rw 32) true ⟨32, 1, true⟩ = ⟨max rw 32, 1, true⟩ := by
    unfold ext
    by_cases h : max rw 32 ≤ 32
    · have : max rw 32 = 32 := by omega
      simp [h, this]
    · simp [h]
  have x0 : ext (max rw 32) true ⟨32, 0, true⟩ = ⟨max rw 32, 0, true⟩ := by
    unfold ext
    by_cases h : max rw 32 ≤ 32
    · have : max rw 32 = 32 := by omega
      simp [h, this]
    · simp [h]
  have eb : ∀ b : Bool, ext 1 false (b1 b) = b1 b := by intro b; cases b <;> decide
  have hc : eval r 1 false (.bin "eq" (.id a) (.id b)) = b1 (decide (va = vb)) := by
    simp only [eval, isRel, selfW, isSg, widthOf_k ha, widthOf_k hb, signedOf_k ha, signedOf_k hb, ha.val, hb.val,
      beq_self_eq_true, Bool.true_or, if_true, Bool.false_and, Bool.and_self, e1, e2, rel, Bool.not_true,
      Bool.false_eq_true, if_false]
    rw [eb]
    by_cases e : va = vb
    · subst e; simp
    · have hne : ((va:Int) == (vb:Int)) = false := by simp; omega
      simp [e, hne]
  unfold evalAssign
  have hsw : selfW r (.tern (.bin "eq" (.id a) (.id b)) (C01.lit 1) (C01.lit 0)) = 32 := by simp [selfW, C01.lit]
  have hsg : isSg r (.tern (.bin "eq" (.id a) (.id b)) (C01.lit 1) (C01.lit 0)) = true := by simp [isSg, C01.lit]
  have hcw : selfW r (.bin "eq" (.id a) (.id b)) = 1 := by simp [selfW, isRel]
  have hcs : isSg r (.bin "eq" (.id a) (.id b)) = false := by simp [isSg, isRel]
  simp only [hsw, hsg]
  rw [eval_tern, hcw, hcs]
  rw [hc]
  have l1 : eval r (max rw 32) true (C01.lit 1) = ⟨max rw 32, 1, true⟩ := by simp [eval, C01.lit, BV.mk', x1]
  have l0 : eval r (max rw 32) true (C01.lit 0) = ⟨max rw 32, 0, true⟩ := by simp [eval, C01.lit, BV.mk', x0]
  by_cases e : va = vb
  · simp [e, truthy, b1, l1, Nat.mod_eq_of_lt one_lt]
  · simp [e, truthy, b1, l0]

end FlatM
