import Py4hwV.Proofs.C01FlatCycle
import Py4hwV.Proofs.C01FlatInst
import Std.Data.HashMap.Lemmas
/-
  C01 design level: the SHIPPED interpreter (`V.Sim`, HashMap store, clock toggling) on a well-formed flat design.
-/
set_option linter.unusedSimpArgs false
namespace FlatM
open V C01 Net
namespace FlatDesign
variable {F : FlatDesign}

/-- the clock port and the clock ports of the flattened instances are declared one bit wide -/
def ClkDeclared (F : FlatDesign) (info : String → Option SigInfo) : Prop :=
  ∀ R, R ∈ F.regs → info F.clk = some { width := 1 } ∧ info (R.pfx ++ "clk") = some { width := 1 }

theorem nbaLid_regBody (p : String) (hasR hasE : Bool) (rv : Nat) : NbaLid (regBodyP p hasR hasE rv) := by
  cases hasR <;> cases hasE <;> simp [regBodyP, NbaLid]

theorem nbaTgts_regBody (p : String) (hasR hasE : Bool) (rv : Nat) :
    ∀ n, n ∈ nbaTgts (regBodyP p hasR hasE rv) → n = p ++ "rq" := by
  cases hasR <;> cases hasE <;> simp [regBodyP, nbaTgts, LHS.name]

theorem mem_nodes_base : Node.base ∈ F.nodes := by unfold nodes; simp

theorem cycOK (hF : F.WF) (as : List (LHS × Expr)) (hp : as.Perm F.assigns) (info0 : String → Option SigInfo)
    (hclk : F.ClkDeclared info0) : CycOK (F.flatOf as) F.clk F.topo info0 := by
  refine ⟨hp.trans (perm_topo hF), acyc_topo hF, ?_, ?_, ?_⟩
  · intro a ha e
    have hmem : F.name .base ∈ F.assigns.map tgt := by
      rw [show F.name .base = F.clk from rfl, ← e]
      exact List.mem_map.mpr ⟨a, hp.mem_iff.mp ha, rfl⟩
    have := (undriven_iff hF (mem_nodes_base (F := F))).mpr (by
      intro hd
      rcases driven_inv hd with ⟨k, _, e⟩ | ⟨R, _, e | e | e | e | ⟨e, _⟩ | ⟨e, _⟩⟩ <;> cases e)
    exact this hmem
  · intro ep hep
    rcases List.mem_map.mp hep with ⟨R, hR, e⟩
    subst e
    refine ⟨⟨_, rfl⟩, nbaLid_regBody _ _ _ _, ?_⟩
    intro hmem
    have := nbaTgts_regBody _ _ _ _ _ hmem
    have hne := name_ne hF.names_inj (x := .base) (y := .rq R) mem_nodes_base (mem_nodes_reg hR (mem_regnodes_rq R)) (by simp)
    exact hne this
  · intro ep c hep hc r hinfo hS b hb hval
    rcases List.mem_map.mp hep with ⟨R, hR, e⟩
    subst e
    have hcR : c = R.pfx ++ "clk" := by
      have : Event.pos (R.pfx ++ "clk") = Event.pos c := hc
      exact (Event.pos.inj this).symm
    subst hcR
    have hmemT : ((LHS.lid (R.pfx ++ "clk"), Expr.id F.clk) : LHS × Expr) ∈ F.assigns := by
      unfold assigns
      simp only [List.mem_append, List.mem_flatMap]
      right; right; right
      refine ⟨R, hR, ?_⟩
      simp [RegI.tail]
    have hset := hS _ (hp.mem_iff.mpr hmemT)
    have hw : widthOf r (R.pfx ++ "clk") = 1 := by simp [widthOf, hinfo, (hclk R hR).2]
    have hk : Known r F.clk 1 b := ⟨by rw [hinfo]; exact (hclk R hR).1, hval, by omega⟩
    simp only [tgt, LHS.name] at hset
    rw [hset, hw, inline_buf 1 hk]
    simp [Leaf.buf, Nat.mod_eq_of_lt (show b < 2 ^ 1 by omega)]

/-- the shipped test-bench operations of lean/Drv/V.lean: `set <name> <v>` and `step <n>` -/
def shipOp (F : FlatDesign) (m : Sim) : Net.Op → Sim
  | .poke k v => { m with st := m.st.wr (.whole (F.nm k)) ⟨widthOf m.st.rd (F.nm k), v.toNat, true⟩ }
  | .clk n => Net.iter Sim.cycle n m
  | .resort => m

/-- what the theorems need of a shipped simulator state: it runs the flattened text with the design's clock, declares
    the clocks one bit wide, both clock levels are high (as after `mkSim` and after every cycle) -/
structure ShipInv (F : FlatDesign) (as : List (LHS × Expr)) (m : Sim) : Prop where
  fassigns : m.flat.assigns = as
  fprocs : m.flat.procs = F.regs.map RegI.proc
  clk : m.clk = F.clk
  declared : F.Declared m.st.rd
  clkdecl : F.ClkDeclared m.st.rd.info
  high : m.st.rd.val F.clk = ⟨1, 1, true⟩
  ihigh : ∀ R, R ∈ F.regs → m.st.rd.val (R.pfx ++ "clk") = ⟨1, 1, true⟩

theorem CycOK_congr {f g : V.Flat} {c : String} {t : List (LHS × Expr)} {i : String → Option SigInfo}
    (ha : g.assigns = f.assigns) (hp : g.procs = f.procs) (h : CycOK f c t i) : CycOK g c t i :=
  ⟨ha ▸ h.perm, h.acyc, ha ▸ h.clk_undriven, hp ▸ h.procs, by rw [ha, hp]; exact h.follows⟩

theorem cycleA_congr {f g : V.Flat} (ha : g.assigns = f.assigns) (hp : g.procs = f.procs) (r : Rd) :
    cycleA g r = cycleA f r := by
  unfold cycleA; rw [ha, hp]

theorem ShipInv.cyc (hF : F.WF) {as : List (LHS × Expr)} (hp : as.Perm F.assigns) {m : Sim} (h : ShipInv F as m) :
    CycOK m.flat m.clk F.topo m.st.rd.info := by
  rw [h.clk]
  exact CycOK_congr (f := F.flatOf as) h.fassigns h.fprocs (cycOK hF as hp _ h.clkdecl)

theorem ship_cycle (hF : F.WF) (as : List (LHS × Expr)) (hp : as.Perm F.assigns) (m : Sim) (h : ShipInv F as m) :
    m.cycle.st.rd = cycleA (F.flatOf as) m.st.rd ∧ m.cycle.errors = m.errors ∧ ShipInv F as m.cycle := by
  have hC : CycOK m.flat m.clk F.topo m.st.rd.info := h.cyc hF hp
  have hl : ∀ a, a ∈ m.flat.assigns → LhsOk m.st.rd a.1 := by
    rw [h.fassigns]; exact (infoOK hF as hp m.st.rd h.declared).lhs
  have hcs : ∀ ep c, ep ∈ m.flat.procs → ep.1 = .pos c → m.st.rd.val c = ⟨1, 1, true⟩ := by
    intro ep c hep hc
    rw [h.fprocs] at hep
    rcases List.mem_map.mp hep with ⟨R, hR, e⟩
    subst e
    have : Event.pos (R.pfx ++ "clk") = Event.pos c := hc
    rw [← Event.pos.inj this]
    exact h.ihigh R hR
  obtain ⟨h1, h2, h3, h4, h5, h6, h7⟩ := cycle_rd m hC hl (by rw [h.clk]; exact h.high) hcs
  refine ⟨by rw [h1]; exact cycleA_congr (f := F.flatOf as) h.fassigns h.fprocs _, h2,
    ⟨by rw [h3]; exact h.fassigns, by rw [h3]; exact h.fprocs, h4.trans h.clk, ?_, by rw [h5]; exact h.clkdecl, by rw [← h.clk]; exact h6, ?_⟩⟩
  · intro x hx k hk; rw [h5]; exact h.declared x hx k hk
  · intro R hR
    apply h7 (RegI.proc R) _ (by rw [h.fprocs]; exact List.mem_map.mpr ⟨R, hR, rfl⟩) rfl

theorem ship_op (hF : F.WF) (as : List (LHS × Expr)) (hp : as.Perm F.assigns) (m : Sim) (h : ShipInv F as m)
    (op : Net.Op) (hop : F.OpOK op) :
    (F.shipOp m op).st.rd = applyOpA (F.flatOf as) F.nm m.st.rd op ∧ (F.shipOp m op).errors = m.errors ∧
    ShipInv F as (F.shipOp m op) := by
  cases op with
  | poke k v =>
    have hrd : (m.st.wr (.whole (F.nm k)) ⟨widthOf m.st.rd (F.nm k), v.toNat, true⟩).rd = poke m.st.rd (F.nm k) v.toNat :=
      wr_whole_rd _ _ _
    have hk := hop.1.1
    have hne1 : F.clk ≠ F.nm k :=
      name_ne hF.names_inj (x := .base) (y := .net k) mem_nodes_base (mem_nodes_net hk) (by simp)
    refine ⟨hrd, rfl, ⟨h.fassigns, h.fprocs, h.clk, ?_, ?_, ?_, ?_⟩⟩
    · intro x hx k' hk'
      show (m.st.wr (.whole (F.nm k)) _).rd.info _ = _
      rw [hrd]; exact h.declared x hx k' hk'
    · show F.ClkDeclared (m.st.wr (.whole (F.nm k)) _).rd.info
      rw [hrd]; exact h.clkdecl
    · show (m.st.wr (.whole (F.nm k)) _).rd.val F.clk = _
      rw [hrd]
      simp only [poke, setWhole, if_neg hne1]
      exact h.high
    · intro R hR
      show (m.st.wr (.whole (F.nm k)) _).rd.val _ = _
      rw [hrd]
      have hne2 : R.pfx ++ "clk" ≠ F.nm k :=
        name_ne hF.names_inj (x := .clk R) (y := .net k) (mem_nodes_reg hR (mem_regnodes_clk R)) (mem_nodes_net hk) (by simp)
      simp only [poke, setWhole, if_neg hne2]
      exact h.ihigh R hR
  | clk n =>
    show (Net.iter Sim.cycle n m).st.rd = Net.iter (cycleA (F.flatOf as)) n m.st.rd ∧ _
    induction n generalizing m with
    | zero => exact ⟨rfl, rfl, h⟩
    | succ n ih =>
      have hc := ship_cycle hF as hp m h
      have := ih m.cycle hc.2.2 trivial
      simp only [Net.iter]
      rw [← hc.1]
      exact ⟨this.1, this.2.1.trans hc.2.1, this.2.2⟩
  | resort => exact ⟨rfl, rfl, h⟩

/-- **the shipped interpreter, whole histories**: its store after any covered history reads exactly as the reader-level
    machine of the theorems; it logs no error -/
theorem ship_run (hF : F.WF) (as : List (LHS × Expr)) (hp : as.Perm F.assigns) (m : Sim) (h : ShipInv F as m)
    (ops : List Net.Op) (hops : ∀ op, op ∈ ops → F.OpOK op) :
    (ops.foldl F.shipOp m).st.rd = ops.foldl (applyOpA (F.flatOf as) F.nm) m.st.rd ∧
    (ops.foldl F.shipOp m).errors = m.errors ∧ ShipInv F as (ops.foldl F.shipOp m) := by
  induction ops generalizing m with
  | nil => exact ⟨rfl, rfl, h⟩
  | cons op ops ih =>
    simp only [List.foldl]
    have h1 := ship_op hF as hp m h op (hops op (by simp))
    have h2 := ih (F.shipOp m op) h1.2.2 (fun o ho => hops o (by simp [ho]))
    rw [← h1.1]
    exact ⟨h2.1, h2.2.1.trans h1.2.1, h2.2.2⟩

/-! ### a shipped-simulator state satisfying the hypotheses exists for every well-formed design -/

def width0 (F : FlatDesign) (x : Node) : Nat := match netOf x with | some k => F.wd k | none => 1

/-- values at time 0: `rq = RV`, every net driven to 0 by the test bench, clocks high, instance ports still x -/
def val0 (F : FlatDesign) : Node → Option BV
  | .rq R => some ⟨F.wd R.leaf.q, R.leaf.rv % 2 ^ F.wd R.leaf.q, true⟩
  | .net k => some ⟨F.wd k, 0, true⟩
  | .clk _ => some ⟨1, 1, true⟩
  | .base => some ⟨1, 1, true⟩
  | _ => none

def store1 (F : FlatDesign) : Store :=
  { info := Std.HashMap.ofList (F.nodes.map fun x => (F.name x, ({ width := F.width0 x } : SigInfo))),
    vals := Std.HashMap.ofList (F.nodes.filterMap fun x => (F.val0 x).map fun v => (F.name x, v)) }

def sim1 (F : FlatDesign) (as : List (LHS × Expr)) : Sim := { flat := F.flatOf as, st := F.store1, clk := F.clk }

theorem nodes_pairwise (hF : F.WF) : F.nodes.Pairwise fun a b => F.name a ≠ F.name b :=
  List.pairwise_map.mp hF.names_inj

theorem store1_info (hF : F.WF) (x : Node) (hx : x ∈ F.nodes) :
    F.store1.rd.info (F.name x) = some { width := F.width0 x } := by
  show (Std.HashMap.ofList _)[F.name x]? = _
  apply Std.HashMap.getElem?_ofList_of_mem (k := F.name x) (by simp)
  · rw [List.pairwise_map]
    exact (nodes_pairwise hF).imp (fun h => by simpa using h)
  · exact List.mem_map.mpr ⟨x, hx, rfl⟩

theorem store1_val (hF : F.WF) (x : Node) (hx : x ∈ F.nodes) (v : BV) (hv : F.val0 x = some v) :
    F.store1.rd.val (F.name x) = v := by
  have : F.store1.vals[F.name x]? = some v := by
    show (Std.HashMap.ofList _)[F.name x]? = _
    apply Std.HashMap.getElem?_ofList_of_mem (k := F.name x) (by simp)
    · rw [List.pairwise_filterMap]
      apply (nodes_pairwise hF).imp
      intro a b hab p hp q hq
      cases ha : F.val0 a with
      | none => rw [ha] at hp; cases hp
      | some va =>
        cases hb : F.val0 b with
        | none => rw [hb] at hq; cases hq
        | some vb =>
          rw [ha] at hp; rw [hb] at hq
          simp only [Option.map_some, Option.some.injEq] at hp hq
          subst hp hq
          simpa using hab
    · rw [List.mem_filterMap]
      exact ⟨x, hx, by rw [hv]; rfl⟩
  simp [Store.rd, this]

theorem sim1_inv (hF : F.WF) (as : List (LHS × Expr)) : ShipInv F as (F.sim1 as) ∧ F.PowerUp0 (F.sim1 as).st.rd := by
  have hdecl : F.Declared F.store1.rd := by
    intro x hx k hk
    rw [store1_info hF x hx]
    simp [width0, hk]
  refine ⟨⟨rfl, rfl, rfl, hdecl, ?_, ?_, ?_⟩, ⟨hdecl, ?_, ?_⟩⟩
  · intro R hR
    exact ⟨store1_info hF .base mem_nodes_base, store1_info hF (.clk R) (mem_nodes_reg hR (mem_regnodes_clk R))⟩
  · exact store1_val hF .base mem_nodes_base _ rfl
  · intro R hR; exact store1_val hF (.clk R) (mem_nodes_reg hR (mem_regnodes_clk R)) _ rfl
  · intro R hR; exact store1_val hF (.rq R) (mem_nodes_reg hR (mem_regnodes_rq R)) _ rfl
  · intro k hk; exact store1_val hF (.net k) (mem_nodes_net hk.1) _ rfl

end FlatDesign
end FlatM
