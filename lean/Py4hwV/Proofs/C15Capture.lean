import Py4hwV.Proofs.C15Render
/-
  C15, recording half: constructor de-duplication, one sample per unique wire per clock(), clear(), and the
  whole `get_wavedrom` dictionary.
-/
namespace C15
open Waveform

/-! ### dict lemmas -/

def keys (d : Dict) : List Nat := d.map (·.1)

theorem dictSet_fresh (d : Dict) (k : Nat) (l : List Nat) (h : k ∉ keys d) : dictSet d k l = d ++ [(k, l)] := by
  induction d with
  | nil => rfl
  | cons p d ih =>
    obtain ⟨k', l'⟩ := p
    simp only [keys, List.map_cons, List.mem_cons, not_or] at h
    have hne : ¬ k' = k := fun e => h.1 e.symm
    simp only [dictSet, hne, if_false, List.cons_append]
    rw [ih h.2]

theorem keys_dictAppend (d : Dict) (k x : Nat) : keys (dictAppend d k x) = keys d := by
  induction d with
  | nil => rfl
  | cons p d ih =>
    obtain ⟨k', l'⟩ := p
    by_cases e : k' = k
    · simp [dictAppend, e, keys]
    · simp only [dictAppend, e, if_false, keys, List.map_cons] at ih ⊢
      rw [ih]

theorem dictGet_dictAppend (d : Dict) (k x w : Nat) :
    dictGet? (dictAppend d k x) w = if w = k then (dictGet? d w).map (· ++ [x]) else dictGet? d w := by
  induction d with
  | nil => simp [dictAppend, dictGet?]
  | cons p d ih =>
    obtain ⟨k', l'⟩ := p
    by_cases e : k' = k
    · subst e
      by_cases e2 : k' = w
      · subst e2; simp [dictAppend, dictGet?]
      · have : ¬ w = k' := fun h => e2 h.symm
        simp [dictAppend, dictGet?, e2, this]
    · by_cases e2 : k' = w
      · subst e2
        have : ¬ k' = k := e
        simp [dictAppend, dictGet?, e]
      · simp [dictAppend, dictGet?, e, e2, ih]

theorem dictGet_of_mem (d : Dict) (w : Nat) (h : w ∈ keys d) : ∃ l, dictGet? d w = some l := by
  induction d with
  | nil => simp [keys] at h
  | cons p d ih =>
    obtain ⟨k', l'⟩ := p
    by_cases e : k' = w
    · exact ⟨l', by simp [dictGet?, e]⟩
    · have : w ∈ keys d := by
        simp only [keys, List.map_cons, List.mem_cons] at h
        rcases h with h | h
        · exact absurd h.symm e
        · exact h
      obtain ⟨l, hl⟩ := ih this
      exact ⟨l, by simp [dictGet?, e, hl]⟩

theorem dictHas_iff (d : Dict) (w : Nat) : dictHas d w = true ↔ w ∈ keys d := by
  simp [dictHas, keys]

theorem dictGet_append_empty (d : Dict) (w w' : Nat)
    (h : dictGet? d w' = none ∨ dictGet? d w' = some []) :
    dictGet? (d ++ [(w, [])]) w' = none ∨ dictGet? (d ++ [(w, [])]) w' = some [] := by
  induction d with
  | nil =>
    by_cases e : w = w'
    · right; simp [dictGet?, e]
    · left; simp [dictGet?, e]
  | cons p d ih =>
    obtain ⟨k', l'⟩ := p
    by_cases e : k' = w'
    · simp only [dictGet?, e, if_true, List.cons_append] at h ⊢
      exact h
    · simp only [dictGet?, e, if_false, List.cons_append] at h ⊢
      exact ih h

theorem keys_clockData (us : List Nat) (v : Val) (d : Dict) : keys (clockData us v d) = keys d := by
  unfold clockData
  induction us generalizing d with
  | nil => rfl
  | cons u us ih => simp only [List.foldl_cons]; rw [ih, keys_dictAppend]

/-- one `clock()` appends exactly one value to the list of every unique wire and touches nothing else -/
theorem dictGet_clockData (us : List Nat) (hn : us.Nodup) (v : Val) (d : Dict) (w : Nat) :
    dictGet? (clockData us v d) w = if w ∈ us then (dictGet? d w).map (· ++ [v w]) else dictGet? d w := by
  unfold clockData
  induction us generalizing d with
  | nil => simp
  | cons u us ih =>
    have hn' := (List.nodup_cons.mp hn)
    simp only [List.foldl_cons]
    rw [ih hn'.2, dictGet_dictAppend]
    by_cases e : w = u
    · subst e
      simp [hn'.1]
    · simp [e]

theorem keys_clearData (d : Dict) : keys (clearData d) = keys d := by
  simp [keys, clearData]

theorem dictGet_clearData (d : Dict) (w : Nat) : dictGet? (clearData d) w = (dictGet? d w).map (fun _ => []) := by
  induction d with
  | nil => rfl
  | cons p d ih =>
    obtain ⟨k', l'⟩ := p
    by_cases e : k' = w
    · simp [clearData, dictGet?, e]
    · simp only [clearData, List.map_cons, dictGet?, e, if_false] at ih ⊢
      exact ih

/-! ### the object invariant -/

/-- format chosen by the constructor for an entry -/
def fmtOf (width : Nat → Nat) (e : Entry) : Fmt := fmtOfWidth (width (e.wire?.getD 0))

/-- invariant after the constructor has processed the entries `done` -/
structure InvP (width : Nat → Nat) (wf : Wf) (done : List Entry) : Prop where
  nodup : wf.uniq.Nodup
  keys  : keys wf.data = wf.uniq
  mem   : ∀ e ∈ done, ∃ w, e.wire? = some w ∧ w ∈ wf.uniq
  only  : ∀ w ∈ wf.uniq, ∃ e ∈ done, e.wire? = some w
  fmt   : wf.format = done.map (fmtOf width)

/-- the invariant of a constructed Waveform -/
def Inv (width : Nat → Nat) (wf : Wf) : Prop := InvP width wf wf.wires

theorem initStep_inv (width : Nat → Nat) (acc acc' : Wf) (done : List Entry) (x : Entry)
    (h : InvP width acc done) (hs : initStep width acc x = some acc') :
    InvP width acc' (done ++ [x]) ∧ acc'.wires = acc.wires ∧ acc'.name = acc.name ∧
    (∀ w, (dictGet? acc.data w = none ∨ dictGet? acc.data w = some []) →
          (dictGet? acc'.data w = none ∨ dictGet? acc'.data w = some [])) := by
  unfold initStep at hs
  cases hx : x.wire? with
  | none => simp [hx] at hs
  | some w =>
    simp only [hx] at hs
    by_cases hm : w ∈ acc.uniq
    · simp only [hm, not_true_eq_false, if_false, Option.some.injEq] at hs
      subst hs
      refine ⟨⟨h.nodup, h.keys, ?_, ?_, ?_⟩, rfl, rfl, fun w' hw' => hw'⟩
      · intro e he
        rcases List.mem_append.mp he with he | he
        · exact h.mem e he
        · simp at he; subst he; exact ⟨w, hx, hm⟩
      · intro w' hw'
        obtain ⟨e, he, hw⟩ := h.only w' hw'
        exact ⟨e, List.mem_append.mpr (Or.inl he), hw⟩
      · simp [h.fmt, fmtOf, fmtOfWidth, hx]
    · simp only [hm, not_false_eq_true, if_true, Option.some.injEq] at hs
      subst hs
      have hk : w ∉ keys acc.data := by rw [h.keys]; exact hm
      refine ⟨⟨?_, ?_, ?_, ?_, ?_⟩, rfl, rfl, ?_⟩
      · exact List.nodup_append.mpr ⟨h.nodup, by simp, by
          intro a ha b hb; simp at hb; subst hb; intro e; subst e; exact hm ha⟩
      · simp only [dictSet_fresh _ _ _ hk]; simp [keys, ← h.keys]
      · intro e he
        rcases List.mem_append.mp he with he | he
        · obtain ⟨w', h1, h2⟩ := h.mem e he
          exact ⟨w', h1, List.mem_append.mpr (Or.inl h2)⟩
        · simp at he; subst he; exact ⟨w, hx, by simp⟩
      · intro w' hw'
        rcases List.mem_append.mp hw' with hw' | hw'
        · obtain ⟨e, he, hw⟩ := h.only w' hw'
          exact ⟨e, List.mem_append.mpr (Or.inl he), hw⟩
        · simp at hw'; subst hw'; exact ⟨x, by simp, hx⟩
      · simp [h.fmt, fmtOf, fmtOfWidth, hx]
      · intro w' hw'
        simp only [dictSet_fresh _ _ _ hk]
        exact dictGet_append_empty _ _ _ hw'

theorem initLoop_inv (width : Nat → Nat) (xs : List Entry) (acc wf : Wf) (done : List Entry)
    (h : InvP width acc done) (hempty : ∀ w, dictGet? acc.data w = none ∨ dictGet? acc.data w = some [])
    (hs : initLoop width acc xs = some wf) :
    InvP width wf (done ++ xs) ∧ wf.wires = acc.wires ∧ wf.name = acc.name ∧
    (∀ w, dictGet? wf.data w = none ∨ dictGet? wf.data w = some []) := by
  induction xs generalizing acc done with
  | nil =>
    simp only [initLoop, Option.some.injEq] at hs
    subst hs
    simpa using ⟨h, hempty⟩
  | cons x xs ih =>
    simp only [initLoop] at hs
    cases hx : initStep width acc x with
    | none => simp [hx] at hs
    | some acc' =>
      simp only [hx] at hs
      obtain ⟨h1, h2, h3, h4⟩ := initStep_inv width acc acc' done x h hx
      obtain ⟨g1, g2, g3, g4⟩ := ih acc' (done ++ [x]) h1 (fun w => h4 w (hempty w)) hs
      refine ⟨by simpa using g1, g2.trans h2, g3.trans h3, g4⟩

/-- **init_inv**: a constructed Waveform keeps the watch list verbatim, its `uniqueWires` has no repetition, `data`
    has exactly one key per unique wire, every entry (wire, port, repeated) resolves to one of them, `format` is
    per entry, and nothing is recorded yet. -/
theorem init_inv (width : Nat → Nat) (name : List Char) (wires : List Entry) (wf : Wf)
    (h : init width name wires = some wf) :
    Inv width wf ∧ wf.wires = wires ∧ wf.name = name ∧ (∀ w, samples wf w = []) := by
  unfold init at h
  by_cases hl : wires.length > 0
  · simp only [hl, if_true] at h
    have h0 : InvP width { name := name, wires := wires, format := [], uniq := [], data := [] } [] :=
      ⟨List.nodup_nil, rfl, by simp, by simp, rfl⟩
    obtain ⟨g1, g2, g3, g4⟩ := initLoop_inv width wires _ wf [] h0 (fun w => Or.inl rfl) h
    simp only [List.nil_append] at g1
    refine ⟨by unfold Inv; rw [g2]; exact g1, g2, g3, ?_⟩
    intro w
    rcases g4 w with e | e <;> simp [samples, e]
  · simp [hl] at h

/-- every entry of the watch list — wire, port alias or repetition — is recorded under its wire -/
theorem init_wires_mem (width : Nat → Nat) (wf : Wf) (h : Inv width wf) :
    ∀ e ∈ wf.wires, ∃ w, e.wire? = some w ∧ w ∈ wf.uniq ∧ dictHas wf.data w = true := by
  intro e he
  obtain ⟨w, h1, h2⟩ := h.mem e he
  exact ⟨w, h1, h2, (dictHas_iff _ _).mpr (by rw [h.keys]; exact h2)⟩

theorem initLoop_none_iff (width : Nat → Nat) (xs : List Entry) (acc : Wf) :
    initLoop width acc xs = none ↔ ∃ e ∈ xs, e.wire? = none := by
  induction xs generalizing acc with
  | nil => simp [initLoop]
  | cons x xs ih =>
    simp only [initLoop]
    cases hx : x.wire? with
    | none => simp [initStep, hx]
    | some w =>
      simp only [initStep, hx]
      rw [ih]
      simp [hx]

/-- the constructor raises exactly when the list is empty or contains an unconnected port -/
theorem init_raises_iff (width : Nat → Nat) (name : List Char) (wires : List Entry) :
    init width name wires = none ↔ wires = [] ∨ ∃ e ∈ wires, e.wire? = none := by
  unfold init
  by_cases hl : wires.length > 0
  · simp only [hl, if_true, initLoop_none_iff]
    have : wires ≠ [] := by intro e; subst e; simp at hl
    simp [this]
  · have : wires = [] := by
      cases wires with
      | nil => rfl
      | cons a l => simp at hl
    simp [this]

theorem init_cycles_zero (width : Nat → Nat) (name : List Char) (wires : List Entry) (wf : Wf)
    (h : init width name wires = some wf) : ∀ w, (samples wf w).length = 0 := by
  intro w; simp [(init_inv width name wires wf h).2.2.2 w]

/-! ### clock / clear keep the invariant -/

theorem inv_clock (width : Nat → Nat) (wf : Wf) (v : Val) (h : Inv width wf) : Inv width (clock wf v) :=
  ⟨h.nodup, by simp only [clock]; rw [keys_clockData]; exact h.keys, h.mem, h.only, h.fmt⟩

theorem inv_clear (width : Nat → Nat) (wf : Wf) (h : Inv width wf) : Inv width (clear wf) :=
  ⟨h.nodup, by simp only [clear]; rw [keys_clearData]; exact h.keys, h.mem, h.only, h.fmt⟩

theorem inv_run (width : Nat → Nat) (ops : List Op) (wf : Wf) (h : Inv width wf) : Inv width (run wf ops) := by
  unfold run
  induction ops generalizing wf with
  | nil => exact h
  | cons op ops ih =>
    simp only [List.foldl_cons]
    apply ih
    cases op with
    | clock v => exact inv_clock width wf v h
    | clear => exact inv_clear width wf h

/-- neither `clock` nor `get_wavedrom` can hit their KeyError / IndexError paths on a constructed Waveform -/
theorem no_raise (width : Nat → Nat) (wf : Wf) (h : Inv width wf) : clockRaises wf = false ∧ renderRaises wf = false := by
  constructor
  · simp only [clockRaises, List.any_eq_false]
    intro w hw
    have : dictHas wf.data w = true := (dictHas_iff _ _).mpr (by rw [h.keys]; exact hw)
    simp [this]
  · simp only [renderRaises, Bool.or_eq_false_iff, List.any_eq_false]
    constructor
    · simp [h.fmt]
    · intro e he
      obtain ⟨w, h1, _, h3⟩ := init_wires_mem width wf h e he
      simp [h1, h3]

/-- `clock()`: every unique wire gets exactly one new sample, the value it carries now -/
theorem samples_clock (width : Nat → Nat) (wf : Wf) (v : Val) (h : Inv width wf) (w : Nat) (hw : w ∈ wf.uniq) :
    samples (clock wf v) w = samples wf w ++ [v w] := by
  obtain ⟨l, hl⟩ := dictGet_of_mem wf.data w (by rw [h.keys]; exact hw)
  simp [samples, clock, dictGet_clockData wf.uniq h.nodup v wf.data w, hw, hl]

theorem samples_clear (wf : Wf) (w : Nat) : samples (clear wf) w = [] := by
  simp only [samples, clear, dictGet_clearData]
  cases dictGet? wf.data w <;> simp

/-! ### runs: what is recorded after any sequence of cycles and clear() calls -/

/-- specification of the recording of wire `w`: the values it carried at the cycles since the last clear(), in order -/
def track (w : Nat) (acc : List Nat) : Op → List Nat
  | .clock v => acc ++ [v w]
  | .clear => []

/-- number of simulated cycles since the last clear() -/
def cyclesOf (n : Nat) : Op → Nat
  | .clock _ => n + 1
  | .clear => 0

theorem track_length (w : Nat) (ops : List Op) (acc : List Nat) :
    (ops.foldl (track w) acc).length = ops.foldl cyclesOf acc.length := by
  induction ops generalizing acc with
  | nil => rfl
  | cons op ops ih =>
    simp only [List.foldl_cons]
    rw [ih]
    cases op <;> simp [track, cyclesOf]

/-- **capture_model**: after ANY sequence of cycles and clear() calls, the list recorded for a watched wire is exactly
    the sequence of values the wire carried at the cycles since the last clear(), one per cycle, in cycle order. -/
theorem capture_model (width : Nat → Nat) (ops : List Op) (wf : Wf) (h : Inv width wf) (w : Nat) (hw : w ∈ wf.uniq) :
    samples (run wf ops) w = ops.foldl (track w) (samples wf w) := by
  unfold run
  induction ops generalizing wf with
  | nil => rfl
  | cons op ops ih =>
    simp only [List.foldl_cons]
    cases op with
    | clock v =>
      have := ih (clock wf v) (inv_clock width wf v h) hw
      rw [samples_clock width wf v h w hw] at this
      exact this
    | clear =>
      have := ih (clear wf) (inv_clear width wf h) hw
      rw [samples_clear] at this
      exact this

/-- **clear_resets**: after clear() nothing is recorded (and the object is still a valid recorder);
    a following run records from scratch -/
theorem clear_resets (width : Nat → Nat) (wf : Wf) (h : Inv width wf) :
    Inv width (clear wf) ∧ (∀ w, samples (clear wf) w = []) ∧
    (∀ ops w, w ∈ wf.uniq → samples (run (clear wf) ops) w = ops.foldl (track w) []) := by
  refine ⟨inv_clear width wf h, samples_clear wf, ?_⟩
  intro ops w hw
  have := capture_model width ops (clear wf) (inv_clear width wf h) w hw
  rw [samples_clear] at this
  exact this

/-- **alias_share**: two watch-list entries with the same wire (a wire and its port, two ports of one wire, a repeated
    entry) read the SAME recorded list, and every watched wire has exactly `cycles` samples -/
theorem alias_share (width : Nat → Nat) (name : List Char) (wires : List Entry) (wf0 : Wf)
    (h0 : init width name wires = some wf0) (ops : List Op) :
    ∀ e ∈ wires, ∃ w, e.wire? = some w ∧
      samples (run wf0 ops) w = ops.foldl (track w) [] ∧
      (samples (run wf0 ops) w).length = ops.foldl cyclesOf 0 := by
  obtain ⟨hinv, hw, _, hs⟩ := init_inv width name wires wf0 h0
  intro e he
  obtain ⟨w, h1, h2⟩ := hinv.mem e (hw ▸ he)
  have := capture_model width ops wf0 hinv w h2
  rw [hs w] at this
  exact ⟨w, h1, this, by rw [this, track_length]; rfl⟩

end C15

/-! ### watched wires are identified by identity, never by name

  Modelling decision, stated as a theorem: `Entry.full` / `Entry.short` (the strings `getFullPath()` / `.name`) play no
  role in what is recorded.  Two different wires with the same name (internal wires of sibling blocks) are two
  records; a wire, its ports and its repetitions — whatever they are called — are one. -/
namespace C15
open Waveform

/-- the recording-relevant part of a Waveform object -/
def core (wf : Wf) : List Nat × Dict × List Fmt := (wf.uniq, wf.data, wf.format)

theorem initStep_core (width : Nat → Nat) (acc acc' : Wf) (x x' : Entry) (hc : core acc = core acc')
    (hx : x.wire? = x'.wire?) : (initStep width acc x).map core = (initStep width acc' x').map core := by
  simp only [core, Prod.mk.injEq] at hc
  obtain ⟨h1, h2, h3⟩ := hc
  unfold initStep
  rw [hx]
  cases x'.wire? with
  | none => rfl
  | some w =>
    by_cases hm : w ∈ acc'.uniq
    · have hm' : w ∈ acc.uniq := h1 ▸ hm
      simp [core, hm, h1, h2, h3]
    · have hm' : w ∉ acc.uniq := h1 ▸ hm
      simp [core, hm, h1, h2, h3]

theorem initLoop_core (width : Nat → Nat) (r : Entry → Entry) (hr : ∀ e, (r e).wire? = e.wire?)
    (xs : List Entry) (acc acc' : Wf) (hc : core acc = core acc') :
    (initLoop width acc (xs.map r)).map core = (initLoop width acc' xs).map core := by
  induction xs generalizing acc acc' with
  | nil => simp [initLoop, hc]
  | cons x xs ih =>
    simp only [List.map_cons, initLoop]
    have hs := initStep_core width acc acc' (r x) x hc (hr x)
    cases h1 : initStep width acc (r x) with
    | none =>
      rw [h1] at hs
      cases h2 : initStep width acc' x with
      | none => rfl
      | some b => rw [h2] at hs; simp at hs
    | some a =>
      rw [h1] at hs
      cases h2 : initStep width acc' x with
      | none => rw [h2] at hs; simp at hs
      | some b =>
        rw [h2] at hs
        simp only [Option.map_some, Option.some.injEq] at hs
        exact ih a b hs

/-- **init_by_identity**: renaming the watch-list entries in any way (in particular: giving two different wires the
    same name, or one wire different names) changes neither `uniqueWires`, nor `data`, nor `format`, nor whether the
    constructor raises.  De-duplication is by wire identity only. -/
theorem init_by_identity (width : Nat → Nat) (name name' : List Char) (wires : List Entry)
    (r : Entry → Entry) (hr : ∀ e, (r e).wire? = e.wire?) :
    (init width name (wires.map r)).map core = (init width name' wires).map core := by
  unfold init
  simp only [List.length_map]
  by_cases hl : wires.length > 0
  · simp only [hl, if_true]
    exact initLoop_core width r hr wires _ _ rfl
  · simp [hl]

end C15
