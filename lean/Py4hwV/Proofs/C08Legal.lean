import Py4hwV.Proofs.C08Wide
/-
  C08, round 8: the `Lib.*Legal` predicates ("the real constructor accepts these parameters": checked against the real
  constructors by the legal-vs-raises stream of harness/c08.py on every run) are tied to the `_spec` theorems:
    *_of_legal     constructor accepted (+ wire-range facts every real wire satisfies)  ⇒  the block computes its specification
    muxLegal_iff   the exact set of (select width, number of inputs) `Mux` accepts — including the two silent ones
  so that the structural hypotheses of the `_spec` theorems (`ins ≠ []`, `2 ≤ length`, `Σ widths ≤ rw`, `len = 2^sw`, …) are seen to
  be exactly "the constructor did not raise", not extra restrictions.
-/
namespace C08
open Lib Leaf Lib.LSpec

theorem ne_nil_of_not_isEmpty {α : Type} (l : List α) (h : (!l.isEmpty) = true) : l ≠ [] := by
  cases l with
  | nil => simp at h
  | cons a as => simp

theorem andN_spec_of_legal (rw : Nat) (ins : List Nat) (h : andNLegal ins = true) : Lib.andN rw ins = LSpec.andN rw ins :=
  andN_spec rw ins (ne_nil_of_not_isEmpty ins h)
theorem orN_spec_of_legal (rw : Nat) (ins : List Nat) (h : orNLegal ins = true) : Lib.orN rw ins = LSpec.orN rw ins :=
  orN_spec rw ins (ne_nil_of_not_isEmpty ins h)
theorem norN_spec_of_legal (rw : Nat) (ins : List Nat) (h : orNLegal ins = true) : Lib.norN rw ins = LSpec.norN rw ins :=
  norN_spec rw ins (ne_nil_of_not_isEmpty ins h)
theorem xorN_spec_of_legal (rw : Nat) (ins : List (Nat × Nat)) (h : xorNLegal ins = true) (hr : ∀ y ∈ ins, y.2 < 2 ^ y.1) :
    Lib.xorN rw ins = LSpec.xorN rw (ins.map (·.2)) :=
  xorN_spec rw ins (by simpa [xorNLegal] using h) hr
theorem concatMSBF_spec_of_legal (rw : Nat) (ins : List (Nat × Nat)) (h : concatLegal rw ins = true) (hr : ∀ wv ∈ ins, wv.2 < 2 ^ wv.1) :
    Lib.concatMSBF rw ins = LSpec.concatMSBF ins :=
  concatMSBF_spec rw ins (by simpa [concatLegal] using h) hr
theorem concatLSBF_spec_of_legal (rw : Nat) (ins : List (Nat × Nat)) (h : concatLegal rw ins = true) (hr : ∀ wv ∈ ins, wv.2 < 2 ^ wv.1) :
    Lib.concatLSBF rw ins = LSpec.concatLSBF ins :=
  concatLSBF_spec rw ins (by simpa [concatLegal] using h) hr
/-- BufEnable: accepted ⇒ `en` is a 1-bit wire, so every wire value of `en` is 0 or 1 -/
theorem bufEnable_spec_of_legal (aw enw rw a en : Nat) (h : bufEnableLegal aw enw rw = true) (hen : en < 2 ^ enw) :
    Lib.bufEnable rw a en = LSpec.bufEnable rw a en := by
  simp only [bufEnableLegal, Bool.and_eq_true, decide_eq_true_eq] at h
  rw [h.2] at hen
  exact bufEnable_spec rw a en (by simpa using hen)
theorem andBits_spec_of_legal (aw rw a : Nat) (h : bitsGateLegal aw = true) (hrw : 1 ≤ rw) (ha : a < 2 ^ aw) :
    Lib.andBits aw rw a = LSpec.andBits aw a :=
  andBits_spec aw rw a (by simpa [bitsGateLegal] using h) hrw ha
theorem orBits_spec_of_legal (aw rw a : Nat) (h : bitsGateLegal aw = true) (hrw : 1 ≤ rw) (ha : a < 2 ^ aw) :
    Lib.orBits aw rw a = LSpec.orBits a :=
  orBits_spec aw rw a (by simpa [bitsGateLegal] using h) hrw ha

/-- the parameters `Mux(sel, ins, r)` accepts: `2^sw` inputs for `sw ≥ 2`, 2 OR 3 inputs for a 1-bit select (the third one is
    never read), ONE input with a 0-bit select (nothing is built, `r` stays 0) -/
theorem muxLegal_iff (sw n : Nat) :
    muxLegal sw n = true ↔ (sw = 0 ∧ n = 1) ∨ (sw = 1 ∧ (n = 2 ∨ n = 3)) ∨ (2 ≤ sw ∧ n = 2 ^ sw) := by
  simp only [muxLegal, ilog2, Bool.and_eq_true, Bool.or_eq_true, decide_eq_true_eq]
  constructor
  · rintro ⟨⟨hn, hl⟩, h⟩
    have hn0 : n ≠ 0 := by omega
    have hl' : sw = n.log2 := of_decide_eq_true hl
    have hb := (Nat.log2_eq_iff hn0).mp hl'.symm
    rcases h with h | h
    · subst h
      simp only [Nat.pow_one] at hb
      have : (2:Nat) ^ (1 + 1) = 4 := by decide
      rw [this] at hb
      right; left; exact ⟨rfl, by omega⟩
    · by_cases h0 : sw = 0
      · left; subst h0; exact ⟨rfl, by simpa using h⟩
      · by_cases h1 : sw = 1
        · subst h1; right; left; exact ⟨rfl, Or.inl (by simpa using h)⟩
        · right; right; exact ⟨by omega, h⟩
  · rintro (⟨h0, h1⟩ | ⟨h0, h1⟩ | ⟨h0, h1⟩)
    · subst h0; subst h1; decide
    · subst h0; rcases h1 with h | h <;> subst h <;> decide
    · subst h1
      refine ⟨⟨Nat.two_pow_pos sw, by simp [Nat.log2_two_pow]⟩, Or.inr rfl⟩

/-- Mux: accepted, at least one select bit, select value inside its wire ⇒ `r = ins[sel]` -/
theorem mux_spec_of_legal (rw sw sel : Nat) (ins : List Nat) (h : muxLegal sw ins.length = true) (hsw : 1 ≤ sw) (hsel : sel < 2 ^ sw) :
    Lib.mux rw sw sel ins = LSpec.mux rw sel ins := by
  apply mux_spec rw sw sel ins hsw _ hsel
  rcases (muxLegal_iff sw ins.length).mp h with h | h | h
  · omega
  · exact Or.inl h.1
  · exact Or.inr h.2
/-- the accepted 0-bit-select Mux does NOT implement `r = ins[0]` -/
theorem mux_zero_select_counterexample : muxLegal 0 1 = true ∧ Lib.mux 1 0 0 [1] = 0 ∧ LSpec.mux 1 0 [1] = 1 := by decide

theorem demux_spec_of_legal (aw sw a sel nouts : Nat) (h : demuxLegal sw nouts = true) (hsel : sel < 2 ^ sw) :
    Lib.demux aw sw a sel = LSpec.demux aw sw a sel := by
  simp only [demuxLegal, Bool.and_eq_true, decide_eq_true_eq] at h
  exact demux_spec aw sw a sel h.2 hsel
/-- Decoder: accepted and not more outputs than input combinations -/
theorem decoder_spec_of_legal (aw a n : Nat) (h : decoderLegal aw n = true) (ha : a < 2 ^ aw) (hn : n ≤ 2 ^ aw) :
    Lib.decoder aw a n = LSpec.decoder a n := by
  simp only [decoderLegal, Bool.or_eq_true, decide_eq_true_eq] at h
  rcases h with h | h
  · exact decoder_spec aw a n h ha hn
  · subst h; rfl
theorem select_spec_of_legal (rw : Nat) (sels : List Nat) (ins : List (Nat × Nat)) (h : selectLegal sels.length ins.length = true)
    (hs : ∀ s ∈ sels, s < 2) : Lib.select rw sels ins = LSpec.select rw sels ins := by
  simp only [selectLegal, Bool.and_eq_true, decide_eq_true_eq] at h
  obtain ⟨h1, h2⟩ := h
  apply select_spec rw sels ins _ _ hs
  · intro e; rw [e] at h1; simp only [List.length_nil] at h1; omega
  · intro e; rw [e] at h2; simp only [List.length_nil] at h2; omega
/-- SumOfMinterms: accepted ⇒ exact characterisation for every list; documented reading for in-range lists -/
theorem sumOfMinterms_wrap_of_legal (aw rw a : Nat) (ms : List Int) (h : sumOfMintermsLegal aw ms = true) (hrw : 1 ≤ rw) (ha : a < 2 ^ aw) :
    Lib.sumOfMinterms aw rw a ms = LSpec.sumOfMintermsWrap aw a ms := by
  simp only [sumOfMintermsLegal, Bool.and_eq_true, decide_eq_true_eq] at h
  exact sumOfMinterms_wrap aw rw a ms h.1 hrw (ne_nil_of_not_isEmpty ms h.2) ha
theorem equalConstant_wide_of_legal (aw rw a : Nat) (v : Int) (h : equalConstantLegal aw = true) (ha : a < 2 ^ aw) :
    Lib.equalConstant aw rw a v = LSpec.equalConstantW aw rw a v :=
  equalConstant_wide aw rw a v (by simpa [equalConstantLegal] using h) ha
theorem equal_wide_of_legal (aw bw rw a b : Nat) (h : equalLegal aw = true) (ha : a < 2 ^ aw) (hb : b < 2 ^ bw) (hb' : b < 2 ^ aw) :
    Lib.equal aw bw rw a b = LSpec.equalW rw a b :=
  equal_wide aw bw rw a b (by simpa [equalLegal] using h) ha hb hb'
theorem comparator_wide_of_legal (aw bw gw ew a b : Nat) (h : comparatorLegal aw bw = true) (hew : 1 ≤ ew) (ha : a < 2 ^ aw) (hb : b < 2 ^ bw) :
    Lib.comparator aw gw ew a b = LSpec.comparatorW aw gw ew a b := by
  simp only [comparatorLegal, decide_eq_true_eq] at h
  subst h
  exact comparator_wide aw gw ew a b hew ha hb
theorem comparatorSU_spec_of_legal (aw bw a b : Nat) (h : comparatorSULegal aw bw = true) (ha : a < 2 ^ aw) (hb : b < 2 ^ bw) :
    Lib.comparatorSU aw a b = LSpec.comparatorSU aw a b := by
  simp only [comparatorSULegal, Bool.and_eq_true, decide_eq_true_eq] at h
  obtain ⟨h1, h2⟩ := h
  subst h1
  exact comparatorSU_spec aw a b h2 ha hb

end C08
