import Py4hwV.Proofs.C11Shape
/-
  C11: debug.checkIntegrity raises exactly when some in/out port of the hierarchy is attached to an undriven wire.
  (1) for EVERY graph: checkIntegrity = "no port below fails its per-port test" (`checkIntegrity_eq_any`);
  (2) on graphs built by the ordinary calls (no BidirWire, no addInOut, no disconnect: invariant `WF`) the per-port test
      is exactly "the wire has no source";
  (3) `anyBelow` with enough fuel = existence of a port in the hierarchy (`Below`).
-/
namespace Build

@[simp] theorem isOk_ok (u : Unit) : isOk (.ok u) = true := rfl
@[simp] theorem isOk_err (e : Err) : isOk (.error e) = false := rfl

theorem firstErr_isOk {α : Type} (l : List α) (f : α → Res) : isOk (firstErr l f) = l.all (fun a => isOk (f a)) := by
  induction l with
  | nil => rfl
  | cons a t ih =>
    simp only [firstErr, List.all_cons]
    cases h : f a with
    | ok u => simp only [isOk_ok, Bool.true_and]; exact ih
    | error e => simp only [isOk_err, Bool.false_and]

theorem checkInPort_o (g : G) (o o' pid : Nat) : isOk (checkInPort g o pid) = isOk (checkInPort g o' pid) := by
  unfold checkInPort
  split
  · rfl
  · split
    · rfl
    · split
      · rfl
      · split
        · rfl
        · split <;> rfl

theorem checkOutPort_o (g : G) (o o' pid : Nat) : isOk (checkOutPort g o pid) = isOk (checkOutPort g o' pid) := by
  unfold checkOutPort
  split
  · rfl
  · split
    · rfl
    · split
      · rfl
      · split
        · rfl
        · split <;> rfl

/-- the per-port tests of checkIntegrity as predicates -/
def inBad (g : G) (pid : Nat) : Bool := !isOk (checkInPort g 0 pid)
def outBad (g : G) (pid : Nat) : Bool := !isOk (checkOutPort g 0 pid)

/-- (1) for every graph and every fuel: checkIntegrity succeeds iff no port below fails its test -/
theorem checkIntegrity_eq_any (fuel : Nat) (g : G) (o : Nat) :
    isOk (checkIntegrity fuel g o) = !anyBelow fuel g o (inBad g) (outBad g) := by
  induction fuel generalizing o with
  | zero => simp [checkIntegrity, anyBelow]
  | succ f ih =>
    simp only [checkIntegrity, anyBelow]
    cases ho : g.objs[o]? with
    | none => simp
    | some ob =>
      simp only
      have e1 := firstErr_isOk ob.inPorts (checkInPort g o)
      have e2 := firstErr_isOk ob.outPorts (checkOutPort g o)
      have e3 := firstErr_isOk ob.children (fun kc => checkIntegrity f g kc.2)
      have a1 : (ob.inPorts.all fun a => isOk (checkInPort g o a)) = !ob.inPorts.any (inBad g) := by
        rw [List.all_eq_not_any_not]; congr 2; funext a; simp [inBad, checkInPort_o g o 0 a]
      have a2 : (ob.outPorts.all fun a => isOk (checkOutPort g o a)) = !ob.outPorts.any (outBad g) := by
        rw [List.all_eq_not_any_not]; congr 2; funext a; simp [outBad, checkOutPort_o g o 0 a]
      have a3 : (ob.children.all fun kc => isOk (checkIntegrity f g kc.2)) =
          !ob.children.any (fun kc => anyBelow f g kc.2 (inBad g) (outBad g)) := by
        rw [List.all_eq_not_any_not]; congr 2; funext a; simp [ih]
      cases h1 : firstErr ob.inPorts (checkInPort g o) with
      | error e =>
        rw [h1, isOk_err, a1] at e1
        have : ob.inPorts.any (inBad g) = true := by
          cases hh : ob.inPorts.any (inBad g) with
          | true => rfl
          | false => rw [hh] at e1; cases e1
        simp only [isOk_err, this, Bool.true_or, Bool.not_true]
      | ok u =>
        rw [h1, isOk_ok, a1] at e1
        have n1 : ob.inPorts.any (inBad g) = false := by
          cases hh : ob.inPorts.any (inBad g) with
          | false => rfl
          | true => rw [hh] at e1; cases e1
        simp only
        cases h2 : firstErr ob.outPorts (checkOutPort g o) with
        | error e =>
          rw [h2, isOk_err, a2] at e2
          have : ob.outPorts.any (outBad g) = true := by
            cases hh : ob.outPorts.any (outBad g) with
            | true => rfl
            | false => rw [hh] at e2; cases e2
          simp only [isOk_err, this, Bool.true_or, Bool.or_true, Bool.not_true]
        | ok u2 =>
          rw [h2, isOk_ok, a2] at e2
          have n2 : ob.outPorts.any (outBad g) = false := by
            cases hh : ob.outPorts.any (outBad g) with
            | false => rfl
            | true => rw [hh] at e2; cases e2
          simp only
          rw [e3, a3, n1, n2]; simp only [Bool.false_or]

/-! ### (2) graphs built by the ordinary calls -/

/-- well-formedness of ordinary netlists: only ordinary wires, every listed in/out port is attached to an existing
    wire, every source is a listed out port of its parent -/
structure WF (g : G) : Prop where
  nobidir : ∀ (w : Nat) (wr : Wire), g.wires[w]? = some wr → wr.bidir = false
  port : ∀ (o : Nat) (ob : Obj) (pid : Nat), g.objs[o]? = some ob → (pid ∈ ob.inPorts ∨ pid ∈ ob.outPorts) →
      ∃ (pt : Port) (w : Nat) (wr : Wire), g.ports[pid]? = some pt ∧ pt.wire = some w ∧ g.wires[w]? = some wr
  src : ∀ (w : Nat) (wr : Wire) (sp : Nat), g.wires[w]? = some wr → wr.source = some sp →
      ∃ (spt : Port) (sob : Obj), g.ports[sp]? = some spt ∧ g.objs[spt.parent]? = some sob ∧
        (sp ∈ sob.outPorts ∨ sp ∈ sob.inOutPorts)

theorem wf_inBad {g : G} (h : WF g) {o : Nat} {ob : Obj} {pid : Nat} (ho : g.objs[o]? = some ob)
    (hm : pid ∈ ob.inPorts ∨ pid ∈ ob.outPorts) : inBad g pid = undriven g pid ∧ outBad g pid = undriven g pid := by
  obtain ⟨pt, w, wr, hp, hw, hwr⟩ := h.port o ob pid ho hm
  have hb := h.nobidir w wr hwr
  simp only [inBad, outBad, checkInPort, checkOutPort, undriven, hp, hw, hwr, hb]
  cases hs : wr.source with
  | none => simp [isOk]
  | some sp =>
    obtain ⟨spt, sob, h1, h2, h3⟩ := h.src w wr sp hwr hs
    rcases h3 with h3 | h3 <;> simp [checkPort, h1, h2, h3]

theorem any_congr_mem {α : Type} (l : List α) (p q : α → Bool) (h : ∀ a ∈ l, p a = q a) : l.any p = l.any q := by
  induction l with
  | nil => rfl
  | cons a t ih =>
    simp only [List.any_cons]
    rw [h a List.mem_cons_self, ih (fun b hb => h b (List.mem_cons_of_mem _ hb))]

theorem anyBelow_congr (fuel : Nat) (g : G) (o : Nat) (Pi Po Qi Qo : Nat → Bool)
    (hi : ∀ (o : Nat) (ob : Obj) (pid : Nat), g.objs[o]? = some ob → pid ∈ ob.inPorts → Pi pid = Qi pid)
    (ho : ∀ (o : Nat) (ob : Obj) (pid : Nat), g.objs[o]? = some ob → pid ∈ ob.outPorts → Po pid = Qo pid) :
    anyBelow fuel g o Pi Po = anyBelow fuel g o Qi Qo := by
  induction fuel generalizing o with
  | zero => rfl
  | succ f ih =>
    simp only [anyBelow]
    cases hob : g.objs[o]? with
    | none => rfl
    | some ob =>
      simp only
      have e1 : ob.inPorts.any Pi = ob.inPorts.any Qi := by
        apply any_congr_mem; intro a ha; exact hi o ob a hob ha
      have e2 : ob.outPorts.any Po = ob.outPorts.any Qo := by
        apply any_congr_mem; intro a ha; exact ho o ob a hob ha
      have e3 : ob.children.any (fun kc => anyBelow f g kc.2 Pi Po) = ob.children.any (fun kc => anyBelow f g kc.2 Qi Qo) := by
        apply any_congr_mem; intro a _; exact ih a.2
      rw [e1, e2, e3]

/-- on well-formed ordinary netlists: checkIntegrity succeeds iff no port below is attached to an undriven wire -/
theorem checkIntegrity_eq_undriven {g : G} (h : WF g) (fuel : Nat) (o : Nat) :
    isOk (checkIntegrity fuel g o) = !anyBelow fuel g o (undriven g) (undriven g) := by
  rw [checkIntegrity_eq_any]
  congr 1
  apply anyBelow_congr
  · intro o ob pid ho hm; exact (wf_inBad h ho (Or.inl hm)).1
  · intro o ob pid ho hm; exact (wf_inBad h ho (Or.inr hm)).2

/-! ### (3) enough fuel: `anyBelow` is existence of a port in the hierarchy -/

/-- `o'` is `o` or a descendant of `o` through the `children` dictionaries -/
inductive Below (g : G) : Nat → Nat → Prop
  | refl (o : Nat) : Below g o o
  | child {o : Nat} {ob : Obj} {n : String} {c o' : Nat} :
      g.objs[o]? = some ob → (n, c) ∈ ob.children → Below g c o' → Below g o o'

theorem anyBelow_iff {g : G} (hs : Shape g) (Pi Po : Nat → Bool) (fuel : Nat) (o : Nat) (ho : o < g.objs.length)
    (hf : g.objs.length ≤ fuel + o) :
    anyBelow fuel g o Pi Po = true ↔
      ∃ (o' : Nat) (ob : Obj) (pid : Nat), Below g o o' ∧ g.objs[o']? = some ob ∧
        ((pid ∈ ob.inPorts ∧ Pi pid = true) ∨ (pid ∈ ob.outPorts ∧ Po pid = true)) := by
  induction fuel generalizing o with
  | zero => omega
  | succ f ih =>
    have hsome : ∃ ob, g.objs[o]? = some ob := ⟨_, List.getElem?_eq_getElem ho⟩
    obtain ⟨ob, hob⟩ := hsome
    simp only [anyBelow, hob]
    constructor
    · intro h
      simp only [Bool.or_eq_true, List.any_eq_true] at h
      rcases h with (⟨pid, hm, hp⟩ | ⟨pid, hm, hp⟩) | ⟨kc, hm, hp⟩
      · exact ⟨o, ob, pid, Below.refl o, hob, Or.inl ⟨hm, hp⟩⟩
      · exact ⟨o, ob, pid, Below.refl o, hob, Or.inr ⟨hm, hp⟩⟩
      · obtain ⟨k, c⟩ := kc
        have hlt := hs.childLt o ob k c hob hm
        obtain ⟨o', ob', pid, hb, h1, h2⟩ := (ih c hlt.2 (by omega)).1 hp
        exact ⟨o', ob', pid, Below.child hob hm hb, h1, h2⟩
    · intro ⟨o', ob', pid, hb, h1, h2⟩
      simp only [Bool.or_eq_true, List.any_eq_true]
      cases hb with
      | refl =>
        rw [hob] at h1; cases h1
        rcases h2 with ⟨hm, hp⟩ | ⟨hm, hp⟩
        · exact Or.inl (Or.inl ⟨pid, hm, hp⟩)
        · exact Or.inl (Or.inr ⟨pid, hm, hp⟩)
      | child hob2 hm hb' =>
        rename_i ob2 k c
        rw [hob] at hob2; cases hob2
        have hlt := hs.childLt o ob k c hob hm
        exact Or.inr ⟨(k, c), hm, (ih c hlt.2 (by omega)).2 ⟨o', ob', pid, hb', h1, h2⟩⟩

theorem firstErr_fuel {α : Type} (l : List α) (f : α → Res) (h : firstErr l f = .error .fuel) :
    ∃ a ∈ l, f a = .error .fuel := by
  induction l with
  | nil => simp [firstErr] at h
  | cons a t ih =>
    simp only [firstErr] at h
    cases hfa : f a with
    | ok u =>
      rw [hfa] at h
      obtain ⟨b, hb, hfb⟩ := ih h
      exact ⟨b, List.mem_cons_of_mem _ hb, hfb⟩
    | error e =>
      rw [hfa] at h
      simp at h; subst h
      exact ⟨a, List.mem_cons_self, hfa⟩

theorem checkPort_not_fuel (g : G) (sp : Nat) : checkPort g sp ≠ .error .fuel := by
  unfold checkPort
  split
  · simp
  · split
    · simp
    · split <;> simp

theorem checkInPort_not_fuel (g : G) (o pid : Nat) : checkInPort g o pid ≠ .error .fuel := by
  unfold checkInPort
  split
  · simp
  · split
    · simp
    · split
      · simp
      · split
        · simp
        · split
          · simp
          · exact checkPort_not_fuel _ _

theorem checkOutPort_not_fuel (g : G) (o pid : Nat) : checkOutPort g o pid ≠ .error .fuel := by
  unfold checkOutPort
  split
  · simp
  · split
    · simp
    · split
      · simp
      · split
        · simp
        · split <;> simp

/-- the recursion bound is never hit on graphs whose children are younger than their parents -/
theorem checkIntegrity_not_fuel {g : G} (hs : Shape g) (fuel : Nat) (o : Nat) (ho : o < g.objs.length)
    (hf : g.objs.length ≤ fuel + o) : checkIntegrity fuel g o ≠ .error .fuel := by
  induction fuel generalizing o with
  | zero => omega
  | succ f ih =>
    have hsome : ∃ ob, g.objs[o]? = some ob := ⟨_, List.getElem?_eq_getElem ho⟩
    obtain ⟨ob, hob⟩ := hsome
    simp only [checkIntegrity, hob]
    cases h1 : firstErr ob.inPorts (checkInPort g o) with
    | error e =>
      simp only
      intro he; simp at he; subst he
      obtain ⟨a, _, ha⟩ := firstErr_fuel _ _ h1
      exact checkInPort_not_fuel g o a ha
    | ok u =>
      simp only
      cases h2 : firstErr ob.outPorts (checkOutPort g o) with
      | error e =>
        simp only
        intro he; simp at he; subst he
        obtain ⟨a, _, ha⟩ := firstErr_fuel _ _ h2
        exact checkOutPort_not_fuel g o a ha
      | ok u2 =>
        simp only
        intro he
        obtain ⟨⟨k, c⟩, hm, ha⟩ := firstErr_fuel _ _ he
        have hlt := hs.childLt o ob k c hob hm
        exact ih c hlt.2 (by omega) ha

/-! ### WF is preserved by the ordinary calls -/

/-- calls that add no port-list entry and no source -/
theorem WF_frame {g g' : G} (h : WF g)
    (hw1 : ∀ (w : Nat) (wr' : Wire), g'.wires[w]? = some wr' → wr'.bidir = false ∧
        ∀ sp, wr'.source = some sp → ∃ wr, g.wires[w]? = some wr ∧ wr.source = some sp)
    (hw2 : ∀ (w : Nat) (wr : Wire), g.wires[w]? = some wr → ∃ wr', g'.wires[w]? = some wr')
    (hp : ∀ (pid : Nat) (pt : Port), g.ports[pid]? = some pt → g'.ports[pid]? = some pt)
    (ho1 : ∀ (o : Nat) (ob' : Obj) (pid : Nat), g'.objs[o]? = some ob' → (pid ∈ ob'.inPorts ∨ pid ∈ ob'.outPorts) →
        ∃ ob, g.objs[o]? = some ob ∧ (pid ∈ ob.inPorts ∨ pid ∈ ob.outPorts))
    (ho2 : ∀ (o : Nat) (ob : Obj) (pid : Nat), g.objs[o]? = some ob → (pid ∈ ob.outPorts ∨ pid ∈ ob.inOutPorts) →
        ∃ ob', g'.objs[o]? = some ob' ∧ (pid ∈ ob'.outPorts ∨ pid ∈ ob'.inOutPorts)) : WF g' := by
  constructor
  · intro w wr' h1; exact (hw1 w wr' h1).1
  · intro o ob' pid h1 h2
    obtain ⟨ob, ha, hb⟩ := ho1 o ob' pid h1 h2
    obtain ⟨pt, w, wr, p1, p2, p3⟩ := h.port o ob pid ha hb
    obtain ⟨wr', p4⟩ := hw2 w wr p3
    exact ⟨pt, w, wr', hp pid pt p1, p2, p4⟩
  · intro w wr' sp h1 h2
    obtain ⟨wr, ha, hb⟩ := (hw1 w wr' h1).2 sp h2
    obtain ⟨spt, sob, p1, p2, p3⟩ := h.src w wr sp ha hb
    obtain ⟨sob', p4, p5⟩ := ho2 spt.parent sob sp p2 p3
    exact ⟨spt, sob', hp sp spt p1, p4, p5⟩

/-- object updates that keep the port lists -/
theorem WF_modObj {g : G} (h : WF g) (o : Nat) (f : Obj → Obj)
    (hf : ∀ ob, (f ob).inPorts = ob.inPorts ∧ (f ob).outPorts = ob.outPorts ∧ (f ob).inOutPorts = ob.inOutPorts) :
    WF (modObj g o f) := by
  apply WF_frame h
  · intro w wr' h1; exact ⟨h.nobidir w wr' h1, fun sp hs => ⟨wr', h1, hs⟩⟩
  · intro w wr h1; exact ⟨wr, h1⟩
  · intro pid pt h1; exact h1
  · intro o' ob' pid h1 h2
    obtain ⟨a, ha, hb⟩ := modify_some h1
    refine ⟨a, ha, ?_⟩
    subst hb
    by_cases e : o = o'
    · simp only [e, ite_true] at h2; rw [(hf a).1, (hf a).2.1] at h2; exact h2
    · simp only [e, ite_false] at h2; exact h2
  · intro o' ob pid h1 h2
    refine ⟨_, modify_of_some h1, ?_⟩
    split
    · rw [(hf ob).2.1, (hf ob).2.2]; exact h2
    · exact h2

/-- wire updates that keep `bidir` and `source` -/
theorem WF_modWire {g : G} (h : WF g) (w : Nat) (f : Wire → Wire)
    (hf : ∀ wr, (f wr).bidir = wr.bidir ∧ (f wr).source = wr.source) : WF (modWire g w f) := by
  apply WF_frame h
  · intro w' wr' h1
    obtain ⟨a, ha, hb⟩ := modify_some h1
    subst hb
    constructor
    · split
      · rw [(hf a).1]; exact h.nobidir w' a ha
      · exact h.nobidir w' a ha
    · intro sp hs
      refine ⟨a, ha, ?_⟩
      split at hs
      · rw [(hf a).2] at hs; exact hs
      · exact hs
  · intro w' wr h1; exact ⟨_, modify_of_some h1⟩
  · intro pid pt h1; exact h1
  · intro o ob' pid h1 h2; exact ⟨ob', h1, h2⟩
  · intro o ob pid h1 h2; exact ⟨ob, h1, h2⟩

theorem WF_pushWire {g : G} (h : WF g) (x : Wire) (hb : x.bidir = false) (hs : x.source = none) :
    WF { g with wires := g.wires ++ [x] } := by
  apply WF_frame h
  · intro w wr' h1
    simp only [List.getElem?_append] at h1
    split at h1
    · exact ⟨h.nobidir w wr' h1, fun sp hs' => ⟨wr', h1, hs'⟩⟩
    · have : w - g.wires.length = 0 := by
        have := lt_of_getElem?_some h1; simp at this; omega
      rw [this] at h1; simp at h1; subst h1
      exact ⟨hb, fun sp hs' => by rw [hs] at hs'; cases hs'⟩
  · intro w wr h1
    exact ⟨wr, by simp only; rw [List.getElem?_append_left (lt_of_getElem?_some h1)]; exact h1⟩
  · intro pid pt h1; exact h1
  · intro o ob' pid h1 h2; exact ⟨ob', h1, h2⟩
  · intro o ob pid h1 h2; exact ⟨ob, h1, h2⟩

theorem WF_appendWire (g : G) (p w : Nat) (h : WF g) : WF (appendWire g p w).1 := by
  unfold appendWire
  split
  · split
    · exact h
    · exact WF_modObj h _ _ (fun _ => ⟨rfl, rfl, rfl⟩)
  · exact h

theorem WF_delWireKey (g : G) (w : Nat) (h : WF g) : WF (delWireKey g w).1 := by
  unfold delWireKey
  split
  · exact h
  · split
    · exact h
    · split
      · exact WF_modObj h _ _ (fun _ => ⟨rfl, rfl, rfl⟩)
      · exact h

theorem WF_newWire (g : G) (p : Nat) (n : String) (h : WF g) : WF (newWire g p n false).1 := by
  unfold newWire
  simp only
  split
  · exact WF_appendWire _ _ _ (WF_pushWire h _ rfl rfl)
  · exact h

theorem WF_newLogic (g : G) (p : Option Nat) (n : String) (pr : Bool) (h : WF g) : WF (newLogic g p n pr).1 := by
  unfold newLogic
  split
  · apply WF_frame h
    · intro w wr' h1; exact ⟨h.nobidir w wr' h1, fun sp hs => ⟨wr', h1, hs⟩⟩
    · intro w wr h1; exact ⟨wr, h1⟩
    · intro pid pt h1; exact h1
    · intro o ob' pid h1 h2
      simp only [List.getElem?_append] at h1
      split at h1
      · exact ⟨ob', h1, h2⟩
      · have : o - g.objs.length = 0 := by
          have := lt_of_getElem?_some h1; simp at this; omega
        rw [this] at h1; simp at h1; subst h1
        simp at h2
    · intro o ob pid h1 h2
      exact ⟨ob, by simp only; rw [List.getElem?_append_left (lt_of_getElem?_some h1)]; exact h1, h2⟩
  · rename_i p
    split
    · exact h
    · split
      · exact h
      · apply WF_frame h
        · intro w wr' h1; exact ⟨h.nobidir w wr' h1, fun sp hs => ⟨wr', h1, hs⟩⟩
        · intro w wr h1; exact ⟨wr, h1⟩
        · intro pid pt h1; exact h1
        · intro o ob' pid h1 h2
          simp only [List.getElem?_append, List.length_modify] at h1
          split at h1
          · obtain ⟨a, ha, hb⟩ := modify_some h1
            refine ⟨a, ha, ?_⟩
            subst hb
            split at h2 <;> exact h2
          · have : o - g.objs.length = 0 := by
              have := lt_of_getElem?_some h1; simp at this; omega
            rw [this] at h1; simp at h1; subst h1
            simp at h2
        · intro o ob pid h1 h2
          have hm : ((g.objs.modify p fun po => { po with children := dset po.children n g.objs.length }) ++
              [({ parent := some p, name := n, prim := pr } : Obj)])[o]? =
              some (if p = o then { ob with children := dset ob.children n g.objs.length } else ob) := by
            rw [List.getElem?_append_left (by simpa using lt_of_getElem?_some h1)]
            exact modify_of_some h1
          refine ⟨_, hm, ?_⟩
          split <;> exact h2

theorem WF_regSink (g : G) (w pid : Nat) (h : WF g) : WF (regSink g w pid).1 := by
  unfold regSink
  split
  · exact h
  · exact WF_modWire h w _ (fun _ => ⟨rfl, rfl⟩)

/-- listing a new port (id = `g.ports.length`) in one of the three port lists of `o`: in/out lists gain at most the new
    port, nothing is removed -/
structure Lists (g : G) (f : Obj → Obj) : Prop where
  inp : ∀ (ob : Obj) (x : Nat), x ∈ (f ob).inPorts → x ∈ ob.inPorts ∨ x = g.ports.length
  out : ∀ (ob : Obj) (x : Nat), x ∈ (f ob).outPorts → x ∈ ob.outPorts ∨ x = g.ports.length
  mono : ∀ (ob : Obj) (x : Nat), (x ∈ ob.outPorts → x ∈ (f ob).outPorts) ∧ (x ∈ ob.inOutPorts → x ∈ (f ob).inOutPorts)

/-- general step "a new port attached to wire `w` is listed at `o`": the wire table `g1.wires` may differ from `g.wires`
    in non-`bidir` fields, and in `source` only at `w`, where it may name the new port — provided the new port is then
    listed in outPorts or inOutPorts of `o` (`hnew`) -/
theorem WF_attach_gen {g g1 : G} (h : WF g) (ho1 : g1.objs = g.objs) (hp1 : g1.ports = g.ports)
    (hw1 : ∀ (w' : Nat) (wr' : Wire), g1.wires[w']? = some wr' → ∃ a, g.wires[w']? = some a ∧ wr'.bidir = a.bidir ∧
        (wr'.source = a.source ∨ wr'.source = some g.ports.length))
    (hw2 : ∀ (w' : Nat) (a : Wire), g.wires[w']? = some a → ∃ wr', g1.wires[w']? = some wr')
    (pt : Port) (o w : Nat) (ob : Obj) (wr : Wire) (hob : g.objs[o]? = some ob) (hw : g.wires[w]? = some wr)
    (hpo : pt.parent = o) (hpw : pt.wire = some w) (f : Obj → Obj) (hf : Lists g f)
    (hnew : (∃ (w' : Nat) (wr' : Wire), g1.wires[w']? = some wr' ∧ wr'.source = some g.ports.length) →
        g.ports.length ∈ (f ob).outPorts ∨ g.ports.length ∈ (f ob).inOutPorts) :
    WF (modObj (pushPort g1 pt) o f) := by
  have hports : ∀ (pid : Nat) (p : Port), g.ports[pid]? = some p → (g1.ports ++ [pt])[pid]? = some p := by
    intro pid p p1
    rw [hp1, List.getElem?_append_left (lt_of_getElem?_some p1)]; exact p1
  constructor
  · intro w' wr' h1
    obtain ⟨a, ha, hb, _⟩ := hw1 w' wr' h1
    rw [hb]; exact h.nobidir w' a ha
  · intro o' ob' pid h1 h2
    simp only [modObj_objs, pushPort_objs, ho1] at h1
    obtain ⟨a, ha, hb⟩ := modify_some h1
    simp only [modObj_ports, pushPort_ports, modObj_wires, pushPort_wires]
    have old : (pid ∈ a.inPorts ∨ pid ∈ a.outPorts) → ∃ (pt' : Port) (w' : Nat) (wr' : Wire),
        (g1.ports ++ [pt])[pid]? = some pt' ∧ pt'.wire = some w' ∧ g1.wires[w']? = some wr' := by
      intro hm
      obtain ⟨pt', w', wr', p1, p2, p3⟩ := h.port o' a pid ha hm
      obtain ⟨wr1, p4⟩ := hw2 w' wr' p3
      exact ⟨pt', w', wr1, hports pid pt' p1, p2, p4⟩
    have new : pid = g.ports.length → ∃ (pt' : Port) (w' : Nat) (wr' : Wire),
        (g1.ports ++ [pt])[pid]? = some pt' ∧ pt'.wire = some w' ∧ g1.wires[w']? = some wr' := by
      intro e; subst e
      obtain ⟨wr1, p4⟩ := hw2 w wr hw
      exact ⟨pt, w, wr1, by rw [hp1]; simp, hpw, p4⟩
    subst hb
    by_cases e : o = o'
    · simp only [e, ite_true] at h2
      rcases h2 with h2 | h2
      · rcases hf.inp a pid h2 with h3 | h3
        · exact old (Or.inl h3)
        · exact new h3
      · rcases hf.out a pid h2 with h3 | h3
        · exact old (Or.inr h3)
        · exact new h3
    · simp only [e, ite_false] at h2
      exact old h2
  · intro w' wr' sp h1 h2
    simp only [modObj_wires, pushPort_wires] at h1
    simp only [modObj_ports, pushPort_ports, modObj_objs, pushPort_objs, ho1]
    obtain ⟨a, ha, _, hs⟩ := hw1 w' wr' h1
    have oldsrc : a.source = some sp → ∃ (spt : Port) (sob : Obj), (g1.ports ++ [pt])[sp]? = some spt ∧
        (g.objs.modify o f)[spt.parent]? = some sob ∧ (sp ∈ sob.outPorts ∨ sp ∈ sob.inOutPorts) := by
      intro hs'
      obtain ⟨spt, sob, p1, p2, p3⟩ := h.src w' a sp ha hs'
      refine ⟨spt, _, hports sp spt p1, modify_of_some p2, ?_⟩
      split
      · rcases p3 with p3 | p3
        · exact Or.inl ((hf.mono sob sp).1 p3)
        · exact Or.inr ((hf.mono sob sp).2 p3)
      · exact p3
    rcases hs with hs | hs
    · rw [hs] at h2; exact oldsrc h2
    · rw [hs] at h2; cases h2
      have hl := hnew ⟨w', wr', h1, hs⟩
      have hm : (g.objs.modify o f)[pt.parent]? = some (if o = o then f ob else ob) := by
        rw [hpo]; exact modify_of_some hob
      refine ⟨pt, _, by rw [hp1]; simp, hm, ?_⟩
      simpa using hl

theorem lists_in (g : G) : Lists g (fun ob => { ob with inPorts := ob.inPorts ++ [g.ports.length] }) :=
  ⟨fun ob x hx => by simpa using hx, fun ob x hx => Or.inl hx, fun ob x => ⟨id, id⟩⟩
theorem lists_out (g : G) : Lists g (fun ob => { ob with outPorts := ob.outPorts ++ [g.ports.length] }) :=
  ⟨fun ob x hx => Or.inl hx, fun ob x hx => by simpa using hx, fun ob x => ⟨fun h => List.mem_append_left _ h, id⟩⟩
theorem lists_io (g : G) : Lists g (fun ob => { ob with inOutPorts := ob.inOutPorts ++ [g.ports.length] }) :=
  ⟨fun ob x hx => Or.inl hx, fun ob x hx => Or.inl hx, fun ob x => ⟨id, fun h => List.mem_append_left _ h⟩⟩

/-- the wire table after `regSink` -/
theorem regSink_rel (g : G) (w pid : Nat) :
    (regSink g w pid).1.objs = g.objs ∧ (regSink g w pid).1.ports = g.ports ∧
    (∀ (w' : Nat) (wr' : Wire), (regSink g w pid).1.wires[w']? = some wr' →
        ∃ a, g.wires[w']? = some a ∧ wr'.bidir = a.bidir ∧ wr'.source = a.source) ∧
    (∀ (w' : Nat) (a : Wire), g.wires[w']? = some a → ∃ wr', (regSink g w pid).1.wires[w']? = some wr') := by
  unfold regSink
  split
  · exact ⟨rfl, rfl, fun w' wr' h => ⟨wr', h, rfl, rfl⟩, fun w' a h => ⟨a, h⟩⟩
  · refine ⟨rfl, rfl, ?_, fun w' a h => ⟨_, modify_of_some h⟩⟩
    intro w' wr' h
    obtain ⟨a, ha, hb⟩ := modify_some h
    refine ⟨a, ha, ?_⟩
    subst hb
    split <;> exact ⟨rfl, rfl⟩

theorem WF_addIn (g : G) (o : Nat) (n : String) (w : Nat) (h : WF g) : WF (addIn g o n w).1 := by
  unfold addIn
  split
  · exact h
  · exact h
  · rename_i ob wr ho hw
    cases hp : ob.prim with
    | false =>
      simp only [Bool.false_eq_true, ite_false, andThen]
      exact WF_attach_gen h rfl rfl (fun w' wr' h1 => ⟨wr', h1, rfl, Or.inl rfl⟩) (fun w' a h1 => ⟨a, h1⟩) _ o w ob wr ho hw
        rfl rfl _ (lists_in g) (fun ⟨w', wr', h1, hs⟩ => by
          obtain ⟨spt, _, p1, _, _⟩ := h.src w' wr' _ h1 hs
          exact absurd (lt_of_getElem?_some p1) (Nat.lt_irrefl _))
    | true =>
      simp only [ite_true]
      have hok : (regSink g w g.ports.length).2 = .ok () := by unfold regSink; rw [hw]
      rw [andThen_ok hok]
      obtain ⟨r1, r2, r3, r4⟩ := regSink_rel g w g.ports.length
      exact WF_attach_gen h r1 r2 (fun w' wr' h1 => by
          obtain ⟨a, ha, hb, hc⟩ := r3 w' wr' h1; exact ⟨a, ha, hb, Or.inl hc⟩) r4 _ o w ob wr ho hw
        rfl rfl _ (lists_in g) (fun ⟨w', wr', h1, hs⟩ => by
          obtain ⟨a, ha, _, hc⟩ := r3 w' wr' h1
          rw [hc] at hs
          obtain ⟨spt, _, p1, _, _⟩ := h.src w' a _ ha hs
          exact absurd (lt_of_getElem?_some p1) (Nat.lt_irrefl _))

/-- the wire table after a successful `setSource` on an undriven ordinary wire -/
theorem setSource_rel (g : G) (w : Nat) (wr : Wire) (hw : g.wires[w]? = some wr) :
    (∀ (w' : Nat) (wr' : Wire), (modWire g w fun wr => { wr with source := some g.ports.length }).wires[w']? = some wr' →
        ∃ a, g.wires[w']? = some a ∧ wr'.bidir = a.bidir ∧ (wr'.source = a.source ∨ wr'.source = some g.ports.length)) ∧
    (∀ (w' : Nat) (a : Wire), g.wires[w']? = some a →
        ∃ wr', (modWire g w fun wr => { wr with source := some g.ports.length }).wires[w']? = some wr') := by
  refine ⟨?_, fun w' a h => ⟨_, modify_of_some h⟩⟩
  intro w' wr' h
  obtain ⟨a, ha, hb⟩ := modify_some h
  refine ⟨a, ha, ?_⟩
  subst hb
  split
  · exact ⟨rfl, Or.inr rfl⟩
  · exact ⟨rfl, Or.inl rfl⟩

theorem WF_addOut (g : G) (o : Nat) (n : String) (w : Nat) (h : WF g) : WF (addOut g o n w).1 := by
  unfold addOut
  split
  · exact h
  · exact h
  · rename_i ob wr ho hw
    cases hp : ob.prim with
    | false =>
      simp only [Bool.false_eq_true, ite_false, andThen]
      exact WF_attach_gen h rfl rfl (fun w' wr' h1 => ⟨wr', h1, rfl, Or.inl rfl⟩) (fun w' a h1 => ⟨a, h1⟩) _ o w ob wr ho hw
        rfl rfl _ (lists_out g) (fun _ => Or.inl (by simp))
    | true =>
      simp only [ite_true, regSource, hw, h.nobidir w wr hw, Bool.false_eq_true, ite_false]
      cases hs : wr.source with
      | some s => simpa [andThen] using h
      | none =>
        simp only [Option.isSome_none, Bool.false_eq_true, ite_false, andThen]
        obtain ⟨r3, r4⟩ := setSource_rel g w wr hw
        exact WF_attach_gen (g1 := modWire g w fun wr => { wr with source := some g.ports.length }) h rfl rfl r3 r4 _ o w ob wr ho hw
          rfl rfl _ (lists_out g) (fun _ => Or.inl (by simp))

/-- `addInOut` on ordinary wires: the InOutPort of a primitive becomes the source and is listed in `inOutPorts`,
    which `checkPort` accepts since commit 2aca8d4 -/
theorem WF_addInOut (g : G) (o : Nat) (n : String) (w : Nat) (h : WF g) : WF (addInOut g o n w).1 := by
  unfold addInOut
  split
  · exact h
  · exact h
  · rename_i ob wr ho hw
    cases hp : ob.prim with
    | false =>
      simp only [Bool.false_eq_true, ite_false, andThen]
      exact WF_attach_gen h rfl rfl (fun w' wr' h1 => ⟨wr', h1, rfl, Or.inl rfl⟩) (fun w' a h1 => ⟨a, h1⟩) _ o w ob wr ho hw
        rfl rfl _ (lists_io g) (fun _ => Or.inr (by simp))
    | true =>
      simp only [ite_true, regSource, hw, h.nobidir w wr hw, Bool.false_eq_true, ite_false]
      cases hs : wr.source with
      | some s => simpa [andThen] using h
      | none =>
        simp only [Option.isSome_none, Bool.false_eq_true, ite_false]
        rw [andThen_ok (r := ((modWire g w fun wr => { wr with source := some g.ports.length }), Except.ok ())) rfl]
        simp only
        obtain ⟨r3, r4⟩ := setSource_rel g w wr hw
        obtain ⟨s1, s2, s3, s4⟩ := regSink_rel (modWire g w fun wr => { wr with source := some g.ports.length }) w g.ports.length
        have hok : (regSink (modWire g w fun wr => { wr with source := some g.ports.length }) w g.ports.length).2 = .ok () := by
          unfold regSink
          obtain ⟨x, hx⟩ := r4 w wr hw
          rw [hx]
        rw [andThen_ok hok]
        refine WF_attach_gen h s1 s2 ?_ ?_ _ o w ob wr ho hw rfl rfl _ (lists_io g) (fun _ => Or.inr (by simp))
        · intro w' wr' h1
          obtain ⟨a, ha, hb, hc⟩ := s3 w' wr' h1
          obtain ⟨a0, ha0, hb0, hc0⟩ := r3 w' a ha
          exact ⟨a0, ha0, hb.trans hb0, by rw [hc]; exact hc0⟩
        · intro w' a h1
          obtain ⟨x, hx⟩ := r4 w' a h1
          exact s4 w' x hx

theorem WF_move (g : G) (w : Nat) (f : Wire → Wire) (p : G → Nat)
    (hf : ∀ wr, (f wr).bidir = wr.bidir ∧ (f wr).source = wr.source) (h : WF g) :
    WF (delWireKey g w >>> fun g1 => appendWire (modWire g1 w f) (p (modWire g1 w f)) w).1 := by
  apply andThen_pred (P := WF) (WF_delWireKey g w h)
  intro g1 h1
  exact WF_appendWire _ _ _ (WF_modWire h1 w f hf)

theorem WF_ifS2K (g : G) (i : Nat) (n : String) (h : WF g) : WF (ifS2K g i n).1 := by
  unfold ifS2K
  split
  · exact h
  · apply andThen_pred (P := WF) (WF_newWire _ _ _ h)
    intro g1 h1; exact ⟨h1.nobidir, h1.port, h1.src⟩

theorem WF_ifK2S (g : G) (i : Nat) (n : String) (h : WF g) : WF (ifK2S g i n).1 := by
  unfold ifK2S
  split
  · exact h
  · apply andThen_pred (P := WF) (WF_newWire _ _ _ h)
    intro g1 h1; exact ⟨h1.nobidir, h1.port, h1.src⟩

theorem WF_addIfSource (g : G) (o : Nat) (n : String) (i : Nat) (h : WF g) : WF (addIfSource g o n i).1 := by
  unfold addIfSource
  split
  · exact h
  · apply andThen_pred (P := WF)
    · exact forEach_pred _ (fun g x hg => WF_addOut _ _ _ _ hg) _ _ h
    · intro g1 h1; exact forEach_pred _ (fun g x hg => WF_addIn _ _ _ _ hg) _ _ h1

theorem WF_addIfSink (g : G) (o : Nat) (n : String) (i : Nat) (h : WF g) : WF (addIfSink g o n i).1 := by
  unfold addIfSink
  split
  · exact h
  · apply andThen_pred (P := WF)
    · exact forEach_pred _ (fun g x hg => WF_addIn _ _ _ _ hg) _ _ h
    · intro g1 h1; exact forEach_pred _ (fun g x hg => WF_addOut _ _ _ _ hg) _ _ h1

/-- the ordinary construction calls: everything except BidirWire creation and disconnect
    (`addInOut` on ordinary wires is included since commit 2aca8d4) -/
def Op.ordinary : Op → Bool
  | .wire _ _ b => !b
  | .disconnect _ _ => false
  | _ => true

theorem WF_step (g : G) (op : Op) (ho : op.ordinary = true) (h : WF g) : WF (step g op).1 := by
  cases op with
  | newLogic p n pr => exact WF_newLogic _ _ _ _ h
  | wire p n b =>
    simp [Op.ordinary] at ho; subst ho
    exact WF_newWire _ _ _ h
  | addIn o n w => exact WF_addIn _ _ _ _ h
  | addOut o n w => exact WF_addOut _ _ _ _ h
  | addInOut o n w => exact WF_addInOut _ _ _ _ h
  | rename w n => exact pre_pred (P := WF) h (fun g1 h1 => WF_move g1 w _ (fun g2 => wireParent g2 w) (fun _ => ⟨rfl, rfl⟩) h1)
  | reparent w p => exact pre_pred (P := WF) h (fun g1 h1 => WF_move g1 w _ (fun _ => p) (fun _ => ⟨rfl, rfl⟩) h1)
  | reparentAndRename w p n => exact pre_pred (P := WF) h (fun g1 h1 => WF_move g1 w _ (fun _ => p) (fun _ => ⟨rfl, rfl⟩) h1)
  | newIface p n => exact ⟨h.nobidir, h.port, h.src⟩
  | ifS2K i n => exact WF_ifS2K _ _ _ h
  | ifK2S i n => exact WF_ifK2S _ _ _ h
  | addIfSource o n i => exact WF_addIfSource _ _ _ _ h
  | addIfSink o n i => exact WF_addIfSink _ _ _ _ h
  | disconnect w o => simp [Op.ordinary] at ho
  | wires p n k => exact forEach_pred (P := WF) _ (fun g x hg => WF_newWire _ _ _ hg) _ _ h

theorem WF_empty : WF {} :=
  ⟨fun w wr h => by simp at h, fun o ob pid h => by simp at h, fun w wr sp h => by simp at h⟩

theorem WF_run (ops : List Op) (ho : ∀ op ∈ ops, op.ordinary = true) (g : G) (h : WF g) : WF (run g ops) := by
  induction ops generalizing g with
  | nil => exact h
  | cons op t ih =>
    simp only [run, List.foldl_cons]
    exact ih (fun o hm => ho o (List.mem_cons_of_mem _ hm)) _ (WF_step g op (ho op List.mem_cons_self) h)

end Build
