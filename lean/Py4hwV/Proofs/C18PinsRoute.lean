import Py4hwV.Proofs.C18PinsLayout
import Py4hwV.Proofs.C18Track
/-
  C18 — composition of THREE modelled mechanisms: placement (Schem.Place), pin geometry (Schem.Pins) and the square router
  (Schem.Track.mpx): the vertical run of a net that leaves column c lies strictly between the right-most possible pin of the
  columns ≤ c and the left-most possible pin of the columns > c — it passes over NO pin of the drawing, whatever its wire.
-/
namespace Schem
open Place Pins Track

/-- the x of the vertical run of a net leaving column c on track t is the x of no pin of any symbol -/
theorem vertical_run_misses_pins (L : Layout) (cfg : Cfg) (hcfg : cfg.NonNeg) (hns : 0 < cfg.ns) (hts : 0 < cfg.ts)
    (tracks : List Nat) (hp : L.PlacedBy cfg tracks) (c t n : Nat) (hn : tracks[c]? = some n) (ht : t < n)
    (i : Nat) (a : Sym) (ha : L.syms[i]? = some a) (hba : a.PinsInBox) (p : PinRef) (pt : Pt) (h1 : a.pinAt p = some pt) :
    pt.1 ≠ mpx cfg (xAt cfg tracks L.sizes c) (colW L.sizes c) t := by
  obtain ⟨r, c', hcell, hat, hx, hy⟩ := hp i a ha
  obtain ⟨row, hrow, hk⟩ := (cellAt_some' L r c' i).1 hat
  have hs : L.sizes[r]? = some (row.map fun o => o.bind fun k => (L.syms[k]?).map fun s => (s.w, s.h)) := by
    simp [Layout.sizes, hrow]
  have hcw : (row.map fun o => o.bind fun k => (L.syms[k]?).map fun s => (s.w, s.h))[c']? = some (some (a.w, a.h)) := by
    simp [hk, ha]
  have hw := colW_ge L.sizes r c' _ a.w a.h hs hcw
  have A := hba p pt h1
  obtain ⟨m1, m2⟩ := mpx_in_channel cfg hcfg hts tracks L.sizes c t n hn ht
  have hstrict : xAt cfg tracks L.sizes c + colW L.sizes c < mpx cfg (xAt cfg tracks L.sizes c) (colW L.sizes c) t := by
    have h1 : (0 : Int) ≤ (t : Int) * cfg.ts := Int.mul_nonneg (Int.natCast_nonneg t) (Int.le_of_lt hts)
    simp only [mpx]
    omega
  rcases Nat.lt_trichotomy c' c with hlt | heq | hgt
  · have := xAt_mono cfg hcfg tracks L.sizes c' c hlt
    have := colW_nonneg L.sizes c
    omega
  · subst heq
    omega
  · by_cases hc1 : c' = c + 1
    · subst hc1
      omega
    · have := xAt_mono cfg hcfg tracks L.sizes (c + 1) c' (by omega)
      have := colW_nonneg L.sizes (c + 1)
      omega

end Schem
