import Py4hwV.Proofs.C01FlatStore
import Py4hwV.Proofs.C01FlatSeq
/-
  C01 design level: the SHIPPED `V.Sim.cycle` (falling half, rising half, HashMap store) refines `cycleA` on designs whose
  `always` blocks are `@(posedge c)` with `c` following the base clock, contain no blocking assignments and assign whole
  variables only.
-/
set_option linter.unusedSimpArgs false
namespace FlatM
open V Std

/-- only non-blocking assignments, to whole variables -/
def NbaLid : Stmt → Prop
  | .skip => True
  | .seq a b => NbaLid a ∧ NbaLid b
  | .ife _ t e => NbaLid t ∧ NbaLid e
  | .nba l _ => ∃ n, l = .lid n
  | .ba _ _ => False
  | .case _ ch => NbaLid ch
  | .arm _ s rest => NbaLid s ∧ NbaLid rest
  | .dflt s => NbaLid s

/-- variables a block may assign -/
def nbaTgts : Stmt → List String
  | .skip => []
  | .seq a b => nbaTgts a ++ nbaTgts b
  | .ife _ t e => nbaTgts t ++ nbaTgts e
  | .nba l _ => [l.name]
  | .ba l _ => [l.name]
  | .case _ ch => nbaTgts ch
  | .arm _ s rest => nbaTgts s ++ nbaTgts rest
  | .dflt s => nbaTgts s

theorem ex_eta {σ : Type} (x : Ex σ) : x = { st := x.st, nba := x.nba } := by cases x; rfl

theorem exec_st {σ : Type} (rd : σ → Rd) (wr : σ → Tgt → BV → σ) (p : Stmt) (h : NbaLid p) (subj : Option BV) (x : Ex σ) :
    (exec rd wr subj p x).st = x.st := by
  induction p generalizing subj x with
  | skip => rfl
  | seq a b iha ihb => simp only [exec]; rw [ihb h.2, iha h.1]
  | ife c t e iht ihe =>
    simp only [exec]
    split
    · exact iht h.1 subj x
    · exact ihe h.2 subj x
  | nba l e => rfl
  | ba l e => exact absurd h id
  | case e ch ih => simp only [exec]; exact ih h _ x
  | arm v s rest ihs ihr =>
    cases subj with
    | none => rfl
    | some sv =>
      simp only [exec]
      split
      · exact ihs h.1 none x
      · exact ihr h.2 (some sv) x
  | dflt s ih => simp only [exec]; exact ih h none x

/-- parametricity of `V.exec` for such bodies: the store is not touched and the queue only depends on the reader -/
theorem exec_nba {σ : Type} (rd : σ → Rd) (wr : σ → Tgt → BV → σ) (p : Stmt) (h : NbaLid p) (subj : Option BV) (x : Ex σ) :
    (exec rd wr subj p x).nba = (exec (σ := Rd) id wrA subj p { st := rd x.st, nba := x.nba }).nba := by
  induction p generalizing subj x with
  | skip => rfl
  | seq a b iha ihb =>
    simp only [exec]
    rw [ihb h.2, exec_st rd wr a h.1, iha h.1]
    have hR : exec (σ := Rd) id wrA subj a { st := rd x.st, nba := x.nba } =
        { st := rd x.st, nba := (exec (σ := Rd) id wrA subj a { st := rd x.st, nba := x.nba }).nba } := by
      have hst := exec_st (σ := Rd) id wrA a h.1 subj { st := rd x.st, nba := x.nba }
      generalize exec (σ := Rd) id wrA subj a { st := rd x.st, nba := x.nba } = y at hst ⊢
      cases y
      simp only at hst
      subst hst
      rfl
    rw [← hR]
  | ife c t e iht ihe =>
    simp only [exec, id]
    split
    · exact iht h.1 subj x
    · exact ihe h.2 subj x
  | nba l e => simp only [exec, id]
  | ba l e => exact absurd h id
  | case e ch ih =>
    simp only [exec, id]
    exact ih h _ x
  | arm v s rest ihs ihr =>
    cases subj with
    | none => rfl
    | some sv =>
      simp only [exec, id]
      split
      · exact ihs h.1 none x
      · exact ihr h.2 (some sv) x
  | dflt s ih =>
    simp only [exec]
    exact ih h none x

/-- everything such a body queues is a whole-variable write to one of its `nbaTgts` -/
theorem exec_queue (p : Stmt) (h : NbaLid p) (subj : Option BV) (x : Ex Rd) :
    ∀ tv, tv ∈ (exec (σ := Rd) id wrA subj p x).nba → tv ∈ x.nba ∨ ∃ n, n ∈ nbaTgts p ∧ tv.1 = .whole n := by
  induction p generalizing subj x with
  | skip => intro tv htv; exact Or.inl htv
  | seq a b iha ihb =>
    intro tv htv
    simp only [exec] at htv
    rcases ihb h.2 subj _ tv htv with h1 | ⟨n, hn, e⟩
    · rcases iha h.1 subj x tv h1 with h2 | ⟨n, hn, e⟩
      · exact Or.inl h2
      · exact Or.inr ⟨n, by simp [nbaTgts, hn], e⟩
    · exact Or.inr ⟨n, by simp [nbaTgts, hn], e⟩
  | ife c t e iht ihe =>
    intro tv htv
    simp only [exec] at htv
    split at htv
    · rcases iht h.1 subj x tv htv with h1 | ⟨n, hn, e⟩
      · exact Or.inl h1
      · exact Or.inr ⟨n, by simp [nbaTgts, hn], e⟩
    · rcases ihe h.2 subj x tv htv with h1 | ⟨n, hn, e⟩
      · exact Or.inl h1
      · exact Or.inr ⟨n, by simp [nbaTgts, hn], e⟩
  | nba l e =>
    intro tv htv
    obtain ⟨n, hl⟩ := h
    subst hl
    simp only [exec, List.mem_append, List.mem_singleton] at htv
    rcases htv with h1 | h1
    · exact Or.inl h1
    · exact Or.inr ⟨n, by simp [nbaTgts, LHS.name], by rw [h1]; rfl⟩
  | ba l e => exact absurd h id
  | case e ch ih =>
    intro tv htv
    simp only [exec] at htv
    rcases ih h _ x tv htv with h1 | ⟨n, hn, e⟩
    · exact Or.inl h1
    · exact Or.inr ⟨n, by simpa [nbaTgts] using hn, e⟩
  | arm v s rest ihs ihr =>
    intro tv htv
    cases subj with
    | none => simp only [exec] at htv; exact Or.inl htv
    | some sv =>
      simp only [exec] at htv
      split at htv
      · rcases ihs h.1 none x tv htv with h1 | ⟨n, hn, e⟩
        · exact Or.inl h1
        · exact Or.inr ⟨n, by simp [nbaTgts, hn], e⟩
      · rcases ihr h.2 (some sv) x tv htv with h1 | ⟨n, hn, e⟩
        · exact Or.inl h1
        · exact Or.inr ⟨n, by simp [nbaTgts, hn], e⟩
  | dflt s ih =>
    intro tv htv
    simp only [exec] at htv
    rcases ih h none x tv htv with h1 | ⟨n, hn, e⟩
    · exact Or.inl h1
    · exact Or.inr ⟨n, by simpa [nbaTgts] using hn, e⟩

/-! ### `runProc`, `applyNba` on the HashMap store -/

theorem runProc_eq (s : Store) (p : Stmt) (h : NbaLid p) :
    runProc s p = (s, (exec (σ := Rd) id wrA none p { st := s.rd, nba := [] }).nba) := by
  unfold runProc
  simp only
  rw [exec_st Store.rd Store.wr p h, exec_nba Store.rd Store.wr p h]

theorem applyNba_rd (s : Store) (q : List (Tgt × BV)) (hq : ∀ tv, tv ∈ q → ∃ n, tv.1 = .whole n) :
    (applyNba s q).rd = applyNbaA s.rd q := by
  unfold applyNba applyNbaA
  induction q generalizing s with
  | nil => rfl
  | cons tv q ih =>
    simp only [List.foldl]
    obtain ⟨n, hn⟩ := hq tv (by simp)
    have hstep : (s.wr tv.1 tv.2).rd = wrA s.rd tv.1 tv.2 := by rw [hn, wr_whole_rd]; rfl
    have := ih (s.wr tv.1 tv.2) (fun tv' h' => hq tv' (by simp [h']))
    rw [hstep] at this
    exact this

/-! ### `Sim.half`, restated with named pieces (definitionally the same) -/

def beforeOf (m : Sim) : List (Option Nat) := m.flat.procs.map fun ep => (evSig ep.1).bind (bitOf m.st)

def firesP (st1 : Store) (x : (Event × Stmt) × Option Nat) : Bool :=
  match x.1.1 with
  | .pos c => x.2 == some 0 && bitOf st1 c == some 1
  | .neg c => x.2 == some 1 && bitOf st1 c == some 0
  | .star => false

def runFired (st1 : Store) (fired : List ((Event × Stmt) × Option Nat)) : Store × List (Tgt × BV) :=
  fired.foldl (fun acc x => ((runProc acc.1 x.1.2).1, acc.2 ++ (runProc acc.1 x.1.2).2)) (st1, [])

def clkSet (m : Sim) (lvl : Nat) : Sim := { m with st := m.st.setVal m.clk ⟨1, lvl, true⟩ }

/-! ### which blocks fire -/

theorem mem_zip_map {α β : Type} (l : List α) (g : α → β) (x : α × β) (h : x ∈ l.zip (l.map g)) : x.1 ∈ l ∧ x.2 = g x.1 := by
  induction l with
  | nil => simp at h
  | cons a l ih =>
    simp only [List.map_cons, List.zip_cons_cons, List.mem_cons] at h
    rcases h with h | h
    · subst h; exact ⟨by simp, rfl⟩
    · have := ih h; exact ⟨by simp [this.1], this.2⟩

theorem zip_map_fst {α β : Type} (l : List α) (g : α → β) : (l.zip (l.map g)).map Prod.fst = l := by
  induction l with
  | nil => rfl
  | cons a l ih => simp [ih]

theorem map_zip_snd' {α β γ : Type} (l : List (α × β)) (g : α × β → γ) (h : (α × β) × γ → β) (hh : ∀ x, h x = x.1.2) :
    (l.zip (l.map g)).map h = l.map Prod.snd := by
  have : h = Prod.snd ∘ Prod.fst := by funext x; exact hh x
  rw [this, ← List.map_map, zip_map_fst]

/-- no `posedge c` block fires when every such `c` was not 0 before -/
theorem fired_none (f : V.Flat) (st0 st : Store)
    (hpos : ∀ ep, ep ∈ f.procs → ∃ c, ep.1 = .pos c ∧ bitOf st0 c ≠ some 0) :
    firedProcs f (snapshotEv f st0) st = [] := by
  unfold firedProcs snapshotEv
  rw [List.map_eq_nil_iff, List.filter_eq_nil_iff]
  intro x hx
  have hm := mem_zip_map f.procs _ x hx
  obtain ⟨⟨ev, p⟩, b⟩ := x
  obtain ⟨c, hc, hb⟩ := hpos (ev, p) hm.1
  simp only at hc hm
  subst hc
  have hb' : b = bitOf st0 c := by rw [hm.2]; rfl
  subst hb'
  simp only [Bool.and_eq_true, beq_iff_eq, not_and]
  intro h0
  exact absurd h0 hb

/-- every `posedge c` block fires when every such `c` went from 0 to 1 -/
theorem fired_all (f : V.Flat) (st0 st : Store)
    (hpos : ∀ ep, ep ∈ f.procs → ∃ c, ep.1 = .pos c ∧ bitOf st0 c = some 0 ∧ bitOf st c = some 1) :
    firedProcs f (snapshotEv f st0) st = f.procs.map Prod.snd := by
  unfold firedProcs snapshotEv
  rw [List.filter_eq_self.mpr]
  · exact map_zip_snd' f.procs _ _ (fun x => rfl)
  · intro x hx
    have hm := mem_zip_map f.procs _ x hx
    obtain ⟨⟨ev, p⟩, b⟩ := x
    obtain ⟨c, hc, hb0, hb1⟩ := hpos (ev, p) hm.1
    simp only at hc hm
    subst hc
    have hb' : b = bitOf st0 c := by rw [hm.2]; rfl
    subst hb'
    simp [hb0, hb1]

/-! ### running the fired blocks -/

theorem fold_fired (g : Store × List (Tgt × BV) → Stmt → Store × List (Tgt × BV))
    (hg : ∀ acc p, g acc p = ((runProc acc.1 p).1, acc.2 ++ (runProc acc.1 p).2))
    (procs : List (Event × Stmt)) (hp : ∀ ep, ep ∈ procs → (∃ c, ep.1 = .pos c) ∧ NbaLid ep.2) (st : Store)
    (q0 : List (Tgt × BV)) :
    (procs.map Prod.snd).foldl g (st, q0) = (st, (procs.foldl fireStep (st.rd, q0)).2) ∧
    (procs.foldl fireStep (st.rd, q0)).1 = st.rd := by
  induction procs generalizing q0 with
  | nil => exact ⟨rfl, rfl⟩
  | cons ep procs ih =>
    obtain ⟨⟨c, hc⟩, hn⟩ := hp ep (by simp)
    obtain ⟨ev, p⟩ := ep
    simp only at hc hn
    subst hc
    have hstep : fireStep (st.rd, q0) (.pos c, p) =
        (st.rd, q0 ++ (exec (σ := Rd) id wrA none p { st := st.rd, nba := [] }).nba) := by
      simp only [fireStep, exec_st (σ := Rd) id wrA p hn]
    simp only [List.map_cons, List.foldl, hg, runProc_eq st p hn, hstep]
    exact ih (fun ep hep => hp ep (by simp [hep])) _

/-- all queued writes are whole-variable writes to `nbaTgts` of some block -/
theorem fireAll_queue (procs : List (Event × Stmt)) (hp : ∀ ep, ep ∈ procs → (∃ c, ep.1 = .pos c) ∧ NbaLid ep.2) (r : Rd)
    (q0 : List (Tgt × BV)) :
    ∀ tv, tv ∈ (procs.foldl fireStep (r, q0)).2 → tv ∈ q0 ∨ ∃ ep n, ep ∈ procs ∧ n ∈ nbaTgts ep.2 ∧ tv.1 = .whole n := by
  induction procs generalizing r q0 with
  | nil => intro tv h; exact Or.inl h
  | cons ep procs ih =>
    obtain ⟨⟨c, hc⟩, hn⟩ := hp ep (by simp)
    obtain ⟨ev, p⟩ := ep
    simp only at hc hn
    subst hc
    intro tv htv
    simp only [List.foldl, fireStep] at htv
    rcases ih (fun ep hep => hp ep (by simp [hep])) _ _ tv htv with h1 | ⟨ep, n, hep, hn', e⟩
    · simp only [List.mem_append] at h1
      rcases h1 with h1 | h1
      · exact Or.inl h1
      · rcases exec_queue p hn none _ tv h1 with h2 | ⟨n, hn', e⟩
        · simp at h2
        · exact Or.inr ⟨(.pos c, p), n, by simp, hn', e⟩
    · exact Or.inr ⟨ep, n, by simp [hep], hn', e⟩

/-! ### one half period, one cycle -/

/-- hypotheses on a flattened design under which the shipped cycle is `cycleA`: only `always @(posedge c)` blocks with
    non-blocking whole-variable assignments that leave the base clock alone; in every settled store each block clock `c`
    equals the base clock `cname` (for a flat design: `assign i.clk = clk`, both one bit wide) -/
structure CycOK (f : V.Flat) (cname : String) (topo : List (LHS × Expr)) (info0 : String → Option SigInfo) : Prop where
  perm : f.assigns.Perm topo
  acyc : Acyc topo
  clk_undriven : ∀ a, a ∈ f.assigns → tgt a ≠ cname
  procs : ∀ ep, ep ∈ f.procs → (∃ c, ep.1 = .pos c) ∧ NbaLid ep.2 ∧ cname ∉ nbaTgts ep.2
  follows : ∀ ep c, ep ∈ f.procs → ep.1 = .pos c → ∀ r : Rd, r.info = info0 → Settled f.assigns r →
    ∀ b, b < 2 → r.val cname = ⟨1, b, true⟩ → r.val c = ⟨1, b, true⟩

theorem CycOK.nostar {f : V.Flat} {cname : String} {topo : List (LHS × Expr)} {info0 : String → Option SigInfo}
    (h : CycOK f cname topo info0) : NoStar f := by
  intro ep hep e
  obtain ⟨⟨c, hc⟩, _⟩ := h.procs ep hep
  rw [hc] at e; cases e

theorem bitOf_known (s : Store) (n : String) (b : Nat) (hb : b < 2) (h : s.rd.val n = ⟨1, b, true⟩) : bitOf s n = some b := by
  unfold bitOf
  simp only [h, if_true]
  congr 1
  omega

theorem iter_succ2 {α : Type} (g : α → α) (k : Nat) (a : α) : Net.iter g (k + 1) a = g (Net.iter g k a) := by
  induction k generalizing a with
  | zero => rfl
  | succ k ih => simp only [Net.iter] at *; exact ih _

theorem settleA_settled {as topo : List (LHS × Expr)} (hp : as.Perm topo) (hA : Acyc topo) (r : Rd)
    (hok : ∀ a, a ∈ as → LhsOk r a.1) :
    Settled as (settleA as r) ∧ (settleA as r).info = r.info ∧ (settleA as r).mem = r.mem ∧
    (∀ n, (∀ a, a ∈ as → tgt a ≠ n) → (settleA as r).val n = r.val n) ∧ settleA as (settleA as r) = settleA as r := by
  have h1 := iter_eq_topo hp hA r hok as.length (Nat.le_refl _)
  have hokt : ∀ a, a ∈ topo → LhsOk r a.1 := fun a ha => hok a (hp.mem_iff.mpr ha)
  have hS := pass_topo_settled topo hA r hokt
  have hi : (settleA as r).info = r.info := iter_passA_info _ _ _
  refine ⟨?_, hi, iter_passA_mem _ _ _, ?_, ?_⟩
  · show Settled as (Net.iter (passA as) as.length r)
    rw [h1]; exact (settled_perm hp _).mpr hS
  · intro n hn
    show (Net.iter (passA as) as.length r).val n = _
    rw [h1]
    exact passA_val_other topo r hokt n (fun b hb e => hn b (hp.mem_iff.mpr hb) e.symm)
  · -- a settled store is a fixpoint of every further pass
    have hfix : passA as (settleA as r) = settleA as r := by
      have h3 : Net.iter (passA as) (as.length + 1) r = passA as (Net.iter (passA as) as.length r) :=
        iter_succ2 _ _ _
      have h4 : Net.iter (passA as) (as.length + 1) r = passA topo r := iter_eq_topo hp hA r hok (as.length + 1) (by omega)
      show passA as (Net.iter (passA as) as.length r) = Net.iter (passA as) as.length r
      rw [← h3, h4, h1]
    exact iter_fix _ _ hfix _

/-- the reader after the test bench / `Sim.half` drives the base clock -/
def withClk (r : Rd) (cname : String) (lvl : Nat) : Rd :=
  { r with val := fun n => if n = cname then ⟨1, lvl, true⟩ else r.val n }

theorem deltaLoop_nil (m : Sim) (n : Nat) : deltaLoop m (n + 1) [] = m := by
  simp [deltaLoop]

section Cycle
variable {topo : List (LHS × Expr)}

theorem clkSet_settle (m : Sim) (lvl : Nat) (h : CycOK m.flat m.clk topo m.st.rd.info)
    (hl : ∀ a, a ∈ m.flat.assigns → LhsOk m.st.rd a.1) :
    (({ m with st := m.st.setVal m.clk ⟨1, lvl, true⟩ } : Sim).settle).st.rd = settleA m.flat.assigns (withClk m.st.rd m.clk lvl) ∧
    (({ m with st := m.st.setVal m.clk ⟨1, lvl, true⟩ } : Sim).settle).errors = m.errors ∧
    (({ m with st := m.st.setVal m.clk ⟨1, lvl, true⟩ } : Sim).settle).flat = m.flat ∧
    (({ m with st := m.st.setVal m.clk ⟨1, lvl, true⟩ } : Sim).settle).clk = m.clk := by
  have hrd : (m.st.setVal m.clk ⟨1, lvl, true⟩).rd = withClk m.st.rd m.clk lvl := setVal_rd _ _ _
  have := sim_settle_rd ({ m with st := m.st.setVal m.clk ⟨1, lvl, true⟩ } : Sim) h.nostar h.perm h.acyc
    (fun a ha => by
      show LhsOk (m.st.setVal m.clk ⟨1, lvl, true⟩).rd a.1
      rw [hrd]; exact LhsOk_congr (r := m.st.rd) (r' := withClk m.st.rd m.clk lvl) rfl (hl a ha))
  refine ⟨?_, this.2.1, this.2.2.1, this.2.2.2⟩
  rw [this.1]
  show settleA m.flat.assigns (m.st.setVal m.clk ⟨1, lvl, true⟩).rd = _
  rw [hrd]

/-- **falling half**: nothing fires; the store is re-settled with the clock low -/
theorem half_low (m : Sim) (h : CycOK m.flat m.clk topo m.st.rd.info) (hl : ∀ a, a ∈ m.flat.assigns → LhsOk m.st.rd a.1)
    (hcs : ∀ ep c, ep ∈ m.flat.procs → ep.1 = .pos c → m.st.rd.val c = ⟨1, 1, true⟩) :
    (m.half 0).st.rd = settleA m.flat.assigns (withClk m.st.rd m.clk 0) ∧ (m.half 0).errors = m.errors ∧
    (m.half 0).flat = m.flat ∧ (m.half 0).clk = m.clk := by
  have hnone : ∀ st, firedProcs m.flat (snapshotEv m.flat m.st) st = [] := by
    intro st
    apply fired_none
    intro ep hep
    obtain ⟨⟨c, hc⟩, _⟩ := h.procs ep hep
    refine ⟨c, hc, ?_⟩
    rw [bitOf_known m.st c 1 (by omega) (hcs ep c hep hc)]
    simp
  unfold Sim.half
  simp only [hnone, deltaLoop_nil]
  exact clkSet_settle m 0 h hl

/-- **rising half** from a settled store with the clock low: every block fires on the settled pre-edge store, the
    non-blocking updates are applied together, the store is settled again (and the delta loop stops: no derived clock) -/
theorem half_high (m : Sim) (h : CycOK m.flat m.clk topo m.st.rd.info) (hl : ∀ a, a ∈ m.flat.assigns → LhsOk m.st.rd a.1)
    (hS : Settled m.flat.assigns m.st.rd) (hlow : m.st.rd.val m.clk = ⟨1, 0, true⟩) :
    (m.half 1).st.rd =
      settleA m.flat.assigns (applyNbaA (settleA m.flat.assigns (withClk m.st.rd m.clk 1))
        (fireAll m.flat.procs (settleA m.flat.assigns (withClk m.st.rd m.clk 1))).2) ∧
    (fireAll m.flat.procs (settleA m.flat.assigns (withClk m.st.rd m.clk 1))).1 = settleA m.flat.assigns (withClk m.st.rd m.clk 1) ∧
    (m.half 1).errors = m.errors ∧ (m.half 1).flat = m.flat ∧ (m.half 1).clk = m.clk := by
  -- the settled store with the clock high
  have hc := clkSet_settle m 1 h hl
  generalize hm1 : ({ m with st := m.st.setVal m.clk ⟨1, 1, true⟩ } : Sim).settle = m1 at hc
  obtain ⟨hrd1, herr1, hflat1, hclk1⟩ := hc
  have hlw : ∀ a, a ∈ m.flat.assigns → LhsOk (withClk m.st.rd m.clk 1) a.1 :=
    fun a ha => LhsOk_congr (r := m.st.rd) (r' := withClk m.st.rd m.clk 1) rfl (hl a ha)
  have hset := settleA_settled h.perm h.acyc (withClk m.st.rd m.clk 1) hlw
  generalize hre : settleA m.flat.assigns (withClk m.st.rd m.clk 1) = re at hrd1 hset ⊢
  obtain ⟨hSe, hie, hme, hue, hidem⟩ := hset
  have hie' : re.info = m.st.rd.info := hie
  have hclke : re.val m.clk = ⟨1, 1, true⟩ := by
    rw [hue m.clk (fun a ha => h.clk_undriven a ha)]; simp [withClk]
  have hpos : ∀ ep, ep ∈ m.flat.procs → (∃ c, ep.1 = .pos c) ∧ NbaLid ep.2 := fun ep hep => ⟨(h.procs ep hep).1, (h.procs ep hep).2.1⟩
  -- everything fires
  have hfired : firedProcs m.flat (snapshotEv m.flat m.st) m1.st = m.flat.procs.map Prod.snd := by
    apply fired_all
    intro ep hep
    obtain ⟨⟨c, hc⟩, _⟩ := h.procs ep hep
    refine ⟨c, hc, ?_, ?_⟩
    · exact bitOf_known m.st c 0 (by omega) (h.follows ep c hep hc m.st.rd rfl hS 0 (by omega) hlow)
    · apply bitOf_known m1.st c 1 (by omega)
      rw [hrd1]
      exact h.follows ep c hep hc re hie' hSe 1 (by omega) hclke
  have hfa0 := (fold_fired (fun acc p => ((runProc acc.1 p).1, acc.2 ++ (runProc acc.1 p).2)) (fun _ _ => rfl)
    m.flat.procs hpos m1.st [])
  have hfire1 : (fireAll m.flat.procs re).1 = re := by have := hfa0.2; rw [hrd1] at this; exact this
  -- the queue: whole-variable writes that leave the base clock alone
  have hQ : ∀ tv, tv ∈ (fireAll m.flat.procs re).2 → ∃ n, tv.1 = .whole n := by
    intro tv htv
    rcases fireAll_queue m.flat.procs hpos re [] tv htv with h0 | ⟨ep, n, _, _, e⟩
    · cases h0
    · exact ⟨n, e⟩
  -- the Sim after firing, applying and settling
  let m2 : Sim := ({ m1 with st := applyNba m1.st (fireAll m.flat.procs re).2 } : Sim).settle
  have hap : (applyNba m1.st (fireAll m.flat.procs re).2).rd = applyNbaA re (fireAll m.flat.procs re).2 := by
    rw [applyNba_rd _ _ hQ, hrd1]
  have hm2 := sim_settle_rd ({ m1 with st := applyNba m1.st (fireAll m.flat.procs re).2 } : Sim)
    (by show NoStar m1.flat; rw [hflat1]; exact h.nostar) (topo := topo) (by show m1.flat.assigns.Perm topo; rw [hflat1]; exact h.perm)
    h.acyc (by
      intro a ha
      show LhsOk (applyNba m1.st (fireAll m.flat.procs re).2).rd a.1
      rw [hap]
      have ha' : a ∈ m.flat.assigns := by rw [← hflat1]; exact ha
      exact LhsOk_congr (r := m.st.rd) (by rw [applyNbaA_info, hie']) (hl a ha'))
  have hm2rd : m2.st.rd = settleA m.flat.assigns (applyNbaA re (fireAll m.flat.procs re).2) := by
    rw [hm2.1]
    show settleA m1.flat.assigns (applyNba m1.st (fireAll m.flat.procs re).2).rd = _
    rw [hflat1, hap]
  have hnone2 : ∀ st, firedProcs m1.flat (snapshotEv m1.flat m1.st) st = [] := by
    intro st
    apply fired_none
    intro ep hep
    rw [hflat1] at hep
    obtain ⟨⟨c, hc⟩, _⟩ := h.procs ep hep
    refine ⟨c, hc, ?_⟩
    rw [bitOf_known m1.st c 1 (by omega) (by rw [hrd1]; exact h.follows ep c hep hc re hie' hSe 1 (by omega) hclke)]
    simp
  have hfoldq : (m.flat.procs.map Prod.snd).foldl (fun acc p => ((runProc acc.1 p).1, acc.2 ++ (runProc acc.1 p).2)) (m1.st, [])
      = (m1.st, (fireAll m.flat.procs re).2) := by
    rw [hfa0.1, hrd1]; rfl
  have hhalf : m.half 1 = (if (m.flat.procs.map Prod.snd).isEmpty then m1 else m2) := by
    unfold Sim.half
    simp only [hm1, hfired]
    cases hprocs : m.flat.procs with
    | nil => simp only [List.map_nil, deltaLoop_nil, List.isEmpty_nil, if_true]
    | cons ep0 rest =>
      rw [← hprocs]
      have hne : (m.flat.procs.map Prod.snd).isEmpty = false := by rw [hprocs]; rfl
      rw [deltaLoop]
      simp only [hne, Bool.false_eq_true, if_false, hfoldq, hnone2, deltaLoop_nil]
      rfl
  rw [hhalf]
  cases hprocs : m.flat.procs with
  | nil =>
    simp only [List.map_nil, List.isEmpty_nil, if_true]
    refine ⟨?_, ?_, herr1, hflat1, hclk1⟩
    · rw [hrd1]
      simp only [hprocs, fireAll, List.foldl, applyNbaA]
      exact hidem.symm
    · rw [← hprocs]; exact hfire1
  | cons ep0 rest =>
    have hne : ((ep0 :: rest).map Prod.snd).isEmpty = false := rfl
    simp only [hne, Bool.false_eq_true, if_false]
    rw [← hprocs]
    refine ⟨hm2rd, hfire1, ?_, ?_, ?_⟩
    · exact hm2.2.1.trans herr1
    · exact hm2.2.2.1.trans hflat1
    · exact hm2.2.2.2.trans hclk1

/-- **the shipped `Sim.cycle` is `cycleA`** (between cycles the base clock and every block clock are high): the reader of
    the store after the falling and the rising half is `cycleA` of the reader before; no error is logged; the clocks are
    high again, the declarations unchanged -/
theorem cycle_rd (m : Sim) (h : CycOK m.flat m.clk topo m.st.rd.info) (hl : ∀ a, a ∈ m.flat.assigns → LhsOk m.st.rd a.1)
    (hclk : m.st.rd.val m.clk = ⟨1, 1, true⟩)
    (hcs : ∀ ep c, ep ∈ m.flat.procs → ep.1 = .pos c → m.st.rd.val c = ⟨1, 1, true⟩) :
    m.cycle.st.rd = cycleA m.flat m.st.rd ∧ m.cycle.errors = m.errors ∧ m.cycle.flat = m.flat ∧ m.cycle.clk = m.clk ∧
    m.cycle.st.rd.info = m.st.rd.info ∧ m.cycle.st.rd.val m.clk = ⟨1, 1, true⟩ ∧
    (∀ ep c, ep ∈ m.flat.procs → ep.1 = .pos c → m.cycle.st.rd.val c = ⟨1, 1, true⟩) := by
  obtain ⟨h0rd, h0err, h0flat, h0clk⟩ := half_low m h hl hcs
  -- the state after the falling half
  have hlw0 : ∀ a, a ∈ m.flat.assigns → LhsOk (withClk m.st.rd m.clk 0) a.1 :=
    fun a ha => LhsOk_congr (r := m.st.rd) (r' := withClk m.st.rd m.clk 0) rfl (hl a ha)
  obtain ⟨hSb, hib, hmb, hub, _⟩ := settleA_settled h.perm h.acyc (withClk m.st.rd m.clk 0) hlw0
  have hinfo0 : (m.half 0).st.rd.info = m.st.rd.info := by rw [h0rd]; exact hib
  have hlowb : (m.half 0).st.rd.val (m.half 0).clk = ⟨1, 0, true⟩ := by
    rw [h0clk, h0rd, hub m.clk (fun a ha => h.clk_undriven a ha)]; simp [withClk]
  have hC' : CycOK (m.half 0).flat (m.half 0).clk topo (m.half 0).st.rd.info := by rw [h0flat, h0clk, hinfo0]; exact h
  have hl' : ∀ a, a ∈ (m.half 0).flat.assigns → LhsOk (m.half 0).st.rd a.1 := by
    intro a ha
    rw [h0flat] at ha
    exact LhsOk_congr (r := m.st.rd) hinfo0.symm (hl a ha)
  have hS' : Settled (m.half 0).flat.assigns (m.half 0).st.rd := by rw [h0flat, h0rd]; exact hSb
  obtain ⟨h1rd, h1fire, h1err, h1flat, h1clk⟩ := half_high (m.half 0) hC' hl' hS' hlowb
  rw [h0flat, h0clk, h0rd] at h1rd h1fire
  -- settling with the clock high again gives the settled store of the start
  have hlw1 : ∀ a, a ∈ m.flat.assigns →
      LhsOk (withClk (settleA m.flat.assigns (withClk m.st.rd m.clk 0)) m.clk 1) a.1 :=
    fun a ha => LhsOk_congr (r := m.st.rd) (r' := withClk (settleA m.flat.assigns (withClk m.st.rd m.clk 0)) m.clk 1)
      (by show m.st.rd.info = (settleA m.flat.assigns (withClk m.st.rd m.clk 0)).info; rw [hib]; rfl) (hl a ha)
  obtain ⟨hSe, hie, hme, hue, _⟩ := settleA_settled h.perm h.acyc _ hlw1
  obtain ⟨hS1, hi1, hm1, hu1, _⟩ := settleA_settled h.perm h.acyc m.st.rd hl
  have hre : settleA m.flat.assigns (withClk (settleA m.flat.assigns (withClk m.st.rd m.clk 0)) m.clk 1)
      = settleA m.flat.assigns m.st.rd := by
    apply rd_ext
    · rw [hie, hi1]; show (settleA m.flat.assigns (withClk m.st.rd m.clk 0)).info = _; rw [hib]; rfl
    · rw [hme, hm1]; show (settleA m.flat.assigns (withClk m.st.rd m.clk 0)).mem = _; rw [hmb]; rfl
    · apply FlatM.settled_unique topo h.acyc
      · rw [hie, hi1]; show (settleA m.flat.assigns (withClk m.st.rd m.clk 0)).info = _; rw [hib]; rfl
      · rw [hme, hm1]; show (settleA m.flat.assigns (withClk m.st.rd m.clk 0)).mem = _; rw [hmb]; rfl
      · exact (settled_perm h.perm _).mp hSe
      · exact (settled_perm h.perm _).mp hS1
      · intro n hn
        have hn' : ∀ a, a ∈ m.flat.assigns → tgt a ≠ n := fun a ha e => hn a (h.perm.mem_iff.mp ha) e.symm
        rw [hue n hn', hu1 n hn']
        by_cases e : n = m.clk
        · subst e; simp [withClk, hclk]
        · have e1 : (withClk (settleA m.flat.assigns (withClk m.st.rd m.clk 0)) m.clk 1).val n =
              (settleA m.flat.assigns (withClk m.st.rd m.clk 0)).val n := by
            show (if n = m.clk then _ else _) = _
            rw [if_neg e]
          have e2 : (withClk m.st.rd m.clk 0).val n = m.st.rd.val n := by
            show (if n = m.clk then _ else _) = _
            rw [if_neg e]
          rw [e1, hub n hn', e2]
  rw [hre] at h1rd h1fire
  have hcyc : m.cycle.st.rd = cycleA m.flat m.st.rd := by
    show ((m.half 0).half 1).st.rd = _
    rw [h1rd]
    unfold cycleA
    simp only [h1fire]
  -- the clocks after the cycle
  have hq : ∀ tv, tv ∈ (fireAll m.flat.procs (settleA m.flat.assigns m.st.rd)).2 → ∃ n, tv.1 = .whole n ∧ n ≠ m.clk := by
    intro tv htv
    rcases fireAll_queue m.flat.procs (fun ep hep => ⟨(h.procs ep hep).1, (h.procs ep hep).2.1⟩) _ [] tv htv with h0 | ⟨ep, n, hep, hn, e⟩
    · cases h0
    · exact ⟨n, e, fun e' => (h.procs ep hep).2.2 (e' ▸ hn)⟩
  have hapclk : ∀ (q : List (Tgt × BV)) (r : Rd), (∀ tv, tv ∈ q → ∃ n, tv.1 = .whole n ∧ n ≠ m.clk) →
      (applyNbaA r q).val m.clk = r.val m.clk := by
    intro q
    induction q with
    | nil => intro r _; rfl
    | cons tv q ih =>
      intro r hq'
      obtain ⟨n, hn, hne⟩ := hq' tv (by simp)
      simp only [applyNbaA, List.foldl] at ih ⊢
      rw [ih _ (fun tv' h' => hq' tv' (by simp [h']))]
      rw [hn]
      simp only [wrA, setWhole]
      rw [if_neg (fun e => hne e.symm)]
  have hlf : ∀ a, a ∈ m.flat.assigns → LhsOk (applyNbaA (settleA m.flat.assigns m.st.rd)
      (fireAll m.flat.procs (settleA m.flat.assigns m.st.rd)).2) a.1 :=
    fun a ha => LhsOk_congr (r := m.st.rd) (by rw [applyNbaA_info, hi1]) (hl a ha)
  obtain ⟨hSf, hif, _, huf, _⟩ := settleA_settled h.perm h.acyc _ hlf
  have hfin : cycleA m.flat m.st.rd = settleA m.flat.assigns (applyNbaA (settleA m.flat.assigns m.st.rd)
      (fireAll m.flat.procs (settleA m.flat.assigns m.st.rd)).2) := by
    unfold cycleA; simp only [h1fire]
  have hinfoF : m.cycle.st.rd.info = m.st.rd.info := by rw [hcyc, hfin, hif, applyNbaA_info, hi1]
  have hclkF : m.cycle.st.rd.val m.clk = ⟨1, 1, true⟩ := by
    rw [hcyc, hfin, huf m.clk (fun a ha => h.clk_undriven a ha), hapclk _ _ hq, hu1 m.clk (fun a ha => h.clk_undriven a ha), hclk]
  refine ⟨hcyc, ?_, ?_, ?_, hinfoF, hclkF, ?_⟩
  · exact h1err.trans h0err
  · exact h1flat.trans h0flat
  · exact h1clk.trans h0clk
  · intro ep c hep hc
    apply h.follows ep c hep hc _ hinfoF _ 1 (by omega) hclkF
    rw [hcyc, hfin]; exact hSf

end Cycle
end FlatM
