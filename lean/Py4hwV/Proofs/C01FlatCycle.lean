import Py4hwV.Proofs.C01FlatStore
/-
  C01 design level: the SHIPPED `V.Sim.cycle` (falling half, rising half, HashMap store) refines `cycleA` on designs whose
  `always` blocks are `@(posedge c)` with `c` following the base clock, contain no blocking assignments and assign whole
  variables only.
-/
set_option linter.unusedSimpArgs false
namespace FlatM
open V Std

/-- only non-blocking assignments, to whole variables -/
def NbaLid : Stmt → Prop
  | .skip => True
  | .seq a b => NbaLid a ∧ NbaLid b
  | .ife _ t e => NbaLid t ∧ NbaLid e
  | .nba l _ => ∃ n, l = .lid n
  | .ba _ _ => False
  | .case _ ch => NbaLid ch
  | .arm _ s rest => NbaLid s ∧ NbaLid rest
  | .dflt s => NbaLid s

/-- variables a block may assign -/
def nbaTgts : Stmt → List String
  | .skip => []
  | .seq a b => nbaTgts a ++ nbaTgts b
  | .ife _ t e => nbaTgts t ++ nbaTgts e
  | .nba l _ => [l.name]
  | .ba l _ => [l.name]
  | .case _ ch => nbaTgts ch
  | .arm _ s rest => nbaTgts s ++ nbaTgts rest
  | .dflt s => nbaTgts s

theorem ex_eta {σ : Type} (x : Ex σ) : x = { st := x.st, nba := x.nba } := by cases x; rfl

theorem exec_st {σ : Type} (rd : σ → Rd) (wr : σ → Tgt → BV → σ) (p : Stmt) (h : NbaLid p) (subj : Option BV) (x : Ex σ) :
    (exec rd wr subj p x).st = x.st := by
  induction p generalizing subj x with
  | skip => rfl
  | seq a b iha ihb => simp only [exec]; rw [ihb h.2, iha h.1]
  | ife c t e iht ihe =>
    simp only [exec]
    split
    · exact iht h.1 subj x
    · exact ihe h.2 subj x
  | nba l e => rfl
  | ba l e => exact absurd h id
  | case e ch ih => simp only [exec]; exact ih h _ x
  | arm v s rest ihs ihr =>
    cases subj with
    | none => rfl
    | some sv =>
      simp only [exec]
      split
      · exact ihs h.1 none x
      · exact ihr h.2 (some sv) x
  | dflt s ih => simp only [exec]; exact ih h none x

/-- parametricity of `V.exec` for such bodies: the store is not touched and the queue only depends on the reader -/
theorem exec_nba {σ : Type} (rd : σ → Rd) (wr : σ → Tgt → BV → σ) (p : Stmt) (h : NbaLid p) (subj : Option BV) (x : Ex σ) :
    (exec rd wr subj p x).nba = (exec (σ := Rd) id wrA subj p { st := rd x.st, nba := x.nba }).nba := by
  induction p generalizing subj x with
  | skip => rfl
  | seq a b iha ihb =>
    simp only [exec]
    rw [ihb h.2, exec_st rd wr a h.1, iha h.1]
    have hR : exec (σ := Rd) id wrA subj a { st := rd x.st, nba := x.nba } =
        { st := rd x.st, nba := (exec (σ := Rd) id wrA subj a { st := rd x.st, nba := x.nba }).nba } := by
      have hst := exec_st (σ := Rd) id wrA a h.1 subj { st := rd x.st, nba := x.nba }
      generalize exec (σ := Rd) id wrA subj a { st := rd x.st, nba := x.nba } = y at hst ⊢
      cases y
      simp only at hst
      subst hst
      rfl
    rw [← hR]
  | ife c t e iht ihe =>
    simp only [exec, id]
    split
    · exact iht h.1 subj x
    · exact ihe h.2 subj x
  | nba l e => simp only [exec, id]
  | ba l e => exact absurd h id
  | case e ch ih =>
    simp only [exec, id]
    exact ih h _ x
  | arm v s rest ihs ihr =>
    cases subj with
    | none => rfl
    | some sv =>
      simp only [exec, id]
      split
      · exact ihs h.1 none x
      · exact ihr h.2 (some sv) x
  | dflt s ih =>
    simp only [exec]
    exact ih h none x

/-- everything such a body queues is a whole-variable write to one of its `nbaTgts` -/
theorem exec_queue (p : Stmt) (h : NbaLid p) (subj : Option BV) (x : Ex Rd) :
    ∀ tv, tv ∈ (exec (σ := Rd) id wrA subj p x).nba → tv ∈ x.nba ∨ ∃ n, n ∈ nbaTgts p ∧ tv.1 = .whole n := by
  induction p generalizing subj x with
  | skip => intro tv htv; exact Or.inl htv
  | seq a b iha ihb =>
    intro tv htv
    simp only [exec] at htv
    rcases ihb h.2 subj _ tv htv with h1 | ⟨n, hn, e⟩
    · rcases iha h.1 subj x tv h1 with h2 | ⟨n, hn, e⟩
      · exact Or.inl h2
      · exact Or.inr ⟨n, by simp [nbaTgts, hn], e⟩
    · exact Or.inr ⟨n, by simp [nbaTgts, hn], e⟩
  | ife c t e iht ihe =>
    intro tv htv
    simp only [exec] at htv
    split at htv
    · rcases iht h.1 subj x tv htv with h1 | ⟨n, hn, e⟩
      · exact Or.inl h1
      · exact Or.inr ⟨n, by simp [nbaTgts, hn], e⟩
    · rcases ihe h.2 subj x tv htv with h1 | ⟨n, hn, e⟩
      · exact Or.inl h1
      · exact Or.inr ⟨n, by simp [nbaTgts, hn], e⟩
  | nba l e =>
    intro tv htv
    obtain ⟨n, hl⟩ := h
    subst hl
    simp only [exec, List.mem_append, List.mem_singleton] at htv
    rcases htv with h1 | h1
    · exact Or.inl h1
    · exact Or.inr ⟨n, by simp [nbaTgts, LHS.name], by rw [h1]; rfl⟩
  | ba l e => exact absurd h id
  | case e ch ih =>
    intro tv htv
    simp only [exec] at htv
    rcases ih h _ x tv htv with h1 | ⟨n, hn, e⟩
    · exact Or.inl h1
    · exact Or.inr ⟨n, by simpa [nbaTgts] using hn, e⟩
  | arm v s rest ihs ihr =>
    intro tv htv
    cases subj with
    | none => simp only [exec] at htv; exact Or.inl htv
    | some sv =>
      simp only [exec] at htv
      split at htv
      · rcases ihs h.1 none x tv htv with h1 | ⟨n, hn, e⟩
        · exact Or.inl h1
        · exact Or.inr ⟨n, by simp [nbaTgts, hn], e⟩
      · rcases ihr h.2 (some sv) x tv htv with h1 | ⟨n, hn, e⟩
        · exact Or.inl h1
        · exact Or.inr ⟨n, by simp [nbaTgts, hn], e⟩
  | dflt s ih =>
    intro tv htv
    simp only [exec] at htv
    rcases ih h none x tv htv with h1 | ⟨n, hn, e⟩
    · exact Or.inl h1
    · exact Or.inr ⟨n, by simpa [nbaTgts] using hn, e⟩

/-! ### `runProc`, `applyNba` on the HashMap store -/

theorem runProc_eq (s : Store) (p : Stmt) (h : NbaLid p) :
    runProc s p = (s, (exec (σ := Rd) id wrA none p { st := s.rd, nba := [] }).nba) := by
  unfold runProc
  simp only
  rw [exec_st Store.rd Store.wr p h, exec_nba Store.rd Store.wr p h]

theorem applyNba_rd (s : Store) (q : List (Tgt × BV)) (hq : ∀ tv, tv ∈ q → ∃ n, tv.1 = .whole n) :
    (applyNba s q).rd = applyNbaA s.rd q := by
  unfold applyNba applyNbaA
  induction q generalizing s with
  | nil => rfl
  | cons tv q ih =>
    simp only [List.foldl]
    obtain ⟨n, hn⟩ := hq tv (by simp)
    have hstep : (s.wr tv.1 tv.2).rd = wrA s.rd tv.1 tv.2 := by rw [hn, wr_whole_rd]; rfl
    have := ih (s.wr tv.1 tv.2) (fun tv' h' => hq tv' (by simp [h']))
    rw [hstep] at this
    exact this

/-! ### `Sim.half`, restated with named pieces (definitionally the same) -/

def beforeOf (m : Sim) : List (Option Nat) := m.flat.procs.map fun ep => (evSig ep.1).bind (bitOf m.st)

def firesP (st1 : Store) (x : (Event × Stmt) × Option Nat) : Bool :=
  match x.1.1 with
  | .pos c => x.2 == some 0 && bitOf st1 c == some 1
  | .neg c => x.2 == some 1 && bitOf st1 c == some 0
  | .star => false

def runFired (st1 : Store) (fired : List ((Event × Stmt) × Option Nat)) : Store × List (Tgt × BV) :=
  fired.foldl (fun acc x => ((runProc acc.1 x.1.2).1, acc.2 ++ (runProc acc.1 x.1.2).2)) (st1, [])

def clkSet (m : Sim) (lvl : Nat) : Sim := { m with st := m.st.setVal m.clk ⟨1, lvl, true⟩ }

/-! ### which blocks fire -/

theorem mem_zip_map {α β : Type} (l : List α) (g : α → β) (x : α × β) (h : x ∈ l.zip (l.map g)) : x.1 ∈ l ∧ x.2 = g x.1 := by
  induction l with
  | nil => simp at h
  | cons a l ih =>
    simp only [List.map_cons, List.zip_cons_cons, List.mem_cons] at h
    rcases h with h | h
    · subst h; exact ⟨by simp, rfl⟩
    · have := ih h; exact ⟨by simp [this.1], this.2⟩

theorem zip_map_fst {α β : Type} (l : List α) (g : α → β) : (l.zip (l.map g)).map Prod.fst = l := by
  induction l with
  | nil => rfl
  | cons a l ih => simp [ih]

/-- no `posedge c` block fires when every such `c` was not 0 before -/
theorem fired_none (f : V.Flat) (st0 st : Store)
    (hpos : ∀ ep, ep ∈ f.procs → ∃ c, ep.1 = .pos c ∧ bitOf st0 c ≠ some 0) :
    firedProcs f (snapshotEv f st0) st = [] := by
  unfold firedProcs snapshotEv
  rw [List.map_eq_nil_iff, List.filter_eq_nil_iff]
  intro x hx
  have hm := mem_zip_map f.procs _ x hx
  obtain ⟨⟨ev, p⟩, b⟩ := x
  obtain ⟨c, hc, hb⟩ := hpos (ev, p) hm.1
  simp only at hc hm
  subst hc
  have hb' : b = bitOf st0 c := by rw [hm.2]; rfl
  subst hb'
  simp only [Bool.and_eq_true, beq_iff_eq, not_and]
  intro h0
  exact absurd h0 hb

/-- every `posedge c` block fires when every such `c` went from 0 to 1 -/
theorem fired_all (f : V.Flat) (st0 st : Store)
    (hpos : ∀ ep, ep ∈ f.procs → ∃ c, ep.1 = .pos c ∧ bitOf st0 c = some 0 ∧ bitOf st c = some 1) :
    firedProcs f (snapshotEv f st0) st = f.procs.map Prod.snd := by
  unfold firedProcs snapshotEv
  have hall : (f.procs.zip (f.procs.map fun x => match x with | (ev, _) => (evSig ev).bind (bitOf st0))).filter
      (fun x => match x with
        | ((ev, _), b) => match ev with
          | .pos c => b == some 0 && bitOf st c == some 1
          | .neg c => b == some 1 && bitOf st c == some 0
          | .star => false) = f.procs.zip (f.procs.map fun x => match x with | (ev, _) => (evSig ev).bind (bitOf st0)) := by
    rw [List.filter_eq_self]
    intro x hx
    have hm := mem_zip_map f.procs _ x hx
    obtain ⟨⟨ev, p⟩, b⟩ := x
    obtain ⟨c, hc, hb0, hb1⟩ := hpos (ev, p) hm.1
    simp only at hc hm
    subst hc
    have hb' : b = bitOf st0 c := by rw [hm.2]; rfl
    subst hb'
    simp [hb0, hb1]
  rw [hall]
  have : (fun (x : (Event × Stmt) × Option Nat) => match x with | ((_, p), _) => p) = Prod.snd ∘ Prod.fst := by
    funext x; rfl
  rw [this, ← List.map_map, zip_map_fst]

/-! ### running the fired blocks -/

theorem fold_fired (g : Store × List (Tgt × BV) → Stmt → Store × List (Tgt × BV))
    (hg : ∀ acc p, g acc p = ((runProc acc.1 p).1, acc.2 ++ (runProc acc.1 p).2))
    (procs : List (Event × Stmt)) (hp : ∀ ep, ep ∈ procs → (∃ c, ep.1 = .pos c) ∧ NbaLid ep.2) (st : Store)
    (q0 : List (Tgt × BV)) :
    (procs.map Prod.snd).foldl g (st, q0) = (st, (procs.foldl fireStep (st.rd, q0)).2) ∧
    (procs.foldl fireStep (st.rd, q0)).1 = st.rd := by
  induction procs generalizing q0 with
  | nil => exact ⟨rfl, rfl⟩
  | cons ep procs ih =>
    obtain ⟨⟨c, hc⟩, hn⟩ := hp ep (by simp)
    obtain ⟨ev, p⟩ := ep
    simp only at hc hn
    subst hc
    have hstep : fireStep (st.rd, q0) (.pos c, p) =
        (st.rd, q0 ++ (exec (σ := Rd) id wrA none p { st := st.rd, nba := [] }).nba) := by
      simp only [fireStep, exec_st (σ := Rd) id wrA p hn]
    simp only [List.map_cons, List.foldl, hg, runProc_eq st p hn, hstep]
    exact ih (fun ep hep => hp ep (by simp [hep])) _

/-- all queued writes are whole-variable writes to `nbaTgts` of some block -/
theorem fireAll_queue (procs : List (Event × Stmt)) (hp : ∀ ep, ep ∈ procs → (∃ c, ep.1 = .pos c) ∧ NbaLid ep.2) (r : Rd)
    (q0 : List (Tgt × BV)) :
    ∀ tv, tv ∈ (procs.foldl fireStep (r, q0)).2 → tv ∈ q0 ∨ ∃ ep n, ep ∈ procs ∧ n ∈ nbaTgts ep.2 ∧ tv.1 = .whole n := by
  induction procs generalizing r q0 with
  | nil => intro tv h; exact Or.inl h
  | cons ep procs ih =>
    obtain ⟨⟨c, hc⟩, hn⟩ := hp ep (by simp)
    obtain ⟨ev, p⟩ := ep
    simp only at hc hn
    subst hc
    intro tv htv
    simp only [List.foldl, fireStep] at htv
    rcases ih (fun ep hep => hp ep (by simp [hep])) _ _ tv htv with h1 | ⟨ep, n, hep, hn', e⟩
    · simp only [List.mem_append] at h1
      rcases h1 with h1 | h1
      · exact Or.inl h1
      · rcases exec_queue p hn none _ tv h1 with h2 | ⟨n, hn', e⟩
        · simp at h2
        · exact Or.inr ⟨(.pos c, p), n, by simp, hn', e⟩
    · exact Or.inr ⟨ep, n, by simp [hep], hn', e⟩

end FlatM
