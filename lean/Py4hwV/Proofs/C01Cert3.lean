import Py4hwV.Proofs.C01Cert2
import Py4hwV.Proofs.C01FlatShip
import Py4hwV.Proofs.C01FlatElab2
/-
  C01 design level: the SHIPPED interpreter on a certified flattened text (`CertSrc`): `Sim.cycle` is `cycleA`, whole
  histories, and the state `V.mkSim` builds from the certificate's `V.Flat`.
-/
set_option linter.unusedSimpArgs false
namespace FlatM
open V C01 Net
namespace CertSrc
variable {C : CertSrc}

theorem clocks_follow (hd : C.DeclaredS info0) (r : Rd) (hi : r.info = info0) (hS : Settled C.assigns r) (b : Nat) (hb : b < 2)
    (hclk : r.val C.clk = ⟨1, b, true⟩) :
    ∀ (l : List (String × String)) (seen : List String), C.clocksOkb l seen = true →
      (∀ s, s ∈ seen → r.val s = ⟨1, b, true⟩) → ∀ cp, cp ∈ l → r.val cp.1 = ⟨1, b, true⟩ := by
  intro l
  induction l with
  | nil => intro _ _ _ cp hcp; cases hcp
  | cons x l ih =>
    intro seen hok hseen cp hcp
    obtain ⟨c, p⟩ := x
    simp only [clocksOkb, Bool.and_eq_true, List.contains_eq_mem, decide_eq_true_eq, Bool.or_eq_true, beq_iff_eq,
      List.any_eq_true] at hok
    obtain ⟨⟨⟨⟨⟨a0, ha0, ea0⟩, hp⟩, hwc⟩, hwp⟩, hrest⟩ := hok
    have hmem : ((LHS.lid c, Expr.id p) : LHS × Expr) ∈ C.assigns := ea0 ▸ ha0
    have hc : r.val c = ⟨1, b, true⟩ := by
      have hset := hS _ hmem
      simp only [tgt, LHS.name] at hset
      have hw : widthOf r c = 1 := by simp [widthOf, hi, hd c, hwc]
      have hpv : r.val p = ⟨1, b, true⟩ := by
        rcases hp with e | e
        · rw [e]; exact hclk
        · exact hseen p e
      have hk : Known r p 1 b := ⟨by rw [hi, hd p, hwp]; rfl, hpv, by omega⟩
      rw [hset, hw, inline_buf 1 hk]
      simp [Leaf.buf, Nat.mod_eq_of_lt (show b < 2 ^ 1 by omega)]
    simp only [List.mem_cons] at hcp
    rcases hcp with e | e
    · rw [e]; exact hc
    · apply ih (c :: seen) hrest _ cp e
      intro s hs
      simp only [List.mem_cons] at hs
      rcases hs with e' | e'
      · rw [e']; exact hc
      · exact hseen s e'

theorem OK.cycOK (h : C.OK) (info0 : String → Option SigInfo) (hd : C.DeclaredS info0) :
    CycOK C.flat C.clk C.topo info0 := by
  refine ⟨h.perm_topo, h.vacyc, ?_, ?_, ?_⟩
  · intro a ha e
    exact h.clk_undriven (e ▸ List.mem_map.mpr ⟨a, ha, rfl⟩)
  · intro ep hep
    rcases List.mem_map.mp hep with ⟨R, hR, e⟩
    subst e
    refine ⟨⟨_, rfl⟩, FlatDesign.nbaLid_regBody _ _ _ _, ?_⟩
    intro hmem
    have := FlatDesign.nbaTgts_regBody _ _ _ _ _ hmem
    exact (h.regs R hR).2.2.2.2.2.2.1 this.symm
  · intro ep c hep hc r hi hS b hb hval
    rcases List.mem_map.mp hep with ⟨R, hR, e⟩
    subst e
    have hcR : c = R.pfx ++ "clk" := by
      have : Event.pos (R.pfx ++ "clk") = Event.pos c := hc
      exact (Event.pos.inj this).symm
    subst hcR
    obtain ⟨cp, hcp, e⟩ := (h.regs R hR).2.2.2.2.2.2.2
    rw [← e]
    exact clocks_follow hd r hi hS b hb hval C.clocks [] h.clk_ok (fun _ hs => nomatch hs) cp hcp

/-! ### the shipped simulator on a certified text -/

structure ShipInvC (C : CertSrc) (m : Sim) : Prop where
  fassigns : m.flat.assigns = C.assigns
  fprocs : m.flat.procs = C.procs
  clk : m.clk = C.clk
  declared : C.DeclaredS m.st.rd.info
  high : m.st.rd.val C.clk = ⟨1, 1, true⟩
  ihigh : ∀ R, R ∈ C.regs → m.st.rd.val (R.pfx ++ "clk") = ⟨1, 1, true⟩

theorem ShipInvC.cyc (h : C.OK) {m : Sim} (hi : ShipInvC C m) : CycOK m.flat m.clk C.topo m.st.rd.info := by
  rw [hi.clk]
  exact FlatDesign.CycOK_congr (f := C.flat) hi.fassigns hi.fprocs (h.cycOK _ hi.declared)

theorem ShipInvC.lhs (h : C.OK) {m : Sim} (hi : ShipInvC C m) : ∀ a, a ∈ m.flat.assigns → LhsOk m.st.rd a.1 := by
  rw [hi.fassigns]; exact (h.infoOK m.st.rd hi.declared).lhs

theorem ship_cycleC (h : C.OK) (m : Sim) (hi : ShipInvC C m) :
    m.cycle.st.rd = cycleA C.flat m.st.rd ∧ m.cycle.errors = m.errors ∧ ShipInvC C m.cycle := by
  have hcs : ∀ ep c, ep ∈ m.flat.procs → ep.1 = .pos c → m.st.rd.val c = ⟨1, 1, true⟩ := by
    intro ep c hep hc
    rw [hi.fprocs] at hep
    rcases List.mem_map.mp hep with ⟨R, hR, e⟩
    subst e
    have : Event.pos (R.pfx ++ "clk") = Event.pos c := hc
    rw [← Event.pos.inj this]
    exact hi.ihigh R hR
  obtain ⟨h1, h2, h3, h4, h5, h6, h7⟩ := cycle_rd m (hi.cyc h) (hi.lhs h) (by rw [hi.clk]; exact hi.high) hcs
  refine ⟨by rw [h1]; exact FlatDesign.cycleA_congr (f := C.flat) hi.fassigns hi.fprocs _, h2,
    ⟨by rw [h3]; exact hi.fassigns, by rw [h3]; exact hi.fprocs, h4.trans hi.clk, by rw [h5]; exact hi.declared,
      by rw [← hi.clk]; exact h6, ?_⟩⟩
  intro R hR
  apply h7 (RegI.proc R) _ (by rw [hi.fprocs]; exact List.mem_map.mpr ⟨R, hR, rfl⟩) rfl

theorem inName_of (h : C.OK) (k : Nat) (n : String) (hkn : (k, n) ∈ C.inputs) : C.inName k = n := by
  unfold inName
  cases hl : C.inputs.lookup k with
  | none =>
    exfalso
    have : ∀ l : List (Nat × String), (k, n) ∈ l → l.lookup k ≠ none := by
      intro l
      induction l with
      | nil => intro hm; cases hm
      | cons x l ih =>
        intro hm
        obtain ⟨a, b⟩ := x
        simp only [List.lookup_cons]
        by_cases e : k == a
        · simp [e]
        · simp only [e]
          simp only [List.mem_cons, Prod.mk.injEq] at hm
          rcases hm with ⟨e1, _⟩ | hm
          · simp [e1] at e
          · exact ih hm
    exact this _ hkn hl
  | some n' =>
    have hmem := lookup_mem _ _ _ hl
    have h1 := h.isInput (k, n) hkn
    have h2 := h.isInput (k, n') hmem
    simp only [Option.getD_some]
    exact h1.only n' h2.denotes h2.undriven

theorem clock_target (h : C.OK) : ∀ (l : List (String × String)) (seen : List String), C.clocksOkb l seen = true →
    ∀ cp, cp ∈ l → cp.1 ∈ C.targets := by
  intro l
  induction l with
  | nil => intro _ _ cp hcp; cases hcp
  | cons x l ih =>
    intro seen hok cp hcp
    obtain ⟨c, p⟩ := x
    simp only [clocksOkb, Bool.and_eq_true, List.any_eq_true, decide_eq_true_eq] at hok
    obtain ⟨⟨⟨⟨⟨a0, ha0, ea0⟩, _⟩, _⟩, _⟩, hrest⟩ := hok
    simp only [List.mem_cons] at hcp
    rcases hcp with e | e
    · rw [e]
      exact List.mem_map.mpr ⟨a0, ha0, by rw [ea0]; rfl⟩
    · exact ih _ hrest cp e

theorem ship_opC (h : C.OK) (m : Sim) (hi : ShipInvC C m) (op : Net.Op) (hop : C.OpOK op) :
    (C.shipOp m op).st.rd = applyOpA C.flat C.inName m.st.rd op ∧ (C.shipOp m op).errors = m.errors ∧
    ShipInvC C (C.shipOp m op) := by
  cases op with
  | poke k v =>
    obtain ⟨⟨n, hkn⟩, _⟩ := hop
    have hn := inName_of h k n hkn
    have hrd : (m.st.wr (.whole (C.inName k)) ⟨widthOf m.st.rd (C.inName k), v.toNat, true⟩).rd = poke m.st.rd (C.inName k) v.toNat :=
      wr_whole_rd _ _ _
    obtain ⟨_, hund, hneclk, _, _⟩ := h.inputs (k, n) hkn
    refine ⟨hrd, rfl, ⟨hi.fassigns, hi.fprocs, hi.clk, ?_, ?_, ?_⟩⟩
    · show C.DeclaredS (m.st.wr (.whole (C.inName k)) _).rd.info
      rw [hrd]; exact hi.declared
    · show (m.st.wr (.whole (C.inName k)) _).rd.val C.clk = _
      rw [hrd, hn]
      simp only [poke, setWhole, if_neg (Ne.symm hneclk)]
      exact hi.high
    · intro R hR
      show (m.st.wr (.whole (C.inName k)) _).rd.val _ = _
      rw [hrd, hn]
      obtain ⟨cp, hcp, e⟩ := (h.regs R hR).2.2.2.2.2.2.2
      have htgt : R.pfx ++ "clk" ∈ C.targets := e ▸ clock_target h C.clocks [] h.clk_ok cp hcp
      have hne : R.pfx ++ "clk" ≠ n := fun e' => hund (e' ▸ htgt)
      simp only [poke, setWhole, if_neg hne]
      exact hi.ihigh R hR
  | clk n =>
    show (Net.iter Sim.cycle n m).st.rd = Net.iter (cycleA C.flat) n m.st.rd ∧ _
    induction n generalizing m with
    | zero => exact ⟨rfl, rfl, hi⟩
    | succ n ih =>
      have hc := ship_cycleC h m hi
      have := ih m.cycle hc.2.2 trivial
      simp only [Net.iter]
      rw [← hc.1]
      exact ⟨this.1, this.2.1.trans hc.2.1, this.2.2⟩
  | resort => exact ⟨rfl, rfl, hi⟩

theorem ship_runC (h : C.OK) (m : Sim) (hi : ShipInvC C m) (ops : List Net.Op) (hops : ∀ op, op ∈ ops → C.OpOK op) :
    (ops.foldl C.shipOp m).st.rd = ops.foldl (applyOpA C.flat C.inName) m.st.rd ∧
    (ops.foldl C.shipOp m).errors = m.errors ∧ ShipInvC C (ops.foldl C.shipOp m) := by
  induction ops generalizing m with
  | nil => exact ⟨rfl, rfl, hi⟩
  | cons op ops ih =>
    simp only [List.foldl]
    have h1 := ship_opC h m hi op (hops op (by simp))
    have h2 := ih (C.shipOp m op) h1.2.2 (fun o ho => hops o (by simp [ho]))
    rw [← h1.1]
    exact ⟨h2.1, h2.2.1.trans h1.2.1, h2.2.2⟩

/-- a covered operation is covered in the sense of the generic run theorem -/
theorem opOK_gen (h : C.OK) (op : Net.Op) (hop : C.OpOK op) : FlatM.OpOK C.flat C.regs C.net C.inName op := by
  cases op with
  | poke k v =>
    obtain ⟨⟨n, hkn⟩, hv⟩ := hop
    rw [show FlatM.OpOK C.flat C.regs C.net C.inName (.poke k v) = (IsInput C.flat C.regs C.net k (C.inName k) ∧ 0 ≤ v) from rfl,
      inName_of h k n hkn]
    exact ⟨h.isInput (k, n) hkn, hv⟩
  | clk n => trivial
  | resort => trivial

/-! ### the state `V.mkSim` builds from the certificate's flattened text -/

/-- `V.mkSim` of any module list that flattens to `C.flat` (with no elaboration error) is this -/
def certSim (C : CertSrc) : Sim := (Sim.mk C.flat (preStore C.flat C.clk) C.clk []).settle

theorem lookup_none_keys {α β : Type} [BEq α] [LawfulBEq α] (l : List (α × β)) (n : α) (h : l.lookup n = none) : n ∉ l.map (·.1) := by
  induction l with
  | nil => simp
  | cons x l ih =>
    obtain ⟨a, b⟩ := x
    simp only [List.lookup_cons] at h
    by_cases e : n == a
    · simp [e] at h
    · simp only [e] at h
      simp only [List.map_cons, List.mem_cons, not_or]
      exact ⟨by simpa using e, ih h⟩

theorem preStore_rdC (h : C.OK) :
    C.DeclaredS (preStore C.flat C.clk).rd.info ∧ (preStore C.flat C.clk).rd.val C.clk = ⟨1, 1, true⟩ ∧
    (∀ R, R ∈ C.regs → (preStore C.flat C.clk).rd.val (R.pfx ++ "rq") =
      ⟨C.wd R.leaf.q, R.leaf.rv % 2 ^ C.wd R.leaf.q, true⟩) := by
  let g1 : Store → String × SigInfo → Store := fun s x =>
    match x with
    | (n, i) => match i.memLen with
      | some len => { s with info := s.info.insert n i, mems := s.mems.insert n (Array.replicate len (BV.x i.width)) }
      | none => { s with info := s.info.insert n i }
  have hg1 : ∀ s x, x.2.memLen = none → g1 s x = { s with info := s.info.insert x.1 x.2 } := by
    intro s x hx
    obtain ⟨n, i⟩ := x
    simp only at hx
    simp only [g1, hx]
  let st1 : Store := C.flat.sigs.foldl g1 {}
  let g2 : Store → String × Expr → Store := fun s x => s.wr (.whole x.1) (evalAssign s.rd (widthOf s.rd x.1) x.2)
  let st2 : Store := C.flat.inits.foldl g2 st1
  have hpre : preStore C.flat C.clk = st2.setVal C.clk ⟨1, 1, true⟩ := rfl
  have hsigs : C.flat.sigs = C.sigs.map fun nw => (nw.1, ({ width := nw.2 } : SigInfo)) := rfl
  obtain ⟨_, _, hinfo0, hinfo1⟩ := sigs_fold g1 hg1 C.flat.sigs (by
    intro x hx; rw [hsigs] at hx; rcases List.mem_map.mp hx with ⟨y, _, e⟩; subst e; rfl) {}
  have hfun : ∀ x y, x ∈ C.flat.sigs → y ∈ C.flat.sigs → x.1 = y.1 → x.2 = y.2 := by
    intro x y hx hy e
    rw [hsigs] at hx hy
    rcases List.mem_map.mp hx with ⟨a, ha, ea⟩
    rcases List.mem_map.mp hy with ⟨b, hb, eb⟩
    subst ea eb
    have : a = b := FlatM.inj_of_nodup_map (·.1) C.sigs h.sigs_nodup ha hb e
    rw [this]
  have hdecl1 : C.DeclaredS st1.rd.info := by
    intro n
    show st1.info[n]? = _
    cases hs : C.sigW n with
    | some w =>
      have hmem : (n, w) ∈ C.sigs := lookup_mem _ _ _ hs
      have := hinfo1 hfun (n, { width := w }) (by rw [hsigs]; exact List.mem_map.mpr ⟨(n, w), hmem, rfl⟩)
      simpa using this
    | none =>
      have hnot : n ∉ C.flat.sigs.map (·.1) := by
        rw [hsigs, List.map_map]
        exact lookup_none_keys _ _ hs
      rw [hinfo0 n hnot]
      simp
  have hk12 : Keeps st1 st2 := keeps_fold_wr g2 (fun _ _ => rfl) _ st1
  have hk23 : Keeps st2 (st2.setVal C.clk ⟨1, 1, true⟩) := keeps_setVal _ _ _
  have hdecl : C.DeclaredS (st2.setVal C.clk ⟨1, 1, true⟩).rd.info := by
    intro n
    show (st2.setVal C.clk ⟨1, 1, true⟩).info[n]? = _
    rw [hk23.info, hk12.info]
    exact hdecl1 n
  have hrd2 : st2.rd = (C.regs.map fun R => (R.rq, FlatM.lit R.leaf.rv)).foldl initA st1.rd := by
    show (C.flat.inits.foldl g2 st1).rd = _
    rw [inits_fold g2 (fun _ _ => rfl)]
    rfl
  have hsc := h.seqCorr
  have hregs := initA_regs C.wd C.regs hsc.rq_nodup (fun R hR => (h.regs R hR).2.2.2.2.2.1) st1.rd (by
    intro R hR
    rw [hdecl1 R.rq, h.sigs_tab (R.rq, R.leaf.q) (C.net_mem (h.regs R hR).2.2.2.1)]
    rfl)
  rw [← hrd2] at hregs
  obtain ⟨_, _, hrq, _⟩ := hregs
  have hrd3 : (st2.setVal C.clk ⟨1, 1, true⟩).rd = { st2.rd with val := fun m => if m = C.clk then ⟨1, 1, true⟩ else st2.rd.val m } :=
    setVal_rd _ _ _
  refine ⟨by rw [hpre]; exact hdecl, ?_, ?_⟩
  · rw [hpre, hrd3]; simp
  · intro R hR
    rw [hpre, hrd3]
    simp only [if_neg (h.regs R hR).2.2.2.2.2.2.1]
    exact hrq R hR

/-- **the state after `mkSim`**: `ShipInvC`, no error, `rq = reset_value` -/
theorem certSim_inv (h : C.OK) :
    ShipInvC C C.certSim ∧ C.certSim.errors = [] ∧
    (∀ R, R ∈ C.regs → C.certSim.st.rd.val (R.pfx ++ "rq") = ⟨C.wd R.leaf.q, R.leaf.rv % 2 ^ C.wd R.leaf.q, true⟩) := by
  obtain ⟨hdecl, hclk, hrq⟩ := preStore_rdC h
  unfold certSim
  generalize hpre : Sim.mk C.flat (preStore C.flat C.clk) C.clk [] = pre
  have hst : pre.st = preStore C.flat C.clk := by rw [← hpre]
  have hfl : pre.flat = C.flat := by rw [← hpre]
  have hck : pre.clk = C.clk := by rw [← hpre]
  have her : pre.errors = [] := by rw [← hpre]
  have hC : CycOK pre.flat pre.clk C.topo pre.st.rd.info := by
    rw [hck, hfl, hst]; exact h.cycOK _ hdecl
  have hl : ∀ a, a ∈ pre.flat.assigns → LhsOk pre.st.rd a.1 := by
    rw [hfl, hst]; exact (h.infoOK _ hdecl).lhs
  obtain ⟨hs1, hs2, hs3, hs4⟩ := sim_settle_rd pre hC.nostar hC.perm hC.acyc hl
  obtain ⟨hSet, hi, _, hund, _⟩ := settleA_settled hC.perm hC.acyc pre.st.rd hl
  have hvclk : pre.settle.st.rd.val C.clk = ⟨1, 1, true⟩ := by
    rw [hs1, hund C.clk (by rw [← hck]; exact hC.clk_undriven), hst]; exact hclk
  refine ⟨⟨by rw [hs3, hfl]; rfl, by rw [hs3, hfl]; rfl, hs4.trans hck, by rw [hs1, hi, hst]; exact hdecl, hvclk, ?_⟩,
    hs2.trans her, ?_⟩
  · intro R hR
    have hmem : RegI.proc R ∈ pre.flat.procs := by rw [hfl]; exact List.mem_map.mpr ⟨R, hR, rfl⟩
    apply hC.follows (RegI.proc R) _ hmem rfl pre.settle.st.rd (by rw [hs1, hi]) (by rw [hs1]; exact hSet) 1 (by omega)
    rw [hck]; exact hvclk
  · intro R hR
    rw [hs1, hund (R.pfx ++ "rq") (by
      intro a ha e
      rw [hfl] at ha
      exact (h.regs R hR).2.2.2.2.1 (e ▸ List.mem_map.mpr ⟨a, ha, rfl⟩)), hst]
    exact hrq R hR

/-! ### whole histories on the shipped simulator -/

theorem pokes_zero' (names : List String) (r : Rd) :
    (names.foldl (fun r n => poke r n 0) r).info = r.info ∧
    (∀ n, n ∈ names → (names.foldl (fun r n => poke r n 0) r).val n = ⟨widthOf r n, 0, true⟩) ∧
    (∀ n, n ∉ names → (names.foldl (fun r n => poke r n 0) r).val n = r.val n) := by
  induction names generalizing r with
  | nil => exact ⟨rfl, (fun _ h => nomatch h), fun _ _ => rfl⟩
  | cons a l ih =>
    simp only [List.foldl]
    have hstep : ∀ n, (poke r a 0).val n = if n = a then ⟨widthOf r a, 0, true⟩ else r.val n := by
      intro n; simp only [poke, setWhole, norm, Nat.zero_mod, if_true]
    have hw : ∀ n, widthOf (poke r a 0) n = widthOf r n := fun n => rfl
    obtain ⟨h1, h2, h3⟩ := ih (poke r a 0)
    refine ⟨h1, ?_, ?_⟩
    · intro n hn
      by_cases hnl : n ∈ l
      · rw [h2 n hnl, hw]
      · simp only [List.mem_cons] at hn
        rcases hn with e | e
        · rw [h3 n hnl, hstep, if_pos e, e]
        · exact absurd e hnl
    · intro n hn
      simp only [List.mem_cons, not_or] at hn
      rw [h3 n hn.2, hstep, if_neg hn.1]

/-- the state the harness protocol starts from (`begin`, `set <input> 0` for every input) -/
theorem cert_state (h : C.OK) :
    ShipInvC C (C.zeroOps.foldl C.shipOp C.certSim) ∧
    PowerUp C.netD C.flat C.regs C.net (C.zeroOps.foldl C.shipOp C.certSim).st.rd ∧
    (C.zeroOps.foldl C.shipOp C.certSim).errors = [] := by
  obtain ⟨hinv, herr, hrq⟩ := certSim_inv h
  have hops : ∀ op, op ∈ C.zeroOps → C.OpOK op := by
    intro op hop
    rcases List.mem_map.mp hop with ⟨kn, hkn, e⟩
    subst e
    exact ⟨⟨kn.2, hkn⟩, Int.le_refl 0⟩
  obtain ⟨hrd, herr', hinv'⟩ := ship_runC h _ hinv C.zeroOps hops
  have hfold : C.zeroOps.foldl (applyOpA C.flat C.inName) C.certSim.st.rd =
      (C.inputs.map (·.2)).foldl (fun r n => poke r n 0) C.certSim.st.rd := by
    unfold zeroOps
    rw [List.foldl_map, List.foldl_map]
    have : ∀ (l : List (Nat × String)) (r : Rd), (∀ kn, kn ∈ l → kn ∈ C.inputs) →
        l.foldl (fun r kn => applyOpA C.flat C.inName r (Net.Op.poke kn.1 0)) r = l.foldl (fun r kn => poke r kn.2 0) r := by
      intro l
      induction l with
      | nil => intro r _; rfl
      | cons a l ih =>
        intro r hl
        simp only [List.foldl]
        rw [show applyOpA C.flat C.inName r (Net.Op.poke a.1 0) = poke r (C.inName a.1) 0 from rfl,
          inName_of h a.1 a.2 (hl a (by simp))]
        exact ih _ (fun kn hkn => hl kn (by simp [hkn]))
    exact this C.inputs _ (fun _ h => h)
  obtain ⟨hpi, hz, hother⟩ := pokes_zero' (C.inputs.map (·.2)) C.certSim.st.rd
  refine ⟨hinv', ⟨h.infoOK _ hinv'.declared, ?_, ?_⟩, herr'.trans herr⟩
  · intro R hR
    rw [hrd, hfold, hother]
    · exact hrq R hR
    intro hmem
    rcases List.mem_map.mp hmem with ⟨kn, hkn, e⟩
    obtain ⟨hnet, _, _, hnq, _⟩ := h.inputs kn hkn
    have h1 := (h.regs R hR).2.2.2.1
    have e' : kn.2 = R.pfx ++ "rq" := e
    rw [← e', hnet] at h1
    exact hnq R hR (Option.some.inj h1).symm
  · intro n k hn hu hnq
    rw [hrd, hfold]
    rcases h.all_driven (n, k) (C.net_mem hn) with h1 | h1 | ⟨R, hR, e⟩
    · exact absurd h1 hu
    · rw [hz n (List.mem_map.mpr ⟨(k, n), h1, rfl⟩)]
      have : widthOf C.certSim.st.rd n = C.wd k := by
        simp [widthOf, hinv.declared n, h.sigs_tab (n, k) (C.net_mem hn)]
      rw [this]
      rfl
    · exfalso
      have h1 := (h.regs R hR).2.2.2.1
      simp only at e
      rw [← e, hn] at h1
      exact hnq R hR (Option.some.inj h1).symm

/-- **C01 on a certified flattened text, shipped interpreter, every history**: after `mkSim`, zeroing the inputs, any
    covered history and `step (n+1)`: no error, and every name that denotes a net reads the py4hw simulator's value -/
theorem good_of_divFree (h : C.divFree = true) (V : Nat → Nat) : C.netD.good V := by
  intro k hk
  have := List.all_eq_true.mp h k hk
  cases k <;> simp_all [GKind.isDm, GKind.good]

theorem cert_run (h : C.check = true) (ops : List Net.Op) (hops : ∀ op, op ∈ ops → C.OpOK op) (n : Nat)
    (hg : GoodRun C.netD (initC C.netD.design C.netD.st0 C.netD.cons) (ops ++ [Net.Op.clk (n + 1)])) :
    ((C.zeroOps ++ (ops ++ [Net.Op.clk (n + 1)])).foldl C.shipOp C.certSim).errors = [] ∧
    ∀ nm k, C.net nm = some k →
      ((C.zeroOps ++ (ops ++ [Net.Op.clk (n + 1)])).foldl C.shipOp C.certSim).st.rd.val nm =
        ⟨C.wd k, (runC C.netD.design C.netD.st0 C.netD.cons (ops ++ [Net.Op.clk (n + 1)])).val k, true⟩ := by
  have hok := C.ok_of_check h
  obtain ⟨hinv, h0, herr⟩ := cert_state hok
  rw [List.foldl_append]
  generalize C.zeroOps.foldl C.shipOp C.certSim = m0 at hinv h0 herr
  have hops' : ∀ op, op ∈ ops ++ [Net.Op.clk (n + 1)] → C.OpOK op := by
    intro op hop
    simp only [List.mem_append, List.mem_singleton] at hop
    rcases hop with h1 | h1
    · exact hops op h1
    · subst h1; trivial
  obtain ⟨hrd, herr', _⟩ := ship_runC hok m0 hinv (ops ++ [Net.Op.clk (n + 1)]) hops'
  refine ⟨herr'.trans herr, ?_⟩
  intro nm k hnk
  rw [hrd]
  have hsc := hok.seqCorr
  rw [goodRun_append] at hg
  have hc := run_corr hsc C.inName h0 ops (fun op hop => opOK_gen hok op (hops op hop)) hg.1
  have := (clk_corr hsc hc (n + 1) hg.2.1).2 (Nat.succ_pos n)
  have hv := (this nm k hnk).val
  simp only [runC, List.foldl_append, List.foldl, applyOpA, applyOp] at hv ⊢
  exact hv

/-- the first observation of the protocol (`settle`, read): power-up values agree -/
theorem cert_powerup (h : C.check = true) (hg : C.netD.good (initC C.netD.design C.netD.st0 C.netD.cons).val) :
    (C.zeroOps.foldl C.shipOp C.certSim).settle.errors = [] ∧
    ∀ nm k, C.net nm = some k →
      (C.zeroOps.foldl C.shipOp C.certSim).settle.st.rd.val nm =
        ⟨C.wd k, (initC C.netD.design C.netD.st0 C.netD.cons).val k, true⟩ := by
  have hok := C.ok_of_check h
  obtain ⟨hinv, h0, herr⟩ := cert_state hok
  generalize C.zeroOps.foldl C.shipOp C.certSim = m0 at hinv h0 herr
  have hC := hinv.cyc hok
  have hs := sim_settle_rd m0 hC.nostar (topo := C.topo) hC.perm hC.acyc (hinv.lhs hok)
  refine ⟨hs.2.1.trans herr, ?_⟩
  intro nm k hnk
  rw [hs.1, hinv.fassigns]
  have hsc := hok.seqCorr
  have hc := powerup_corr hsc h0
  have hidem : C05.PropIdem C.netD.design := C04.propIdem C.netD.design C.netD.comb hsc.sched.1
  have hfix : propagateAll C.netD.design (initC C.netD.design C.netD.st0 C.netD.cons)
      = initC C.netD.design C.netD.st0 C.netD.cons := hidem _
  have := observe_corr hsc hc (by rw [hfix]; exact hg) nm k hnk
  rw [hfix] at this
  exact this.val

end CertSrc
end FlatM
