import Py4hwV.Proofs.C12Narrow
/- C12 — `FPNum(float)`: `convert_float_to_semp` = `adjust_sem` (three float loops over exact dyadics) + `adjust_semp`.
   Termination within the model's fuel, exact value, normalised result — for every finite float.  Core Lean only. -/
namespace C12
open Py Bits Helper Helper.FPNum

theorem fp_halveLoop_eq : ∀ (f : Nat) (m : Dy) (e : Int), FPNum.halveLoop f m e = FPH.halveLoop f m e := by
  intro f
  induction f with
  | zero => intro m e; rfl
  | succ f ih => intro m e; unfold FPNum.halveLoop FPH.halveLoop; rw [ih]

theorem fp_doubleLoop_eq : ∀ (f : Nat) (m : Dy) (e : Int), FPNum.doubleLoop f m e = FPH.doubleLoop f m e := by
  intro f
  induction f with
  | zero => intro m e; rfl
  | succ f ih => intro m e; unfold FPNum.doubleLoop FPH.doubleLoop; rw [ih]

/-- `(m - int(m)) > 0` on a positive dyadic `N·2^κ`: the number is not an integer -/
theorem frac_pos_iff (N κ : Int) (hN : 0 < N) :
    (Dy.gtZero (Dy.subInt ⟨N, κ⟩ (Dy.trunc ⟨N, κ⟩)) = true) ↔ (κ < 0 ∧ N % (2:Int)^(-κ).toNat ≠ 0) := by
  unfold Dy.trunc Dy.floor Dy.subInt Dy.gtZero
  have hN' : N ≥ 0 := by omega
  by_cases c : κ ≥ 0
  · simp only [hN', c, if_true]
    simp; omega
  · simp only [hN', c, if_true, if_false]
    have hq := two_pow_pos_int (-κ).toNat
    have := Int.emod_add_mul_ediv N ((2:Int)^(-κ).toNat)
    have hm := Int.emod_nonneg N (Int.ne_of_gt hq)
    simp only [decide_eq_true_eq]
    rw [Int.mul_comm] at this
    constructor
    · intro h; exact ⟨by omega, by omega⟩
    · intro h; omega

/-- `trunc` when the loop condition is false: the dyadic IS the integer `T`, with `T·2^(−κ) = N` resp. `T = N·2^κ` -/
theorem trunc_exact (N κ : Int) (hN : 0 < N) (h : ¬ (κ < 0 ∧ N % (2:Int)^(-κ).toNat ≠ 0)) :
    0 < Dy.trunc ⟨N, κ⟩ ∧ Dy.toRat ⟨Dy.trunc ⟨N, κ⟩, 0⟩ = Dy.toRat ⟨N, κ⟩ := by
  unfold Dy.trunc Dy.floor
  have hN' : N ≥ 0 := by omega
  simp only [hN', if_true]
  by_cases c : κ ≥ 0
  · simp only [c, if_true]
    have hq := two_pow_pos_int κ.toNat
    refine ⟨Int.mul_pos hN hq, ?_⟩
    unfold Dy.toRat
    simp only [Rat.zpow_zero, Rat.mul_one]
    rw [cast_mul_pow]
    have : (κ.toNat : Int) = κ := by omega
    rw [← Rat.zpow_natCast, this]
  · simp only [c, if_false]
    have hdiv : N % (2:Int)^(-κ).toNat = 0 := by
      apply Classical.byContradiction
      intro hne; exact h ⟨by omega, hne⟩
    have hq := two_pow_pos_int (-κ).toNat
    have hmul := Int.emod_add_mul_ediv N ((2:Int)^(-κ).toNat)
    rw [hdiv] at hmul
    have hT : 0 < N / (2:Int)^(-κ).toNat := by
      rcases Int.lt_trichotomy (N / (2:Int)^(-κ).toNat) 0 with c2 | c2 | c2
      · have := Int.mul_neg_of_pos_of_neg hq c2; omega
      · rw [c2] at hmul; omega
      · exact c2
    refine ⟨hT, ?_⟩
    unfold Dy.toRat
    simp only [Rat.zpow_zero, Rat.mul_one]
    have e1 : N = (N / (2:Int)^(-κ).toNat) * (2:Int)^(-κ).toNat := by rw [Int.mul_comm]; omega
    conv => rhs; rw [e1, cast_mul_pow]
    have := zpow_sub_nat 0 (-κ).toNat
    have e2 : (0:Int) - ((-κ).toNat : Int) = κ := by omega
    rw [e2] at this
    simp only [Rat.zpow_zero] at this
    rw [Rat.mul_assoc, Rat.mul_comm ((2:Rat)^(-κ).toNat), this, Rat.mul_one]

/-- `while ((m - int(m)) > 0): m *= 2; p *= 2` on `N·2^κ`, `p = 2^i`: ends on an integer, `m` and `p` scaled alike -/
theorem fracLoop_spec : ∀ (f : Nat) (N κ : Int) (i : Nat), 0 < N → (-κ).toNat < f →
    ∃ t : Nat, FPNum.fracLoop f ⟨N, κ⟩ ((2:Int)^i) = some (⟨N, κ + (t : Int)⟩, (2:Int)^(i + t)) ∧
      ¬ (κ + (t : Int) < 0 ∧ N % (2:Int)^(-(κ + (t : Int))).toNat ≠ 0) := by
  intro f
  induction f with
  | zero => intro N κ i _ h; omega
  | succ f ih =>
    intro N κ i hN hf
    unfold FPNum.fracLoop
    by_cases c : (κ < 0 ∧ N % (2:Int)^(-κ).toNat ≠ 0)
    · rw [if_pos ((frac_pos_iff N κ hN).mpr c)]
      obtain ⟨t, h1, h2⟩ := ih N (κ + 1) (i + 1) hN (by omega)
      refine ⟨t + 1, ?_, ?_⟩
      · simp only [Dy.scale]
        have e : (2:Int)^i * 2 = (2:Int)^(i+1) := by rw [Int.pow_succ]
        rw [e, h1]
        congr 3
        · push_cast; omega
        · omega
      · have : κ + ((t + 1 : Nat) : Int) = κ + 1 + (t : Int) := by push_cast; omega
        rw [this]; exact h2
    · have : ¬ (Dy.gtZero (Dy.subInt ⟨N, κ⟩ (Dy.trunc ⟨N, κ⟩)) = true) := fun h => c ((frac_pos_iff N κ hN).mp h)
      rw [if_neg this]
      exact ⟨0, by simp, by simpa using c⟩

/-- **closed form of `adjust_sem`** (the three float loops) on a positive float `N·2^k`, `2^j ≤ N < 2^(j+1)`: exponent `j + k`,
    precision `2^i`, integer mantissa `T` with `T / 2^i = N / 2^j` — no loop runs out of the model's fuel -/
theorem adjust_sem_spec (s N k : Int) (j : Nat) (h0 : (2:Int)^j ≤ N) (h1 : N < (2:Int)^(j+1)) :
    ∃ (T : Int) (i : Nat), FPNum.adjust_sem fresh s 0 ⟨N, k⟩ = some { fresh with s := s, e := (j:Int) + k, m := T, p := (2:Int)^i } ∧
      0 < T ∧ Dy.toRat ⟨T, 0⟩ = Dy.toRat ⟨N, -(j:Int) + (i:Int)⟩ := by
  have hj := two_pow_pos_int j
  have hN : 0 < N := by omega
  have hlog : j ≤ N.natAbs.log2 := by
    have hne : N.natAbs ≠ 0 := by omega
    rw [Nat.le_log2 hne]
    have : ((2^j : Nat) : Int) ≤ (N.natAbs : Int) := by
      have : (N.natAbs : Int) = N := by omega
      rw [this]; simpa using h0
    exact Int.ofNat_le.mp this
  have hz : Dy.isZero ⟨N, k⟩ = false := by simp [Dy.isZero]; omega
  unfold FPNum.adjust_sem
  simp only [hz, Bool.false_eq_true, if_false, fp_halveLoop_eq, fp_doubleLoop_eq]
  have hcg := dy_geInt_two N k j h0 h1
  have hcl := dy_ltInt_one N k j h0 h1
  -- the tail shared by the three branches: the fraction loop on N·2^(-j), then `int(m)`
  have tail : ∀ (fu : Nat), j < fu → ∃ (T : Int) (i : Nat),
      (do let __x_1 ← fracLoop fu ⟨N, -(j:Int)⟩ 1
          pure ({ s := s, e := (j:Int) + k, m := __x_1.fst.trunc, p := __x_1.snd, infinity := fresh.infinity,
                  nan := fresh.nan, inexact := fresh.inexact } : FPNum)) =
        some { s := s, e := (j:Int) + k, m := T, p := (2:Int)^i, infinity := fresh.infinity, nan := fresh.nan, inexact := fresh.inexact } ∧
      0 < T ∧ Dy.toRat ⟨T, 0⟩ = Dy.toRat ⟨N, -(j:Int) + (i:Int)⟩ := by
    intro fu hfu
    obtain ⟨t, ht, hex⟩ := fracLoop_spec fu N (-(j:Int)) 0 hN (by omega)
    simp only [Int.pow_zero] at ht
    obtain ⟨hT, hv⟩ := trunc_exact N (-(j:Int) + (t:Int)) hN hex
    refine ⟨Dy.trunc ⟨N, -(j:Int) + (t:Int)⟩, t, ?_, hT, hv⟩
    simp [ht, bind, Option.bind, pure]
  by_cases c1 : 1 ≤ (j : Int) + k
  · rw [if_pos (hcg.mpr c1)]
    have hA := halveLoop_closed (N.natAbs.log2 + k.natAbs + 2) N k 0 j h0 h1 (by omega)
    have e1 : k - (((j : Int) + k).toNat : Int) = -(j:Int) := by omega
    have e2 : (0:Int) + (((j : Int) + k).toNat : Int) = (j:Int) + k := by omega
    rw [e1, e2] at hA
    simp only [hA, bind, Option.bind]
    have := tail ((-(j:Int)).natAbs + 2) (by omega)
    simpa [bind, Option.bind] using this
  · have ng : ¬ (Dy.geInt ⟨N, k⟩ 2 = true) := fun h => c1 (hcg.mp h)
    rw [if_neg ng]
    by_cases c2 : (j : Int) + k < 0
    · rw [if_pos (hcl.mpr c2)]
      have hB := doubleLoop_closed (N.natAbs.log2 + k.natAbs + 2) N k 0 j h0 h1 (by omega)
      have e1 : k + ((-((j : Int) + k)).toNat : Int) = -(j:Int) := by omega
      have e2 : (0:Int) - ((-((j : Int) + k)).toNat : Int) = (j:Int) + k := by omega
      rw [e1, e2] at hB
      simp only [hB, bind, Option.bind]
      have := tail ((-(j:Int)).natAbs + 2) (by omega)
      simpa [bind, Option.bind] using this
    · have nl : ¬ (Dy.ltInt ⟨N, k⟩ 1 = true) := fun h => c2 (hcl.mp h)
      rw [if_neg nl]
      have hk : k = -(j:Int) := by omega
      have hz0 : (j:Int) + k = 0 := by omega
      subst hk
      have := tail ((-(j:Int)).natAbs + 2) (by omega)
      simpa [bind, Option.bind, hz0] using this

theorem dy_toRat_shift (n a c : Int) : Dy.toRat ⟨n, a + c⟩ = Dy.toRat ⟨n, a⟩ * (2:Rat)^c := by
  unfold Dy.toRat
  simp only
  rw [Rat.zpow_add (by decide), Rat.mul_assoc]

/-- **`FPNum(v)` for every finite Python float** `v = (−1)^neg · N·2^k`: the constructor returns (no loop diverges), the object
    is normalised (finite, precision a power of two, mantissa 0 or in `[p, 2p)`), carries the float's sign bit (−0.0 included)
    and denotes exactly `v` -/
theorem float_to_semp_spec (neg : Bool) (N k : Int) (hN : 0 ≤ N) :
    ∃ y, FPNum.convert_float_to_semp (.fin neg ⟨N, k⟩) = some y ∧ Normalised y ∧
      y.s = (if neg then -1 else 1) ∧ y.value = PyFloat.toRat (.fin neg ⟨N, k⟩) := by
  have hsg : (if neg then (-1:Int) else 1) = 1 ∨ (if neg then (-1:Int) else 1) = -1 := by cases neg <;> simp
  have hcast : (((if neg then (-1:Int) else 1) : Int) : Rat) = (if neg then (-1:Rat) else 1) := by cases neg <;> simp
  unfold FPNum.convert_float_to_semp
  simp only
  rcases Int.lt_or_eq_of_le hN with hpos | hzero
  · obtain ⟨j, h0, h1⟩ := exists_binade N hpos
    obtain ⟨T, i, hA, hT, hv⟩ := adjust_sem_spec (if neg then -1 else 1) N k j h0 h1
    rw [hA]
    simp only [bind, Option.bind]
    have hpi := two_pow_pos_int i
    obtain ⟨y, hy⟩ := adjust_semp_total' ({ fresh with s := (if neg then -1 else 1), e := (j:Int) + k, m := T, p := (2:Int)^i } : FPNum)
      (by exact hpi) (by show (0:Int) ≤ T; omega)
    have post := adjust_semp_spec _ y (by exact hpi) (by show (0:Int) ≤ T; omega) hy
    refine ⟨y, hy, normalised_of_adj hsg ⟨i, rfl⟩ post rfl rfl, post.s, ?_⟩
    rw [post.value, value_eq]
    simp only
    rw [val4_as_dy, hcast]
    unfold PyFloat.toRat
    congr 1
    have e1 : (j:Int) + k - (i:Int) = 0 + ((j:Int) + k - (i:Int)) := by omega
    have e2 : k = (-(j:Int) + (i:Int)) + ((j:Int) + k - (i:Int)) := by omega
    rw [e1, dy_toRat_shift, hv]
    conv => rhs; rw [e2, dy_toRat_shift]
  · subst hzero
    have hA : FPNum.adjust_sem fresh (if neg then -1 else 1) 0 ⟨0, k⟩ = some { fresh with s := (if neg then -1 else 1), e := 0, m := 0, p := 1 } := by
      simp [FPNum.adjust_sem, Dy.isZero]
    rw [hA]
    simp only [bind, Option.bind]
    obtain ⟨y, hy⟩ := adjust_semp_total' ({ fresh with s := (if neg then -1 else 1), e := 0, m := 0, p := 1 } : FPNum)
      (by show (0:Int) < 1; omega) (by show (0:Int) ≤ 0; omega)
    have post := adjust_semp_spec _ y (by show (0:Int) < 1; omega) (by show (0:Int) ≤ 0; omega) hy
    refine ⟨y, hy, normalised_of_adj hsg ⟨0, rfl⟩ post rfl rfl, post.s, ?_⟩
    rw [post.value, value_eq]
    simp [val4, PyFloat.toRat, Dy.toRat, Rat.div_def]

end C12
