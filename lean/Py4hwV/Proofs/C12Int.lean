import Py4hwV.Helper.Spec
import Py4hwV.Core.Bits
/- C12 — integer lemmas behind the two's complement / signExtend / FixedPoint theorems (core Lean only). -/
namespace C12
open Py Bits Helper

theorem and_two_pow (x k : Nat) : x &&& 2^k = if x.testBit k then 2^k else 0 := by
  apply Nat.eq_of_testBit_eq
  intro i
  rw [Nat.testBit_and, Nat.testBit_two_pow]
  by_cases h : k = i
  · subst h; cases hx : x.testBit k <;> simp
  · cases hx : x.testBit k <;> simp [h]

theorem testBit_top (x k : Nat) (h : x < 2^(k+1)) : x.testBit k = decide (2^k ≤ x) := by
  rw [Nat.testBit_eq_decide_div_mod_eq]
  have hp : 0 < 2^k := Nat.two_pow_pos k
  have h2 : x / 2^k < 2 := by
    rw [Nat.div_lt_iff_lt_mul hp]; rw [Nat.pow_succ] at h; omega
  by_cases c : 2^k ≤ x
  · have : 1 ≤ x / 2^k := by rw [Nat.le_div_iff_mul_le hp]; omega
    have : x / 2^k % 2 = 1 := by omega
    simp [c, this]
  · have : x / 2^k = 0 := by apply Nat.div_eq_of_lt; omega
    simp [c, this]

theorem shlT_one (w : Nat) : Py.shlT 1 (w : Int) = (2:Int)^w := by
  simp [Py.shlT, Py.shl]

theorem shlT_one_pred (w : Nat) (hw : 1 ≤ w) : Py.shlT 1 ((w : Int) - 1) = (2:Int)^(w-1) := by
  have : ((w : Int) - 1).toNat = w - 1 := by omega
  simp [Py.shlT, Py.shl, this]

theorem land_maskT (v : Int) (w : Nat) : Py.land v (Py.shlT 1 (w : Int) - 1) = v % (2:Int)^w := by
  have : Py.shlT 1 (w : Int) = Py.shl 1 w := by simp [Py.shlT]
  rw [this]; exact land_mask v w

theorem land_pow_mask (v : Int) (w : Nat) : Py.land v ((2:Int)^w - 1) = v % (2:Int)^w := by
  have := land_mask v w; rw [shl_one] at this; exact this

theorem emod_two_pow_bounds (v : Int) (w : Nat) : 0 ≤ v % (2:Int)^w ∧ v % (2:Int)^w < (2:Int)^w :=
  ⟨Int.emod_nonneg v (Int.ne_of_gt (two_pow_pos_int w)), Int.emod_lt_of_pos v (two_pow_pos_int w)⟩

theorem two_pow_succ_pred (w : Nat) (hw : 1 ≤ w) : (2:Int)^w = 2 * (2:Int)^(w-1) := by
  have : w = (w - 1) + 1 := by omega
  rw [this, Int.pow_succ]; simp; omega

/-- the sign test of `c2_to_signed`:  `(x & (1 << (w-1))) > 0  ↔  2^(w-1) ≤ x`  for a `w`-bit `x` -/
theorem land_signbit_pos (x : Int) (w : Nat) (hw : 1 ≤ w) (h0 : 0 ≤ x) (h1 : x < (2:Int)^w) :
    (Py.land x ((2:Int)^(w-1)) > 0) ↔ (2:Int)^(w-1) ≤ x := by
  obtain ⟨n, rfl⟩ := Int.eq_ofNat_of_zero_le h0
  have hn : n < 2^((w-1)+1) := by
    have e : (w - 1) + 1 = w := by omega
    rw [e]
    have : ((n : Nat) : Int) < ((2^w : Nat) : Int) := by simpa using h1
    exact Int.ofNat_lt.mp this
  have e2 : ((2:Int)^(w-1)) = ((2^(w-1) : Nat) : Int) := by simp
  rw [e2, land_ofNat, and_two_pow, testBit_top n (w-1) hn]
  have hp : 0 < 2^(w-1) := Nat.two_pow_pos _
  by_cases c : 2^(w-1) ≤ n
  · simp [c]; omega
  · simp [c]; omega

theorem ediv_emod_swap (Z a b : Int) (ha : 0 < a) (hb : 0 < b) : (Z / a) % b = (Z % (a * b)) / a := by
  have hab : 0 < a * b := Int.mul_pos ha hb
  have hr0 : 0 ≤ Z % (a*b) := Int.emod_nonneg Z (Int.ne_of_gt hab)
  have hr1 : Z % (a*b) < a*b := Int.emod_lt_of_pos Z hab
  have hq : Z = Z % (a*b) + a * (b * (Z / (a*b))) := by
    have := Int.emod_add_mul_ediv Z (a*b)
    rw [Int.mul_assoc] at this; omega
  have e1 : Z / a = (Z % (a*b)) / a + b * (Z / (a*b)) := by
    conv => lhs; rw [hq]
    exact Int.add_mul_ediv_left _ _ (Int.ne_of_gt ha)
  rw [e1, Int.add_mul_emod_self_left]
  apply Int.emod_eq_of_lt
  · exact Int.ediv_nonneg hr0 (Int.le_of_lt ha)
  · apply Int.ediv_lt_of_lt_mul ha
    rw [Int.mul_comm b a]; exact hr1

/-- floor-shift then mask only sees the low `f + w` bits -/
theorem shr_mod_depends (X Y : Int) (f w : Nat) (h : X % (2:Int)^(f+w) = Y % (2:Int)^(f+w)) :
    (X / (2:Int)^f) % (2:Int)^w = (Y / (2:Int)^f) % (2:Int)^w := by
  rw [ediv_emod_swap X _ _ (two_pow_pos_int f) (two_pow_pos_int w),
      ediv_emod_swap Y _ _ (two_pow_pos_int f) (two_pow_pos_int w), ← Int.pow_add, h]

theorem lor_disjoint (x k : Int) (w : Nat) (h0 : 0 ≤ x) (h1 : x < (2:Int)^w) (hk : 0 ≤ k) :
    Py.lor x (k * (2:Int)^w) = x + k * (2:Int)^w := by
  obtain ⟨n, rfl⟩ := Int.eq_ofNat_of_zero_le h0
  obtain ⟨j, rfl⟩ := Int.eq_ofNat_of_zero_le hk
  have hn : n < 2^w := by
    have : ((n : Nat) : Int) < ((2^w : Nat) : Int) := by simpa using h1
    exact Int.ofNat_lt.mp this
  have e : ((j : Nat) : Int) * (2:Int)^w = ((j <<< w : Nat) : Int) := by
    simp [Nat.shiftLeft_eq]
  rw [e, lor_ofNat, Nat.or_comm, ← Nat.shiftLeft_add_eq_or_of_lt hn j]
  simp; omega

theorem two_pow_le_int (w nw : Nat) (h : w ≤ nw) : (2:Int)^w ≤ (2:Int)^nw := by
  have h1 := Nat.pow_le_pow_right (by decide : 0 < 2) h
  have : ((2^w : Nat) : Int) ≤ ((2^nw : Nat):Int) := Int.ofNat_le.mpr h1
  simpa using this

theorem land_one (x : Int) : Py.land x 1 = x % 2 := by
  have := land_pow_mask x 1
  simpa using this

theorem shrT_pred (x : Int) (w : Nat) (hw : 1 ≤ w) : Py.shrT x ((w:Int) - 1) = x / (2:Int)^(w-1) := by
  have : ((w : Int) - 1).toNat = w - 1 := by omega
  simp [Py.shrT, Py.shr, this, Int.shiftRight_eq_div_pow]


theorem c2Signed_of_range (w : Nat) (hw : 1 ≤ w) (v : Int) (h : -(2:Int)^(w-1) ≤ v ∧ v < (2:Int)^(w-1)) :
    c2Signed w v = v := by
  have h2 := two_pow_succ_pred w hw
  have hb := emod_two_pow_bounds v w
  unfold c2Signed
  by_cases c : 0 ≤ v
  · have e : v % (2:Int)^w = v := Int.emod_eq_of_lt c (by omega)
    rw [e]; split <;> omega
  · have e : v % (2:Int)^w = v + (2:Int)^w := by
      have : (v + (2:Int)^w) % (2:Int)^w = v + (2:Int)^w := Int.emod_eq_of_lt (by omega) (by omega)
      rw [← this, Int.add_emod_right]
    rw [e]; split <;> omega

theorem c2Signed_congr (w : Nat) (a b : Int) (h : a % (2:Int)^w = b % (2:Int)^w) : c2Signed w a = c2Signed w b := by
  unfold c2Signed; rw [h]

theorem lor_disjoint' (k x : Int) (w : Nat) (h0 : 0 ≤ x) (h1 : x < (2:Int)^w) (hk : 0 ≤ k) :
    Py.lor (k * (2:Int)^w) x = k * (2:Int)^w + x := by
  obtain ⟨n, rfl⟩ := Int.eq_ofNat_of_zero_le h0
  obtain ⟨j, rfl⟩ := Int.eq_ofNat_of_zero_le hk
  have hn : n < 2^w := by
    have : ((n : Nat) : Int) < ((2^w : Nat) : Int) := by simpa using h1
    exact Int.ofNat_lt.mp this
  have e : ((j : Nat) : Int) * (2:Int)^w = ((j <<< w : Nat) : Int) := by
    simp [Nat.shiftLeft_eq]
  rw [e, lor_ofNat, ← Nat.shiftLeft_add_eq_or_of_lt hn j]
  simp

/-- generic shape of the three `pack_ieee754_*_parts`: `((s & 1) << (eb+mb)) | ((e & (2^eb-1)) << mb) | (m & (2^mb-1))` -/
theorem pack_generic (s e m : Int) (eb mb : Nat) :
    Py.lor (Py.lor (Py.shlT (Py.land s 1) ((eb + mb : Nat) : Int)) (Py.shlT (Py.land e ((2:Int)^eb - 1)) (mb : Int)))
      (Py.land m (Py.shlT 1 (mb : Int) - 1))
    = (s % 2) * (2:Int)^(eb + mb) + (e % (2:Int)^eb) * (2:Int)^mb + m % (2:Int)^mb := by
  rw [land_one, land_pow_mask, land_maskT]
  have hs : 0 ≤ s % 2 := by omega
  have he := emod_two_pow_bounds e eb
  have hm := emod_two_pow_bounds m mb
  have e1 : ∀ x : Int, ∀ n : Nat, Py.shlT x (n : Int) = x * (2:Int)^n := by
    intro x n; simp [Py.shlT, Py.shl]
  rw [e1, e1]
  have hB0 : 0 ≤ e % (2:Int)^eb * (2:Int)^mb := Int.mul_nonneg he.1 (Int.le_of_lt (two_pow_pos_int mb))
  have hB1 : e % (2:Int)^eb * (2:Int)^mb < (2:Int)^(eb + mb) := by
    rw [Int.pow_add]
    exact Int.mul_lt_mul_of_pos_right he.2 (two_pow_pos_int mb)
  rw [lor_disjoint' _ _ (eb + mb) hB0 hB1 hs]
  have e2 : s % 2 * (2:Int)^(eb + mb) + e % (2:Int)^eb * (2:Int)^mb
      = (s % 2 * (2:Int)^eb + e % (2:Int)^eb) * (2:Int)^mb := by
    rw [Int.pow_add, Int.add_mul, Int.mul_assoc]
  rw [e2, lor_disjoint' _ _ mb hm.1 hm.2 (by
    have := Int.mul_nonneg hs (Int.le_of_lt (two_pow_pos_int eb)); omega)]

end C12
