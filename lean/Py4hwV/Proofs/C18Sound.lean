import Py4hwV.Schem.Checker
/-
  C18 — soundness of the layout checker: helper development.
-/
namespace Schem

/- ---------------------------------------------------------------- Conn -/
section ConnLemmas
variable {α : Type} {R : α → α → Prop}

theorem Conn.single {a b : α} (h : R a b ∨ R b a) : Conn R a b := Conn.step (Conn.refl a) h

theorem Conn.trans {a b c : α} (h1 : Conn R a b) (h2 : Conn R b c) : Conn R a c := by
  induction h2 with
  | refl => exact h1
  | step _ hr ih => exact Conn.step ih hr

theorem Conn.symm {a b : α} (h : Conn R a b) : Conn R b a := by
  induction h with
  | refl => exact Conn.refl _
  | step _ hr ih => exact Conn.trans (Conn.single (Or.symm hr)) ih

end ConnLemmas

/- ---------------------------------------------------------------- breadth-first search is sound -/
section BFS
variable {α : Type} [DecidableEq α]

theorem near_iff (adj : α → α → Bool) (fr : List α) (x : α) :
    near adj fr x = true ↔ ∃ y ∈ fr, y = x ∨ adj y x = true ∨ adj x y = true := by
  simp [near, List.any_eq_true, or_assoc]

theorem unreached_sound (adj : α → α → Bool) (S : List α) (x : α) :
    ∀ (n : Nat) (rest fr : List α),
      (∀ y ∈ fr, y ∈ S ∧ Conn (fun p q => p ∈ S ∧ q ∈ S ∧ adj p q = true) x y) →
      (∀ y ∈ rest, y ∈ S) →
      unreached adj n rest fr = [] →
      ∀ y ∈ rest, Conn (fun p q => p ∈ S ∧ q ∈ S ∧ adj p q = true) x y := by
  intro n
  induction n with
  | zero =>
    intro rest fr _ _ h y hy
    simp [unreached] at h
    subst h
    simp at hy
  | succ n ih =>
    intro rest fr hfr hrest h y hy
    simp only [unreached] at h
    split at h
    · -- nothing hit: rest = []
      subst h
      simp at hy
    · -- recursive call on the misses with the hits as new frontier
      have hhit : ∀ z ∈ rest.filter (near adj fr), z ∈ S ∧ Conn (fun p q => p ∈ S ∧ q ∈ S ∧ adj p q = true) x z := by
        intro z hz
        rw [List.mem_filter] at hz
        obtain ⟨hzr, hzn⟩ := hz
        obtain ⟨u, hu, hadj⟩ := (near_iff adj fr z).1 hzn
        refine ⟨hrest z hzr, ?_⟩
        rcases hadj with h1 | h1 | h1
        · subst h1; exact (hfr u hu).2
        · exact Conn.step (hfr u hu).2 (Or.inl ⟨(hfr u hu).1, hrest z hzr, h1⟩)
        · exact Conn.step (hfr u hu).2 (Or.inr ⟨hrest z hzr, (hfr u hu).1, h1⟩)
      have hmiss : ∀ z ∈ rest.filter (fun x => !near adj fr x), z ∈ S := by
        intro z hz
        exact hrest z (List.mem_filter.1 hz).1
      have := ih _ _ hhit hmiss h
      by_cases hn : near adj fr y = true
      · exact (hhit y (List.mem_filter.2 ⟨hy, hn⟩)).2
      · exact this y (List.mem_filter.2 ⟨hy, by simp [hn]⟩)

theorem connectedB_sound (adj : α → α → Bool) (xs : List α) (h : connectedB adj xs = true) : Connected adj xs := by
  cases xs with
  | nil => intro a ha; simp at ha
  | cons x tl =>
    simp only [connectedB, List.isEmpty_iff] at h
    have key : ∀ y ∈ x :: tl, Conn (fun p q => p ∈ x :: tl ∧ q ∈ x :: tl ∧ adj p q = true) x y := by
      intro y hy
      rcases List.mem_cons.1 hy with rfl | hy
      · exact Conn.refl _
      · refine unreached_sound adj (x :: tl) x tl.length tl [x] ?_ ?_ h y hy
        · intro z hz
          simp at hz
          subst hz
          exact ⟨by simp, Conn.refl _⟩
        · intro z hz
          exact List.mem_cons_of_mem _ hz
    intro a ha b hb
    exact Conn.trans (Conn.symm (key a ha)) (key b hb)

end BFS

/- ---------------------------------------------------------------- enumerations are complete -/
theorem mem_pins (d : Design) (p : Pin) (w : Nat) (h : d.wireOf p = some w) : p ∈ d.pins := by
  unfold Design.pins
  cases p with
  | instOut i q =>
    simp only [Design.wireOf] at h
    cases hi : d.insts[i]? with
    | none => simp [hi] at h
    | some inst =>
      simp only [hi, Option.bind_some] at h
      have hil : i < d.insts.length := by
        rcases List.getElem?_eq_some_iff.1 hi with ⟨hl, _⟩; exact hl
      have hq : q < inst.outs.length := by
        rcases List.getElem?_eq_some_iff.1 h with ⟨hl, _⟩; exact hl
      apply List.mem_append_left
      apply List.mem_append_left
      rw [List.mem_flatMap]
      refine ⟨i, List.mem_range.2 hil, ?_⟩
      simp only [hi]
      apply List.mem_append_left
      exact List.mem_map.2 ⟨q, List.mem_range.2 hq, rfl⟩
  | instIn i q =>
    simp only [Design.wireOf] at h
    cases hi : d.insts[i]? with
    | none => simp [hi] at h
    | some inst =>
      simp only [hi, Option.bind_some] at h
      have hil : i < d.insts.length := by
        rcases List.getElem?_eq_some_iff.1 hi with ⟨hl, _⟩; exact hl
      have hq : q < inst.ins.length := by
        rcases List.getElem?_eq_some_iff.1 h with ⟨hl, _⟩; exact hl
      apply List.mem_append_left
      apply List.mem_append_left
      rw [List.mem_flatMap]
      refine ⟨i, List.mem_range.2 hil, ?_⟩
      simp only [hi]
      apply List.mem_append_right
      exact List.mem_map.2 ⟨q, List.mem_range.2 hq, rfl⟩
  | blockIn q =>
    simp only [Design.wireOf] at h
    have hq : q < d.inp.length := by
      rcases List.getElem?_eq_some_iff.1 h with ⟨hl, _⟩; exact hl
    apply List.mem_append_left
    apply List.mem_append_right
    exact List.mem_map.2 ⟨q, List.mem_range.2 hq, rfl⟩
  | blockOut q =>
    simp only [Design.wireOf] at h
    have hq : q < d.outp.length := by
      rcases List.getElem?_eq_some_iff.1 h with ⟨hl, _⟩; exact hl
    apply List.mem_append_right
    exact List.mem_map.2 ⟨q, List.mem_range.2 hq, rfl⟩

theorem mem_foldr_insert {β : Type} [DecidableEq β] (l : List β) (a : β) : a ∈ l.foldr List.insert [] ↔ a ∈ l := by
  induction l with
  | nil => simp
  | cons b l ih => simp [List.foldr, List.mem_insert_iff, ih]

theorem mem_usedList (d : Design) (w : Nat) : w ∈ d.usedList ↔ d.Used w := by
  unfold Design.usedList Design.Used
  rw [mem_foldr_insert, List.mem_filterMap]
  constructor
  · rintro ⟨p, _, hp⟩; exact ⟨p, hp⟩
  · rintro ⟨p, hp⟩; exact ⟨p, mem_pins d p w hp, hp⟩

theorem mem_drivers (d : Design) (w : Nat) (p : Pin) : p ∈ d.drivers w ↔ p.isDriver = true ∧ d.wireOf p = some w := by
  unfold Design.drivers
  rw [List.mem_filter]
  constructor
  · rintro ⟨_, h⟩
    simp only [Bool.and_eq_true, beq_iff_eq] at h
    exact h
  · rintro ⟨h1, h2⟩
    exact ⟨mem_pins d p w h2, by simp [h1, h2]⟩

theorem mem_readers (d : Design) (w : Nat) (p : Pin) : p ∈ d.readers w ↔ p.isDriver = false ∧ d.wireOf p = some w := by
  unfold Design.readers
  rw [List.mem_filter]
  constructor
  · rintro ⟨_, h⟩
    simp only [Bool.and_eq_true, beq_iff_eq, Bool.not_eq_true'] at h
    exact h
  · rintro ⟨h1, h2⟩
    exact ⟨mem_pins d p w h2, by simp [h1, h2]⟩

/- ---------------------------------------------------------------- check = [] ⇔ every clause passes -/
theorem check_nil_iff (d : Design) (L : Layout) : check d L = [] ↔ ∀ c ∈ clauses d L, c.2 = true := by
  unfold check
  rw [List.filterMap_eq_nil_iff]
  constructor
  · intro h c hc
    have := h c hc
    cases hb : c.2 with
    | true => rfl
    | false => simp [hb] at this
  · intro h c hc
    simp [h c hc]

/- ---------------------------------------------------------------- small facts used by both directions -/
theorem mem_realKinds (d : Design) (k : Kind) : k ∈ d.realKinds ↔ (k.isReal = true ∧ d.hasKind k = true) := by
  unfold Design.realKinds
  simp only [List.mem_append, List.mem_map, List.mem_range]
  constructor
  · rintro ((⟨i, hi, rfl⟩ | ⟨i, hi, rfl⟩) | ⟨i, hi, rfl⟩) <;> simp [Kind.isReal, Design.hasKind, hi]
  · rintro ⟨h1, h2⟩
    cases k <;> simp [Kind.isReal, Design.hasKind] at h1 h2
    · exact Or.inl (Or.inl ⟨_, h2, rfl⟩)
    · exact Or.inl (Or.inr ⟨_, h2, rfl⟩)
    · exact Or.inr ⟨_, h2, rfl⟩

theorem syms_lt (L : Layout) (k : Nat) (s : Sym) (h : L.syms[k]? = some s) : k < L.syms.size := by
  rcases Array.getElem?_eq_some_iff.1 h with ⟨hl, _⟩; exact hl

theorem mem_syms_iff (L : Layout) (s : Sym) : s ∈ L.syms.toList ↔ ∃ k : Nat, L.syms[k]? = some s := by
  rw [List.mem_iff_getElem?]
  simp [Array.getElem?_toList]

theorem mem_reals (L : Layout) (i : Nat) (a : Sym) : (i, a) ∈ L.reals ↔ (L.syms[i]? = some a ∧ a.kind.isReal = true) := by
  unfold Layout.reals
  rw [List.mem_filterMap]
  constructor
  · rintro ⟨j, _, hj⟩
    cases hs : L.syms[j]? with
    | none => simp [hs] at hj
    | some s =>
      simp only [hs] at hj
      split at hj
      · rename_i hr
        simp only [Option.some.injEq, Prod.mk.injEq] at hj
        obtain ⟨rfl, rfl⟩ := hj
        exact ⟨hs, hr⟩
      · simp at hj
  · rintro ⟨h1, h2⟩
    exact ⟨i, List.mem_range.2 (syms_lt L i a h1), by simp [h1, h2]⟩

theorem cellAt_some (L : Layout) (r c k : Nat) :
    L.cellAt r c = some k ↔ ∃ row, L.mat[r]? = some row ∧ row[c]? = some (some k) := by
  unfold Layout.cellAt
  cases hr : L.mat[r]? with
  | none => simp
  | some row =>
    cases hc : row[c]? with
    | none => simp [hc]
    | some o => cases o <;> simp [hc]

theorem mem_matCells (L : Layout) (r c : Nat) :
    (r, c) ∈ matCells L ↔ ∃ row, L.mat[r]? = some row ∧ c < row.length := by
  unfold matCells
  simp only [List.mem_flatMap, List.mem_map, List.mem_range, Prod.mk.injEq]
  constructor
  · rintro ⟨r', hr', c', hc', rfl, rfl⟩
    have : L.mat[r']? = some L.mat[r'] := List.getElem?_eq_getElem hr'
    refine ⟨L.mat[r'], this, ?_⟩
    simpa [this] using hc'
  · rintro ⟨row, hrow, hc⟩
    rcases List.getElem?_eq_some_iff.1 hrow with ⟨hl, _⟩
    exact ⟨r, hl, c, by simpa [hrow] using hc, rfl, rfl⟩

theorem srcEnd_marker (L : Layout) (n : Net) (k : Nat) (h : L.srcEnd n = .marker k) : k = n.src ∧ k < L.syms.size := by
  unfold Layout.srcEnd at h
  cases hs : L.syms[n.src]? with
  | none => simp [hs] at h
  | some s =>
    simp only [hs] at h
    have hl := syms_lt L _ _ hs
    split at h <;> simp at h <;> (subst h; exact ⟨rfl, hl⟩)

theorem snkEnd_marker (L : Layout) (n : Net) (k : Nat) (h : L.snkEnd n = .marker k) : k = n.snk ∧ k < L.syms.size := by
  unfold Layout.snkEnd at h
  cases hs : L.syms[n.snk]? with
  | none => simp [hs] at h
  | some s =>
    simp only [hs] at h
    have hl := syms_lt L _ _ hs
    split at h <;> simp at h <;> (subst h; exact ⟨rfl, hl⟩)

theorem usesMarker_lt (L : Layout) (n : Net) (k : Nat) (h : L.usesMarker n k = true) : k < L.syms.size := by
  unfold Layout.usesMarker at h
  simp only [Bool.or_eq_true, beq_iff_eq] at h
  rcases h with h | h
  · exact (srcEnd_marker L n k h).2
  · exact (snkEnd_marker L n k h).2

theorem apartB_iff (a b : Sym) : apartB a b = true ↔ a.Apart b := by
  simp [apartB, Sym.Apart, or_assoc]

/- ---------------------------------------------------------------- where each clause sits in `clauses` -/
section Parts
variable (d : Design) (L : Layout)

theorem part_symCount (k : Kind) (hk : k ∈ d.realKinds) :
    (Err.symCount k, (L.syms.toList.filter (·.kind == k)).length == 1) ∈ clauses d L := by
  unfold clauses
  iterate 7 apply List.mem_append_left
  exact List.mem_map.2 ⟨k, hk, rfl⟩

theorem part_symKind (k : Nat) (hk : k < L.syms.size) : (Err.symKind k, symKindB d L k) ∈ clauses d L := by
  unfold clauses
  iterate 6 apply List.mem_append_left
  apply List.mem_append_right
  exact List.mem_map.2 ⟨k, List.mem_range.2 hk, rfl⟩

theorem part_placed (k : Nat) (hk : k < L.syms.size) : (Err.notPlaced k, placedB L k) ∈ clauses d L := by
  unfold clauses
  iterate 5 apply List.mem_append_left
  apply List.mem_append_right
  exact List.mem_map.2 ⟨k, List.mem_range.2 hk, rfl⟩

theorem part_cell (r c : Nat) (h : (r, c) ∈ matCells L) : (Err.badCell r c, cellB L r c) ∈ clauses d L := by
  unfold clauses
  iterate 4 apply List.mem_append_left
  apply List.mem_append_right
  exact List.mem_map.2 ⟨(r, c), h, rfl⟩

theorem part_overlap (ia jb : Nat × Sym) (h1 : ia ∈ L.reals) (h2 : jb ∈ L.reals) :
    (Err.overlap ia.1 jb.1, overlapB ia jb) ∈ clauses d L := by
  unfold clauses
  iterate 3 apply List.mem_append_left
  apply List.mem_append_right
  exact List.mem_flatMap.2 ⟨ia, h1, List.mem_map.2 ⟨jb, h2, rfl⟩⟩

theorem part_netWire (i : Nat) (hi : i < L.nets.length) :
    (Err.netWire i, match L.nets[i]? with | some n => d.usedList.contains n.wire | none => true) ∈ clauses d L := by
  unfold clauses
  iterate 2 apply List.mem_append_left
  apply List.mem_append_right
  exact List.mem_map.2 ⟨i, List.mem_range.2 hi, rfl⟩

theorem part_marker (k : Nat) (hk : k < L.syms.size) : (Err.markerShared k, markerB L k) ∈ clauses d L := by
  unfold clauses
  apply List.mem_append_left
  apply List.mem_append_right
  exact List.mem_map.2 ⟨k, List.mem_range.2 hk, rfl⟩

theorem part_wire (w : Nat) (hw : w ∈ d.usedList) (c : Err × Bool) (hc : c ∈ wireClauses d L (pinTable d L) w) :
    c ∈ clauses d L := by
  unfold clauses
  apply List.mem_append_right
  exact List.mem_flatMap.2 ⟨w, hw, hc⟩

end Parts


/- ---------------------------------------------------------------- the nine clauses of one wire -/
theorem wireOK_of_clauses (d : Design) (L : Layout) (w : Nat)
    (h : ∀ c ∈ wireClauses d L (pinTable d L) w, c.2 = true) : WireOK d L w := by
  simp only [wireClauses, wireClausesOn, List.mem_cons, List.not_mem_nil, or_false, forall_eq_or_imp, forall_eq] at h
  obtain ⟨hEnds, hStray, hDrv, hRd, hLog, hRouted, hOrtho, hGeo, hFor⟩ := h
  refine ⟨?_, ?_, ?_, ?_, connectedB_sound _ _ hLog, ?_, ?_, connectedB_sound _ _ hGeo, ?_⟩
  · intro n hn
    have := List.all_eq_true.1 hEnds n hn
    simpa [Bool.and_eq_true] using this
  · intro hq
    have hr : d.readers w = [] := by
      apply List.eq_nil_iff_forall_not_mem.2
      intro q hqm
      have := (mem_readers d w q).1 hqm
      exact hq q this.1 this.2
    simp only [hr, List.isEmpty_nil, Bool.not_true, Bool.false_or, List.isEmpty_iff] at hStray
    exact hStray
  · intro p hp hpw ⟨q, hq, hqw⟩
    have hqm : q ∈ d.readers w := (mem_readers d w q).2 ⟨hq, hqw⟩
    have hne : (d.readers w).isEmpty = false := by
      cases hr : d.readers w with
      | nil => rw [hr] at hqm; simp at hqm
      | cons _ _ => rfl
    simp only [driverB, hne, Bool.false_or] at hDrv
    have := List.all_eq_true.1 hDrv p ((mem_drivers d w p).2 ⟨hp, hpw⟩)
    obtain ⟨n, hn, hnb⟩ := List.any_eq_true.1 this
    simp only [Bool.and_eq_true, beq_iff_eq] at hnb
    obtain ⟨⟨h1, h2⟩, h3⟩ := hnb
    obtain ⟨pt, hpt⟩ := Option.isSome_iff_exists.1 h2
    exact ⟨n, hn, h1, pt, hpt, by rw [h3, hpt]⟩
  · intro q hq hqw
    have := List.all_eq_true.1 hRd q ((mem_readers d w q).2 ⟨hq, hqw⟩)
    obtain ⟨n, hn, hnb⟩ := List.any_eq_true.1 this
    simp only [Bool.and_eq_true, beq_iff_eq] at hnb
    obtain ⟨⟨h1, h2⟩, h3⟩ := hnb
    obtain ⟨pt, hpt⟩ := Option.isSome_iff_exists.1 h2
    exact ⟨n, hn, h1, pt, hpt, by rw [h3, hpt]⟩
  · intro n hn
    simpa using List.all_eq_true.1 hRouted n hn
  · intro s hs
    exact List.all_eq_true.1 hOrtho s hs
  · intro p w' hpw hne pt hpt s hs
    have hmem : (d.wireOf p, L.pinPos p) ∈ pinTable d L := List.mem_map.2 ⟨p, mem_pins d p w' hpw, rfl⟩
    have := List.all_eq_true.1 hFor _ hmem
    simp only [hpw, hpt] at this
    have hww : (w' == w) = false := by simpa using hne
    simp only [hww, Bool.false_or] at this
    have := List.all_eq_true.1 this s hs
    simpa using this

/- ---------------------------------------------------------------- soundness -/
theorem checker_sound (d : Design) (L : Layout) (h : check d L = []) : Holds d L := by
  have hc := (check_nil_iff d L).1 h
  have hKind : ∀ (k : Nat) (s : Sym), L.syms[k]? = some s →
      s.kind ≠ .other ∧ (s.kind.isReal = true → d.hasKind s.kind = true) := by
    intro k s hs
    have := hc _ (part_symKind d L k (syms_lt L k s hs))
    simp only [symKindB, hs, Bool.and_eq_true, bne_iff_ne, ne_eq, Bool.or_eq_true, Bool.not_eq_true'] at this
    refine ⟨this.1, fun hr => ?_⟩
    rcases this.2 with h2 | h2
    · rw [hr] at h2; cases h2
    · exact h2
  refine ⟨?_, ?_, ?_, ?_, ?_, ?_, ?_, ?_⟩
  · -- once
    intro k hk
    cases hh : d.hasKind k with
    | true =>
      have := hc _ (part_symCount d L k ((mem_realKinds d k).2 ⟨hk, hh⟩))
      simpa using this
    | false =>
      simp only [Bool.false_eq_true, if_false, List.length_eq_zero_iff]
      apply List.filter_eq_nil_iff.2
      intro s hs hsk
      obtain ⟨i, hi⟩ := (mem_syms_iff L s).1 hs
      have hsk' : s.kind = k := by simpa using hsk
      have := (hKind i s hi).2 (by rw [hsk']; exact hk)
      rw [hsk', hh] at this
      cases this
  · -- no_other
    intro s hs
    obtain ⟨i, hi⟩ := (mem_syms_iff L s).1 hs
    exact (hKind i s hi).1
  · -- placed
    intro k s hs
    have := hc _ (part_placed d L k (syms_lt L k s hs))
    simp only [placedB, hs] at this
    cases hcell : s.cell with
    | none => simp [hcell] at this
    | some rc =>
      obtain ⟨r, c⟩ := rc
      simp only [hcell, beq_iff_eq] at this
      exact ⟨r, c, rfl, this⟩
  · -- cells
    intro r c k hk
    obtain ⟨row, hrow, hck⟩ := (cellAt_some L r c k).1 hk
    have hlen : c < row.length := by
      rcases List.getElem?_eq_some_iff.1 hck with ⟨hl, _⟩; exact hl
    have := hc _ (part_cell d L r c ((mem_matCells L r c).2 ⟨row, hrow, hlen⟩))
    simp only [cellB, hk] at this
    cases hs : L.syms[k]? with
    | none => simp [hs] at this
    | some s =>
      simp only [hs, beq_iff_eq] at this
      exact ⟨s, rfl, this⟩
  · -- apart
    intro i j a b ha hb hij hra hrb
    have := hc _ (part_overlap d L (i, a) (j, b) ((mem_reals L i a).2 ⟨ha, hra⟩) ((mem_reals L j b).2 ⟨hb, hrb⟩))
    simp only [overlapB, Bool.or_eq_true, beq_iff_eq, Bool.and_eq_true, bne_iff_ne, ne_eq] at this
    rcases this with h1 | h1
    · exact absurd h1 hij
    · exact ⟨h1.1, (apartB_iff a b).1 h1.2⟩
  · -- nets_wires
    intro n hn
    obtain ⟨i, hi, hin⟩ := List.mem_iff_getElem.1 hn
    have hi' : L.nets[i]? = some n := by rw [List.getElem?_eq_getElem hi, hin]
    have := hc _ (part_netWire d L i hi)
    simp only [hi', List.contains_iff_mem] at this
    exact (mem_usedList d n.wire).1 this
  · -- marker_one_wire
    intro n hn m hm k hnk hmk
    have := hc _ (part_marker d L k (usesMarker_lt L n k hnk))
    simp only [markerB] at this
    have hnm : n.wire ∈ (L.nets.filter fun n => L.usesMarker n k).map (·.wire) :=
      List.mem_map.2 ⟨n, List.mem_filter.2 ⟨hn, hnk⟩, rfl⟩
    have hmm : m.wire ∈ (L.nets.filter fun n => L.usesMarker n k).map (·.wire) :=
      List.mem_map.2 ⟨m, List.mem_filter.2 ⟨hm, hmk⟩, rfl⟩
    revert this hnm hmm
    generalize (L.nets.filter fun n => L.usesMarker n k).map (·.wire) = ws
    intro this hnm hmm
    cases ws with
    | nil => simp at hnm
    | cons w0 rest =>
      simp only [List.all_eq_true, beq_iff_eq] at this
      have e1 : n.wire = w0 := by
        rcases List.mem_cons.1 hnm with h1 | h1
        · exact h1
        · exact this _ h1
      have e2 : m.wire = w0 := by
        rcases List.mem_cons.1 hmm with h1 | h1
        · exact h1
        · exact this _ h1
      rw [e1, e2]
  · -- wires
    intro w hw
    apply wireOK_of_clauses
    intro c hcm
    exact hc c (part_wire d L w ((mem_usedList d w).2 hw) c hcm)

end Schem
