import Py4hwV.Emit.Flat
import Py4hwV.Net.IR
/-
  C01 design level: the leaves of `NetD` are the leaves of the netlist IR (`Net.LeafInst`, the object the harness ties to the
  real simulator wire by wire: dump_ir.py / NetBatch): same kind string, configuration, wire lists — same puts.
-/
set_option linter.unusedSimpArgs false
namespace FlatM
open Net

/-- the IR instance of a covered primitive, as dump_ir.py exports it -/
def Kind.inst (wd : Nat → Nat) : Kind → LeafInst
  | .and2 a b r => { kind := "And2", cfg := [], ins := [a, b], inls := [], outs := [r], outls := [], st0 := [], isProp := true, isClk := false }
  | .or2 a b r => { kind := "Or2", cfg := [], ins := [a, b], inls := [], outs := [r], outls := [], st0 := [], isProp := true, isClk := false }
  | .not1 a r => { kind := "Not", cfg := [], ins := [a], inls := [], outs := [r], outls := [], st0 := [], isProp := true, isClk := false }
  | .buf a r => { kind := "Buf", cfg := [], ins := [a], inls := [], outs := [r], outls := [], st0 := [], isProp := true, isClk := false }
  | .zext a r => { kind := "ZeroExtend", cfg := [], ins := [a], inls := [], outs := [r], outls := [], st0 := [], isProp := true, isClk := false }
  | .bit a k r => { kind := "Bit", cfg := [[(k : Int)]], ins := [a], inls := [], outs := [r], outls := [], st0 := [], isProp := true, isClk := false }
  | .mux2 sel s0 s1 r => { kind := "Mux2", cfg := [], ins := [sel, s1, s0], inls := [], outs := [r], outls := [], st0 := [], isProp := true, isClk := false }
  | .const v r => { kind := "Constant", cfg := [[(v : Int)]], ins := [], inls := [], outs := [r], outls := [], st0 := [], isProp := true, isClk := false }
  | .shl a n r => { kind := "ShiftLeftConstant", cfg := [[(n : Int)]], ins := [a], inls := [], outs := [r], outls := [], st0 := [], isProp := true, isClk := false }
  | .shr a n r => { kind := "ShiftRightConstant", cfg := [[(n : Int)]], ins := [a], inls := [], outs := [r], outls := [], st0 := [], isProp := true, isClk := false }
  | .addc a b ci r => { kind := "AddCarryIn", cfg := [], ins := [a, b, ci], inls := [], outs := [r], outls := [], st0 := [], isProp := true, isClk := false }
  | .sub a b r => { kind := "Sub", cfg := [[(wd r : Int)]], ins := [a, b], inls := [], outs := [r], outls := [], st0 := [], isProp := true, isClk := false }
  | .mul a b r => { kind := "Mul", cfg := [], ins := [a, b], inls := [], outs := [r], outls := [], st0 := [], isProp := true, isClk := false }
  | .range a hi lo r => { kind := "Range", cfg := [[(hi : Int)], [(lo : Int)]], ins := [a], inls := [], outs := [r], outls := [], st0 := [], isProp := true, isClk := false }
  | .catm ins r => { kind := "ConcatenateMSBF", cfg := [], ins := [], inls := [ins], outs := [r], outls := [], st0 := [], isProp := true, isClk := false }
  | .catl ins r => { kind := "ConcatenateLSBF", cfg := [], ins := [], inls := [ins], outs := [r], outls := [], st0 := [], isProp := true, isClk := false }
  | .sext a r => { kind := "SignExtend", cfg := [[(wd a : Int)], [(wd r : Int)]], ins := [a], inls := [], outs := [r], outls := [], st0 := [], isProp := true, isClk := false }
  | .smul a b r => { kind := "SignedMul", cfg := [[(wd a : Int)], [(wd b : Int)], [(wd r : Int)]], ins := [a, b], inls := [], outs := [r], outls := [], st0 := [], isProp := true, isClk := false }
  | .rept i r => { kind := "Repeat", cfg := [[(wd r : Int)]], ins := [i], inls := [], outs := [r], outls := [], st0 := [], isProp := true, isClk := false }

/-- the puts of the IR leaf are the puts of the `CLeaf` the theorems are stated over -/
theorem zip_map_self' {α β γ : Type} (ins : List α) (V : α → β) (h : α × β → γ) :
    (ins.zip (ins.map V)).map h = ins.map fun x => h (x, V x) := by
  induction ins with
  | nil => rfl
  | cons a l ih => simp [ih]

theorem kind_inst_prop (wd : Nat → Nat) (k : Kind) (v : Val) (s : LSt) :
    (((k.inst wd).sem wd).prop v s).2 = [((k.leaf wd).out, (k.leaf wd).py ((k.leaf wd).ins.map v))] := by
  cases k
  case catm ins r =>
    simp [Kind.inst, Kind.leaf, LeafInst.sem, LeafInst.call, Gen.dynStep, zipPuts, zipPutLs, Gen.ConcatenateMSBF.dyn,
      Gen.ConcatenateMSBF.step, Id.run, pure, zip_map_self']
  case catl ins r =>
    simp [Kind.inst, Kind.leaf, LeafInst.sem, LeafInst.call, Gen.dynStep, zipPuts, zipPutLs, Gen.ConcatenateLSBF.dyn,
      Gen.ConcatenateLSBF.step, Id.run, pure, zip_map_self']
  case sext a r =>
    simp [Kind.inst, Kind.leaf, LeafInst.sem, LeafInst.call, Gen.dynStep, zipPuts, zipPutLs, g, Gen.SignExtend.dyn,
      Gen.SignExtend.step, Id.run, pure]
  case smul a b r =>
    simp [Kind.inst, Kind.leaf, LeafInst.sem, LeafInst.call, Gen.dynStep, zipPuts, zipPutLs, g, Gen.SignedMul.dyn,
      Gen.SignedMul.step, Id.run, pure]
  case rept i r =>
    by_cases h : Py.truthy ((v i : Nat) : Int) = true <;>
      simp [Kind.inst, Kind.leaf, LeafInst.sem, LeafInst.call, Gen.dynStep, zipPuts, zipPutLs, g, Gen.Repeat.dyn,
        Gen.Repeat.step, Id.run, pure, h]
  case mux2 sel s0 s1 r =>
    by_cases h : Py.truthy (Py.land ((v sel : Nat) : Int) 1) = true <;>
      simp [Kind.inst, Kind.leaf, LeafInst.sem, LeafInst.call, Gen.dynStep, zipPuts, zipPutLs, g, Gen.Mux2.dyn,
        Gen.Mux2.step, Id.run, pure, h]
  all_goals
    simp [Kind.inst, Kind.leaf, LeafInst.sem, LeafInst.call, Gen.dynStep, zipPuts, zipPutLs, g,
      Gen.And2.dyn, Gen.And2.step, Gen.Or2.dyn, Gen.Or2.step, Gen.Not.dyn, Gen.Not.step, Gen.Buf.dyn, Gen.Buf.step,
      Gen.ZeroExtend.dyn, Gen.ZeroExtend.step, Gen.Bit.dyn, Gen.Bit.step, Gen.Mux2.dyn, Gen.Mux2.step,
      Gen.Constant.dyn, Gen.Constant.step, Gen.ShiftLeftConstant.dyn, Gen.ShiftLeftConstant.step,
      Gen.ShiftRightConstant.dyn, Gen.ShiftRightConstant.step, Gen.AddCarryIn.dyn, Gen.AddCarryIn.step,
      Gen.Sub.dyn, Gen.Sub.step, Gen.Mul.dyn, Gen.Mul.step, Gen.Range.dyn, Gen.Range.step, Id.run, pure]

/-- the IR instance of a `Reg` (cfg order `a_reset_value, has_e, has_r`; inputs `e, r, d`; state `value`) -/
def RLeaf.inst (R : RLeaf) : LeafInst :=
  { kind := "Reg", cfg := [[(R.rv : Int)], [if R.hasE then 1 else 0], [if R.hasR then 1 else 0]], ins := [R.e, R.r, R.d],
    inls := [], outs := [R.q], outls := [], st0 := [[(R.rv : Int)]], isProp := false, isClk := true }

theorem zipPuts_single (q : Nat) (o : Option Int) :
    zipPuts [q] [o] = match o with | some y => [(q, y)] | none => [] := by
  cases o <;> simp [zipPuts]

/-- the IR `Reg` leaf with state `[[x]]` does what `RLeaf.sem` does with state `x` -/
theorem reg_inst_clock (width : Nat → Nat) (R : RLeaf) (v : Val) (x : Int) :
    ((R.inst.sem width).clock v [[x]]) = ([[(R.sem.clock v x).1]], (R.sem.clock v x).2) := by
  have hcfg : (⟨(R.rv : Int), ((if R.hasE then (1 : Int) else 0) != 0), ((if R.hasR then (1 : Int) else 0) != 0)⟩ : Gen.Reg.Cfg)
      = ⟨(R.rv : Int), R.hasE, R.hasR⟩ := by
    cases R.hasE <;> cases R.hasR <;> rfl
  simp only [RLeaf.inst, RLeaf.sem, LeafInst.sem, LeafInst.call, Gen.dynStep, Gen.Reg.dyn, if_true, List.map,
    List.getD_cons_zero, List.getD_cons_succ, List.headD_cons, hcfg, zipPuts_single, zipPutLs, List.zip_nil_right,
    List.map_nil, List.flatten_nil, List.append_nil]
  generalize (Gen.Reg.step ⟨(R.rv : Int), R.hasE, R.hasR⟩ ⟨x⟩ ⟨v R.e, v R.r, v R.d⟩ ⟨⟩).2.q = o
  cases o <;> rfl

end FlatM
