import Py4hwV.Proofs.C01Cert1
import Py4hwV.Proofs.C01FlatCheck
/-
  C01 design level: `CertSrc.check` is sound — it implies the hypotheses of the generic correspondence theorems
  (`SeqCorr`, `CycOK`, `InfoOK`, `IsInput`) for the certificate's flattened text and netlist.
-/
set_option linter.unusedSimpArgs false
namespace FlatM
open V C01 Net
namespace CertSrc
variable (C : CertSrc)

theorem acycb_sound (l : List (LHS × Expr)) (h : acycb l = true) : Acyc l := by
  induction l with
  | nil => trivial
  | cons a rest ih =>
    simp only [acycb, Bool.and_eq_true, List.all_eq_true, bne_iff_ne, ne_eq] at h
    exact ⟨fun b hb n hn => h.1.1 b hb n hn, fun b hb => h.1.2 b hb, ih h.2⟩

theorem lookup_mem {α β : Type} [BEq α] [LawfulBEq α] (l : List (α × β)) (n : α) (k : β) (h : l.lookup n = some k) : (n, k) ∈ l := by
  induction l with
  | nil => cases h
  | cons x l ih =>
    obtain ⟨a, b⟩ := x
    simp only [List.lookup_cons] at h
    by_cases e : n == a
    · simp only [e] at h
      have : n = a := by simpa using e
      subst this
      cases h; simp
    · simp only [e] at h
      exact List.mem_cons_of_mem _ (ih h)

theorem net_mem {n : String} {k : Nat} (h : C.net n = some k) : (n, k) ∈ C.table := lookup_mem _ _ _ h

theorem zip_of_mem {α β : Type} (l1 : List α) (l2 : List β) (h : l2.length = l1.length) (a : α) (ha : a ∈ l1) :
    ∃ t, (a, t) ∈ l1.zip l2 := by
  obtain ⟨i, hi, e⟩ := List.mem_iff_getElem.mp ha
  have hi2 : i < l2.length := by omega
  refine ⟨l2[i], ?_⟩
  rw [List.mem_iff_getElem]
  refine ⟨i, by rw [List.length_zip]; omega, ?_⟩
  simp [e]

theorem leaves_sub {i : Nat} (hi : i < C.kinds.length) : ∀ c, c ∈ (C.kinds.getD i default).leaves C.wd → c ∈ C.combs := by
  intro c hc
  unfold combs
  rw [List.mem_flatMap]
  exact ⟨C.kinds.getD i default, FlatDesign.getD_mem _ _ hi, hc⟩

/-- a tagged assign is justified by every valuation at which the combinational leaves sit at their fixpoint -/
theorem just_of_tag (a : LHS × Expr) (t : Tag) (h : C.tagOkb a t = true) (V : Nat → Nat) (hfix : CombFix C.netD V)
    (hV : ∀ k, V k < 2 ^ C.wd k) (hg : C.netD.good V) : Just C.net C.wd V a := by
  cases t with
  | kind i j nu =>
    simp only [tagOkb, Bool.and_eq_true, decide_eq_true_eq, List.all_eq_true, beq_iff_eq] at h
    obtain ⟨⟨⟨⟨hi, hassign⟩, hok⟩, hout⟩, hins⟩ := h
    cases ho : (C.kinds.getD i default).outs[j]? with
    | none => rw [ho] at hout; cases hout
    | some o =>
      rw [ho] at hout
      simp only [beq_iff_eq] at hout
      intro kk hkk r hK
      rw [hout] at hkk
      have hkk' : o = kk := Option.some.inj hkk
      subst hkk'
      constructor
      · intro n hn
        obtain ⟨x, hx, e⟩ := gkind_reads_sub C.wd _ _ j a hassign n hn
        exact ⟨x, e ▸ hins x hx⟩
      · apply gkind_just C.wd _ _ hok V _ j a o hassign ho r
        · intro x hx
          exact hK _ x (gkind_reads_sup C.wd _ _ hok j a hassign x hx) (hins x hx)
        · exact hg _ (FlatDesign.getD_mem C.kinds i hi)
        · intro c hc of hof
          exact hfix c (C.leaves_sub hi c hc) of hof
  | alias =>
    obtain ⟨l, e⟩ := a
    cases l with
    | lid n1 =>
      cases e with
      | id n2 =>
        simp only [tagOkb, Bool.and_eq_true, Bool.or_eq_true, beq_iff_eq] at h
        apply just_alias C.net C.wd V _ _ (fun _ k _ => hV k)
        · intro k hk
          rcases h.2 with h0 | h0
          · rw [show (LHS.lid n1).name = n1 from rfl, h0] at hk; cases hk
          · rw [← h0]; exact hk
        · exact Option.isSome_iff_exists.mp h.1
      | _ => simp [tagOkb] at h
    | _ => simp [tagOkb] at h
  | clock =>
    obtain ⟨l, e⟩ := a
    cases l with
    | lid n1 =>
      cases e with
      | id n2 =>
        simp only [tagOkb, beq_iff_eq] at h
        exact just_unmapped _ _ _ _ h
      | _ => simp [tagOkb] at h
    | _ => simp [tagOkb] at h

theorem topoCheckG_sound (D : NetD) (l : List Nat) (hl : ∀ i, i ∈ l → i < D.combs.length)
    (h : topoCheckG (fun i => (D.combs.getD i default).ins) (fun i => (D.combs.getD i default).outs.map (·.1)) l = true) :
    C04.TopoOK D.comb l := by
  induction l with
  | nil => trivial
  | cons a rest ih =>
    simp only [topoCheckG, Bool.and_eq_true, List.all_eq_true, Bool.not_eq_true', List.contains_eq_mem,
      decide_eq_false_iff_not] at h
    obtain ⟨⟨⟨h1, h2⟩, h3⟩, h4⟩ := h
    have hget : ∀ j, j < D.combs.length → D.combs[j]? = some (D.combs.getD j default) := fun j hj => getElem?_getD _ _ hj
    have hreads : ∀ j, j < D.combs.length → D.comb.reads j = (D.combs.getD j default).ins := by
      intro j hj; show D.reads j = _; unfold NetD.reads; rw [hget j hj]
    have hwrites : ∀ j, j < D.combs.length → D.comb.writes j = (D.combs.getD j default).outs.map (·.1) := by
      intro j hj; show D.writes j = _; unfold NetD.writes; rw [hget j hj]
    have ha := hl a (by simp)
    refine ⟨?_, ?_, h3, ih (fun i hi => hl i (by simp [hi])) h4⟩
    · intro b hb w hw
      rw [hwrites b (hl b hb)]
      rw [hreads a ha] at hw
      exact h1 b hb w hw
    · intro b hb w hw
      rw [hwrites a ha] at hw
      rw [hwrites b (hl b (by simp [hb]))]
      exact h2 b hb w hw

/-- the conditions of `CertSrc.check`, as propositions -/
structure OK (C : CertSrc) : Prop where
  tags_len : C.tags.length = C.assigns.length
  tags_ok : ∀ at_, at_ ∈ C.assigns.zip C.tags → C.tagOkb at_.1 at_.2 = true
  lhs : ∀ a, a ∈ C.assigns → C.lhsOkb a.1 = true
  vperm : C.vorder.Perm (List.range C.assigns.length)
  vacyc : Acyc C.topo
  undriven : ∀ nk, nk ∈ C.table → nk.1 ∈ C.targets ∨ nk.2 ∉ C.combDriven
  operm : C.order.Perm (List.range C.combs.length)
  otopo : topoCheckG (fun i => (C.combs.getD i default).ins) (fun i => (C.combs.getD i default).outs.map (·.1)) C.order = true
  regs : ∀ R, R ∈ C.regs →
    C.net (R.pfx ++ "d") = some R.leaf.d ∧ (R.leaf.hasE = true → C.net (R.pfx ++ "e") = some R.leaf.e) ∧
    (R.leaf.hasR = true → C.net (R.pfx ++ "r") = some R.leaf.r) ∧ C.net (R.pfx ++ "rq") = some R.leaf.q ∧
    (R.pfx ++ "rq") ∉ C.targets ∧ R.leaf.rv < 2 ^ 31 ∧ (R.pfx ++ "rq") ≠ C.clk ∧ ∃ cp, cp ∈ C.clocks ∧ cp.1 = R.pfx ++ "clk"
  rq_only : ∀ nk, nk ∈ C.table → nk.1 ∈ C.targets ∨ ∀ R, R ∈ C.regs → R.leaf.q ≠ nk.2 ∨ nk.1 = R.pfx ++ "rq"
  q_nodup : (C.regs.map (·.leaf.q)).Nodup
  clk_undriven : C.clk ∉ C.targets
  clk_ok : C.clocksOkb C.clocks [] = true
  sigs_nodup : (C.sigs.map (·.1)).Nodup
  sigs_tab : ∀ nk, nk ∈ C.table → C.sigW nk.1 = some (C.wd nk.2)
  inputs : ∀ kn, kn ∈ C.inputs → C.net kn.2 = some kn.1 ∧ kn.2 ∉ C.targets ∧ kn.2 ≠ C.clk ∧ (∀ R, R ∈ C.regs → R.leaf.q ≠ kn.1) ∧
    ∀ nk, nk ∈ C.table → nk.2 ≠ kn.1 ∨ nk.1 ∈ C.targets ∨ nk.1 = kn.2
  all_driven : ∀ nk, nk ∈ C.table → nk.1 ∈ C.targets ∨ (nk.2, nk.1) ∈ C.inputs ∨ ∃ R, R ∈ C.regs ∧ nk.1 = R.pfx ++ "rq"

theorem ok_of_check (h : C.check = true) : C.OK := by
  simp only [check, checks, List.all_cons, List.all_nil, Bool.and_true, Bool.and_eq_true, decide_eq_true_eq] at h
  obtain ⟨⟨h1a, h1b⟩, h2, ⟨h3a, h3b⟩, h4, h5, h6, h7, h8, h9, ⟨⟨h10a, _⟩, h10c⟩, ⟨h11a, h11b⟩, h12, h13⟩ := h
  refine ⟨h1a, ?_, ?_, List.isPerm_iff.mp h3a, acycb_sound _ h3b, ?_, List.isPerm_iff.mp h5, h6, ?_, ?_, h9, ?_, h10c, h11a, ?_, ?_, ?_⟩
  · intro at_ hat; exact List.all_eq_true.mp h1b at_ hat
  · intro a ha; exact List.all_eq_true.mp h2 a ha
  · intro nk hnk
    have := List.all_eq_true.mp h4 nk hnk
    simp only [Bool.or_eq_true, List.contains_eq_mem, decide_eq_true_eq, Bool.not_eq_true', decide_eq_false_iff_not] at this
    exact this
  · intro R hR
    have := List.all_eq_true.mp h7 R hR
    simp only [Bool.and_eq_true, beq_iff_eq, Bool.or_eq_true, Bool.not_eq_true', List.contains_eq_mem, decide_eq_true_eq,
      decide_eq_false_iff_not, bne_iff_ne, ne_eq, List.any_eq_true] at this
    obtain ⟨⟨⟨⟨⟨⟨⟨a1, a2⟩, a3⟩, a4⟩, a5⟩, a6⟩, a7⟩, cp, hcp, e⟩ := this
    refine ⟨a1, ?_, ?_, a4, a5, a6, a7, cp, hcp, e⟩
    · intro he; rcases a2 with h | h
      · rw [he] at h; cases h
      · exact h
    · intro hr; rcases a3 with h | h
      · rw [hr] at h; cases h
      · exact h
  · intro nk hnk
    have := List.all_eq_true.mp h8 nk hnk
    simp only [Bool.or_eq_true, List.contains_eq_mem, decide_eq_true_eq, List.all_eq_true, bne_iff_ne, ne_eq, beq_iff_eq] at this
    exact this
  · simpa using h10a
  · intro nk hnk
    have := List.all_eq_true.mp h11b nk hnk
    simpa using this
  · intro kn hkn
    have := List.all_eq_true.mp h12 kn hkn
    simp only [Bool.and_eq_true, beq_iff_eq, Bool.not_eq_true', List.contains_eq_mem, decide_eq_false_iff_not, List.all_eq_true,
      bne_iff_ne, ne_eq, Bool.or_eq_true, decide_eq_true_eq] at this
    exact ⟨this.1.1.1.1, this.1.1.1.2, this.1.1.2, this.1.2, fun nk hnk => by rcases this.2 nk hnk with (h | h) | h <;> simp [h]⟩
  · intro nk hnk
    have := List.all_eq_true.mp h13 nk hnk
    simp only [Bool.or_eq_true, List.contains_eq_mem, decide_eq_true_eq, List.any_eq_true, beq_iff_eq] at this
    rcases this with (h | h) | ⟨R, hR, e⟩
    · exact Or.inl h
    · exact Or.inr (Or.inl h)
    · exact Or.inr (Or.inr ⟨R, hR, e⟩)

section Sound
variable {C}

theorem OK.perm_topo (h : C.OK) : C.assigns.Perm C.topo := by
  have := (h.vperm.map (fun i => C.assigns.getD i default)).symm
  have e := FlatDesign.range_map_getD C.assigns id
  simp only [id, List.map_id] at e
  rw [e] at this
  exact this

theorem mem_combDriven {c : CLeaf} (hc : c ∈ C.combs) {o : Nat} (ho : o ∈ c.outs.map (·.1)) : o ∈ C.combDriven := by
  unfold combDriven; rw [List.mem_flatMap]; exact ⟨c, hc, ho⟩

/-- **the certificate's text and netlist satisfy the hypotheses of the generic theorems** -/
theorem OK.seqCorr (h : C.OK) : SeqCorr C.netD C.flat C.topo C.regs C.net := by
  have hsched : C.netD.SchedOK := by
    refine ⟨topoCheckG_sound C.netD C.order (fun i hi => List.mem_range.mp (h.operm.mem_iff.mp hi)) h.otopo, ?_⟩
    intro i hi
    exact h.operm.mem_iff.mpr (List.mem_range.mpr hi)
  refine ⟨⟨h.perm_topo, h.vacyc, ?_, ?_⟩, hsched, rfl, rfl, ?_, ?_, ?_, ?_, ?_, ?_, h.q_nodup, ?_⟩
  · intro V hfix hV hg a ha
    obtain ⟨t, ht⟩ := zip_of_mem C.assigns C.tags h.tags_len a ha
    exact C.just_of_tag a t (h.tags_ok (a, t) ht) V hfix hV hg
  · intro n k hn hu c hc o ho e
    rcases h.undriven (n, k) (C.net_mem hn) with h1 | h1
    · exact hu h1
    · exact h1 (e ▸ mem_combDriven hc ho)
  · intro R hR; exact (h.regs R hR).1
  · intro R hR; exact (h.regs R hR).2.1
  · intro R hR; exact (h.regs R hR).2.2.1
  · intro R hR; exact (h.regs R hR).2.2.2.1
  · intro R hR; exact (h.regs R hR).2.2.2.2.1
  · intro n k hn hu R hR hq
    rcases h.rq_only (n, k) (C.net_mem hn) with h1 | h1
    · exact absurd h1 hu
    · rcases h1 R hR with h2 | h2
      · exact absurd hq h2
      · exact h2
  · intro R hR; exact (h.regs R hR).2.2.2.2.2.1

/-- the store declares exactly the signals of the flattened text -/
def DeclaredS (C : CertSrc) (info : String → Option SigInfo) : Prop :=
  ∀ n, info n = (C.sigW n).map fun w => ({ width := w } : SigInfo)

theorem OK.infoOK (h : C.OK) (r : Rd) (hd : C.DeclaredS r.info) : InfoOK C.netD C.flat.assigns C.net r := by
  constructor
  · intro a ha
    have := h.lhs a ha
    cases hl : a.1 with
    | lid n => exact ⟨rfl, rfl⟩
    | lidx n i => rw [hl] at this; simp [lhsOkb] at this
    | lrng n hi lo =>
      rw [hl] at this
      simp only [lhsOkb, Bool.and_eq_true, beq_iff_eq] at this
      have hw : widthOf r n = hi + 1 := by
        simp only [widthOf, hd n]
        cases hs : C.sigW n with
        | none => rw [hs] at this; simp at this ⊢; exact this.2
        | some w => rw [hs] at this; simp at this ⊢; exact this.2.symm
      constructor
      · simp only [resolve, hw, this.1, LHS.name]; simp
      · simp only [lhsWidth, hw, this.1, LHS.name]; omega
  · intro n k hn
    rw [hd n, h.sigs_tab (n, k) (C.net_mem hn)]
    rfl

theorem OK.isInput (h : C.OK) (kn : Nat × String) (hkn : kn ∈ C.inputs) : IsInput C.flat C.regs C.net kn.1 kn.2 := by
  obtain ⟨h1, h2, _, h3, h4⟩ := h.inputs kn hkn
  refine ⟨h1, h2, ?_, h3⟩
  intro n' hn' hu'
  rcases h4 (n', kn.1) (C.net_mem hn') with h5 | h5 | h5
  · exact absurd rfl h5
  · exact absurd h5 hu'
  · exact h5

end Sound
end CertSrc
end FlatM
