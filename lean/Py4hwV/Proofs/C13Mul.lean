import Py4hwV.Proofs.C13Conv
/-
  C13 — helper development for FPMult_SP.
-/
set_option linter.unusedSimpArgs false
namespace C13
open Lib Lib.Fp Lib.LSpec FpSpec

theorem sub8g (a b : Nat) (hb : b ≤ a + 256) : Leaf.sub 8 a b = (a + 256 - b) % 256 := by
  unfold Leaf.sub Bits.put
  simp only [Int.reducePow]
  omega

/-- FPMult_SP on operands with non-zero exponent fields, as arithmetic on the fields -/
theorem fpmul_eq (a b : Nat) (ha : 1 ≤ expOf a) (hb : 1 ≤ expOf b) :
    let P := (2^23 + fracOf a) * (2^23 + fracOf b)
    let E := expOf a + expOf b
    fpmul a b = b2n (decide (signOf a = 1) ^^ decide (signOf b = 1)) * 2^31 +
      ((if P / 2^47 % 2 = 1 then (E + 130) % 256 else ((E + 130) % 256 + 255) % 256) * 2^23 +
       (if P / 2^47 % 2 = 1 then P / 2^24 % 2^23 else P / 2^23 % 2^23)) := by
  intro P E
  have hea := expOf_lt a
  have heb := expOf_lt b
  have hfa := fracOf_lt a
  have hfb := fracOf_lt b
  unfold fpmul
  rw [parts_eq, parts_eq]
  simp only [partsRaw, range_e]
  have hda : decide (expOf a ≠ 0) = true := by simp; omega
  have hdb : decide (expOf b ≠ 0) = true := by simp; omega
  simp only [hda, hdb, show b2n true = 1 from rfl, Nat.one_mul]
  rw [b2n_of_lt2 (signOf a) (signOf_lt a), b2n_of_lt2 (signOf b) (signOf_lt b), C08.xor2_bool]
  have hb2 : ∀ x : Bool, (b2n x = 1) = (x = true) := fun x => by cases x <;> decide
  simp only [hb2, decide_eq_true_eq]
  have hP : P < 2^48 := by
    show (2^23 + fracOf a) * (2^23 + fracOf b) < 2^48
    have : (2^23 + fracOf a) * (2^23 + fracOf b) < 2^24 * 2^24 :=
      Nat.mul_lt_mul'' (by simp only [Nat.reducePow] at *; omega) (by simp only [Nat.reducePow] at *; omega)
    simpa using this
  have hmul : Lib.mul 48 (2 ^ 23 + fracOf a) (2 ^ 23 + fracOf b) = P := by
    show ((2 ^ 23 + fracOf a) * (2 ^ 23 + fracOf b)) % 2^48 = P
    exact Nat.mod_eq_of_lt hP
  have hadd : (Lib.add 9 0 (expOf a) (expOf b) none).1 = E := by
    rw [C07.add_spec 9 0 _ _ none (by decide)]
    show (expOf a + expOf b + 0) % 2^9 = expOf a + expOf b
    simp only [Nat.reducePow] at *; omega
  rw [hmul, hadd]
  have he2 : Leaf.sub 8 E (Leaf.const 9 126) = (E + 130) % 256 := by
    rw [show Leaf.const 9 126 = 126 by decide, sub8g _ _ (by omega)]; omega
  have he3 : Leaf.sub 8 ((E + 130) % 256) (Leaf.const 9 1) = ((E + 130) % 256 + 255) % 256 := by
    rw [show Leaf.const 9 1 = 1 by decide, sub8g _ _ (by omega)]; omega
  rw [he2, he3]
  have hsel : Leaf.bit 1 P 47 = P / 2^47 % 2 := by
    simp only [Leaf.bit, Nat.shiftRight_eq_div_pow]; omega
  have hr2 : Leaf.range 23 P 46 24 = P / 2^24 % 2^23 := by
    simp only [Leaf.range, Nat.shiftRight_eq_div_pow, Nat.reduceSub, Nat.reduceAdd, Nat.mod_mod]
  have hr3 : Leaf.range 23 P 45 23 = P / 2^23 % 2^23 := by
    simp only [Leaf.range, Nat.shiftRight_eq_div_pow, Nat.reduceSub, Nat.reduceAdd, Nat.mod_mod]
  rw [hsel, hr2, hr3]
  have hsl : P / 2^47 % 2 < 2 := Nat.mod_lt _ (by decide)
  rw [C08.concatMSBF_spec 32 _ (by simp) (by
      intro wv hwv
      simp only [List.mem_cons, List.mem_nil_iff, or_false] at hwv
      rcases hwv with rfl | rfl | rfl
      · exact C08.b2n_lt _
      · simp only [Leaf.mux2]; split <;> exact Nat.mod_lt _ (by decide)
      · simp only [Leaf.mux2]; split <;> exact Nat.mod_lt _ (by decide))]
  simp only [LSpec.concatMSBF, List.map, List.sum_cons, List.sum_nil, Leaf.mux2, Nat.mod_mod]
  by_cases h : P / 2^47 % 2 = 1
  · simp only [h, if_true]
    simp only [Nat.reducePow, Nat.reduceAdd] ; omega
  · have h0 : P / 2^47 % 2 = 0 := by omega
    simp only [h0, Nat.zero_ne_one, if_false]
    simp only [Nat.reducePow, Nat.reduceAdd] ; omega

theorem pow_bound_lo (P p x n : Nat) (hP : P < 2^p) (h : 2^n ≤ P * 2^x) : n < p + x := by
  have h1 : P * 2^x < 2^p * 2^x := Nat.mul_lt_mul_of_pos_right hP (Nat.two_pow_pos x)
  rw [← Nat.pow_add] at h1
  exact (Nat.pow_lt_pow_iff_right (by decide)).mp (Nat.lt_of_le_of_lt h h1)

theorem pow_bound_hi (P p x n : Nat) (hP : 2^p ≤ P) (h : P * 2^x < 2^n) : p + x < n := by
  have h1 : 2^p * 2^x ≤ P * 2^x := Nat.mul_le_mul_right _ hP
  rw [← Nat.pow_add] at h1
  exact (Nat.pow_lt_pow_iff_right (by decide)).mp (Nat.lt_of_le_of_lt h1 h)

/-- truncating `P` to a multiple of `C`, scaled by `W`: error below `C·W` -/
theorem trunc_scaled (P C W : Nat) (hC : 0 < C) (hW : 0 < W) :
    P / C * (C * W) ≤ P * W ∧ P * W - P / C * (C * W) < C * W := by
  have h := Nat.div_add_mod P C
  have hr : P % C < C := Nat.mod_lt _ hC
  generalize P / C = q at *
  generalize P % C = r at *
  subst h
  have e : (C * q + r) * W = q * (C * W) + r * W := by
    rw [Nat.add_mul, Nat.mul_assoc, Nat.mul_left_comm]
  have hlt : r * W < C * W := Nat.mul_lt_mul_of_pos_right hr hW
  rw [e]
  omega

theorem natAbs_prod (a b : Nat) : (prod a b).natAbs = mag a * mag b := by
  unfold prod sval
  split <;> split <;> simp [Int.natAbs_mul, Int.natAbs_neg]

/-- sign algebra: the product of the signed values against a result of sign `sa xor sb` -/
theorem signed_diff (sa sb : Bool) (A B R U : Nat) (h1 : R * 2^149 ≤ A * B) (h2 : A * B - R * 2^149 < U) :
    ((if (sa ^^ sb) then -(R : Int) else (R : Int)) * 2^149
      - (if sa then -(A : Int) else (A : Int)) * (if sb then -(B : Int) else (B : Int))).natAbs < U := by
  have c1 : ((R * 2^149 : Nat) : Int) ≤ ((A * B : Nat) : Int) := by exact_mod_cast h1
  have c2 : ((A * B : Nat) : Int) - ((R * 2^149 : Nat) : Int) < (U : Int) := by omega
  rw [Int.natCast_mul, Int.natCast_mul] at c1 c2
  simp only [Int.natCast_pow, Int.cast_ofNat_Int] at c1 c2
  generalize (A : Int) * (B : Int) = X at *
  cases sa <;> cases sb <;> simp only [Bool.xor_false, Bool.xor_true, Bool.false_xor, Bool.true_xor, Bool.not_false, Bool.not_true,
      if_true, if_false, Bool.false_eq_true, Int.neg_mul, Int.mul_neg, Int.neg_neg] <;> omega

theorem xor_sign (sa sb : Nat) (ha : sa < 2) (hb : sb < 2) :
    b2n (decide (sa = 1) ^^ decide (sb = 1)) = (sa + sb) % 2 := by
  have : sa = 0 ∨ sa = 1 := by omega
  have : sb = 0 ∨ sb = 1 := by omega
  rcases ‹sa = 0 ∨ sa = 1› with h | h <;> rcases ‹sb = 0 ∨ sb = 1› with h' | h' <;> subst h <;> subst h' <;> decide

/-- the multiplier's bound (`mulOk`, the property) together with the tightened one-sided statement (`mulTight`) -/
theorem fpmul_strong' (a b : Nat) (ha1 : 1 ≤ expOf a) (ha2 : expOf a ≤ 254) (hb1 : 1 ≤ expOf b) (hb2 : expOf b ≤ 254)
    (hp : prodNormal a b = true) : mulOk a b (fpmul a b) = true ∧ mulTight a b (fpmul a b) = true := by
  have hEq := fpmul_eq a b ha1 hb1
  simp only [] at hEq
  rw [hEq]; clear hEq
  have hfa := fracOf_lt a
  have hfb := fracOf_lt b
  -- the exact product
  unfold prodNormal at hp
  rw [natAbs_prod] at hp
  simp only [Bool.and_eq_true, decide_eq_true_eq] at hp
  have hAB : mag a * mag b = ((2^23 + fracOf a) * (2^23 + fracOf b)) * 2^(expOf a + expOf b - 2) := by
    unfold mag mant
    rw [show expOf a + expOf b - 2 = (expOf a - 1) + (expOf b - 1) by omega, Nat.pow_add, Nat.mul_mul_mul_comm]
  have hPlo : 2^46 ≤ (2^23 + fracOf a) * (2^23 + fracOf b) := by
    have : 2^23 * 2^23 ≤ (2^23 + fracOf a) * (2^23 + fracOf b) := Nat.mul_le_mul (by omega) (by omega)
    simpa using this
  have hPhi : (2^23 + fracOf a) * (2^23 + fracOf b) < 2^48 := by
    have : (2^23 + fracOf a) * (2^23 + fracOf b) < 2^24 * 2^24 :=
      Nat.mul_lt_mul'' (by simp only [Nat.reducePow] at *; omega) (by simp only [Nat.reducePow] at *; omega)
    simpa using this
  generalize hPdef : (2^23 + fracOf a) * (2^23 + fracOf b) = P at *
  generalize hEdef : expOf a + expOf b = E at *
  have hE2 : 2 ≤ E := by omega
  rw [hAB] at hp
  obtain ⟨hp1, hp2⟩ := hp
  have hW : 0 < 2^(E - 2) := Nat.two_pow_pos _
  have hsb : b2n (decide (signOf a = 1) ^^ decide (signOf b = 1)) < 2 := C08.b2n_lt _
  by_cases hsel : P / 2^47 % 2 = 1
  · -- product in [2,4): 1-bit normalisation taken
    have hP47 : 2^47 ≤ P := by clear hp1 hp2; omega
    have lo := pow_bound_lo P 48 (E - 2) 172 hPhi hp1
    have hi := pow_bound_hi P 47 (E - 2) 426 hP47 hp2
    have her : (E + 130) % 256 = E - 126 := by omega
    simp only [hsel, if_true, her]
    have hfr : P / 2^24 % 2^23 < 2^23 := Nat.mod_lt _ (by decide)
    obtain ⟨w1, w2, w3, w4⟩ := fields_of_word _ (E - 126) _ hsb (by simp only [Nat.reducePow]; omega) hfr
    generalize b2n (decide (signOf a = 1) ^^ decide (signOf b = 1)) * 2 ^ 31 + ((E - 126) * 2 ^ 23 + P / 2 ^ 24 % 2 ^ 23) = r at *
    have hnr : normal r = true := by
      unfold normal
      simp only [Bool.and_eq_true, decide_eq_true_eq]
      exact ⟨⟨w1, by omega⟩, by omega⟩
    unfold mulOk mulTight
    rw [hnr]
    simp only [Bool.and_eq_true, decide_eq_true_eq, Bool.true_and]
    have hmant : mant r = P / 2^24 := by
      unfold mant; rw [w4]; clear hp1 hp2; omega
    have hU : 2^(E - 126 - 1) * 2^149 = 2^24 * 2^(E - 2) := by
      have e : E - 126 - 1 + 149 = 24 + (E - 2) := by omega
      exact (Nat.pow_add 2 _ 149).symm.trans ((congrArg (fun k => 2 ^ k) e).trans (Nat.pow_add 2 24 _))
    obtain ⟨t1, t2⟩ := trunc_scaled P (2^24) (2^(E - 2)) (by decide) hW
    have hR : mag r * 2^149 = P / 2^24 * (2^24 * 2^(E - 2)) := by
      unfold mag; rw [hmant, w3, Nat.mul_assoc, hU]
    have key := signed_diff (decide (signOf a = 1)) (decide (signOf b = 1)) (mag a) (mag b) (mag r) (ulp r * 2^149)
      (by rw [hR, hAB]; exact t1) (by rw [hR, hAB]; unfold ulp; rw [w3, hU]; exact t2)
    unfold prod
    have sr : sval r = if (decide (signOf a = 1) ^^ decide (signOf b = 1)) then -(mag r : Int) else (mag r : Int) := by
      unfold sval; rw [w2]
      cases h1 : decide (signOf a = 1) <;> cases h2 : decide (signOf b = 1) <;> rfl
    have sa : sval a = if decide (signOf a = 1) then -(mag a : Int) else (mag a : Int) := by
      unfold sval; by_cases h : signOf a = 1 <;> simp [h]
    have sb : sval b = if decide (signOf b = 1) then -(mag b : Int) else (mag b : Int) := by
      unfold sval; by_cases h : signOf b = 1 <;> simp [h]
    refine ⟨?_, ⟨⟨?_, ?_⟩, ?_⟩⟩
    · rw [sr, sa, sb]
      exact key
    · rw [w2]; exact xor_sign _ _ (signOf_lt a) (signOf_lt b)
    · rw [hR, hAB]; exact t1
    · rw [hR, hAB]; unfold ulp; rw [w3, hU]; exact t2
  · -- product in [1,2)
    have hP47 : P < 2^47 := by clear hp1 hp2; omega
    have lo := pow_bound_lo P 47 (E - 2) 172 hP47 hp1
    have hi := pow_bound_hi P 46 (E - 2) 426 hPlo hp2
    have her : ((E + 130) % 256 + 255) % 256 = E - 127 := by omega
    simp only [hsel, if_false, her]
    have hfr : P / 2^23 % 2^23 < 2^23 := Nat.mod_lt _ (by decide)
    obtain ⟨w1, w2, w3, w4⟩ := fields_of_word _ (E - 127) _ hsb (by simp only [Nat.reducePow]; omega) hfr
    generalize b2n (decide (signOf a = 1) ^^ decide (signOf b = 1)) * 2 ^ 31 + ((E - 127) * 2 ^ 23 + P / 2 ^ 23 % 2 ^ 23) = r at *
    have hnr : normal r = true := by
      unfold normal
      simp only [Bool.and_eq_true, decide_eq_true_eq]
      exact ⟨⟨w1, by omega⟩, by omega⟩
    unfold mulOk mulTight
    rw [hnr]
    simp only [Bool.and_eq_true, decide_eq_true_eq, Bool.true_and]
    have hmant : mant r = P / 2^23 := by
      unfold mant; rw [w4]; clear hp1 hp2; omega
    have hU : 2^(E - 127 - 1) * 2^149 = 2^23 * 2^(E - 2) := by
      have e : E - 127 - 1 + 149 = 23 + (E - 2) := by omega
      exact (Nat.pow_add 2 _ 149).symm.trans ((congrArg (fun k => 2 ^ k) e).trans (Nat.pow_add 2 23 _))
    obtain ⟨t1, t2⟩ := trunc_scaled P (2^23) (2^(E - 2)) (by decide) hW
    have hR : mag r * 2^149 = P / 2^23 * (2^23 * 2^(E - 2)) := by
      unfold mag; rw [hmant, w3, Nat.mul_assoc, hU]
    have key := signed_diff (decide (signOf a = 1)) (decide (signOf b = 1)) (mag a) (mag b) (mag r) (ulp r * 2^149)
      (by rw [hR, hAB]; exact t1) (by rw [hR, hAB]; unfold ulp; rw [w3, hU]; exact t2)
    unfold prod
    have sr : sval r = if (decide (signOf a = 1) ^^ decide (signOf b = 1)) then -(mag r : Int) else (mag r : Int) := by
      unfold sval; rw [w2]
      cases h1 : decide (signOf a = 1) <;> cases h2 : decide (signOf b = 1) <;> rfl
    have sa : sval a = if decide (signOf a = 1) then -(mag a : Int) else (mag a : Int) := by
      unfold sval; by_cases h : signOf a = 1 <;> simp [h]
    have sb : sval b = if decide (signOf b = 1) then -(mag b : Int) else (mag b : Int) := by
      unfold sval; by_cases h : signOf b = 1 <;> simp [h]
    refine ⟨?_, ⟨⟨?_, ?_⟩, ?_⟩⟩
    · rw [sr, sa, sb]
      exact key
    · rw [w2]; exact xor_sign _ _ (signOf_lt a) (signOf_lt b)
    · rw [hR, hAB]; exact t1
    · rw [hR, hAB]; unfold ulp; rw [w3, hU]; exact t2


theorem fpmul_ulp' (a b : Nat) (ha1 : 1 ≤ expOf a) (ha2 : expOf a ≤ 254) (hb1 : 1 ≤ expOf b) (hb2 : expOf b ≤ 254)
    (hp : prodNormal a b = true) : mulOk a b (fpmul a b) = true := (fpmul_strong' a b ha1 ha2 hb1 hb2 hp).1

theorem xor2_comm1 (x y : Nat) : Lib.xor2 1 1 1 x y = Lib.xor2 1 1 1 y x := by
  unfold Lib.xor2 Lib.nand2 Leaf.and2
  simp only [Nat.and_comm x y]
  rw [Nat.and_comm (Leaf.not1 1 ((x &&& Leaf.not1 1 ((y &&& x) % 2 ^ 1)) % 2 ^ 1))]

theorem fpmul_comm' (a b : Nat) : fpmul a b = fpmul b a := by
  unfold fpmul
  simp only []
  rw [xor2_comm1, show Lib.mul 48 (parts a).m (parts b).m = Lib.mul 48 (parts b).m (parts a).m from by
        unfold Lib.mul Leaf.mul; rw [Nat.mul_comm],
      show Lib.add 9 0 (partsRaw a).2.1 (partsRaw b).2.1 none = Lib.add 9 0 (partsRaw b).2.1 (partsRaw a).2.1 none from by
        unfold Lib.add Leaf.addc; simp only [Nat.add_comm]]

end C13
