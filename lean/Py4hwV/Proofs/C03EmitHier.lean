import Py4hwV.Proofs.C03EmitFlat
import Py4hwV.Verilog.EmitMD
/-
  C03 — well-formedness of the model emitter's output for HIERARCHICAL designs (`C03Emit.HSrc.emit`, Verilog/EmitMD.lean).
  Helper development for Props/C03Emit.lean (`emit_wf_hier`).
-/
set_option linter.unusedSimpArgs false
set_option linter.unusedVariables false
namespace C03Emit
open V V.WF FlatM FlatM.FlatSrc

/-! ### identifiers and targets of the inline forms of `GKind` -/

theorem binChain_fold_ids (op : String) (xs : List String) (e : Expr) (S : List String) (he : ∀ n ∈ exprIds e, n ∈ S)
    (hx : ∀ x ∈ xs, x ∈ S) : ∀ n ∈ exprIds (xs.foldl (fun e y => Expr.bin op e (.id y)) e), n ∈ S := by
  induction xs generalizing e with
  | nil => exact he
  | cons y ys ih =>
    apply ih
    · intro n hn
      simp only [exprIds, List.mem_append, List.mem_singleton] at hn
      rcases hn with h | h
      · exact he n h
      · exact h ▸ hx y (by simp)
    · intro x hx'; exact hx x (List.mem_cons_of_mem _ hx')

theorem binChain_ids (op : String) (l : List String) : ∀ n ∈ exprIds (binChain op l), n ∈ l := by
  cases l with
  | nil => intro n hn; simp [binChain, lit, exprIds] at hn
  | cons x xs =>
    unfold binChain
    apply binChain_fold_ids
    · intro n hn; simp only [exprIds, List.mem_singleton] at hn; simp [hn]
    · intro y hy; exact List.mem_cons_of_mem _ hy

theorem bitsAssigns_targets (nm : Nat → String) (a : Nat) (bits : List Nat) :
    (bitsAssigns nm a bits).map (fun x => x.1.name) = bits.map nm := by
  unfold bitsAssigns
  split
  · rfl
  · rw [List.map_map]
    have : ((fun x : LHS × Expr => x.1.name) ∘ fun bi : Nat × Nat => ((LHS.lid (nm bi.1), Expr.idx (nm a) (lit bi.2)) : LHS × Expr)) =
        nm ∘ (fun bi : Nat × Nat => bi.1) := by funext bi; rfl
    rw [this, ← List.map_map, List.zipIdx_map_fst]

theorem bitsAssigns_ids (nm : Nat → String) (a : Nat) (bits : List Nat) :
    ∀ x ∈ bitsAssigns nm a bits, lhsIds x.1 = [x.1.name] ∧ ∀ n ∈ exprIds x.2, n = nm a := by
  intro x hx
  unfold bitsAssigns at hx
  split at hx
  · simp only [List.mem_singleton] at hx; subst hx
    exact ⟨rfl, by simp [exprIds]⟩
  · rcases List.mem_map.1 hx with ⟨bi, _, rfl⟩
    exact ⟨rfl, by simp [exprIds, lit]⟩

theorem gk_targets (wd : Nat → Nat) (nm : Nat → String) (k : GKind) :
    (k.assigns wd nm).map (fun x => x.1.name) = k.outs.map nm := by
  cases k with
  | prim p => simp [GKind.assigns, GKind.outs, Kind.assign, lhs_name]
  | nary op ins r ts mid => cases op <;> rfl
  | bitsL a bits => exact bitsAssigns_targets nm a bits
  | bitsM a bits => exact bitsAssigns_targets nm a bits
  | _ => rfl

theorem gk_ids (wd : Nat → Nat) (nm : Nat → String) (k : GKind) :
    ∀ x ∈ k.assigns wd nm, lhsIds x.1 = [x.1.name] ∧ ∀ n ∈ exprIds x.2, ∃ w ∈ k.ins wd, n = nm w := by
  intro x hx
  cases k with
  | prim p =>
    simp only [GKind.assigns, List.mem_singleton] at hx
    subst hx
    refine ⟨by simp [Kind.assign, lhs_ids, lhs_name], ?_⟩
    intro n hn
    exact rhs_ids wd nm p n hn
  | nary op ins r ts mid =>
    have key : ∀ n, (n ∈ exprIds (binChain "or" (ins.map nm)) ∨ n ∈ exprIds (binChain "and" (ins.map nm))) → ∃ w ∈ ins, n = nm w := by
      intro n hn
      have : n ∈ ins.map nm := by rcases hn with h | h <;> exact binChain_ids _ _ n h
      rcases List.mem_map.1 this with ⟨w, hw, rfl⟩
      exact ⟨w, hw, rfl⟩
    cases op <;> simp only [GKind.assigns, List.mem_singleton] at hx <;> subst hx <;> refine ⟨rfl, ?_⟩ <;> intro n hn
    · exact key n (.inr (by simpa [NOp.vop] using hn))
    · exact key n (.inl (by simpa [NOp.vop] using hn))
    · exact key n (.inl (by simpa [exprIds] using hn))
  | bitsL a bits =>
    have := bitsAssigns_ids nm a bits x hx
    exact ⟨this.1, fun n hn => ⟨a, by simp [GKind.ins], this.2 n hn⟩⟩
  | bitsM a bits =>
    have := bitsAssigns_ids nm a bits x hx
    exact ⟨this.1, fun n hn => ⟨a, by simp [GKind.ins], this.2 n hn⟩⟩
  | dm isMod a b r =>
    simp only [GKind.assigns, List.mem_singleton] at hx; subst hx
    refine ⟨rfl, ?_⟩
    intro n hn
    simp only [exprIds, List.mem_append, List.mem_singleton] at hn
    rcases hn with h | h <;> simp [GKind.ins, h]
  | nand2 a b r t =>
    simp only [GKind.assigns, List.mem_singleton] at hx; subst hx
    refine ⟨rfl, ?_⟩
    intro n hn
    simp only [exprIds, List.mem_append, List.mem_singleton] at hn
    rcases hn with h | h <;> simp [GKind.ins, h]
  | nor2 a b r t =>
    simp only [GKind.assigns, List.mem_singleton] at hx; subst hx
    refine ⟨rfl, ?_⟩
    intro n hn
    simp only [exprIds, List.mem_append, List.mem_singleton] at hn
    rcases hn with h | h <;> simp [GKind.ins, h]
  | xor2 a b r mid x' y m0 m1 m2 m3 =>
    simp only [GKind.assigns, List.mem_singleton] at hx; subst hx
    refine ⟨rfl, ?_⟩
    intro n hn
    simp only [exprIds, List.mem_append, List.mem_singleton] at hn
    rcases hn with h | h <;> simp [GKind.ins, h]
  | equal a b r xr mid x' y m0 m1 m2 m3 bits ts nmid =>
    simp only [GKind.assigns, List.mem_singleton] at hx; subst hx
    refine ⟨rfl, ?_⟩
    intro n hn
    simp only [exprIds, lit, List.mem_append, List.mem_singleton, List.append_nil, List.not_mem_nil, or_false] at hn
    rcases hn with h | h <;> simp [GKind.ins, h]
  | eqc a v r bits ns ts =>
    simp only [GKind.assigns, List.mem_singleton] at hx; subst hx
    refine ⟨rfl, ?_⟩
    intro n hn
    simp only [exprIds, lit, List.mem_append, List.mem_singleton, List.append_nil, List.not_mem_nil, or_false] at hn
    simp [GKind.ins, hn]

/-! ### facts of a checked structural module -/

structure MFacts (H : HSrc) (m : MD) : Prop where
  nets_nodup : m.nets.Nodup
  names_nodup : (m.nets.map m.nm).Nodup
  port_names : ∀ pk ∈ m.inputs ++ m.outputs, m.nm pk.2 = pk.1
  clk_fresh : m.hasClk = true → H.clk ∉ m.nets.map m.nm ∧ H.clk ∉ keywords
  in_scope : ∀ c ∈ m.children, ∀ k ∈ H.netsIn c, k ∈ m.nets
  single : (HSrc.driven m).Nodup
  all_driven : ∀ k ∈ m.outputs.map (·.2) ++ m.locals, k ∈ HSrc.driven m
  inputs_undriven : ∀ pk ∈ m.inputs, pk.2 ∉ HSrc.driven m
  inames_nodup : (HSrc.inames m).Nodup
  iname_ok : ∀ i ∈ HSrc.inames m, i ∉ keywords ∧ i ∉ m.nets.map m.nm ∧ (m.hasClk = true → i ≠ H.clk)
  net_kw : ∀ k ∈ m.nets, m.nm k ∉ keywords
  mname_kw : m.mname ∉ keywords
  refs : ∀ c ∈ m.children, H.refOK c = true

theorem isKeyword_eq_false (n : String) : isKeyword n = false ↔ n ∉ keywords := by simp [isKeyword]

theorem mfacts (H : HSrc) (m : MD) (h : H.mdOK m = true) : MFacts H m := by
  simp only [HSrc.mdOK, Bool.and_eq_true, decide_eq_true_eq, List.all_eq_true, beq_iff_eq, Bool.or_eq_true, Bool.not_eq_true',
    isKeyword_false, isKeyword_eq_false, bne_iff_ne, ne_eq] at h
  obtain ⟨⟨⟨⟨⟨⟨⟨⟨⟨⟨⟨⟨h1, h2⟩, h3⟩, h4⟩, h5⟩, h6⟩, h7⟩, h8⟩, h9⟩, h10⟩, h11⟩, h12⟩, h13⟩ := h
  refine ⟨h1, h2, h3, ?_, h5, h6, h7, h8, h9, ?_, h11, h12, h13⟩
  · intro hc
    rcases h4 with h | h
    · rw [hc] at h; cases h
    · exact h
  · intro i hi
    obtain ⟨⟨a, b⟩, c⟩ := h10 i hi
    refine ⟨a, b, ?_⟩
    intro hc
    rcases c with c | c
    · rw [hc] at c; cases c
    · exact c

/-! ### declarations and instance names of a structural module -/

def clkDeclH (H : HSrc) (m : MD) : List Decl := if m.hasClk then [{ name := H.clk, kind := .inp, width := 1 }] else []
def portDeclH (H : HSrc) (kd : WF.Kind) (pk : String × Nat) : Decl := { name := pk.1, kind := kd, width := H.wd pk.2 }
def localDeclH (H : HSrc) (m : MD) (k : Nat) : Decl := { name := m.nm k, kind := .wire, width := H.wd k }

theorem ciItems_decls (H : HSrc) (nm : Nat → String) (cs : List CI) : (cs.flatMap (H.ciItems nm)).flatMap itemDecls = [] := by
  rw [List.flatMap_eq_nil_iff]
  intro it hit
  rcases List.mem_flatMap.1 hit with ⟨c, _, hc⟩
  cases c with
  | kind k => simp only [HSrc.ciItems, List.mem_map] at hc; rcases hc with ⟨a, _, rfl⟩; rfl
  | reg r => simp only [HSrc.ciItems, List.mem_singleton] at hc; subst hc; rfl
  | sub s => simp only [HSrc.ciItems, List.mem_singleton] at hc; subst hc; rfl

theorem decls_md (H : HSrc) (m : MD) :
    decls (H.mdModule m) = clkDeclH H m ++ (m.inputs.map (portDeclH H .inp) ++ (m.outputs.map (portDeclH H .outNet) ++ m.locals.map (localDeclH H m))) := by
  unfold decls HSrc.mdModule HSrc.portList clkDeclH
  simp only [List.map_append, List.map_map, List.map_nil, List.nil_append, List.flatMap_append, ciItems_decls, List.append_nil,
    List.append_assoc]
  congr 1
  · split <;> rfl
  · congr 1
    congr 1
    rw [List.flatMap_map]
    simp only [itemDecls]
    induction m.locals with
    | nil => rfl
    | cons a l ih => simp [List.flatMap_cons, ih]; rfl

theorem declNames_md (H : HSrc) (m : MD) (F : MFacts H m) :
    declNames (H.mdModule m) = (if m.hasClk then [H.clk] else []) ++ m.nets.map m.nm := by
  unfold declNames
  rw [decls_md]
  simp only [List.map_append, List.map_map, MD.nets, clkDeclH]
  congr 1
  · split <;> rfl
  · congr 1
    · apply List.map_congr_left
      intro pk hpk
      exact (F.port_names pk (List.mem_append_left _ hpk)).symm
    · congr 1
      apply List.map_congr_left
      intro pk hpk
      exact (F.port_names pk (List.mem_append_right _ hpk)).symm

theorem instNames_md (H : HSrc) (m : MD) : instNames (H.mdModule m) = HSrc.inames m := by
  unfold instNames HSrc.mdModule HSrc.inames
  simp only [List.flatMap_append]
  have h1 : (m.locals.map fun k => Item.wire (m.nm k) (H.wd k)).flatMap itemInst = [] := by
    rw [List.flatMap_eq_nil_iff]; intro it hit; rcases List.mem_map.1 hit with ⟨c, _, rfl⟩; rfl
  rw [h1, List.nil_append]
  induction m.children with
  | nil => rfl
  | cons c cs ih =>
    rw [List.flatMap_cons, List.flatMap_append, ih, List.flatMap_cons]
    congr 1
    cases c with
    | kind k =>
      simp only [HSrc.ciItems, CI.inames]
      rw [List.flatMap_eq_nil_iff]; intro it hit; rcases List.mem_map.1 hit with ⟨a, _, rfl⟩; rfl
    | reg r => rfl
    | sub s => rfl

theorem names_md_nodup (H : HSrc) (m : MD) (F : MFacts H m) : (WF.names (H.mdModule m)).Nodup := by
  unfold WF.names
  rw [declNames_md H m F, instNames_md, List.nodup_append, List.nodup_append]
  refine ⟨⟨?_, F.names_nodup, ?_⟩, F.inames_nodup, ?_⟩
  · split <;> simp
  · intro a ha b hb e
    split at ha
    · rename_i hc
      simp only [List.mem_singleton] at ha
      subst ha; subst e
      exact (F.clk_fresh hc).1 hb
    · cases ha
  · intro a ha b hb e
    subst e
    have hi := F.iname_ok a hb
    rcases List.mem_append.1 ha with h | h
    · split at h
      · rename_i hc
        simp only [List.mem_singleton] at h
        exact hi.2.2 hc h
      · cases h
    · exact hi.2.1 h

theorem md_once (H : HSrc) (m : MD) (F : MFacts H m) : onceErrs (H.mdModule m) = [] := by
  rw [C03.onceErrs_nil]
  intro n hn
  exact count_eq_one_of_nodup (names_md_nodup H m F) hn

/-! ### identifiers used by a structural module -/

theorem hasClk_of_child (m : MD) (c : CI) (hc : c ∈ m.children) (h : c.hasClk = true) : m.hasClk = true := by
  unfold MD.hasClk
  rw [List.any_eq_true]
  exact ⟨c, hc, h⟩

theorem regConnsH_mem (nm : Nat → String) (clk : String) (r : RegSrc) (c : String × Expr) (hc : c ∈ HierSrc.regConnsH nm clk r) :
    c = ("clk", .id clk) ∨ c = ("d", .id (nm r.leaf.d)) ∨ (r.leaf.hasE = true ∧ c = ("e", .id (nm r.leaf.e))) ∨
    (r.leaf.hasR = true ∧ c = ("r", .id (nm r.leaf.r))) ∨ c = ("q", .id (nm r.leaf.q)) := by
  unfold HierSrc.regConnsH at hc
  cases hE : r.leaf.hasE <;> cases hR : r.leaf.hasR <;> simp [hE, hR] at hc <;> simp [hc] <;>
    (rcases hc with h | h | h | h | h <;> simp [h])

theorem subConns_mem (H : HSrc) (nm : Nat → String) (s : SubRef) (c : String × Expr) (hc : c ∈ H.subConns nm s) :
    (s.hasClk = true ∧ c = (H.clk, .id H.clk)) ∨ (∃ pk ∈ s.inputs, c = (pk.1, .id (nm pk.2))) ∨
    (∃ pk ∈ s.outputs, c = (pk.1, .id (nm pk.2))) := by
  unfold HSrc.subConns at hc
  simp only [List.mem_append, List.mem_map] at hc
  rcases hc with (h | ⟨pk, hpk, rfl⟩) | ⟨pk, hpk, rfl⟩
  · split at h
    · rename_i hs; simp only [List.mem_singleton] at h; exact .inl ⟨hs, h⟩
    · cases h
  · exact .inr (.inl ⟨pk, hpk, rfl⟩)
  · exact .inr (.inr ⟨pk, hpk, rfl⟩)

theorem uses_md (H : HSrc) (m : MD) (F : MFacts H m) (n : String) (hn : n ∈ uses (H.mdModule m)) :
    (n = H.clk ∧ m.hasClk = true) ∨ n ∈ m.nets.map m.nm := by
  simp only [uses, HSrc.mdModule, List.mem_flatMap, List.mem_append, List.mem_map] at hn
  obtain ⟨it, hit, hn⟩ := hn
  rcases hit with ⟨k, _, rfl⟩ | ⟨c, hc, hit⟩
  · simp [itemIds] at hn
  · have hscope := F.in_scope c hc
    cases c with
    | kind k =>
      simp only [HSrc.ciItems, List.mem_map] at hit
      obtain ⟨a, ha, rfl⟩ := hit
      have hids := gk_ids H.wd m.nm k a ha
      simp only [itemIds, hids.1, List.singleton_append, List.mem_cons] at hn
      right
      rcases hn with h | h
      · have : a.1.name ∈ (k.assigns H.wd m.nm).map (fun x => x.1.name) := List.mem_map.2 ⟨a, ha, rfl⟩
        rw [gk_targets] at this
        rcases List.mem_map.1 this with ⟨o, ho, e⟩
        exact List.mem_map.2 ⟨o, hscope o (by simp [HSrc.netsIn, ho]), by rw [h, e]⟩
      · obtain ⟨w, hw, e⟩ := hids.2 n h
        exact List.mem_map.2 ⟨w, hscope w (by simp [HSrc.netsIn, hw]), e.symm⟩
    | reg r =>
      simp only [HSrc.ciItems, List.mem_singleton] at hit
      subst hit
      simp only [itemIds, List.flatMap_nil, List.nil_append, List.mem_flatMap] at hn
      obtain ⟨cn, hcn, hn⟩ := hn
      have hclk := hasClk_of_child m _ hc (by rfl : (CI.reg r).hasClk = true)
      rcases regConnsH_mem _ _ r cn hcn with rfl | rfl | ⟨he, rfl⟩ | ⟨hr, rfl⟩ | rfl <;>
        simp only [exprIds, List.mem_singleton] at hn <;> subst hn
      · exact .inl ⟨rfl, hclk⟩
      · exact .inr (List.mem_map.2 ⟨_, hscope _ (by simp [HSrc.netsIn]), rfl⟩)
      · exact .inr (List.mem_map.2 ⟨_, hscope _ (by simp [HSrc.netsIn, he]), rfl⟩)
      · exact .inr (List.mem_map.2 ⟨_, hscope _ (by simp [HSrc.netsIn, hr]), rfl⟩)
      · exact .inr (List.mem_map.2 ⟨_, hscope _ (by simp [HSrc.netsIn]), rfl⟩)
    | sub s =>
      simp only [HSrc.ciItems, List.mem_singleton] at hit
      subst hit
      simp only [itemIds, List.flatMap_nil, List.nil_append, List.mem_flatMap] at hn
      obtain ⟨cn, hcn, hn⟩ := hn
      rcases subConns_mem H _ s cn hcn with ⟨hs, rfl⟩ | ⟨pk, hpk, rfl⟩ | ⟨pk, hpk, rfl⟩ <;>
        simp only [exprIds, List.mem_singleton] at hn <;> subst hn
      · exact .inl ⟨rfl, hasClk_of_child m _ hc hs⟩
      · exact .inr (List.mem_map.2 ⟨_, hscope _ (by simp [HSrc.netsIn]; exact .inl ⟨_, hpk⟩), rfl⟩)
      · exact .inr (List.mem_map.2 ⟨_, hscope _ (by simp [HSrc.netsIn]; exact .inr ⟨_, hpk⟩), rfl⟩)

theorem md_kw (H : HSrc) (m : MD) (F : MFacts H m) : kwErrs (H.mdModule m) = [] := by
  rw [C03.kwErrs_nil]
  intro n hn
  have key : (n = H.clk ∧ m.hasClk = true) ∨ n ∈ m.nets.map m.nm ∨ n ∈ HSrc.inames m := by
    rcases hn with hn | hn
    · unfold WF.names at hn
      rw [declNames_md H m F, instNames_md] at hn
      rcases List.mem_append.1 hn with h | h
      · rcases List.mem_append.1 h with h | h
        · split at h
          · rename_i hc; simp only [List.mem_singleton] at h; exact .inl ⟨h, hc⟩
          · cases h
        · exact .inr (.inl h)
      · exact .inr (.inr h)
    · rcases uses_md H m F n ((mem_uses _ _).2 hn) with h | h
      · exact .inl h
      · exact .inr (.inl h)
  rcases key with ⟨rfl, hc⟩ | h | h
  · exact (F.clk_fresh hc).2
  · rcases List.mem_map.1 h with ⟨k, hk, rfl⟩; exact F.net_kw k hk
  · exact (F.iname_ok n h).1

theorem md_decl (H : HSrc) (m : MD) (F : MFacts H m) : declErrs (H.mdModule m) = [] := by
  simp only [declErrs, flatMap_nil, need_decide_nil]
  intro n hn
  rw [declNames_md H m F]
  rcases uses_md H m F n hn with ⟨rfl, hc⟩ | h
  · simp [hc]
  · exact List.mem_append_right _ h

/-! ### module lookup in the emitted list, widths seen from a structural module -/

theorem toModule_name (H : HSrc) (x : ModD) : (H.toModule x).name = ModD.name x := by
  cases x <;> rfl

theorem lookup_emit (H : HSrc) (n : String) : lookup H.emit n = (H.first n).map H.toModule := by
  unfold HSrc.emit HSrc.first
  rw [dedup_find, List.find?_map]
  congr 1
  congr 1
  funext x
  simp [Function.comp, toModule_name]

theorem width_of_decl' (M : Module) (h : ((decls M).map (·.name)).Nodup) (d : Decl) (hd : d ∈ decls M) :
    widthOf (rdOf M) d.name = d.width := by
  unfold widthOf rdOf
  simp only
  rw [find?_of_nodup (fun x : Decl => x.name) h hd]
  rfl

theorem declNames_md_nodup (H : HSrc) (m : MD) (F : MFacts H m) : ((decls (H.mdModule m)).map (·.name)).Nodup := by
  have := names_md_nodup H m F
  unfold WF.names at this
  exact (List.nodup_append.1 this).1

theorem width_net_md (H : HSrc) (m : MD) (F : MFacts H m) (k : Nat) (hk : k ∈ m.nets) :
    widthOf (rdOf (H.mdModule m)) (m.nm k) = H.wd k := by
  have hnd := declNames_md_nodup H m F
  simp only [MD.nets, List.mem_append, List.mem_map] at hk
  rcases hk with ⟨pk, hpk, rfl⟩ | ⟨pk, hpk, rfl⟩ | hl
  · have hd : portDeclH H .inp pk ∈ decls (H.mdModule m) := by
      rw [decls_md]; simp only [List.mem_append, List.mem_map]; exact .inr (.inl ⟨pk, hpk, rfl⟩)
    have := width_of_decl' _ hnd _ hd
    rw [F.port_names pk (List.mem_append_left _ hpk)]
    exact this
  · have hd : portDeclH H .outNet pk ∈ decls (H.mdModule m) := by
      rw [decls_md]; simp only [List.mem_append, List.mem_map]; exact .inr (.inr (.inl ⟨pk, hpk, rfl⟩))
    have := width_of_decl' _ hnd _ hd
    rw [F.port_names pk (List.mem_append_right _ hpk)]
    exact this
  · have hd : localDeclH H m k ∈ decls (H.mdModule m) := by
      rw [decls_md]; simp only [List.mem_append, List.mem_map]; exact .inr (.inr (.inr ⟨k, hl, rfl⟩))
    exact width_of_decl' _ hnd _ hd

theorem width_clk_md (H : HSrc) (m : MD) (F : MFacts H m) (hc : m.hasClk = true) :
    widthOf (rdOf (H.mdModule m)) H.clk = 1 := by
  have hd : ({ name := H.clk, kind := .inp, width := 1 } : Decl) ∈ decls (H.mdModule m) := by
    rw [decls_md]; simp [clkDeclH, hc]
  exact width_of_decl' _ (declNames_md_nodup H m F) _ hd

/-! ### register instances (the register module of the C01 hierarchical model) -/

theorem hport_clk (wd : Nat → Nat) (r : RegSrc) : (sigOf (HierSrc.regModuleH wd r)).port "clk" = some ⟨.inp, 1, "clk"⟩ := rfl
theorem hport_d (wd : Nat → Nat) (r : RegSrc) : (sigOf (HierSrc.regModuleH wd r)).port "d" = some ⟨.inp, wd r.leaf.d, "d"⟩ := rfl
theorem hport_e (wd : Nat → Nat) (r : RegSrc) (h : r.leaf.hasE = true) :
    (sigOf (HierSrc.regModuleH wd r)).port "e" = some ⟨.inp, wd r.leaf.e, "e"⟩ := by
  rcases r with ⟨i, m, ⟨hR, hE, rv, d, e, rr, q⟩⟩
  simp only at h; subst h
  rfl
theorem hport_r (wd : Nat → Nat) (r : RegSrc) (h : r.leaf.hasR = true) :
    (sigOf (HierSrc.regModuleH wd r)).port "r" = some ⟨.inp, wd r.leaf.r, "r"⟩ := by
  rcases r with ⟨i, m, ⟨hR, hE, rv, d, e, rr, q⟩⟩
  simp only at h; subst h
  cases hE <;> rfl
theorem hport_q (wd : Nat → Nat) (r : RegSrc) : (sigOf (HierSrc.regModuleH wd r)).port "q" = some ⟨.out, wd r.leaf.q, "q"⟩ := by
  rcases r with ⟨i, m, ⟨hR, hE, rv, d, e, rr, q⟩⟩
  cases hE <;> cases hR <;> rfl

theorem hconn_once (nm : Nat → String) (clk : String) (r : RegSrc) :
    ∀ pn ∈ (HierSrc.regConnsH nm clk r).map (·.1), ((HierSrc.regConnsH nm clk r).map (·.1)).count pn = 1 := by
  rcases r with ⟨i, m, ⟨hR, hE, rv, d, e, rr, q⟩⟩
  cases hE <;> cases hR
  · show ∀ pn ∈ ["clk", "d", "q"], List.count pn ["clk", "d", "q"] = 1; decide
  · show ∀ pn ∈ ["clk", "d", "r", "q"], List.count pn ["clk", "d", "r", "q"] = 1; decide
  · show ∀ pn ∈ ["clk", "d", "e", "q"], List.count pn ["clk", "d", "e", "q"] = 1; decide
  · show ∀ pn ∈ ["clk", "d", "e", "r", "q"], List.count pn ["clk", "d", "e", "r", "q"] = 1; decide

theorem hinputs_conn (wd : Nat → Nat) (nm : Nat → String) (clk : String) (r : RegSrc) :
    ∀ pt ∈ (sigOf (HierSrc.regModuleH wd r)).ports, pt.dir = .inp → pt.name ∈ (HierSrc.regConnsH nm clk r).map (·.1) := by
  rcases r with ⟨i, m, ⟨hR, hE, rv, d, e, rr, q⟩⟩
  cases hE <;> cases hR <;>
  · intro pt hpt _
    simp [sigOf, HierSrc.regModuleH, psigOf, mkPort] at hpt
    simp [HierSrc.regConnsH]
    rcases hpt with rfl | rfl | rfl | rfl | rfl <;> simp

theorem hreg_conn_drivers (wd : Nat → Nat) (nm : Nat → String) (clk : String) (r : RegSrc) :
    (HierSrc.regConnsH nm clk r).flatMap (connDrivers (sigOf (HierSrc.regModuleH wd r))) = [(nm r.leaf.q, DK.inst)] := by
  rcases r with ⟨i, m, ⟨hR, hE, rv, d, e, rr, q⟩⟩
  cases hE <;> cases hR <;> rfl

theorem hregModule_once (wd : Nat → Nat) (r : RegSrc) : onceErrs (HierSrc.regModuleH wd r) = [] := by
  rcases r with ⟨i, m, ⟨hR, hE, rv, d, e, rr, q⟩⟩
  cases hR <;> cases hE <;> rfl

theorem hregModule_body (all : List Module) (wd : Nat → Nat) (r : RegSrc) : bodyErrs all (HierSrc.regModuleH wd r) = [] := by
  rcases r with ⟨i, m, ⟨hR, hE, rv, d, e, rr, q⟩⟩
  cases hR <;> cases hE <;> rfl

theorem lookup_reg_h (H : HSrc) (r : RegSrc) (h : H.refOK (.reg r) = true) :
    lookup H.emit r.mname = some (HierSrc.regModuleH H.wd r) := by
  rw [lookup_emit]
  simp only [HSrc.refOK] at h
  cases hf : H.first r.mname with
  | none => rw [hf] at h; cases h
  | some x =>
    rw [hf] at h
    cases x with
    | str m' => cases h
    | reg r' =>
      simp only [decide_eq_true_eq] at h
      simp [HSrc.toModule, h]

theorem inst_reg_h (H : HSrc) (m : MD) (F : MFacts H m) (r : RegSrc) (hc : CI.reg r ∈ m.children) :
    InstSigWF (rdOf (H.mdModule m)) (sigOf (HierSrc.regModuleH H.wd r)) [] (HierSrc.regConnsH m.nm H.clk r) := by
  have hscope := F.in_scope _ hc
  have hclk := hasClk_of_child m _ hc (by rfl : (CI.reg r).hasClk = true)
  have hd : r.leaf.d ∈ m.nets := hscope r.leaf.d (by simp [HSrc.netsIn])
  have hq : r.leaf.q ∈ m.nets := hscope r.leaf.q (by simp [HSrc.netsIn])
  have hE : r.leaf.hasE = true → r.leaf.e ∈ m.nets := fun he => hscope r.leaf.e (by simp [HSrc.netsIn, he])
  have hR' : r.leaf.hasR = true → r.leaf.r ∈ m.nets := fun he => hscope r.leaf.r (by simp [HSrc.netsIn, he])
  refine ⟨?_, hconn_once _ _ r, hinputs_conn _ _ _ r, by simp, by simp⟩
  intro c hcn
  rcases regConnsH_mem _ _ r c hcn with rfl | rfl | ⟨he, rfl⟩ | ⟨hR, rfl⟩ | rfl
  · exact ⟨_, hport_clk _ r, by simp [selfW, width_clk_md H m F hclk], fun h => absurd rfl h⟩
  · exact ⟨_, hport_d _ r, by simp [selfW, width_net_md H m F _ hd], fun h => absurd rfl h⟩
  · exact ⟨_, hport_e _ r he, by simp [selfW, width_net_md H m F _ (hE he)], fun h => absurd rfl h⟩
  · exact ⟨_, hport_r _ r hR, by simp [selfW, width_net_md H m F _ (hR' hR)], fun h => absurd rfl h⟩
  · exact ⟨_, hport_q _ r, by simp [selfW, width_net_md H m F _ hq], fun _ => ⟨.lid _, rfl⟩⟩

/-! ### instances of structural sub-modules -/

def subPorts (H : HSrc) (s : SubRef) : List PSig := (H.portList s.hasClk s.inputs s.outputs).map psigOf
def subSig (H : HSrc) (s : SubRef) : Sig := { params := [], ports := subPorts H s }
def subPortNames (H : HSrc) (s : SubRef) : List String :=
  (if s.hasClk then [H.clk] else []) ++ (s.inputs.map (·.1) ++ s.outputs.map (·.1))

theorem subPorts_eq (H : HSrc) (s : SubRef) :
    subPorts H s = (if s.hasClk then [(⟨.inp, 1, H.clk⟩ : PSig)] else []) ++
      ((s.inputs.map fun pk => (⟨.inp, H.wd pk.2, pk.1⟩ : PSig)) ++ (s.outputs.map fun pk => (⟨.out, H.wd pk.2, pk.1⟩ : PSig))) := by
  unfold subPorts HSrc.portList
  simp only [List.map_append, List.map_map, List.append_assoc]
  congr 1
  split <;> rfl

theorem subPorts_names (H : HSrc) (s : SubRef) : (subPorts H s).map (·.name) = subPortNames H s := by
  rw [subPorts_eq]
  unfold subPortNames
  simp only [List.map_append, List.map_map]
  congr 1
  split <;> rfl

theorem subConns_names (H : HSrc) (nm : Nat → String) (s : SubRef) : (H.subConns nm s).map (·.1) = subPortNames H s := by
  unfold HSrc.subConns subPortNames
  simp only [List.map_append, List.map_map, List.append_assoc]
  congr 1
  split <;> rfl

theorem sig_port_mem (prm : List String) (ps : List PSig) (h : (ps.map (·.name)).Nodup) (p : PSig) (hp : p ∈ ps) :
    Sig.port { params := prm, ports := ps } p.name = some p := by
  unfold Sig.port
  exact find?_of_nodup (fun x : PSig => x.name) h hp

theorem lookup_sub (H : HSrc) (s : SubRef) (h : H.refOK (.sub s) = true) :
    (∃ m', lookup H.emit s.mname = some (H.mdModule m') ∧ sigOf (H.mdModule m') = subSig H s) ∧ (subPortNames H s).Nodup := by
  simp only [HSrc.refOK, Bool.and_eq_true, decide_eq_true_eq] at h
  obtain ⟨h1, h2⟩ := h
  refine ⟨?_, h2⟩
  rw [lookup_emit]
  cases hf : H.first s.mname with
  | none => rw [hf] at h1; cases h1
  | some x =>
    rw [hf] at h1
    cases x with
    | reg r' => cases h1
    | str m' =>
      simp only [decide_eq_true_eq] at h1
      refine ⟨m', rfl, ?_⟩
      simp only [sigOf, HSrc.mdModule, subSig, subPorts, h1]

theorem inst_sub (H : HSrc) (m : MD) (F : MFacts H m) (s : SubRef) (hc : CI.sub s ∈ m.children) (hnd : (subPortNames H s).Nodup) :
    InstSigWF (rdOf (H.mdModule m)) (subSig H s) [] (H.subConns m.nm s) := by
  have hscope := F.in_scope _ hc
  have hnd' : ((subPorts H s).map (·.name)).Nodup := by rw [subPorts_names]; exact hnd
  have hin : ∀ pk ∈ s.inputs, pk.2 ∈ m.nets := fun pk hpk => hscope pk.2 (by simp only [HSrc.netsIn, List.mem_append, List.mem_map]; exact .inl ⟨pk, hpk, rfl⟩)
  have hout : ∀ pk ∈ s.outputs, pk.2 ∈ m.nets := fun pk hpk => hscope pk.2 (by simp only [HSrc.netsIn, List.mem_append, List.mem_map]; exact .inr ⟨pk, hpk, rfl⟩)
  refine ⟨?_, ?_, ?_, by simp, by simp⟩
  · intro c hcn
    rcases subConns_mem H _ s c hcn with ⟨hs, rfl⟩ | ⟨pk, hpk, rfl⟩ | ⟨pk, hpk, rfl⟩
    · have hp : (⟨.inp, 1, H.clk⟩ : PSig) ∈ subPorts H s := by rw [subPorts_eq]; simp [hs]
      have hclk := hasClk_of_child m _ hc (by simpa [CI.hasClk] using hs)
      exact ⟨_, sig_port_mem [] _ hnd' _ hp, by simp [selfW, width_clk_md H m F hclk], fun h => absurd rfl h⟩
    · have hp : (⟨.inp, H.wd pk.2, pk.1⟩ : PSig) ∈ subPorts H s := by
        rw [subPorts_eq]; simp only [List.mem_append, List.mem_map]; exact .inr (.inl ⟨pk, hpk, rfl⟩)
      exact ⟨_, sig_port_mem [] _ hnd' _ hp, by simp [selfW, width_net_md H m F _ (hin pk hpk)], fun h => absurd rfl h⟩
    · have hp : (⟨.out, H.wd pk.2, pk.1⟩ : PSig) ∈ subPorts H s := by
        rw [subPorts_eq]; simp only [List.mem_append, List.mem_map]; exact .inr (.inr ⟨pk, hpk, rfl⟩)
      exact ⟨_, sig_port_mem [] _ hnd' _ hp, by simp [selfW, width_net_md H m F _ (hout pk hpk)], fun _ => ⟨.lid _, rfl⟩⟩
  · intro pn hpn
    rw [subConns_names] at hpn ⊢
    exact count_eq_one_of_nodup hnd hpn
  · intro pt hpt _
    rw [subConns_names, ← subPorts_names]
    exact List.mem_map.2 ⟨pt, hpt, rfl⟩

theorem md_insts (H : HSrc) (m : MD) (F : MFacts H m) : (H.mdModule m).items.flatMap (instErrs H.emit (H.mdModule m)) = [] := by
  rw [flatMap_nil]
  intro it hit
  rw [C03.instErrs_nil]
  simp only [HSrc.mdModule, List.mem_append, List.mem_map, List.mem_flatMap] at hit
  rcases hit with ⟨k, _, rfl⟩ | ⟨c, hc, hit⟩
  · trivial
  · cases c with
    | kind k => simp only [HSrc.ciItems, List.mem_map] at hit; rcases hit with ⟨a, _, rfl⟩; trivial
    | reg r =>
      simp only [HSrc.ciItems, List.mem_singleton] at hit; subst hit
      exact ⟨_, lookup_reg_h H r (F.refs _ hc), inst_reg_h H m F r hc⟩
    | sub s =>
      simp only [HSrc.ciItems, List.mem_singleton] at hit; subst hit
      obtain ⟨⟨m', hl, hs⟩, hnd⟩ := lookup_sub H s (F.refs _ hc)
      exact ⟨_, hl, hs ▸ inst_sub H m F s hc hnd⟩

/-! ### R-drv for a structural module -/

def ciEntries (nm : Nat → String) (c : CI) : List (String × DK) := c.outs.map fun o => (nm o, c.dk)

theorem sub_conn_drivers (H : HSrc) (nm : Nat → String) (s : SubRef) (hnd : (subPortNames H s).Nodup) :
    (H.subConns nm s).flatMap (connDrivers (subSig H s)) = s.outputs.map fun pk => (nm pk.2, DK.inst) := by
  have hnd' : ((subPorts H s).map (·.name)).Nodup := by rw [subPorts_names]; exact hnd
  unfold HSrc.subConns
  rw [List.flatMap_append, List.flatMap_append]
  have h1 : (if s.hasClk then [(H.clk, Expr.id H.clk)] else []).flatMap (connDrivers (subSig H s)) = [] := by
    cases hs : s.hasClk with
    | false => rfl
    | true =>
      have hp : (⟨.inp, 1, H.clk⟩ : PSig) ∈ subPorts H s := by rw [subPorts_eq]; simp [hs]
      have := sig_port_mem [] _ hnd' _ hp
      simp only [if_true, List.flatMap_cons, List.flatMap_nil, List.append_nil, connDrivers, asLvalue]
      show (match (subSig H s).port H.clk, some (LHS.lid H.clk) with
            | some pt, some l => if pt.dir = Dir.inp then [] else [(l.name, DK.inst)]
            | _, _ => []) = []
      unfold subSig; rw [this]
      rfl
  have h2 : (s.inputs.map fun pk => (pk.1, Expr.id (nm pk.2))).flatMap (connDrivers (subSig H s)) = [] := by
    rw [List.flatMap_eq_nil_iff]
    intro c hc
    rcases List.mem_map.1 hc with ⟨pk, hpk, rfl⟩
    have hp : (⟨.inp, H.wd pk.2, pk.1⟩ : PSig) ∈ subPorts H s := by
      rw [subPorts_eq]; simp only [List.mem_append, List.mem_map]; exact .inr (.inl ⟨pk, hpk, rfl⟩)
    have := sig_port_mem [] _ hnd' _ hp
    show (match (subSig H s).port pk.1, asLvalue (Expr.id (nm pk.2)) with
          | some pt, some l => if pt.dir = Dir.inp then [] else [(l.name, DK.inst)]
          | _, _ => []) = []
    unfold subSig; rw [this]
    rfl
  have h3 : (s.outputs.map fun pk => (pk.1, Expr.id (nm pk.2))).flatMap (connDrivers (subSig H s)) =
      s.outputs.map fun pk => (nm pk.2, DK.inst) := by
    rw [List.flatMap_map]
    apply flatMap_singleton_of
    intro pk hpk
    have hp : (⟨.out, H.wd pk.2, pk.1⟩ : PSig) ∈ subPorts H s := by
      rw [subPorts_eq]; simp only [List.mem_append, List.mem_map]; exact .inr (.inr ⟨pk, hpk, rfl⟩)
    have := sig_port_mem [] _ hnd' _ hp
    show (match (subSig H s).port pk.1, asLvalue (Expr.id (nm pk.2)) with
          | some pt, some l => if pt.dir = Dir.inp then [] else [(l.name, DK.inst)]
          | _, _ => []) = _
    unfold subSig; rw [this]
    rfl
  rw [h1, h2, h3]
  rfl

theorem ci_drivers (H : HSrc) (m : MD) (F : MFacts H m) (c : CI) (hc : c ∈ m.children) :
    (H.ciItems m.nm c).flatMap (itemDrivers H.emit) = ciEntries m.nm c := by
  cases c with
  | kind k =>
    simp only [HSrc.ciItems, ciEntries, CI.outs, CI.dk]
    rw [List.flatMap_map]
    have : ∀ a ∈ k.assigns H.wd m.nm, itemDrivers H.emit (Item.assign a.1 a.2) = [(a.1.name, DK.cont)] := fun _ _ => rfl
    rw [flatMap_singleton_of _ _ _ this]
    have h2 : (k.assigns H.wd m.nm).map (fun a => (a.1.name, DK.cont)) =
        ((k.assigns H.wd m.nm).map (fun x => x.1.name)).map (fun n => (n, DK.cont)) := by rw [List.map_map]; rfl
    rw [h2, gk_targets, List.map_map]
    rfl
  | reg r =>
    simp only [HSrc.ciItems, List.flatMap_cons, List.flatMap_nil, List.append_nil, itemDrivers, lookup_reg_h H r (F.refs _ hc),
      hreg_conn_drivers]
    rfl
  | sub s =>
    obtain ⟨⟨m', hl, hs⟩, hnd⟩ := lookup_sub H s (F.refs _ hc)
    simp only [HSrc.ciItems, List.flatMap_cons, List.flatMap_nil, List.append_nil, itemDrivers, hl, hs, sub_conn_drivers H m.nm s hnd]
    simp [ciEntries, CI.outs, CI.dk, List.map_map, Function.comp]

theorem drivers_md (H : HSrc) (m : MD) (F : MFacts H m) :
    drivers H.emit (H.mdModule m) = m.children.flatMap (ciEntries m.nm) := by
  unfold drivers HSrc.mdModule
  simp only [List.flatMap_append]
  have h1 : (m.locals.map fun k => Item.wire (m.nm k) (H.wd k)).flatMap (itemDrivers H.emit) = [] := by
    rw [List.flatMap_eq_nil_iff]; intro it hit; rcases List.mem_map.1 hit with ⟨c, _, rfl⟩; rfl
  rw [h1, List.nil_append, List.flatMap_assoc]
  have hcs : ∀ cs : List CI, (∀ c ∈ cs, c ∈ m.children) →
      cs.flatMap (fun c => (H.ciItems m.nm c).flatMap (itemDrivers H.emit)) = cs.flatMap (ciEntries m.nm) := by
    intro cs
    induction cs with
    | nil => intro _; rfl
    | cons c cs ih =>
      intro h
      rw [List.flatMap_cons, List.flatMap_cons, ci_drivers H m F c (h c (by simp)), ih (fun x hx => h x (List.mem_cons_of_mem _ hx))]
  exact hcs m.children (fun _ h => h)

theorem drvOf_append (a b : List (String × DK)) (n : String) : drvOf (a ++ b) n = drvOf a n ++ drvOf b n := by
  simp [drvOf, List.filter_append]

theorem outs_in_scope (H : HSrc) (m : MD) (F : MFacts H m) (c : CI) (hc : c ∈ m.children) : ∀ o ∈ c.outs, o ∈ m.nets := by
  intro o ho
  apply F.in_scope c hc
  cases c with
  | kind k => simp only [HSrc.netsIn, List.mem_append]; exact .inl ho
  | reg r => simp only [CI.outs, List.mem_singleton] at ho; subst ho; simp [HSrc.netsIn]
  | sub s => simp only [HSrc.netsIn, List.mem_append]; exact .inr ho

theorem entries_len (m : MD) (hn : (m.nets.map m.nm).Nodup) (d : DK) (os : List Nat) (hos : ∀ o ∈ os, o ∈ m.nets) (k : Nat)
    (hk : k ∈ m.nets) : (drvOf (os.map fun o => (m.nm o, d)) (m.nm k)).length = os.count k := by
  induction os with
  | nil => rfl
  | cons o os ih =>
    have ih' := ih (fun x hx => hos x (List.mem_cons_of_mem _ hx))
    simp only [drvOf, List.map_cons, List.filter_cons, List.length_map] at ih' ⊢
    rw [List.count_cons]
    by_cases e : o = k
    · simp [e, ih']
    · have : m.nm o ≠ m.nm k := fun h => e (inj_of_nodup_map m.nm hn (hos o (by simp)) hk h)
      simp [e, this, ih']

theorem md_drv_len (H : HSrc) (m : MD) (F : MFacts H m) (cs : List CI) (hcs : ∀ c ∈ cs, ∀ o ∈ c.outs, o ∈ m.nets) (k : Nat)
    (hk : k ∈ m.nets) : (drvOf (cs.flatMap (ciEntries m.nm)) (m.nm k)).length = (cs.flatMap CI.outs).count k := by
  induction cs with
  | nil => rfl
  | cons c cs ih =>
    rw [List.flatMap_cons, List.flatMap_cons, drvOf_append, List.length_append, List.count_append,
      ih (fun c hc => hcs c (List.mem_cons_of_mem _ hc))]
    congr 1
    exact entries_len m F.names_nodup c.dk c.outs (hcs c (by simp)) k hk

theorem md_drv_no_proc (m : MD) (cs : List CI) (n : String) : ∀ k ∈ drvOf (cs.flatMap (ciEntries m.nm)) n, k ≠ DK.proc := by
  intro k hk
  simp only [drvOf, List.mem_map, List.mem_filter, List.mem_flatMap, ciEntries] at hk
  obtain ⟨p, ⟨⟨c, _, o, _, rfl⟩, _⟩, rfl⟩ := hk
  cases c <;> simp [CI.dk]

theorem md_drv_clk (H : HSrc) (m : MD) (F : MFacts H m) (hc : m.hasClk = true) :
    drvOf (m.children.flatMap (ciEntries m.nm)) H.clk = [] := by
  simp only [drvOf, List.map_eq_nil_iff, List.filter_eq_nil_iff, List.mem_flatMap, ciEntries]
  rintro p ⟨c, hcm, hp⟩
  rcases List.mem_map.1 hp with ⟨o, ho, rfl⟩
  simp only [beq_iff_eq]
  intro e
  exact (F.clk_fresh hc).1 (e ▸ List.mem_map.2 ⟨o, outs_in_scope H m F c hcm o ho, rfl⟩)

theorem md_drivers (H : HSrc) (m : MD) (F : MFacts H m) :
    (decls (H.mdModule m)).flatMap (driverErrs (H.mdModule m).name (drivers H.emit (H.mdModule m))) = [] := by
  rw [flatMap_nil, drivers_md H m F]
  intro d hd
  rw [C03.driverErrs_nil]
  have hlen : ∀ k ∈ m.nets, (drvOf (m.children.flatMap (ciEntries m.nm)) (m.nm k)).length = (HSrc.driven m).count k := by
    intro k hk
    exact md_drv_len H m F m.children (outs_in_scope H m F) k hk
  have hone : ∀ k ∈ m.outputs.map (·.2) ++ m.locals, (drvOf (m.children.flatMap (ciEntries m.nm)) (m.nm k)).length = 1 := by
    intro k hk
    have hk' : k ∈ m.nets := by simp only [MD.nets, List.mem_append] at hk ⊢; exact .inr hk
    rw [hlen k hk']
    exact count_eq_one_of_nodup' F.single (F.all_driven k hk)
  rw [decls_md] at hd
  simp only [List.mem_append, List.mem_map] at hd
  rcases hd with h | ⟨pk, hpk, rfl⟩ | ⟨pk, hpk, rfl⟩ | ⟨k, hk, rfl⟩
  · unfold clkDeclH at h
    split at h
    · rename_i hc
      simp only [List.mem_singleton] at h
      subst h
      exact md_drv_clk H m F hc
    · cases h
  · show drvOf _ pk.1 = []
    rw [← F.port_names pk (List.mem_append_left _ hpk)]
    have hk' : pk.2 ∈ m.nets := by simp only [MD.nets, List.mem_append, List.mem_map]; exact .inl ⟨pk, hpk, rfl⟩
    have := hlen pk.2 hk'
    rw [List.count_eq_zero.2 (F.inputs_undriven pk hpk)] at this
    exact List.eq_nil_of_length_eq_zero this
  · show (drvOf _ pk.1).length = 1 ∧ _
    rw [← F.port_names pk (List.mem_append_right _ hpk)]
    exact ⟨hone pk.2 (by simp only [List.mem_append, List.mem_map]; exact .inl ⟨pk, hpk, rfl⟩), md_drv_no_proc m _ _⟩
  · exact ⟨hone k (by simp [hk]), md_drv_no_proc m _ _⟩

/-! ### assembling -/

theorem hemit_mem (H : HSrc) (M : Module) (hM : M ∈ H.emit) : ∃ x ∈ H.mods, M = H.toModule x := by
  unfold HSrc.emit at hM
  rcases List.mem_map.1 (dedup_mem _ _ hM) with ⟨x, hx, rfl⟩
  exact ⟨x, hx, rfl⟩

theorem hemit_header (H : HSrc) (h : H.okb = true) (M : Module) (hM : M ∈ H.emit) : headerErrs H.emit M = [] := by
  obtain ⟨x, hx, rfl⟩ := hemit_mem H M hM
  have hok := List.all_eq_true.1 h x hx
  unfold headerErrs
  rw [List.append_eq_nil_iff, C03.modErrs_nil]
  refine ⟨⟨count_eq_one_of_nodup (dedup_names_nodup _) (List.mem_map.2 ⟨_, hM, rfl⟩), ?_⟩, ?_⟩
  · cases x with
    | str m => exact (mfacts H m hok).mname_kw
    | reg r =>
      have : r.mname ∉ keywords := by simpa [HSrc.modOK, isKeyword_eq_false] using hok
      exact this
  · cases x with
    | str m => exact md_once H m (mfacts H m hok)
    | reg r => exact hregModule_once _ r

theorem hemit_body (H : HSrc) (h : H.okb = true) (M : Module) (hM : M ∈ H.emit) : bodyErrs H.emit M = [] := by
  obtain ⟨x, hx, rfl⟩ := hemit_mem H M hM
  have hok := List.all_eq_true.1 h x hx
  cases x with
  | str m =>
    have F := mfacts H m hok
    show bodyErrs H.emit (H.mdModule m) = []
    unfold bodyErrs
    rw [md_kw H m F, md_decl H m F, md_insts H m F, md_drivers H m F]
    rfl
  | reg r => exact hregModule_body _ _ r

theorem hemit_pdef (H : HSrc) (env : Env) (M : Module) (hM : M ∈ H.emit) : pdefErrs env M = [] := by
  obtain ⟨x, hx, rfl⟩ := hemit_mem H M hM
  cases x <;> rfl

end C03Emit
