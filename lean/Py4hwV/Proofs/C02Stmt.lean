import Py4hwV.Proofs.C02Main
/-
  C02, statement level: executing the translated always-block body (`V.exec`: blocking `=` updates the store at once,
  `<=` is queued) simulates executing the Python `clock()` body (`Tp.execD`: attribute/local assignment at once, `prepare`
  queued), for sequential classes, over ANY store that satisfies the get/set laws.
-/
namespace C02
open Tp

/-- what the proof needs from a Verilog store (satisfied by the functional store `FStore` below; `V.Store` of Verilog/Run.lean
    satisfies them for writes of the declared width, which is all `V.exec` performs) -/
structure Laws {σ : Type} (rd : σ → V.Rd) (wr : σ → V.Tgt → V.BV → σ) : Prop where
  info : ∀ s t v, (rd (wr s t v)).info = (rd s).info
  same : ∀ s n v, (rd (wr s (.whole n) v)).val n = v
  other : ∀ s n v k, k ≠ n → (rd (wr s (.whole n) v)).val k = (rd s).val k

def portWidth (c : ClassD) (w : String) : Nat := match c.port? w with | some p => p.width | none => 32

/-- the simulation relation between the Python object state and the Verilog procedural state -/
structure Rel {σ : Type} (c : ClassD) (rd : σ → V.Rd) (s : St) (x : V.Ex σ) : Prop where
  agree : Agree c (s.env c) (rd x.st)
  typed : ∀ n, (rd x.st).info n = typing c n
  attDom : ∀ k v, s.att k = some v → isState c k = true
  locDom : ∀ k v, s.loc k = some v →
    isState c k = false ∧ isPort c k = false ∧ lookup c.consts k = none ∧ lookup c.params k = none
  queue : x.nba = s.prep.map (fun p => (V.Tgt.whole p.1, (⟨portWidth c p.1, p.2.toNat, true⟩ : V.BV)))
  prepOK : ∀ w v, (w, v) ∈ s.prep → ∃ p, c.port? w = some p ∧ 0 ≤ v ∧ v.toNat < 2 ^ p.width

/-- the `match` subject on both sides -/
def SubjRel (sv : Option Int) (subj : Option V.BV) : Prop :=
  (sv = none ∧ subj = none) ∨ ∃ x w, sv = some x ∧ subj = some ⟨w, x.toNat, true⟩ ∧ inDom x = true ∧ x.toNat < 2 ^ w

theorem typedE {σ : Type} {c : ClassD} {rd : σ → V.Rd} {s : St} {x : V.Ex σ} (h : Rel c rd s x) (e : Expr) :
    Typed c (rd x.st) e := fun n _ => h.typed n

theorem env_loc (c : ClassD) (s : St) : (s.env c).loc = s.loc := rfl
theorem env_wire (c : ClassD) (s : St) : (s.env c).wire = s.wire := rfl
theorem env_par (c : ClassD) (s : St) : (s.env c).par = lookup c.params := rfl

theorem env_att_some {c : ClassD} {s : St} {k : String} {v : Int} (h : (s.env c).att k = some v) :
    s.att k = some v ∨ (s.att k = none ∧ lookup c.consts k = some v) := by
  simp only [St.env] at h
  split at h
  · left; rename_i v' hv; rw [hv]; exact h
  · right; rename_i hn; exact ⟨hn, h⟩

theorem assign_var (n : String) (e : V.Expr) : assignS Gen.TranspileOps.varAssign n e = .ba (.lid n) e := by
  simp [assignS, blocking, Gen.TranspileOps.varAssign]
theorem assign_sync (n : String) (e : V.Expr) : assignS Gen.TranspileOps.syncAssign n e = .nba (.lid n) e := by
  simp [assignS, blocking, Gen.TranspileOps.syncAssign]

theorem assign_async (n : String) (e : V.Expr) : assignS Gen.TranspileOps.asyncAssign n e = .ba (.lid n) e := by
  simp [assignS, blocking, Gen.TranspileOps.asyncAssign]

theorem widthOf_int {c : ClassD} {r : V.Rd} {n : String} (ht : r.info n = typing c n) (hp : isPort c n = false) :
    V.widthOf r n = 32 := by
  rw [widthOf_typed ht, isPort_false hp]

/-- effect of a blocking assignment of an in-domain value to an integer that is neither port, constant nor parameter -/
theorem rel_assign {σ : Type} {rd : σ → V.Rd} {wr : σ → V.Tgt → V.BV → σ} (L : Laws rd wr) {c : ClassD} {s : St} {x : V.Ex σ}
    (h : Rel c rd s x) (n : String) (v : Int) (hd : inDom v = true) (hp : isPort c n = false)
    (hpar : lookup c.params n = none) (s' : St)
    (hloc : (s'.loc = upd s.loc n v ∧ s'.att = s.att ∧ isState c n = false ∧ lookup c.consts n = none) ∨
            (s'.att = upd s.att n v ∧ s'.loc = s.loc ∧ isState c n = true))
    (hw : s'.wire = s.wire) (hq : s'.prep = s.prep) :
    Rel c rd s' { x with st := wr x.st (.whole n) ⟨32, v.toNat, true⟩ } := by
  have hother : ∀ k, k ≠ n → (rd (wr x.st (.whole n) ⟨32, v.toNat, true⟩)).val k = (rd x.st).val k :=
    fun k hk => L.other _ _ _ _ hk
  have hsame : (rd (wr x.st (.whole n) ⟨32, v.toNat, true⟩)).val n = ⟨32, v.toNat, true⟩ := L.same _ _ _
  have hne_of_port : ∀ k, isPort c k = true → k ≠ n := by
    intro k hk hkn; subst hkn; rw [hp] at hk; cases hk
  refine ⟨⟨?_, ?_, ?_, ?_, ?_⟩, ?_, ?_, ?_, ?_, ?_⟩
  · -- loc
    intro k v' hk hdv hpk
    rw [env_loc] at hk
    rcases hloc with ⟨hl, _, _, _⟩ | ⟨_, hl, hst⟩
    · rw [hl] at hk
      simp only [upd] at hk
      split at hk
      · rename_i hkn
        have : k = n := by simpa using hkn
        subst this
        simp only [Option.some.injEq] at hk; subst hk
        exact hsame
      · rename_i hkn
        have hkn' : k ≠ n := by simpa using hkn
        rw [hother k hkn']
        exact h.agree.loc k v' (by rw [env_loc]; exact hk) hdv hpk
    · rw [hl] at hk
      have hkn' : k ≠ n := by
        intro hkn; subst hkn
        have := (h.locDom k v' hk).1
        rw [hst] at this; cases this
      rw [hother k hkn']
      exact h.agree.loc k v' (by rw [env_loc]; exact hk) hdv hpk
  · -- att
    intro k v' hk hdv hpk hsc
    rcases hloc with ⟨_, ha, hst, hcn⟩ | ⟨ha, _, hst⟩
    · have hk' : (s.env c).att k = some v' := by simpa [St.env, ha] using hk
      have hkn' : k ≠ n := by
        intro hkn; subst hkn
        rcases env_att_some hk' with h1 | ⟨_, h2⟩
        · have := h.attDom k v' h1; rw [hst] at this; cases this
        · rw [hcn] at h2; cases h2
      rw [hother k hkn']
      exact h.agree.att k v' hk' hdv hpk hsc
    · by_cases hkn : k = n
      · subst hkn
        have : (s'.env c).att k = some v := by simp [St.env, ha, upd]
        rw [this] at hk
        simp only [Option.some.injEq] at hk; subst hk
        exact hsame
      · have hk' : (s.env c).att k = some v' := by
          simpa [St.env, ha, upd, hkn] using hk
        rw [hother k hkn]
        exact h.agree.att k v' hk' hdv hpk hsc
  · -- cst
    intro k v' kk hk hsk hck
    rcases hloc with ⟨_, ha, _, _⟩ | ⟨ha, _, hst⟩
    · have hk' : (s.env c).att k = some v' := by simpa [St.env, ha] using hk
      exact h.agree.cst k v' kk hk' hsk hck
    · have hkn : k ≠ n := by intro hkn; subst hkn; rw [hst] at hsk; cases hsk
      have hk' : (s.env c).att k = some v' := by
        simpa [St.env, ha, upd, hkn] using hk
      exact h.agree.cst k v' kk hk' hsk hck
  · -- par
    intro k v' hk hdv hpk
    rw [env_par] at hk
    have hkn : k ≠ n := by intro hkn; subst hkn; rw [hpar] at hk; cases hk
    rw [hother k hkn]
    exact h.agree.par k v' (by rw [env_par]; exact hk) hdv hpk
  · -- wire
    intro k v' p hk hpk
    rw [env_wire, hw] at hk
    have hkn : k ≠ n := hne_of_port k (by simp [isPort, hpk])
    rw [hother k hkn]
    exact h.agree.wire k v' p (by rw [env_wire]; exact hk) hpk
  · intro k; rw [L.info]; exact h.typed k
  · intro k v' hk
    rcases hloc with ⟨_, ha, _, _⟩ | ⟨ha, _, hst⟩
    · rw [ha] at hk; exact h.attDom k v' hk
    · rw [ha] at hk
      simp only [upd] at hk
      split at hk
      · rename_i hkn
        have : k = n := by simpa using hkn
        subst this; exact hst
      · exact h.attDom k v' hk
  · intro k v' hk
    rcases hloc with ⟨hl, _, hst, hcn⟩ | ⟨_, hl, _⟩
    · rw [hl] at hk
      simp only [upd] at hk
      split at hk
      · rename_i hkn
        have : k = n := by simpa using hkn
        subst this
        exact ⟨hst, hp, hcn, hpar⟩
      · exact h.locDom k v' hk
    · rw [hl] at hk; exact h.locDom k v' hk
  · show x.nba = _
    rw [hq]; exact h.queue
  · rw [hq]; exact h.prepOK

theorem maskW_range (w : Nat) (v : Int) : 0 ≤ maskW w v ∧ (maskW w v).toNat < 2 ^ w := by
  unfold maskW
  have hpos : (0 : Int) < ((2 ^ w : Nat) : Int) := by
    have : 0 < 2 ^ w := Nat.pos_of_ne_zero (by simp)
    omega
  have h1 := Int.emod_nonneg v (Int.ne_of_gt hpos)
  have h2 := Int.emod_lt_of_pos v hpos
  omega

theorem agree_wire_update {σ : Type} {rd : σ → V.Rd} {wr : σ → V.Tgt → V.BV → σ} (L : Laws rd wr) {c : ClassD} {s : St} {st : σ}
    (hA : Agree c (s.env c) (rd st)) (w : String) (p : PortD) (v : Int) (hp : c.port? w = some p) (h0 : 0 ≤ v)
    (hlt : v.toNat < 2 ^ p.width) :
    Agree c (({ s with wire := upd s.wire w v } : St).env c) (rd (wr st (.whole w) ⟨p.width, v.toNat, true⟩)) := by
  have hother : ∀ k, k ≠ w → (rd (wr st (.whole w) ⟨p.width, v.toNat, true⟩)).val k = (rd st).val k :=
    fun k hk => L.other _ _ _ _ hk
  have hpw : isPort c w = true := by simp [isPort, hp]
  have hne : ∀ k, isPort c k = false → k ≠ w := by
    intro k hk hkw; subst hkw; rw [hpw] at hk; cases hk
  refine ⟨?_, ?_, ?_, ?_, ?_⟩
  · intro k v' hk hd hpk
    rw [hother k (hne k hpk)]
    exact hA.loc k v' hk hd hpk
  · intro k v' hk hd hpk hsc
    rw [hother k (hne k hpk)]
    exact hA.att k v' hk hd hpk hsc
  · intro k v' kk hk hsk hck
    exact hA.cst k v' kk hk hsk hck
  · intro k v' hk hd hpk
    rw [hother k (hne k hpk)]
    exact hA.par k v' hk hd hpk
  · intro k v' p' hk hpk
    have hk' : upd s.wire w v k = some v' := hk
    simp only [upd] at hk'
    split at hk'
    · rename_i hkw
      have : k = w := by simpa using hkw
      subst this
      simp only [Option.some.injEq] at hk'; subst hk'
      rw [hp] at hpk
      simp only [Option.some.injEq] at hpk; subst hpk
      exact ⟨h0, hlt, L.same _ _ _⟩
    · rename_i hkw
      have hkw' : k ≠ w := by simpa using hkw
      rw [hother k hkw']
      exact hA.wire k v' p' hk' hpk

theorem port_assign {c : ClassD} {ρ : Env} {r : V.Rd} (hA : Agree c ρ r) (e : Expr) (ht : Typed c r e) (v : Int) (lw : Nat)
    (hok : okV c e = true) (he : evalD ρ e = some v) (hw : 32 ≤ max lw (V.selfW r (trE c e)) ∨ isGet e = true) :
    V.evalAssign r lw (trE c e) = ⟨lw, (maskW lw v).toNat, true⟩ := by
  unfold V.evalAssign
  have h := (trE_both hA e ht).1 v (max lw (V.selfW r (trE c e))) (V.isSg r (trE c e)) hok he hw (Nat.le_max_right _ _) (fun h => h)
  simp only [h, if_true]
  obtain ⟨m, rfl, _⟩ := dom_nat (evalD_inDom ρ e v he)
  unfold maskW
  rw [← Int.natCast_emod, Int.toNat_natCast, Int.toNat_natCast]

theorem int_assign {c : ClassD} {ρ : Env} {r : V.Rd} (hA : Agree c ρ r) (e : Expr) (ht : Typed c r e) (v : Int)
    (hok : okV c e = true) (he : evalD ρ e = some v) : V.evalAssign r 32 (trE c e) = ⟨32, v.toNat, true⟩ := by
  unfold V.evalAssign
  have h := (trE_both hA e ht).1 v (max 32 (V.selfW r (trE c e))) (V.isSg r (trE c e)) hok he
    (Or.inl (Nat.le_max_left _ _)) (Nat.le_max_right _ _) (fun h => h)
  simp only [h, if_true]
  rw [Nat.mod_eq_of_lt (by have := toNat_lt (evalD_inDom ρ e v he); omega)]

/-- value and bound of an `exact` self-determined position -/
theorem exact_fits {c : ClassD} {ρ : Env} {r : V.Rd} (hA : Agree c ρ r) (e : Expr) (ht : Typed c r e) (v : Int)
    (hok : okV c e = true) (hx : exact c e = true) (he : evalD ρ e = some v) :
    v.toNat < 2 ^ V.selfW r (trE c e) := by
  have hd := evalD_inDom ρ e v he
  by_cases hg : isGet e = true
  · cases e <;> simp [isGet] at hg
    rename_i n
    rw [okV] at hok
    obtain ⟨p, hp⟩ := isPort_true hok
    simp only [evalD] at he
    split at he
    · rename_i xv hxv
      split at he
      · simp only [Option.some.injEq] at he; subst he
        have := (hA.wire n xv p hxv hp).2.1
        simpa [trE, V.selfW, widthOf_typed (ht n (by simp [allNames])), hp] using this
      · simp at he
    · simp at he
  · have h32 : 32 ≤ V.selfW r (trE c e) := by
      rw [selfW_trE c r e ht]
      simp only [exact, Bool.or_eq_true, decide_eq_true_eq] at hx
      rcases hx with hl | h
      · rw [sw_nonport_leaf hl hok (by simpa using hg)]; exact Nat.le_refl _
      · exact h
    have := two31_lt _ h32
    have := toNat_lt hd
    omega

/-- Python side: once the guarded arm's constant matched, the later arms (different constants, no `case _`) do nothing -/
theorem later_noop (c : ClassD) (k : Int) : ∀ (rest : Stmt) (s s' : St), laterDistinct k rest = true →
    execD c (some k) rest s = some s' → s' = s := by
  intro rest
  induction rest with
  | arm v g body r _ ihr =>
    intro s s' hl he
    cases v with
    | const k' =>
      simp only [laterDistinct, Bool.and_eq_true] at hl
      have hne : (k' != k) = true := by simpa using hl.1
      simp only [execD, evalD] at he
      split at he
      · simp at he
      · rename_i pv hpv
        split at hpv
        · simp only [Option.some.injEq] at hpv; subst hpv
          have : (k == k') = false := by
            have : k' ≠ k := by simpa using hne
            simpa using (fun h => this h.symm)
          simp only [this, Bool.false_eq_true, if_false] at he
          exact ihr s s' hl.2 he
        · simp at hpv
    | _ => simp [laterDistinct] at hl
  | dflt b _ =>
    intro s s' hl he
    rw [laterDistinct] at hl
    cases b <;> simp [isSkipS] at hl
    simpa [execD] using he.symm
  | skip => intro s s' hl; simp [laterDistinct] at hl
  | seq a b _ _ => intro s s' hl; simp [laterDistinct] at hl
  | setLoc n e => intro s s' hl; simp [laterDistinct] at hl
  | setAttr n e => intro s s' hl; simp [laterDistinct] at hl
  | put w e => intro s s' hl; simp [laterDistinct] at hl
  | prep w e => intro s s' hl; simp [laterDistinct] at hl
  | ife cnd t e _ _ => intro s s' hl; simp [laterDistinct] at hl
  | mtch subj ch _ => intro s s' hl; simp [laterDistinct] at hl

/-- THE STATEMENT THEOREM (sequential bodies).  Executing the translated body on a Verilog procedural state related to the
    Python object state yields a related state: integers hold the Python values (blocking `=`  =  Python assignment), the
    non-blocking queue is the list of prepared values in program order (`<=`  =  `prepare`), nothing else is written. -/
theorem trS_sound_aux {σ : Type} {rd : σ → V.Rd} {wr : σ → V.Tgt → V.BV → σ} (L : Laws rd wr) (c : ClassD) (q : Bool) :
    ∀ (stmt : Stmt) (sv : Option Int) (subj : Option V.BV) (s s' : St) (x : V.Ex σ),
      okSg q c stmt = true → execD c sv stmt s = some s' → Rel c rd s x → SubjRel sv subj →
      Rel c rd s' (V.exec rd wr subj (trS c stmt) x) := by
  intro stmt
  induction stmt with
  | skip =>
    intro sv subj s s' x _ he hr _
    simp only [execD, Option.some.injEq] at he; subst he
    simpa [trS, V.exec] using hr
  | seq a b iha ihb =>
    intro sv subj s s' x hok he hr hs
    rw [okSg] at hok
    simp only [Bool.and_eq_true] at hok
    simp only [execD] at he
    split at he
    · rename_i s1 h1
      simp only [trS, V.exec]
      exact ihb sv subj s1 s' _ hok.2 he (iha sv subj s s1 x hok.1 h1 hr hs) hs
    · simp at he
  | setLoc n e =>
    intro sv subj s s' x hok he hr _
    rw [okSg] at hok
    simp only [Bool.and_eq_true, Bool.not_eq_eq_eq_not, Bool.not_true, Option.isNone_iff_eq_none] at hok
    obtain ⟨⟨⟨⟨hp, hst⟩, hcn⟩, hpar⟩, hokv⟩ := hok
    simp only [execD] at he
    split at he
    · rename_i v hv
      simp only [Option.some.injEq] at he; subst he
      have hd := evalD_inDom _ e v hv
      simp only [trS, hp, Bool.false_eq_true, if_false, assign_var, V.exec, V.resolve, V.lhsWidth]
      rw [widthOf_int (hr.typed n) hp, int_assign hr.agree e (typedE hr e) v hokv hv]
      exact rel_assign L hr n v hd hp hpar _ (Or.inl ⟨rfl, rfl, hst, hcn⟩) rfl rfl
    · simp at he
  | setAttr n e =>
    intro sv subj s s' x hok he hr _
    rw [okSg] at hok
    simp only [Bool.and_eq_true, Bool.not_eq_eq_eq_not, Bool.not_true, Option.isNone_iff_eq_none] at hok
    obtain ⟨⟨⟨⟨hst, hp⟩, hpar⟩, _⟩, hokv⟩ := hok
    simp only [execD] at he
    split at he
    · rename_i v hv
      simp only [Option.some.injEq] at he; subst he
      have hd := evalD_inDom _ e v hv
      simp only [trS, hp, Bool.false_eq_true, if_false, assign_var, V.exec, V.resolve, V.lhsWidth]
      rw [widthOf_int (hr.typed n) hp, int_assign hr.agree e (typedE hr e) v hokv hv]
      exact rel_assign L hr n v hd hp hpar _ (Or.inr ⟨rfl, rfl, hst⟩) rfl rfl
    · simp at he
  | put w e =>
    -- blocking `=` to the port register: immediate on both sides (Wire.put / blocking assignment)
    intro sv subj s s' x hok he hr _
    rw [okSg] at hok
    simp only [Bool.and_eq_true] at hok
    obtain ⟨⟨hout, hokv⟩, hwide⟩ := hok
    simp only [execD] at he
    split at he
    · rename_i v p hv hp
      simp only [Option.some.injEq] at he; subst he
      have hwo : V.widthOf (rd x.st) w = p.width := by rw [widthOf_typed (hr.typed w), hp]
      have hw' : 32 ≤ max p.width (V.selfW (rd x.st) (trE c e)) ∨ isGet e = true := by
        rw [selfW_trE c _ e (typedE hr e)]
        simp only [wideAssign, hp, Bool.or_eq_true, decide_eq_true_eq] at hwide
        rcases hwide with h | h
        · right; cases e <;> simp_all [isGet]
        · left; exact h
      simp only [trS, assign_async, V.exec, V.resolve, V.lhsWidth, hwo]
      rw [port_assign hr.agree e (typedE hr e) v p.width hokv hv hw']
      have hA := agree_wire_update L hr.agree w p (maskW p.width v) hp (maskW_range _ _).1 (maskW_range _ _).2
      exact ⟨hA, fun n => by rw [L.info]; exact hr.typed n, hr.attDom, hr.locDom, hr.queue, hr.prepOK⟩
    · simp at he
  | prep w e =>
    intro sv subj s s' x hok he hr _
    rw [okSg] at hok
    simp only [Bool.and_eq_true] at hok
    obtain ⟨⟨⟨hout, _⟩, hokv⟩, hwide⟩ := hok
    simp only [execD] at he
    split at he
    · rename_i v p hv hp
      simp only [Option.some.injEq] at he; subst he
      have hwo : V.widthOf (rd x.st) w = p.width := by rw [widthOf_typed (hr.typed w), hp]
      have hw' : 32 ≤ max p.width (V.selfW (rd x.st) (trE c e)) ∨ isGet e = true := by
        rw [selfW_trE c _ e (typedE hr e)]
        simp only [wideAssign, hp, Bool.or_eq_true, decide_eq_true_eq] at hwide
        rcases hwide with h | h
        · right; cases e <;> simp_all [isGet]
        · left; exact h
      simp only [trS, assign_sync, V.exec, V.resolve, V.lhsWidth, hwo]
      rw [port_assign hr.agree e (typedE hr e) v p.width hokv hv hw']
      refine ⟨hr.agree, hr.typed, hr.attDom, hr.locDom, ?_, ?_⟩
      · show x.nba ++ _ = _
        rw [hr.queue, List.map_append]
        simp [portWidth, hp]
      · intro w' v' hm
        simp only [List.mem_append, List.mem_singleton, Prod.mk.injEq] at hm
        rcases hm with hm | ⟨rfl, rfl⟩
        · exact hr.prepOK w' v' hm
        · exact ⟨p, hp, (maskW_range p.width v).1, (maskW_range p.width v).2⟩
    · simp at he
  | ife cnd t e iht ihe =>
    intro sv subj s s' x hok he hr hs
    rw [okSg] at hok
    simp only [Bool.and_eq_true] at hok
    simp only [execD] at he
    split at he
    · rename_i v hv
      have hc := (trE_both hr.agree cnd (typedE hr cnd)).2 v hok.1.1 hv
      simp only [trS, V.exec, hc]
      split at he
      · rename_i htv
        rw [htv]
        exact iht sv subj s s' x hok.1.2 he hr hs
      · rename_i htv
        have : Py.truthy v = false := by simpa using htv
        rw [this]
        exact ihe sv subj s s' x hok.2 he hr hs
    · simp at he
  | mtch subje ch ih =>
    intro sv subj s s' x hok he hr _
    rw [okSg] at hok
    simp only [Bool.and_eq_true] at hok
    simp only [execD] at he
    split at he
    · rename_i v hv
      simp only [trS, V.exec]
      have hval := exact_eval (typedE hr subje) (trE_both hr.agree subje (typedE hr subje)).1 hok.1.1 hok.1.2 v hv
        (V.isSg (rd x.st) (trE c subje)) (fun h => h)
      rw [hval]
      exact ih (some v) _ s s' x hok.2 he hr
        (Or.inr ⟨v, _, rfl, rfl, evalD_inDom _ subje v hv, exact_fits hr.agree subje (typedE hr subje) v hok.1.1 hok.1.2 hv⟩)
    · simp at he
  | arm v g body rest ihb ihr =>
    intro sv subj s s' x hok he hr hs
    rw [okSg] at hok
    simp only [Bool.and_eq_true] at hok
    obtain ⟨⟨⟨⟨hg, hokv⟩, hex⟩, hokb⟩, hokr⟩ := hok
    rcases hs with ⟨hsv, _⟩ | ⟨xv, w, hsv, hsubj, hdx, hfit⟩
    · subst hsv; simp [execD] at he
    · subst hsv; subst hsubj
      simp only [execD] at he
      split at he
      · simp at he
      · rename_i pv hpv
        have hdp := evalD_inDom _ v pv hpv
        have ht := typedE hr v
        have hsw := selfW_trE c (rd x.st) v ht
        -- the arm value, evaluated at m = max(subject width, own width), unsigned
        have hm : 32 ≤ max w (V.selfW (rd x.st) (trE c v)) ∨ isGet v = true := by
          by_cases hgv : isGet v = true
          · exact Or.inr hgv
          · left
            have : 32 ≤ V.selfW (rd x.st) (trE c v) := by
              rw [hsw]
              simp only [exact, Bool.or_eq_true, decide_eq_true_eq] at hex
              rcases hex with hl | h
              · rw [sw_nonport_leaf hl hokv (by simpa using hgv)]; exact Nat.le_refl _
              · exact h
            omega
        have hvv := (trE_both hr.agree v ht).1 pv (max w (V.selfW (rd x.st) (trE c v))) false hokv hpv hm
          (Nat.le_max_right _ _) (by simp)
        have hsvv : V.ext (max w (V.selfW (rd x.st) (trE c v))) false ⟨w, xv.toNat, true⟩ =
            ⟨max w (V.selfW (rd x.st) (trE c v)), xv.toNat, true⟩ := ext_port (Nat.le_max_left _ _) hfit
        have heq : (xv.toNat == pv.toNat) = (xv == pv) := by
          have h1 := (inDom_iff xv).1 hdx
          have h2 := (inDom_iff pv).1 hdp
          by_cases h : xv = pv
          · subst h; simp
          · have hne : xv.toNat ≠ pv.toNat := by omega
            have e1 : (xv.toNat == pv.toNat) = false := by simpa using hne
            have e2 : (xv == pv) = false := by simpa using h
            rw [e1, e2]
        cases g with
        | none =>
          simp only [trS, V.exec, hvv, hsvv, Bool.and_self, Bool.true_and, heq]
          split at he
          · rename_i hxe
            rw [hxe]
            simp only [if_true]
            exact ihb none none s s' x hokb he hr (Or.inl ⟨rfl, rfl⟩)
          · rename_i hxe
            have : (xv == pv) = false := by simpa using hxe
            rw [this]
            simp only [Bool.false_eq_true, if_false]
            exact ihr (some xv) _ s s' x hokr he hr (Or.inr ⟨xv, w, rfl, rfl, hdx, hfit⟩)
        | some ge =>
          -- guarded arm: emitted as `v: if (guard) body`; exact because no later arm can match (`laterDistinct`)
          simp only [guardOK, Bool.and_eq_true] at hg
          simp only [trS, V.exec, hvv, hsvv, Bool.and_self, Bool.true_and, heq]
          split at he
          · rename_i hxe
            rw [hxe]
            simp only [if_true]
            simp only at he
            split at he
            · rename_i gv hgv
              have hc := (trE_both hr.agree ge (typedE hr ge)).2 gv hg.1 hgv
              simp only [V.exec, hc]
              split at he
              · rename_i hgt
                rw [hgt]
                exact ihb none none s s' x hokb he hr (Or.inl ⟨rfl, rfl⟩)
              · rename_i hgt
                have hgf : Py.truthy gv = false := by simpa using hgt
                rw [hgf]
                -- Python goes on to the later arms, which cannot match: the state is unchanged, as in the Verilog
                cases v with
                | const k =>
                  have hpk : pv = k := by
                    simp only [evalD] at hpv
                    split at hpv <;> simp_all
                  have hxk : xv = k := by
                    have : xv = pv := by simpa using hxe
                    rw [this, hpk]
                  subst hxk
                  have := later_noop c xv rest s s' hg.2 he
                  subst this
                  simpa [V.exec] using hr
                | _ => simp at hg
            · simp at he
          · rename_i hxe
            have : (xv == pv) = false := by simpa using hxe
            rw [this]
            simp only [Bool.false_eq_true, if_false]
            exact ihr (some xv) _ s s' x hokr he hr (Or.inr ⟨xv, w, rfl, rfl, hdx, hfit⟩)
  | dflt body ih =>
    intro sv subj s s' x hok he hr _
    rw [okSg] at hok
    have hokb : okSg q c body = true := hok
    have he' : execD c none body s = some s' := by simpa [execD] using he
    simp only [trS, V.exec]
    exact ih none none s s' x hokb he' hr (Or.inl ⟨rfl, rfl⟩)

/-! ### one clock cycle: always-block body, then the non-blocking updates  =  clock(), then Wire.settleAll -/

/-- relation between two clock edges: no pending prepares, locals are dead -/
structure CRel {σ : Type} (c : ClassD) (rd : σ → V.Rd) (s : St) (st : σ) : Prop where
  agree : Agree c (s.env c) (rd st)
  typed : ∀ n, (rd st).info n = typing c n
  attDom : ∀ k v, s.att k = some v → isState c k = true
  noPrep : s.prep = []

def applyQ {σ : Type} (wr : σ → V.Tgt → V.BV → σ) (st : σ) (q : List (V.Tgt × V.BV)) : σ :=
  q.foldl (fun s tv => wr s tv.1 tv.2) st

theorem settle_agree {σ : Type} {rd : σ → V.Rd} {wr : σ → V.Tgt → V.BV → σ} (L : Laws rd wr) (c : ClassD) :
    ∀ (prep : List (String × Int)) (s : St) (st : σ), Agree c (s.env c) (rd st) →
      (∀ w v, (w, v) ∈ prep → ∃ p, c.port? w = some p ∧ 0 ≤ v ∧ v.toNat < 2 ^ p.width) →
      Agree c (({ s with wire := prep.foldl (fun f (p : String × Int) => upd f p.1 p.2) s.wire } : St).env c)
        (rd (applyQ wr st (prep.map (fun p => (V.Tgt.whole p.1, (⟨portWidth c p.1, p.2.toNat, true⟩ : V.BV)))))) := by
  intro prep
  induction prep with
  | nil => intro s st hA _; simpa [applyQ] using hA
  | cons hd tl ih =>
    intro s st hA hok
    obtain ⟨p, hp, h0, hlt⟩ := hok hd.1 hd.2 (by simp)
    have h1 := agree_wire_update L hA hd.1 p hd.2 hp h0 hlt
    have h2 := ih ({ s with wire := upd s.wire hd.1 hd.2 } : St) _ h1 (fun w v hm => hok w v (by simp [hm]))
    simpa [applyQ, portWidth, hp] using h2

theorem settle_eq (s : St) :
    settle s = { s with wire := s.prep.foldl (fun f (p : String × Int) => upd f p.1 p.2) s.wire, prep := [] } := by
  unfold settle
  congr

/-- ONE ACTIVATION of a translated body (bisimulation step), for ANY body of the sequential fragment: if the Python object and
    the Verilog store agree before, and the Python call stays in the domain, then after executing the translated body and applying
    its non-blocking updates the two agree again: same state variables, same port values. -/
theorem cycle_soundB {σ : Type} {rd : σ → V.Rd} {wr : σ → V.Tgt → V.BV → σ} (L : Laws rd wr) (c : ClassD) (q : Bool) (body : Stmt)
    (hok : okSg q c body = true) (s s1 : St) (st : σ) (hC : CRel c rd s st)
    (he : execD c none body { s with loc := fun _ => none } = some s1) :
    CRel c rd (settle s1)
      (applyQ wr (V.exec rd wr none (trS c body) ⟨st, []⟩).st (V.exec rd wr none (trS c body) ⟨st, []⟩).nba) := by
  have hR0 : Rel c rd ({ s with loc := fun _ => none } : St) (⟨st, []⟩ : V.Ex σ) := by
    refine ⟨⟨?_, ?_, ?_, ?_, ?_⟩, hC.typed, hC.attDom, ?_, ?_, ?_⟩
    · intro k v hk; simp [St.env] at hk
    · intro k v hk hd hp hs; exact hC.agree.att k v hk hd hp hs
    · intro k v kk hk hs hcn; exact hC.agree.cst k v kk hk hs hcn
    · intro k v hk hd hp; exact hC.agree.par k v hk hd hp
    · intro k v p hk hp; exact hC.agree.wire k v p hk hp
    · intro k v hk; simp at hk
    · simp [hC.noPrep]
    · intro w v hm; simp [hC.noPrep] at hm
  have hR := trS_sound_aux L c q body none none _ s1 _ hok he hR0 (Or.inl ⟨rfl, rfl⟩)
  rw [settle_eq, hR.queue]
  have hA := settle_agree L c s1.prep s1 _ hR.agree hR.prepOK
  refine ⟨?_, ?_, hR.attDom, rfl⟩
  · refine ⟨?_, ?_, ?_, ?_, ?_⟩
    · intro k v hk hd hp; exact hA.loc k v hk hd hp
    · intro k v hk hd hp hs; exact hA.att k v hk hd hp hs
    · intro k v kk hk hs hcn; exact hA.cst k v kk hk hs hcn
    · intro k v hk hd hp; exact hA.par k v hk hd hp
    · intro k v p hk hp; exact hA.wire k v p hk hp
  · intro n
    have : ∀ (q : List (V.Tgt × V.BV)) (st0 : σ), (rd (applyQ wr st0 q)).info = (rd st0).info := by
      intro q
      induction q with
      | nil => intro st0; rfl
      | cons hd tl ih => intro st0; simp only [applyQ, List.foldl] at *; rw [ih, L.info]
    rw [this]; exact hR.typed n

/-- ONE CLOCK CYCLE of a sequential class: always-block body + non-blocking updates = `clock()` + `Wire.settleAll` -/
theorem cycle_sound {σ : Type} {rd : σ → V.Rd} {wr : σ → V.Tgt → V.BV → σ} (L : Laws rd wr) (c : ClassD)
    (hseq : c.isSeq = true) (hok : okS c c.body = true) (s s1 : St) (st : σ) (hC : CRel c rd s st)
    (he : execD c none c.body { s with loc := fun _ => none } = some s1) :
    CRel c rd (settle s1)
      (applyQ wr (V.exec rd wr none (trS c c.body) ⟨st, []⟩).st (V.exec rd wr none (trS c c.body) ⟨st, []⟩).nba) := by
  have hok' : okSg true c c.body = true := by rw [okS, hseq] at hok; exact hok
  exact cycle_soundB L c true c.body hok' s s1 st hC he

/-! ### whole input histories -/

def vDrive {σ : Type} (wr : σ → V.Tgt → V.BV → σ) (c : ClassD) (st : σ) (asg : List (String × Int)) : σ :=
  asg.foldl (fun st (nv : String × Int) => match c.port? nv.1 with
    | some p => wr st (.whole nv.1) ⟨p.width, (maskW p.width nv.2).toNat, true⟩
    | none => st) st

def vCycle {σ : Type} (rd : σ → V.Rd) (wr : σ → V.Tgt → V.BV → σ) (c : ClassD) (st : σ) : σ :=
  applyQ wr (V.exec rd wr none (trS c c.body) ⟨st, []⟩).st (V.exec rd wr none (trS c c.body) ⟨st, []⟩).nba

def vRun {σ : Type} (rd : σ → V.Rd) (wr : σ → V.Tgt → V.BV → σ) (c : ClassD) : σ → List (List (String × Int)) → σ
  | st, [] => st
  | st, asg :: rest => vRun rd wr c (vCycle rd wr c (vDrive wr c st asg)) rest

theorem drive_crel {σ : Type} {rd : σ → V.Rd} {wr : σ → V.Tgt → V.BV → σ} (L : Laws rd wr) (c : ClassD) :
    ∀ (asg : List (String × Int)) (s : St) (st : σ), CRel c rd s st → CRel c rd (driveIn c s asg) (vDrive wr c st asg) := by
  intro asg
  induction asg with
  | nil => intro s st h; exact h
  | cons hd tl ih =>
    intro s st h
    simp only [driveIn, vDrive, List.foldl]
    cases hp : c.port? hd.1 with
    | none => exact ih s st h
    | some p =>
      have hA := agree_wire_update L h.agree hd.1 p (maskW p.width hd.2) hp (maskW_range _ _).1 (maskW_range _ _).2
      exact ih _ _ ⟨hA, fun n => by rw [L.info]; exact h.typed n, h.attDom, h.noPrep⟩

end C02
