import Py4hwV.Proofs.C02Stmt
/-
  C02, combinational bodies (`propagate()` -> `always @(*)`).
  Python's `put` takes effect at once, the emitted `<=` is queued and applied after the block.  In the fragment where no wire
  that the body puts is also read by it (complement = finding C02-read-after-put) the two are indistinguishable: the Python
  execution is replayed on a SHADOW state whose wires are frozen at their values before the call and whose puts are queued
  (`p2p`: put -> prepare), and the sequential bisimulation (`cycle_soundB`) applies to the shadow.
-/
namespace C02
open Tp

def p2p : Stmt → Stmt
  | .skip => .skip
  | .seq a b => .seq (p2p a) (p2p b)
  | .setLoc n e => .setLoc n e
  | .setAttr n e => .setAttr n e
  | .put w e => .prep w e
  | .prep w e => .prep w e
  | .ife cnd t e => .ife cnd (p2p t) (p2p e)
  | .mtch subj ch => .mtch subj (p2p ch)
  | .arm v g body rest => .arm v g (p2p body) (p2p rest)
  | .dflt body => .dflt (p2p body)

/-- `put` and `prepare` are the same Verilog text (generated tables `asyncAssign` = `syncAssign`) -/
theorem trS_p2p (c : ClassD) : ∀ stmt, trS c (p2p stmt) = trS c stmt := by
  intro stmt
  induction stmt with
  | skip => rfl
  | seq a b iha ihb => simp [p2p, trS, iha, ihb]
  | setLoc n e => rfl
  | setAttr n e => rfl
  | put w e => simp [p2p, trS, assignS, blocking, Gen.TranspileOps.asyncAssign, Gen.TranspileOps.syncAssign]
  | prep w e => rfl
  | ife cnd t e iht ihe => simp [p2p, trS, iht, ihe]
  | mtch subj ch ih => simp [p2p, trS, ih]
  | arm v g body rest ihb ihr => cases g <;> simp [p2p, trS, ihb, ihr]
  | dflt body ih => simp [p2p, trS, ih]

theorem isSkipS_p2p (b : Stmt) : isSkipS (p2p b) = isSkipS b := by cases b <;> rfl

theorem laterDistinct_p2p (k : Int) : ∀ stmt, laterDistinct k (p2p stmt) = laterDistinct k stmt := by
  intro stmt
  induction stmt with
  | arm v g body rest _ ihr => simp only [p2p, laterDistinct, ihr]
  | dflt b _ => simp only [p2p, laterDistinct, isSkipS_p2p]
  | _ => rfl

theorem guardOK_p2p (c : ClassD) (v : Expr) (g : Option Expr) (rest : Stmt) : guardOK c v g (p2p rest) = guardOK c v g rest := by
  cases g with
  | none => rfl
  | some ge => cases v <;> simp [guardOK, laterDistinct_p2p]

theorem okSg_p2p (c : ClassD) : ∀ stmt, okSg false c stmt = true → okSg true c (p2p stmt) = true := by
  intro stmt
  induction stmt with
  | skip => intro _; rfl
  | seq a b iha ihb =>
    intro h; rw [okSg] at h; simp only [Bool.and_eq_true] at h
    rw [p2p, okSg, iha h.1, ihb h.2]; rfl
  | setLoc n e => intro h; rw [okSg] at h; rw [p2p, okSg]; exact h
  | setAttr n e => intro h; rw [okSg] at h; simp at h
  | put w e =>
    intro h; rw [okSg] at h; simp only [Bool.and_eq_true, Bool.not_false] at h
    rw [p2p, okSg]; simp [h.1.1.1, h.1.2, h.2]
  | prep w e => intro h; rw [okSg] at h; simp at h
  | ife cnd t e iht ihe =>
    intro h; rw [okSg] at h; simp only [Bool.and_eq_true] at h
    rw [p2p, okSg, h.1.1, iht h.1.2, ihe h.2]; rfl
  | mtch subj ch ih =>
    intro h; rw [okSg] at h; simp only [Bool.and_eq_true] at h
    rw [p2p, okSg, h.1.1, h.1.2, ih h.2]; rfl
  | arm v g body rest ihb ihr =>
    intro h; rw [okSg] at h; simp only [Bool.and_eq_true] at h
    rw [p2p, okSg, guardOK_p2p, h.1.1.1.1, h.1.1.1.2, h.1.1.2, ihb h.1.2, ihr h.2]; rfl
  | dflt body ih => intro h; rw [okSg] at h; rw [p2p, okSg]; exact ih h

/-- evaluation only looks at the wires the expression reads -/
theorem evalD_congr (ρ ρ' : Env) (hl : ρ.loc = ρ'.loc) (ha : ρ.att = ρ'.att) (hp : ρ.par = ρ'.par) :
    ∀ e, (∀ n, n ∈ getsE e → ρ.wire n = ρ'.wire n) → evalD ρ e = evalD ρ' e := by
  intro e
  induction e with
  | const k => intro _; rfl
  | loc n => intro _; simp [evalD, hl]
  | attr n => intro _; simp [evalD, ha]
  | get n => intro h; simp [evalD, h n (by simp [getsE])]
  | par n => intro _; simp [evalD, hp]
  | un op e ih => intro h; simp only [evalD, ih (fun n hn => h n (by simpa [getsE] using hn))]
  | bin op a b iha ihb =>
    intro h
    simp only [evalD, iha (fun n hn => h n (by simp [getsE, hn])), ihb (fun n hn => h n (by simp [getsE, hn]))]
  | cmp op a b iha ihb =>
    intro h
    simp only [evalD, iha (fun n hn => h n (by simp [getsE, hn])), ihb (fun n hn => h n (by simp [getsE, hn]))]
  | and a b iha ihb =>
    intro h
    simp only [evalD, iha (fun n hn => h n (by simp [getsE, hn])), ihb (fun n hn => h n (by simp [getsE, hn]))]
  | or a b iha ihb =>
    intro h
    simp only [evalD, iha (fun n hn => h n (by simp [getsE, hn])), ihb (fun n hn => h n (by simp [getsE, hn]))]
  | ite cnd a b ihc iha ihb =>
    intro h
    simp only [evalD, ihc (fun n hn => h n (by simp [getsE, hn])), iha (fun n hn => h n (by simp [getsE, hn])),
      ihb (fun n hn => h n (by simp [getsE, hn]))]

def applyL (f : String → Option Int) (L : List (String × Int)) : String → Option Int :=
  L.foldl (fun f (p : String × Int) => upd f p.1 p.2) f

theorem applyL_notin (n : String) : ∀ (L : List (String × Int)) (f : String → Option Int), (∀ p, p ∈ L → p.1 ≠ n) → applyL f L n = f n := by
  intro L
  induction L with
  | nil => intro f _; rfl
  | cons hd tl ih =>
    intro f h
    simp only [applyL, List.foldl] at *
    rw [ih _ (fun p hp => h p (by simp [hp]))]
    have : hd.1 ≠ n := h hd (by simp)
    simp [upd, Ne.symm this]

theorem applyL_snoc (f : String → Option Int) (L : List (String × Int)) (w : String) (v : Int) :
    applyL f (L ++ [(w, v)]) = upd (applyL f L) w v := by
  simp [applyL, List.foldl_append]

/-- the shadow of a Python state inside a `propagate()` call: wires frozen at `w0`, puts queued -/
structure Sh (w0 : String → Option Int) (P : List String) (s sF : St) : Prop where
  loc : sF.loc = s.loc
  att : sF.att = s.att
  wire0 : sF.wire = w0
  cur : s.wire = applyL w0 sF.prep
  inP : ∀ p, p ∈ sF.prep → p.1 ∈ P
  np : s.prep = []

theorem sh_eval {c : ClassD} {w0 : String → Option Int} {P : List String} {s sF : St} (h : Sh w0 P s sF) (e : Expr)
    (hg : ∀ n, n ∈ getsE e → n ∉ P) : evalD (s.env c) e = evalD (sF.env c) e := by
  apply evalD_congr
  · simp [St.env, h.loc]
  · simp [St.env, h.att]
  · rfl
  · intro n hn
    show s.wire n = sF.wire n
    rw [h.cur, h.wire0]
    apply applyL_notin
    intro p hp hpn
    exact hg n hn (hpn ▸ h.inP p hp)

/-- Python side: executing a `propagate()` body with immediate puts = executing its `p2p` image on the shadow -/
theorem p2p_exec (c : ClassD) (w0 : String → Option Int) (P : List String) :
    ∀ (stmt : Stmt) (sv : Option Int) (s s' sF : St), okSg false c stmt = true →
      (∀ n, n ∈ getsS stmt → n ∉ P) → (∀ n, n ∈ putsS stmt → n ∈ P) →
      execD c sv stmt s = some s' → Sh w0 P s sF →
      ∃ sF', execD c sv (p2p stmt) sF = some sF' ∧ Sh w0 P s' sF' := by
  intro stmt
  induction stmt with
  | skip =>
    intro sv s s' sF _ _ _ he hs
    simp only [execD, Option.some.injEq] at he; subst he
    exact ⟨sF, rfl, hs⟩
  | seq a b iha ihb =>
    intro sv s s' sF hok hg hp he hs
    rw [okSg] at hok; simp only [Bool.and_eq_true] at hok
    simp only [execD] at he
    split at he
    · rename_i s1 h1
      obtain ⟨sF1, e1, hs1⟩ := iha sv s s1 sF hok.1 (fun n hn => hg n (by simp [getsS, hn])) (fun n hn => hp n (by simp [putsS, hn])) h1 hs
      obtain ⟨sF2, e2, hs2⟩ := ihb sv s1 s' sF1 hok.2 (fun n hn => hg n (by simp [getsS, hn])) (fun n hn => hp n (by simp [putsS, hn])) he hs1
      exact ⟨sF2, by simp [p2p, execD, e1, e2], hs2⟩
    · simp at he
  | setLoc n e =>
    intro sv s s' sF _ hg _ he hs
    simp only [execD] at he
    split at he
    · rename_i v hv
      simp only [Option.some.injEq] at he; subst he
      rw [sh_eval hs e (fun n hn => hg n (by simpa [getsS] using hn))] at hv
      exact ⟨{ sF with loc := upd sF.loc n v }, by simp [p2p, execD, hv],
        ⟨by simp [hs.loc], hs.att, hs.wire0, hs.cur, hs.inP, hs.np⟩⟩
    · simp at he
  | setAttr n e => intro sv s s' sF hok; rw [okSg] at hok; simp at hok
  | put w e =>
    intro sv s s' sF _ hg hp he hs
    simp only [execD] at he
    split at he
    · rename_i v p hv hpw
      simp only [Option.some.injEq] at he; subst he
      rw [sh_eval hs e (fun n hn => hg n (by simpa [getsS] using hn))] at hv
      refine ⟨{ sF with prep := sF.prep ++ [(w, maskW p.width v)] }, by simp [p2p, execD, hv, hpw], ⟨hs.loc, hs.att, hs.wire0, ?_, ?_, hs.np⟩⟩
      · show upd s.wire w (maskW p.width v) = applyL w0 (sF.prep ++ [(w, maskW p.width v)])
        rw [applyL_snoc, hs.cur]
      · intro q hq
        simp only [List.mem_append, List.mem_singleton] at hq
        rcases hq with hq | rfl
        · exact hs.inP q hq
        · exact hp w (by simp [putsS])
    · simp at he
  | prep w e => intro sv s s' sF hok; rw [okSg] at hok; simp at hok
  | ife cnd t e iht ihe =>
    intro sv s s' sF hok hg hp he hs
    rw [okSg] at hok; simp only [Bool.and_eq_true] at hok
    simp only [execD] at he
    split at he
    · rename_i v hv
      rw [sh_eval hs cnd (fun n hn => hg n (by simp [getsS, hn]))] at hv
      split at he
      · rename_i htv
        obtain ⟨sF1, e1, hs1⟩ := iht sv s s' sF hok.1.2 (fun n hn => hg n (by simp [getsS, hn])) (fun n hn => hp n (by simp [putsS, hn])) he hs
        exact ⟨sF1, by simp [p2p, execD, hv, htv, e1], hs1⟩
      · rename_i htv
        obtain ⟨sF1, e1, hs1⟩ := ihe sv s s' sF hok.2 (fun n hn => hg n (by simp [getsS, hn])) (fun n hn => hp n (by simp [putsS, hn])) he hs
        exact ⟨sF1, by simp [p2p, execD, hv, htv, e1], hs1⟩
    · simp at he
  | mtch subj ch ih =>
    intro sv s s' sF hok hg hp he hs
    rw [okSg] at hok; simp only [Bool.and_eq_true] at hok
    simp only [execD] at he
    split at he
    · rename_i v hv
      rw [sh_eval hs subj (fun n hn => hg n (by simp [getsS, hn]))] at hv
      obtain ⟨sF1, e1, hs1⟩ := ih (some v) s s' sF hok.2 (fun n hn => hg n (by simp [getsS, hn])) (fun n hn => hp n (by simpa [putsS] using hn)) he hs
      exact ⟨sF1, by simp [p2p, execD, hv, e1], hs1⟩
    · simp at he
  | arm v g body rest ihb ihr =>
    intro sv s s' sF hok hg hp he hs
    rw [okSg] at hok; simp only [Bool.and_eq_true] at hok
    obtain ⟨⟨⟨⟨_, _⟩, _⟩, hokb⟩, hokr⟩ := hok
    cases sv with
    | none => simp [execD] at he
    | some x =>
      simp only [execD] at he
      split at he
      · simp at he
      · rename_i pv hpv
        rw [sh_eval hs v (fun n hn => hg n (by simp [getsS, hn]))] at hpv
        split at he
        · rename_i hx
          cases g with
          | none =>
            obtain ⟨sF1, e1, hs1⟩ := ihb none s s' sF hokb (fun n hn => hg n (by simp [getsS, hn])) (fun n hn => hp n (by simp [putsS, hn])) he hs
            exact ⟨sF1, by simp [p2p, execD, hpv, hx, e1], hs1⟩
          | some ge =>
            simp only at he
            split at he
            · rename_i gv hgv
              rw [sh_eval hs ge (fun n hn => hg n (by simp [getsS, hn]))] at hgv
              split at he
              · rename_i hgt
                obtain ⟨sF1, e1, hs1⟩ := ihb none s s' sF hokb (fun n hn => hg n (by simp [getsS, hn])) (fun n hn => hp n (by simp [putsS, hn])) he hs
                exact ⟨sF1, by simp [p2p, execD, hpv, hx, hgv, hgt, e1], hs1⟩
              · rename_i hgt
                obtain ⟨sF1, e1, hs1⟩ := ihr (some x) s s' sF hokr (fun n hn => hg n (by simp [getsS, hn])) (fun n hn => hp n (by simp [putsS, hn])) he hs
                exact ⟨sF1, by simp [p2p, execD, hpv, hx, hgv, hgt, e1], hs1⟩
            · simp at he
        · rename_i hx
          obtain ⟨sF1, e1, hs1⟩ := ihr (some x) s s' sF hokr (fun n hn => hg n (by simp [getsS, hn])) (fun n hn => hp n (by simp [putsS, hn])) he hs
          exact ⟨sF1, by simp [p2p, execD, hpv, hx, e1], hs1⟩
  | dflt body ih =>
    intro sv s s' sF hok hg hp he hs
    rw [okSg] at hok
    have he' : execD c none body s = some s' := by simpa [execD] using he
    obtain ⟨sF1, e1, hs1⟩ := ih none s s' sF hok (fun n hn => hg n (by simpa [getsS] using hn)) (fun n hn => hp n (by simpa [putsS] using hn)) he' hs
    exact ⟨sF1, by simp [p2p, execD, e1], hs1⟩

end C02

namespace C02
open Tp

/-- no wire that the body puts is read by it (the complement is the finding C02-read-after-put) -/
def NoRAP (body : Stmt) : Prop := ∀ n, n ∈ getsS body → n ∉ putsS body

theorem St_ext {a b : St} (h1 : a.loc = b.loc) (h2 : a.att = b.att) (h3 : a.wire = b.wire) (h4 : a.prep = b.prep) : a = b := by
  cases a; cases b; simp_all

/-- ONE ACTIVATION of a translated `propagate()` body: executing the `always @(*)` body and then applying its non-blocking
    updates leaves the Verilog store related to the Python object after `propagate()` (immediate puts). -/
theorem comb_sound {σ : Type} {rd : σ → V.Rd} {wr : σ → V.Tgt → V.BV → σ} (L : Laws rd wr) (c : ClassD) (body : Stmt)
    (hok : okSg false c body = true) (hrap : NoRAP body) (s s1 : St) (st : σ) (hC : CRel c rd s st)
    (he : execD c none body { s with loc := fun _ => none } = some s1) :
    CRel c rd s1
      (applyQ wr (V.exec rd wr none (trS c body) ⟨st, []⟩).st (V.exec rd wr none (trS c body) ⟨st, []⟩).nba) := by
  have hs0 : Sh s.wire (putsS body) ({ s with loc := fun _ => none } : St) ({ s with loc := fun _ => none } : St) :=
    ⟨rfl, rfl, rfl, by simp [applyL, hC.noPrep], by simp [hC.noPrep], hC.noPrep⟩
  obtain ⟨sF1, e1, hs1⟩ := p2p_exec c s.wire (putsS body) body none _ s1 _ hok hrap (fun n hn => hn) he hs0
  have hc := cycle_soundB L c (p2p body) (okSg_p2p c body hok) s sF1 st hC e1
  rw [trS_p2p] at hc
  have : settle sF1 = s1 := by
    rw [settle_eq]
    apply St_ext
    · exact hs1.loc
    · exact hs1.att
    · show _ = s1.wire
      rw [hs1.cur, hs1.wire0]; rfl
    · exact hs1.np.symm
  rw [this] at hc
  exact hc

/-- Python: drive the inputs, one `propagate()` inside the domain -/
def runC (c : ClassD) : St → List (List (String × Int)) → Option St
  | s, [] => some s
  | s, asg :: rest => match execD c none c.body { driveIn c s asg with loc := fun _ => none } with
      | some s1 => runC c s1 rest
      | none => none

/-- COMBINATIONAL BISIMULATION over whole input histories (every step: drive some inputs - possibly none -, one activation).
    Universal over classes whose `propagate()` body is in the fragment (`okSg false`) and reads no wire it puts, over related
    starting states, over stores satisfying the `Laws`: after every step the port values (and the integers holding the locals)
    coincide.  Power-up of never-assigned outputs (latches) is the same caveat as for sequential blocks. -/
theorem transpile_comb_sound {σ : Type} {rd : σ → V.Rd} {wr : σ → V.Tgt → V.BV → σ} (L : Laws rd wr) (c : ClassD)
    (hok : okSg false c c.body = true) (hrap : NoRAP c.body) :
    ∀ (h : List (List (String × Int))) (s s' : St) (st : σ), CRel c rd s st → runC c s h = some s' →
      CRel c rd s' (vRun rd wr c st h) := by
  intro h
  induction h with
  | nil => intro s s' st hC hr; simp only [runC, Option.some.injEq] at hr; subst hr; exact hC
  | cons asg rest ih =>
    intro s s' st hC hr
    simp only [runC] at hr
    split at hr
    · rename_i s1 h1
      have hC1 := comb_sound L c c.body hok hrap _ s1 _ (drive_crel L c asg s st hC) h1
      exact ih _ s' _ hC1 hr
    · simp at hr

end C02
