import Py4hwV.Proofs.C02Stmt
/-
  C02, combinational bodies (`propagate()` -> `always @(*)`) and the mode-independent history theorem.
  Since /repo b298f20 `put` is emitted as a BLOCKING assignment: it takes effect at once on both sides (Wire.put / `=`), so a body
  may read back a wire it has just put and `put` may also be used inside clock(); the statement theorem (`trS_sound_aux`) handles
  it directly for both modes and the former shadow-state argument (put replayed as queued update) is no longer needed.
-/
namespace C02
open Tp

/-- evaluation only looks at the wires the expression reads -/
theorem evalD_congr (ρ ρ' : Env) (hl : ρ.loc = ρ'.loc) (ha : ρ.att = ρ'.att) (hp : ρ.par = ρ'.par) :
    ∀ e, (∀ n, n ∈ getsE e → ρ.wire n = ρ'.wire n) → evalD ρ e = evalD ρ' e := by
  intro e
  induction e with
  | const k => intro _; rfl
  | loc n => intro _; simp [evalD, hl]
  | attr n => intro _; simp [evalD, ha]
  | get n => intro h; simp [evalD, h n (by simp [getsE])]
  | par n => intro _; simp [evalD, hp]
  | un op e ih => intro h; simp only [evalD, ih (fun n hn => h n (by simpa [getsE] using hn))]
  | bin op a b iha ihb =>
    intro h
    simp only [evalD, iha (fun n hn => h n (by simp [getsE, hn])), ihb (fun n hn => h n (by simp [getsE, hn]))]
  | cmp op a b iha ihb =>
    intro h
    simp only [evalD, iha (fun n hn => h n (by simp [getsE, hn])), ihb (fun n hn => h n (by simp [getsE, hn]))]
  | and a b iha ihb =>
    intro h
    simp only [evalD, iha (fun n hn => h n (by simp [getsE, hn])), ihb (fun n hn => h n (by simp [getsE, hn]))]
  | or a b iha ihb =>
    intro h
    simp only [evalD, iha (fun n hn => h n (by simp [getsE, hn])), ihb (fun n hn => h n (by simp [getsE, hn]))]
  | ite cnd a b ihc iha ihb =>
    intro h
    simp only [evalD, ihc (fun n hn => h n (by simp [getsE, hn])), iha (fun n hn => h n (by simp [getsE, hn])),
      ihb (fun n hn => h n (by simp [getsE, hn]))]

theorem St_ext {a b : St} (h1 : a.loc = b.loc) (h2 : a.att = b.att) (h3 : a.wire = b.wire) (h4 : a.prep = b.prep) : a = b := by
  cases a; cases b; simp_all

/-- ONE ACTIVATION of a translated `propagate()` body (`always @(*)`): blocking assignments to locals and to the output registers,
    then (nothing queued) - the Verilog store stays related to the Python object after `propagate()`; `Wire.settleAll` of the
    enclosing `Simulator.clk` is the identity here (no `prepare` in the fragment) and is part of `settle`. -/
theorem comb_sound {σ : Type} {rd : σ → V.Rd} {wr : σ → V.Tgt → V.BV → σ} (L : Laws rd wr) (c : ClassD) (body : Stmt)
    (hok : okSg false c body = true) (s s1 : St) (st : σ) (hC : CRel c rd s st)
    (he : execD c none body { s with loc := fun _ => none } = some s1) :
    CRel c rd (settle s1)
      (applyQ wr (V.exec rd wr none (trS c body) ⟨st, []⟩).st (V.exec rd wr none (trS c body) ⟨st, []⟩).nba) :=
  cycle_soundB L c false body hok s s1 st hC he

/-- BISIMULATION OVER WHOLE INPUT HISTORIES, BOTH MODES (q = true: `clock()` / `always @(posedge clk)`, q = false: `propagate()` /
    `always @(*)`): every step drives some inputs, runs the Python method inside the domain and settles; the translated body is
    executed and its non-blocking updates applied.  Related states stay related after every step: same state variables, same value
    on every port.  No read-after-put restriction any more. -/
theorem transpile_sound_all {σ : Type} {rd : σ → V.Rd} {wr : σ → V.Tgt → V.BV → σ} (L : Laws rd wr) (c : ClassD) (q : Bool)
    (hok : okSg q c c.body = true) :
    ∀ (h : List (List (String × Int))) (s s' : St) (st : σ), CRel c rd s st → runD c s h = some s' →
      CRel c rd s' (vRun rd wr c st h) := by
  intro h
  induction h with
  | nil => intro s s' st hC hr; simp only [runD, Option.some.injEq] at hr; subst hr; exact hC
  | cons asg rest ih =>
    intro s s' st hC hr
    simp only [runD] at hr
    split at hr
    · rename_i s1 h1
      simp only [clockCycleD, Option.map_eq_some_iff] at h1
      obtain ⟨s0, he, hs0⟩ := h1
      subst hs0
      have hC1 := cycle_soundB L c q c.body hok _ s0 _ (drive_crel L c asg s st hC) he
      exact ih _ s' _ hC1 hr
    · simp at hr

end C02
