import Py4hwV.Lib.Fp
import Py4hwV.Lib.FpSpec
import Py4hwV.Props.C07
import Py4hwV.Props.C08
/-
  C13 — helper development: field extraction, the value function, lexicographic order of magnitudes.
-/
namespace C13
open Lib Lib.Fp Lib.LSpec FpSpec

/-! ### field extraction leaves = the fields of the encoding -/

theorem bit31 (x : Nat) : Leaf.bit 1 x 31 = signOf x := by
  simp only [Leaf.bit, signOf, Nat.shiftRight_eq_div_pow]
  omega

theorem range_e (x : Nat) : Leaf.range 8 x 30 23 = expOf x := by
  simp only [Leaf.range, expOf, Nat.shiftRight_eq_div_pow]
  omega

theorem range_m (x : Nat) : Leaf.range 23 x 22 0 = fracOf x := by
  simp only [Leaf.range, fracOf, Nat.shiftRight_eq_div_pow]
  omega

theorem expOf_lt (x : Nat) : expOf x < 2^8 := by unfold expOf; omega
theorem fracOf_lt (x : Nat) : fracOf x < 2^23 := by unfold fracOf; omega
theorem signOf_lt (x : Nat) : signOf x < 2 := by unfold signOf; omega

theorem parts_eq (x : Nat) :
    parts x = ⟨signOf x, Leaf.sub 8 (expOf x) 127,
               b2n (decide (expOf x ≠ 0)) * 2^23 + fracOf x,
               b2n (decide (expOf x = 0) && decide (fracOf x ≠ 0)),
               b2n (decide (expOf x = 0) && decide (fracOf x = 0))⟩ := by
  have he := expOf_lt x
  have hf := fracOf_lt x
  unfold parts
  simp only [bit31, range_e, range_m]
  rw [C08.notEqualConstant_spec 8 (expOf x) 0 (by decide) he (by decide) (by decide),
      C08.notEqualConstant_spec 23 (fracOf x) 0 (by decide) hf (by decide) (by decide)]
  rw [C08.concatMSBF_spec 24 _ (by simp) (by
    intro wv hwv
    simp only [List.mem_cons, List.mem_nil_iff, or_false] at hwv
    rcases hwv with rfl | rfl
    · exact C08.b2n_lt _
    · exact hf)]
  simp only [LSpec.notEqualConstant, C08.not1_bool, C08.and2_bool, LSpec.concatMSBF]
  have c : Leaf.const 8 127 = 127 := by decide
  rw [c]
  by_cases h1 : expOf x = 0 <;> by_cases h2 : fracOf x = 0 <;> simp [h1, h2, LSpec.b2n]

/-! ### the value function: lexicographic order of magnitudes -/

theorem two_pow_split (a b : Nat) (h : a ≤ b) : 2^b = 2^a * 2^(b - a) := by
  rw [← Nat.pow_add]; congr 1; omega

theorem magv_lt_of_exp_lt (ea eb ma mb : Nat) (hma : ma < 2^23) (he : ea < eb) :
    (2^23 + ma) * 2^ea < (2^23 + mb) * 2^eb := by
  rw [two_pow_split ea eb (Nat.le_of_lt he)]
  have hP : 0 < 2^ea := Nat.two_pow_pos _
  have hQ : 2 ≤ 2^(eb - ea) := by
    have : 2^1 ≤ 2^(eb - ea) := Nat.pow_le_pow_right (by decide) (by omega)
    simpa using this
  generalize 2^ea = P at *
  generalize 2^(eb - ea) = Q at *
  have h1 : 2^23 * 2 ≤ (2^23 + mb) * Q := Nat.mul_le_mul (by omega) hQ
  calc (2^23 + ma) * P < (2^23 * 2) * P := Nat.mul_lt_mul_of_pos_right (by omega) hP
    _ ≤ ((2^23 + mb) * Q) * P := Nat.mul_le_mul_right P h1
    _ = (2^23 + mb) * (P * Q) := by rw [Nat.mul_assoc, Nat.mul_comm Q P]

theorem magv_lt_iff (ea eb ma mb : Nat) (hma : ma < 2^23) (hmb : mb < 2^23) :
    (2^23 + ma) * 2^ea < (2^23 + mb) * 2^eb ↔ (ea < eb ∨ (ea = eb ∧ ma < mb)) := by
  rcases Nat.lt_trichotomy ea eb with h | h | h
  · have := magv_lt_of_exp_lt ea eb ma mb hma h
    constructor
    · intro _; exact Or.inl h
    · intro _; exact this
  · subst h
    have hP : 0 < 2^ea := Nat.two_pow_pos _
    rw [Nat.mul_lt_mul_right hP]
    omega
  · have := magv_lt_of_exp_lt eb ea mb ma hmb h
    constructor
    · intro h2; omega
    · intro h2; omega

theorem magv_eq_iff (ea eb ma mb : Nat) (hma : ma < 2^23) (hmb : mb < 2^23) :
    (2^23 + ma) * 2^ea = (2^23 + mb) * 2^eb ↔ (ea = eb ∧ ma = mb) := by
  have h1 := magv_lt_iff ea eb ma mb hma hmb
  have h2 := magv_lt_iff eb ea mb ma hmb hma
  constructor
  · intro h; omega
  · rintro ⟨rfl, rfl⟩; rfl

theorem mag_pos (x : Nat) : 0 < mag x := by
  unfold mag mant
  exact Nat.mul_pos (by omega) (Nat.two_pow_pos _)

/-- magnitudes of normal encodings are ordered lexicographically by (exponent field, fraction field) -/
theorem mag_lt_iff (a b : Nat) (ha : 1 ≤ expOf a) (hb : 1 ≤ expOf b) :
    mag a < mag b ↔ (expOf a < expOf b ∨ (expOf a = expOf b ∧ fracOf a < fracOf b)) := by
  unfold mag mant
  rw [magv_lt_iff _ _ _ _ (fracOf_lt a) (fracOf_lt b)]
  omega

theorem mag_eq_iff (a b : Nat) (ha : 1 ≤ expOf a) (hb : 1 ≤ expOf b) :
    mag a = mag b ↔ (expOf a = expOf b ∧ fracOf a = fracOf b) := by
  unfold mag mant
  rw [magv_eq_iff _ _ _ _ (fracOf_lt a) (fracOf_lt b)]
  omega

theorem or2_bool (x y : Bool) : Leaf.or2 1 (b2n x) (b2n y) = b2n (x || y) := by
  cases x <;> cases y <;> decide
theorem mux2_bool (s x y : Bool) : Leaf.mux2 1 (b2n s) (b2n x) (b2n y) = b2n (if s then y else x) := by
  cases s <;> cases x <;> cases y <;> decide
theorem b2n_of_lt2 (x : Nat) (h : x < 2) : x = b2n (decide (x = 1)) := by
  have : x = 0 ∨ x = 1 := by omega
  rcases this with h | h <;> subst h <;> decide
theorem b2n_inj (x y : Bool) : b2n x = b2n y ↔ x = y := by cases x <;> cases y <;> decide

/-- the comparator in absolute mode, in terms of the fields, for ALL 32-bit words -/
theorem fpcmp_abs_fields (a b : Nat) :
    fpcmp true a b =
      (b2n (decide (expOf b < expOf a) || (decide (expOf a = expOf b) && decide (fracOf b < fracOf a))),
       b2n (decide (expOf a = expOf b) && decide (fracOf a = fracOf b)),
       b2n (decide (expOf a < expOf b) || (decide (expOf a = expOf b) && decide (fracOf a < fracOf b)))) := by
  unfold fpcmp
  simp only [range_e, range_m, if_true]
  rw [C08.comparator_spec 8 _ _ (expOf_lt a) (expOf_lt b), C08.comparator_spec 23 _ _ (fracOf_lt a) (fracOf_lt b)]
  simp only [LSpec.comparator, Lib.orN, Lib.andN, C08.and2_bool, or2_bool]

theorem fpcmp_fields (a b : Nat) :
    fpcmp false a b =
      (let sa := decide (signOf a = 1); let sb := decide (signOf b = 1)
       let egt := decide (expOf b < expOf a); let eeq := decide (expOf a = expOf b); let elt := decide (expOf a < expOf b)
       let mgt := decide (fracOf b < fracOf a); let meq := decide (fracOf a = fracOf b); let mlt := decide (fracOf a < fracOf b)
       let seq := decide (signOf a = signOf b)
       (b2n (((!sa && sb) || (seq && (if sa then elt else egt))) || ((seq && eeq) && (if sa then mlt else mgt))),
        b2n ((seq && eeq) && meq),
        b2n (((sa && !sb) || (seq && (if sa then egt else elt))) || ((seq && eeq) && (if sa then mgt else mlt))))) := by
  unfold fpcmp
  simp only [bit31, range_e, range_m, Bool.false_eq_true, if_false]
  rw [C08.comparator_spec 8 _ _ (expOf_lt a) (expOf_lt b), C08.comparator_spec 23 _ _ (fracOf_lt a) (fracOf_lt b),
    C08.equal_spec 1 1 _ _ (by decide) (signOf_lt a) (signOf_lt b) (signOf_lt b)]
  simp only [LSpec.comparator, LSpec.equal]
  rw [b2n_of_lt2 (signOf a) (signOf_lt a), b2n_of_lt2 (signOf b) (signOf_lt b)]
  simp only [Lib.orN, Lib.andN, List.foldl, C08.and2_bool, or2_bool, C08.not1_bool, mux2_bool]
  have e1 : ∀ x y : Bool, (b2n x = b2n y) = (x = y) := fun x y => propext (b2n_inj x y)
  have e2 : ∀ x : Bool, (b2n x = 1) = (x = true) := fun x => by cases x <;> decide
  simp only [e1, e2, decide_eq_true_eq]

theorem fpcmp_abs_spec' (a b : Nat) (ha : 1 ≤ expOf a) (hb : 1 ≤ expOf b) :
    fpcmp true a b = cmpAbs a b := by
  rw [fpcmp_abs_fields]
  unfold cmpAbs
  have h1 := mag_lt_iff a b ha hb
  have h2 := mag_lt_iff b a hb ha
  have h3 := mag_eq_iff a b ha hb
  generalize mag a = A at *
  generalize mag b = B at *
  refine Prod.ext ?_ (Prod.ext ?_ ?_) <;> simp only [] <;> rw [b2n_inj, Bool.eq_iff_iff] <;>
    simp only [Bool.or_eq_true, Bool.and_eq_true, decide_eq_true_eq] <;> omega

theorem fpcmp_spec' (a b : Nat) (ha : 1 ≤ expOf a) (hb : 1 ≤ expOf b) :
    fpcmp false a b = cmp a b := by
  rw [fpcmp_fields]
  unfold cmp sval
  have h1 := mag_lt_iff a b ha hb
  have h2 := mag_lt_iff b a hb ha
  have h3 := mag_eq_iff a b ha hb
  have pa := mag_pos a
  have pb := mag_pos b
  generalize mag a = A at *
  generalize mag b = B at *
  have sa : signOf a = 0 ∨ signOf a = 1 := by have := signOf_lt a; omega
  have sb : signOf b = 0 ∨ signOf b = 1 := by have := signOf_lt b; omega
  rcases sa with sa | sa <;> rcases sb with sb | sb <;>
    (refine Prod.ext ?_ (Prod.ext ?_ ?_) <;> simp only [sa, sb] <;> rw [b2n_inj, Bool.eq_iff_iff] <;>
      simp <;> omega)

end C13
