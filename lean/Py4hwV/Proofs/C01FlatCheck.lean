import Py4hwV.Proofs.C01FlatElab2
/-
  C01 design level: the executable check `FlatSrc.check` (run by lean/Drv/C01Flat.lean on every imported design) is sound:
  it implies `FlatSrc.OK`, the hypothesis of the elaboration and run theorems.
-/
set_option linter.unusedSimpArgs false
namespace FlatM
open V C01 Net
namespace FlatSrc
variable (S : FlatSrc)

theorem okb_sound (wd : Nat → Nat) (k : Kind) (h : Kind.okb wd k = true) : k.ok wd := by
  cases k <;> simp_all [Kind.okb, Kind.ok]

theorem topoCheck_sound (F : FlatDesign) (l : List Nat) (hl : ∀ i, i ∈ l → i < F.kinds.length)
    (h : topoCheck (fun i => ((F.kinds.getD i default).leaf F.wd).ins) (fun i => (F.kinds.getD i default).out) l = true) :
    C04.TopoOK F.netD.comb l := by
  induction l with
  | nil => trivial
  | cons a rest ih =>
    simp only [topoCheck, Bool.and_eq_true, List.all_eq_true, bne_iff_ne, ne_eq, Bool.not_eq_true', List.contains_eq_mem,
      decide_eq_false_iff_not] at h
    obtain ⟨⟨⟨h1, h2⟩, h3⟩, h4⟩ := h
    have ha := hl a (by simp)
    have hreads : F.netD.comb.reads a = ((F.kinds.getD a default).leaf F.wd).ins := by
      show F.netD.reads a = _
      unfold NetD.reads; rw [FlatDesign.combs_get a ha]
    have hwrites : ∀ j, j < F.kinds.length → F.netD.comb.writes j = [(F.kinds.getD j default).out] := by
      intro j hj
      show F.netD.writes j = _
      unfold NetD.writes; rw [FlatDesign.combs_get j hj]; simp only [FlatDesign.outs_leaf]
    refine ⟨?_, ?_, h3, ih (fun i hi => hl i (by simp [hi])) h4⟩
    · intro b hb w hw
      rw [hwrites b (hl b hb)]
      rw [hreads] at hw
      simp only [List.mem_singleton]
      exact h1 b hb w hw
    · intro b hb w hw
      rw [hwrites a ha] at hw
      rw [hwrites b (hl b (by simp [hb]))]
      simp only [List.mem_singleton] at hw ⊢
      subst hw
      exact h2 b hb

theorem check_sound (h : S.check = true) : S.OK := by
  simp only [check, checks, List.all_cons, List.all_nil, Bool.and_true, Bool.and_eq_true, decide_eq_true_eq] at h
  obtain ⟨h1, h2, h3, h4, h5, h6, h7, h8, h9, h10, h11, h12, h13⟩ := h
  have hperm : S.design.order.Perm (List.range S.design.kinds.length) := List.isPerm_iff.mp h6
  have hdrv : ∀ k, k ∈ S.drivenNets ↔ (∃ kd, kd ∈ S.design.kinds ∧ kd.out = k) ∨ (∃ R, R ∈ S.design.regs ∧ R.leaf.q = k) := by
    intro k
    simp [drivenNets, List.mem_append, List.mem_map]
  refine ⟨⟨h1, h2, ?_, ?_, h5, hperm, ?_, ?_, ?_⟩, ⟨?_, ?_⟩, ?_, ?_⟩
  · intro k hk
    have := List.all_eq_true.mp h3 k hk
    simp only [Bool.and_eq_true, List.contains_eq_mem, decide_eq_true_eq, List.all_eq_true] at this
    exact ⟨this.1, fun x hx => this.2 x hx⟩
  · intro R hR
    have := List.all_eq_true.mp h4 R hR
    simp only [Bool.and_eq_true, List.contains_eq_mem, decide_eq_true_eq, Bool.or_eq_true, Bool.not_eq_true'] at this
    refine ⟨this.1.1.1, this.1.1.2, ?_, ?_⟩
    · intro he; rcases this.1.2 with h | h
      · rw [he] at h; cases h
      · exact h
    · intro hr; rcases this.2 with h | h
      · rw [hr] at h; cases h
      · exact h
  · exact topoCheck_sound S.design S.design.order (fun i hi => List.mem_range.mp (hperm.mem_iff.mp hi)) h7
  · intro k hk; exact okb_sound _ k (List.all_eq_true.mp h8 k hk)
  · intro R hR; simpa using List.all_eq_true.mp h9 R hR
  · intro r hr; simpa using List.all_eq_true.mp h10 r hr
  · intro r r' hr hr' e
    have := List.all_eq_true.mp (List.all_eq_true.mp h11 r hr) r' hr'
    simp only [Bool.or_eq_true, bne_iff_ne, ne_eq, decide_eq_true_eq] at this
    rcases this with h | h
    · exact absurd e h
    · exact h
  · intro k hk
    have := List.all_eq_true.mp h12 k hk
    simp only [Bool.not_eq_true', List.contains_eq_mem, decide_eq_false_iff_not] at this
    refine ⟨by simp [design, hk], ?_, ?_⟩
    · intro kd hkd e; exact this ((hdrv k).mpr (Or.inl ⟨kd, hkd, e⟩))
    · intro R hR e; exact this ((hdrv k).mpr (Or.inr ⟨R, hR, e⟩))
  · intro k hk
    have hnets : k ∈ S.inputs ++ (S.outputs ++ S.locals) := hk.1
    rw [List.mem_append] at hnets
    rcases hnets with h | h
    · exact h
    · have := List.all_eq_true.mp h13 k h
      simp only [List.contains_eq_mem, decide_eq_true_eq] at this
      rcases (hdrv k).mp this with ⟨kd, hkd, e⟩ | ⟨R, hR, e⟩
      · exact absurd e (hk.2.1 kd hkd)
      · exact absurd e (hk.2.2 R hR)

end FlatSrc
end FlatM

namespace FlatM
open V C01 Net
namespace FlatSrc
variable (S : FlatSrc)

/-- the test bench drives every top-level input with 0 before the first observation (py4hw wires power up at 0) -/
def zeroOps (S : FlatSrc) : List Op := S.inputs.map fun k => Op.poke k 0

theorem pokes_zero (F : FlatDesign) (l : List Nat) (r : Rd) (hw : ∀ k, k ∈ l → widthOf r (F.nm k) = F.wd k) :
    (l.foldl (fun r k => poke r (F.nm k) 0) r).info = r.info ∧
    (∀ k, k ∈ l → (l.foldl (fun r k => poke r (F.nm k) 0) r).val (F.nm k) = ⟨F.wd k, 0, true⟩) ∧
    (∀ n, (∀ k, k ∈ l → n ≠ F.nm k) → (l.foldl (fun r k => poke r (F.nm k) 0) r).val n = r.val n) := by
  induction l generalizing r with
  | nil => exact ⟨rfl, (fun _ h => nomatch h), fun _ _ => rfl⟩
  | cons a l ih =>
    simp only [List.foldl]
    have hstep : ∀ n, (poke r (F.nm a) 0).val n = if n = F.nm a then ⟨F.wd a, 0, true⟩ else r.val n := by
      intro n
      simp only [poke, setWhole, norm, hw a (by simp), Nat.zero_mod, if_true]
    obtain ⟨h1, h2, h3⟩ := ih (poke r (F.nm a) 0) (fun k hk => by
      have := hw k (by simp [hk])
      simpa [widthOf, poke] using this)
    refine ⟨h1, ?_, ?_⟩
    · intro k hk
      simp only [List.mem_cons] at hk
      by_cases hkl : k ∈ l
      · exact h2 k hkl
      · rcases hk with e | e
        · subst e
          by_cases hn : ∃ k', k' ∈ l ∧ F.nm k = F.nm k'
          · obtain ⟨k', hk', e⟩ := hn
            have hv := h2 k' hk'
            rw [← e] at hv
            rw [hv]
            have w1 := hw k (by simp)
            have w2 := hw k' (by simp [hk'])
            rw [e] at w1
            rw [← w1, w2]
          · rw [h3 _ (fun k' hk' e => hn ⟨k', hk', e⟩), hstep, if_pos rfl]
        · exact absurd e hkl
    · intro n hn
      rw [h3 n (fun k hk => hn k (by simp [hk])), hstep, if_neg (hn a (by simp))]

/-- **the state the harness protocol starts from** (`begin`, `set <input> 0` for every input): it satisfies every
    hypothesis of `shipped_run` -/
theorem text_state (h : S.OK) :
    let m0 := S.zeroOps.foldl S.design.shipOp (mkSim S.emit S.top S.clk)
    S.flatS.assigns.Perm S.design.assigns ∧ FlatDesign.ShipInv S.design S.flatS.assigns m0 ∧ S.design.PowerUp0 m0.st.rd ∧
    m0.errors = [] := by
  intro m0
  obtain ⟨hp, hinv, herr, hrq⟩ := S.mkSim_inv h
  have hops : ∀ op, op ∈ S.zeroOps → S.design.OpOK op := by
    intro op hop
    rcases List.mem_map.mp hop with ⟨k, hk, e⟩
    subst e
    exact ⟨h.inputs_in k hk, Int.le_refl 0⟩
  obtain ⟨hrd, herr', hinv'⟩ := FlatDesign.ship_run h.wf _ hp _ hinv S.zeroOps hops
  have hfold : S.zeroOps.foldl (applyOpA (S.design.flatOf S.flatS.assigns) S.design.nm) (mkSim S.emit S.top S.clk).st.rd =
      S.inputs.foldl (fun r k => poke r (S.design.nm k) 0) (mkSim S.emit S.top S.clk).st.rd := by
    unfold zeroOps
    rw [List.foldl_map]
    rfl
  have hw : ∀ k, k ∈ S.inputs → widthOf (mkSim S.emit S.top S.clk).st.rd (S.design.nm k) = S.design.wd k := by
    intro k hk
    have := hinv.declared (.net k) (FlatDesign.mem_nodes_net (h.inputs_in k hk).1) k rfl
    simp [widthOf, show S.design.name (.net k) = S.design.nm k from rfl] at this ⊢
    simp [this]
  obtain ⟨_, hz, hother⟩ := pokes_zero S.design S.inputs _ hw
  refine ⟨hp, hinv', ⟨hinv'.declared, ?_, ?_⟩, herr'.trans herr⟩
  · intro R hR
    show m0.st.rd.val R.rq = _
    rw [hrd, hfold, hother R.rq, hrq R hR]
    intro k hk
    exact FlatDesign.name_ne h.wf.names_inj (x := .rq R) (y := .net k)
      (FlatDesign.mem_nodes_reg hR (FlatDesign.mem_regnodes_rq R)) (FlatDesign.mem_nodes_net (h.inputs_in k hk).1) (by simp)
  · intro k hk
    show m0.st.rd.val (S.design.nm k) = _
    rw [hrd, hfold]
    exact hz k (h.all_driven k hk)

end FlatSrc
end FlatM
