import Py4hwV.Emit.Hier
import Py4hwV.Proofs.C01FlatElab
/-
  C01 design level: `V.flatten` of the module list `HierSrc.emit` (top module + structural sub-modules + register modules)
  is the certificate's flattened text `HierSrc.cert.flat` — instances become prefixed copies of their bodies plus the
  port-connection assigns.
-/
set_option linter.unusedSimpArgs false
namespace FlatM
open V

/-! ### prefixing an inline form = the inline form over prefixed names -/

theorem pfxE_catChain (p : String) (l : List String) : pfxE p (catChain l) = catChain (l.map (p ++ ·)) := by
  induction l with
  | nil => rfl
  | cons a l ih =>
    cases l with
    | nil => rfl
    | cons b l => simp only [catChain, pfxE, List.map_cons] at ih ⊢; rw [ih]

theorem pfxE_rhs (p : String) (wd : Nat → Nat) (nm : Nat → String) (k : Kind) :
    pfxE p (k.rhs wd nm) = k.rhs wd (fun x => p ++ nm x) := by
  cases k
  case catm ins r => simp [Kind.rhs, pfxE_catChain, List.map_map, Function.comp_def]
  case catl ins r => simp [Kind.rhs, pfxE_catChain, List.map_map, Function.comp_def]
  case rept i r => simp [Kind.rhs, pfxE_catChain]
  case sext a r => simp only [Kind.rhs]; split <;> rfl
  all_goals rfl

theorem pfxL_lhs (p : String) (wd : Nat → Nat) (nm : Nat → String) (k : Kind) :
    pfxL p (k.lhs wd nm) = k.lhs wd (fun x => p ++ nm x) := by
  cases k
  case const v r => simp only [Kind.lhs]; split <;> rfl
  all_goals rfl

def pfxA (p : String) (a : LHS × Expr) : LHS × Expr := (pfxL p a.1, pfxE p a.2)

theorem pfxA_bits (p : String) (nm : Nat → String) (a : Nat) (bits : List Nat) :
    (bitsAssigns nm a bits).map (pfxA p) = bitsAssigns (fun x => p ++ nm x) a bits := by
  match bits with
  | [] => rfl
  | [b] => rfl
  | b :: c :: rest =>
    simp only [bitsAssigns, List.map_map]
    apply List.map_congr_left
    intro bi _
    simp [pfxA, pfxL, pfxE, lit]

theorem pfxA_assigns (p : String) (wd : Nat → Nat) (nm : Nat → String) (k : GKind) :
    (k.assigns wd nm).map (pfxA p) = k.assigns wd (fun x => p ++ nm x) := by
  cases k with
  | prim q => simp [GKind.assigns, pfxA, Kind.assign, pfxE_rhs, pfxL_lhs]
  | bitsL a bits => exact pfxA_bits p nm a bits
  | bitsM a bits => exact pfxA_bits p nm a bits
  | nand2 a b r t => simp [GKind.assigns, pfxA, pfxL, pfxE]
  | nor2 a b r t => simp [GKind.assigns, pfxA, pfxL, pfxE]
  | xor2 a b r m x y m0 m1 m2 m3 => simp [GKind.assigns, pfxA, pfxL, pfxE]

/-! ### `V.flattenM`, one item at a time -/

/-- one port connection of an instance (same code as in `V.flattenM`) -/
def connStep (cm : Module) (cp p iname mn : String) (f : V.Flat) (c : String × Expr) : V.Flat :=
  match c with
  | (pn, pe) =>
    match cm.ports.find? (·.name == pn) with
    | none => { f with errors := f.errors ++ [s!"instance {p}{iname}: module {mn} has no port {pn}"] }
    | some pt =>
      match pt.dir with
      | .inp => { f with assigns := f.assigns ++ [(.lid (cp ++ pn), pfxE p pe)] }
      | .out =>
          match exprToLHS pe with
          | some l => { f with assigns := f.assigns ++ [(pfxL p l, .id (cp ++ pn))] }
          | none => { f with errors := f.errors ++ [s!"instance {p}{iname}: output port {pn} connected to a non-lvalue"] }
      | .inout => { f with errors := f.errors ++ [s!"instance {p}{iname}: inout port {pn} not supported"] }

/-- the item step of `V.flattenM` (same code) -/
def stepF (d : Design) (fuel : Nat) (p : String) (f : V.Flat) (it : Item) : V.Flat :=
  match it with
  | .wire n w => { f with sigs := f.sigs ++ [(p ++ n, { width := w })] }
  | .reg n w init =>
      let f := { f with sigs := f.sigs ++ [(p ++ n, { width := w })] }
      match init with
      | some e => { f with inits := f.inits ++ [(p ++ n, pfxE p e)] }
      | none => f
  | .mem n w lo hi => { f with sigs := f.sigs ++ [(p ++ n, { width := w, memLen := some (max lo hi + 1) })] }
  | .int n init =>
      let f := { f with sigs := f.sigs ++ [(p ++ n, { width := 32, signed := true })] }
      match init with
      | some e => { f with inits := f.inits ++ [(p ++ n, pfxE p e)] }
      | none => f
  | .assign l e => { f with assigns := f.assigns ++ [(pfxL p l, pfxE p e)] }
  | .always ev s => { f with procs := f.procs ++ [(pfxEv p ev, pfxS p s)] }
  | .initial s => { f with initials := f.initials ++ [pfxS p s] }
  | .inst mn iname params conns =>
      match findModule d mn with
      | none => { f with errors := f.errors ++ [s!"instance {p}{iname}: module {mn} is not defined"] }
      | some cm =>
        let cp := p ++ iname ++ "."
        let f := flattenM d fuel cm cp f
        let f := params.foldl (fun f (pn, pe) =>
          if cm.params.contains pn then { f with assigns := f.assigns ++ [(.lid (cp ++ pn), pfxE p pe)] }
          else { f with errors := f.errors ++ [s!"instance {p}{iname}: module {mn} has no parameter {pn}"] }) f
        conns.foldl (connStep cm cp p iname mn) f

theorem flattenM_eq (d : Design) (fuel : Nat) (m : Module) (p : String) (f : V.Flat) :
    flattenM d (fuel + 1) m p f =
      m.items.foldl (stepF d fuel p)
        (m.params.foldl (fun f pn => { f with sigs := f.sigs ++ [(p ++ pn, ({ width := 32, signed := true } : SigInfo))] })
          (m.ports.foldl (fun f pt => { f with sigs := f.sigs ++ [(p ++ pt.name, ({ width := pt.width } : SigInfo))] }) f)) := by
  rw [flattenM]
  rfl

namespace HierSrc
open FlatSrc (mkPort regBody0 portSig ports_fold pfx_regBody0)

def Piece.toContrib (P : Piece) : Contrib :=
  { sigs := P.sigs.map fun nw => (nw.1, ({ width := nw.2 } : SigInfo)),
    inits := P.regs.map fun R => (R.pfx ++ "rq", FlatM.lit R.leaf.rv),
    assigns := P.assigns, procs := P.regs.map RegI.proc }

theorem toContrib_app (a b : Piece) : (a.app b).toContrib = a.toContrib.app b.toContrib := by
  simp [Piece.toContrib, Piece.app, Contrib.app]

theorem toContrib_join (ps : List Piece) : (Piece.join ps).toContrib = Contrib.join (ps.map Piece.toContrib) := by
  induction ps with
  | nil => rfl
  | cons a ps ih =>
    have : Piece.join (a :: ps) = a.app (Piece.join ps) := by simp [Piece.join, Piece.app]
    rw [this, toContrib_app, ih, List.map_cons, join_cons]

theorem step_assigns (d : Design) (fuel : Nat) (p : String) (as : List (LHS × Expr)) (f : V.Flat) :
    (as.map fun a => Item.assign a.1 a.2).foldl (stepF d fuel p) f = addC f { assigns := as.map (pfxA p) } := by
  induction as generalizing f with
  | nil => simp [addC]
  | cons a as ih =>
    simp only [List.map_cons, List.foldl_cons, stepF]
    rw [ih]
    simp [addC, pfxA, List.append_assoc]

theorem flatten_regModuleH (wd : Nat → Nat) (d : Design) (fuel : Nat) (r : RegSrc) (cp : String) (f : V.Flat) :
    flattenM d (fuel + 1) (regModuleH wd r) cp f =
      addC f { sigs := [(cp ++ "clk", { width := 1 }), (cp ++ "d", { width := wd r.leaf.d })] ++
                 (if r.leaf.hasE then [(cp ++ "e", { width := wd r.leaf.e })] else []) ++
                 (if r.leaf.hasR then [(cp ++ "r", { width := wd r.leaf.r })] else []) ++
                 [(cp ++ "q", { width := wd r.leaf.q }), (cp ++ "rq", { width := wd r.leaf.q })],
               inits := [(cp ++ "rq", FlatM.lit r.leaf.rv)],
               assigns := [(.lid (cp ++ "q"), .id (cp ++ "rq"))],
               procs := [(.pos (cp ++ "clk"), regBodyP cp r.leaf.hasR r.leaf.hasE r.leaf.rv)] } := by
  cases hE : r.leaf.hasE <;> cases hR : r.leaf.hasR <;>
    simp [flattenM, regModuleH, addC, hE, hR, mkPort, pfxL, pfxE, pfxEv, pfx_regBody0, lit, List.append_assoc]

/-- a register instance inside a module flattened under `p` -/
theorem step_reg (wd : Nat → Nat) (d : Design) (fuel : Nat) (p : String) (nm : Nat → String) (clk : String) (r : RegSrc)
    (hfind : findModule d r.mname = some (regModuleH wd r)) (f : V.Flat) :
    stepF d (fuel + 1) p f (.inst r.mname r.iname [] (regConnsH nm clk r)) =
      addC f (regPiece wd (fun x => p ++ nm x) p (p ++ clk) r).toContrib := by
  simp only [stepF, hfind, flatten_regModuleH, List.foldl_nil]
  cases hE : r.leaf.hasE <;> cases hR : r.leaf.hasR <;>
    simp [regConnsH, regModuleH, regPiece, Piece.toContrib, addC, hE, hR, mkPort, pfxL, pfxE, exprToLHS, RegI.proc,
      List.append_assoc, List.find?, connStep]

theorem fold_gchildren (wd : Nat → Nat) (d : Design) (fuel : Nat) (p : String) (nm : Nat → String) (clk : String)
    (nu : List (Nat × String)) (cs : List GChild) (i0 : Nat) (f : V.Flat)
    (hfind : ∀ r, GChild.reg r ∈ cs → findModule d r.mname = some (regModuleH wd r)) :
    (cs.flatMap (gchildItems wd nm clk)).foldl (stepF d (fuel + 1) p) f =
      addC f (Piece.join (gchildPieces wd (fun x => p ++ nm x) nu p (p ++ clk) i0 cs)).toContrib := by
  induction cs generalizing i0 f with
  | nil => simp [gchildPieces, Piece.join, Piece.toContrib, addC]
  | cons c cs ih =>
    have hj : ∀ (P : Piece) (ps : List Piece), (Piece.join (P :: ps)).toContrib = P.toContrib.app (Piece.join ps).toContrib := by
      intro P ps
      have : Piece.join (P :: ps) = P.app (Piece.join ps) := by simp [Piece.join, Piece.app]
      rw [this, toContrib_app]
    cases c with
    | kind k =>
      simp only [List.flatMap_cons, List.foldl_append, gchildItems, gchildPieces]
      rw [step_assigns, ih (i0 + 1) _ (fun r hr => hfind r (by simp [hr])), addC_addC, hj]
      congr 1
      simp [kindPiece, Piece.toContrib, pfxA_assigns]
    | reg r =>
      simp only [List.flatMap_cons, List.foldl_append, gchildItems, gchildPieces, List.foldl_cons, List.foldl_nil]
      rw [step_reg wd d fuel p nm clk r (hfind r (by simp)), ih i0 _ (fun r' hr => hfind r' (by simp [hr])), addC_addC, hj]

theorem flatMap_single_eq_map {α β : Type} (l : List α) (g : α → β) : (l.flatMap fun a => [g a]) = l.map g := by
  induction l with
  | nil => rfl
  | cons a l ih => simp [List.flatMap_cons, ih]

theorem modDecl_contrib {χ : Type} (wd : Nat → Nat) (M : Mod χ) (p : String) (hasClk : Bool) (clk : String) :
    (modDeclPiece wd M p hasClk clk).toContrib =
      ({ sigs := (modPorts wd M hasClk clk).map (portSig p) } : Contrib).app
        (Contrib.join (M.locals.map fun k => ({ sigs := [(p ++ M.nm k, { width := wd k })] } : Contrib))) := by
  cases hasClk <;>
    simp [modDeclPiece, Piece.toContrib, Contrib.app, Contrib.join, modPorts, portSig, mkPort, List.map_map, Function.comp_def,
      List.flatMap_map, flatMap_single_eq_map]

/-- **a structural module whose children are inlinable children and registers, flattened under ANY instance prefix** -/
theorem flatten_scope (wd : Nat → Nat) (clk : String) (d : Design) (fuel : Nat) (sc : Scope) (p : String) (nu : List (Nat × String))
    (i0 : Nat) (f : V.Flat) (hfind : ∀ r, GChild.reg r ∈ sc.children → findModule d r.mname = some (regModuleH wd r)) :
    flattenM d (fuel + 2) (scopeModule wd clk sc) p f =
      addC f ((modDeclPiece wd sc p sc.hasReg clk).app
        (Piece.join (gchildPieces wd (fun x => p ++ sc.nm x) nu p (p ++ clk) i0 sc.children))).toContrib := by
  rw [flattenM_eq]
  simp only [scopeModule, List.foldl_nil, ports_fold, List.foldl_append, List.foldl_map]
  rw [fold_addC _ sc.locals (fun k => ({ sigs := [(p ++ sc.nm k, { width := wd k })] } : Contrib))
    (by intro f k _; simp [stepF, addC])]
  rw [fold_gchildren wd d fuel p sc.nm clk nu sc.children i0 _ hfind]
  rw [addC_addC, addC_addC, toContrib_app, modDecl_contrib, Contrib.app]
  simp [Contrib.app, List.append_assoc]

/-! ### an instance of a structural sub-module -/

theorem find_port (ports : List Port) (hn : (ports.map (·.name)).Nodup) (pt : Port) (hpt : pt ∈ ports) :
    ports.find? (·.name == pt.name) = some pt := by
  induction ports with
  | nil => cases hpt
  | cons a l ih =>
    simp only [List.map_cons, List.nodup_cons] at hn
    simp only [List.mem_cons] at hpt
    rw [List.find?_cons]
    rcases hpt with e | hpt
    · subst e; simp
    · have hne : (a.name == pt.name) = false := by
        simp only [beq_eq_false_iff_ne, ne_eq]
        intro e
        exact hn.1 (e ▸ List.mem_map.mpr ⟨pt, hpt, rfl⟩)
      rw [hne]
      exact ih hn.2 hpt

/-- the port names of a sub-module (clock first when it has a register) are pairwise different -/
def PortsOK (clk : String) (sc : Scope) : Prop :=
  ((if sc.hasReg then [clk] else []) ++ (sc.inputs.map (·.1) ++ sc.outputs.map (·.1))).Nodup

theorem fold_in_conns (cm : Module) (cp p iname mn : String) (hn : (cm.ports.map (·.name)).Nodup)
    (l : List (String × Expr)) (hl : ∀ c, c ∈ l → ∃ w, mkPort .inp w c.1 ∈ cm.ports) (f : V.Flat) :
    l.foldl (connStep cm cp p iname mn) f = addC f { assigns := l.map fun c => (.lid (cp ++ c.1), pfxE p c.2) } := by
  induction l generalizing f with
  | nil => simp [addC]
  | cons c l ih =>
    obtain ⟨w, hw⟩ := hl c (by simp)
    have hfp := find_port cm.ports hn _ hw
    simp only [mkPort] at hfp
    obtain ⟨pn, pe⟩ := c
    simp only [List.foldl_cons, connStep, hfp]
    rw [ih (fun c' hc' => hl c' (by simp [hc']))]
    simp [addC, List.append_assoc]

theorem fold_out_conns (cm : Module) (cp p iname mn : String) (hn : (cm.ports.map (·.name)).Nodup)
    (l : List (String × String)) (hl : ∀ c, c ∈ l → ∃ w, mkPort .out w c.1 ∈ cm.ports) (f : V.Flat) :
    (l.map fun c => (c.1, Expr.id c.2)).foldl (connStep cm cp p iname mn) f =
      addC f { assigns := l.map fun c => (.lid (p ++ c.2), .id (cp ++ c.1)) } := by
  induction l generalizing f with
  | nil => simp [addC]
  | cons c l ih =>
    obtain ⟨w, hw⟩ := hl c (by simp)
    have hfp := find_port cm.ports hn _ hw
    simp only [mkPort] at hfp
    obtain ⟨pn, n⟩ := c
    simp only [List.map_cons, List.foldl_cons, connStep, hfp, exprToLHS, pfxL]
    rw [ih (fun c' hc' => hl c' (by simp [hc']))]
    simp [addC, List.append_assoc]

theorem ports_names (wd : Nat → Nat) (clk : String) (sc : Scope) :
    (modPorts wd sc sc.hasReg clk).map (·.name) = (if sc.hasReg then [clk] else []) ++ (sc.inputs.map (·.1) ++ sc.outputs.map (·.1)) := by
  cases sc.hasReg <;> simp [modPorts, mkPort, List.map_map, Function.comp_def]

theorem step_sub (S : HierSrc) (d : Design) (fuel : Nat) (i : Nat) (iname : String) (body : Scope)
    (hfind : findModule d body.mname = some (scopeModule S.wd S.clk body))
    (hregs : ∀ r, GChild.reg r ∈ body.children → findModule d r.mname = some (regModuleH S.wd r))
    (hports : PortsOK S.clk body) (f : V.Flat) :
    stepF d (fuel + 2) "" f (.inst body.mname iname [] (subConns S.top.nm S.clk body)) =
      addC f (S.subPiece i iname body).toContrib := by
  have hn : ((scopeModule S.wd S.clk body).ports.map (·.name)).Nodup := by
    show ((modPorts S.wd body body.hasReg S.clk).map (·.name)).Nodup
    rw [ports_names]; exact hports
  have hpin : ∀ pk, pk ∈ body.inputs → mkPort .inp (S.wd pk.2) pk.1 ∈ (scopeModule S.wd S.clk body).ports := by
    intro pk hpk
    show _ ∈ modPorts S.wd body body.hasReg S.clk
    simp only [modPorts, List.mem_append, List.mem_map]
    left; right; exact ⟨pk, hpk, rfl⟩
  have hpout : ∀ pk, pk ∈ body.outputs → mkPort .out (S.wd pk.2) pk.1 ∈ (scopeModule S.wd S.clk body).ports := by
    intro pk hpk
    show _ ∈ modPorts S.wd body body.hasReg S.clk
    simp only [modPorts, List.mem_append, List.mem_map]
    right; exact ⟨pk, hpk, rfl⟩
  simp only [stepF, hfind, List.foldl_nil, subConns, List.foldl_append]
  rw [flatten_scope S.wd S.clk d fuel body _ (nuOf body ("" ++ iname ++ ".")) i f hregs]
  have hclk : (if body.hasReg = true then [(S.clk, Expr.id S.clk)] else []).foldl
      (connStep (scopeModule S.wd S.clk body) ("" ++ iname ++ ".") "" iname body.mname) =
      fun f => addC f { assigns := if body.hasReg then [(.lid ("" ++ iname ++ "." ++ S.clk), .id ("" ++ S.clk))] else [] } := by
    funext f
    cases hr : body.hasReg
    · simp [addC]
    · rw [if_pos rfl, fold_in_conns _ _ _ _ _ hn _ (by
        intro c hc
        simp only [List.mem_singleton] at hc
        subst hc
        refine ⟨1, ?_⟩
        show _ ∈ modPorts S.wd body body.hasReg S.clk
        simp [modPorts, hr])]
      simp [pfxE]
  rw [hclk]
  simp only []
  rw [fold_in_conns _ _ _ _ _ hn (body.inputs.map fun pk => (pk.1, Expr.id (S.top.nm pk.2))) (by
    intro c hc
    rcases List.mem_map.mp hc with ⟨pk, hpk, e⟩
    subst e
    exact ⟨_, hpin pk hpk⟩)]
  have hout : (body.outputs.map fun pk => (pk.1, Expr.id (S.top.nm pk.2))) =
      (body.outputs.map fun pk => (pk.1, S.top.nm pk.2)).map fun c => (c.1, Expr.id c.2) := by
    rw [List.map_map]; rfl
  rw [hout, fold_out_conns _ _ _ _ _ hn _ (by
    intro c hc
    rcases List.mem_map.mp hc with ⟨pk, hpk, e⟩
    subst e
    exact ⟨_, hpout pk hpk⟩)]
  simp only [addC_addC, subPiece, toContrib_app]
  congr 1
  simp [Piece.toContrib, Contrib.app, List.map_map, Function.comp_def, pfxE, List.append_assoc]

end HierSrc
end FlatM
