import Py4hwV.Emit.Hier
import Py4hwV.Proofs.C01FlatElab
/-
  C01 design level: `V.flatten` of the module list `HierSrc.emit` (top module + structural sub-modules + register modules)
  is the certificate's flattened text `HierSrc.cert.flat` — instances become prefixed copies of their bodies plus the
  port-connection assigns.
-/
set_option linter.unusedSimpArgs false
namespace FlatM
open V

/-! ### prefixing an inline form = the inline form over prefixed names -/

theorem pfxE_catChain (p : String) (l : List String) : pfxE p (catChain l) = catChain (l.map (p ++ ·)) := by
  induction l with
  | nil => rfl
  | cons a l ih =>
    cases l with
    | nil => rfl
    | cons b l => simp only [catChain, pfxE, List.map_cons] at ih ⊢; rw [ih]

theorem pfxE_rhs (p : String) (wd : Nat → Nat) (nm : Nat → String) (k : Kind) :
    pfxE p (k.rhs wd nm) = k.rhs wd (fun x => p ++ nm x) := by
  cases k
  case catm ins r => simp [Kind.rhs, pfxE_catChain, List.map_map, Function.comp_def]
  case catl ins r => simp [Kind.rhs, pfxE_catChain, List.map_map, Function.comp_def]
  case rept i r => simp [Kind.rhs, pfxE_catChain]
  case sext a r => simp only [Kind.rhs]; split <;> rfl
  all_goals rfl

theorem pfxL_lhs (p : String) (wd : Nat → Nat) (nm : Nat → String) (k : Kind) :
    pfxL p (k.lhs wd nm) = k.lhs wd (fun x => p ++ nm x) := by
  cases k
  case const v r => simp only [Kind.lhs]; split <;> rfl
  all_goals rfl

theorem pfxE_binChain (p : String) (op : String) (l : List String) : pfxE p (binChain op l) = binChain op (l.map (p ++ ·)) := by
  cases l with
  | nil => rfl
  | cons x xs =>
    simp only [binChain, List.map_cons]
    have : ∀ (e : Expr), pfxE p (xs.foldl (fun e y => Expr.bin op e (.id y)) e) =
        (xs.map (p ++ ·)).foldl (fun e y => Expr.bin op e (.id y)) (pfxE p e) := by
      induction xs with
      | nil => intro e; rfl
      | cons y ys ih => intro e; simp only [List.foldl_cons, List.map_cons]; rw [ih]; rfl
    rw [this]; rfl

def pfxA (p : String) (a : LHS × Expr) : LHS × Expr := (pfxL p a.1, pfxE p a.2)

theorem pfxA_bits (p : String) (nm : Nat → String) (a : Nat) (bits : List Nat) :
    (bitsAssigns nm a bits).map (pfxA p) = bitsAssigns (fun x => p ++ nm x) a bits := by
  match bits with
  | [] => rfl
  | [b] => rfl
  | b :: c :: rest =>
    simp only [bitsAssigns, List.map_map]
    apply List.map_congr_left
    intro bi _
    simp [pfxA, pfxL, pfxE, lit]

theorem pfxA_assigns (p : String) (wd : Nat → Nat) (nm : Nat → String) (k : GKind) :
    (k.assigns wd nm).map (pfxA p) = k.assigns wd (fun x => p ++ nm x) := by
  cases k with
  | prim q => simp [GKind.assigns, pfxA, Kind.assign, pfxE_rhs, pfxL_lhs]
  | nary op ins r ts mid =>
    cases op <;> simp [GKind.assigns, pfxA, pfxL, pfxE, pfxE_binChain, List.map_map, Function.comp_def]
  | dm isMod a b r => simp [GKind.assigns, pfxA, pfxL, pfxE]
  | equal a b r xr mid x y m0 m1 m2 m3 bits ts nmid => simp [GKind.assigns, pfxA, pfxL, pfxE, lit]
  | eqc a v r bits ns ts => simp [GKind.assigns, pfxA, pfxL, pfxE, lit]
  | bitsL a bits => exact pfxA_bits p nm a bits
  | bitsM a bits => exact pfxA_bits p nm a bits
  | nand2 a b r t => simp [GKind.assigns, pfxA, pfxL, pfxE]
  | nor2 a b r t => simp [GKind.assigns, pfxA, pfxL, pfxE]
  | xor2 a b r m x y m0 m1 m2 m3 => simp [GKind.assigns, pfxA, pfxL, pfxE]

/-! ### `V.flattenM`, one item at a time -/

/-- one port connection of an instance (same code as in `V.flattenM`) -/
def connStep (cm : Module) (cp p iname mn : String) (f : V.Flat) (c : String × Expr) : V.Flat :=
  match c with
  | (pn, pe) =>
    match cm.ports.find? (·.name == pn) with
    | none => { f with errors := f.errors ++ [s!"instance {p}{iname}: module {mn} has no port {pn}"] }
    | some pt =>
      match pt.dir with
      | .inp => { f with assigns := f.assigns ++ [(.lid (cp ++ pn), pfxE p pe)] }
      | .out =>
          match exprToLHS pe with
          | some l => { f with assigns := f.assigns ++ [(pfxL p l, .id (cp ++ pn))] }
          | none => { f with errors := f.errors ++ [s!"instance {p}{iname}: output port {pn} connected to a non-lvalue"] }
      | .inout => { f with errors := f.errors ++ [s!"instance {p}{iname}: inout port {pn} not supported"] }

/-- the item step of `V.flattenM` (same code) -/
def stepF (d : Design) (fuel : Nat) (p : String) (f : V.Flat) (it : Item) : V.Flat :=
  match it with
  | .wire n w => { f with sigs := f.sigs ++ [(p ++ n, { width := w })] }
  | .reg n w init =>
      let f := { f with sigs := f.sigs ++ [(p ++ n, { width := w })] }
      match init with
      | some e => { f with inits := f.inits ++ [(p ++ n, pfxE p e)] }
      | none => f
  | .mem n w lo hi => { f with sigs := f.sigs ++ [(p ++ n, { width := w, memLen := some (max lo hi + 1) })] }
  | .int n init =>
      let f := { f with sigs := f.sigs ++ [(p ++ n, { width := 32, signed := true })] }
      match init with
      | some e => { f with inits := f.inits ++ [(p ++ n, pfxE p e)] }
      | none => f
  | .assign l e => { f with assigns := f.assigns ++ [(pfxL p l, pfxE p e)] }
  | .always ev s => { f with procs := f.procs ++ [(pfxEv p ev, pfxS p s)] }
  | .initial s => { f with initials := f.initials ++ [pfxS p s] }
  | .inst mn iname params conns =>
      match findModule d mn with
      | none => { f with errors := f.errors ++ [s!"instance {p}{iname}: module {mn} is not defined"] }
      | some cm =>
        let cp := p ++ iname ++ "."
        let f := flattenM d fuel cm cp f
        let f := params.foldl (fun f (pn, pe) =>
          if cm.params.contains pn then { f with assigns := f.assigns ++ [(.lid (cp ++ pn), pfxE p pe)] }
          else { f with errors := f.errors ++ [s!"instance {p}{iname}: module {mn} has no parameter {pn}"] }) f
        conns.foldl (connStep cm cp p iname mn) f

theorem flattenM_eq (d : Design) (fuel : Nat) (m : Module) (p : String) (f : V.Flat) :
    flattenM d (fuel + 1) m p f =
      m.items.foldl (stepF d fuel p)
        (m.params.foldl (fun f pn => { f with sigs := f.sigs ++ [(p ++ pn, ({ width := 32, signed := true } : SigInfo))] })
          (m.ports.foldl (fun f pt => { f with sigs := f.sigs ++ [(p ++ pt.name, ({ width := pt.width } : SigInfo))] }) f)) := by
  rw [flattenM]
  rfl

namespace HierSrc
open FlatSrc (mkPort regBody0 portSig ports_fold pfx_regBody0)

def Piece.toContrib (P : Piece) : Contrib :=
  { sigs := P.sigs.map fun nw => (nw.1, ({ width := nw.2 } : SigInfo)),
    inits := P.regs.map fun R => (R.pfx ++ "rq", FlatM.lit R.leaf.rv),
    assigns := P.assigns, procs := P.regs.map RegI.proc }

theorem toContrib_app (a b : Piece) : (a.app b).toContrib = a.toContrib.app b.toContrib := by
  simp [Piece.toContrib, Piece.app, Contrib.app]

theorem toContrib_join (ps : List Piece) : (Piece.join ps).toContrib = Contrib.join (ps.map Piece.toContrib) := by
  induction ps with
  | nil => rfl
  | cons a ps ih =>
    have : Piece.join (a :: ps) = a.app (Piece.join ps) := by simp [Piece.join, Piece.app]
    rw [this, toContrib_app, ih, List.map_cons, join_cons]

theorem step_assigns (d : Design) (fuel : Nat) (p : String) (as : List (LHS × Expr)) (f : V.Flat) :
    (as.map fun a => Item.assign a.1 a.2).foldl (stepF d fuel p) f = addC f { assigns := as.map (pfxA p) } := by
  induction as generalizing f with
  | nil => simp [addC]
  | cons a as ih =>
    simp only [List.map_cons, List.foldl_cons, stepF]
    rw [ih]
    simp [addC, pfxA, List.append_assoc]

theorem flatten_regModuleH (wd : Nat → Nat) (d : Design) (fuel : Nat) (r : RegSrc) (cp : String) (f : V.Flat) :
    flattenM d (fuel + 1) (regModuleH wd r) cp f =
      addC f { sigs := [(cp ++ "clk", { width := 1 }), (cp ++ "d", { width := wd r.leaf.d })] ++
                 (if r.leaf.hasE then [(cp ++ "e", { width := wd r.leaf.e })] else []) ++
                 (if r.leaf.hasR then [(cp ++ "r", { width := wd r.leaf.r })] else []) ++
                 [(cp ++ "q", { width := wd r.leaf.q }), (cp ++ "rq", { width := wd r.leaf.q })],
               inits := [(cp ++ "rq", FlatM.lit r.leaf.rv)],
               assigns := [(.lid (cp ++ "q"), .id (cp ++ "rq"))],
               procs := [(.pos (cp ++ "clk"), regBodyP cp r.leaf.hasR r.leaf.hasE r.leaf.rv)] } := by
  cases hE : r.leaf.hasE <;> cases hR : r.leaf.hasR <;>
    simp [flattenM, regModuleH, addC, hE, hR, mkPort, pfxL, pfxE, pfxEv, pfx_regBody0, lit, List.append_assoc]

/-- a register instance inside a module flattened under `p` -/
theorem step_reg (wd : Nat → Nat) (d : Design) (fuel : Nat) (p : String) (nm : Nat → String) (clk : String) (r : RegSrc)
    (hfind : findModule d r.mname = some (regModuleH wd r)) (f : V.Flat) :
    stepF d (fuel + 1) p f (.inst r.mname r.iname [] (regConnsH nm clk r)) =
      addC f (regPiece wd (fun x => p ++ nm x) p (p ++ clk) r).toContrib := by
  simp only [stepF, hfind, flatten_regModuleH, List.foldl_nil]
  cases hE : r.leaf.hasE <;> cases hR : r.leaf.hasR <;>
    simp [regConnsH, regModuleH, regPiece, Piece.toContrib, addC, hE, hR, mkPort, pfxL, pfxE, exprToLHS, RegI.proc,
      List.append_assoc, List.find?, connStep]

theorem fold_gchildren (wd : Nat → Nat) (d : Design) (fuel : Nat) (p : String) (nm : Nat → String) (clk : String)
    (nu : List (Nat × String)) (cs : List GChild) (i0 : Nat) (f : V.Flat)
    (hfind : ∀ r, GChild.reg r ∈ cs → findModule d r.mname = some (regModuleH wd r)) :
    (cs.flatMap (gchildItems wd nm clk)).foldl (stepF d (fuel + 1) p) f =
      addC f (Piece.join (gchildPieces wd (fun x => p ++ nm x) nu p (p ++ clk) i0 cs)).toContrib := by
  induction cs generalizing i0 f with
  | nil => simp [gchildPieces, Piece.join, Piece.toContrib, addC]
  | cons c cs ih =>
    have hj : ∀ (P : Piece) (ps : List Piece), (Piece.join (P :: ps)).toContrib = P.toContrib.app (Piece.join ps).toContrib := by
      intro P ps
      have : Piece.join (P :: ps) = P.app (Piece.join ps) := by simp [Piece.join, Piece.app]
      rw [this, toContrib_app]
    cases c with
    | kind k =>
      simp only [List.flatMap_cons, List.foldl_append, gchildItems, gchildPieces]
      rw [step_assigns, ih (i0 + 1) _ (fun r hr => hfind r (by simp [hr])), addC_addC, hj]
      congr 1
      simp [kindPiece, Piece.toContrib, pfxA_assigns]
    | reg r =>
      simp only [List.flatMap_cons, List.foldl_append, gchildItems, gchildPieces, List.foldl_cons, List.foldl_nil]
      rw [step_reg wd d fuel p nm clk r (hfind r (by simp)), ih i0 _ (fun r' hr => hfind r' (by simp [hr])), addC_addC, hj]

theorem flatMap_single_eq_map {α β : Type} (l : List α) (g : α → β) : (l.flatMap fun a => [g a]) = l.map g := by
  induction l with
  | nil => rfl
  | cons a l ih => simp [List.flatMap_cons, ih]

theorem modDecl_contrib {χ : Type} (wd : Nat → Nat) (M : Mod χ) (p : String) (hasClk : Bool) (clk : String) :
    (modDeclPiece wd M p hasClk clk).toContrib =
      ({ sigs := (modPorts wd M hasClk clk).map (portSig p) } : Contrib).app
        (Contrib.join (M.locals.map fun k => ({ sigs := [(p ++ M.nm k, { width := wd k })] } : Contrib))) := by
  cases hasClk <;>
    simp [modDeclPiece, Piece.toContrib, Contrib.app, Contrib.join, modPorts, portSig, mkPort, List.map_map, Function.comp_def,
      List.flatMap_map, flatMap_single_eq_map]

/-! ### an instance of a structural sub-module -/

theorem find_port (ports : List Port) (hn : (ports.map (·.name)).Nodup) (pt : Port) (hpt : pt ∈ ports) :
    ports.find? (·.name == pt.name) = some pt := by
  induction ports with
  | nil => cases hpt
  | cons a l ih =>
    simp only [List.map_cons, List.nodup_cons] at hn
    simp only [List.mem_cons] at hpt
    rw [List.find?_cons]
    rcases hpt with e | hpt
    · subst e; simp
    · have hne : (a.name == pt.name) = false := by
        simp only [beq_eq_false_iff_ne, ne_eq]
        intro e
        exact hn.1 (e ▸ List.mem_map.mpr ⟨pt, hpt, rfl⟩)
      rw [hne]
      exact ih hn.2 hpt

/-- the port names of a sub-module (clock first when it has a register) are pairwise different -/
theorem fold_in_conns (cm : Module) (cp p iname mn : String) (hn : (cm.ports.map (·.name)).Nodup)
    (l : List (String × Expr)) (hl : ∀ c, c ∈ l → ∃ w, mkPort .inp w c.1 ∈ cm.ports) (f : V.Flat) :
    l.foldl (connStep cm cp p iname mn) f = addC f { assigns := l.map fun c => (.lid (cp ++ c.1), pfxE p c.2) } := by
  induction l generalizing f with
  | nil => simp [addC]
  | cons c l ih =>
    obtain ⟨w, hw⟩ := hl c (by simp)
    have hfp := find_port cm.ports hn _ hw
    simp only [mkPort] at hfp
    obtain ⟨pn, pe⟩ := c
    simp only [List.foldl_cons, connStep, hfp]
    rw [ih (fun c' hc' => hl c' (by simp [hc']))]
    simp [addC, List.append_assoc]

theorem fold_out_conns (cm : Module) (cp p iname mn : String) (hn : (cm.ports.map (·.name)).Nodup)
    (l : List (String × String)) (hl : ∀ c, c ∈ l → ∃ w, mkPort .out w c.1 ∈ cm.ports) (f : V.Flat) :
    (l.map fun c => (c.1, Expr.id c.2)).foldl (connStep cm cp p iname mn) f =
      addC f { assigns := l.map fun c => (.lid (p ++ c.2), .id (cp ++ c.1)) } := by
  induction l generalizing f with
  | nil => simp [addC]
  | cons c l ih =>
    obtain ⟨w, hw⟩ := hl c (by simp)
    have hfp := find_port cm.ports hn _ hw
    simp only [mkPort] at hfp
    obtain ⟨pn, n⟩ := c
    simp only [List.map_cons, List.foldl_cons, connStep, hfp, exprToLHS, pfxL]
    rw [ih (fun c' hc' => hl c' (by simp [hc']))]
    simp [addC, List.append_assoc]

theorem ports_names {χ : Type} (wd : Nat → Nat) (clk : String) (hr : Bool) (sc : Mod χ) :
    (modPorts wd sc hr clk).map (·.name) = (if hr then [clk] else []) ++ (sc.inputs.map (·.1) ++ sc.outputs.map (·.1)) := by
  cases hr <;> simp [modPorts, mkPort, List.map_map, Function.comp_def]

/-! ### a level is correct when the items of its children flatten to their pieces -/

variable {χ : Type}

/-- correctness of a level whose children nest at most `k` deep: under ANY instance prefix `p`, with enough fuel, every
    module found in the list -/
def LowOK (wd : Nat → Nat) (clk : String) (L : Low χ) (k : Nat) : Prop :=
  ∀ (d : Design) (fuel : Nat) (p : String) (nm : Nat → String) (nu : List (Nat × String)) (cs : List χ) (i0 : Nat) (f : V.Flat),
    (∀ m, m ∈ cs.flatMap L.mods → findModule d m.name = some m) → L.portsOK cs = true →
    (cs.flatMap (L.items nm)).foldl (stepF d (fuel + k + 1) p) f =
      addC f (Piece.join (L.pieces (fun x => p ++ nm x) nu p (p ++ clk) i0 cs)).toContrib

theorem low0_ok (wd : Nat → Nat) (clk : String) : LowOK wd clk (low0 wd clk) 0 := by
  intro d fuel p nm nu cs i0 f hfind _
  exact fold_gchildren wd d fuel p nm clk nu cs i0 f
    (fun r hr => hfind (regModuleH wd r) (List.mem_flatMap.mpr ⟨_, hr, by simp [low0, gchildMods]⟩))

/-- **a structural module, flattened under ANY instance prefix** -/
theorem flatten_mod (wd : Nat → Nat) (clk : String) (L : Low χ) (k : Nat) (hL : LowOK wd clk L k) (d : Design) (fuel : Nat)
    (b : Mod χ) (p : String) (i0 : Nat) (f : V.Flat)
    (hfind : ∀ m, m ∈ b.children.flatMap L.mods → findModule d m.name = some m) (hp : L.portsOK b.children = true) :
    flattenM d (fuel + k + 2) (L.modOf wd clk b) p f = addC f (L.modPiece wd clk b p i0).toContrib := by
  show flattenM d ((fuel + k + 1) + 1) (L.modOf wd clk b) p f = _
  rw [flattenM_eq]
  simp only [Low.modOf, List.foldl_nil, ports_fold, List.foldl_append, List.foldl_map]
  rw [fold_addC _ b.locals (fun k => ({ sigs := [(p ++ b.nm k, { width := wd k })] } : Contrib))
    (by intro f k _; simp [stepF, addC])]
  rw [hL d fuel p b.nm (nuOf b p) b.children i0 _ hfind hp]
  rw [addC_addC, addC_addC, Low.modPiece, toContrib_app, modDecl_contrib, Contrib.app]
  simp [Contrib.app, List.append_assoc]

/-- **an instance of a structural sub-module**: the body under the instance prefix, then the port connections -/
theorem step_sub (wd : Nat → Nat) (clk : String) (L : Low χ) (k : Nat) (hL : LowOK wd clk L k) (d : Design) (fuel : Nat)
    (p : String) (nm : Nat → String) (i : Nat) (iname : String) (body : Mod χ)
    (hmod : findModule d body.mname = some (L.modOf wd clk body))
    (hfind : ∀ m, m ∈ body.children.flatMap L.mods → findModule d m.name = some m) (hp : L.portsOK body.children = true)
    (hports : PortsOK clk (L.modHasReg body) body) (f : V.Flat) :
    stepF d (fuel + k + 2) p f (.inst body.mname iname [] (subConns nm clk (L.modHasReg body) body)) =
      addC f (L.subPiece wd clk (fun x => p ++ nm x) p (p ++ clk) i iname body).toContrib := by
  have hn : ((L.modOf wd clk body).ports.map (·.name)).Nodup := by
    show ((modPorts wd body (L.modHasReg body) clk).map (·.name)).Nodup
    rw [ports_names]; exact hports
  have hpin : ∀ pk, pk ∈ body.inputs → mkPort .inp (wd pk.2) pk.1 ∈ (L.modOf wd clk body).ports := by
    intro pk hpk
    show _ ∈ modPorts wd body (L.modHasReg body) clk
    simp only [modPorts, List.mem_append, List.mem_map]
    left; right; exact ⟨pk, hpk, rfl⟩
  have hpout : ∀ pk, pk ∈ body.outputs → mkPort .out (wd pk.2) pk.1 ∈ (L.modOf wd clk body).ports := by
    intro pk hpk
    show _ ∈ modPorts wd body (L.modHasReg body) clk
    simp only [modPorts, List.mem_append, List.mem_map]
    right; exact ⟨pk, hpk, rfl⟩
  simp only [stepF, hmod, List.foldl_nil, subConns, List.foldl_append]
  rw [flatten_mod wd clk L k hL d fuel body _ i f hfind hp]
  have hclk : ∀ f, (if L.modHasReg body = true then [(clk, Expr.id clk)] else []).foldl
      (connStep (L.modOf wd clk body) (p ++ iname ++ ".") p iname body.mname) f =
      addC f { assigns := if L.modHasReg body then [(.lid (p ++ iname ++ "." ++ clk), .id (p ++ clk))] else [] } := by
    intro f
    cases hr : L.modHasReg body
    · simp [addC]
    · rw [if_pos rfl, fold_in_conns _ _ _ _ _ hn _ (by
        intro c hc
        simp only [List.mem_singleton] at hc
        subst hc
        refine ⟨1, ?_⟩
        show _ ∈ modPorts wd body (L.modHasReg body) clk
        simp [modPorts, hr])]
      simp [pfxE]
  rw [hclk]
  rw [fold_in_conns _ _ _ _ _ hn (body.inputs.map fun pk => (pk.1, Expr.id (nm pk.2))) (by
    intro c hc
    rcases List.mem_map.mp hc with ⟨pk, hpk, e⟩
    subst e
    exact ⟨_, hpin pk hpk⟩)]
  have hout : (body.outputs.map fun pk => (pk.1, Expr.id (nm pk.2))) =
      (body.outputs.map fun pk => (pk.1, nm pk.2)).map fun c => (c.1, Expr.id c.2) := by
    rw [List.map_map]; rfl
  rw [hout, fold_out_conns _ _ _ _ _ hn _ (by
    intro c hc
    rcases List.mem_map.mp hc with ⟨pk, hpk, e⟩
    subst e
    exact ⟨_, hpout pk hpk⟩)]
  simp only [addC_addC, Low.subPiece, toContrib_app]
  congr 1
  simp [Piece.toContrib, Contrib.app, List.map_map, Function.comp_def, pfxE, List.append_assoc]

/-! ### the next level -/

theorem up_items_g (wd : Nat → Nat) (clk : String) (L : Low χ) (nm : Nat → String) (c : GChild) :
    (L.up wd clk).items nm (.g c) = gchildItems wd nm clk c := rfl
theorem up_items_sub (wd : Nat → Nat) (clk : String) (L : Low χ) (nm : Nat → String) (iname : String) (b : Mod χ) :
    (L.up wd clk).items nm (.sub iname b) = [.inst b.mname iname [] (subConns nm clk (L.modHasReg b) b)] := rfl
theorem up_mods_g (wd : Nat → Nat) (clk : String) (L : Low χ) (c : GChild) : (L.up wd clk).mods (.g c) = gchildMods wd c := rfl
theorem up_mods_sub (wd : Nat → Nat) (clk : String) (L : Low χ) (iname : String) (b : Mod χ) :
    (L.up wd clk).mods (.sub iname b) = L.modOf wd clk b :: b.children.flatMap L.mods := rfl
theorem up_pieces (wd : Nat → Nat) (clk : String) (L : Low χ) : (L.up wd clk).pieces = L.childPieces wd clk := rfl
theorem up_portsOK (wd : Nat → Nat) (clk : String) (L : Low χ) (cs : List (HChild χ)) :
    (L.up wd clk).portsOK cs = cs.all fun c => match c with
      | .g _ => true
      | .sub _ b => decide (PortsOK clk (L.modHasReg b) b) && L.portsOK b.children := rfl

theorem fold_children (wd : Nat → Nat) (clk : String) (L : Low χ) (k : Nat) (hL : LowOK wd clk L k) (d : Design) (fuel : Nat)
    (p : String) (nm : Nat → String) (nu : List (Nat × String)) (cs : List (HChild χ)) (i0 : Nat) (f : V.Flat)
    (hfind : ∀ m, m ∈ cs.flatMap (L.up wd clk).mods → findModule d m.name = some m) (hp : (L.up wd clk).portsOK cs = true) :
    (cs.flatMap ((L.up wd clk).items nm)).foldl (stepF d (fuel + k + 2) p) f =
      addC f (Piece.join (L.childPieces wd clk (fun x => p ++ nm x) nu p (p ++ clk) i0 cs)).toContrib := by
  induction cs generalizing i0 f with
  | nil => simp [Low.childPieces, Piece.join, Piece.toContrib, addC]
  | cons c cs ih =>
    have hj : ∀ (P : Piece) (ps : List Piece), (Piece.join (P :: ps)).toContrib = P.toContrib.app (Piece.join ps).toContrib := by
      intro P ps
      have : Piece.join (P :: ps) = P.app (Piece.join ps) := by simp [Piece.join, Piece.app]
      rw [this, toContrib_app]
    have hfind' : ∀ m, m ∈ cs.flatMap (L.up wd clk).mods → findModule d m.name = some m :=
      fun m hm => hfind m (by simp only [List.flatMap_cons, List.mem_append]; exact Or.inr hm)
    have hp' : (L.up wd clk).portsOK cs = true := by
      rw [up_portsOK] at hp ⊢
      simp only [List.all_cons, Bool.and_eq_true] at hp
      exact hp.2
    cases c with
    | g c =>
      cases c with
      | kind kk =>
        simp only [List.flatMap_cons, List.foldl_append, up_items_g, gchildItems, Low.childPieces]
        rw [step_assigns, ih (i0 + 1) _ hfind' hp', addC_addC, hj]
        congr 1
        simp [kindPiece, Piece.toContrib, pfxA_assigns]
      | reg r =>
        simp only [List.flatMap_cons, List.foldl_append, up_items_g, gchildItems, Low.childPieces, List.foldl_cons, List.foldl_nil]
        rw [step_reg wd d (fuel + k + 1) p nm clk r (hfind (regModuleH wd r) (by
          simp [up_mods_g, gchildMods])),
          ih i0 _ hfind' hp', addC_addC, hj]
    | sub iname body =>
      have hsub : ∀ m, m ∈ L.modOf wd clk body :: body.children.flatMap L.mods → findModule d m.name = some m :=
        fun m hm => hfind m (by simp only [List.flatMap_cons, List.mem_append, up_mods_sub]; exact Or.inl hm)
      have hpb : PortsOK clk (L.modHasReg body) body ∧ L.portsOK body.children = true := by
        rw [up_portsOK] at hp
        simp only [List.all_cons, Bool.and_eq_true, decide_eq_true_eq] at hp
        exact hp.1
      simp only [List.flatMap_cons, List.foldl_append, up_items_sub, Low.childPieces, List.foldl_cons, List.foldl_nil]
      rw [step_sub wd clk L k hL d fuel p nm i0 iname body (hsub _ (List.mem_cons_self ..))
        (fun m hm => hsub m (List.mem_cons_of_mem _ hm)) hpb.2 hpb.1, ih _ _ hfind' hp', addC_addC, hj]

theorem up_ok (wd : Nat → Nat) (clk : String) (L : Low χ) (k : Nat) (hL : LowOK wd clk L k) : LowOK wd clk (L.up wd clk) (k + 1) := by
  intro d fuel p nm nu cs i0 f hfind hp
  rw [up_pieces]
  exact fold_children wd clk L k hL d fuel p nm nu cs i0 f hfind hp

theorem lowN_ok (wd : Nat → Nat) (clk : String) : ∀ n, LowOK wd clk (lowN wd clk n) n
  | 0 => low0_ok wd clk
  | n + 1 => up_ok wd clk _ n (lowN_ok wd clk n)

/-! ### module lookup in the emitted list -/

theorem find_dedup (ms : List Module) (hc : ∀ m m', m ∈ ms → m' ∈ ms → m.name = m'.name → m = m') (m : Module) (hm : m ∈ ms) :
    findModule (FlatSrc.dedupMods ms) m.name = some m := by
  have ⟨h1, h2⟩ := FlatSrc.dedup_aux ms []
  obtain ⟨m', hm', hname⟩ := h2 m (Or.inr hm)
  unfold findModule
  have hsome : ((FlatSrc.dedupMods ms).find? (·.name == m.name)).isSome = true := by
    rw [List.find?_isSome]
    exact ⟨m', hm', by simp [hname]⟩
  cases hf : (FlatSrc.dedupMods ms).find? (·.name == m.name) with
  | none => rw [hf] at hsome; cases hsome
  | some x =>
    have hx : x ∈ FlatSrc.dedupMods ms := List.mem_of_find?_eq_some hf
    have hxn := List.find?_some hf
    simp only [beq_iff_eq] at hxn
    rcases h1 x hx with h0 | h0
    · cases h0
    · rw [hc x m h0 hm hxn]


theorem emit_length (S : HierSrc) (h : S.depth ≤ S.emit.length) : ∃ n, S.emit.length = n + S.depth :=
  ⟨S.emit.length - S.depth, by omega⟩

theorem piece_flat (S : HierSrc) : addC {} S.piece.toContrib = S.cert.flat := by
  simp [addC, Piece.toContrib, cert, CertSrc.flat, CertSrc.inits, CertSrc.procs]

/-- **the emitted module list, flattened, is the flat text the certificate describes** (any nesting depth) -/
theorem flatten_emitH (S : HierSrc) (h : S.modsOKb = true) : flatten S.emit S.top.mname = S.cert.flat := by
  simp only [modsOKb, Bool.and_eq_true, List.all_eq_true, decide_eq_true_eq] at h
  obtain ⟨⟨hc, hp⟩, hlen⟩ := h
  have hfd := find_dedup S.mods (fun m m' hm hm' => hc m hm m' hm')
  obtain ⟨n, hn⟩ := emit_length S hlen
  unfold flatten
  have htop : findModule S.emit S.top.mname = some S.topModule := hfd S.topModule (List.mem_cons_self ..)
  rw [htop]
  simp only
  rw [hn, ← piece_flat]
  exact flatten_mod S.wd S.clk S.low S.depth (lowN_ok S.wd S.clk S.depth) S.emit n S.top "" 0 {}
    (fun m hm => hfd m (List.mem_cons_of_mem _ hm)) hp

end HierSrc
end FlatM
